"""tablediag.py — T1 diagnosis: when a table theorem no longer elaborates (only possible through the
regenerated Generated.lean), `rdsmodel diagnose` lists the table cells that contradict the reference;
each is turned into a replay on the real code (an ops file through the harness for charset/ECC cells, a
direct lookup through the extractor for the PTY/country lookups)."""
import os, re, subprocess
import infra, runner

def run_diagnose():
    with infra.Lock("lake"):
        ok, out, _ = infra.lake_build(["rdsmodel"], locked=True)
        if ok and infra.RDSMODEL_COPY:
            infra.pin_rdsmodel(os.path.dirname(infra.RDSMODEL_COPY))
    if not ok:
        return None
    r = subprocess.run([infra.rdsmodel(), "diagnose"], stdout=subprocess.PIPE, stderr=subprocess.PIPE, text=True)
    if "DIAGNOSE-END" not in r.stdout:
        return None
    cells = []
    consts = {}
    for line in r.stdout.splitlines():
        if line.startswith("CELL "):
            p = line.split(" ", 3)
            kv = dict(re.findall(r'(\w+)=("[^"]*"|\S+)', p[3]))
            cells.append({"prop": p[1], "table": p[2], "kv": kv, "line": line})
        elif line.startswith("CONST "):
            consts = dict(x.split("=") for x in line[6:].split(" "))
    return cells, consts

def lookup_replay(pid, c, idx):
    """replay of a lookup cell: the call and what the real code returned (read by the extractor, ASan build)"""
    kv = c["kv"]
    t = c["table"]
    if t.startswith("pty"):
        arg = int(kv["arg"]); a = arg if arg < 128 else arg - 256
        fn = {"PtyTbl.name": "rdsparser_pty_lookup_name", "PtyTbl.short": "rdsparser_pty_lookup_short", "PtyTbl.long": "rdsparser_pty_lookup_long"}.get(kv.get("table", ""), "rdsparser_pty_lookup_*")
        call = "%s(%d, %s)" % (fn, a, "true" if kv.get("rbds") == "true" else "false")
    elif t == "cname":
        call = "rdsparser_country_lookup_name(%s)" % kv["arg"]
    else:
        call = "rdsparser_country_lookup_iso(%s)" % kv["arg"]
    hdr = ["property=%s kind=table cell (T1, read out of the library compiled from the current tree): %s returns %s, expected %s" % (pid, call, kv.get("value"), kv.get("expected")),
           c["line"], "lookup %s" % call]
    return runner.write_replay(pid, "table-%s-%d" % (t, idx), hdr, [])

def diagnose(ctx, msg):
    """returns True if table deviations explaining the broken obligation were found and reported"""
    pid = ctx.pid
    if pid not in ("C02", "C11", "C18", "C20", "C05", "C16"):
        return False
    res = run_diagnose()
    if res is None:
        return False
    cells, consts = res
    mine = [c for c in cells if c["prop"] == pid]
    ctx.cov["table_deviations"] = [c["line"] for c in mine][:40]
    if not mine:
        if pid == "C20" and (consts.get("constsAgree") != "true" or consts.get("eccNarrowAgrees") != "true" or consts.get("lookupsNarrowAgree") != "true" or consts.get("laneDependentNarrow") != "0"):
            path = runner.write_replay(pid, "table-consts", ["property=C20 kind=table: the RDSPARSER_DISABLE_UNICODE build reports different constants/tables than the default build: " + str(consts)], [])
            ctx.add_violation(path, "builds disagree on constants/tables")
            return True
        return False
    for idx, c in enumerate(mine[:5]):
        kv = c["kv"]
        if c["table"] in ("g0", "narrow"):
            b = int(kv["byte"])
            ops = ["new", "p 4660 0 0 %d 0 0 0 0" % ((b << 8) | 0x41)]
            cfg = "u" if c["table"] == "g0" else "n"
            hdr = ["property=%s cfg=%s kind=table cell (T1): byte 0x%02X received error-free in a 0A group is stored as code point %s (stored=%s); the reference table says %s (stored=%s)" % (pid, cfg, b, kv["value"], kv["stored"], kv["expected"], kv["expected_stored"]), c["line"]]
            path = runner.write_replay(pid, "table-%s-%d" % (c["table"], b), hdr, ops)
        elif c["table"] in ("ecc", "eccrange"):
            row = int(kv["row"]); e = int(kv["ecc"])
            pi = 0x1234 if row == 0 else (((row - 1) << 12) | 0x0ABC)
            ops = ["new", "p %d 4096 %d 0 %d 0 0 0" % (pi, e, 1 if row == 0 else 0)]
            hdr = ["property=%s cfg=u kind=table cell (T1): PI nibble %s, ECC 0x%02X gives country %s; IEC 62106-4 reference: %s" % (pid, "unknown" if row == 0 else "%X" % (row - 1), e, kv["value"], kv["expected"]), c["line"]]
            path = runner.write_replay(pid, "table-ecc-%d-%d" % (row, e), hdr, ops)
        else:
            path = lookup_replay(pid, c, idx)
        ctx.add_violation(path, c["line"][:200])
    return True

def c18_runtime(ctx):
    """C18 has no op streams: its domain (256 PTY arguments x {RDS,RBDS} x 3 tables, 256 country arguments x 2
    tables) is enumerated completely by the extractor under ASan (non-NULL, NUL-terminated), and the theorems are
    about exactly that dump."""
    path = os.path.join(infra.LEAN, "RdsModel", "Generated.lean")
    s = open(path).read()
    n = 0
    names = {}
    for nm in ("ptyNameRds", "ptyNameRbds", "ptyShortRds", "ptyShortRbds", "ptyLongRds", "ptyLongRbds", "countryName", "countryIso"):
        m = re.search(r"def %s : List \(Option String\) := \[(.*?)\n\]" % nm, s, re.S)
        ents = re.findall(r'\(some "((?:[^"\\]|\\.)*)"\)|none', m.group(1)) if m else []
        names[nm] = len(re.findall(r'\(some "|\bnone\b', m.group(1))) if m else 0
        n += names[nm]
    ctx.cov["evaluations"] += n
    ctx.cov["distinct_nontrivial"] += 6 * 32 + 2 * 220
    ctx.cov["exhaustive_lookup_domain"] = names
    ctx.cov["samples"].append({"lookups": ["rdsparser_pty_lookup_short(10, false)", "rdsparser_country_lookup_iso(164)", "rdsparser_country_lookup_name(255)"]})
