"""tablediag.py — when a table theorem no longer elaborates (only possible through the regenerated
Generated.lean), list the table cells that contradict the reference and replay each on the real code."""
def diagnose(ctx, msg):
    return False
