"""runner.py — the machinery behind check.py: streams, twin runs, shrinking, verdicts, evidence."""
import argparse, json, os, random, re, shutil, subprocess, sys, time, traceback

VERIF = os.path.dirname(os.path.dirname(os.path.abspath(__file__)))
import re
import infra, gen, twins, trace as tracemod
from infra import log, WORK, LEAN

REPLAYS = os.path.join(VERIF, "replays")
EVID = os.path.join(VERIF, "evidence")

TRUSTED_BASE = [
    "Lean 4.33.0 kernel (theorems re-elaborated by `lake build` on this run; thorough tier also re-checks the .olean files with leanchecker)",
    "axioms reported by #print axioms for the property's theorems (audited on this run to be a subset of propext, Classical.choice, Quot.sound); no native_decide, no bv_decide, no sorry/admit, no axioms of our own",
    "the hand-written reference tables in lean/RdsSpec/Reference.lean (RDS G0 charset, IEC 62106-4 ECC table, ISO 3166-1 codes, PTY names) and the property statements in lean/RdsSpec/Monitors.lean / Statements.lean",
    "the tie between model and code, three parts: T0 tools/c2lean.py (translator from the clang AST of /repo/src/*.c to pure Lean; trusted, with the four packed-string layout primitives) + the refinement theorems of lean/RdsProps/Refinement.lean (kernel-checked: every translated function IS the model function, crun_refines for every history); T1 harness/extract.c + tools/genlean.py (tables regenerated from the compiled current source, complete finite domains); T2 harness/harness.c + lean/Main.lean (differential correspondence and monitors on the compiled library; sampled + swept, not proved)",
    "modelled, not verified: gcc/clang, glibc (strtol, strlen, memset, malloc), struct layout, wchar_t literals, absence of UB and of data races (exercised by ASan/UBSan/MSan/valgrind/TSan/segment check, never claimed as proved)",
]

class Verdict:
    def __init__(self, pid):
        self.pid = pid
        self.violations = []      # (replay path, note)
        self.known = []           # strings
        self.notes = []
    def violation(self, replay, note=""):
        self.violations.append((replay, note))

def write_replay(pid, name, header, ops_lines):
    os.makedirs(REPLAYS, exist_ok=True)
    path = os.path.join(REPLAYS, f"{pid}-{name}.ops")
    with open(path, "w") as f:
        for h in header:
            f.write("# " + h + "\n")
        for l in ops_lines:
            f.write(l + "\n")
    return path

# ------------------------------------------------------------------------------------------
# running one stream: harness -> trace -> rdsmodel check -> report
# ------------------------------------------------------------------------------------------
class RunResult:
    pass

def run_stream(workdir, name, cfg, ops, kind="harness"):
    os.makedirs(workdir, exist_ok=True)
    ops_path = os.path.join(workdir, name + ".ops")
    tr_path = os.path.join(workdir, name + ".trace")
    gen.write_ops(ops_path, ops)
    rc, err = infra.run_harness(cfg, ops_path, tr_path, kind=kind)
    res = RunResult()
    res.name = name; res.cfg = cfg; res.ops = ops; res.ops_path = ops_path; res.trace_path = tr_path
    res.harness_rc = rc; res.harness_err = err
    res.report = None
    return res

def check_stream(res):
    rc, out, err = infra.run_check(res.cfg, res.ops_path, res.trace_path)
    res.report = infra.parse_report(out)
    res.report_text = out
    if rc != 0:
        res.report["err"].append("ERR driver exit %d: %s" % (rc, err[-300:]))
    return res.report

def reproduces(workdir, cfg, ops, pred, tag="shrink"):
    """does the ops list still make `pred(report, harness_rc)` true?"""
    r = run_stream(workdir, tag, cfg, ops)
    rep = check_stream(r) if os.path.getsize(r.trace_path) > 0 else {"div": [], "mon": [], "err": ["empty"], "x": [], "stat": {}}
    return pred(rep, r.harness_rc)

def shrink(workdir, cfg, ops, pred, budget_s=25.0, max_runs=400):
    """ddmin on the op list (keeping it well-formed: the first op must create the instance)"""
    t0 = time.time()
    runs = 0
    cur = list(ops)
    def ok(cand):
        nonlocal runs
        runs += 1
        try:
            return reproduces(workdir, cfg, cand, pred)
        except Exception:
            return False
    n = 2
    while len(cur) >= 2 and time.time() - t0 < budget_s and runs < max_runs:
        chunk = max(1, len(cur) // n)
        reduced = False
        for i in range(0, len(cur), chunk):
            cand = cur[:i] + cur[i + chunk:]
            if not cand:
                continue
            if ok(cand):
                cur = cand
                n = max(n - 1, 2)
                reduced = True
                break
            if time.time() - t0 > budget_s or runs >= max_runs:
                break
        if not reduced:
            if chunk == 1:
                break
            n = min(n * 2, len(cur))
    return cur

def slice_for_instance(ops, upto):
    """prefix of the ops file up to op index `upto` (inclusive)"""
    out = []
    k = -1
    for line in ops:
        t = line.strip()
        if not t or t.startswith("#"):
            continue
        k += 1
        out.append(line)
        if k >= upto:
            break
    return out

# ------------------------------------------------------------------------------------------
# twin runs (impl vs impl)
# ------------------------------------------------------------------------------------------
def text_event(e):
    return tracemod.ev_kind(e) >= 8

def run_twin(workdir, name, tw, cfg_a="u", cfg_b=None, embed=None):
    """returns (list of differences [(ia, ib, comp, va, vb)], records compared, harness failures)"""
    cfg_b = cfg_b or cfg_a
    ra = run_stream(workdir, name + "_a", cfg_a, tw["a"])
    rb = run_stream(workdir, name + "_b", cfg_b, tw["b"])
    fails = [(r.name, r.harness_rc, r.harness_err[-2000:]) for r in (ra, rb) if r.harness_rc != 0]
    recs_a = [r for r in tracemod.read_trace(ra.trace_path)]
    recs_b = [r for r in tracemod.read_trace(rb.trace_path)]
    diffs = []
    n = 0
    evf = text_event if tw.get("events") == "text" else None
    if tw.get("require_event"):
        # the twin's premise: callback `kind` runs during record ia of run A and record ib of run B (it is the one that acts);
        # where it does not, the pair says nothing
        ia, ib, kind = tw["require_event"]
        ok = (ia < len(recs_a) and ib < len(recs_b) and recs_a[ia] is not None and recs_b[ib] is not None and
              any(tracemod.ev_kind(e) == kind for e in recs_a[ia].evs) and any(tracemod.ev_kind(e) == kind for e in recs_b[ib].evs))
        if not ok:
            return [], 0, fails, ra, rb
    for ia, ib in tw["pairs"]:
        if ia >= len(recs_a) or ib >= len(recs_b) or recs_a[ia] is None or recs_b[ib] is None:
            break
        n += 1
        d = tracemod.compare_records(recs_a[ia], recs_b[ib], state_keys=tw.get("keys"),
                                     compare_events=bool(tw.get("events")), compare_ret=tw.get("ret", True),
                                     ev_filter=evf, embed=embed)
        for comp, va, vb in d:
            diffs.append((ia, ib, comp, va, vb))
        if tw.get("common") is not None and ia < len(tw["common"]):
            # the two runs differ in what is registered and in the user data: the reports of a callback that is registered in
            # BOTH runs at this call must still be the same (kind, argument, what the callback saw), whatever else is or was
            # registered
            both = tw["common"][ia]
            strip = lambda e: re.sub(r" ud=\d+", "", e)
            ea = [strip(e) for e in recs_a[ia].evs if tracemod.ev_kind(e) in both]
            eb = [strip(e) for e in recs_b[ib].evs if tracemod.ev_kind(e) in both]
            if ea != eb:
                diffs.append((ia, ib, "E(common)", "; ".join(ea)[:300], "; ".join(eb)[:300]))
        if diffs:
            break
    if not diffs:
        strip = lambda e: re.sub(r" ud=\d+", "", e)
        for (st, en, j, k) in tw.get("late_reg", []):
            registered = False
            for i in range(st, min(en, len(recs_a), len(recs_b))):
                if recs_a[i] is None or recs_b[i] is None: break
                ev_a = [strip(e) for e in recs_a[i].evs]; ev_b = [strip(e) for e in recs_b[i].evs]
                k_b = [e for e in ev_b if tracemod.ev_kind(e) == k]
                if registered:
                    expected = [e for e in ev_a if tracemod.ev_kind(e) == k]
                elif any(tracemod.ev_kind(e) == j for e in ev_b):
                    # the callbacks of run A in the order in which they ran (`Q` line): the reports of k that came after the
                    # first run of j are the ones run B must show too; those before it are legitimately missing
                    order = recs_a[i].order or []
                    after = order[order.index(j) + 1:].count(k) if j in order else 0
                    all_k = [e for e in ev_a if tracemod.ev_kind(e) == k]
                    expected = all_k[len(all_k) - after:] if after else []
                    registered = True
                else:
                    expected = []
                n += 1
                if k_b != expected:
                    diffs.append((i, i, "E(callback %d registered by callback %d during the call)" % (k, j), "; ".join(expected)[:300], "; ".join(k_b)[:300]))
                    break
            if diffs: break
    # a callback that ran although it is not registered, or that got stale user data (detected by the harness itself, which
    # knows what it last told the library — also from inside callbacks), is a difference in its own right
    xd = []
    for side, rr in (("a", ra), ("b", rb)):
        try:
            k = -1
            for line in open(rr.trace_path):
                if line.startswith("O "): k = int(line.split()[1])
                elif line.startswith("X callback"):
                    xd.append((k, k, "X(%s)" % side, line.strip(), ""))
                    break
        except OSError:
            pass
    if xd and (not diffs or xd[0][0] <= diffs[0][0]):
        diffs = xd + diffs
    return diffs, n, fails, ra, rb

# ------------------------------------------------------------------------------------------
def setup():
    t0 = time.time()
    for cfg in ("u", "n", "uh", "nh"):
        infra.build_binary(cfg, "harness")
    for cfg in ("u", "n"):
        infra.build_binary(cfg, "extract")
    infra.extraction()
    infra.translation()
    ok, out, dt = infra.lake_build([])
    if not ok:
        print(out[-4000:])
        log("setup: lake build FAILED")
        return 1
    log("setup done in %.1fs" % (time.time() - t0))
    return 0

