"""extra.py — property-specific machinery beyond the generic correspondence (C05, C18, C19, C20)."""
def run_extra(ctx):
    return
