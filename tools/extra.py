"""extra.py — property-specific machinery beyond the generic correspondence (C05, C18, C19, C20)."""
import os, re, subprocess, sys, time
import infra, gen, twins, trace as tracemod, runner
from gen import Gen

def run_extra(ctx):
    if ctx.pid == "C19":
        c19(ctx)
    elif ctx.pid == "C05":
        c05(ctx)
    elif ctx.pid == "C20":
        import c20
        c20.run(ctx)
    elif ctx.pid == "C18":
        import tablediag
        tablediag.c18_runtime(ctx)

# ------------------------------------------------------------------------------------------
# C19
# ------------------------------------------------------------------------------------------
def strip_end(path):
    return [l for l in open(path).read().splitlines() if not l.startswith("END") and not l.startswith("SEG")]

def c19(ctx):
    q = ctx.tier == "quick"
    wd = ctx.workdir
    # (a) interleaved instances vs each instance's solo run (implementation against implementation)
    for rep in range(3 if q else 25):
        tw = twins.twin_c19(ctx.seed * 1000 + rep, 2 + rep % 7, 1500 if q else 8000)
        ri = runner.run_stream(wd, "c19i_%d" % rep, "u", tw["inter"])
        recs_i = [r for r in tracemod.read_trace(ri.trace_path)]
        solo_recs = []
        for i, s in enumerate(tw["solos"]):
            rs = runner.run_stream(wd, "c19s_%d_%d" % (rep, i), "u", s)
            solo_recs.append([r for r in tracemod.read_trace(rs.trace_path)])
        n = 0
        bad = None
        for k, own in enumerate(tw["owner"]):
            if own is None or k >= len(recs_i) or recs_i[k] is None:
                continue
            i, j = own
            if j >= len(solo_recs[i]) or solo_recs[i][j] is None:
                continue
            n += 1
            d = tracemod.compare_records(recs_i[k], solo_recs[i][j])
            if d:
                bad = (k, i, j, d[0])
                break
        ctx.cov["evaluations"] += n
        ctx.cov["distinct_nontrivial"] += sum(1 for o in tw["owner"] if o is None)
        ctx.cov["twin_runs"].append({"name": "c19_interleave_%d" % rep, "instances": len(tw["solos"]), "records_compared": n,
                                     "context_switches": sum(1 for o in tw["owner"] if o is None)})
        if bad:
            k, i, j, (comp, va, vb) = bad
            hdr = ["property=C19 kind=twin: instance %d behaves differently interleaved (op %d of the schedule) than alone (op %d of its own sequence): %s: interleaved=%s solo=%s" % (i, k, j, comp, va, vb)]
            path = runner.write_replay("C19", "interleave-s%d-%d" % (ctx.seed, rep), hdr, tw["inter"][: k + 1])
            ctx.add_violation(path, "instance %d not isolated: %s" % (i, comp))
            return
    # (b) writable-segment immutability
    try:
        seg = infra.build_binary("u", "seg")
    except infra.BuildError as e:
        ctx.notes.append("segment check not built: " + str(e)[:200])
        seg = None
    if seg:
        for rep in range(1 if q else 4):
            ops = Gen(ctx.seed * 77 + rep).mixed(12000 if q else 150000, multi=True)
            p = os.path.join(wd, "seg_%d.ops" % rep)
            gen.write_ops(p, ops)
            r = subprocess.run([seg, p], stdout=subprocess.PIPE, stderr=subprocess.PIPE, text=True)
            m = re.search(r"SEG segments=(\d+) bytes=(\d+) changed=(\d+)", r.stdout[-400:])
            ctx.cov.setdefault("segment_checks", []).append({"ops": len(ops), "result": m.group(0) if m else "no SEG line", "exit": r.returncode})
            ctx.cov["evaluations"] += len(ops)
            if not m or int(m.group(1)) == 0:
                ctx.notes.append("segment check inconclusive: " + (r.stderr[-200:] or "no writable segment found"))
            elif int(m.group(3)) > 0:
                diffs = [l for l in r.stdout[-2000:].splitlines() if l.startswith("SEGDIFF")]
                pred_ops = shrink_seg(seg, wd, ops)
                path = runner.write_replay("C19", "segment-s%d" % ctx.seed, ["property=C19 kind=segment: the library wrote to its own writable data segment (hidden mutable global/static state): " + "; ".join(diffs[:4]),
                                                                               "replay with the shared-object harness (tools/infra.py kind 'seg')"], pred_ops)
                ctx.add_violation(path, "library modified %s bytes of its writable segment" % m.group(3))
                return
    # (c) per-thread instances under gcc ThreadSanitizer
    try:
        ts = infra.build_binary("u", "tsan")
    except infra.BuildError as e:
        ctx.notes.append("TSan harness not built: " + str(e)[:200])
        return
    nthreads = 4 if q else 8
    paths = []
    for i in range(nthreads):
        ops = [l for l in Gen(ctx.seed * 131 + i).mixed(4000 if q else 60000, multi=False) if l not in ("mf", "fn")]
        p = os.path.join(wd, "th_%d.ops" % i)
        gen.write_ops(p, ops)
        paths.append((p, ops))
    env = dict(os.environ); env["TSAN_OPTIONS"] = "halt_on_error=0:exitcode=66:report_signal_unsafe=0"
    r = subprocess.run([ts] + [p for p, _ in paths], stdout=subprocess.PIPE, stderr=subprocess.PIPE, text=True, env=env)
    races = len(re.findall(r"WARNING: ThreadSanitizer", r.stderr))
    ctx.cov["tsan"] = {"threads": nthreads, "ops_per_thread": len(paths[0][1]), "reports": races, "exit": r.returncode}
    ctx.cov["evaluations"] += sum(len(o) for _, o in paths)
    if races or r.returncode == 66:
        first = r.stderr[: r.stderr.find("==================", 20) if "==================" in r.stderr[20:] else 3000]
        body = []
        for p, o in paths[:2]:
            body += ["# ---- thread ----"] + o[:400]
        path = runner.write_replay("C19", "tsan-s%d" % ctx.seed, ["property=C19 kind=data race reported by gcc ThreadSanitizer for per-thread instances: " + first.replace("\n", " | ")[:2500]], body)
        ctx.add_violation(path, "ThreadSanitizer: %d report(s)" % races)
        return
    # each thread's trace must equal the solo trace of the same ops
    for i, (p, ops) in enumerate(paths):
        rs = runner.run_stream(wd, "th_solo_%d" % i, "u", ops)
        a = strip_end(rs.trace_path)
        tt = p + ".ttrace"
        b = strip_end(tt) if os.path.exists(tt) else []
        if a != b:
            k = next((j for j in range(min(len(a), len(b))) if a[j] != b[j]), min(len(a), len(b)))
            path = runner.write_replay("C19", "threads-s%d" % ctx.seed, ["property=C19 kind=threads: thread %d's trace differs from its solo trace at trace line %d: solo=%s threaded=%s" % (i, k, a[k][:200] if k < len(a) else "<end>", b[k][:200] if k < len(b) else "<end>")], ops)
            ctx.add_violation(path, "thread %d trace differs from solo trace" % i)
            return

def shrink_seg(seg, wd, ops):
    """smallest prefix of the ops for which the segment still changes (bisection)"""
    def changed(cand):
        p = os.path.join(wd, "segshrink.ops")
        gen.write_ops(p, cand)
        r = subprocess.run([seg, p], stdout=subprocess.PIPE, stderr=subprocess.PIPE, text=True)
        m = re.search(r"changed=(\d+)", r.stdout[-200:])
        return bool(m and int(m.group(1)) > 0)
    lo, hi = 1, len(ops)
    while lo < hi:
        mid = (lo + hi) // 2
        if changed(ops[:mid]): hi = mid
        else: lo = mid + 1
    return ops[:lo]

# ------------------------------------------------------------------------------------------
# C05: additional runtimes in the thorough tier
# ------------------------------------------------------------------------------------------
def c05(ctx):
    if ctx.tier == "quick":
        return
    import props
    wd = ctx.workdir
    ops = props.c05_stream(ctx.seed + 5, 60000)
    # MemorySanitizer (uninitialised reads)
    try:
        ms = infra.build_binary("u", "msan")
        p = os.path.join(wd, "msan.ops"); gen.write_ops(p, ops)
        r = subprocess.run([ms, p], stdout=subprocess.DEVNULL, stderr=subprocess.PIPE, text=True)
        ctx.cov["msan"] = {"ops": len(ops), "exit": r.returncode}
        ctx.cov["evaluations"] += len(ops)
        if r.returncode != 0:
            path = runner.write_replay("C05", "msan-s%d" % ctx.seed, ["property=C05 kind=MemorySanitizer: " + r.stderr[:2500].replace("\n", " | ")], ops)
            ctx.add_violation(path, "MemorySanitizer report")
            return
    except infra.BuildError as e:
        ctx.notes.append("MSan harness not built: " + str(e)[:200])
    # valgrind memcheck on the uninstrumented harness
    try:
        pl = infra.build_binary("u", "plain")
        small = ops[:15000]
        p = os.path.join(wd, "vg.ops"); gen.write_ops(p, small)
        r = subprocess.run(["valgrind", "--error-exitcode=9", "--leak-check=full", "-q", pl, p], stdout=subprocess.DEVNULL, stderr=subprocess.PIPE, text=True)
        ctx.cov["valgrind"] = {"ops": len(small), "exit": r.returncode}
        ctx.cov["evaluations"] += len(small)
        if r.returncode != 0:
            path = runner.write_replay("C05", "valgrind-s%d" % ctx.seed, ["property=C05 kind=valgrind memcheck: " + r.stderr[:2500].replace("\n", " | ")], small)
            ctx.add_violation(path, "valgrind memcheck report")
    except infra.BuildError as e:
        ctx.notes.append("plain harness not built: " + str(e)[:200])
