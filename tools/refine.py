"""refine.py — T0: the refinement obligations between the translated C source (lean/RdsC/Translated.lean, regenerated
on every run by tools/c2lean.py) and the hand-written model (lean/RdsProofs/Trans*.lean, lean/RdsProps/Refinement.lean).

A broken refinement lemma is localised (Lean reports errors per declaration), the C functions it mentions are looked up
in OWNERS, and only the properties that own one of them treat it as a broken proof obligation of theirs."""
import os, re, subprocess
import infra
from infra import LEAN

# which properties' proofs rest on the behaviour of which C function (by name fragment, first match wins per fragment)
OWNERS = [
    (r"utils_convert|parse_string", ["C14"]),
    (r"group4|ct_init|ct_get", ["C12"]),
    (r"group1(?!0)|ecc_lookup", ["C11", "C09", "C04"]),
    (r"group2", ["C08", "C02", "C04", "C06", "C07"]),
    (r"group10", ["C02", "C04", "C06", "C07"]),
    (r"group0a|add_af|af_set|af_get|af_clear|buffer_add_af", ["C10", "C09", "C04"]),
    (r"group0_get_ta|group0_get_ms", ["C01", "C09"]),
    (r"group0", ["C01", "C02", "C04", "C06", "C07", "C09", "C10"]),
    (r"group_parse|group_get", ["C01", "C09", "C04"]),
    (r"parser_process|parser_get|rdsparser_parse\b", ["C01", "C03", "C04", "C10", "C11", "C12"]),
    (r"string_update|string_convert|calculate_error|parser_update_string", ["C02", "C06", "C07", "C16", "C20"]),
    (r"string_clear|string_get_available|string_get_length", ["C16", "C08", "C13"]),
    (r"buffer_update|rdsparser_set_(pi|pty|tp|ta|ms|ecc|country)|buffer_get", ["C01", "C09", "C04", "C15"]),
    (r"rdsparser_init|rdsparser_clear|buffer_clear|buffer_init|buffer_data_clear", ["C13", "C16", "C17"]),
    (r"set_text_correction|set_text_progressive|set_extended_check|get_text|get_extended", ["C17"]),
    (r"register_|set_user_data", ["C15"]),
]
ALL = ["C%02d" % i for i in range(1, 21)]

# whole-system properties: "behaves like a fresh parser after clear" (C13), "observers never alter decoding" (C15),
# "unused blocks are irrelevant" (C03), "no undefined behaviour" (C05), "no state outside the object" (C19) and "all builds
# decode identically" (C20) quantify over everything the library does, so every function is theirs
EVERYWHERE = ["C03", "C05", "C13", "C15", "C19", "C20"]

def owners_of(text):
    props = set()
    for fn in set(re.findall(r"c_rdsparser_\w+|cSetField|cRegister|cstep|crun", text)):
        hit = False
        for pat, ps in OWNERS:
            if re.search(pat, fn):
                props.update(ps); props.update(EVERYWHERE); hit = True
                break
        if not hit:
            if fn in ("cSetField",): props.update(["C01", "C09", "C04", "C15"])
            elif fn in ("cRegister",): props.update(["C15"])
            else: props.update(ALL)
    return props

def enclosing_decl(path, line):
    """(name, text) of the declaration that contains `line` of the Lean file"""
    try:
        lines = open(path).read().split("\n")
    except OSError:
        return None, ""
    i = min(line, len(lines)) - 1
    while i >= 0 and not re.match(r"^(private |protected )?(theorem|lemma|def|instance|abbrev|example)\b", lines[i]):
        i -= 1
    if i < 0:
        return None, ""
    m = re.match(r"^(?:private |protected )?(?:theorem|lemma|def|instance|abbrev|example)\s+(\S+)", lines[i])
    j = i + 1
    while j < len(lines) and not re.match(r"^(private |protected )?(theorem|lemma|def|instance|abbrev|example|end |namespace |/--|#print)\b", lines[j]):
        j += 1
    return (m.group(1) if m else None), "\n".join(lines[i:j])

def parse_errors(out, seen, res):
    """add the declarations named by Lean's error lines to res["broken"]; returns the new entries"""
    new = []
    for m in re.finditer(r"error: (\S+?\.lean):(\d+):\d+: (.*)", out):
        rel, line, msg = m.group(1), int(m.group(2)), m.group(3)
        path = rel if os.path.isabs(rel) else os.path.join(LEAN, rel)
        name, text = enclosing_decl(path, line)
        key = (rel, name)
        if key in seen:
            continue
        seen.add(key)
        generated = rel.endswith("Translated.lean")
        stmt = re.split(r":=\s*(?:by\b|$)", text, maxsplit=1, flags=re.M)[0]
        if not re.search(r"c_rdsparser_\w+|cSetField|cRegister|cstep|crun", stmt):
            stmt = text
        ent = {"file": rel, "line": line, "decl": name, "msg": msg[:200],
               "owners": sorted(ALL if generated or name is None else owners_of(stmt))}
        res["broken"].append(ent); new.append(ent)
    return new

JOURNAL = os.path.join(infra.WORK, "localise-journal")

def recover_journal():
    """a localisation pass that was killed half-way leaves edited proof files behind: put the originals back"""
    if not os.path.isdir(JOURNAL):
        return
    for f in os.listdir(JOURNAL):
        try:
            rel = f.replace("__", "/")
            open(os.path.join(LEAN, rel), "w").write(open(os.path.join(JOURNAL, f)).read())
            os.remove(os.path.join(JOURNAL, f))
        except OSError:
            pass

def localise_further(res, seen, locked):
    """see check(): returns True if, with the failed proofs set aside, everything else was checked"""
    originals = {}
    def set_aside(ent):
        rel, name = ent["file"], ent["decl"]
        if not name or rel.endswith("Translated.lean") or not (os.path.basename(rel).startswith("Trans") or rel.endswith("Refinement.lean")):
            return False
        path = rel if os.path.isabs(rel) else os.path.join(LEAN, rel)
        text = open(path).read()
        lines = text.split("\n")
        i = next((k for k, l in enumerate(lines) if re.match(r"^(?:private |protected )?(?:theorem|lemma)\s+%s\b" % re.escape(name), l)), None)
        if i is None:
            return False
        j = i + 1
        while j < len(lines) and not re.match(r"^(private |protected )?(theorem|lemma|def|instance|abbrev|example|end |namespace |/--|#print|@\[|section |open )", lines[j]):
            j += 1
        decl = "\n".join(lines[i:j])
        m = re.search(r":=\s*(?:by\b|$)", decl, re.M)
        if not m:
            return False
        if path not in originals:
            originals[path] = text
            os.makedirs(JOURNAL, exist_ok=True)
            open(os.path.join(JOURNAL, os.path.relpath(path, LEAN).replace("/", "__")), "w").write(text)
        lines[i:j] = (decl[:m.start()] + ":= by sorry\n").split("\n")
        open(path, "w").write("\n".join(lines))
        return True
    try:
        todo = list(res["broken"])
        for _ in range(8):
            if not any([set_aside(e) for e in todo]):
                return False
            ok, out, _dt = infra.lake_build([REFINE_MODULE], locked=locked)
            if ok:
                return True
            todo = parse_errors(out, seen, res)
            if not todo:
                return False
        return False
    finally:
        for path, text in originals.items():
            open(path, "w").write(text)
            try: os.remove(os.path.join(JOURNAL, os.path.relpath(path, LEAN).replace("/", "__")))
            except OSError: pass

REFINE_MODULE = "RdsProps.Refinement"

def untranslated_beyond_design():
    """functions the translator could not handle on the current tree, beyond the by-design list"""
    path = os.path.join(LEAN, "RdsC", "Translated.lean")
    try:
        text = open(path).read()
    except OSError:
        return [("?", "Translated.lean missing")]
    m = re.search(r"def untranslated : List \(String × String\) :=\s*\[(.*?)\]\s*\n\n", text, re.S)
    if not m:
        return [("?", "untranslated list not found")]
    out = []
    for name, reason in re.findall(r'\("([^"]*)",\s*"((?:[^"\\]|\\.)*)"\)', m.group(1)):
        if not reason.startswith("by design"):
            out.append((name, reason))
    return out

def unchecked_dependents(failed_mods):
    """(file, theorem name, statement) of every theorem about translated C functions that lives in a module importing,
    directly or not, one of the modules that failed to build"""
    files = {}
    for sub in ("RdsProofs", "RdsProps"):
        d = os.path.join(LEAN, sub)
        for f in sorted(os.listdir(d)):
            if f.endswith(".lean") and (f.startswith("Trans") or f == "Refinement.lean"):
                files[sub + "." + f[:-5]] = os.path.join(d, f)
    imports = {m: set(re.findall(r"^import (\S+)", open(p).read(), re.M)) for m, p in files.items()}
    bad = set(m for m in failed_mods if m in files)
    changed = True
    while changed:
        changed = False
        for m, imp in imports.items():
            if m not in bad and imp & bad:
                bad.add(m); changed = True
    out = []
    for m in sorted(bad - set(failed_mods)):
        text = open(files[m]).read()
        for mm in re.finditer(r"^(?:private |protected )?(?:theorem|lemma)\s+(\S+)(.*?)(?::=\s*(?:by\b|$))", text, re.M | re.S):
            stmt = mm.group(2)
            if len(stmt) < 4000 and re.search(r"c_rdsparser_\w+|cSetField|cRegister|cstep|crun", stmt):
                out.append((m.replace(".", "/") + ".lean", mm.group(1), stmt))
    return out

def check(ctx, locked=True):
    """build the refinement module; returns dict(status=ok|broken|absent|unavailable, broken=[{decl, file, owners}], log)"""
    recover_journal()
    if not os.path.exists(os.path.join(LEAN, "RdsProps", "Refinement.lean")):
        return {"status": "absent", "broken": []}
    # a BROKEN result is remembered per (translated source, proof sources): the twenty checks of one tree need not repeat
    # the failing build and the localisation pass twenty times. A result "ok" is never taken from the cache.
    import hashlib, json
    h = hashlib.sha256()
    for f in [os.path.join(LEAN, "RdsC", "Translated.lean"), os.path.join(LEAN, "RdsC", "Prelude.lean"), os.path.join(LEAN, "RdsModel", "Generated.lean"),
              os.path.join(LEAN, "RdsProps", "Refinement.lean")] + sorted(
              os.path.join(LEAN, d, x) for d in ("RdsProofs", "RdsModel", "RdsSpec") for x in os.listdir(os.path.join(LEAN, d)) if x.endswith(".lean")):
        try: h.update(open(f, "rb").read())
        except OSError: h.update(b"?")
    h.update(open(__file__, "rb").read())
    cache = os.path.join(infra.WORK, "refine-cache", h.hexdigest()[:24] + ".json")
    if os.path.exists(cache) and os.environ.get("VERIF_NO_REFINE_CACHE") != "1":
        try:
            res = json.load(open(cache))
            if res.get("status") in ("broken", "untranslatable") and res.get("broken"):
                res["cached"] = True
                return res
        except (OSError, ValueError):
            pass
    res = _check(ctx, locked)
    if res.get("status") in ("broken", "untranslatable") and res.get("broken"):
        try:
            os.makedirs(os.path.dirname(cache), exist_ok=True)
            json.dump(res, open(cache, "w"))
        except OSError:
            pass
    return res

def _check(ctx, locked=True):
    if False:
        return None
    extra = untranslated_beyond_design()
    pre_broken = []
    if extra:
        # The C source now uses a construct outside the translator's subset: the model of these functions cannot be
        # regenerated from the source, so the refinement theorems about them cannot be re-checked on this tree. That is a
        # broken obligation like a failing proof (it may be a harmless rewrite; it may as well hide a change of behaviour):
        # the properties whose proofs rest on these functions search for a failing input and report either way. The
        # theorems about the functions that ARE still translated are re-checked below as usual.
        roots = [(n, r) for n, r in extra if not r.startswith("calls ")] or extra
        for n, r in roots:
            own = sorted(owners_of("c_" + n)) if any(re.search(pat, n) for pat, _ in OWNERS) else []
            pre_broken.append({"file": "RdsC/Translated.lean", "line": 0, "decl": "c_" + n,
                               "msg": "not translatable on this tree: " + r[:160], "owners": own})
        if not any(b["owners"] for b in pre_broken):
            for b in pre_broken: b["owners"] = ALL
    ok, out, dt = infra.lake_build([REFINE_MODULE], locked=locked)
    res = {"status": "ok" if ok else "broken", "broken": [], "build_s": round(dt, 1)}
    if extra:
        res["status"] = "untranslatable"
        res["untranslated"] = [{"function": n, "reason": r} for n, r in extra][:20]
        res["broken"] = list(pre_broken)
    if ok and not extra:
        # axiom audit of the refinement theorems (same rule as for the property theorems)
        thms = [m.group(1) for m in re.finditer(r"^-- THEOREM: (\S+)", open(os.path.join(LEAN, "RdsProps", "Refinement.lean")).read(), re.M)]
        axs, raw, rc = infra.print_axioms(REFINE_MODULE, thms)
        bad = [t for t in thms if t not in axs or any(a not in infra.ALLOWED_AXIOMS for a in axs[t])]
        res["theorems"] = len(thms)
        if bad:
            res["status"] = "broken"
            res["broken"].append({"file": "RdsProps/Refinement.lean", "line": 0, "decl": ", ".join(bad)[:200], "msg": "axiom audit failed", "owners": ALL})
        return res
    seen = set()
    for m in re.finditer(r"error: (\S+?\.lean):(\d+):\d+: (.*)", out):
        rel, line, msg = m.group(1), int(m.group(2)), m.group(3)
        path = rel if os.path.isabs(rel) else os.path.join(LEAN, rel)
        name, text = enclosing_decl(path, line)
        key = (rel, name)
        if key in seen:
            continue
        seen.add(key)
        generated = rel.endswith("Translated.lean")
        # owners are read off the STATEMENT of the broken declaration (the C functions it is about), not its proof
        stmt = re.split(r":=\s*(?:by\b|$)", text, maxsplit=1, flags=re.M)[0]
        if not re.search(r"c_rdsparser_\w+|cSetField|cRegister|cstep|crun", stmt):
            stmt = text
        res["broken"].append({"file": rel, "line": line, "decl": name, "msg": msg[:200],
                              "owners": sorted(ALL if generated or name is None else owners_of(stmt))})
    # Lean stops at the first module that fails, so the modules importing it were not checked at all. To find out which
    # refinement theorems really fail on this tree, continue past the failures: under the lock, the proof of every theorem that
    # failed is replaced by `sorry` IN A TEMPORARY EDIT of the proof file (restored afterwards, whatever happens), and the
    # build is repeated until it goes through or nothing new fails. The verdict stays "broken" — this only localises.
    complete = False
    if os.environ.get("VERIF_NO_LOCALISE") != "1":
        try:
            complete = localise_further(res, seen, locked)
        except Exception as e:                      # localisation is an extra; never let it change the verdict
            res.setdefault("notes", []).append("localisation pass failed: %r" % (e,))
    failed_mods = set() if complete else set(b["file"][:-5].replace("/", ".") for b in res["broken"] if b["file"].endswith(".lean"))
    for rel, name, stmt in unchecked_dependents(failed_mods):
        own = sorted(owners_of(stmt))
        if own and (rel, name) not in seen:
            seen.add((rel, name))
            res["broken"].append({"file": rel, "line": 0, "decl": name, "msg": "not checked: its module depends on " + ", ".join(sorted(failed_mods))[:120],
                                  "owners": own})
    if not res["broken"]:
        res["broken"].append({"file": "?", "line": 0, "decl": None, "msg": out[-400:], "owners": ALL})
    res["log"] = out[-3000:]
    return res
