"""props.py — per-property configuration (projection π, monitors, theorems, streams, twin runs)
and the verdict logic of DESIGN.md §5.3."""
import json, os, random, re, shutil, subprocess, sys, time, traceback
import infra, gen, twins, trace as tracemod
import runner
from runner import VERIF, WORK, LEAN, REPLAYS, EVID, log
from gen import Gen, P, ALL_CBS

ALL = r".*"
# 2-safety properties are decided by twin runs (implementation against implementation) and their own monitors;
# a model/implementation divergence in some component is attributed to the property that owns that component
NONE = r"^$"
STATE_NON_PI_DESYNC = re.compile(r"^(S\.|A$|T\d\.cells|G$)")

# property -> regex of compared components, monitors, lean module, theorems
PROPS = {
    # pi = components on which a model/implementation divergence is attributed to the property. For properties
    # whose executable predicate (RdsSpec/Monitors.lean) states the whole property, the predicate evaluated on the
    # implementation's own trace decides (pi = NONE): a divergence elsewhere is another property's business.
    # C01/C09/C10/C11 have predicates that are conditional on a clean history, so the projection is kept there.
    "C01": dict(pi=r"^S\.(pi|pty|tp|ta|ms)$", title="basic tuning fields"),
    "C02": dict(pi=NONE, title="characters land in the addressed cells"),
    "C03": dict(pi=NONE, title="blocks above the accepted error level are irrelevant"),
    "C04": dict(pi=NONE, title="callbacks fire exactly on change"),
    "C05": dict(pi=r"^X$", title="memory safety / no UB"),
    "C06": dict(pi=NONE, title="thresholds and weighted level"),
    "C07": dict(pi=NONE, title="progressive correction only improves"),
    "C08": dict(pi=NONE, title="RadioText A/B protocol"),
    "C09": dict(pi=r"^(S\..*|A|E[0-7])$", title="extended check"),
    "C10": dict(pi=r"^(A|E7)$", title="AF list"),
    "C11": dict(pi=r"^(S\.ecc|S\.country|E5|E6)$", title="ECC and country"),
    "C12": dict(pi=NONE, title="clock time"),
    "C13": dict(pi=NONE, title="reset forgets history, keeps settings"),
    "C14": dict(pi=NONE, title="hex-string input"),
    "C15": dict(pi=NONE, title="observers are pure"),
    "C16": dict(pi=NONE, title="texts well-formed"),
    "C17": dict(pi=NONE, title="settings"),
    "C18": dict(pi=NONE, title="PTY and country lookups"),
    "C19": dict(pi=NONE, title="instances isolated"),
    "C20": dict(pi=NONE, title="build configurations"),
}

def lean_info(pid):
    """module and theorem names of a property, read from lean/RdsProps/<pid>.lean (`-- THEOREMS:` header)"""
    path = os.path.join(LEAN, "RdsProps", pid + ".lean")
    thms = []
    if os.path.exists(path):
        for line in open(path):
            m = re.match(r"^-- THEOREM: (\S+)", line)
            if m:
                thms.append(m.group(1))
    return "RdsProps." + pid, thms

# ------------------------------------------------------------------------------------------
# streams
# ------------------------------------------------------------------------------------------
def mixed_stream(seed, n, ext=True, badstr=False, multi=False, cbs=True):
    g = Gen(seed)
    ops = g.mixed(n, multi=multi)
    if not ext:
        ops = [l for l in ops if l != "x 1"]
    if not badstr:
        ops = [l for l in ops if not (l.startswith("s ") and twins.decode_hex(bytes.fromhex(l[3:])) is None if l != "s N" else True)]
    return ops, g.hist

def text_stream(seed, n, texts=(0, 2, 10), prog=None, few_cells=False, toggles=False):
    """text-heavy traffic: thresholds/progressive varied, errors frequent"""
    g = Gen(seed)
    r = g.r
    out = g.prologue(all_cbs=True)
    def settings():
        o = []
        for t in range(3):
            # mostly the three defined levels; sometimes an out-of-range request (clamped to 'large' by the library), also
            # on top of a threshold that is already at its maximum
            v = lambda: r.randrange(3) if r.random() < 0.85 else r.choice([3, 4, 255, r.randrange(3, 256)])
            o.append("c %d 0 %d" % (t, v()))
            o.append("c %d 1 %d" % (t, v()))
            p = r.randrange(2) if prog is None else prog
            o.append("g %d %d" % (t, p))
        return o
    out += settings()
    flag = 0
    while len(out) < n:
        x = r.random()
        if x < 0.93:
            gt = r.choice(texts)
            ver = 1 if (gt != 10 and r.random() < 0.3) else 0
            if gt == 2:
                if toggles and r.random() < 0.25: flag ^= 1
                addr = r.choice([0, 1, 2, 14, 15]) if few_cells else r.randrange(16)      # first and last segments
                low5 = (flag << 4) | addr
            elif gt == 0:
                low5 = (r.randrange(8) << 2) | (r.randrange(2) if few_cells else r.randrange(4))
            else:
                low5 = (r.randrange(16) << 1) | r.randrange(2)
            b = g.block_b(gt, ver, low5)
            pool = [0x41, 0x42, 0x0D, 0x80, 0x20, 0x7F, 0x7E, 0x1F] if few_cells else None
            def w():
                if pool and r.random() < 0.8: return (r.choice(pool) << 8) | r.choice(pool)
                return g.word()
            e = [g.err(0.9), g.err(0.45), g.err(0.45), g.err(0.45)]
            if getattr(g, "recent", None) and r.random() < 0.12:
                out.append(g.replay())      # A … B … A: an earlier group again after other traffic for the same cells
            else:
                pi_ = g.pi()
                cw = w()
                if ver == 1 and r.random() < 0.6:
                    cw = pi_ if r.random() < 0.85 else g.pi()      # version B: block C' repeats the PI, as real traffic does
                out.append(g.remember(P(pi_, b, cw, w(), *e)))
        elif x < 0.97:
            out += settings()[: r.randrange(1, 9)]
        elif x < 0.985:
            out.append("clear")
            if getattr(g, "recent", None) and r.random() < 0.6:
                out += [g.replay() for _ in range(r.randrange(1, 4))]
        else:
            out.append(g.group())
    return out

def ext_stream(seed, n):
    """extended check set right after resets; values from tiny pools; errored groups in between"""
    g = Gen(seed)
    r = g.r
    g.pi_pool = g.pi_pool[:2] + [0x1234]
    g.pty_pool = g.pty_pool[:2]
    g.ecc_pool = [0xE0, 0xE2, 0xA0]
    g.af_pool = [1, 2, 100, 204, 205, 0, 250, 224]
    out = []
    def reset():
        o = ["new"] + ALL_CBS if r.random() < 0.3 else ["clear"]
        o.append("x %d" % (1 if r.random() < 0.75 else 0))
        return o
    out += ["new"] + ALL_CBS + ["x 1"]
    while len(out) < n:
        x = r.random()
        if x < 0.96:
            gt = r.choice([0, 0, 0, 1, 1, 2, 15, 4])
            out.append(g.group(gtype=gt, zero=0.85))
        elif x < 0.99:
            out += reset()
        else:
            out.append(g.setter())
    return out

def rt_stream(seed, n):
    g = Gen(seed)
    r = g.r
    out = g.prologue(all_cbs=True) + ["c 1 0 %d" % r.randrange(3), "c 1 1 %d" % r.randrange(3)]
    flag = 0
    while len(out) < n:
        x = r.random()
        if x < 0.85:
            if r.random() < 0.3: flag = r.randrange(2)
            ver = 1 if r.random() < 0.3 else 0
            b = g.block_b(2, ver, (flag << 4) | r.randrange(16))
            eb = g.err(0.6)
            out.append(P(g.pi(), b, g.word(), g.word(), g.err(0.9), eb, g.err(0.7), g.err(0.7)))
        elif x < 0.93:
            out.append(g.group())
        elif x < 0.96:
            out.append("clear")
        elif x < 0.98:
            out += ["c 1 0 %d" % r.randrange(3), "c 1 1 %d" % r.randrange(3), "g 1 %d" % r.randrange(2)]
        else:
            out += ["new"] + ALL_CBS
    return out

def redeliver_stream(seed, n):
    """every group delivered twice in a row (C04 last sentence), all registration patterns"""
    g = Gen(seed)
    r = g.r
    out = g.prologue(all_cbs=True) + g.settings_block()
    while len(out) < n:
        x = r.random()
        if x < 0.9:
            l = g.group(zero=0.8)
            out += [l] * r.choice([1, 2, 2, 3])
        elif x < 0.94:
            out.append(g.observer())
        elif x < 0.97:
            out.append(g.setter())
        else:
            out.append("clear")
    return out

def c05_stream(seed, n):
    g = Gen(seed)
    r = g.r
    ops = g.mixed(n, multi=True)
    out = []
    for l in ops:
        # only some of the callbacks registered: a call through a pointer that was never set is C05's business
        if l.startswith("r ") and l.endswith(" 1") and r.random() < 0.35:
            continue
        out.append(l)
        if not l.startswith("p "):
            continue
        if r.random() < 0.02:
            ln = r.choice([0, 1, 15, 16, 17, 18, 19, 33, 64, 255, 256, 1000, 4096])
            out.append(gen.hexstr(bytes(r.choice(b"0123456789abcdefABCDEFxX -+\tgG\x80\xff") for _ in range(ln))))
        if r.random() < 0.02:
            out.append("c %d %d %d" % (r.randrange(3), r.randrange(2), r.randrange(256)))
        if r.random() < 0.05:
            out.append("p %d %d %d %d %d %d %d %d" % tuple([r.randrange(65536) for _ in range(4)] + [r.randrange(256) for _ in range(4)]))
    return out

def streams(pid, tier, seed):
    """list of (name, cfg, ops) for the correspondence + monitor runs of a property"""
    q = tier == "quick"
    S = []
    VARIED = ("mixed", "text", "textN", "rt", "rtfew", "textfew", "ext", "prog", "progmix", "wild", "wildN", "multi", "redeliver")
    def add(name, ops, cfg="u"):
        # the random streams end in a stretch of "unusual calling patterns" (gen.vary: both entry points, callbacks removed and put
        # back, user data changed); the sweeps are left as they are
        if name in VARIED or name.startswith("mixed_"):
            ops = gen.vary(ops, seed + len(S))
        S.append((name, cfg, ops))
    stride = lambda quick, thorough: quick if q else thorough
    if pid == "C01":
        add("sweepB", gen.sweep_block_b(stride(8, 1), seed))
        add("edges", gen.sweep_edges())
        add("mixed", mixed_stream(seed, 25000 if q else 400000, ext=False)[0])
        # one station held, fades (B, C, D uncorrectable together while A decodes), single groups of a foreign station
        add("station", gen.station_stream(seed, 12000 if q else 200000))
    elif pid == "C02":
        add("sweepChars", gen.sweep_chars(stride(2, 1), seed))
        add("text", text_stream(seed, 15000 if q else 300000))
        # byte pairs (p, b) with stored-code-point(p) = raw b, as read out of the compiled library on this run
        du = infra.LAST_DUMPS.get("u")
        add("confusable", gen.sweep_confusable({b: v[1] for b, v in du["g0"].items() if v[0]} if du else None))
        add("aba", gen.sweep_aba())
        add("ctrlpairs", gen.sweep_ctrl_pairs(stride(4, 1), seed))
        if not q: add("sweepCharsN", gen.sweep_chars(1, seed), "n")
    elif pid == "C03":
        add("mixed", mixed_stream(seed, 15000 if q else 200000)[0])
    elif pid == "C04":
        add("redeliver", redeliver_stream(seed, 15000 if q else 300000))
        add("mixed", mixed_stream(seed + 1, 12000 if q else 300000)[0])
        # few cells, end-of-text markers, rejected blocks and A/B toggles: the corner where a buffer is emptied
        # or rewritten without any accepted character (seeded change C04-b was missed without this stream)
        add("rtfew", text_stream(seed + 2, 12000 if q else 300000, texts=(2,), few_cells=True, toggles=True))
        add("textfew", text_stream(seed + 3, 8000 if q else 200000, few_cells=True, toggles=True))
        # every threshold pair x every error level of the stored group x A/B switch-back with all text rejected
        add("rtlevels", gen.sweep_rt_levels(stride(2, 1), seed))
        # one cell rewritten with a different character whose code point collides with the old one in a narrower type
        du = infra.LAST_DUMPS.get("u")
        add("confusable", gen.sweep_confusable({b: v[1] for b, v in du["g0"].items() if v[0]} if du else None))
    elif pid == "C05":
        add("wild", c05_stream(seed, 20000 if q else 300000))
        add("wildN", c05_stream(seed + 1, 8000 if q else 100000), "nh")
        add("hexm", gen.hex_malformed())
        add("partialreg", gen.sweep_partial_registration())
        add("sweepEcc", gen.sweep_ecc(stride(8, 1), seed))
    elif pid == "C06":
        for t in range(3):
            add("thr%d" % t, gen.sweep_thresholds(t, stride(48, 2), seed + t))
        # the narrow build has a character rule of its own (bytes >= 0x7F): the same sweep on that build
        add("thrN", gen.sweep_thresholds(seed % 3, stride(96, 2), seed + 5), "n")
        du = infra.LAST_DUMPS.get("u")
        add("confusable", gen.sweep_confusable({b: v[1] for b, v in du["g0"].items() if v[0]} if du else None))
        add("text", text_stream(seed, 8000 if q else 200000))
    elif pid == "C07":
        add("prog", text_stream(seed, 20000 if q else 400000, prog=1, few_cells=True))
        add("progmix", text_stream(seed + 1, 15000 if q else 300000, few_cells=True, toggles=True))
    elif pid == "C08":
        add("rt", rt_stream(seed, 30000 if q else 500000))
        add("flaghist", gen.sweep_rt_flag_histories(4 if q else 5))
        add("rtfew", text_stream(seed + 1, 10000 if q else 200000, texts=(2,), few_cells=True, toggles=True))
    elif pid == "C09":
        add("ext", ext_stream(seed, 30000 if q else 500000))
        add("edges", gen.sweep_edges())
        add("sweepC", gen.sweep_block_c(stride(32, 2), seed))
        # the same reception patterns with the extended check switched on and off along the way
        st = gen.station_stream(seed + 21, 10000 if q else 150000)
        rr = random.Random(seed + 22)
        st2 = []
        for l in st:
            st2.append(l)
            if l.startswith("p ") and rr.random() < 0.01: st2.append("x %d" % rr.randrange(2))
            if l == "new": st2.append("x 1")
        add("station", st2[:1] + ["x 1"] + st2[1:])
    elif pid == "C10":
        add("sweepC", gen.sweep_block_c(stride(8, 1), seed))
        add("afhist", gen.sweep_af_histories())
        add("ext", ext_stream(seed, 10000 if q else 200000))
    elif pid == "C11":
        add("sweepEcc", gen.sweep_ecc(stride(8, 1), seed))
        add("ext", ext_stream(seed, 10000 if q else 200000))
    elif pid == "C12":
        add("sweepCt", gen.sweep_ct(stride(16, 1), seed))
        add("ctstr", gen.ct_strings(seed, 350 if q else 5000))
        add("mixed", mixed_stream(seed, 8000 if q else 200000)[0])
    elif pid == "C13":
        add("mixed", mixed_stream(seed, 20000 if q else 300000)[0])
    elif pid == "C14":
        add("hexm", gen.hex_malformed())
        add("hexb", gen.hex_all_blocks(stride(8, 1), seed))
        add("hexs", gen.hex_stateful(seed))
        add("mixed", mixed_stream(seed, 10000 if q else 200000, badstr=True)[0])
    elif pid == "C15":
        add("mixed", mixed_stream(seed, 25000 if q else 400000)[0])
    elif pid == "C16":
        add("mixed", mixed_stream(seed, 15000 if q else 300000)[0])
        add("text", text_stream(seed + 1, 15000 if q else 300000, toggles=True))
        add("textN", text_stream(seed + 2, 8000 if q else 150000, toggles=True), "n")
        add("overrange", gen.sweep_overrange())
    elif pid == "C17":
        add("sweepSet", gen.sweep_settings())
        add("overrange", gen.sweep_overrange())
        add("mixed", mixed_stream(seed, 15000 if q else 300000)[0])
    elif pid == "C18":
        add("countrycb", gen.sweep_country_callbacks())
    elif pid == "C19":
        add("multi", mixed_stream(seed, 25000 if q else 400000, multi=True)[0])
    elif pid == "C20":
        for cfg in ("u", "n", "uh", "nh"):
            add("mixed_" + cfg, mixed_stream(seed, 12000 if q else 250000, multi=True)[0], cfg)
    # nested calls: stretches during which a callback resets the parser, registers / unregisters a callback or changes the user
    # data from INSIDE the call; compared with the nested-call model (RdsModel/Reentrant.lean, `mstepH`). The monitors are
    # not evaluated on these streams (their abstract machine has no nested calls); a divergence in the property's projection
    # is reported with the shrunk op sequence.
    n = 12000 if q else 200000
    base = {"C01": lambda: mixed_stream(seed + 11, n, ext=False)[0], "C03": lambda: mixed_stream(seed + 11, n)[0],
            "C04": lambda: rt_stream(seed + 11, n), "C08": lambda: rt_stream(seed + 12, n),
            "C09": lambda: ext_stream(seed + 11, n), "C10": lambda: ext_stream(seed + 12, n), "C11": lambda: ext_stream(seed + 13, n),
            "C13": lambda: mixed_stream(seed + 12, n)[0], "C15": lambda: mixed_stream(seed + 13, n)[0],
            "C02": lambda: text_stream(seed + 11, n), "C06": lambda: text_stream(seed + 12, n), "C07": lambda: text_stream(seed + 13, n, few_cells=True, toggles=True),
            "C16": lambda: mixed_stream(seed + 15, n)[0], "C19": lambda: mixed_stream(seed + 14, n, multi=True)[0]}.get(pid)
    if base is not None:
        S.append(("reent", "u", gen.reentrant(base(), seed)))
    return S

# ------------------------------------------------------------------------------------------
# twin runs per property
# ------------------------------------------------------------------------------------------
def twin_specs(pid, tier, seed):
    q = tier == "quick"
    reps = 3 if q else 30
    T = []
    if pid == "C03":
        for i in range(reps): T.append(("c03_%d" % i, twins.twin_c03(seed * 1000 + i, 6000 if q else 40000), "u", "u"))
        for i in range(reps): T.append(("c03e_%d" % i, twins.twin_c03(seed * 1000 + 500 + i, 6000 if q else 40000, style="early"), "u", "u"))
    elif pid == "C13":
        for i in range(reps * 4): T.append(("c13_%d" % i, twins.twin_c13(seed * 1000 + i, 300 + 200 * (i % 5), 1500 if q else 6000), "u", "u"))
        for k in range(64): T.append(("c13edge_%d" % k, twins.twin_c13_edge(k), "u", "u"))
        for k in range(8): T.append(("c13other_%d" % k, twins.twin_c13_other(k), "u", "u"))
        for k in (range(0, 256, 3) if q else range(256)): T.append(("c13ecc_%d" % k, twins.twin_c13_ecc(k), "u", "u"))
        for j in range(12):
            for ext in (0, 1): T.append(("c13re_%d_%d" % (j, ext), twins.twin_reentrant_clear(j, ext, seed * 100 + j), "u", "u"))
    elif pid == "C14":
        for i in range(reps): T.append(("c14_%d" % i, twins.twin_c14(seed * 1000 + i, 5000 if q else 40000), "u", "u"))
    elif pid == "C15":
        for i in range(reps): T.append(("c15_%d" % i, twins.twin_c15(seed * 1000 + i, 6000 if q else 40000), "u", "u"))
    elif pid == "C12":
        # "exactly one report per valid 4A group" also when the CT callback is registered late, removed and put back, or
        # registered by another callback during the call (the CT part of C15's twins)
        T.append(("c12cb", twins.twin_c15(seed * 1000 + 77, 200, only_k=11), "u", "u"))
    elif pid == "C09":
        for i in range(reps): T.append(("c09_%d" % i, twins.twin_c09(seed * 1000 + i, 5000 if q else 40000), "u", "u"))
        # "since the last reset" also when the reset is made from inside a callback (extended check on)
        for j in range(12): T.append(("c09re_%d" % j, twins.twin_reentrant_clear(j, 1, seed * 100 + j), "u", "u"))
    return T

# projections for the nested-call streams (`reent`): no monitor is evaluated there, so every property that has such a stream
# names the components of the trace it speaks about
ALLC = r"^(S\..*|A|T\d\..*|E\d+)$"
RPI = {"C01": r"^(S\.(pi|pty|tp|ta|ms)|E[0-4])$", "C02": r"^T\d\.cells$", "C03": ALLC, "C04": r"^E\d+$", "C06": r"^T\d\.cells$",
       "C07": r"^T\d\.cells$", "C08": r"^(T[12]\..*|E9)$", "C09": r"^(S\..*|A|E[0-7])$", "C10": r"^(A|E7)$",
       "C11": r"^(S\.ecc|S\.country|E5|E6)$", "C13": r"^(S\..*|A|T\d\..*)$", "C15": r"^E\d+$", "C16": r"^T\d\..*$", "C19": ALLC}

# ------------------------------------------------------------------------------------------
# known findings
# ------------------------------------------------------------------------------------------
def load_known():
    path = os.path.join(VERIF, "known_findings.json")
    if not os.path.exists(path):
        return {"findings": [], "fixed": []}
    return json.load(open(path))

# ------------------------------------------------------------------------------------------
# verdict logic
# ------------------------------------------------------------------------------------------
class Ctx:
    def __init__(self, pid, tier, seed):
        self.pid = pid; self.tier = tier; self.seed = seed
        self.t0 = time.time()
        self.workdir = os.path.join(WORK, "run", "%s-%d" % (pid, os.getpid()))
        self.violations = []       # dicts: replay, note, nofail(bool)
        self.known_lines = []
        self.cov = {"evaluations": 0, "distinct_nontrivial": 0, "streams": [], "twin_runs": [], "samples": [],
                    "events": 0, "groups": 0, "monitor_failures": 0, "divergences_in_projection": 0,
                    "desync_skipped": 0, "sanitizer_aborts": 0}
        self.obligations = 0
        self.discharged = 0
        self.notes = []
        self.pi = re.compile(PROPS[pid]["pi"])

    def add_violation(self, replay, note, nofail=False):
        self.violations.append({"replay": replay, "note": note, "nofail": nofail})

def first_pi_divergence(ctx, rep):
    """first DIV in the property's projection, unless the runs were already out of sync in a
    state component outside the projection at an earlier op (then: not attributable)"""
    first_other = None
    for d in rep["div"]:
        if ctx.pi.search(d["comp"]):
            if first_other is not None and first_other < d["op"]:
                return None, first_other
            return d, None
        if STATE_NON_PI_DESYNC.search(d["comp"]) or d["comp"] == "ret":
            if first_other is None:
                first_other = d["op"]
    return None, first_other

def evaluate_stream(ctx, res):
    """apply the verdict logic of DESIGN.md §5.3 to one stream"""
    pid = ctx.pid
    name = res.name
    header = ["property=%s stream=%s cfg=%s seed=%d tier=%s" % (pid, name, res.cfg, ctx.seed, ctx.tier)]
    aborted = res.harness_rc != 0
    if aborted:
        ctx.cov["sanitizer_aborts"] += 1
    if getattr(res, "sanitizer_note", None):
        ctx.cov["sanitizer_aborts"] += 1
        ctx.notes.append("stream %s: %s (reported under C05); evaluated on the uninstrumented build instead" % (res.name, res.sanitizer_note))
    rep = res.report if getattr(res, "report", None) is not None else runner.check_stream(res)
    st = rep["stat"]
    nops = int(st.get("ops", 0))
    ctx.cov["evaluations"] += nops
    distinct = len(set(l for l in res.ops if l.startswith("p ") or l.startswith("s ")))
    ctx.cov["distinct_nontrivial"] += distinct
    ctx.cov["state_changing_ops"] = ctx.cov.get("state_changing_ops", 0) + int(st.get("statechanges", 0))
    ctx.cov["events"] += int(st.get("events", 0))
    ctx.cov["groups"] += int(st.get("groups", 0))
    ctx.cov["streams"].append({"name": name, "cfg": res.cfg, "ops": nops, "groups": int(st.get("groups", 0)),
                               "events": int(st.get("events", 0)), "state_changing_ops": int(st.get("statechanges", 0)),
                               "distinct_group_or_string_ops": distinct,
                               "callbacks_by_kind[pi,pty,tp,ta,ms,ecc,country,af,ps,rt,ptyn,ct]": st.get("evhist", []), "harness_exit": res.harness_rc})
    if len(ctx.cov["samples"]) < 6:
        body = [l for l in res.ops if l.startswith("p ") or l.startswith("s ")]
        ctx.cov["samples"].append({"stream": name, "ops": res.ops[:3] + body[:3]})
    # 1. sanitizer abort / timeout / harness-detected problems: C05's business (and C19 for X lines on handles)
    if aborted or rep["x"]:
        if pid == "C05" or (pid in ("C15", "C19", "C18") and rep["x"]):
            k = nops
            ops = runner.slice_for_instance(res.ops, k + 1)
            what = ("harness exit %d: %s" % (res.harness_rc, res.harness_err.strip()[-1500:])) if aborted else rep["x"][0]
            path = runner.write_replay(pid, "%s-s%d" % (name, ctx.seed), header + ["kind=runtime", what.replace("\n", " | ")[:2000]], ops)
            ctx.add_violation(path, what[:300])
            return
        else:
            ctx.notes.append("stream %s: harness exit %d (reported under C05)" % (name, res.harness_rc))
    # 2. the property's own monitor on the implementation trace (model-independent)
    mons = [m for m in rep["mon"] if m["prop"] == pid]
    if name.startswith("reent"):
        mons = []          # nested-call streams: correspondence with `mstepH` only
    if mons:
        ctx.cov["monitor_failures"] += len(mons)
        m = mons[0]
        ops = runner.slice_for_instance(res.ops, m["op"])
        pred = lambda r, rc: any(x["prop"] == pid for x in r["mon"])
        small = runner.shrink(ctx.workdir, res.cfg, ops, pred)
        path = runner.write_replay(pid, "%s-s%d" % (name, ctx.seed), header + ["kind=monitor predicate chk%s fails on the implementation's own trace at the last op" % pid], small)
        ctx.add_violation(path, "monitor %s fails at op %d of stream %s" % (pid, m["op"], name))
        return
    # 3. correspondence on the projection
    saved_pi = ctx.pi
    if name.startswith("reent"):
        ctx.pi = re.compile(RPI.get(pid, NONE))
    d, desync = first_pi_divergence(ctx, rep)
    if d is not None:
        ctx.cov["divergences_in_projection"] += 1
        ops = runner.slice_for_instance(res.ops, d["op"])
        comp = d["comp"]
        pred = lambda r, rc: any(ctx.pi.search(x["comp"]) for x in r["div"])
        small = runner.shrink(ctx.workdir, res.cfg, ops, pred)
        path = runner.write_replay(pid, "%s-s%d-corr" % (name, ctx.seed),
                                   header + ["kind=correspondence: model and implementation disagree on component %s (projection of %s); %s" % (comp, pid, d["detail"][:400]),
                                             "no monitor predicate of %s fails on this input: no-failing-input-found" % pid], small)
        ctx.add_violation(path, "correspondence broken on %s at op %d (%s)" % (comp, d["op"], name), nofail=True)
        ctx.pi = saved_pi
        return
    ctx.pi = saved_pi
    if desync is not None:
        ctx.cov["desync_skipped"] += 1
    if rep["err"] and not (aborted and pid != "C05"):
        path = runner.write_replay(pid, "%s-s%d-err" % (name, ctx.seed), header + ["kind=correspondence machinery error: " + rep["err"][0][:500]], res.ops[:50])
        ctx.add_violation(path, rep["err"][0][:200], nofail=True)

def evaluate_twin(ctx, name, tw, cfg_a, cfg_b, what):
    diffs, n, fails, ra, rb = runner.run_twin(ctx.workdir, name, tw, cfg_a, cfg_b)
    ctx.cov["evaluations"] += n
    ctx.cov["distinct_nontrivial"] += int(tw.get("nontrivial", 0))
    ctx.cov["twin_runs"].append({"name": name, "records_compared": n, "ops_a": len(tw["a"]), "ops_b": len(tw["b"]),
                                 "nontrivial": int(tw.get("nontrivial", 0)), "cfg": [cfg_a, cfg_b]})
    if fails and ctx.pid == "C05":
        path = runner.write_replay(ctx.pid, "%s-s%d" % (name, ctx.seed), ["kind=runtime " + fails[0][2].replace("\n", " | ")[:1500]], tw["a"])
        ctx.add_violation(path, "harness abort in twin run")
        return
    if diffs and all(a == b for a, b in tw["pairs"]) and len(tw["a"]) == len(tw["b"]):
        # index-aligned twins: shrink both op lists together (ddmin on shared index sets)
        ia = diffs[0][0]
        idx = list(range(ia + 1))
        A, B = tw["a"], tw["b"]
        t0 = time.time()
        def still(sub):
            t2 = dict(tw); t2["a"] = [A[i] for i in sub]; t2["b"] = [B[i] for i in sub]
            t2["pairs"] = [(i, i) for i in range(len(sub))]
            d2, _, _, _, _ = runner.run_twin(ctx.workdir, name + "_shr", t2, cfg_a, cfg_b)
            return d2
        n = 2
        while len(idx) >= 2 and time.time() - t0 < 25:
            chunk = max(1, len(idx) // n)
            reduced = False
            for i in range(0, len(idx), chunk):
                cand = idx[:i] + idx[i + chunk:]
                if cand and still(cand):
                    idx = cand; n = max(n - 1, 2); reduced = True
                    break
                if time.time() - t0 > 25: break
            if not reduced:
                if chunk == 1: break
                n = min(n * 2, len(idx))
        d2 = still(idx)
        if d2:
            tw = dict(tw); tw["a"] = [A[i] for i in idx]; tw["b"] = [B[i] for i in idx]
            diffs = d2
    if diffs:
        ia, ib, comp, va, vb = diffs[0]
        hdr = ["property=%s twin=%s seed=%d: %s" % (ctx.pid, name, ctx.seed, what),
               "kind=twin (implementation against implementation): records a[%d] / b[%d] differ in %s: a=%s b=%s" % (ia, ib, comp, va, vb),
               "the second run follows after the line '# ---- twin b ----'"]
        body = tw["a"][: ia + 1] + ["# ---- twin b ----"] + tw["b"][: ib + 1]
        path = runner.write_replay(ctx.pid, "%s-s%d" % (name, ctx.seed), hdr, body)
        ctx.add_violation(path, "twin runs differ in %s at a[%d]/b[%d]" % (comp, ia, ib))

def lean_obligations(ctx):
    """build the property's Lean module, audit sources and axioms — one critical section, so that a concurrently
    running check (which may regenerate Generated.lean from another tree) cannot interleave with it"""
    with infra.Lock("lake"):
        import refine
        refine.recover_journal()      # proof files a killed localisation pass may have left edited
        # re-establish Generated.lean for THIS tree inside the critical section (another check may have rewritten it)
        if getattr(ctx, "generated_text", None) is not None:
            gp = os.path.join(LEAN, "RdsModel", "Generated.lean")
            cur = open(gp).read() if os.path.exists(gp) else None
            if cur != ctx.generated_text:
                open(gp, "w").write(ctx.generated_text)
        if getattr(ctx, "translated_text", None) is not None:
            tp = os.path.join(LEAN, "RdsC", "Translated.lean")
            cur = open(tp).read() if os.path.exists(tp) else None
            if cur != ctx.translated_text:
                open(tp, "w").write(ctx.translated_text)
        ok, msg = _lean_obligations(ctx)
        infra.pin_rdsmodel(ctx.workdir)
        if not ok:
            return ok, msg
        # refinement obligations between the translated C source and the model (T0)
        import refine
        if os.environ.get("VERIF_NO_REFINE") == "1":
            ctx.cov["refinement"] = {"status": "disabled by VERIF_NO_REFINE"}
            return ok, msg
        if getattr(ctx, "translated_text", None) is None:
            ctx.lean_log = ctx.cov.get("translation", {}).get("translator", "")
            return False, "the C source could not be translated (tools/c2lean.py failed): the refinement between source and model cannot be re-checked"
        rr = refine.check(ctx, locked=True)
        mine = [b for b in rr["broken"] if ctx.pid in b["owners"]]
        ctx.cov["refinement"] = {"status": rr["status"], "build_s": rr.get("build_s"), "theorems_audited": rr.get("theorems"),
                                 "untranslated_on_this_tree": rr.get("untranslated"),
                                 "broken_declarations": [{k: b[k] for k in ("file", "decl", "msg", "owners")} for b in rr["broken"]][:20],
                                 "broken_for_this_property": [b["decl"] for b in mine]}
        if mine:
            ctx.lean_log = "; ".join("%s (%s:%d): %s" % (b["decl"], b["file"], b["line"], b["msg"]) for b in mine[:6])
            return False, "refinement between the translated C source and the model no longer checks: " + ", ".join(str(b["decl"]) for b in mine[:6])
        return ok, msg

def _lean_obligations(ctx):
    pid = ctx.pid
    module, thms = lean_info(pid)
    ok, out, dt = infra.lake_build([module, "rdsmodel"], locked=True)
    ctx.cov["lake_build_s"] = round(dt, 1)
    ctx.obligations = len(thms)
    if not ok:
        failed = re.findall(r"^(?:✖|error:).*?(Rds\w+\.\w+|Main)", out, re.M)
        msg = "lake build failed: " + " ".join(sorted(set(failed)))[:300]
        ctx.lean_log = out[-6000:]
        return False, msg
    hits = infra.audit_sources()
    if hits:
        ctx.lean_log = "\n".join(hits)
        return False, "source audit: forbidden construct: " + hits[0]
    if thms:
        axs, raw, rc = infra.print_axioms(module, thms)
        bad = []
        for t in thms:
            if t not in axs:
                bad.append("%s: no #print axioms output" % t)
            else:
                extra = [a for a in axs[t] if a not in infra.ALLOWED_AXIOMS]
                if extra:
                    bad.append("%s depends on %s" % (t, extra))
        ctx.cov["axioms"] = {t: axs.get(t) for t in thms}
        if bad:
            ctx.lean_log = raw[-4000:]
            return False, "axiom audit: " + "; ".join(bad)[:400]
        if ctx.tier == "thorough":
            # independent re-check of the compiled .olean of the property's module
            t1 = time.time()
            r = subprocess.run(["lake", "env", "leanchecker", module], cwd=LEAN, stdout=subprocess.PIPE, stderr=subprocess.STDOUT, text=True)
            ctx.cov["leanchecker"] = {"module": module, "exit": r.returncode, "s": round(time.time() - t1, 1)}
            if r.returncode != 0:
                ctx.lean_log = r.stdout[-4000:]
                return False, "leanchecker rejects " + module
        ctx.discharged = len(thms)
    return True, ""

def write_evidence(ctx, rc):
    global EVID
    if os.path.realpath(infra.REPO) != "/repo":
        # self-validation runs against a scratch copy (VERIF_REPO) must not overwrite the evidence of /repo itself
        EVID = os.path.join(infra.WORK, "evidence-scratch")
    os.makedirs(EVID, exist_ok=True)
    module, thms = lean_info(ctx.pid)
    cov = dict(ctx.cov)
    if ctx.discharged >= 1 and ctx.discharged == ctx.obligations:
        cov["obligations"] = ctx.obligations
        cov["discharged"] = ctx.discharged
    else:
        # a proof obligation failed on this run: the proof-level keys are withheld (the generic counts below remain)
        cov["proof_obligations_failed"] = {"obligations": ctx.obligations, "discharged": ctx.discharged}
    cov["theorems"] = thms
    cov["checker_cmd"] = "cd /verif/lean && lake build %s rdsmodel && lake env lean <#print axioms of the theorems above>; grep audit of all .lean sources" % module
    cov["trusted_base"] = runner.TRUSTED_BASE
    cov["rule"] = ("ops files generated from one PRNG seeded by VERIF_SEED (structured generator + exhaustive sweeps, tools/gen.py, tools/props.py:streams); "
                   "each op is executed by the real library (ASan+UBSan build of the current tree) and by the Lean model; "
                   "evaluations = ops executed by the real library and compared with the model / evaluated by the monitors; distinct_nontrivial = number of DISTINCT "
                   "operation texts (per stream) that deliver a group or a string to the parser (setters, resets, observer calls and exact repeats are not counted), "
                   "plus, for twin runs, the ops whose twin differs in a don't-care component; state_changing_ops = ops after which the getter-visible state changed")
    cov["exhaustive"] = False
    ev = {"property_id": ctx.pid, "tier": ctx.tier if ctx.tier in ("quick", "thorough") else "quick", "seed": ctx.seed,
          "level": "proof", "coverage": cov,
          "assumptions": ["the correspondence is differential testing: complete on the swept finite sub-domains, sampled elsewhere",
                          "reference tables and property statements are the specification"] + ctx.notes[:10],
          "wall_s": round(time.time() - ctx.t0, 2), "violations": len(ctx.violations)}
    if cov["evaluations"] < 1: cov["evaluations"] = cov["evaluations"]
    path = os.path.join(EVID, ctx.pid + ".json")
    with open(path + ".tmp", "w") as f:
        json.dump(ev, f, indent=1)
    os.replace(path + ".tmp", path)

def finish(ctx):
    known = load_known()
    rc = 0
    for kl in ctx.known_lines:
        print("KNOWN-FINDING: property=%s %s" % (ctx.pid, kl))
    for v in ctx.violations:
        rc = 1
        print("VIOLATION property=%s replay=%s%s" % (ctx.pid, v["replay"], " no-failing-input-found" if v["nofail"] else ""))
        log("  " + v["note"])
    write_evidence(ctx, rc)
    shutil.rmtree(ctx.workdir, ignore_errors=True)
    log("%s %s tier=%s seed=%d: %s in %.1fs (%d ops)" % (ctx.pid, PROPS[ctx.pid]["title"], ctx.tier, ctx.seed,
        "OK" if rc == 0 else "VIOLATION", time.time() - ctx.t0, ctx.cov["evaluations"]))
    return rc

def c18_segment_check(ctx):
    pid = ctx.pid
    # pure lookups: no byte of the library's writable segment changes while every lookup runs over its whole domain
    try:
        segx = infra.build_binary("u", "extractseg")
        rr = subprocess.run([segx], stdout=subprocess.PIPE, stderr=subprocess.PIPE, text=True, timeout=120)
        mseg = re.search(r"SEG segments=(\d+) bytes=(\d+) changed=(\d+)", rr.stdout)
        ctx.cov["lookup_segment_check"] = mseg.group(0) if mseg else "no SEG line (exit %d)" % rr.returncode
        if mseg and int(mseg.group(1)) > 0 and int(mseg.group(3)) > 0:
            diffs = [l for l in rr.stdout.splitlines() if l.startswith("SEGDIFF")]
            path = runner.write_replay(pid, "lookup-segment", ["property=C18 kind=runtime: the lookup functions wrote to the library's writable data segment (a cache or scratch buffer behind a function that must return constant strings): " + "; ".join(diffs[:4]),
                                                                "replay: build the library as a shared object and run harness/extract.c with -DSEGCHECK (tools/infra.py kind 'extractseg')"], [])
            ctx.add_violation(path, "lookup functions modify static state (%s bytes)" % mseg.group(3))
    except (infra.BuildError, subprocess.TimeoutExpired) as e:
        ctx.notes.append("lookup segment check not run: " + str(e)[:200])

def run_property(pid, tier, seed):
    ctx = Ctx(pid, tier, seed)
    os.makedirs(ctx.workdir, exist_ok=True)
    try:
        # 1. build + 2. extraction
        try:
            for cfg in sorted(set(c for _, c, _ in streams(pid, "quick", 0)) | {"u", "n"}):
                infra.build_binary(cfg, "harness")
            du, dn, changed = infra.extraction(full=(tier != "quick" and pid in ("C11",)), allow_plain=(pid != "C05"))
            ctx.cov["generated_changed"] = changed
            if infra.EXTRACT_NOTE:
                ctx.cov["extractor_note"] = dict(infra.EXTRACT_NOTE)
            ctx.generated_text = open(os.path.join(LEAN, "RdsModel", "Generated.lean")).read()
            # T0: translate the current C source (tools/c2lean.py) -> RdsC/Translated.lean
            ctx.translated_text, tchanged, tmsg = infra.translation()
            ctx.cov["translation"] = {"changed": tchanged, "translator": tmsg}
            if du["const"].get("eccNibbleOnlyViolations", 0) > 0 and pid == "C11":
                pi, e = du["eccbad"][0] if du["eccbad"] else (0, 0)
                path = runner.write_replay(pid, "nibble", ["property=C11 kind=table (T1, complete sweep of all 65 536 PI values x 256 ECC): the country depends on more than the PI country nibble"], ["new", "p %d 4096 %d 0 0 0 0 0" % (pi, e)])
                ctx.add_violation(path, "country depends on PI bits outside the nibble")
            if pid == "C18":
                c18_segment_check(ctx)
                uns = du.get("unstable", []) + dn.get("unstable", [])
                ctx.cov["kept_pointers_rechecked"] = 256 * 8 * 2
                FN = {"PTYNAME": "rdsparser_pty_lookup_name", "PTYSHORT": "rdsparser_pty_lookup_short", "PTYLONG": "rdsparser_pty_lookup_long", "CNAME": "rdsparser_country_lookup_name", "CISO": "rdsparser_country_lookup_iso"}
                for tag, arg, rbds, first, later in uns[:3]:
                    call = "%s(%d%s)" % (FN[tag], arg, (", true" if rbds else ", false") if tag.startswith("PTY") else "")
                    path = runner.write_replay(pid, "unstable-%s-%d" % (tag, arg & 255), ["property=C18 kind=runtime (T1 extractor, every lookup over its whole domain): the string returned by %s is not constant: it read %r when returned and %r through the same pointer after the remaining lookups had been made (%d of 4096 kept pointers changed)" % (call, first.decode("latin-1"), later.decode("latin-1"), len(uns)), "lookup %s ; keep the pointer ; call the same function for every other argument ; read the pointer again" % call], [])
                    ctx.add_violation(path, "lookup result is not a constant string: " + call)
                hist = du.get("history", []) + dn.get("history", [])
                ctx.cov["lookup_history_pairs"] = {k[12:]: v for k, v in du.get("note", {}).items() if k.startswith("historyPairs")}
                for tag, ax, rx, ay, ry, nth, got, exp in hist[:3]:
                    isp = tag.startswith("PTY")
                    c1 = "%s(%d%s)" % (FN[tag], ax, (", true" if rx else ", false") if isp else "")
                    c2 = "%s(%d%s)" % (FN[tag], ay, (", true" if ry else ", false") if isp else "")
                    path = runner.write_replay(pid, "history-%s-%d-%d" % (tag, ax & 255, ay & 255), ["property=C18 kind=runtime (T1 extractor, every ordered pair of arguments): the answer of a lookup depends on the call before it: after %s, call number %d of %s returned %r; asked on its own it returns %r" % (c1, nth, c2, got.decode("latin-1"), exp.decode("latin-1")), "%s ; %s ; %s" % (c1, c2, c2)], [])
                    ctx.add_violation(path, "lookup result depends on the previous call: " + c2)
            ctx.cov["ecc_nibble_only_sweep"] = du["const"].get("eccNibbleOnlyViolations", "not run in this tier")
        except infra.BuildError as e:
            msg = str(e)
            san = ("runtime error" in msg or "AddressSanitizer" in msg or "Sanitizer" in msg)
            if pid == "C05" and san:
                # the extractor (public API over whole finite domains, ASan+UBSan build) aborted: that is C05's business;
                # keep going with the streams to obtain an ops-file replay as well
                path = runner.write_replay(pid, "extractor", ["kind=runtime: the table extractor (harness/extract.c: every lookup function and every (PI class, ECC) pair through the public API) aborted under the sanitizers", msg[:3000].replace("\n", " | ")], [])
                ctx.add_violation(path, "sanitizer abort in the extractor")
                for name, cfg, ops in streams(pid, tier, seed):
                    res = runner.run_stream(ctx.workdir, name, cfg, ops)
                    if res.harness_rc != 0:
                        rep = runner.check_stream(res) if os.path.exists(infra.rdsmodel()) else {"stat": {}}
                        k = int(rep["stat"].get("ops", 0)) if rep.get("stat") else len(ops)
                        opsk = runner.slice_for_instance(ops, k + 1)
                        p2 = runner.write_replay(pid, "%s-s%d" % (name, seed), ["property=C05 stream=%s cfg=%s kind=runtime harness exit %d: %s" % (name, cfg, res.harness_rc, res.harness_err.strip()[-1500:].replace("\n", " | "))], opsk)
                        ctx.add_violation(p2, "sanitizer abort in stream " + name)
                        break
                return finish(ctx)
            if pid == "C18":
                # one build configuration no longer compiles: the look-ups of the default build can still be run over their
                # whole domains for a concrete input before the broken tie is reported
                c18_segment_check(ctx)
                try:
                    infra.build_binary("u", "harness")
                    for name, cfg, ops in streams(pid, tier, seed):
                        res = runner.run_stream(ctx.workdir, name, "u", ops)
                        k = -1
                        for line in open(res.trace_path):
                            if line.startswith("O "): k = int(line.split()[1])
                            elif line.startswith("X "):
                                p2 = runner.write_replay(pid, "%s-s%d" % (name, seed), ["property=C18 stream=%s cfg=u kind=runtime: %s" % (name, line.strip())], runner.slice_for_instance(ops, k))
                                ctx.add_violation(p2, line.strip()[:300])
                                break
                except (infra.BuildError, subprocess.TimeoutExpired, OSError):
                    pass
                if ctx.violations:
                    return finish(ctx)
            path = runner.write_replay(pid, "build", ["kind=build/extraction step failed; the tie between model and source cannot be established", msg[:3000].replace("\n", " | ")], [])
            ctx.add_violation(path, "build/extraction failed", nofail=True)
            return finish(ctx)
        # 3./4. Lean obligations
        ok, msg = lean_obligations(ctx)
        lean_failure = None
        if not ok:
            import tablediag
            if tablediag.diagnose(ctx, msg):
                return finish(ctx)
            # a proof obligation no longer checks: search model and implementation for a failing input
            lean_failure = msg
            with infra.Lock("lake"):
                ok2, out2, _ = infra.lake_build(["rdsmodel"], locked=True)
                if ok2:
                    infra.pin_rdsmodel(ctx.workdir)
            if not ok2:
                path = runner.write_replay(pid, "lean", ["kind=proof obligation no longer checks and the model driver does not build: " + msg, getattr(ctx, "lean_log", "")[-3000:].replace("\n", " | ")], [])
                ctx.add_violation(path, msg, nofail=True)
                return finish(ctx)
        # 5. property-specific extra machinery
        import extra
        extra.run_extra(ctx)
        # 6. correspondence + monitors
        from concurrent.futures import ThreadPoolExecutor
        def prepare(item):
            name, cfg, ops = item
            res = runner.run_stream(ctx.workdir, name, cfg, ops)
            if res.harness_rc != 0 and pid != "C05":
                # the sanitized harness aborted (C05 reports that); this property is decided on the functional
                # behaviour, so run the same ops on the uninstrumented build to get a complete trace
                res2 = runner.run_stream(ctx.workdir, name + "_plain", cfg, ops, kind="plain")
                if res2.harness_rc == 0:
                    res2.name = name
                    res2.sanitizer_note = "sanitized harness exit %d: %s" % (res.harness_rc, res.harness_err.strip()[:300].replace("\n", " | "))
                    res = res2
            runner.check_stream(res)
            return res
        items = streams(pid, tier, seed)
        if tier != "quick":
            # thorough: the random streams (not the complete sweeps, which do not depend on the seed) at three more derived seeds
            for i in (1, 2, 3):
                for name, cfg, ops in streams(pid, tier, seed + 7919 * i):
                    if not (name.startswith("sweep") or name.startswith("thr") or name.startswith("hex")):
                        items.append(("%s_d%d" % (name, i), cfg, ops))
        with ThreadPoolExecutor(max_workers=min(12, max(1, len(items)))) as ex:
            results = list(ex.map(prepare, items))
        for res in results:
            evaluate_stream(ctx, res)
            if len(ctx.violations) >= 3:
                break
        # 7. twin runs
        for name, tw, ca, cb in twin_specs(pid, tier, seed):
            evaluate_twin(ctx, name, tw, ca, cb, "twin run")
            if len(ctx.violations) >= 3:
                break
        if lean_failure and not ctx.violations:
            # escalate the search before concluding: the same streams and twins at further seeds
            for extra in (1, 2, 3):
                sd = seed + 104729 * extra
                items2 = [(n + "_x%d" % extra, c, o) for n, c, o in streams(pid, tier, sd)
                          if not (n.startswith("sweep") or n.startswith("thr") or n.startswith("hex"))]
                with ThreadPoolExecutor(max_workers=min(8, max(1, len(items2)))) as ex:
                    results2 = list(ex.map(prepare, items2))
                for res in results2:
                    evaluate_stream(ctx, res)
                for name, tw, ca, cb in twin_specs(pid, tier, sd):
                    evaluate_twin(ctx, name + "_x%d" % extra, tw, ca, cb, "twin run (escalated search)")
                    if ctx.violations: break
                ctx.cov["escalated_search_seeds"] = extra
                if ctx.violations:
                    break
        if lean_failure and not ctx.violations:
            path = runner.write_replay(pid, "lean", ["kind=proof obligation no longer checks: " + lean_failure,
                                                     "no input on which the property fails was found by the correspondence and monitor runs of this tier: no-failing-input-found",
                                                     getattr(ctx, "lean_log", "")[-3000:].replace("\n", " | ")], [])
            ctx.add_violation(path, lean_failure, nofail=True)
    except Exception as e:
        traceback.print_exc()
        path = runner.write_replay(pid, "internal", ["kind=internal error of the checking machinery: " + repr(e)[:500]], [])
        ctx.add_violation(path, "internal error " + repr(e)[:200], nofail=True)
    return finish(ctx)

def replay(pid, path):
    """re-run one replay file: prints both traces and the monitor verdict"""
    lines = [l.rstrip("\n") for l in open(path)]
    hdr = [l for l in lines if l.startswith("#")]
    for h in hdr: print(h)
    cfg = "u"
    for h in hdr:
        m = re.search(r"cfg=(\w+)", h)
        if m: cfg = m.group(1)
    body = [l for l in lines if l.strip()]
    if "# ---- twin b ----" in body:
        i = body.index("# ---- twin b ----")
        parts = [("a", [l for l in body[:i] if not l.startswith("#")]), ("b", [l for l in body[i + 1:] if not l.startswith("#")])]
    else:
        parts = [("", [l for l in body if not l.startswith("#")])]
    wd = os.path.join(WORK, "replay-%d" % os.getpid())
    rc_all = 0
    for tag, ops in parts:
        if not ops: continue
        res = runner.run_stream(wd, "replay" + tag, cfg, ops)
        print("--- implementation trace %s (exit %d) ---" % (tag, res.harness_rc))
        sys.stdout.write(open(res.trace_path).read()[-6000:])
        if res.harness_err.strip(): print(res.harness_err[-3000:])
        rep = runner.check_stream(res)
        print("--- model vs implementation / monitors %s ---" % tag)
        print(res.report_text[-4000:])
        nested = any("stream=reent" in h for h in hdr)
        proj = RPI.get(pid, NONE) if nested else PROPS[pid]["pi"]
        if (not nested and any(m["prop"] == pid for m in rep["mon"])) or res.harness_rc != 0 or any(re.search(proj, d["comp"]) for d in rep["div"]):
            rc_all = 1
    shutil.rmtree(wd, ignore_errors=True)
    print("replay verdict:", "property %s FAILS on this input" % pid if rc_all else "no failure of %s on this input" % pid)
    return rc_all
