#!/bin/bash
# confirm_seed.sh <seed-id> <dir containing patch.diff demo.c> : confirms, in a scratch worktree outside
# /repo and /verif, that the seeded change compiles, passes the unedited test suite, and that the
# demonstration fails with it and passes without it. Writes <dir>/confirm.json. Removes the worktree.
set -u
ID=$1; DIR=$2
WT=/tmp/confirm/$ID
rm -rf $WT; mkdir -p /tmp/confirm
git -C /repo worktree prune
git -C /repo worktree add -q --detach $WT HEAD || exit 2
cd $WT
# demo on the unchanged tree
# a seed whose demonstration needs several build configurations brings its own run_demo.sh (library root as $1 and $ROOT)
rundemo() { # $1 = output prefix
  if [ -f $DIR/run_demo.sh ]; then
    ( cd $WT && ROOT=$WT OUT=$WT/demo_out_$1 sh $DIR/run_demo.sh $WT ) > $WT/$1.out 2>&1
  else
    gcc -I$WT/include $WT/src/*.c $DIR/demo.c -o $WT/$1 -lm -lpthread 2>$WT/$1.err
    $WT/$1 > $WT/$1.out 2>&1
  fi
}
rundemo demo_clean; RC_CLEAN=$?
git apply $DIR/patch.diff || { echo '{"error":"patch does not apply"}' > $DIR/confirm.json; git -C /repo worktree remove --force $WT; exit 2; }
rundemo demo_mut; RC_MUT=$?
cmake -G Ninja -S $WT -B $WT/_build > $WT/cmake.log 2>&1 && cmake --build $WT/_build >> $WT/cmake.log 2>&1; RC_BUILD=$?
ctest --test-dir $WT/_build -j4 --timeout 900 > $WT/ctest.log 2>&1; RC_TEST=$?
SUMMARY=$(grep "tests passed" $WT/ctest.log | tail -1)
# count individual cmocka cases
python3 - <<PY > $DIR/confirm.json
import json
print(json.dumps({"seed":"$ID","demo_exit_unchanged":$RC_CLEAN,"demo_exit_with_change":$RC_MUT,"build_exit":$RC_BUILD,"ctest_exit":$RC_TEST,"ctest_summary":"""$SUMMARY""".strip(),"demo_output_with_change":open("$WT/demo_mut.out").read()[-1500:]}, indent=1))
PY
cd /
git -C /repo worktree remove --force $WT
