#!/bin/bash
# confirm_seed.sh <seed-id> <dir containing patch.diff demo.c> : confirms, in a scratch worktree outside
# /repo and /verif, that the seeded change compiles, passes the unedited test suite, and that the
# demonstration fails with it and passes without it. Writes <dir>/confirm.json. Removes the worktree.
set -u
ID=$1; DIR=$2
WT=/tmp/confirm/$ID
rm -rf $WT; mkdir -p /tmp/confirm
git -C /repo worktree prune
git -C /repo worktree add -q --detach $WT HEAD || exit 2
cd $WT
# demo on the unchanged tree
gcc -I$WT/include $WT/src/*.c $DIR/demo.c -o $WT/demo_clean -lm -lpthread 2>$WT/demo_clean.err
$WT/demo_clean > $WT/demo_clean.out 2>&1; RC_CLEAN=$?
git apply $DIR/patch.diff || { echo '{"error":"patch does not apply"}' > $DIR/confirm.json; git -C /repo worktree remove --force $WT; exit 2; }
gcc -I$WT/include $WT/src/*.c $DIR/demo.c -o $WT/demo_mut -lm -lpthread 2>$WT/demo_mut.err
$WT/demo_mut > $WT/demo_mut.out 2>&1; RC_MUT=$?
cmake -G Ninja -S $WT -B $WT/_build > $WT/cmake.log 2>&1 && cmake --build $WT/_build >> $WT/cmake.log 2>&1; RC_BUILD=$?
ctest --test-dir $WT/_build -j4 --timeout 900 > $WT/ctest.log 2>&1; RC_TEST=$?
SUMMARY=$(grep "tests passed" $WT/ctest.log | tail -1)
# count individual cmocka cases
python3 - <<PY > $DIR/confirm.json
import json
print(json.dumps({"seed":"$ID","demo_exit_unchanged":$RC_CLEAN,"demo_exit_with_change":$RC_MUT,"build_exit":$RC_BUILD,"ctest_exit":$RC_TEST,"ctest_summary":"""$SUMMARY""".strip(),"demo_output_with_change":open("$WT/demo_mut.out").read()[-1500:]}, indent=1))
PY
cd /
git -C /repo worktree remove --force $WT
