#!/usr/bin/env python3
"""matrix.py [--tier quick] [seed-id ...] — for every seeded change: scratch worktree of /repo outside /repo and
/verif, apply the patch, run EVERY registered check against it (VERIF_REPO), record which checks report a
violation. Writes seeded/MATRIX.json (relative to the current /verif copy) and prints one line per seed.
Intended for `vp run` (works on a snapshot of /verif, leaves /repo itself untouched)."""
import json, os, subprocess, sys, time
VERIF = os.path.dirname(os.path.dirname(os.path.abspath(__file__)))
def sh(cmd, env=None):
    return subprocess.run(cmd, shell=True, stdout=subprocess.PIPE, stderr=subprocess.STDOUT, text=True, env=env)
args = [a for a in sys.argv[1:] if not a.startswith("--")]
seeds = args or sorted(d for d in os.listdir(os.path.join(VERIF, "seeded")) if os.path.isdir(os.path.join(VERIF, "seeded", d)))
props = [c["property_id"] for c in json.load(open(os.path.join(VERIF, "MANIFEST.json")))["checks"]]
sh("python3 %s/check.py --setup" % VERIF)
out = {}
mpath = os.path.join(VERIF, "seeded", "MATRIX.json")
if os.path.exists(mpath):
    out = json.load(open(mpath))
for sid in ["clean"] + seeds:
    wt = "/tmp/matrix/%s-%d" % (sid, os.getpid())
    sh("mkdir -p /tmp/matrix; git -C /repo worktree prune; git -C /repo worktree add -q --detach %s HEAD" % wt)
    try:
        if sid != "clean":
            r = sh("git -C %s apply %s/seeded/%s/patch.diff" % (wt, VERIF, sid))
            if r.returncode != 0:
                print(sid, "PATCH DOES NOT APPLY"); continue
        env = dict(os.environ); env["VERIF_REPO"] = wt
        row = {}
        for p in props:
            t0 = time.time()
            r = sh("python3 %s/check.py %s --tier quick" % (VERIF, p), env=env)
            v = [l for l in r.stdout.splitlines() if l.startswith("VIOLATION")]
            row[p] = {"exit": r.returncode, "violations": [x.split("replay=")[1] for x in v][:3], "s": round(time.time() - t0, 1)}
        out[sid] = row
        caught = [p for p in props if row[p]["exit"] != 0]
        nofail = [p for p in caught if all("no-failing-input-found" in x for x in row[p]["violations"])]
        print(sid, "caught by", caught, "(without failing input:", nofail, ")", flush=True)
        json.dump(out, open(mpath, "w"), indent=1)
    finally:
        sh("git -C /repo worktree remove --force %s" % wt)
