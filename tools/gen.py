"""gen.py — structured generator of ops files for the correspondence check (DESIGN.md §4.2).

Every random choice comes from one `random.Random(seed)`; the same (profile, seed, n) gives
the same file. Profiles bias the stream towards the decision domain of one property; all of
them produce mostly-valid RDS traffic with a malformed tail.
"""
import random

TEXT_TYPES = (0, 2, 10)

def hexstr(b):
    return "s X" + bytes(b).hex()

class Gen:
    def __init__(self, seed, profile="mixed"):
        self.r = random.Random(seed)
        self.profile = profile
        r = self.r
        self.pi_pool = [r.randrange(65536) for _ in range(3)] + [0x0ABC, 0x1234, 0xF212]
        self.pty_pool = [r.randrange(32) for _ in range(3)]
        self.ecc_pool = [0xE0, 0xE2, 0xA0, 0xD3, 0xF1, r.randrange(256), r.randrange(256)]
        self.af_pool = [0, 1, 2, 100, 204, 205, 224, 225, 249, 250, 251, 255, r.randrange(256), r.randrange(256)]
        self.byte_pool = [0x0D, 0x20, 0x41, 0x42, 0x61, 0x7E, 0x7F, 0x80, 0x8D, 0xFF, 0x00, 0x0A, 0x1F]
        self.mjd_pool = [0, 1, 15078, 15079, 15080, 51543, 51544, 51603, 51604, 60275, 60369, 88127, 88128, 88129, 131070, 131071,
                         58848, 58849, 59214, 59215, 88068, 88069, 15019, 15020, 14955, 14956]
        self.hist = {}

    def count(self, k):
        self.hist[k] = self.hist.get(k, 0) + 1

    # ---- pieces -------------------------------------------------------------------------
    def err(self, zero=0.7):
        r = self.r
        x = r.random()
        if x < zero: return 0
        if x < zero + (1 - zero) * 0.35: return 1
        if x < zero + (1 - zero) * 0.65: return 2
        if x < zero + (1 - zero) * 0.88: return 3
        return r.choice([4, 5, 7, 8, 16, 64, 128, 254, 255, r.randrange(4, 256)])

    def byte(self):
        r = self.r
        x = r.random()
        if x < 0.45: return r.randrange(0x20, 0x7F)
        if x < 0.65: return r.choice(self.byte_pool)
        if x < 0.85: return r.randrange(0x7F, 0x100)
        return r.randrange(0, 0x100)

    def word(self):
        return (self.byte() << 8) | self.byte()

    def pi(self):
        r = self.r
        return r.choice(self.pi_pool) if r.random() < 0.85 else r.randrange(65536)

    def block_b(self, gtype, ver, low5):
        r = self.r
        pty = r.choice(self.pty_pool) if r.random() < 0.8 else r.randrange(32)
        tp = r.randrange(2) if r.random() < 0.3 else 0
        return (gtype << 12) | (ver << 11) | (tp << 10) | (pty << 5) | (low5 & 31)

    def group(self, gtype=None, ver=None, zero=None):
        r = self.r
        if gtype is None:
            x = r.random()
            if x < 0.25: gtype = 0
            elif x < 0.35: gtype = 1
            elif x < 0.63: gtype = 2
            elif x < 0.71: gtype = 4
            elif x < 0.81: gtype = 10
            else: gtype = r.choice([3, 5, 6, 7, 8, 9, 11, 12, 13, 14, 15])
        if ver is None:
            ver = 1 if r.random() < 0.25 else 0
        if zero is None:
            zero = r.choice([0.5, 0.7, 0.9, 0.97])
        a = self.pi()
        c = r.randrange(65536)
        d = r.randrange(65536)
        low5 = r.randrange(32)
        if gtype == 0:
            if r.random() < 0.8:
                low5 = (low5 & 0x1C) | r.randrange(4)
            c = (r.choice(self.af_pool) << 8 | r.choice(self.af_pool)) if r.random() < 0.8 else r.randrange(65536)
            d = self.word()
        elif gtype == 1:
            variant = 0 if r.random() < 0.7 else r.randrange(8)
            c = (r.randrange(2) << 15) | (variant << 12) | (r.randrange(16) << 8 if r.random() < 0.3 else 0) | (r.choice(self.ecc_pool) if r.random() < 0.85 else r.randrange(256))
        elif gtype == 2:
            flag = r.randrange(2) if r.random() < 0.25 else getattr(self, "_flag", 0)
            self._flag = flag
            addr = r.randrange(16) if r.random() < 0.7 else r.choice([0, 1, 15])
            low5 = (flag << 4) | addr
            c = self.word(); d = self.word()
        elif gtype == 4:
            mjd = r.choice(self.mjd_pool) if r.random() < 0.6 else r.randrange(1 << 17)
            hour = r.randrange(24) if r.random() < 0.85 else r.randrange(32)
            minute = r.randrange(60) if r.random() < 0.85 else r.randrange(64)
            off = r.randrange(64) if r.random() < 0.6 else r.choice([0, 1, 2, 31, 32, 33, 63, 47, 24, 56])
            low5 = (low5 & 0x1C) | (mjd >> 15)
            c = ((mjd & 0x7FFF) << 1) | (hour >> 4)
            d = ((hour & 15) << 12) | (minute << 6) | off
        elif gtype == 10:
            low5 = (low5 & 0x1E) | r.randrange(2)
            c = self.word(); d = self.word()
        b = self.block_b(gtype, ver, low5)
        self.count("type%d%s" % (gtype, "AB"[ver]))
        e = [self.err(zero) for _ in range(4)]
        return "p %d %d %d %d %d %d %d %d" % (a, b, c, d, e[0], e[1], e[2], e[3])

    def hexgroup_ok(self):
        r = self.r
        g = self.group().split()[1:]
        s = "".join("%04X" % int(x) for x in g[:4])
        if r.random() < 0.5: s = s.lower()
        elif r.random() < 0.3: s = "".join(ch.lower() if r.random() < 0.5 else ch for ch in s)
        if r.random() < 0.6:
            eb = (min(int(g[4]), 3) << 6) | (min(int(g[5]), 3) << 4) | (min(int(g[6]), 3) << 2) | min(int(g[7]), 3)
            t = "%02X" % eb
            s += t.lower() if r.random() < 0.5 else t
        return s.encode()

    def parse_string(self):
        r = self.r
        x = r.random()
        if x < 0.55:
            self.count("str_ok")
            return hexstr(self.hexgroup_ok())
        if x < 0.6:
            self.count("str_null")
            return "s N"
        if x < 0.8:
            # one bad byte at a random position of a well-formed carrier
            s = bytearray(self.hexgroup_ok())
            pos = r.randrange(len(s))
            s[pos] = r.choice([0x20, 0x2B, 0x2D, 0x78, 0x58, 0x09, 0x0A, 0x47, 0x67, 0x2F, 0x3A, 0x40, 0x60, 0x80, 0xFF, r.randrange(1, 256)])
            self.count("str_badbyte")
            return hexstr(s)
        if x < 0.95:
            # wrong length
            s = bytearray(self.hexgroup_ok())
            n = r.choice([0, 1, 4, 15, 17, 19, 20, 32, 36, r.randrange(0, 41)])
            s = (s * 3)[:n]
            self.count("str_badlen")
            return hexstr(s)
        n = r.choice([16, 18, r.randrange(0, 41)])
        self.count("str_random")
        return hexstr(bytes(r.randrange(1, 256) for _ in range(n)))

    def setter(self):
        r = self.r
        x = r.random()
        if x < 0.25:
            self.count("set_ext")
            return "x %d" % r.randrange(2)
        if x < 0.7:
            self.count("set_corr")
            v = r.randrange(4) if r.random() < 0.8 else r.randrange(256)
            return "c %d %d %d" % (r.randrange(3), r.randrange(2), v)
        self.count("set_prog")
        return "g %d %d" % (r.randrange(3), r.randrange(2))

    def observer(self):
        r = self.r
        x = r.random()
        if x < 0.6:
            self.count("register")
            return "r %d %d" % (r.randrange(12), 1 if r.random() < 0.6 else 0)
        if x < 0.8:
            self.count("user_data")
            return "u %d" % r.randrange(1, 1 << 20)
        self.count("getters")
        return "q"

    def prologue(self, all_cbs=True, heap=None):
        r = self.r
        out = ["new" if (heap if heap is not None else r.random() < 0.5) else "init"]
        if all_cbs:
            out += ["r %d 1" % k for k in range(12)]
        out.append("u %d" % r.randrange(1, 1000))
        return out

    def settings_block(self):
        r = self.r
        out = []
        if r.random() < 0.4: out.append("x 1")
        for t in range(3):
            if r.random() < 0.6: out.append("c %d 0 %d" % (t, r.randrange(3)))
            if r.random() < 0.6: out.append("c %d 1 %d" % (t, r.randrange(3)))
            if r.random() < 0.4: out.append("g %d 1" % t)
        return out

    # ---- streams ------------------------------------------------------------------------
    def mixed(self, n, multi=False):
        """general traffic: parse-heavy, with setters, resets, observers, strings"""
        r = self.r
        out = self.prologue(all_cbs=r.random() < 0.7)
        out += self.settings_block()
        live = {0}
        cur = 0
        while len(out) < n:
            x = r.random()
            if x < 0.86:
                out.append(self.group())
            elif x < 0.90:
                out.append(self.parse_string())
            elif x < 0.93:
                out.append(self.setter())
            elif x < 0.96:
                out.append(self.observer())
            elif x < 0.975:
                self.count("clear")
                out.append("clear")
                if r.random() < 0.5:
                    out += self.settings_block()
            elif x < 0.98:
                self.count("init")
                out.append("init" if r.random() < 0.5 else "new")
                if r.random() < 0.8:
                    out += ["r %d 1" % k for k in range(12)]
                out += self.settings_block()
            elif x < 0.985:
                out.append(r.choice(["mf", "fn"]))
                self.count("fault")
            elif multi:
                # instance management
                y = r.random()
                if y < 0.6:
                    i = r.randrange(8)
                    out.append("@ %d" % i)
                    cur = i
                    if i not in live:
                        out += self.prologue(all_cbs=r.random() < 0.7)
                        live.add(i)
                elif len(live) > 1 and y < 0.75:
                    out.append("free")
                    live.discard(cur)
                    cur = r.choice(sorted(live))
                    out.append("@ %d" % cur)
                self.count("instance")
            else:
                out.append(self.group())
        return out[:n] if len(out) > n else out


def write_ops(path, lines):
    with open(path, "w") as f:
        f.write("\n".join(lines))
        f.write("\n")
