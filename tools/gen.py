"""gen.py — structured generator of ops files for the correspondence check (DESIGN.md §4.2).

Every random choice comes from one `random.Random(seed)`; the same (profile, seed, n) gives
the same file. Profiles bias the stream towards the decision domain of one property; all of
them produce mostly-valid RDS traffic with a malformed tail.
"""
import random

TEXT_TYPES = (0, 2, 10)

def hexstr(b):
    return "s X" + bytes(b).hex()

class Gen:
    def __init__(self, seed, profile="mixed"):
        self.r = random.Random(seed)
        self.profile = profile
        r = self.r
        self.pi_pool = [r.randrange(65536) for _ in range(3)] + [0x0ABC, 0x1234, 0xF212] + [r.choice([0x0000, 0x00FF, 0x54FF, 0xFF00, 0xFFFF, 0x0001, 0x8000, 0x7FFF])]
        self.pty_pool = [r.randrange(32) for _ in range(3)]
        self.ecc_pool = [0xE0, 0xE2, 0xA0, 0xD3, 0xF1, r.randrange(256), r.randrange(256)]
        self.af_pool = [0, 1, 2, 100, 204, 205, 224, 225, 249, 250, 251, 255, r.randrange(256), r.randrange(256)]
        self.byte_pool = [0x0D, 0x20, 0x41, 0x42, 0x61, 0x7E, 0x7F, 0x80, 0x8D, 0xFF, 0x00, 0x0A, 0x1F]
        self.mjd_pool = [0, 1, 15078, 15079, 15080, 51543, 51544, 51603, 51604, 60275, 60369, 88127, 88128, 88129, 131070, 131071,
                         58848, 58849, 59214, 59215, 88068, 88069, 15019, 15020, 14955, 14956]
        self.hist = {}

    def count(self, k):
        self.hist[k] = self.hist.get(k, 0) + 1

    # ---- pieces -------------------------------------------------------------------------
    def err(self, zero=0.7):
        r = self.r
        x = r.random()
        if x < zero: return 0
        if x < zero + (1 - zero) * 0.35: return 1
        if x < zero + (1 - zero) * 0.65: return 2
        if x < zero + (1 - zero) * 0.88: return 3
        return r.choice([4, 5, 7, 8, 16, 64, 128, 254, 255, r.randrange(4, 256)])

    def byte(self):
        r = self.r
        if getattr(self, "ascii_only", False):
            x = r.random()
            if x < 0.8: return r.randrange(0x20, 0x7F)
            if x < 0.9: return r.choice([0x0D, 0x20, 0x24, 0x5E, 0x60, 0x7E, 0x41])
            return r.randrange(0, 0x20)
        x = r.random()
        if x < 0.45: return r.randrange(0x20, 0x7F)
        if x < 0.65: return r.choice(self.byte_pool)
        if x < 0.85: return r.randrange(0x7F, 0x100)
        return r.randrange(0, 0x100)

    def word(self):
        return (self.byte() << 8) | self.byte()

    def pi(self):
        r = self.r
        return r.choice(self.pi_pool) if r.random() < 0.85 else r.randrange(65536)

    def block_b(self, gtype, ver, low5):
        r = self.r
        pty = r.choice(self.pty_pool) if r.random() < 0.8 else r.randrange(32)
        tp = r.randrange(2) if r.random() < 0.3 else 0
        return (gtype << 12) | (ver << 11) | (tp << 10) | (pty << 5) | (low5 & 31)

    def replay(self):
        """a group delivered earlier (one of the last 12), verbatim, error-free, or with fresh error codes: re-delivery after
        intervening traffic, settings changes or a reset is where caches and 'same as last time' shortcuts show"""
        r = self.r
        v = list(r.choice(self.recent))
        x = r.random()
        if x < 0.4: pass
        elif x < 0.7: v[4:] = [0, 0, 0, 0]
        else: v[4:] = [self.err(0.6) for _ in range(4)]
        self.count("replay")
        return "p %d %d %d %d %d %d %d %d" % tuple(v)

    def remember(self, line):
        if not hasattr(self, "recent"): self.recent = []
        self.recent.append([int(x) for x in line.split()[1:]])
        if len(self.recent) > 12: self.recent.pop(0)
        return line

    def group(self, gtype=None, ver=None, zero=None):
        r = self.r
        if gtype is None and getattr(self, "recent", None) and r.random() < 0.07:
            return self.replay()
        if gtype is None:
            x = r.random()
            if x < 0.25: gtype = 0
            elif x < 0.35: gtype = 1
            elif x < 0.63: gtype = 2
            elif x < 0.71: gtype = 4
            elif x < 0.81: gtype = 10
            else: gtype = r.choice([3, 5, 6, 7, 8, 9, 11, 12, 13, 14, 15])
        if ver is None:
            ver = 1 if r.random() < 0.25 else 0
        if zero is None:
            zero = r.choice([0.5, 0.7, 0.9, 0.97])
        a = self.pi()
        c = r.randrange(65536)
        d = r.randrange(65536)
        low5 = r.randrange(32)
        if gtype == 0:
            if r.random() < 0.8:
                low5 = (low5 & 0x1C) | r.randrange(4)
            c = (r.choice(self.af_pool) << 8 | r.choice(self.af_pool)) if r.random() < 0.8 else r.randrange(65536)
            d = self.word()
        elif gtype == 1:
            variant = 0 if r.random() < 0.7 else r.randrange(8)
            c = (r.randrange(2) << 15) | (variant << 12) | (r.randrange(16) << 8 if r.random() < 0.3 else 0) | (r.choice(self.ecc_pool) if r.random() < 0.85 else r.randrange(256))
        elif gtype == 2:
            flag = r.randrange(2) if r.random() < 0.25 else getattr(self, "_flag", 0)
            self._flag = flag
            addr = r.randrange(16) if r.random() < 0.7 else r.choice([0, 1, 15])
            low5 = (flag << 4) | addr
            c = self.word(); d = self.word()
        elif gtype == 4:
            mjd = r.choice(self.mjd_pool) if r.random() < 0.6 else r.randrange(1 << 17)
            hour = r.randrange(24) if r.random() < 0.85 else r.randrange(32)
            minute = r.randrange(60) if r.random() < 0.85 else r.randrange(64)
            off = r.randrange(64) if r.random() < 0.6 else r.choice([0, 1, 2, 31, 32, 33, 63, 47, 24, 56])
            low5 = (low5 & 0x1C) | (mjd >> 15)
            c = ((mjd & 0x7FFF) << 1) | (hour >> 4)
            d = ((hour & 15) << 12) | (minute << 6) | off
        elif gtype == 10:
            low5 = (low5 & 0x1E) | r.randrange(2)
            c = self.word(); d = self.word()
        if ver == 1 and gtype != 10 and r.random() < 0.5:
            c = a if r.random() < 0.8 else r.choice(self.pi_pool)      # version B: block C' repeats the PI (or carries another one)
        b = self.block_b(gtype, ver, low5)
        self.count("type%d%s" % (gtype, "AB"[ver]))
        e = [self.err(zero) for _ in range(4)]
        return self.remember("p %d %d %d %d %d %d %d %d" % (a, b, c, d, e[0], e[1], e[2], e[3]))

    def hexgroup_ok(self):
        r = self.r
        g = self.group().split()[1:]
        s = "".join("%04X" % int(x) for x in g[:4])
        if r.random() < 0.5: s = s.lower()
        elif r.random() < 0.3: s = "".join(ch.lower() if r.random() < 0.5 else ch for ch in s)
        if r.random() < 0.6:
            eb = (min(int(g[4]), 3) << 6) | (min(int(g[5]), 3) << 4) | (min(int(g[6]), 3) << 2) | min(int(g[7]), 3)
            t = "%02X" % eb
            s += t.lower() if r.random() < 0.5 else t
        return s.encode()

    def parse_string(self):
        r = self.r
        x = r.random()
        last = getattr(self, "last_str", None)
        if last is not None and r.random() < 0.2:
            # a close relative of the previous accepted line: the same line again, or one hexadecimal digit changed (more often
            # than not one of the last three: the error byte and the low digit of block D) — a converter or dispatcher that
            # remembers the previous line shows only here
            s = bytearray(last)
            if getattr(self, "ascii_only", False):
                # streams that promise "no byte >= 0x7F is presented" may only touch the error byte
                if len(s) == 18 and r.random() < 0.7:
                    s[r.randrange(16, 18)] = r.choice(b"0123456789abcdefABCDEF")
            elif r.random() < 0.7:
                k = r.randrange(len(s) - 3, len(s)) if r.random() < 0.6 else r.randrange(len(s))
                s[k] = r.choice(b"0123456789abcdefABCDEF")
            self.count("str_relative")
            self.last_str = bytes(s)
            return hexstr(s)
        if x < 0.55:
            self.count("str_ok")
            self.last_str = bytes(self.hexgroup_ok())
            return hexstr(self.last_str)
        if x < 0.6:
            self.count("str_null")
            return "s N"
        if x < 0.8:
            # one bad byte at a random position of a well-formed carrier
            s = bytearray(self.hexgroup_ok())
            pos = r.randrange(len(s))
            s[pos] = r.choice([0x20, 0x2B, 0x2D, 0x78, 0x58, 0x09, 0x0A, 0x47, 0x67, 0x2F, 0x3A, 0x40, 0x60, 0x80, 0xFF, r.randrange(1, 256)])
            self.count("str_badbyte")
            return hexstr(s)
        if x < 0.95:
            # wrong length
            s = bytearray(self.hexgroup_ok())
            n = r.choice([0, 1, 4, 15, 17, 19, 20, 32, 36, r.randrange(0, 41)])
            s = (s * 3)[:n]
            self.count("str_badlen")
            return hexstr(s)
        n = r.choice([16, 18, r.randrange(0, 41)])
        self.count("str_random")
        return hexstr(bytes(r.randrange(1, 256) for _ in range(n)))

    def setter(self):
        r = self.r
        x = r.random()
        if x < 0.25:
            self.count("set_ext")
            return "x %d" % r.randrange(2)
        if x < 0.7:
            self.count("set_corr")
            v = r.randrange(4) if r.random() < 0.8 else r.randrange(256)
            return "c %d %d %d" % (r.randrange(3), r.randrange(2), v)
        self.count("set_prog")
        return "g %d %d" % (r.randrange(3), r.randrange(2))

    def observer(self):
        r = self.r
        x = r.random()
        if x < 0.6:
            self.count("register")
            return "r %d %d" % (r.randrange(12), 1 if r.random() < 0.6 else 0)
        if x < 0.8:
            self.count("user_data")
            return "u %d" % r.randrange(1, 1 << 20)
        self.count("getters")
        return "q"

    def prologue(self, all_cbs=True, heap=None):
        r = self.r
        out = ["new" if (heap if heap is not None else r.random() < 0.5) else "init"]
        if all_cbs:
            out += ["r %d 1" % k for k in range(12)]
        out.append("u %d" % r.randrange(1, 1000))
        return out

    def settings_block(self):
        r = self.r
        out = []
        if r.random() < 0.4: out.append("x 1")
        for t in range(3):
            if r.random() < 0.6: out.append("c %d 0 %d" % (t, r.randrange(3)))
            if r.random() < 0.6: out.append("c %d 1 %d" % (t, r.randrange(3)))
            if r.random() < 0.4: out.append("g %d 1" % t)
        return out

    # ---- streams ------------------------------------------------------------------------
    def mixed(self, n, multi=False):
        """general traffic: parse-heavy, with setters, resets, observers, strings"""
        r = self.r
        out = self.prologue(all_cbs=r.random() < 0.7)
        out += self.settings_block()
        live = {0}
        cur = 0
        while len(out) < n:
            x = r.random()
            if x < 0.86:
                out.append(self.group())
            elif x < 0.90:
                out.append(self.parse_string())
            elif x < 0.93:
                out.append(self.setter())
            elif x < 0.96:
                out.append(self.observer())
            elif x < 0.975:
                self.count("clear")
                out.append("clear")
                if r.random() < 0.5:
                    out += self.settings_block()
                if getattr(self, "recent", None) and r.random() < 0.5:
                    out += [self.replay() for _ in range(r.randrange(1, 4))]   # what was received just before the reset, again
            elif x < 0.98:
                self.count("init")
                out.append("init" if r.random() < 0.5 else "new")
                if r.random() < 0.8:
                    out += ["r %d 1" % k for k in range(12)]
                out += self.settings_block()
            elif x < 0.985:
                out.append(r.choice(["mf", "fn"]))
                self.count("fault")
            elif multi:
                # instance management
                y = r.random()
                if y < 0.6:
                    i = r.randrange(8)
                    out.append("@ %d" % i)
                    cur = i
                    if i not in live:
                        out += self.prologue(all_cbs=r.random() < 0.7)
                        live.add(i)
                elif len(live) > 1 and y < 0.75:
                    out.append("free")
                    live.discard(cur)
                    cur = r.choice(sorted(live))
                    out.append("@ %d" % cur)
                self.count("instance")
            else:
                out.append(self.group())
        return out[:n] if len(out) > n else out


def write_ops(path, lines):
    with open(path, "w") as f:
        f.write("\n".join(lines))
        f.write("\n")


# =========================================================================================
# exhaustive sweeps (finite sub-domains enumerated completely; `stride` thins them for the
# quick tier, `phase` rotates which residue class is taken so that different seeds cover
# different slices)
# =========================================================================================
ALL_CBS = ["r %d 1" % k for k in range(12)]

def vary(ops, seed, start_frac=0.6, p_str=0.25, p_reg=0.02):
    """the same traffic through an unusual but legal calling pattern, from `start_frac` of the stream on: a share of the groups
    goes through rdsparser_parse_string (16-character form when all four error codes are 0 — sometimes —, 18-character form
    otherwise, digits in random case) instead of rdsparser_parse, and now and then a callback is removed for a few calls and put
    back, or the user data changes. The model follows every one of these ops, so the monitors and the comparison stay exact."""
    r = random.Random(seed * 7919 + 13)
    k = int(len(ops) * start_frac)
    out = []
    pending = []
    cur = 0; alive = {}
    for i, line in enumerate(ops):
        w = line.split()
        if w and w[0] == "@": cur = int(w[1])
        elif line in ("new", "init"): alive[cur] = True
        elif line in ("free", "mf", "fn"): alive[cur] = False
        if i < k:
            out.append(line); continue
        ok = alive.get(cur, False) and not (w and w[0] == "@")
        still = []
        isgroup = line.startswith(("p ", "s "))
        for cnt, c, l in pending:
            if cnt <= 0:
                if ok and c == cur and line not in ("new", "init", "free", "mf", "fn"): out.append(l)
                elif cnt > -40: still.append((cnt - 1, c, l))         # wait for a call on that instance, not for ever
            else: still.append((cnt - (1 if isgroup and c == cur else 0), c, l))   # the gap is counted in groups delivered
        pending = still
        if line.startswith("p "):
            v = [int(x) for x in w[1:]]
            if len(v) == 8 and all(0 <= x < 65536 for x in v[:4]) and all(0 <= e <= 3 for e in v[4:]) and r.random() < p_str:
                txt = "%04X%04X%04X%04X" % tuple(v[:4])
                if any(v[4:]) or r.random() < 0.5:
                    txt += "%02X" % ((v[4] << 6) | (v[5] << 4) | (v[6] << 2) | v[7])
                txt = "".join(ch.lower() if r.random() < 0.4 else ch for ch in txt)
                line = hexstr(txt.encode())
        elif line in ("new", "init"):
            pending = [x for x in pending if x[1] != cur]
        out.append(line)
        x = r.random()
        if not ok or line in ("free", "mf", "fn"): continue
        if x < p_reg:
            kk = r.randrange(12)
            out.append("r %d 0" % kk); pending.append((r.randrange(1, 7), cur, "r %d 1" % kk))
        elif x < p_reg * 1.5:
            out.append("u %d" % r.randrange(1, 1 << 20))
    return out

def P(a, b, c, d, ea=0, eb=0, ec=0, ed=0):
    return "p %d %d %d %d %d %d %d %d" % (a, b, c, d, ea, eb, ec, ed)

def sweep_block_b(stride=1, phase=0, ebs=(0, 1, 2, 3, 4, 255)):
    """S1: all 65 536 values of block B x error codes of B, from three prior states"""
    out = []
    priors = [
        ["new"] + ALL_CBS,
        ["new"] + ALL_CBS + [P(0x1234, 0x0408 | (5 << 5), 0xE0E1, 0x4142), P(0x1234, 0x2010, 0x4142, 0x4344)],
        ["new"] + ALL_CBS + ["c 0 0 2", "c 1 0 2", "c 2 0 2", "c 0 1 2", "c 1 1 2", "c 2 1 2",
                               P(0xF212, 0x0000 | (31 << 5) | 0x400 | 0x18, 0x0101, 0x2020), P(0xF212, 0x2000, 0x6162, 0x6364)],
    ]
    for pi_, prior in enumerate(priors):
        out += prior
        for b in range(phase % stride, 65536, stride):
            eb = ebs[(b // stride + pi_) % len(ebs)] if stride > 1 else None
            for e in ([eb] if eb is not None else ebs):
                out.append(P(0x1234 + pi_, b, 0x4145, 0x4647, 0, e, 0, 0))
    return out

def sweep_chars(stride=1, phase=0):
    """S2: all 256 bytes x every lane x every address x every text-carrying group/version/flag"""
    out = ["new"] + ALL_CBS
    n = 0
    def lanes(btmpl, nlanes_c, addr_count):
        nonlocal n
        res = []
        for addr in range(addr_count):
            for lane in range(2 + 2 * nlanes_c):
                for byte in range(256):
                    n += 1
                    if (n + phase) % stride: continue
                    c, d = 0x4142, 0x4344
                    if nlanes_c and lane < 2:
                        c = (byte << 8) | 0x42 if lane == 0 else 0x4100 | byte
                    else:
                        l = lane - 2 * nlanes_c
                        d = (byte << 8) | 0x44 if l == 0 else 0x4300 | byte
                    res.append(P(0x1234, btmpl | addr, c, d))
        return res
    out += lanes(0x0000, 0, 4)            # 0A
    out += lanes(0x0800, 0, 4)            # 0B
    out += lanes(0x2000, 1, 16)           # 2A flag A
    out.append("clear")
    out += lanes(0x2010, 1, 16)           # 2A flag B
    out.append("clear")
    out += lanes(0x2800, 0, 16)           # 2B flag A
    out.append("clear")
    out += lanes(0x2810, 0, 16)           # 2B flag B
    out += lanes(0xA000, 1, 2)            # 10A
    out += lanes(0xA800, 1, 2)            # 10B (stores nothing)
    return out

def sweep_confusable(g0=None):
    """two receptions for the same cell, both error-free: first a byte p, then a byte b whose RAW value equals the
    CODE POINT stored for p (e.g. 0xAB is stored as '$' = 0x24, and byte 0x24 is '¤'): a comparison of stored
    character with raw byte (instead of converted character) shows only on these pairs. Also b then p, and every byte
    after itself. g0: byte -> code point as read out of the compiled library (extraction); without it a built-in
    list of the pairs of the RDS G0 table is used."""
    pairs = []
    if g0:
        for p_, cp in sorted(g0.items()):
            if cp < 256 and cp != p_ and 0x20 <= cp: pairs.append((p_, cp))
        # … and bytes whose code points coincide once truncated to 8 or 12 bits (U+2030 '‰' and U+0030 '0'): a comparison or a
        # "did it change" test done in a narrower type than the character shows only on these
        items = sorted(g0.items())
        for i, (p_, cp) in enumerate(items):
            for q_, cq in items[i + 1:]:
                if cp != cq and (cp % 256 == cq % 256 or cp % 4096 == cq % 4096) and (p_, q_) not in pairs:
                    pairs.append((p_, q_))
    else:
        pairs = [(0xAB, 0x24), (0x24, 0xA4), (0x7E, 0xAF), (0x8E, 0xA1), (0x91, 0xE4), (0x97, 0xFC), (0xD1, 0xC4), (0xD7, 0xDC)]
    out = ["new"] + ALL_CBS
    def lane_ops(byte, lane):
        if lane == 0: return P(0x1234, 0x0000, 0, (byte << 8) | 0x41)          # 0A D hi, PS cell 0
        if lane == 1: return P(0x1234, 0x0801, 0, 0x4100 | byte)               # 0B D lo, PS cell 3
        if lane == 2: return P(0x1234, 0x2000, (byte << 8) | 0x41, 0x4243)     # 2A C hi, RT A cell 0
        if lane == 3: return P(0x1234, 0x2001, 0x4142, 0x4300 | byte)          # 2A D lo, RT A cell 7
        if lane == 4: return P(0x1234, 0x2802, 0, (byte << 8) | 0x41)          # 2B D hi, RT A cell 4
        return P(0x1234, 0xA001, 0x4100 | byte, 0x4243)                        # 10A C lo, PTYN cell 5
    for (a, b) in pairs:
        for lane in range(6):
            out += [lane_ops(a, lane), lane_ops(b, lane), lane_ops(a, lane)]
    return out

def sweep_aba():
    """A ... B ... A on the same cells, for every text-carrying group kind, segment parity, threshold pair and progressive setting:
    an error-free group A, then a different group B for the same segment (error-free, or corrected within the thresholds, or
    rejected), then A again verbatim — and the same with a clear, a settings change or an unrelated group in between. A
    'same as last time' shortcut keyed on the group, the segment or the last accepted value shows only on such re-deliveries."""
    out = ["new"] + ALL_CBS
    kinds = [(0, 0x0000, 0, 4), (0, 0x0800, 0, 4), (1, 0x2000, 1, 16), (1, 0x2010, 1, 16), (1, 0x2800, 0, 16), (2, 0xA000, 1, 2)]
    n = 0
    for text, btmpl, has_c, nseg in kinds:
        for info, data in ((0, 0), (1, 1), (2, 2), (0, 2), (2, 0)):
            for prog in (0, 1):
                out += ["clear", "c %d 0 %d" % (text, info), "c %d 1 %d" % (text, data), "g %d %d" % (text, prog)]
                for seg in (0, 1, nseg - 1):
                    for variant in range(6):
                        n += 1
                        a = P(0x1234, btmpl | seg, 0x5241, 0x4449)
                        eb = (0, min(info, 1), info, 3, 0, 1)[variant]
                        ex = (0, min(data, 1), data, 0, 3, 1)[variant]
                        b = P(0x1234, btmpl | seg, 0x524F, 0x434B, 0, eb, ex, ex)
                        mid = [[], ["clear"], ["c %d 1 %d" % (text, data)], [P(0x1234, 0x3000, 0x1111, 0x2222)], [], ["x 1", "x 0"]][n % 6]
                        out += [a, b] + mid + [a]
    return out

def sweep_overrange():
    """threshold requests above 'large' (3, 4, 200, 255), also on top of a threshold that already is at its maximum, each
    followed by text groups whose blocks carry error codes 3 and above: an out-of-range request must be clamped, and a block
    flagged 3 or more is never used"""
    out = ["new"] + ALL_CBS
    tmpl = {0: 0x0000, 1: 0x2000, 2: 0xA000}
    for text in range(3):
        for kind in range(2):
            for first in (None, 0, 1, 2):
                for v in (3, 4, 200, 255):
                    out.append("clear")
                    out += ["c %d 0 1" % text, "c %d 1 1" % text]
                    if first is not None: out.append("c %d %d %d" % (text, kind, first))
                    out.append("c %d %d %d" % (text, kind, v))
                    for (eb, ec, ed) in ((0, 0, 0), (1, 3, 3), (3, 1, 1), (2, 3, 1), (1, 1, 3), (3, 3, 3), (4, 1, 1), (1, 4, 200), (2, 2, 2)):
                        out.append(P(0x1234, tmpl[text] | 1, 0x4142 + 0x0101 * eb, 0x4344 + 0x0101 * ed, 0, eb, ec, ed))
    return out

def sweep_edges():
    """values at the edges of their ranges, each received on a parser that knows nothing yet (fresh, after clear, after init), once
    and twice, in normal mode and under the extended check: PI 0x0000/0xFFFF/…, PTY 0/31, ECC 0x00/0xFF and the edges of the
    table ranges, AF codes 0/1/204/205/224/250/255"""
    out = ["new"] + ALL_CBS
    pis = [0x0000, 0x0001, 0x00FF, 0x0100, 0x0FFF, 0x1000, 0x7FFF, 0x8000, 0xF000, 0xFF00, 0xFFFE, 0xFFFF]
    for ext in (0, 1):
        for reset in ("clear", "init", "new"):
            for pi in pis:
                out += [reset] + (ALL_CBS if reset != "clear" else []) + ["x %d" % ext]
                g0 = P(pi, 0x0000 | (31 << 5) | 0x0400 | 0x18, 0x01CC, 0x4142)      # PTY 31, TP, TA, MS set; AF 1 and 204
                g1 = P(pi, 0x1000, 0x00FF if pi & 1 else 0x0000, 0)                  # ECC 0xFF / 0x00
                g2 = P(pi, 0x0000, 0xCD00, 0x4142)                                   # PTY 0, everything clear; AF 205 and 0
                out += [g0, g0, g1, g1, g2, g2, P(pi ^ 0xFFFF, 0x0000, 0xE0FA, 0x4142), g0]
    for ecc in (0x9F, 0xA0, 0xA6, 0xA7, 0xCF, 0xD0, 0xD4, 0xD5, 0xDF, 0xE0, 0xE5, 0xE6, 0xEF, 0xF0, 0xF4, 0xF5, 0xFF, 0x00):
        for pi in (0x0ABC, 0x1ABC, 0xFABC, 0xFFFF, 0x0000):
            out += ["clear", "x 0", P(pi, 0x1000, ecc, 0), P(pi, 0x1000, 0x8000 | ecc, 0)]
    return out

def sweep_rt_levels(stride=1, phase=0):
    """RT scenarios over every combination of thresholds and error levels of the stored group: store one group for flag X
    (so that every stored cell has the same weighted level), switch to Y, switch back to X with every text block
    rejected — the buffer must be emptied and the RT callback must fire exactly when something was discarded"""
    out = ["new"] + ALL_CBS
    n = 0
    for ti in range(3):
        for td in range(3):
            for ver in (0, 1):
                for x in (0, 1):
                    for eb in range(ti + 1):
                        for ec in range(td + 1):
                            for ed in range(td + 1):
                                for back in (0, 1, 2):
                                    n += 1
                                    if (n + phase) % stride: continue
                                    vb = 0x0800 if ver else 0
                                    seg = 15 if (x + ver + eb + ec + ed + back + ti) % 2 == 0 else 1      # every other scenario: only the LAST segment holds text
                                    out += ["clear", "c 1 0 %d" % ti, "c 1 1 %d" % td,
                                            P(0x1234, 0x2000 | vb | (x << 4) | seg, 0x4142, 0x4344, 0, eb, ec, ed),
                                            P(0x1234, 0x2000 | vb | ((1 - x) << 4) | 2, 0x4546, 0x4748, 0, 0, 3 if back else 0, 3 if back else 0)]
                                    if back == 2:   # a noisy (accepted) group of the old flag in between
                                        out.append(P(0x1234, 0x2000 | vb | (x << 4) | 1, 0x494A, 0x4B4C, 0, min(ti, 1), 3, 3))
                                    out.append(P(0x1234, 0x2000 | vb | (x << 4) | 3, 0x0101, 0x0101, 0, 0, 3, 3))
                                    out.append(P(0x1234, 0x2000 | vb | ((1 - x) << 4) | 3, 0x0D0D, 0x0D0D, 0, 0, 0, 0))
    return out

def sweep_rt_flag_histories(length=4):
    """C08: every history of `length` steps over {2A group with flag A / B and block B error-free / corrected (level 1), clear}, on a
    fresh parser, with the information-block threshold at 0 (the corrected ones are rejected as text) and at 1 (accepted): the
    whole A/B protocol including what the very first flag after a reset does. Then every history of `length - 1` steps over
    {flag A / B x block B clean / corrected x data blocks usable / rejected, clear} with the SAME payload in every step
    (bit-identical groups come back: a 'same as the last group that changed something' shortcut shows only then)."""
    import itertools
    out = []
    steps = [(0, 0), (0, 1), (1, 0), (1, 1), None]
    for info in (0, 1):
        for h in itertools.product(steps, repeat=length):
            if h[0] is None: continue
            out += ["new", "r 9 1", "c 1 0 %d" % info, "c 1 1 1"]
            for k, st in enumerate(h):
                if st is None: out.append("clear")
                else:
                    fl, eb = st
                    out.append(P(0x1234, 0x2000 | (fl << 4) | (k % 2), 0x4141 + 0x0101 * k, 0x6161 + 0x0101 * k, 0, eb, 0, eb))
    steps2 = [(fl, eb, rej) for fl in (0, 1) for eb in (0, 1) for rej in (0, 1)] + [None]
    for h in itertools.product(steps2, repeat=length - 1):
        if h[0] is None: continue
        out += ["new", "r 9 1", "c 1 0 1", "c 1 1 1"]
        for st in h:
            if st is None: out.append("clear")
            else:
                fl, eb, rej = st
                out.append(P(0x1234, 0x2000 | (fl << 4) | 1, 0x4142, 0x4344, 0, eb, 3 * rej, 3 * rej))
    return out

def sweep_af_histories():
    """C10: every history of three 0A groups whose AF pairs are drawn from three codes (9 pairs, 729 histories), and every history
    of four groups over two codes plus the LF/MF marker 250 and the filler 205, each on a cleared parser, in both check modes.
    The list saturates within a few hundred random groups, so what happens on the first receptions needs its own sweep."""
    import itertools
    out = []
    for ext in (0, 1):
        out += ["new"] + ALL_CBS + ["x %d" % ext]
        pairs3 = [(a << 8) | b for a in (10, 20, 30) for b in (10, 20, 30)]
        for h in itertools.product(pairs3, repeat=3):
            out.append("clear")
            for k, c in enumerate(h): out.append(P(0x1234, 0x0008 | (k & 3), c, 0x2020))
        # … and the same while nothing else is ever known: block A damaged, PTY / TP / TA / MS different in every group (under
        # the extended check no scalar is confirmed) — the AF list is the only thing a reset has to wipe
        for h in itertools.product(pairs3[:4], repeat=3):
            out.append("clear")
            for k, c in enumerate(h):
                out.append(P(0x1234 + k, 0x0008 | ((k * 7 + 3) % 32 << 5) | ((k & 1) << 10) | ((k & 1) << 4) | (((k >> 1) & 1) << 3) | (k & 3), c, 0x2020, 1, 0, 0, 3))
            out += ["clear", P(0x4321, 0x0008 | (9 << 5), h[0], 0x2020, 1, 0, 0, 3)]
        pairs2 = [(a << 8) | b for a in (10, 204, 250, 205) for b in (10, 204)]
        for h in itertools.product(pairs2, repeat=4):
            if len(set(h)) == 1: continue
            out.append("clear")
            for k, c in enumerate(h): out.append(P(0x1234, 0x0008 | (k & 3), c, 0x2020))
    return out

def sweep_partial_registration():
    """every registration pattern with exactly one callback missing, and with exactly one present: thresholds raised, traffic of
    every decoded kind (clean and corrected), then every setter moved down and up again, a clear, and the traffic once more —
    a pointer used without (or behind the wrong) NULL test is a call through NULL here"""
    out = []
    traffic = [P(0x3ABC, 0x0000 | (5 << 5) | (1 << 10) | (1 << 4) | (1 << 3), 0x0A14, 0x4142),
               P(0x3ABC, 0x0001 | (5 << 5), 0x1E28, 0x4344, 0, 1, 0, 1),
               P(0x3ABC, 0x1000 | (5 << 5), 0x00E0, 0),
               P(0x3ABC, 0x2000 | (5 << 5), 0x4142, 0x4344), P(0x3ABC, 0x2001 | (5 << 5), 0x4546, 0x4748, 0, 1, 1, 2),
               P(0x3ABC, 0x2010 | (5 << 5), 0x4142, 0x4344), P(0x3ABC, 0x2811 | (5 << 5), 0x4546, 0x4748, 0, 2, 0, 1),
               P(0x3ABC, 0xA000 | (5 << 5), 0x4142, 0x4344), P(0x3ABC, 0xA001 | (5 << 5), 0x4546, 0x4748, 0, 1, 2, 2),
               P(0x3ABC, 0x4000 | (5 << 5) | 1, 0xD0C8, 0x1000 | (30 << 6)),
               P(0x4DEF, 0x0002 | (9 << 5), 0x3246, 0x4546), P(0x4DEF, 0x0002 | (9 << 5), 0x3246, 0x4546)]
    setters = ["c %d %d %d" % (t, k, v) for v in (1, 0, 2) for t in range(3) for k in range(2)] + \
              ["g %d %d" % (t, v) for v in (1, 0) for t in range(3)] + ["x 1", "x 0", "u 9"]
    for only in (0, 1):
        for k in range(12):
            regs = ["r %d 1" % i for i in range(12) if (i == k) == bool(only)]
            out += ["new"] + regs + ["c %d %d 2" % (t, kk) for t in range(3) for kk in range(2)]
            out += traffic + setters + ["q", "clear"] + traffic[:6] + ["q"]
    return out

def sweep_country_callbacks():
    """C18 (look-ups are pure functions, also inside callbacks): every PI country nibble x a spread of ECC values on a fresh parser,
    so that the ECC / country / PI callbacks run with every kind of country decoded — the harness repeats the look-ups inside every
    callback and compares with the answers it got before the first API call"""
    out = []
    eccs = list(range(0xA0, 0xA7)) + list(range(0xD0, 0xD5)) + list(range(0xE0, 0xE5)) + list(range(0xF0, 0xF5)) + [0x00, 0xFF]
    for nib in range(1, 16):
        for e in eccs:
            out += ["new"] + ALL_CBS + [P((nib << 12) | 0x0ABC, 0x1000 | (9 << 5), e, 0), P((nib << 12) | 0x0ABC, 0x0008 | (9 << 5), 0x0A14, 0x4142), "q"]
    return out

def sweep_ctrl_pairs(stride=1, phase=0):
    """bytes that store nothing must have no effect on what is decoded later: every pair of control codes (0x00..0x1F, 0x0D left
    out) delivered error-free to the first two cells of each text — a shift-in / shift-out / escape sequence to a decoder that
    tracks code-table designations — followed by one group with bytes from every quarter of the code table in the next cells"""
    out = ["new"] + ALL_CBS
    codes = [c for c in range(0x20) if c != 0x0D]
    n = 0
    for t, (b0, b1) in enumerate(((0x0000, 0x0001), (0x2000, 0x2001), (0xA000, 0xA001))):
        for c1 in codes:
            for c2 in codes + [0x6E, 0x6F, 0x7E, 0x7D]:
                n += 1
                if (n + phase) % stride and not (c1 == c2 or c1 in (0x0E, 0x0F, 0x1B)): continue
                w = (c1 << 8) | c2
                if t == 0:
                    out += ["clear", P(0x1234, b0, 0, w), P(0x1234, b1, 0, 0xE941), P(0x1234, b0 | 2, 0, 0x8DFF)]
                else:
                    out += ["clear", P(0x1234, b0, w, 0x4142), P(0x1234, b1, 0xE941, 0x8DFF), P(0x1234, b0, 0xC0A0, 0x245E)]
    return out

def sweep_rt_sums():
    """RT buffers filled so that sums over their cells hit the edges of 8-bit arithmetic — the number of received cells (0, 1, 2, …, 63,
    64) and the sum of (10 - level) over the cells equal to 255, 256, 257, 511, 512 — followed by an A/B switch away and back with
    all text rejected: anything accumulated in a type whose width depends on the build (rdsparser_string_t is wchar_t or one byte)
    shows here"""
    out = ["new"] + ALL_CBS + ["c 1 0 2", "c 1 1 2"]
    lvl = {10: (0, 0), 9: (1, 0), 8: (0, 1), 7: (2, 0), 6: (1, 1), 5: (0, 2), 4: (2, 1), 3: (1, 2), 1: (2, 2)}   # deficit -> (eb, e_data)
    def scenario(groups, x=0):
        o = ["clear", "c 1 0 2", "c 1 1 2"]
        for seg, (dc, dd) in enumerate(groups):
            # one 2A group per segment; block B error must serve both data blocks: pick a pair with the same eb
            ebc, ec = lvl[dc]; ebd, ed = lvl[dd]
            if ebc != ebd:
                o.append(P(0x1234, 0x2000 | (x << 4) | seg, 0x4142, 0x0101, 0, ebc, ec, 3))
                o.append(P(0x1234, 0x2000 | (x << 4) | seg, 0x0101, 0x4344, 0, ebd, 3, ed))
            else:
                o.append(P(0x1234, 0x2000 | (x << 4) | seg, 0x4142, 0x4344, 0, ebc, ec, ed))
        o += [P(0x1234, 0x2000 | ((1 - x) << 4) | 2, 0x4546, 0x4748), P(0x1234, 0x2000 | (x << 4) | 3, 0x0101, 0x0101, 0, 0, 3, 3), "q"]
        return o
    combos = []
    for target in (255, 256, 257, 511, 512):
        half, odd = divmod(target, 2)
        if odd: continue                                   # cells come in pairs of equal level: only even sums are reachable
        for k in range(0, 16):
            rest = half - 20 * k
            for a in lvl:
                b = rest - a
                if b in lvl and a <= b:
                    combos.append([(10, 10)] * k + [(a, b)])
    for g in combos[:24]:
        out += scenario(g, 0) + scenario(g, 1)
    for ncells in (1, 2, 15, 16, 31, 32):                  # number of segments holding text
        out += scenario([(10, 10)] * ncells, 0)
    return out

def sweep_block_c(stride=1, phase=0):
    """S3: all 65 536 values of block C in 0A (AF) and 1A (ECC), both check modes"""
    out = []
    for ext in (0, 1):
        out += ["new"] + ALL_CBS + ["x %d" % ext]
        for c in range(phase % stride, 65536, stride):
            out.append(P(0x1234, 0x0000, c, 0x2020))
            if ext:
                out.append(P(0x1234, 0x0000, c, 0x2020))
            if c % 4096 == 0:
                out.append("clear")
        out.append("clear")
        # the same values once more in a scattered order (a fixed permutation of the 16-bit values), each pair received once, then
        # the whole pass again: in the ascending pass above the second code of a pair is (almost) always on the list already
        # when its pair arrives, and the first code (almost) never is
        for rep in range(2):
            for i in range(phase % stride, 65536, stride):
                c = (i * 40503 + 12345) % 65536
                out.append(P(0x1234, 0x0000 | (i & 3), c, 0x2020))
                if i % 256 < stride and rep == 0:
                    out.append(P(0x1234, 0x0000, c, 0x2020))          # now and then twice in a row
        out.append("clear")
        for c in range(phase % stride, 65536, stride):
            out.append(P(0x5234, 0x1000, c, 0))
        # 0B / 1B and errored variants never add anything
        for c in range((phase * 7) % (stride * 16), 65536, stride * 16):
            out.append(P(0x1234, 0x0800, c, 0x2020))
            out.append(P(0x1234, 0x1800, c, 0))
            out.append(P(0x1234, 0x0000, c, 0x2020, 0, 1, 0, 0))
            out.append(P(0x1234, 0x0000, c, 0x2020, 0, 0, 1, 0))
    return out

def sweep_thresholds(text=0, stride=1, phase=0):
    """S4: thresholds 3x3 x progressive x (eb, ed) in 0..4 x 256 bytes x 4 prior cell states"""
    btmpl = {0: 0x0000, 1: 0x2000, 2: 0xA000}[text]
    out = ["new"] + ALL_CBS
    n = 0
    for info in range(3):
        for data in range(3):
            for prog in range(2):
                out += ["c %d 0 %d" % (text, info), "c %d 1 %d" % (text, data), "g %d %d" % (text, prog)]
                for prior in range(4):
                    for eb in range(5):
                        for ed in range(5):
                            for byte in range(256):
                                n += 1
                                # the bytes with a rule of their own (end-of-text, blank, first/last of the >= 0x7F range, a control
                                # code) are never thinned out for error codes 0..3; the others are taken every `stride`-th time
                                special = byte in (0x0D, 0x20, 0x7F, 0xFF, 0x1F) and eb < 4 and ed < 4 and (stride == 1 or prior != 3)
                                if (n + phase) % stride and not special: continue
                                out.append("clear")
                                # prior cell states: never received / 'A' at level 0 / 'A' at a corrected level / same byte at level 0
                                if prior == 1: out.append(P(0x1234, btmpl, 0x4141, 0x4141))
                                elif prior == 2: out.append(P(0x1234, btmpl, 0x4141, 0x4141, 0, min(info, 1), min(data, 1), min(data, 1)))
                                elif prior == 3: out.append(P(0x1234, btmpl, (byte << 8) | byte, (byte << 8) | byte))
                                w = (byte << 8) | byte
                                out.append(P(0x1234, btmpl, w, w, 0, eb, ed, ed))
    return out

def sweep_ct(stride=1, phase=0):
    """S5: all 2^17 MJD x a few (hour, minute, offset) triples; all 32x64x64 codes x 6 MJDs"""
    out = ["new"] + ALL_CBS
    triples = [(0, 0, 0), (23, 59, 0), (0, 0, 0x20 | 1), (23, 30, 1), (0, 15, 0x20 | 31), (23, 45, 31), (12, 0, 24), (1, 29, 0x20 | 3)]
    def g(mjd, hour, minute, off, ver=0, eb=0, ec=0, ed=0):
        b = 0x4000 | (ver << 11) | (mjd >> 15)
        c = ((mjd & 0x7FFF) << 1) | (hour >> 4)
        d = ((hour & 15) << 12) | (minute << 6) | off
        return P(0x1234, b, c, d, 0, eb, ec, ed)
    for mjd in range(phase % stride, 1 << 17, stride):
        for t in ([triples[(mjd // stride) % len(triples)]] if stride > 1 else triples):
            out.append(g(mjd, *t))
    n = 0
    for mjd in (0, 15078, 51603, 60275, 88128, 131071):
        for hour in range(32):
            for minute in range(64):
                for off in range(64):
                    n += 1
                    if (n + phase) % (stride * 8 if stride > 1 else 1): continue
                    out.append(g(mjd, hour, minute, off))
    # never thinned: the days around which the calendar arithmetic changes regime (leap days, century years, the 400-year era
    # boundary 2000-02-29/03-01, first and last MJD) x both neighbours x times just before/after midnight x every offset code
    special = [0, 1, 2, 15019, 15020, 15078, 15079, 15080, 15385, 51543, 51544, 51603, 51604, 51605, 51909, 51910, 60275, 60369, 60370,
               88127, 88128, 88129, 88069, 131070, 131071]
    for mjd in special:
        for (hour, minute) in ((0, 0), (0, 29), (11, 59), (12, 0), (23, 30), (23, 59)):
            for off in range(64):
                out.append(g(mjd, hour, minute, off))
    # the same day, hour and offset again with minutes on either side of the half hour (and the neighbouring day in between)
    for mjd in (51603, 60275, 60369, 88128, 131071, 0):
        for hour in (0, 23, 12):
            for off in range(64):
                out += [g(mjd, hour, 15, off), g(mjd, hour, 45, off), g(mjd + 1 if mjd < 131071 else mjd - 1, hour, 45, off), g(mjd, hour, 29, off), g(mjd, hour, 30, off)]
    # gates: version B, errors in B/C/D
    for mjd in (0, 60275, 131071):
        out += [g(mjd, 12, 30, 2, ver=1), g(mjd, 12, 30, 2, eb=1), g(mjd, 12, 30, 2, ec=1), g(mjd, 12, 30, 2, ed=1), g(mjd, 12, 30, 2, ed=3)]
    out.append("r 11 0")
    out.append(g(60275, 12, 30, 2))
    return out

def sweep_settings():
    """S6: every setter key x all 256 values, reading everything back after each call"""
    out = ["new"]
    for t in range(3):
        for k in range(2):
            for v in range(256):
                out.append("c %d %d %d" % (t, k, v))
    for rounds in range(3):
        for t in range(3):
            for v in (1, 0, 1):
                out.append("g %d %d" % (t, v))
        for v in (1, 0, 1):
            out.append("x %d" % v)
        out.append(P(0x1234, 0x0000, 0x0102, 0x4142))
        out.append("clear")
    return out

def sweep_ecc(stride=1, phase=0):
    """17 PI classes x 256 ECC x 8 variants x 2 versions (+ error patterns)"""
    out = ["new"] + ALL_CBS
    n = 0
    for cls in range(17):
        for ver in range(2):
            for variant in range(8):
                for ecc in range(256):
                    n += 1
                    if (n + phase) % stride and not (variant == 0 and ver == 0): continue
                    pi = 0x1234 if cls == 0 else ((cls - 1) << 12) | 0x0ABC
                    ea = 1 if cls == 0 else 0
                    if ecc == 0:
                        out.append("clear")
                    out.append(P(pi, 0x1000 | (ver << 11), (variant << 12) | ecc, 0, ea, 0, 0, 0))
                    if cls != 0 and variant == 0 and ver == 0 and ecc % 16 in (0, 1, 2, 3):
                        # the same ECC on a parser that knows no PI (reset, block A damaged): country unknown, whatever was
                        # looked up before the reset
                        out += ["clear", P(pi, 0x1000, ecc, 0, 1, 0, 0, 0), P(pi, 0x1000, ecc, 0, 1, 0, 0, 0)]
    for ecc in (0xE0, 0xE2, 0xA0):
        out += [P(0xD234, 0x1000, ecc, 0, 0, 1, 0, 0), P(0xD234, 0x1000, ecc, 0, 0, 0, 1, 0), P(0xD234, 0x1000, 0x8000 | ecc, 0)]
    return out

def hex_malformed():
    """C14: every position x every byte value 1..255 in 16- and 18-long carriers; lengths 0..40; NULL"""
    out = ["new"] + ALL_CBS
    base16 = b"1234ABCD5678ef90"
    base18 = base16 + b"1b"
    for base in (base16, base18):
        for pos in range(len(base)):
            for v in range(1, 256):
                s = bytearray(base); s[pos] = v
                out.append(hexstr(s))
    for n in range(0, 41):
        out.append(hexstr((base16 * 3)[:n]))
    out.append("s N")
    for n in (19, 64, 254, 255, 256, 257, 300, 511, 512, 1000, 4096, 65536 + 16):
        out.append(hexstr((b"0123456789abcdefABCDEF" * (n // 22 + 1))[:n]))      # nothing but hexadecimal digits, far too long
    for s in (b" 234567890123456", b"-234567890123456", b"+234567890123456", b"0x12567890123456", b"123456789012 456",
              b"1234567890123456-1", b"1234567890123456 1", b"1234567890123456+f", b"1234\t6789012345600", b"12345678901234560x"):
        out.append(hexstr(s))
    return out

def hex_stateful(seed=0):
    """C14 across calls: an accepted line followed by malformed relatives of the SAME line (suffix, prefix, one byte
    changed, case changed, doubled), under every relevant setting — a converter that remembers anything from the previous
    call (a cache of the last line, a reused buffer) shows only here"""
    import random
    r = random.Random(seed * 7919 + 14)
    out = ["new"] + ALL_CBS
    def valid(n):
        body = "".join(r.choice("0123456789abcdefABCDEF") for _ in range(16))
        return (body + ("%02x" % r.randrange(256) if n == 18 else "")).encode()
    sufs = [b"\n", b" ", b"0", b"00", b"g", b"\r\n", b"\x01", b"ff", b"\t"]
    for rnd in range(60):
        out.append("x %d" % (rnd % 2))
        if rnd % 7 == 0: out.append("clear")
        for n in (16, 18):
            v = valid(n)
            rel = [v + r.choice(sufs), v, v[:-1], v, r.choice(sufs) + v, v, v + v, v.swapcase() + r.choice(sufs), v]
            k = r.randrange(len(v)); w = bytearray(v); w[k] = r.choice(b"gG xX-+\x7f\x80\xff"); rel += [bytes(w), v]
            w = bytearray(v); w[k] = ord("0123456789abcdef"[(int(chr(v[k]), 16) + 1) % 16]); rel += [bytes(w), bytes(w) + b"\n"]
            for x in rel: out.append(hexstr(x))
    return out

def ct_strings(seed=0, n=350):
    """clock-time groups delivered through the string API, each followed by close relatives of the same line (one of the
    last three hexadecimal digits changed: the error levels of blocks A..D and the low offset bits)"""
    import random
    r = random.Random(seed * 104729 + 12)
    g = Gen(seed, "ctstr")
    out = ["new"] + ALL_CBS
    for i in range(n):
        v = [int(x) for x in g.group(gtype=4, ver=0, zero=1.0).split()[1:]]
        if i % 40 == 39: out.append("clear")
        e = r.choice([0, 0, 0, 1, 2, 3, 4, 8, 12, 16, 64, r.randrange(256)])
        line = ("%04X%04X%04X%04X%02X" % (v[0], v[1], v[2], v[3], e)).encode()
        out.append(hexstr(line))
        for _ in range(r.randrange(1, 4)):
            w = bytearray(line)
            k = r.randrange(len(w) - 3, len(w))
            w[k] = r.choice(b"0123456789ABCDEF")
            out.append(hexstr(bytes(w)))
            if r.random() < 0.5: line = bytes(w)
    return out

def hex_all_blocks(stride=1, phase=0):
    """all 65 536 four-digit blocks in both letter cases, in each of the four block positions"""
    out = ["new"] + ALL_CBS
    for v in range(phase % stride, 65536, stride):
        pos = (v // stride) % 4
        blocks = ["1234", "0000", "0000", "2020"]
        blocks[pos] = ("%04X" % v) if (v // (4 * stride)) % 2 == 0 else ("%04x" % v)
        out.append(hexstr("".join(blocks).encode()))
    for e in range(256):
        out.append(hexstr(("1234" + "0000" + "0000" + "4142" + "%02X" % e).encode()))
        out.append(hexstr(("1234" + "0000" + "0000" + "4142" + "%02x" % e).encode()))
    return out

# ---- nested calls: callbacks that call the API from inside (model: RdsModel/Reentrant.lean) ----
def reentrant(ops, seed, period=4):
    """insert `ri m` lines into a stream: single calls and stretches during which callback j resets the parser (5000+j),
    parses a fixed error-free group on the same parser (7000+j), registers callback k (3000+100j+4k), or unregisters k / changes the user data (1000+100j+4k+bits) from INSIDE the call.
    Only the modes the nested-call model covers are used. Two thirds are one-shots (the mode is on for exactly one call, so
    that what the nested call left behind meets ordinary traffic straight afterwards), the rest stretches of 2..30 calls."""
    r = random.Random(seed * 7919 + 13)
    out = []
    left = 0
    def pick():
        x = r.random()
        j = r.choice([0, 1, 1, 1, 2, 2, 3, 4, 5, 6, 7, 8, 8, 9, 9, 9, 10, 11])
        k = r.randrange(12)
        if x < 0.55: return 5000 + j
        if x < 0.80: return 7000 + j          # callback j parses a fixed group on the same parser
        if x < 0.90: return 3000 + 100 * j + 4 * k
        return 1000 + 100 * j + 4 * k + r.randrange(1, 4)
    for l in ops:
        isp = l.startswith("p ") or l.startswith("s ")
        if isp and left == 0 and r.randrange(period) == 0:
            out.append("ri %d" % pick())
            left = 1 if r.random() < 0.67 else r.randrange(2, 31)
        out.append(l)
        if isp and left > 0:
            left -= 1
            if left == 0: out.append("ri 0")
    out.append("ri 0")
    return out

# ---- reception patterns: one station held for a while, burst errors, co-channel interference ----
def station_stream(seed, n):
    """What a receiver sees when it stays on one station: the same PI/PTY/TP header in group after group (so that 'same as last
    time' shortcuts are armed), fades that make blocks B, C and D uncorrectable together while block A still decodes (or the
    other way round), and single groups of a foreign station breaking in (another PI, usually under a burst) after which the
    old header returns. Independent per-block error codes (the other random streams) make these correlated patterns rare."""
    g = Gen(seed, "station")
    r = g.r
    out = g.prologue(all_cbs=True)
    def header():
        return (g.pi(), r.choice(g.pty_pool), r.randrange(2))
    cur = header()
    def errs():
        x = r.random()
        if x < 0.50: return (0, 0, 0, 0)
        if x < 0.62: return (0, r.choice([3, 3, 4, 255]), r.choice([3, 3, 5]), r.choice([3, 3, 200]))   # fade after block A
        if x < 0.70: return (r.choice([1, 2, 3, 9]), 0, 0, 0)
        if x < 0.78: return (0, r.choice([1, 2, 3]), 0, 0)
        if x < 0.84: return (r.choice([3, 4]), r.choice([3, 4]), r.choice([3, 4]), r.choice([3, 4]))
        return tuple(g.err(0.6) for _ in range(4))
    while len(out) < n:
        x = r.random()
        if x < 0.04: cur = header()
        elif x < 0.05: out.append("clear"); continue
        elif x < 0.055: out += ["new"] + ["r %d 1" % k for k in range(12)]; continue
        pi, pty, tp = cur
        if x >= 0.88:                      # a single group of another station breaks in
            pi = r.choice([p for p in g.pi_pool if p != cur[0]] or [cur[0] ^ 1])
            if r.random() < 0.5: pty, tp = r.choice(g.pty_pool), r.randrange(2)
        gtype = r.choice([0, 0, 0, 1, 2, 2, 4, 10, 3, 8, 14, 15])
        ver = 1 if r.random() < 0.2 else 0
        low5 = r.randrange(32)
        b = (gtype << 12) | (ver << 11) | (tp << 10) | (pty << 5) | low5
        c = (r.choice(g.af_pool) << 8 | r.choice(g.af_pool)) if gtype == 0 else (r.choice(g.ecc_pool) if gtype == 1 else g.word())
        if ver == 1 and r.random() < 0.6: c = pi
        e = errs() if x < 0.88 else ((0, r.choice([3, 4]), r.choice([3, 4]), r.choice([3, 4])) if r.random() < 0.6 else errs())
        out.append("p %d %d %d %d %d %d %d %d" % (pi, b, c, g.word(), e[0], e[1], e[2], e[3]))
    return out
