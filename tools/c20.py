"""c20.py — build configurations (C20): every build is put in correspondence with its own instantiation of
the model on the same ops files; a divergence or monitor failure that occurs in a non-default build but not in
the default build on the same op is build-specific and is a C20 violation. Cross-build twin comparisons
(implementation against implementation): heap vs no-heap identical; unicode vs narrow identical on the
non-text projection always, and completely (modulo the character embedding) on streams that never present
a byte >= 0x7F. The known finding (same-data test on converted characters) is replayed from its witness."""
import json, os, re, subprocess
import infra, gen, runner, trace as tracemod, props
from gen import Gen

WITNESS = ["new", "r 8 1", "c 0 1 2", "p 4660 0 0 32896 0 0 0 0", "p 4660 0 0 8224 0 0 0 2"]

def g0_table():
    path = os.path.join(infra.LEAN, "RdsModel", "Generated.lean")
    s = open(path).read()
    m = re.search(r"def g0 : List Nat :=\s*\[(.*?)\]", s, re.S)
    return [int(x) for x in m.group(1).replace("\n", " ").split(",")]

def embedder():
    g0 = g0_table()
    def emb_cells(cells):
        out = []
        for c in cells.split(","):
            cp, lvl = c.split("/")
            v = int(cp, 16)
            if v != 0 and v < 256:
                v = g0[v]
            out.append("%x/%s" % (v, lvl))
        return ",".join(out)
    def emb(x):
        if x.startswith("E "):
            # event line: own= of text events are cells
            head, own = x.split(" own=", 1)
            k = int(head.split(" ")[1])
            if 8 <= k <= 10:
                return head + " own=" + emb_cells(own)
            return x
        return emb_cells(x)
    return emb

NONTEXT_KEYS = ["S.pi", "S.pty", "S.tp", "S.ta", "S.ms", "S.ecc", "S.country", "A", "G",
                "T0.term", "T1.term", "T2.term", "T3.term", "T0.av", "T1.av", "T2.av", "T3.av"]

def cross(ctx, name, ra, rb, keys, events, embed=None, what=""):
    recs_a = list(tracemod.read_trace(ra.trace_path))
    recs_b = list(tracemod.read_trace(rb.trace_path))
    n = 0
    evf = (lambda e: tracemod.ev_kind(e) <= 7 or tracemod.ev_kind(e) == 11) if events == "nontext" else None
    for i in range(min(len(recs_a), len(recs_b))):
        a, b = recs_a[i], recs_b[i]
        if a is None or b is None: break
        n += 1
        # direction: a is the narrow run when an embedding is given
        d = tracemod.compare_records(a, b, state_keys=keys, compare_events=bool(events), compare_ret=True, ev_filter=evf, embed=embed)
        if d:
            comp, va, vb = d[0]
            hdr = ["property=C20 kind=cross-build twin %s (%s vs %s): records at op %d differ in %s: %s=%s %s=%s" % (what, ra.cfg, rb.cfg, i, comp, ra.cfg, va, rb.cfg, vb),
                   "replay: run the ops below on both builds (cfg=%s and cfg=%s)" % (ra.cfg, rb.cfg)]
            path = runner.write_replay("C20", "%s-s%d" % (name, ctx.seed), hdr, ra.ops[: i + 1])
            ctx.add_violation(path, "builds %s/%s differ in %s at op %d (%s)" % (ra.cfg, rb.cfg, comp, i, what))
            return n, False
    return n, True

def run(ctx):
    q = ctx.tier == "quick"
    wd = ctx.workdir
    emb = embedder()
    streams = []
    g = Gen(ctx.seed); streams.append(("mixed", g.mixed(8000 if q else 200000, multi=True), False))
    g = Gen(ctx.seed + 1); g.ascii_only = True; streams.append(("ascii", g.mixed(8000 if q else 200000, multi=False), True))
    streams.append(("text", props.text_stream(ctx.seed + 2, 6000 if q else 150000, toggles=True), False))
    streams.append(("chars", gen.sweep_chars(6 if q else 1, ctx.seed), False))
    # few cells, control codes, re-deliveries at different levels: pairs whose two cells hold different levels
    # (seed C20-b was missed without this stream)
    streams.append(("textfew", props.text_stream(ctx.seed + 3, 8000 if q else 200000, few_cells=True, toggles=True), False))
    # RT scenarios over all thresholds and error levels, text in the first or only in the last segment, A/B switches:
    # anything that depends on the width of a cell (wchar_t or one byte) shows at the ends of the buffers
    streams.append(("rtlevels", gen.sweep_rt_levels(4 if q else 1, ctx.seed) + gen.sweep_rt_sums(), True))     # no byte >= 0x7F in it: compared completely
    for sname, ops, ascii_only in streams:
        # valid strings only (malformed strings are C14's business and identical across builds anyway)
        runs = {}
        reps = {}
        from concurrent.futures import ThreadPoolExecutor
        def prep(cfg):
            r = runner.run_stream(wd, "%s_%s" % (sname, cfg), cfg, ops)
            return cfg, r, runner.check_stream(r)
        with ThreadPoolExecutor(max_workers=4) as ex:
            done = list(ex.map(prep, ("u", "n", "uh", "nh")))
        for cfg, r, rep in done:
            runs[cfg] = r
            reps[cfg] = rep
            st = reps[cfg]["stat"]
            ctx.cov["evaluations"] += int(st.get("ops", 0))
            if cfg == "u":
                ctx.cov["distinct_nontrivial"] += len(set(l for l in ops if l.startswith("p ") or l.startswith("s ")))
            ctx.cov["streams"].append({"name": sname, "cfg": cfg, "ops": int(st.get("ops", 0)), "div": int(st.get("div", 0)), "mon": int(st.get("mon", 0)),
                                       "harness_exit": r.harness_rc})
            if r.harness_rc != 0 and cfg != "u":
                ctx.notes.append("build %s: harness exit %d on stream %s (reported under C05)" % (cfg, r.harness_rc, sname))
        if len(ctx.cov["samples"]) < 4:
            ctx.cov["samples"].append({"stream": sname, "ops": ops[:2] + [l for l in ops if l.startswith("p ")][:3]})
        # build-specific divergences from the build's own instantiation / monitor failures
        base_div = {(d["op"], d["comp"]) for d in reps["u"]["div"]}
        base_mon = {(m["op"], m["prop"]) for m in reps["u"]["mon"]}
        if reps["u"]["div"] or reps["u"]["mon"]:
            # the default build itself deviates on this stream: whatever the cause is, it is not specific to a build
            # configuration (the property it breaks is reported by that property's check); a general defect shows at
            # different ops in different builds, which must not be mistaken for a build-specific one
            ctx.notes.append("stream %s: the default build deviates from the model / fails %s; comparison of the other builds with the model skipped, cross-build twins still run" %
                             (sname, sorted(set(m["prop"] for m in reps["u"]["mon"]))[:4]))
        for cfg in (() if (reps["u"]["div"] or reps["u"]["mon"]) else ("n", "uh", "nh")):
            bad = [d for d in reps[cfg]["div"] if (d["op"], d["comp"]) not in base_div]
            badm = [m for m in reps[cfg]["mon"] if (m["op"], m["prop"]) not in base_mon]
            if badm:
                m = badm[0]
                small = runner.shrink(wd, cfg, runner.slice_for_instance(ops, m["op"]), lambda r, rc, P=m["prop"]: any(x["prop"] == P for x in r["mon"]))
                path = runner.write_replay("C20", "%s-%s-s%d" % (sname, cfg, ctx.seed), ["property=C20 cfg=%s kind=monitor: predicate chk%s fails in build %s but not in the default build on the same input" % (cfg, m["prop"], cfg)], small)
                ctx.add_violation(path, "build %s violates %s where the default build does not" % (cfg, m["prop"]))
                return
            if bad:
                d = bad[0]
                small = runner.shrink(wd, cfg, runner.slice_for_instance(ops, d["op"]), lambda r, rc, C=d["comp"]: any(x["comp"] == C for x in r["div"]))
                path = runner.write_replay("C20", "%s-%s-s%d-corr" % (sname, cfg, ctx.seed), ["property=C20 cfg=%s kind=correspondence: build %s diverges from its own instantiation of the model in %s (%s) where the default build does not; no-failing-input-found by the monitors" % (cfg, cfg, d["comp"], d["detail"][:300])], small)
                ctx.add_violation(path, "build %s diverges from its instantiation in %s" % (cfg, d["comp"]), nofail=True)
                return
        # cross-build twins
        for a, b, what in (("uh", "u", "heap vs no-heap"), ("nh", "n", "heap vs no-heap")):
            n, ok = cross(ctx, "%s-%s%s" % (sname, a, b), runs[a], runs[b], None, True, None, what)
            ctx.cov["twin_runs"].append({"name": "%s %s/%s" % (sname, a, b), "records_compared": n})
            if not ok: return
        n, ok = cross(ctx, "%s-nontext" % sname, runs["n"], runs["u"], NONTEXT_KEYS, "nontext", None, "non-text projection")
        ctx.cov["twin_runs"].append({"name": "%s n/u nontext" % sname, "records_compared": n})
        if not ok: return
        if ascii_only:
            n, ok = cross(ctx, "%s-embed" % sname, runs["n"], runs["u"], None, True, emb, "complete trace modulo character embedding (no byte >= 0x7F presented)")
            ctx.cov["twin_runs"].append({"name": "%s n/u embedded" % sname, "records_compared": n})
            if not ok: return
    # the known finding, from its witness
    known = props.load_known()
    kf = [f for f in known.get("findings", []) if f.get("property") == "C20"]
    ru = runner.run_stream(wd, "wit_u", "u", WITNESS)
    rn = runner.run_stream(wd, "wit_n", "n", WITNESS)
    def summary(r):
        recs = [x for x in tracemod.read_trace(r.trace_path) if x is not None]
        ps_events = sum(1 for x in recs for e in x.evs if tracemod.ev_kind(e) == 8)
        lvl0 = recs[-1].state["T0.cells"].split(",")[0].split("/")[1]
        return ps_events, lvl0
    su, sn = summary(ru), summary(rn)
    ctx.cov["known_finding_witness"] = {"unicode": {"ps_callbacks": su[0], "cell0_level": su[1]}, "narrow": {"ps_callbacks": sn[0], "cell0_level": sn[1]}}
    if su != sn:
        if kf:
            ctx.known_lines.append("%s (witness: %s -> unicode build: %d PS callbacks, cell 0 level %s; narrow build: %d PS callbacks, level %s)" % (kf[0]["what"], "; ".join(WITNESS), su[0], su[1], sn[0], sn[1]))
        else:
            path = runner.write_replay("C20", "witness", ["property=C20 kind=cross-build: callbacks/levels differ between the unicode and the narrow build"], WITNESS)
            ctx.add_violation(path, "unicode and narrow builds differ on the witness")
