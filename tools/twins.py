"""twins.py — pairs of ops files related by the relation a 2-safety property quantifies over
(DESIGN.md §4.2 "twin runs"). Each function returns a dict:
  a, b        : the two op lists
  pairs       : list of (index in a, index in b) of ops whose records must agree
  keys        : state components to compare (None = all)
  events      : compare events?   ret : compare return values?
"""
import random
from gen import Gen, hexstr, P, ALL_CBS

DEFAULT_SET = {"ext": 0, "prog": [0, 0, 0], "corr": [[0, 0], [0, 0], [0, 0]]}

def fresh_settings():
    return {"ext": 0, "prog": [0, 0, 0], "corr": [[0, 0], [0, 0], [0, 0]]}

class Tracker:
    """interprets an op stream far enough to know settings, registrations and user data"""
    def __init__(self):
        self.reset_all()
    def reset_all(self):
        self.set = fresh_settings()
        self.cbs = [0] * 12
        self.ud = 0
    def feed(self, line):
        p = line.split()
        if not p: return
        if p[0] in ("new", "init"):
            self.reset_all()
        elif p[0] == "x":
            self.set["ext"] = 1 if int(p[1]) else 0
        elif p[0] == "c":
            self.set["corr"][int(p[1])][int(p[2])] = min(int(p[3]) % 256, 2)
        elif p[0] == "g":
            self.set["prog"][int(p[1])] = 1 if int(p[2]) else 0
        elif p[0] == "r":
            self.cbs[int(p[1])] = 1 if int(p[2]) else 0
        elif p[0] == "u":
            self.ud = int(p[1])
    def settings_ops(self):
        out = ["x %d" % self.set["ext"]]
        for t in range(3):
            out.append("g %d %d" % (t, self.set["prog"][t]))
            for k in range(2):
                out.append("c %d %d %d" % (t, k, self.set["corr"][t][k]))
        return out
    def observer_ops(self):
        return ["r %d %d" % (k, self.cbs[k]) for k in range(12)] + ["u %d" % self.ud]

# ---- C03 ---------------------------------------------------------------------------------
def used_blocks(st, g):
    """which of the blocks A,B,C,D are read on an accepted path (mirror of RdsSpec.Statements.usedA..D)"""
    a, b, c, d, ea, eb, ec, ed = g
    corr = st["corr"]
    gtype = (b >> 12) & 15
    verb = (b >> 11) & 1
    any_info = eb <= corr[0][0] or eb <= corr[1][0] or eb <= corr[2][0]
    uA = ea == 0
    uB = eb == 0 or any_info
    if verb: uC = False
    elif gtype == 0: uC = eb == 0 and ec == 0
    elif gtype == 1: uC = eb == 0 and ec == 0
    elif gtype == 2: uC = eb <= corr[1][0] and ec <= corr[1][1]
    elif gtype == 4: uC = eb == 0 and ec == 0 and ed == 0
    elif gtype == 10: uC = eb <= corr[2][0] and ec <= corr[2][1]
    else: uC = False
    if gtype == 0: uD = eb <= corr[0][0] and ed <= corr[0][1]
    elif gtype == 2: uD = eb <= corr[1][0] and ed <= corr[1][1]
    elif gtype == 4: uD = (not verb) and eb == 0 and ec == 0 and ed == 0
    elif gtype == 10: uD = (not verb) and eb <= corr[2][0] and ed <= corr[2][1]
    else: uD = False
    if not uB:
        uC = uD = False
    return uA, uB, uC, uD

def twin_c03(seed, n, style="mixed"):
    """style 'early': reset-heavy sessions in which one block is flagged most of the time, so that the parser
    stays for long in states ordinary traffic leaves at once (PI unknown, no RT flag seen, nothing confirmed)"""
    g = Gen(seed, "c03")
    r = g.r
    a = g.prologue(all_cbs=True) + g.settings_block()
    bad_block = r.randrange(4)
    while len(a) < n:
        x = r.random()
        if style == "early" and x < 0.06:
            a += (["clear"] if r.random() < 0.6 else ["new"] + ALL_CBS + g.settings_block())
            if r.random() < 0.6: a.append("x 1")
            bad_block = r.randrange(4)
            continue
        if x < 0.9:
            line = g.group(zero=r.choice([0.3, 0.5, 0.7]), gtype=(r.choice([0, 1, 1, 2, 2, 4, 10]) if style == "early" and r.random() < 0.7 else None))
            if style == "early":
                v = line.split()
                for blk in range(4):
                    if blk == bad_block:
                        v[5 + blk] = str(r.choice([1, 1, 2, 3, 200])) if r.random() < 0.8 else "0"
                    elif r.random() < 0.85:
                        v[5 + blk] = "0"
                line = " ".join(v)
            a.append(line)
            if style == "early" and r.random() < 0.3:
                a.append(line)          # the same group twice in a row: what the extended check needs to show a value
        elif x < 0.94: a.append(g.setter())
        elif x < 0.96: a.append("clear")
        elif x < 0.97: a += ["new"] + ALL_CBS + g.settings_block()
        else: a.append(hexstr(g.hexgroup_ok()))
    tr = Tracker()
    b = []
    changed = 0
    for line in a:
        if line.startswith("p "):
            v = [int(x) for x in line.split()[1:]]
            uA, uB, uC, uD = used_blocks(tr.set, v)
            w = list(v)
            if not uA: w[0] = r.randrange(65536)
            if not uB: w[1] = r.randrange(65536)
            if not uC: w[2] = r.randrange(65536)
            if not uD: w[3] = r.randrange(65536)
            if w != v: changed += 1
            b.append("p " + " ".join(str(x) for x in w))
        else:
            b.append(line)
        tr.feed(line)
    return {"a": a, "b": b, "pairs": [(i, i) for i in range(len(a))], "keys": None, "events": True, "ret": True,
            "nontrivial": changed}

# ---- C13 ---------------------------------------------------------------------------------
def twin_c13(seed, n_pre, n_post):
    g = Gen(seed, "c13")
    r = g.r
    pre = g.prologue(all_cbs=r.random() < 0.8) + g.settings_block()
    # thresholds above 0 and the extended check make hidden state observable later
    if r.random() < 0.7: pre += ["c 1 0 %d" % r.choice([1, 2]), "c 0 0 %d" % r.choice([1, 2]), "c 2 0 %d" % r.choice([1, 2])]
    early = (seed % 3 == 2)
    if early:
        # a very short history in which one block is flagged in every group: states that ordinary traffic leaves at once
        # (only a PI known, only a candidate parked, only noisy text stored) are the ones a "nothing to clear" shortcut gets wrong
        bad = 1 if r.random() < 0.6 else r.randrange(1, 4)
        edge_pi = r.choice([0x00FF, 0x54FF, 0xFFFF, 0xFF00, 0x0000, 0x8000, 0x7FFF, 0x0100]) if r.random() < 0.7 else None
        n_pre = len(pre) + r.randrange(1, 5)
    while len(pre) < n_pre:
        x = r.random()
        if early:
            v = g.group(zero=0.9).split()
            v[5 + bad] = str(r.choice([1, 2, 3]))
            if edge_pi is not None: v[1] = str(edge_pi); v[5] = "0"      # a PI at the edge of its range, received cleanly
            pre.append(" ".join(v))
        elif x < 0.9: pre.append(g.group(zero=0.85))
        elif x < 0.95: pre.append(g.setter())
        elif x < 0.98: pre.append(g.observer())
        else: pre.append("clear")
    # make sure hidden state is left behind: pending candidates, AF candidates, RT flag, text cells
    last_flag = r.randrange(2)
    if not early: pre += ["x 1", P(0xBEEF, 0x0000 | (7 << 5), 0x3C3D, 0x4142), P(0x1111, 0x2000 | (last_flag << 4), 0x4142, 0x4344),
            P(0x1111, 0x1000, 0x00E3, 0), "x %d" % r.randrange(2)]
    if not early and r.random() < 0.5:
        # a session without the extended check that repeats values (candidate stage written while the check is off)
        pre += ["x 0", P(0xBEEF, 0x0000 | (7 << 5) | 0x18, 0x3C3D, 0x4142), P(0xBEEF, 0x0000 | (7 << 5) | 0x18, 0x3C3D, 0x4142),
                P(0xBEEF, 0x1000, 0x00E3, 0), P(0xBEEF, 0x1000, 0x00E3, 0), "x %d" % r.randrange(2)]
    tr = Tracker()
    for line in pre: tr.feed(line)
    # probes: the first calls after the reset are chosen so that every kind of surviving history shows at once:
    # single receptions of the values seen before (stale candidates), noisy RT groups of both flags (stale flag),
    # re-deliveries with a worse level (stale text cells under progressive correction)
    probes = []
    if r.random() < 0.5: probes.append("x 1")
    eb = r.choice([1, 1, 2])
    probes += [P(0x1111, 0x2000 | ((last_flag ^ 1) << 4) | 1, 0x4B52, 0x4450, 0, eb, 0, 0),
               P(0x1111, 0x2000 | (last_flag << 4) | 2, 0x4B52, 0x4450, 0, eb, 0, 0),
               P(0xBEEF, 0x0000 | (7 << 5) | 0x18, 0x3C3D, 0x4142), P(0xBEEF, 0x1000, 0x00E3, 0),
               P(0x1111, 0x2000 | (last_flag << 4), 0x6162, 0x6364, 0, 0, 1, 1), P(0xBEEF, 0x0000 | (7 << 5), 0x3C3D, 0x6162, 0, 0, 0, 1)]
    r.shuffle(probes)
    # … and the very groups received last before the reset, verbatim (a "same as the previous group" shortcut that survives
    # the reset shows only on these)
    lastp = [l for l in pre if l.startswith("p ")][-4:]
    probes = lastp[-r.randrange(1, 4):] + probes if lastp and r.random() < 0.7 else probes
    post = list(probes)
    g2 = Gen(seed + 7777, "c13post")
    while len(post) < n_post:
        x = r.random()
        if x < 0.93: post.append(g2.group(zero=0.85))
        elif x < 0.97: post.append(g2.setter())
        else: post.append(g2.observer())
    a = pre + ["clear"] + post
    bpre = ["new"] + tr.settings_ops() + tr.observer_ops()
    b = bpre + ["q"] + post
    pairs = [(len(pre) + 1 + i, len(bpre) + 1 + i) for i in range(len(post))]
    # also: the state right after clear equals the state of the fresh twin
    pairs = [(len(pre), len(bpre))] + pairs
    return {"a": a, "b": b, "pairs": pairs, "keys": None, "events": True, "ret": True, "nontrivial": len(post)}

def twin_c13_edge(k):
    """tiny deterministic histories that leave exactly ONE thing behind before the reset — a PI at the edge of its range received
    with a clean block A only, once or twice, with or without the extended check; a single AF candidate; a single noisy RT
    group; a single 1A group — followed by clear and by the same groups again"""
    pis = [0x00FF, 0x54FF, 0xFFFF, 0xFF00, 0x0000, 0x8000, 0x7FFF, 0x0100]
    pi = pis[k % len(pis)]
    var = (k // len(pis)) % 8
    pre = ["new"] + ALL_CBS + ["c 1 0 1", "c 0 0 1"]
    if var in (1, 3, 5): pre.append("x 1")
    only_a = P(pi, 0x0408, 0xE0E0, 0x4142, 0, 2, 3, 3)                 # nothing but block A usable
    body = {0: [only_a], 1: [only_a], 2: [only_a, only_a], 3: [only_a, only_a],
            4: [P(pi, 0x0000, 0x0A14, 0x4142, 0, 0, 0, 3)],            # PI + one AF pair, PS data rejected
            5: [P(pi, 0x1000, 0x00E2, 0, 0, 0, 0, 0)],                 # PI + ECC once under the extended check
            6: [], 7: []}[var]
    if var in (6, 7):
        # only block B usable, the same values twice with the check off; the check is switched on AFTER the reset
        only_b = P(pi, 0x0000 | (9 << 5) | 0x0400 | 0x10, 0xE0E0, 0x4142, 2, 0, 3, 3)
        body = [only_b, only_b] if var == 6 else [only_b, P(pi, 0x1000, 0x00E2, 0, 2, 0, 0, 0), only_b, P(pi, 0x1000, 0x00E2, 0, 2, 0, 0, 0)]
    pre += body
    if var in (6, 7): body = ["x 1"] + body[:1] + body
    post = body + [P(pi, 0x0408, 0xE0E0, 0x4142), P(pi ^ 0x0100, 0x0408, 0xE0E0, 0x4142), P(pi, 0x2011, 0x4B52, 0x4450, 0, 1, 0, 0)]
    tr = Tracker()
    for line in pre: tr.feed(line)
    a = pre + ["clear"] + post
    bpre = ["new"] + tr.settings_ops() + tr.observer_ops()
    b = bpre + ["q"] + post
    pairs = [(len(pre), len(bpre))] + [(len(pre) + 1 + i, len(bpre) + 1 + i) for i in range(len(post))]
    return {"a": a, "b": b, "pairs": pairs, "keys": None, "events": True, "ret": True, "nontrivial": len(post)}

def twin_c13_ecc(k):
    """C13 for the country look-up: a PI with country nibble k % 16 and an ECC are received (twice: also confirmed under the
    extended check), then clear, then the same ECC behind a damaged block A — the parser knows no PI and must report what a
    fresh parser reports: a look-up result remembered across the reset (keyed on a PI that is 'unknown' now) shows here"""
    nib = k % 16
    ecc = (0xE0, 0xE1, 0xE2, 0xE3, 0xE4, 0xA0, 0xD0, 0xF0)[(k // 16) % 8]
    pi = (nib << 12) | 0x0201
    pre = ["new"] + ALL_CBS + (["x 1"] if (k // 128) % 2 else [])
    g1 = P(pi, 0x1000 | (5 << 5), ecc, 0)
    pre += [g1, g1]
    blind = P(pi, 0x1000 | (5 << 5), ecc, 0, 1, 0, 0, 0)
    post = [blind, blind, P(0x1234, 0x0008, 0x0A14, 0x4142), blind, g1]
    tr = Tracker()
    for line in pre: tr.feed(line)
    a = pre + ["clear"] + post
    bpre = ["new"] + tr.settings_ops() + tr.observer_ops()
    b = bpre + ["q"] + post
    pairs = [(len(pre), len(bpre))] + [(len(pre) + 1 + i, len(bpre) + 1 + i) for i in range(len(post))]
    return {"a": a, "b": b, "pairs": pairs, "keys": None, "events": True, "ret": True, "nontrivial": len(post)}

def twin_c13_other(k):
    """C13 with a second parser around: instance 0 collects a history (AF list and candidates, scalars, texts), then ANOTHER
    instance is created, fed or not, and cleared; then instance 0 is cleared and must be indistinguishable from a fresh parser
    with the same settings — whatever happened to its neighbour (a 'dirty' flag kept per process instead of per parser shows)"""
    ext = k % 2
    pre = ["new"] + ALL_CBS + ["c 1 0 1", "x %d" % ext]
    hist = [P(0x3ABC, 0x0008 | (5 << 5) | (1 << 10), 0x0A14, 0x4142), P(0x3ABC, 0x0009 | (5 << 5) | (1 << 10), 0x0A14, 0x4344),
            P(0x3ABC, 0x0008 | (5 << 5), 0x1E28, 0x4142), P(0x3ABC, 0x1000 | (5 << 5), 0x00E0, 0), P(0x3ABC, 0x1000 | (5 << 5), 0x00E0, 0),
            P(0x3ABC, 0x2000 | (5 << 5), 0x4142, 0x4344), P(0x3ABC, 0xA000 | (5 << 5), 0x4142, 0x4344)]
    other = [["@ 1", "new", "clear", "@ 0"],
             ["@ 1", "new", P(0x1111, 0x0008, 0x3246, 0x5858), "clear", "@ 0"],
             ["@ 1", "new", "x 1", P(0x1111, 0x0008, 0x3246, 0x5858), "clear", "clear", "@ 0"],
             ["@ 1", "new", "init", "@ 0"]][(k // 2) % 4]
    pre = pre + hist + other
    post = [P(0x3ABC, 0x0008 | (5 << 5), 0x1E28, 0x4142), P(0x3ABC, 0x000A | (5 << 5), 0x0A32, 0x4546), P(0x3ABC, 0x1000 | (5 << 5), 0x00E0, 0),
            P(0x3ABC, 0x2010 | (5 << 5), 0x4142, 0x4344, 0, 1, 0, 0), P(0x3ABC, 0x000A | (5 << 5), 0x0A32, 0x4546)]
    tr = Tracker()
    for line in pre[:len(pre) - len(other)]: tr.feed(line)
    a = pre + ["clear"] + post
    bpre = ["new"] + tr.settings_ops() + tr.observer_ops()
    b = bpre + ["q"] + post
    pairs = [(len(pre), len(bpre))] + [(len(pre) + 1 + i, len(bpre) + 1 + i) for i in range(len(post))]
    return {"a": a, "b": b, "pairs": pairs, "keys": None, "events": True, "ret": True, "nontrivial": len(post)}

def twin_reentrant_clear(j, ext, hseed):
    """C13 / C09 with the reset made from INSIDE a callback: run A is a fresh parser, run B has a history (every value
    different from the ones that follow, so the same callbacks fire); then both receive group G — twice under the extended check —
    during which callback j calls rdsparser_clear, and then a tail of single and repeated receptions. What the reset leaves
    behind must not depend on what was there before it: all states from G on are equal."""
    bb = (5 << 5) | (1 << 10)
    G = {0: P(0x3ABC, 0x0000 | bb | (1 << 4) | (1 << 3), 0x0A14, 0x4142), 1: None, 2: None, 3: None, 4: None, 7: None, 8: None,
         5: P(0x3ABC, 0x1000 | bb, 0x00E0, 0), 6: None, 9: P(0x3ABC, 0x2000 | bb, 0x4142, 0x4344), 10: P(0x3ABC, 0xA000 | bb, 0x4142, 0x4344),
         11: P(0x3ABC, 0x4000 | bb | 1, 0xD0C8, 0x1000 | (30 << 6))}
    g = G[j] or (G[5] if j == 6 else G[0])
    r = random.Random(hseed)
    hb = (2 << 5)
    hist = []
    for i in range(10):
        k = r.randrange(6)
        c, d = r.randrange(30, 60) << 8 | r.randrange(30, 60), 0x7878 + r.randrange(5)
        hist.append([P(0x1111, 0x0000 | hb | (i % 4), c, d), P(0x1111, 0x1000 | hb, 0x00E3, 0), P(0x1111, 0x2010 | hb | (i % 16), d, d),
                     P(0x1111, 0xA000 | hb | (i % 2), d, d), P(0x1111, 0x4000 | hb | 1, 0xD0C8, 0x2000 | (i << 6)),
                     P(0x1111, 0x0000 | hb | (1 << 3), c, d)][k])
    rep = 2 if ext else 1
    hist = [x for x in hist for _ in range(rep)]
    tail = [P(0x3ABC, 0x0000 | (7 << 5) | 1, 0x3246, 0x4344), P(0x3ABC, 0x1000 | (7 << 5), 0x00E1, 0),
            P(0x3ABC, 0x0000 | (7 << 5) | 1, 0x3246, 0x4344), P(0x3ABC, 0x1000 | (7 << 5), 0x00E1, 0),
            P(0x3ABC, 0x2010 | (7 << 5) | 2, 0x4545, 0x4646), P(0x3ABC, 0xA000 | (7 << 5), 0x4747, 0x4848),
            P(0x1111, 0x0000 | hb | (1 << 3), 0x2828, 0x7879), P(0x1111, 0x1000 | hb, 0x00E3, 0), P(0x1111, 0x0000 | hb | 2, 0x1E1F, 0x7879)]
    # first of all the history's own groups, each once: whatever survived the reset shows at once
    seen = []
    for x in hist:
        if x not in seen: seen.append(x)
    tail = seen + tail
    head = ["new"] + ALL_CBS + ["c 1 0 1", "x %d" % ext]
    mid = ["ri %d" % (5000 + j)] + [g] * rep + ["ri 0"]
    a = head + mid + tail
    b = head + hist + mid + tail
    off = len(hist)
    first = len(head) + len(mid) - 2        # the call during which the reset happens
    pairs = [(i, i + off) for i in range(first, len(a))]
    return {"a": a, "b": b, "pairs": pairs, "keys": None, "events": False, "ret": True, "nontrivial": len(tail),
            "require_event": (first, first + off, j)}

# ---- C14 ---------------------------------------------------------------------------------
def decode_hex(s):
    if len(s) not in (16, 18): return None
    try:
        txt = s.decode("ascii")
    except Exception:
        return None
    if any(ch not in "0123456789abcdefABCDEF" for ch in txt): return None
    v = [int(txt[i:i + 4], 16) for i in (0, 4, 8, 12)]
    e = int(txt[16:18], 16) if len(s) == 18 else 0
    return v + [(e >> 6) & 3, (e >> 4) & 3, (e >> 2) & 3, e & 3]

def twin_c14(seed, n):
    g = Gen(seed, "c14")
    r = g.r
    a = g.prologue(all_cbs=True) + g.settings_block()
    b = list(a)
    pairs = [(i, i) for i in range(len(a))]
    nontriv = 0
    while len(a) < n:
        x = r.random()
        if x < 0.75:
            s = g.hexgroup_ok()
            a.append(hexstr(s)); b.append("p %d %d %d %d %d %d %d %d" % tuple(decode_hex(s)))
            nontriv += 1
        elif x < 0.9:
            line = g.parse_string()
            a.append(line)
            raw = None if line == "s N" else bytes.fromhex(line[3:])
            dec = decode_hex(raw) if raw is not None else None
            b.append(("p %d %d %d %d %d %d %d %d" % tuple(dec)) if dec else "q")
        elif x < 0.95:
            line = g.setter(); a.append(line); b.append(line)
        else:
            line = "clear"; a.append(line); b.append(line)
        pairs.append((len(a) - 1, len(b) - 1))
    return {"a": a, "b": b, "pairs": pairs, "keys": None, "events": True, "ret": False, "nontrivial": nontriv}

# ---- C15 ---------------------------------------------------------------------------------
def twin_c15(seed, n, only_k=None):
    g = Gen(seed, "c15")
    r = g.r
    base = ["new", "qo 1"] + g.settings_block()
    slots = []
    while len(base) < n:
        x = r.random()
        if x < 0.8: base.append(g.group(zero=0.85))
        elif x < 0.84: base.append(g.setter())
        elif x < 0.86: base.append("clear")
        elif x < 0.87: base += ["new"] + g.settings_block()
        else:
            slots.append(len(base)); base.append(None)
    a = list(base); b = list(base)
    ra = random.Random(seed * 31 + 1); rb = random.Random(seed * 31 + 2)
    def obs(rr):
        x = rr.random()
        if x < 0.7: return "r %d %d" % (rr.randrange(12), 1 if rr.random() < 0.6 else 0)
        if x < 0.85: return "u %d" % rr.randrange(1, 1 << 20)
        return "q"
    for i in slots:
        a[i] = obs(ra); b[i] = obs(rb)
    # every ordered pair (j, k) of callbacks: run B lets callback j remove callback k (and change the user data) from inside the
    # call, on a fresh parser whose first groups make every callback fire — within one parse call where the library allows it
    stim = [P(0x3ABC, 0x0000 | (5 << 5) | (1 << 10) | (1 << 4) | (1 << 3), 0x1A2B, 0x4142),      # PI PTY TP TA MS AF PS
            P(0x3ABC, 0x0000 | (5 << 5) | (1 << 10) | (1 << 4) | (1 << 3) | 1, 0x3C4D, 0x4344),
            P(0x3ABC, 0x1000 | (5 << 5) | (1 << 10), 0x00E0, 0x0000),                               # ECC, country
            P(0x3ABC, 0x2000 | (5 << 5) | (1 << 10), 0x4142, 0x430D),                               # RT
            P(0x3ABC, 0xA000 | (5 << 5) | (1 << 10), 0x4142, 0x4344),                               # PTYN
            P(0x3ABC, 0x4000 | (5 << 5) | (1 << 10) | 1, 0xD0C8, 0x1000 | (30 << 6)),               # CT
            P(0x4DEF, 0x0000 | (9 << 5) | 2, 0x5E6F, 0x4546)]                                       # all of group 0 again, changed
    pairs12 = [(j, k) for j in range(12) for k in range(12) if j != k]
    for (j, k) in pairs12:
        if only_k is not None and k != only_k: continue
        blk = ["new"] + ["r %d 1" % i for i in range(12)] + ["u 77"]
        a += blk; b += blk
        a.append("q"); b.append("ri %d" % (1000 + 100 * j + 4 * k + 1 + 2 * ((j + k) % 2)))
        a += stim; b += stim
        a.append("q"); b.append("ri 0")
    # late registration from inside a callback: run A has every callback registered, run B all but k, and callback j registers k
    # while the library is in the middle of a call. From that moment on — also for the rest of the same call — k is reported
    # exactly as in run A (checked by runner.run_twin, key "late_reg")
    late = []
    for (j, k) in pairs12:
        if only_k is not None and k != only_k: continue
        a += ["new"] + ["r %d 1" % i for i in range(12)] + ["u 77", "q"]
        b += ["new"] + ["r %d 1" % i for i in range(12) if i != k] + ["q", "u 77", "ri %d" % (3000 + 100 * j + 4 * k)]
        st = len(a)
        # the group that makes k fire comes first: on a parser that knows nothing yet it makes PI, PTY and TP (and the other
        # callbacks of its own type) fire as well, so j and k meet in one call wherever the library allows it
        first = {5: 2, 6: 2, 9: 3, 10: 4, 11: 5}.get(k, 0)
        seq = [stim[first]] + [x for n_, x in enumerate(stim) if n_ != first]
        a += seq; b += seq
        late.append((st, len(a), j, k))
        a.append("q"); b.append("ri 0")
    # registration gaps: traffic that keeps every callback busy (each value twice in a row, so that the extended check confirms it;
    # clock times one minute apart); run A has everything registered throughout, run B removes callback k for two steps in the
    # middle and puts it back. What a callback reports once it is registered in both runs again must not depend on the gap.
    for ext in (0, 1):
        for k in range(12):
            if only_k is not None and k != only_k: continue
            blk = ["new"] + ["r %d 1" % i for i in range(12)] + ["u 5", "x %d" % ext]
            a += blk; b += blk
            for j in range(10):
                h = j // 2
                bb = (5 + h) << 5 | (1 << 10)
                step = [P(0x3ABC, 0x0000 | bb | ((h & 1) << 4) | ((h & 1) << 3) | (j % 4), ((10 + h) << 8) | (20 + h), 0x4141 + 0x0101 * h),
                        P(0x3ABC, 0x1000 | bb, 0x00E0 + h, 0x0000),
                        P(0x3ABC, 0x2000 | bb | (j % 4), 0x4141 + 0x0101 * h, 0x6161 + 0x0101 * h),
                        P(0x3ABC, 0xA000 | bb | (j % 2), 0x4141 + 0x0101 * h, 0x6161 + 0x0101 * h),
                        P(0x3ABC, 0x4000 | bb | 1, 0xD0C8, 0x1000 | ((20 + j) << 6))]
                a.append("q"); b.append("r %d 0" % k if j == 4 else ("r %d 1" % k if j == 6 else "q"))
                a += step; b += step
    if seed % 2 == 1:
        # odd seeds: in run B the callbacks themselves register/unregister other callbacks and change the user data
        # while the library is in the middle of a parse call ("inside or outside callbacks")
        for i in slots[::3]:
            b[i] = "ri %d" % rb.randrange(1, 4)
    # which callbacks are registered in both runs when op i is executed (empty while callbacks re-register from inside)
    common = []
    ra_, rb_ = set(), set(); taint = False
    for i in range(len(a)):
        common.append(frozenset() if taint else frozenset(ra_ & rb_))
        for line, regs in ((a[i], ra_), (b[i], rb_)):
            w = line.split()
            if w[0] == "new": regs.clear()
            elif w[0] == "r" and len(w) == 3:
                (regs.add if w[2] != "0" else regs.discard)(int(w[1]))
            elif w[0] == "ri": taint = w[1] != "0"          # the harness keeps the mode across `new`, until `ri 0`
        if taint:
            # what the callbacks registered or removed from inside is not known here: start again from nothing
            ra_.clear(); rb_.clear()
    return {"a": a, "b": b, "pairs": [(i, i) for i in range(len(a)) if i >= len(base) or base[i] is not None], "keys": None,
            "events": False, "ret": True, "nontrivial": len(slots), "common": common, "late_reg": late}

# ---- C09: texts and clock time are independent of the extended check -----------------------
def twin_c09(seed, n):
    g = Gen(seed, "c09t")
    r = g.r
    a = g.prologue(all_cbs=True) + g.settings_block()
    while len(a) < n:
        x = r.random()
        if x < 0.92: a.append(g.group(zero=0.8))
        elif x < 0.96: a.append(g.setter())
        else: a.append("clear")
    b = []
    rb = random.Random(seed * 17 + 3)
    flips = 0
    for line in a:
        if line.startswith("x "):
            b.append("x %d" % rb.randrange(2)); flips += 1
        else:
            b.append(line)
    keys = [k for t in range(4) for k in ("T%d.cells" % t, "T%d.term" % t, "T%d.len" % t, "T%d.av" % t)]
    return {"a": a, "b": b, "pairs": [(i, i) for i in range(len(a))], "keys": keys, "events": "text", "ret": True,
            "nontrivial": flips}

# ---- C19 ---------------------------------------------------------------------------------
def twin_c19(seed, n_inst, n_each):
    """solo sequences per instance and one random interleaving of them"""
    r = random.Random(seed)
    solos = []
    for i in range(n_inst):
        g = Gen(seed * 100 + i, "c19")
        s = g.mixed(n_each, multi=False)
        s = [l for l in s if l not in ("mf", "fn")]
        if r.random() < 0.5:
            # destroy and re-create in the middle
            k = len(s) // 2
            s = s[:k] + ["free", "new"] + ALL_CBS + s[k:]
        solos.append(s)
    pos = [0] * n_inst
    inter = []
    owner = []      # for each op of `inter`: (instance, index in solo) or None for selects
    cur = None
    live = [i for i in range(n_inst)]
    while live:
        i = r.choice(live)
        burst = r.choice([1, 1, 2, 3, 5, 20])
        if cur != i:
            inter.append("@ %d" % i); owner.append(None); cur = i
        for _ in range(burst):
            if pos[i] >= len(solos[i]): break
            inter.append(solos[i][pos[i]]); owner.append((i, pos[i])); pos[i] += 1
        if pos[i] >= len(solos[i]):
            live.remove(i)
    return {"solos": solos, "inter": inter, "owner": owner}
