#!/bin/bash
# run_suite_at.sh <commit> <outfile>: builds /repo at <commit> in a scratch worktree and runs the unedited test suite
C=$1; OUT=$2; WT=/tmp/suite/$C
rm -rf $WT; mkdir -p /tmp/suite
git -C /repo worktree prune
git -C /repo worktree add -q --detach $WT $C || exit 2
cmake -G Ninja -S $WT -B $WT/_build > $WT.cmake.log 2>&1 && cmake --build $WT/_build >> $WT.cmake.log 2>&1
ctest --test-dir $WT/_build -j4 --timeout 900 > $OUT.full 2>&1
RC=$?
( echo "commit $C ctest exit $RC"; grep "tests passed\|tests failed\|Failed\|\*\*\*" $OUT.full | head -20;
  for t in $WT/_build/test/test_* $WT/_build/test/verification; do [ -x $t ] && (cd $WT/_build/test; $t 2>&1 | grep -c "\[       OK \]"); done | paste -sd+ | bc ) > $OUT
git -C /repo worktree remove --force $WT
