"""trace.py — reader for the canonical trace printed by harness/harness.c (and by
`rdsmodel run`): reconstructs, per op record, the full getter-visible state of the instance
the op ran on, so that two implementation runs can be compared component by component
(twin runs for the 2-safety properties)."""

STATE_KEYS = ["S.pi", "S.pty", "S.tp", "S.ta", "S.ms", "S.ecc", "S.country", "A",
              "T0.cells", "T0.term", "T0.len", "T0.av", "T1.cells", "T1.term", "T1.len", "T1.av",
              "T2.cells", "T2.term", "T2.len", "T2.av", "T3.cells", "T3.term", "T3.len", "T3.av", "G"]

class Rec:
    __slots__ = ("k", "inst", "ret", "evs", "state", "x", "changed", "order")
    def __init__(self, k, inst, ret):
        self.k = k; self.inst = inst; self.ret = ret
        self.evs = []; self.x = []; self.state = None; self.changed = False; self.order = None

def read_trace(path):
    """yields Rec objects; state is a dict (a fresh copy only when something changed)"""
    cur = {}          # inst -> state dict
    rec = None
    ended = False
    with open(path) as f:
        for line in f:
            line = line.rstrip("\n")
            if not line:
                continue
            c = line[0]
            if c == "O":
                if rec is not None:
                    yield rec
                p = line.split(" ")
                rec = Rec(int(p[1]), int(p[2]), p[3])
                rec.state = cur.get(rec.inst)
            elif c == "E" and line.startswith("END"):
                ended = True
                break
            elif rec is None:
                continue
            elif c == "E":
                rec.evs.append(line)
            elif c == "X":
                rec.x.append(line)
            elif c == "Q":
                rec.order = [int(x) for x in line.split()[1:]]
            else:
                st = dict(rec.state) if rec.state is not None else {}
                if c == "S":
                    p = line.split(" ")
                    for name, v in zip(STATE_KEYS[:7], p[1:8]):
                        st[name] = v
                elif c == "A":
                    st["A"] = line[2:]
                elif c == "T":
                    p = line.split(" ", 5)
                    t = p[1]
                    st["T%s.term" % t] = p[2]; st["T%s.len" % t] = p[3]; st["T%s.av" % t] = p[4]; st["T%s.cells" % t] = p[5]
                elif c == "G":
                    st["G"] = line[2:]
                rec.state = st
                rec.changed = True
                cur[rec.inst] = st
    if rec is not None:
        yield rec
    if not ended:
        yield None     # marker: the trace is truncated (the implementation aborted)

def ev_kind(line):
    return int(line.split(" ", 2)[1])

def compare_records(a, b, state_keys=None, compare_events=True, compare_ret=True, ev_filter=None, embed=None):
    """components in which two records differ; `embed` optionally maps a cells string of run A
    before comparison"""
    diffs = []
    if compare_ret and a.ret != b.ret:
        diffs.append(("ret", a.ret, b.ret))
    if compare_events:
        ea = [e for e in a.evs if ev_filter is None or ev_filter(e)]
        eb = [e for e in b.evs if ev_filter is None or ev_filter(e)]
        if embed:
            ea = [embed(e) for e in ea]
        if ea != eb:
            diffs.append(("E", "; ".join(ea)[:300], "; ".join(eb)[:300]))
    sa = a.state or {}
    sb = b.state or {}
    for key in (state_keys if state_keys is not None else STATE_KEYS):
        va = sa.get(key); vb = sb.get(key)
        if embed and va is not None and key.endswith(".cells"):
            va = embed(va)
        if va != vb:
            diffs.append((key, (va or "")[:200], (vb or "")[:200]))
    return diffs
