#!/usr/bin/env python3
"""trypatch.py <patch.diff> <property-id>[,<property-id>…] [--no-refine] — apply a patch to a scratch worktree of /repo
(outside /repo and /verif), run the named quick checks against it through VERIF_REPO, print exit code and VIOLATION lines,
remove the worktree. --no-refine switches the T0 obligations off (VERIF_NO_REFINE=1) to see what T1/T2 alone find."""
import os, subprocess, sys
VERIF = os.path.dirname(os.path.dirname(os.path.abspath(__file__)))
def sh(cmd, env=None): return subprocess.run(cmd, shell=True, stdout=subprocess.PIPE, stderr=subprocess.STDOUT, text=True, env=env)
args = [a for a in sys.argv[1:] if not a.startswith("--")]
patch, props = os.path.abspath(args[0]), args[1].split(",")
wt = "/tmp/trypatch/%d" % os.getpid()
sh("mkdir -p /tmp/trypatch; git -C /repo worktree prune; git -C /repo worktree add -q --detach %s HEAD" % wt)
try:
    r = sh("git -C %s apply %s" % (wt, patch))
    if r.returncode: print("PATCH DOES NOT APPLY", r.stdout); sys.exit(2)
    env = dict(os.environ); env["VERIF_REPO"] = wt
    if "--no-refine" in sys.argv: env["VERIF_NO_REFINE"] = "1"
    for p in props:
        r = sh("python3 %s/check.py %s --tier quick" % (VERIF, p), env=env)
        v = [l for l in r.stdout.splitlines() if l.startswith(("VIOLATION", "KNOWN"))]
        print(p, "exit", r.returncode, [x[:160] for x in v][:3], flush=True)
finally:
    sh("git -C /repo worktree remove --force %s" % wt)
