#!/usr/bin/env python3
"""mkmeta.py — writes seeded/<id>/meta.json from the table below plus confirm.json / detect.json"""
import json, os
VERIF = os.path.dirname(os.path.dirname(os.path.abspath(__file__)))
NEEDS = {
 "C01-a": "group0 refactor: the early return for AF code 250 now also skips TA/MS; needs a 0A group with error-free B and C whose block-C high byte is 0xFA and TA/MS differing from the stored value",
 "C01-b": "same family as C01-a (inlined AF helper, guards merged); 0A, eB=eC=0, C high byte 0xFA",
 "C02-a": "early 'same text' return compares the stored (converted) character with the raw byte; needs a cell holding a non-ASCII G0 character whose code point equals a later byte for the same cell",
 "C02-b": "pair-level shortcut of the same kind: both cells of the 2-character chunk must match the incoming raw bytes",
 "C03-a": "RT flag remembered from a type-2 group whose block B has errors right after a reset; later accepted noisy groups (RT info threshold > 0) are then dropped or kept depending on the don't-care block",
 "C04-a": "'changed =' instead of '|=': the switch-discard notification is lost when both C and D of the switching 2A group are rejected",
 "C04-b": "clear reports 'nothing discarded' when cell 0 holds the end-of-text marker: needs 0x0D as first byte of RT address 0, flag X->Y->X with clean block B, and every text block of the switch-back group rejected",
 "C05-a": "level LUT indexed by error codes + clamp only for value 3: thresholds 4..255 are stored and error codes >= 3 then index past the table",
 "C06-a": "same-data test '==' instead of '<=': identical character at a worse level overwrites (non-progressive text, thresholds above 0)",
 "C06-b": "same-data decision computed once per pair from the first cell's level: needs two cells of a pair at different levels and a re-delivery at a level in between",
 "C07-a": "progressive guard evaluated once per pair on the first cell: needs a pair whose first byte was refused and second accepted, then a worse reception",
 "C08-a": "guard 'last flag known' dropped from the switch: after a reset, text written by accepted noisy groups is wiped by the first clean group",
 "C08-b": "switch does not empty a buffer whose cell 0 is the end-of-text marker (length 0): needs 0x0D at RT address 0, then two clean toggles",
 "C09-a": "PI update skipped when equal to the visible value, so a stale candidate survives: pattern A A B A B makes B visible",
 "C09-b": "clear keeps the candidate stage while the check is off: needs a non-extended session, clear, enabling the check in the reset state, then the stale value once",
 "C10-a": "AF 'unset' helper with '&=' but no '~' wipes the other candidates of the same bitmap byte: extended check, two codes with the same code/8, order Y X X Y",
 "C11-a": "country recomputed only when the ECC changes: same ECC received again after the PI became known or changed",
 "C12-a": "term '- doe/146096' dropped from the year-of-era formula: only the local day MJD 51603 (2000-02-29) is reported as 2000-03-01",
 "C13-a": "clear skips the RT buffers when no clean RT group has been seen: needs RT info threshold >= 1 and only noisy accepted RT groups since the last reset",
 "C14-a": "per-character validation moved into the block loop: the optional error byte is checked by strtol only (space, tab, sign accepted at position 16)",
 "C15-a": "AF decode became an 'else if' of the PS-callback branch: with a PS callback registered, a 0A group that changes the PS does not decode its AF pair",
 "C16-a": "availability scans every second cell: a pair whose first byte is refused and second accepted leaves only an odd cell received",
 "C17-a": "progressive flags packed in a bitmask; clearing uses (~1u) << text, which also clears every lower flag",
 "C18-a": "RBDS short name of PTY 15 'Classicl' -> 'Classical' (9 characters, over the 8-character display)",
 "C19-a": "one-entry static cache in rdsparser_ecc_lookup keyed on PI nibble + ECC (unknown PI aliases nibble 0xF): cross-instance interference and a data race",
 "C19-static": "the 2-byte text scratch buffer made static (mutant named in properties.jsonl): functionally invisible single-threaded",
 "C03-b": "country lookup falls back to this group's own block A (errors not checked) when no PI is known and the extended check is on: needs ext on, PI unknown, 1A variant 0 with clean B and C, bad block A with a mapped nibble, twice",
 "C05-b": "pi_country != 0 guard dropped in rdsparser_ecc_lookup: PI with first nibble 0 indexes lut[ecc][255] (out-of-bounds read of static data)",
 "C07-b": "progressive guard only applies to cells before the first end-of-text marker: needs an error-free 0x0D stored, then a worse reception for a cell behind it",
 "C10-b": "AF candidate 'unset' mask (uint8_t)~0x80 >> bitPos also clears lower candidates of the same byte: extended check, codes A < B in one byte, order A B B A",
 "C11-b": "set_ecc skipped when the value equals the visible one, so the ECC candidate is not refreshed: extended check, A A then B A B",
 "C12-b": "era computed from the UTC day, day-of-era from the local day: only MJD 51603/51604 with an offset crossing midnight over the 400-year era boundary",
 "C13-b": "last_rt_flag reset moved from clear() to init(): after a clear a noisy RT group of the other flag is dropped (RT info threshold raised, no clean RT group yet)",
 "C14-b": "trailing error byte decoded by a helper that only handles upper-case letters: lower-case a/b give levels 10/11 for blocks A and C (visible only with RT/PTYN data threshold 2 in 2A/10A)",
 "C15-b": "register_rt resets the last RT flag when the callback pointer changes: re-registering exactly at an A/B switch changes decoding",
 "C16-b": "progressive rejection resets the level of a cell holding the end-of-text marker to 'never received' (cell keeps 0x00): progressive on, threshold raised, clean 0x0D stored, then a corrected re-delivery",
 "C17-b": "PTYN address mask & 3 plus an off-by-one range guard in string_update_single: a 10A group with address bits 10b writes errors[8], i.e. the PS progressive flag",
 "C18-b": "country tables stored as fixed-width cells; the name width 28 drops the terminator of the one 28-character name (argument 192)",
 "C19-b": "function-local static flag 'LF/MF follows' set when the second AF code is 250: the next 0A group of ANY instance loses its first AF",
 "C20-b": "an #ifdef RDSPARSER_DISABLE_UNICODE shortcut in the pair store decides 'same data' for both cells from the first cell's level: only the narrow builds, only when the two cells of a pair hold different levels and a re-delivery arrives at a level in between",
 "C01-c": "TA/MS guard 'block B error-free' replaced by an early return on 'block B above the PS info threshold': with the PS info threshold raised, TA/MS are taken from a corrected (not error-free) block B of a type-0 group",
 "C02-c": "'unchanged ASCII cell' fast path compares the raw input byte with the stored code point: a cell holding '$' (from byte 0xAB) ignores a later error-free byte 0x24, which should store U+00A4 (1 of 50 176 previous/new byte pairs per cell)",
 "C03-c": "merged RT flag guards latch the A/B flag from a block B of any error level when no flag is known yet: RT info threshold raised, first type-2 group after a reset has an uncorrectable block B, then an accepted noisy group of the opposite flag is dropped",
 "C04-c": "string_clear returns 'something discarded' computed with 'level < 9': an RT buffer whose cells were all stored at the worst acceptable level (both RT thresholds LARGE, block B and data blocks at level 2) is emptied by an A/B switch-back without the RT callback",
 "C05-c": "update_string resolves the RT buffer as rt[last_rt_flag]: with the RT info threshold raised and no clean type-2 group since the reset, an accepted noisy group writes through rt[-1] (out of bounds, before the object)",
 "C06-c": "same-data decision taken once per 2-character chunk: thresholds above 0, non-progressive, a cell holding the same character at a better level whose partner cell differs is overwritten with the worse level",
 "C07-c": "progressive guard evaluated once per chunk against the first cell: first character refused earlier and second accepted, then a reception at a level between the two cells overwrites the second cell",
 "C08-c": "group 2 returns early when no text block passes the thresholds, before the A/B flag handling: a switch-back group with clean block B and all text rejected no longer empties the buffer nor records the flag",
 "C09-c": "PI reaches set_pi only when it differs from the visible value: extended check, a stale PI candidate is not cancelled (A A B A B makes B visible)",
 "C10-c": "new per-instance flag 'LF/MF follows' set when the second AF byte is 250: the first AF code (1..135) of the next clean 0A group is dropped",
 "C11-c": "1A variant 0 returns early when the ECC equals the stored ECC and a country is known: the country is not recomputed after the PI country nibble changed; under the extended check the candidate slot is not refreshed either (y x y adopts y)",
 "C12-c": "date conversion skipped when the MJD equals the previous group's and the local minute-of-day did not go backwards: two CT groups with the same MJD whose offsets put them on different local days report the first one's date",
 "C13-c": "clear skips the RT state when last_rt_flag is -1: RT info threshold raised, only noisy accepted RT groups since the last reset, then clear leaves the RT cells",
 "C14-c": "parse_string caches the last converted line while the extended check is on and matches it with strncmp(.., 18): an 18-digit line followed by the same 18 characters plus any suffix is accepted",
 "C15-c": "group 4 case of the dispatcher: early break when no CT callback is registered, and the case's own break dropped: with a CT callback registered every 4A group falls through into the PTYN handler",
 "C16-c": "update_string loops over the data blocks but gates every block with the FIRST block's error level: block D of a 2A/10A group with error 3 is stored (level 10 or 12) when block C passes and the info threshold is raised",
 "C17-c": "RT progressive forced on around the string updates for a corrected block B and restored afterwards, but the A/B 'bit-flip' early return skips the restore: the RT progressive setting reads true without a setter call",
 "C18-c": "ISO codes packed without terminators; the lookup copies two characters into a function-local static buffer and returns it: every returned ISO string changes with the next lookup (each call still correct at the moment of return)",
 "C19-c": "static one-entry memo in ecc_lookup keyed on (PI >> 12) & 15 without the 'PI known' guard: an unknown PI aliases nibble F, so one instance's lookup leaks into another's country",
 "C20-c": "narrow-build space substitution moved into the parser and re-checking only the data block's error: only the RDSPARSER_DISABLE_UNICODE builds, info threshold raised, block B corrected, data block clean, byte >= 0x7F: the cell is overwritten with a space",
 "C01-d": "set_pty switches the extended check on for its own buffer update while a PTYN fragment is held: in normal mode, with a PTY known and some PTYN text stored, a single reception of a different PTY is not shown",
 "C02-d": "per-segment cache of the last error-free 10A words: an error-free 10A group equal to the last error-free one for that segment returns early, although a corrected group overwrote the cells in between (PTYN thresholds raised, progressive off; A ... B ... A)",
 "C03-d": "cached min(info, data) threshold lags one setter call behind and gates on (eB | eData): after lowering one threshold a block above the new level is still used, so block B's don't-care bits select the cells",
 "C04-d": "ECC and country stored before any callback, the country callback nested under 'ECC changed': a country change in a 1A group whose ECC is unchanged (PI nibble changed or became known) is silent",
 "C05-d": "month/day computed by walking a 12-entry month-length table with a leap rule that forgets the 400-year case: local date 2000-02-29 reads month_length[12] and beyond (needs a CT callback and that exact local day)",
 "C06-d": "fast path when both converted characters of a pair are already stored: bytes 0x7F/0xFF convert to a blank and so bypass the error-free-only rule on blank cells (thresholds raised, errors non-zero, both bytes in {0x20,0x7F,0xFF})",
 "C07-d": "progressive guard evaluated once per chunk against its first cell (error level computed once per chunk)",
 "C08-d": "last_rt_flag reset moved from clear to init (same family as C13-b): the first accepted noisy group after a clear is dropped against the flag from before the clear",
 "C09-d": "buffer_clear wipes the candidate stage only while the extended check is on: a value repeated with the check off survives clear as a candidate and is shown after ONE reception once the check is enabled in the reset state",
 "C10-d": "promotion of a confirmed AF code copies the whole candidate byte into the list: a pending neighbour in the same octet is listed after one reception, without callback",
 "C11-d": "country taken at once under the extended check when a PI and SOME ECC are confirmed, although the lookup uses the received ECC: the country can contradict the shown ECC",
 "C12-d": "year derived from the broadcast UTC day, month/day from the local day: off by one year when the offset carries across 31 Dec / 1 Jan",
 "C13-d": "an error-free group 2 equal to the previous error-free group 2 is swallowed, and the remembered group survives clear: the first RT group after a reset is ignored if it repeats the last one before it",
 "C14-d": "parse_string dispatches only if block B's error is within the DATA threshold (should be INFO): with info > data thresholds an 18-digit line with a corrected block B returns true and does nothing",
 "C15-d": "PS callback pointer and user data fetched once per group before the TA/MS callbacks run: a TA/MS callback that changes the user data or unregisters PS is not honoured within the same call",
 "C16-d": "clear wipes the RT buffers only when a clean RT group has been seen (same family as C13-a): RT text accepted from noisy groups survives the reset",
 "C17-d": "progressive flags packed in a bitmask; the setter compares the masked bit (2 or 4) with a bool: writing 'true' to RT/PTYN when already on toggles it off",
 "C18-d": "16-character PTY tables turned into sparse override tables with fallback to the full name; RDS code 14 missing: 'Serious classical' (17 characters)",
 "C19-d": "file-scope static 'modified' flag in string.c set by string updates and consumed by the group handlers' callback test: one instance's text change makes another instance fire a spurious text callback",
 "C20-d": "get_available sums the error levels in rdsparser_string_t arithmetic: exact as wchar_t, wraps mod 256 in the narrow build for the 64-cell RT buffer (sum of (10 - level) = 256 or 512), so an A/B switch-back does not empty the buffer",
 "C20-a": "end-of-line decided on the converted character: in the RDSPARSER_DISABLE_UNICODE builds an error-free 0x00 byte is stored as end-of-text marker; default build unaffected",
}
for sid in sorted(os.listdir(os.path.join(VERIF, "seeded"))):
    d = os.path.join(VERIF, "seeded", sid)
    if not os.path.isdir(d) or not os.path.exists(os.path.join(d, 'patch.diff')): continue
    meta = {"seed": sid, "property": sid.split("-")[0], "needs_to_manifest": NEEDS.get(sid, "see NOTES.md"),
            "origin": "independent sub-agent given only the property text and a scratch worktree" if sid != "C19-static" else "mutant list of properties.jsonl, written by hand"}
    meta["demonstration"] = "run_demo.sh (builds demo.c in several build configurations and compares)" if os.path.exists(os.path.join(d, "run_demo.sh")) else "demo.c (exit 0 on the unchanged tree, exit 1 with the change)"
    cf = os.path.join(d, "confirm.json")
    if os.path.exists(cf):
        c = json.load(open(cf))
        meta["confirmed"] = {"how": "tools/confirm_seed.sh in a scratch worktree of /repo (outside /repo and /verif): apply patch, cmake+ninja build, full ctest, demo built against unchanged and changed tree",
                             "suite_with_change": c.get("ctest_summary"), "build_exit": c.get("build_exit"),
                             "demo_exit_unchanged": c.get("demo_exit_unchanged"), "demo_exit_with_change": c.get("demo_exit_with_change")}
    df = os.path.join(d, "detect.json")
    if os.path.exists(df):
        dj = json.load(open(df))
        meta["detected_by"] = {p: {"exit": v["exit"], "replays": v["violations"]} for p, v in dj.items()}
        meta["how_run"] = "tools/seedtest.py: git -C /repo apply patch.diff; python3 check.py <property> --tier quick; git -C /repo checkout -- ."
    json.dump(meta, open(os.path.join(d, "meta.json"), "w"), indent=1)
print("ok")
