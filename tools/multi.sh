#!/bin/bash
python3 check.py --setup | tail -1
for seed in 2 3 4 5 6; do for i in $(seq -w 1 20); do VERIF_SEED=$seed python3 check.py C$i --tier quick 2>&1 | grep "^\[check\] C\|VIOLATION"; done; done
for i in $(seq -w 1 20); do python3 check.py C$i --tier thorough 2>&1 | grep "^\[check\] C\|VIOLATION"; done
