#!/bin/bash
# coverage.sh — gcov line/branch coverage of /repo/src/*.c reached by the quick-tier streams of all checks
# (supporting measurement for DESIGN.md §12; not part of any check)
set -e
D=/verif/.work/coverage; mkdir -p $D; cd $D
find $D -name '*.gcda' -delete; find $D -name '*.gcno' -delete; find $D -name '*.ops' -delete
gcc -O0 -g --coverage -DRDSPARSER_VERIF -I/repo/include /repo/src/*.c /verif/harness/harness.c /verif/harness/wrapmalloc.c -Wl,--wrap=malloc -o harness_cov
gcc -O0 -g --coverage -DRDSPARSER_VERIF -I/repo/include /repo/src/*.c /verif/harness/extract.c -o extract_cov
python3 - <<'PY'
import sys; sys.path.insert(0,'/verif/tools')
import gen, props
for pid in sorted(props.PROPS):
    for name,cfg,ops in props.streams(pid,'quick',1):
        if cfg=='u': gen.write_ops('/verif/.work/coverage/%s_%s.ops'%(pid,name),ops)
PY
for f in $D/*.ops; do ./harness_cov $f > /dev/null; done
./extract_cov > /dev/null
gcov -b $D/*.gcno 2>/dev/null | grep -A4 "File '/repo/src" | grep "File\|Lines\|Branches executed" | paste - - - | sed "s/File '\/repo\/src\///; s/'//"
