#!/usr/bin/env python3
"""seedtest.py [seed-id ...] — apply each seeded change of /verif/seeded to /repo, run the check of the property
it was written for (quick tier), undo it, and record which check caught it (seeded/<id>/detect.json)."""
import json, os, subprocess, sys, time
VERIF = os.path.dirname(os.path.dirname(os.path.abspath(__file__)))
def sh(cmd, **kw):
    return subprocess.run(cmd, shell=True, stdout=subprocess.PIPE, stderr=subprocess.STDOUT, text=True, **kw)
seeds = sys.argv[1:] or sorted(d for d in os.listdir(os.path.join(VERIF, "seeded")) if os.path.isdir(os.path.join(VERIF, "seeded", d)))
st = sh("git -C /repo status --porcelain --untracked-files=no").stdout.strip()
if st:
    print("refusing: /repo has uncommitted changes:\n" + st); sys.exit(2)
for sid in seeds:
    d = os.path.join(VERIF, "seeded", sid)
    pid = sid.split("-")[0]
    props = [pid]
    meta = os.path.join(d, "meta.json")
    if os.path.exists(meta):
        props = json.load(open(meta)).get("checks", [pid])
    r = sh("git -C /repo apply %s/patch.diff" % d)
    if r.returncode != 0:
        print(sid, "PATCH DOES NOT APPLY", r.stdout[:200]); continue
    res = {}
    try:
        for p in props:
            t0 = time.time()
            r = sh("python3 %s/check.py %s --tier quick" % (VERIF, p))
            v = [l for l in r.stdout.splitlines() if l.startswith("VIOLATION")]
            res[p] = {"exit": r.returncode, "violations": v, "wall_s": round(time.time() - t0, 1)}
            for l in v:
                rp = l.split("replay=")[1].split()[0]
                if os.path.exists(rp):
                    keep = os.path.join(d, "replay-" + os.path.basename(rp))
                    open(keep, "w").write(open(rp).read())
    finally:
        sh("git -C /repo checkout -- .")
    json.dump(res, open(os.path.join(d, "detect.json"), "w"), indent=1)
    print(sid, {p: (x["exit"], [v.split("replay=")[1] for v in x["violations"]][:2]) for p, x in res.items()}, flush=True)
