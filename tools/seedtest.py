#!/usr/bin/env python3
"""seedtest.py [seed-id ...] — apply each seeded change of /verif/seeded to /repo, run the check of the property
it was written for (quick tier), undo it, and record which check caught it (seeded/<id>/detect.json)."""
import json, os, subprocess, sys, time
VERIF = os.path.dirname(os.path.dirname(os.path.abspath(__file__)))
def sh(cmd, **kw):
    return subprocess.run(cmd, shell=True, stdout=subprocess.PIPE, stderr=subprocess.STDOUT, text=True, **kw)
seeds = [a for a in sys.argv[1:] if not a.startswith("--")] or sorted(d for d in os.listdir(os.path.join(VERIF, "seeded")) if os.path.exists(os.path.join(VERIF, "seeded", d, "patch.diff")))
inplace = "--inplace" in sys.argv
norefine = "--no-refine" in sys.argv      # T1/T2 only (VERIF_NO_REFINE=1): is there a CONCRETE replay without the T0 obligations?
seeds = [x for x in seeds if not x.startswith("--")]
if inplace:
    st = sh("git -C /repo status --porcelain --untracked-files=no").stdout.strip()
    if st:
        print("refusing: /repo has uncommitted changes:\n" + st); sys.exit(2)
for sid in seeds:
    d = os.path.join(VERIF, "seeded", sid)
    pid = sid.split("-")[0]
    props = [pid]
    env = dict(os.environ)
    if norefine: env["VERIF_NO_REFINE"] = "1"
    if inplace:
        # the way a user would do it: apply to /repo, run the check, undo
        r = sh("git -C /repo apply %s/patch.diff" % d)
        wt = None
    else:
        # default: a scratch worktree outside /repo and /verif, so that other runs against /repo are not disturbed
        wt = "/tmp/seedtest/%s-%d" % (sid, os.getpid())
        sh("mkdir -p /tmp/seedtest; git -C /repo worktree prune; git -C /repo worktree add -q --detach %s HEAD" % wt)
        r = sh("git -C %s apply %s/patch.diff" % (wt, d))
        env["VERIF_REPO"] = wt
    if r.returncode != 0:
        print(sid, "PATCH DOES NOT APPLY", r.stdout[:200])
        if wt: sh("git -C /repo worktree remove --force %s" % wt)
        continue
    res = {}
    try:
        for p in props:
            t0 = time.time()
            r = subprocess.run("python3 %s/check.py %s --tier quick" % (VERIF, p), shell=True, stdout=subprocess.PIPE, stderr=subprocess.STDOUT, text=True, env=env)
            v = [l for l in r.stdout.splitlines() if l.startswith("VIOLATION")]
            res[p] = {"exit": r.returncode, "violations": v, "wall_s": round(time.time() - t0, 1),
                      "t0_obligations": "off (VERIF_NO_REFINE=1: what T1/T2 alone find)" if norefine else "on"}
            for l in v:
                rp = l.split("replay=")[1].split()[0]
                if os.path.exists(rp):
                    keep = os.path.join(d, "replay-" + os.path.basename(rp))
                    open(keep, "w").write(open(rp).read())
    finally:
        if inplace: sh("git -C /repo checkout -- .")
        else: sh("git -C /repo worktree remove --force %s" % wt)
    json.dump(res, open(os.path.join(d, "detect.json"), "w"), indent=1)
    print(sid, {p: (x["exit"], [v.split("replay=")[1] for v in x["violations"]][:2]) for p, x in res.items()}, flush=True)
