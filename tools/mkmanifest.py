#!/usr/bin/env python3
"""mkmanifest.py — writes /verif/MANIFEST.json from the per-property table below."""
import json, os, sys
VERIF = os.path.dirname(os.path.dirname(os.path.abspath(__file__)))
props = [json.loads(l) for l in open(os.path.join(VERIF, "properties.jsonl"))]

COMMON_NOTE = ("Tie T0 (proved): the C source of the whole public API incl. rdsparser_parse_string (over trusted Lean models of strlen/isxdigit/strtol) is translated to Lean on every run (tools/c2lean.py, trusted) and proved to refine the model (lean/RdsProps/Refinement.lean: crun_refines; the property is restated over the record of the translated C, *_source); "
               "a broken refinement lemma about a C function this property's proof rests on is a broken obligation of this check. "
               "Trusted: Lean 4.33 kernel; axioms audited per run to be within {propext, Classical.choice, Quot.sound} (no native_decide/bv_decide/sorry/own axioms); "
               "the statements in lean/RdsSpec (Monitors.lean, Statements.lean) and reference tables (Reference.lean); the tie: tables regenerated from the compiled "
               "current source over complete finite domains (harness/extract.c -> RdsModel/Generated.lean) and differential correspondence of the hand-written model "
               "with the real library (harness/harness.c, ASan+UBSan build of /repo's working tree, vs the compiled Lean model; swept + sampled, not proved). "
               "Modelled rather than verified: C compiler, libc, struct layout, absence of UB.")

C = {}
def claim(pid, text, technique, design, note_extra=""):
    C[pid] = dict(text=text, technique=technique, design=design, note=(note_extra + " " if note_extra else "") + COMMON_NOTE)

claim("C01", "Theorem RDS.C01: for every table configuration, every op list from initialisation and every next call, the predicate chkC01 holds of the model "
      "(getters = last error-free reception in normal mode, by refinement to the abstract machine Mon via the invariant Link). The same predicate is evaluated on the real library's trace; "
      "correspondence on (pi,pty,tp,ta,ms) incl. the exhaustive sweep of all 65 536 block-B values.", "Lean 4 proof: refinement to an abstract reference machine + invariant induction; differential correspondence + trace monitor", "§6 C01")
claim("C02", "Theorem RDS.C02 (every cell of all four texts after any call equals the closed form expectedText/cellSpec; C02_error_free for error-free receptions) for all histories; "
      "charset table theorem over the regenerated table; exhaustive sweep of 256 bytes x every lane x every address x every text-carrying group.", "Lean 4 proof: closed-form refinement of the text handlers + kernel-checked table theorem; correspondence sweep", "§6 C02")
claim("C03", "Theorems RDS.C03_process / C03_trace / C03_uncorrectable: non-interference (same successor state and same event list) for every state, group and replacement of unused blocks, lifted to op lists; C03_process_typed / C03_process' (type-aware reading of 'block B unused', two-sided, error codes of unused blocks free); "
      "on the implementation: twin runs differing only in don't-care blocks compared record by record.", "Lean 4 proof of a 2-safety (non-interference) theorem; twin-run differential testing of the implementation", "§6 C03")
claim("C05", "PARTIAL. Proved: the index arithmetic (every addressed cell index and AF index is in range for every block value, the out-of-range outcome of the model is unreachable in reachable states, stores keep lengths; C05_no_oob_process / C05_af_index_process: an instrumented mirror of process records every cell store and AF bitmap index and none is out of range for any history and any group). "
      "Not provable in a pure model and only exercised: out-of-bounds accesses not explained by index arithmetic, uninitialised reads, UB, libc, allocator — by ASan+UBSan on every run (error codes 0..255, strings of length 0..4096 at exact size, NULL, all threshold values, canaries around caller storage, malloc failure, free(NULL)), MSan/valgrind in the thorough tier.",
      "Lean 4 proof of index-safety lemmas + sanitizer-instrumented fault/exploration runs (partial)", "§6 C05", "PARTIAL: runtime memory safety is sampled by sanitizers, not proved.")
claim("C06", "Theorem RDS.C06 (= closed form cellSpec for every addressed cell, all histories), updateSingle_cellSpec, C06_weight, C06_special_error_free; exhaustive sweep thresholds x progressive x error pairs 0..4 x 256 bytes x 4 prior cell states per text.",
      "Lean 4 proof: closed-form refinement; exhaustive correspondence sweep", "§6 C06")
claim("C07", "Theorem RDS.C07 (chkC07 for all histories: no level of a progressive text increases except on resets of that buffer), C07_cell, C07_error_free_stable; history level: C07_history_text/_rt/_ps/_ptyn, C07_char_replaced_only_by_not_worse, C07_error_free_sticky(_history), C07_converges and C07_converges_string (convergence regardless of interleaved corrected receptions).", "Lean 4 proof: per-step monotonicity from the closed form; correspondence + monitor", "§6 C07")
claim("C08", "Theorem RDS.C08 (expectedText incl. switch-discard and noisy-flag rules, all histories; lastFlag linked to the model by the invariant Link), C08_other_buffer, C08_noisy, C08_first_flag.", "Lean 4 proof: closed-form refinement + history invariant; correspondence + monitor", "§6 C08")
claim("C09", "Theorem RDS.C09 (chkC09 for all histories in which the extended check was in force for every reception since the last reset), C09_worded / C09_worded' / C09_worded_country (own-words reading incl. country, check enabled in any reset state), C09_text_indep_trace (text and clock-time behaviour independent of the mode along whole traces); twin runs for the same on the implementation.",
      "Lean 4 proof: refinement to an abstract reference machine (two-consecutive rule, AF counting); correspondence + monitor + twin runs", "§6 C09")
claim("C10", "Theorem RDS.C10 (AF bitmap = codes counted >= 1 / >= 2 by the abstract machine, all histories), C10_only_valid_codes; exhaustive sweep of all 65 536 block-C values in both modes.", "Lean 4 proof: refinement with counting invariant; exhaustive correspondence sweep", "§6 C10")
claim("C12", "Theorem RDS.C12 (chkC12 for all histories: exactly-one/none, valid Gregorian date, instant identity), civilFromDays_correct for EVERY day number, ctInit_correct/_reject; sweep of all 2^17 MJD values through the public API.",
      "Lean 4 proof: calendar arithmetic (monotonicity + 400-entry kernel-checked table + omega); correspondence sweep + monitor", "§6 C12")
claim("C13", "Theorems RDS.C13_clear_state (state equality with the fresh state, hidden candidates included), C13_continuation, C13 (getter clause, all histories); twin runs pre++clear++post vs fresh+settings++post on the implementation.",
      "Lean 4 proof: state equality + trace corollary; twin-run differential testing", "§6 C13")
claim("C14", "Theorems RDS.C14_accept_iff, C14_decoded, C14_equiv, C14_reject, C14 (all histories); T0: utils_convert_refines / parse_string_refines / C14_source prove that utils.c over a faithful model of strtol (white space, sign, 0x prefix, clamping) IS the strict decoder; malformed stream (every position x every byte value), stateful malformed stream, all 65 536 four-digit blocks, twin runs string vs binary.",
      "Lean 4 proof: characterisation of the decoder + equivalence; exhaustive malformed-input sweep + twin runs", "§6 C14")
claim("C15", "Theorems RDS.C15_state/_observer/_ret/_events/_ud/_run (erasure of the observer table commutes with every step; events = all-listening events filtered by registration), C15 (all histories); twin runs with different observer schedules, incl. callbacks that re-register other callbacks and change the user data from inside the callback.",
      "Lean 4 proof: erasure/commutation (non-interference of observers); twin-run differential testing + monitor", "§6 C15")
claim("C16", "Theorem RDS.C16 (chkC16 after every call of every history) from the invariant WF (wf_run); C16_level_received / C16_available_received (a cell counts as received iff an accepted reception addressed it since the last reset of that text, as a function of the op list alone).", "Lean 4 proof: invariant by induction over operations; correspondence + monitor", "§6 C16")
claim("C17", "Theorem RDS.C17 (settings = last written per key, clamped, all histories), C17_clamp, C17_settings_frame and C17_set*_only (a write changes its own key only and no decoded data); sweep of every key x all 256 values.", "Lean 4 proof: refinement to the abstract settings record; exhaustive setter sweep", "§6 C17")
claim("C19", "PARTIAL. Proved on the multi-instance model: C19_isolation (any interleaving = each instance's own subsequence), C19_other_slots, C19_select, C19_cur. The content of C19 for the implementation (no state outside the struct, no data race) cannot be exhibited by a pure model: "
      "exercised by interleaved-vs-solo twin runs, the writable-segment immutability check and gcc TSan (thorough).", "Lean 4 proof of isolation on the multi-instance model + twin runs, segment diff, TSan (partial)", "§6 C19", "PARTIAL: thread schedules and hidden global state are sampled, not proved.")

claim("C04", "Theorems RDS.C04 (chkC04 for all histories: per registered callback, invocation count = 1 iff that field's getter result changed, RT additionally on a switch discard, AF = exactly the newly listed codes as 87500+100*code, at most two; every event shows its own field at its final value) and RDS.C04_redeliver (immediate re-delivery in normal mode notifies nothing but clock time and changes no getter).",
      "Lean 4 proof: per-handler event/change characterisation composed over process; correspondence + monitor (incl. getter values sampled inside callbacks)", "§6 C04")
claim("C11", "Theorems RDS.C11 / C11_generated (ECC and country follow the abstract fields fed only by 1A variant 0 with error-free B and C; country always a valid enumerator, all histories) and the table theorems C11_table (= IEC 62106-4 reference on all 17x256 cells), C11_unknown, C11_range, eccOk over the table regenerated from the compiled library; C11_frame (no other call changes ECC or country, any state).",
      "Lean 4 proof: refinement + kernel-checked table theorem over the regenerated table (T1); sweep 17 PI classes x 256 ECC x 8 variants x 2 versions", "§6 C11")
claim("C18", "Kernel-checked theorems over the complete input/output graph of the five lookup functions read out of the compiled library (all 256 arguments each): C18_pty, C18_pty_width, C18_country_name, C18_country_iso, C18_iso_two_letters, C18_iso_distinct against the hand-written PTY / ISO 3166-1 reference. Exhaustive: the domain is finite and fully enumerated on every run (ASan build: non-NULL, NUL-terminated; every returned pointer is kept and re-read after all other lookups: constant strings).",
      "Lean 4 kernel-checked table theorems over exhaustively extracted lookup graphs (T1)", "§6 C18")
claim("C20", "PARTIAL + KNOWN FINDING. Proved: every history theorem for both charset instantiations (*_generated), the narrow build's character rule read out of the real build (C20_narrow_table/_is_conv), equal constants/tables across builds (C20_consts), C20_ascii / C20_ascii_step / C20_ascii' (on histories presenting no error-free byte >= 0x7F the narrow state seen through the character embedding IS the wide state, same results and callbacks) and C20_nontext / C20_nontext_step (for ALL histories everything but text characters/levels, incl. which cells are received, and all non-text callbacks are identical), both also instantiated for the regenerated table. "
      "C20_full_false: the full statement (every level and callback identical) is FALSE of the code and of the model — recorded in known_findings.json by its witness. On every run the four real builds are compared with their own instantiation and with each other; any build-specific divergence other than the known finding is a violation.",
      "Lean 4 proof (generic-in-configuration theorems, simulation between the two charset instantiations, kernel-checked counter-example) + cross-build differential testing of the four real builds", "§6 C20", "PARTIAL: the full statement is refuted (known finding C20-same-data-on-converted-chars); the no-heap build and cross-build identity are tested, not proved.")

PENDING = {}

def main():
    checks = []
    na = []
    for p in props:
        pid = p["id"]
        have = os.path.exists(os.path.join(VERIF, "lean", "RdsProps", pid + ".lean"))
        if pid in C and have:
            c = C[pid]
            checks.append({
                "property_id": pid,
                "quick_cmd": "python3 check.py %s --tier quick" % pid,
                "thorough_cmd": "python3 check.py %s --tier thorough" % pid,
                "evidence_file": "evidence/%s.json" % pid,
                "replay_cmd_template": "python3 check.py %s --replay {path}" % pid,
                "engine": "lean-model",
                "level_claimed": {"category": "proof", "text": c["text"], "design_ref": c["design"]},
                "level_note": c["note"],
                "technique": c["technique"],
            })
        else:
            na.append({"property_id": pid, "reason": PENDING.get(pid, "not yet registered")})
    m = {
        "version": 1,
        "setup_cmd": "python3 check.py --setup",
        "hooks": {
            "guard": "RDSPARSER_VERIF",
            "enable": "-DRDSPARSER_VERIF is passed to every harness/extractor build (tools/infra.py); no hook is currently needed: all observation is through the public API",
            "baseline_off_cmd": "cmake -S /repo -B /repo/_build -G Ninja && cmake --build /repo/_build && ctest --test-dir /repo/_build -j8 --timeout 900",
            "source_commits": [],
            "add_only": True,
        },
        "engines": [{"name": "lean-model", "path": "lean/", "serves_properties": [c["property_id"] for c in checks],
                     "kind_free_text": "Lean 4 model + theorems (lean/RdsModel, RdsSpec, RdsProofs, RdsProps), C-to-Lean translator tools/c2lean.py + refinement proofs (lean/RdsC, RdsProofs/Trans*), native driver rdsmodel, C harness (harness/), orchestrator check.py"}],
        "checks": checks,
        "not_applicable": na,
        "notes": "See DESIGN.md. Fix commits in /repo and known findings are listed in known_findings.json.",
    }
    json.dump(m, open(os.path.join(VERIF, "MANIFEST.json"), "w"), indent=1)
    print("checks:", [c["property_id"] for c in checks], "not claimed:", [x["property_id"] for x in na])

if __name__ == "__main__":
    main()
