"""infra.py — build, extraction, Lean build, audit and correspondence plumbing for check.py.

Everything is rebuilt from the repository working tree named by VERIF_REPO (default /repo);
build products live under /verif/.work (nothing under /tmp). Shared build steps are
serialised with flock so that concurrently launched checks share one build.
"""
import fcntl, glob, hashlib, json, os, re, shutil, subprocess, sys, time

VERIF = os.path.dirname(os.path.dirname(os.path.abspath(__file__)))
REPO = os.environ.get("VERIF_REPO", "/repo")
WORK = os.path.join(VERIF, ".work")
LEAN = os.path.join(VERIF, "lean")
HARNESS = os.path.join(VERIF, "harness")
GUARD = "RDSPARSER_VERIF"

CONFIGS = {
    "u": [],
    "n": ["-DRDSPARSER_DISABLE_UNICODE"],
    "uh": ["-DRDSPARSER_DISABLE_HEAP"],
    "nh": ["-DRDSPARSER_DISABLE_UNICODE", "-DRDSPARSER_DISABLE_HEAP"],
}
SAN = ["-O1", "-g", "-fsanitize=address,undefined", "-fsanitize=bounds-strict", "-fno-sanitize-recover=all", "-fno-omit-frame-pointer"]

class BuildError(Exception):
    pass

def log(*a):
    print("[check]", *a, file=sys.stderr, flush=True)

class Lock:
    def __init__(self, name):
        os.makedirs(WORK, exist_ok=True)
        self.path = os.path.join(WORK, name + ".lock")
    def __enter__(self):
        self.f = open(self.path, "w")
        fcntl.flock(self.f, fcntl.LOCK_EX)
        return self
    def __exit__(self, *a):
        fcntl.flock(self.f, fcntl.LOCK_UN)
        self.f.close()

def repo_sources():
    return sorted(glob.glob(os.path.join(REPO, "src", "*.c")))

def tree_hash():
    h = hashlib.sha256()
    files = sorted(glob.glob(os.path.join(REPO, "src", "*")) + glob.glob(os.path.join(REPO, "include", "*")))
    files += sorted(glob.glob(os.path.join(HARNESS, "*")))
    for f in files:
        if os.path.isfile(f):
            h.update(os.path.relpath(f, "/").encode())
            h.update(b"\0")
            h.update(open(f, "rb").read())
            h.update(b"\0")
    return h.hexdigest()[:20]

def run(cmd, **kw):
    return subprocess.run(cmd, stdout=subprocess.PIPE, stderr=subprocess.PIPE, text=True, **kw)

def build_dir():
    d = os.path.join(WORK, "build", tree_hash())
    return d

def gc_builds(keep):
    root = os.path.join(WORK, "build")
    if not os.path.isdir(root):
        return
    ents = sorted((os.path.getmtime(os.path.join(root, e)), e) for e in os.listdir(root))
    for _, e in ents[:-6]:
        if os.path.join(root, e) != keep:
            shutil.rmtree(os.path.join(root, e), ignore_errors=True)

def build_binary(cfg, kind):
    """kind: harness | extract | plain (uninstrumented harness for valgrind) | tsan | msan | so.
    Returns the path of the binary built from the current working tree."""
    d = build_dir()
    out = os.path.join(d, f"{kind}_{cfg}")
    if os.path.exists(out):
        return out
    with Lock("build"):
        if os.path.exists(out):
            return out
        os.makedirs(d, exist_ok=True)
        flags = [f"-D{GUARD}"] + CONFIGS[cfg] + [f"-I{REPO}/include"]
        srcs = repo_sources()
        tmp = out + ".tmp%d" % os.getpid()
        if kind == "harness":
            cmd = ["gcc"] + SAN + flags + srcs + [f"{HARNESS}/harness.c", f"{HARNESS}/wrapmalloc.c", "-Wl,--wrap=malloc", "-o", tmp]
        elif kind == "extract":
            cmd = ["gcc"] + SAN + flags + srcs + [f"{HARNESS}/extract.c", "-o", tmp]
        elif kind == "extractseg":
            # library as a shared object + the extractor's lookup sweep with the writable-segment comparison (C18)
            so = os.path.join(d, f"librds_{cfg}.so")
            if not os.path.exists(so):
                r = run(["gcc", "-O1", "-g", "-fPIC", "-shared", "-Wl,-z,relro,-z,now"] + flags + srcs + ["-o", so])
                if r.returncode != 0:
                    raise BuildError("shared library build failed:\n" + r.stderr[-3000:])
            cmd = ["gcc", "-O1", "-g", "-DSEGCHECK", "-D_GNU_SOURCE", f"-I{HARNESS}"] + flags + [f"{HARNESS}/extract.c", so, "-ldl", f"-Wl,-rpath,{d}", "-o", tmp]
        elif kind == "extractplain":
            cmd = ["gcc", "-O1", "-g"] + flags + srcs + [f"{HARNESS}/extract.c", "-o", tmp]
        elif kind == "plain":
            cmd = ["gcc", "-O1", "-g"] + flags + srcs + [f"{HARNESS}/harness.c", f"{HARNESS}/wrapmalloc.c", "-Wl,--wrap=malloc", "-o", tmp]
        elif kind == "msan":
            cmd = ["clang", "-O1", "-g", "-fsanitize=memory", "-fno-omit-frame-pointer"] + flags + srcs + [f"{HARNESS}/harness.c", f"{HARNESS}/wrapmalloc.c", "-Wl,--wrap=malloc", "-o", tmp]
        elif kind == "tsan":
            # gcc, not clang: clang-14's TSan missed a seeded race on a static buffer (DESIGN.md App. A)
            cmd = ["gcc", "-O1", "-g", "-fsanitize=thread"] + flags + [f"-I{HARNESS}"] + srcs + [f"{HARNESS}/threads.c", "-lpthread", "-o", tmp]
        elif kind == "seg":
            # library as a shared object (-z relro -z now) + the same harness with the segment check
            so = os.path.join(d, f"librds_{cfg}.so")
            r = run(["gcc", "-O1", "-g", "-fPIC", "-shared", "-Wl,-z,relro,-z,now"] + flags + srcs + ["-o", so])
            if r.returncode != 0:
                raise BuildError("shared library build failed:\n" + r.stderr[-3000:])
            cmd = ["gcc", "-O1", "-g", "-DSEGCHECK", "-D_GNU_SOURCE", f"-I{HARNESS}"] + flags + [f"{HARNESS}/harness.c", so, "-ldl", f"-Wl,-rpath,{d}", "-o", tmp]
        else:
            raise ValueError(kind)
        r = run(cmd)
        if r.returncode != 0:
            raise BuildError(f"build of {kind}_{cfg} failed:\n" + r.stderr[-3000:])
        os.replace(tmp, out)
        gc_builds(d)
    return out

# ---------------------------------------------------------------------------------------
# T1: extraction -> Generated.lean
# ---------------------------------------------------------------------------------------
EXTRACT_NOTE = {}
LAST_DUMPS = {}

def extraction(full=False, allow_plain=False):
    """Runs the extractor of both charset builds and rewrites RdsModel/Generated.lean if its
    content changed. Returns (dump_u, dump_n, changed).
    allow_plain: when the ASan+UBSan extractor aborts (undefined behaviour on some table argument: that is C05's
    business, and C05 calls this without allow_plain), checks of other properties read the tables out of an
    uninstrumented build instead, so that they judge their own property and not C05's; EXTRACT_NOTE records it."""
    sys.path.insert(0, os.path.join(VERIF, "tools"))
    import genlean
    outs = {}
    EXTRACT_NOTE.clear()
    for cfg in ("u", "n"):
        exe = build_binary(cfg, "extract")
        r = run([exe] + (["--full"] if full else []))
        if r.returncode != 0:
            msg = f"extractor ({cfg}) failed with exit {r.returncode}:\n" + (r.stderr[-3000:] or r.stdout[-500:])
            san = ("runtime error" in msg or "Sanitizer" in msg)
            if not (allow_plain and san):
                raise BuildError(msg)
            exe = build_binary(cfg, "extractplain")
            r = run([exe] + (["--full"] if full else []))
            if r.returncode != 0:
                raise BuildError(msg + f"\n(uninstrumented extractor also failed with exit {r.returncode})")
            EXTRACT_NOTE[cfg] = "sanitizer abort in the instrumented extractor; tables read from the uninstrumented build: " + msg[-400:].replace("\n", " | ")
        outs[cfg] = r.stdout
    du = genlean.parse_dump(outs["u"])
    dn = genlean.parse_dump(outs["n"])
    LAST_DUMPS["u"], LAST_DUMPS["n"] = du, dn
    text = genlean.render(du, dn)
    path = os.path.join(LEAN, "RdsModel", "Generated.lean")
    with Lock("lake"):
        old = open(path).read() if os.path.exists(path) else None
        changed = old != text
        if changed:
            with open(path + ".tmp", "w") as f:
                f.write(text)
            os.replace(path + ".tmp", path)
    return du, dn, changed

# ---------------------------------------------------------------------------------------
# T0: translation of the C source -> RdsC/Translated.lean
# ---------------------------------------------------------------------------------------
def translation():
    """Runs tools/c2lean.py on the current tree and rewrites lean/RdsC/Translated.lean if its content changed.
    Returns (text or None, changed, message). The translator is deterministic; it never raises on a C change it does
    not understand (such functions are listed as untranslated in the generated file)."""
    out = os.path.join(WORK, "translated-%d.lean" % os.getpid())
    os.makedirs(WORK, exist_ok=True)
    r = run([sys.executable, os.path.join(VERIF, "tools", "c2lean.py"), "--repo", REPO, "--out", out])
    if r.returncode != 0 or not os.path.exists(out):
        return None, False, "c2lean failed: " + (r.stderr or r.stdout)[-1500:]
    text = open(out).read()
    os.unlink(out)
    path = os.path.join(LEAN, "RdsC", "Translated.lean")
    with Lock("lake"):
        old = open(path).read() if os.path.exists(path) else None
        changed = old != text
        if changed:
            with open(path + ".tmp", "w") as f:
                f.write(text)
            os.replace(path + ".tmp", path)
    return text, changed, (r.stdout or "").strip()[-300:]

# ---------------------------------------------------------------------------------------
# Lean
# ---------------------------------------------------------------------------------------
def lake_build(targets, timeout=3000, locked=False):
    """lake build of the given targets under the lock (unless the caller already holds it); returns (ok, output, seconds)."""
    def go():
        t0 = time.time()
        r = subprocess.run(["lake", "build"] + targets, cwd=LEAN, stdout=subprocess.PIPE, stderr=subprocess.STDOUT, text=True, timeout=timeout)
        return r.returncode == 0, r.stdout, time.time() - t0
    if locked:
        return go()
    with Lock("lake"):
        return go()

RDSMODEL_COPY = None   # set by a check to its private copy of the driver (taken inside the lake critical section)

def rdsmodel():
    if RDSMODEL_COPY and os.path.exists(RDSMODEL_COPY):
        return RDSMODEL_COPY
    return os.path.join(LEAN, ".lake", "build", "bin", "rdsmodel")

def pin_rdsmodel(workdir):
    """copy the freshly built driver so that a concurrently running check of another tree cannot swap it"""
    global RDSMODEL_COPY
    src = os.path.join(LEAN, ".lake", "build", "bin", "rdsmodel")
    if os.path.exists(src):
        os.makedirs(workdir, exist_ok=True)
        dst = os.path.join(workdir, "rdsmodel")
        shutil.copy2(src, dst)
        RDSMODEL_COPY = dst

FORBIDDEN = re.compile(r"\bsorry\b|\badmit\b|^\s*axiom\s|native_decide|bv_decide|implemented_by|\bunsafe\s|maxHeartbeats\s+0|ofReduceBool")

def strip_comments(src):
    # remove /- ... -/ (nested) and -- ... comments; keep string literals crude but safe enough
    out = []
    i = 0
    depth = 0
    n = len(src)
    while i < n:
        if src.startswith("/-", i):
            depth += 1; i += 2; continue
        if depth and src.startswith("-/", i):
            depth -= 1; i += 2; continue
        if depth:
            if src[i] == "\n": out.append("\n")
            i += 1; continue
        if src.startswith("--", i):
            while i < n and src[i] != "\n": i += 1
            continue
        out.append(src[i]); i += 1
    return "".join(out)

def audit_sources():
    """grep of all .lean sources (comments stripped) for forbidden constructs"""
    hits = []
    for path in sorted(glob.glob(os.path.join(LEAN, "**", "*.lean"), recursive=True)):
        if "/.lake/" in path:
            continue
        body = strip_comments(open(path).read())
        for ln, line in enumerate(body.split("\n"), 1):
            if FORBIDDEN.search(line):
                hits.append(f"{os.path.relpath(path, LEAN)}:{ln}: {line.strip()[:120]}")
    return hits

ALLOWED_AXIOMS = {"propext", "Classical.choice", "Quot.sound"}

def print_axioms(module, theorems):
    """#print axioms for each theorem; returns {thm: [axioms]} or raises"""
    os.makedirs(os.path.join(WORK, "axioms"), exist_ok=True)
    f = os.path.join(WORK, "axioms", f"ax_{module.replace('.', '_')}_{os.getpid()}.lean")
    with open(f, "w") as fh:
        fh.write(f"import {module}\n")
        for t in theorems:
            fh.write(f"#print axioms {t}\n")
    r = subprocess.run(["lake", "env", "lean", f], cwd=LEAN, stdout=subprocess.PIPE, stderr=subprocess.STDOUT, text=True)
    os.unlink(f)
    res = {}
    out = r.stdout
    # outputs: "'X' depends on axioms: [a, b]" or "'X' does not depend on any axioms"
    for m in re.finditer(r"'(\S+)' depends on axioms: \[([^\]]*)\]", out.replace("\n", " ")):
        res[m.group(1)] = [a.strip() for a in m.group(2).split(",") if a.strip()]
    for m in re.finditer(r"'(\S+)' does not depend on any axioms", out):
        res[m.group(1)] = []
    return res, out, r.returncode

# ---------------------------------------------------------------------------------------
# running the harness and the driver
# ---------------------------------------------------------------------------------------
def run_harness(cfg, ops_path, trace_path, kind="harness", timeout=None, wrapper=None):
    exe = build_binary(cfg, kind)
    if timeout is None:
        # "every call returns" (C05): the instrumented harness does >= 20 000 ops/s; a run that takes 50x longer than that is hung
        try: nops = sum(1 for _ in open(ops_path))
        except OSError: nops = 0
        timeout = (60 + nops // 400) * (10 if wrapper else 1)
    env = dict(os.environ)
    env["ASAN_OPTIONS"] = "detect_leaks=1:abort_on_error=0:halt_on_error=1"
    env["UBSAN_OPTIONS"] = "print_stacktrace=1:halt_on_error=1"
    cmd = (wrapper or []) + [exe, ops_path]
    with open(trace_path, "w") as out:
        try:
            r = subprocess.run(cmd, stdout=out, stderr=subprocess.PIPE, text=True, env=env, timeout=timeout)
        except subprocess.TimeoutExpired:
            return -999, "timeout: a call did not return within the watchdog limit"
    return r.returncode, r.stderr

def run_check(cfg, ops_path, trace_path, timeout=3000):
    r = subprocess.run([rdsmodel(), "check", cfg[0], ops_path, trace_path], stdout=subprocess.PIPE, stderr=subprocess.PIPE, text=True, timeout=timeout)
    return r.returncode, r.stdout, r.stderr

def run_model(cfg, ops_path, out_path):
    with open(out_path, "w") as out:
        r = subprocess.run([rdsmodel(), "run", cfg[0], ops_path], stdout=out, stderr=subprocess.PIPE, text=True)
    return r.returncode, r.stderr

def parse_report(text):
    rep = {"div": [], "mon": [], "err": [], "x": [], "stat": {}}
    for line in text.splitlines():
        if line.startswith("DIV "):
            p = line.split(" ", 4)
            rep["div"].append({"op": int(p[1]), "inst": int(p[2]), "comp": p[3], "detail": p[4] if len(p) > 4 else ""})
        elif line.startswith("MON "):
            p = line.split(" ")
            rep["mon"].append({"prop": p[1], "op": int(p[2]), "inst": int(p[3])})
        elif line.startswith("ERR "):
            rep["err"].append(line)
        elif line.startswith("XLINE "):
            rep["x"].append(line)
        elif line.startswith("STAT "):
            body = line[5:]
            m = re.search(r"evhist=\[([^\]]*)\]", body)
            if m:
                rep["stat"]["evhist"] = [int(x) for x in m.group(1).replace(" ", "").split(",") if x]
                body = body[:m.start()]
            for kv in body.split(" "):
                if "=" in kv:
                    k, v = kv.split("=", 1)
                    rep["stat"][k] = v
    return rep
