#!/usr/bin/env python3
"""rewrites.py — behaviour-preserving rewrites of the library (seeded/rewrites/*.diff) must raise NO alarm:
scratch worktree outside /repo and /verif, apply, run every registered quick check via VERIF_REPO."""
import json, os, subprocess, sys, time
VERIF = os.path.dirname(os.path.dirname(os.path.abspath(__file__)))
def sh(cmd, env=None): return subprocess.run(cmd, shell=True, stdout=subprocess.PIPE, stderr=subprocess.STDOUT, text=True, env=env)
props = [c["property_id"] for c in json.load(open(os.path.join(VERIF, "MANIFEST.json")))["checks"]]
out = {}
only = [a for a in sys.argv[1:] if not a.startswith("--")]      # optional file-name prefixes, e.g. "S" or "R1"
resname = "RESULT%s.json" % ("-" + "-".join(only) if only else "")
for f in sorted(os.listdir(os.path.join(VERIF, "seeded", "rewrites"))):
    if not f.endswith(".diff"): continue
    if only and not any(f.startswith(o) for o in only): continue
    wt = "/tmp/rewrites/%s-%d" % (f[:-5], os.getpid())
    sh("mkdir -p /tmp/rewrites; git -C /repo worktree prune; git -C /repo worktree add -q --detach %s HEAD" % wt)
    try:
        r = sh("git -C %s apply %s/seeded/rewrites/%s" % (wt, VERIF, f))
        if r.returncode: print(f, "does not apply", r.stdout); continue
        env = dict(os.environ); env["VERIF_REPO"] = wt
        alarms = []
        for p in props:
            r = sh("python3 %s/check.py %s --tier quick" % (VERIF, p), env=env)
            if r.returncode != 0: alarms.append((p, [l for l in r.stdout.splitlines() if l.startswith("VIOLATION")][:1]))
        out[f] = alarms
        print(f, "ALARMS:" if alarms else "no alarm", alarms, flush=True)
    finally:
        sh("git -C /repo worktree remove --force %s" % wt)
    json.dump(out, open(os.path.join(VERIF, "seeded", "rewrites", resname), "w"), indent=1)
