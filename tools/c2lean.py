#!/usr/bin/env python3
"""c2lean -- translate librdsparser's C control logic into pure Lean 4 (see tools/C2LEAN_SPEC.md).

Usage: python3 tools/c2lean.py [--repo /repo] [--out lean/RdsC/Translated.lean]
       (positional form `c2lean.py /repo lean/RdsC/Translated.lean` is accepted as well)

The translator is trusted: it *is* the semantics given to the C subset.  Anything it does not
understand makes the enclosing function `untranslated` (with the reason); it never guesses.
"""
import argparse
import json
import os
import re
import subprocess
import sys

FILES = ['group.c', 'group0.c', 'group1.c', 'group2.c', 'group4.c', 'group10.c', 'parser.c',
         'buffer.c', 'af.c', 'ct.c', 'string.c', 'rdsparser.c', 'ecc.c', 'utils.c']
SKIPPED_FILES = ['pty.c', 'country.c']
DUAL_FILES = ['string.c']          # translated for both charset configurations
PRIMS = ['rdsparser_string_get_size', 'rdsparser_string_get_content',
         'rdsparser_string_get_errors', 'rdsparser_string_init']
BY_DESIGN = {
    'rdsparser_new': 'by design: allocator',
    'rdsparser_free': 'by design: allocator',
    'rdsparser_string_get_size': 'by design: packed string layout primitive',
    'rdsparser_string_get_content': 'by design: packed string layout primitive',
    'rdsparser_string_get_errors': 'by design: packed string layout primitive',
    'rdsparser_string_init': 'by design: packed string layout primitive',
}
STR_T = 'rdsparser_string_t'
LEAN_RESERVED = set('''abbrev at axiom by class def deriving do else end example export extends
 fun from have if import in infix inductive instance let local macro match mutual namespace
 notation open prefix private protected section show structure syntax then theorem universe
 variable where with log unicode acc Type Prop Sort'''.split())


class Unsupported(Exception):
    pass


# ----------------------------------------------------------------------------------------------
# loading a translation unit

def run_clang(repo, fname, defines):
    src = os.path.join(repo, 'src', fname)
    last = None
    for cc in ('clang-14', 'clang'):
        try:
            p = subprocess.run([cc, '-I' + os.path.join(repo, 'include')] + defines +
                               ['-Xclang', '-ast-dump=json', '-fsyntax-only', src],
                               stdout=subprocess.PIPE, stderr=subprocess.PIPE)
        except OSError as e:
            last = str(e)
            continue
        if p.returncode != 0:
            raise RuntimeError('clang failed on %s: %s' % (fname, p.stderr.decode()[:400]))
        return json.loads(p.stdout.decode())
    raise RuntimeError('no clang: %s' % last)


def annotate_locs(root):
    """clang prints `file`/`line` of a location only when they differ from the previously printed
    location; replay that state (document order) and store `_file`/`_line` in every bare location."""
    state = {'file': None, 'line': None}
    stack = [root]
    # iterative pre-order traversal that respects key order
    def walk(x):
        todo = [x]
        while todo:
            y = todo.pop()
            if isinstance(y, dict):
                if 'offset' in y:
                    if 'file' in y:
                        state['file'] = y['file']
                    if 'line' in y:
                        state['line'] = y['line']
                    y['_file'] = state['file']
                    y['_line'] = state['line']
                vals = [v for k, v in y.items() if isinstance(v, (dict, list)) and k != 'includedFrom']
                todo.extend(reversed(vals))
            elif isinstance(y, list):
                todo.extend(reversed(y))
    walk(root)


def node_loc(n):
    loc = n.get('loc', {})
    if 'expansionLoc' in loc:
        loc = loc['expansionLoc']
    if '_file' not in loc:
        rng = n.get('range', {}).get('begin', {})
        if 'expansionLoc' in rng:
            rng = rng['expansionLoc']
        return rng.get('_file'), rng.get('_line')
    return loc.get('_file'), loc.get('_line')


def inner(n):
    return n.get('inner', [])


class TU:
    """one parsed translation unit: typedefs, enums, records, functions with bodies, tables"""

    def __init__(self, repo, fname, defines):
        self.fname = fname
        self.path = os.path.join(repo, 'src', fname)
        ast = run_clang(repo, fname, defines)
        annotate_locs(ast)
        self.typedefs = {}
        self.enum_consts = {}       # enumerator -> value
        self.enum_under = {}        # enum tag -> 'u32' | 'i32'
        self.records = {}           # struct tag -> [(field, type string)]
        self.record_order = []
        self.functions = []         # FunctionDecl nodes with a body located in the main file
        self.all_function_names = []
        self.globals = {}           # name -> VarDecl node (file scope, main file, with initialiser)
        self.global_order = []
        for n in inner(ast):
            k = n.get('kind')
            if k == 'TypedefDecl':
                self.typedefs[n['name']] = n['type']['qualType']
            elif k == 'EnumDecl':
                self._enum(n)
            elif k == 'RecordDecl':
                self._record(n)
            elif k == 'FunctionDecl':
                if any(c.get('kind') == 'CompoundStmt' for c in inner(n)):
                    f, _ = node_loc(n)
                    if f == self.path:
                        self.functions.append(n)
                        self.all_function_names.append(n['name'])
            elif k == 'VarDecl':
                f, _ = node_loc(n)
                if f == self.path and 'init' in n:
                    self.globals[n['name']] = n
                    self.global_order.append(n['name'])

    def _enum(self, n):
        val = -1
        vals = []
        for c in inner(n):
            if c.get('kind') != 'EnumConstantDecl':
                continue
            v = None
            for e in inner(c):
                v = const_value(e)
            val = val + 1 if v is None else v
            self.enum_consts[c['name']] = val
            vals.append(val)
        if 'name' in n:
            self.enum_under[n['name']] = 'i32' if any(v < 0 for v in vals) else 'u32'

    def _record(self, n):
        if 'name' not in n or not n.get('completeDefinition'):
            return
        fields = [(c['name'], c['type']['qualType']) for c in inner(n) if c.get('kind') == 'FieldDecl']
        if n['name'] not in self.records:
            self.record_order.append(n['name'])
        self.records[n['name']] = fields


def const_value(e, enums=None):
    """value of a constant expression node if clang printed it, else None"""
    k = e.get('kind')
    if k == 'DeclRefExpr' and enums is not None and e['referencedDecl'].get('kind') == 'EnumConstantDecl':
        return enums.get(e['referencedDecl'].get('name'))
    if k in ('ConstantExpr', 'IntegerLiteral') and 'value' in e:
        return int(e['value'])
    if k == 'CharacterLiteral':
        return int(e['value'])
    if k in ('ConstantExpr', 'ParenExpr', 'ImplicitCastExpr') and inner(e):
        return const_value(inner(e)[0], enums)
    if k == 'UnaryOperator' and e.get('opcode') == '-' and inner(e):
        v = const_value(inner(e)[0], enums)
        return None if v is None else -v
    return None


# ----------------------------------------------------------------------------------------------
# C types.  Tagged tuples:
#   ('int', kind)  kind in u8 i8 u16 i16 u32 i32 u64 i64 bool      ('enum', tag)
#   ('struct', tag)   ('str',) element of a packed string   ('cstr',) a packed string object
#   ('cstring',) a NUL-terminated C string seen through a `char *` (the bytes from the pointer up to the NUL)
#   ('void',)   ('fnptr',)   ('ptr', T, const?)   ('arr', T, n|None)   ('fn',)

RANGE = {'u8': (0, 2**8 - 1), 'i8': (-2**7, 2**7 - 1), 'u16': (0, 2**16 - 1), 'i16': (-2**15, 2**15 - 1),
         'u32': (0, 2**32 - 1), 'i32': (-2**31, 2**31 - 1), 'u64': (0, 2**64 - 1),
         'i64': (-2**63, 2**63 - 1), 'bool': (0, 1)}
BUILTIN = {'char': 'i8', 'signed char': 'i8', 'unsigned char': 'u8', 'short': 'i16',
           'unsigned short': 'u16', 'int': 'i32', 'unsigned int': 'u32', 'long': 'i64',
           'unsigned long': 'u64', 'long long': 'i64', 'unsigned long long': 'u64',
           '_Bool': 'bool', 'bool': 'bool'}


def wrap_value(kind, v):
    lo, hi = RANGE[kind]
    if kind == 'bool':
        return 1 if v != 0 else 0
    m = hi - lo + 1
    return (v - lo) % m + lo


class Types:
    def __init__(self, tu):
        self.tu = tu
        self.cache = {}

    def parse(self, s):
        s = s.strip()
        if s not in self.cache:
            self.cache[s] = self._parse(s)
        return self.cache[s]

    def _parse(self, s):
        m = re.match(r'^(.*?)\(\*(?:\s*const)?\)\s*((?:\[\d+\])+)$', s)
        if m:                                   # pointer to array
            return ('ptr', self.parse(m.group(1) + m.group(2)), 'const' in m.group(1).split())
        if '(*' in s:
            return ('fnptr',)
        if s.endswith(')'):
            return ('fn',)
        m = re.match(r'^(.*?)((?:\[\d*\])+)$', s)
        if m:
            t = self.parse(m.group(1))
            dims = re.findall(r'\[(\d*)\]', m.group(2))
            for d in reversed(dims):
                t = ('arr', t, int(d) if d else None)
            return t
        m = re.match(r'^([^\[\]]*?)\[([^\[\]]*[A-Za-z_][^\[\]]*)\]$', s)
        if m:                                   # variably-modified array type: size unknown here
            return ('arr', self.parse(m.group(1)), None)
        t = re.sub(r'\s*\b(const|volatile|restrict)$', '', s).strip()
        if t.endswith('*'):
            pointee = t[:-1].strip()
            if '*' in pointee:
                cq = pointee.endswith('const')
            else:
                cq = 'const' in pointee.split()
            return ('ptr', self.parse(pointee), cq)
        toks = [x for x in t.split() if x not in ('const', 'volatile', 'restrict')]
        name = ' '.join(toks)
        if name in BUILTIN:
            return ('int', BUILTIN[name])
        if name == 'void':
            return ('void',)
        if name.startswith('struct '):
            return ('struct', name[7:])
        if name.startswith('enum '):
            return ('enum', name[5:])
        if name == STR_T:
            return ('str',)
        if name in self.tu.typedefs:
            return self.parse(self.tu.typedefs[name])
        raise Unsupported('unknown type %r' % s)

    def of(self, node):
        return self.parse(node['type']['qualType'])

    def kind(self, t):
        """scalar kind of an integer-like type, or None"""
        if t[0] == 'int':
            return t[1]
        if t[0] == 'enum':
            return self.tu.enum_under.get(t[1], 'u32')
        return None

    def obj(self, t):
        """the Lean-side object type: packed strings collapse to ('cstr',)"""
        if t[0] == 'arr':
            if t[1][0] == 'str':
                return ('cstr',)
            return ('arr', self.obj(t[1]), t[2])
        return t


def is_scalar(t):
    return t[0] in ('int', 'enum', 'fnptr') or (t[0] == 'ptr' and t[1][0] in ('void', 'fn'))


def lean_type(t):
    if is_scalar(t):
        return 'Int'
    if t[0] == 'struct':
        return 'C_' + t[1]
    if t[0] == 'cstr':
        return 'CStr'
    if t[0] == 'cstring':
        return 'List Int'
    if t[0] == 'arr':
        e = lean_type(t[1])
        return 'List ' + (e if ' ' not in e else '(' + e + ')')
    raise Unsupported('no Lean type for %r' % (t,))


def default_of(t):
    if is_scalar(t):
        return '0'
    if t[0] == 'struct':
        return 'C_' + t[1] + '.zero'
    if t[0] == 'cstr':
        return 'CStr.empty'
    if t[0] in ('arr', 'cstring'):
        return '[]'
    raise Unsupported('no default for %r' % (t,))


def lname(name):
    return name + '_' if name in LEAN_RESERVED else name


# ----------------------------------------------------------------------------------------------
# AST helpers and the interprocedural pre-pass

CAST_KINDS = ('ImplicitCastExpr', 'CStyleCastExpr', 'ParenExpr', 'ConstantExpr')


def strip(n):
    while n.get('kind') in CAST_KINDS and inner(n):
        n = inner(n)[0]
    return n


def callee_of(call):
    """('fn', name) for a direct call, ('cb', field, base node) for a call through a function
    pointer member, else ('?',)"""
    c = strip(inner(call)[0])
    if c.get('kind') == 'DeclRefExpr' and c['referencedDecl'].get('kind') == 'FunctionDecl':
        return ('fn', c['referencedDecl']['name'])
    if c.get('kind') == 'MemberExpr':
        return ('cb', c['name'], c)
    return ('?',)


def contains_kind(n, kinds):
    if isinstance(n, dict):
        if n.get('kind') in kinds:
            return True
        return any(contains_kind(c, kinds) for c in inner(n))
    return False


def alias_target(vardecl):
    """if a local pointer is initialised from rdsparser_string_get_content/_errors(s): (s-expr, field)"""
    if not inner(vardecl):
        return None
    init = strip(inner(vardecl)[-1])
    if init.get('kind') == 'CallExpr':
        c = callee_of(init)
        if c[0] == 'fn' and c[1] in ('rdsparser_string_get_content', 'rdsparser_string_get_errors'):
            return inner(init)[1], ('content' if c[1].endswith('content') else 'errors')
    return None


def root_name(n, aliases):
    while True:
        k = n.get('kind')
        if k in CAST_KINDS or k in ('MemberExpr', 'ArraySubscriptExpr'):
            n = inner(n)[0]
        elif k == 'UnaryOperator' and n.get('opcode') in ('&', '*'):
            n = inner(n)[0]
        elif k == 'DeclRefExpr':
            nm = n['referencedDecl'].get('name')
            return aliases.get(nm, nm)
        else:
            return None


class Builtin:
    def __init__(self, written):
        self.written = set(written)
        self.uses_log = False


BUILTIN_FNS = {'memset': Builtin([0]), 'rdsparser_string_init': Builtin([0]),
               'strtol': Builtin([1]), 'strlen': Builtin([]), 'isxdigit': Builtin([])}
CHAR_PTR = ('ptr', ('int', 'i8'), True)         # `const char *`
LIBC_STRING_FNS = ('strlen', 'strtol')          # their first argument is a C string


def cstr_root(n, local):
    """the variable a `char *` expression is derived from (through casts and `p + k`), mapped through
    `local` (local pointer -> the variable it was initialised from)"""
    while True:
        k = n.get('kind')
        if k in CAST_KINDS:
            n = inner(n)[0]
        elif k == 'BinaryOperator' and n.get('opcode') == '+':
            n = inner(n)[0]
        elif k == 'DeclRefExpr':
            nm = n['referencedDecl'].get('name')
            return local.get(nm, nm)
        else:
            return None


def writes_of(node, aliases, lookup):
    """root C variables that may be assigned inside `node` ('%log' = the callback log); variables
    declared inside `node` are not reported"""
    out, declared, al = set(), set(), dict(aliases)

    def walk(n):
        if not isinstance(n, dict):
            return
        k = n.get('kind')
        if k == 'VarDecl':
            declared.add(n['name'])
            a = alias_target(n)
            if a:
                r = root_name(a[0], al)
                if r:
                    al[n['name']] = r
        elif (k == 'BinaryOperator' and n.get('opcode') == '=') or k == 'CompoundAssignOperator' or \
                (k == 'UnaryOperator' and n.get('opcode') in ('++', '--')):
            out.add(root_name(inner(n)[0], al))
        elif k == 'CallExpr':
            c = callee_of(n)
            if c[0] == 'cb':
                out.add('%log')
            elif c[0] == 'fn':
                info = lookup(c[1])
                if info is not None:
                    args = inner(n)[1:]
                    for j in info.written:
                        if j < len(args):
                            out.add(root_name(args[j], al))
                    if info.uses_log:
                        out.add('%log')
        for c in inner(n):
            walk(c)
    walk(node)
    out.discard(None)
    return out - declared


class FnInfo:
    def __init__(self, tu, types, node):
        self.tu, self.types, self.node = tu, types, node
        self.name = node['name']
        self.file = tu.fname
        self.line = node_loc(node)[1]
        ps = [c for c in inner(node) if c.get('kind') == 'ParmVarDecl']
        self.params = [(p.get('name', '_p%d' % i), types.of(p), p['type']['qualType']) for i, p in enumerate(ps)]
        self.body = [c for c in inner(node) if c.get('kind') == 'CompoundStmt'][0]
        ft = node['type']['qualType']
        self.ret_s = ft[:ft.index('(')].strip()
        self.ret = types.parse(self.ret_s)
        self.written = set()
        self.uses_log = False
        self.uses_unicode = False
        self.callees = []
        self.fields_read = {}
        self.cstr_params = set()    # `const char *` parameters that designate a NUL-terminated C string
        self.nullable = set()       # ... of which those the body tests against NULL
        self._scan()

    def signature(self):
        return '%s %s(%s)' % (self.ret_s, self.name,
                              ', '.join((q + ' ' + n).replace('* ', '*') for n, _, q in self.params) or 'void')

    def _scan(self):
        ptr = {n for n, t, _ in self.params if t[0] == 'ptr' and t[1][0] == 'struct'}
        fr = {n: set() for n in ptr}
        callees = []

        def walk(n):
            if not isinstance(n, dict):
                return
            k = n.get('kind')
            if k == 'MemberExpr' and n.get('isArrow'):
                b = strip(inner(n)[0])
                if b.get('kind') == 'DeclRefExpr' and b['referencedDecl'].get('name') in ptr:
                    nm = b['referencedDecl']['name']
                    if fr[nm] is not None:
                        fr[nm].add(n['name'])
                    return
            if k == 'DeclRefExpr' and n['referencedDecl'].get('name') in ptr:
                fr[n['referencedDecl']['name']] = None
            if k == 'CallExpr':
                c = callee_of(n)
                if c[0] == 'fn' and c[1] not in callees:
                    callees.append(c[1])
            for c in inner(n):
                walk(c)
        walk(self.body)
        self.fields_read = fr
        self.callees = callees

    def update(self, lookup):
        """one round of the written-pointee / uses-log / C-string fixed point; True if something changed"""
        w = writes_of(self.body, {}, lookup)
        written = {i for i, (n, t, _) in enumerate(self.params) if n in w and t[0] == 'ptr'}
        log = '%log' in w
        cstr, nullable = self._cstrings(lookup)
        ch = written != self.written or log != self.uses_log or cstr != self.cstr_params or nullable != self.nullable
        self.written, self.uses_log, self.cstr_params, self.nullable = written, log, cstr, nullable
        return ch

    def _cstrings(self, lookup):
        """A `const char *` parameter is a C string iff the body hands it (possibly offset, possibly through
        a local pointer initialised from it) to strlen/strtol or to a C-string parameter of a callee; it is
        nullable iff, in addition, the body converts it to a truth value (`if (p)`, `p && ...`, `!p`)."""
        cand = {n: i for i, (n, t, _) in enumerate(self.params) if t == CHAR_PTR}
        if not cand:
            return set(), set()
        local, cstr, tested = {}, set(), set()

        def walk(n):
            if not isinstance(n, dict):
                return
            k = n.get('kind')
            if k == 'VarDecl' and inner(n) and n.get('type', {}).get('qualType') in ('const char *', 'char *'):
                r = cstr_root(inner(n)[-1], local)
                if r in cand:
                    local[n['name']] = r
            elif k == 'CallExpr':
                c = callee_of(n)
                args = inner(n)[1:]
                if c[0] == 'fn':
                    info = lookup(c[1])
                    idx = [0] if c[1] in LIBC_STRING_FNS else sorted(getattr(info, 'cstr_params', ()))
                    for j in idx:
                        if j < len(args):
                            r = cstr_root(args[j], local)
                            if r in cand:
                                cstr.add(cand[r])
            else:
                # truth-value contexts (C inserts no cast there): operands of && || !, conditions of if and ?:
                ops = []
                if k == 'ImplicitCastExpr' and n.get('castKind') == 'PointerToBoolean':
                    ops = inner(n)[:1]
                elif k == 'BinaryOperator' and n.get('opcode') in ('&&', '||'):
                    ops = inner(n)
                elif k == 'UnaryOperator' and n.get('opcode') == '!':
                    ops = inner(n)
                elif k in ('IfStmt', 'ConditionalOperator') and not n.get('hasInit') and not n.get('hasVar'):
                    ops = inner(n)[:1]
                for o in ops:
                    while o.get('kind') == 'ParenExpr':
                        o = inner(o)[0]
                    if o.get('kind') == 'ImplicitCastExpr' and o.get('castKind') == 'LValueToRValue':
                        c = inner(o)[0]
                        while c.get('kind') == 'ParenExpr':
                            c = inner(c)[0]
                        if c.get('kind') == 'DeclRefExpr' and c['referencedDecl'].get('name') in cand:
                            tested.add(cand[c['referencedDecl']['name']])
            for c in inner(n):
                walk(c)
        walk(self.body)
        return cstr, tested & cstr


# ----------------------------------------------------------------------------------------------
# values, places, environments

class Val:
    """a Lean expression text with its precedence; `is_bool` = Lean Bool, otherwise Lean Int
    (or, with `ty` set, an aggregate)"""

    def __init__(self, text, prec=100, is_bool=False, lit=None, ty=None, truth_only=False):
        self.text, self.prec, self.is_bool, self.lit, self.ty = text, prec, is_bool, lit, ty
        self.truth_only = truth_only    # C specifies only zero / non-zero (isxdigit): usable as a condition only

    def opd(self, p):
        return self.text if self.prec >= p else '(' + self.text + ')'

    def arg(self):
        return self.opd(100)

    def as_int(self):
        if self.truth_only:
            raise Unsupported('a value of which C specifies only zero/non-zero is used as a number')
        if not self.is_bool:
            return self
        if self.text == 'true':
            return lit_val(1)
        if self.text == 'false':
            return lit_val(0)
        return Val('b2i ' + self.arg(), 90)

    def as_bool(self):
        if self.is_bool:
            return self
        if self.lit is not None:
            return Val('true' if self.lit != 0 else 'false', 100, True)
        return Val(self.opd(51) + ' != 0', 50, True)


def lit_val(v):
    return Val(str(v), 100 if v >= 0 else 75, lit=v)


class Var:
    def __init__(self, cname, lean, obj, alias=None, glob=False, nullable=False):
        self.cname, self.lean, self.obj, self.alias, self.glob = cname, lean, obj, alias, glob
        self.nullable = nullable    # a C-string parameter that may be NULL: Lean type `Option (List Int)`
        self.local_ptr = False      # a local `char *` (set only by strtol's end pointer)
        self.const = None           # value of a `const` scalar local with a constant initialiser


class Place:
    """an lvalue path: variable, then .field / [index] steps; `ty` = object type designated"""

    def __init__(self, var, path, ty):
        self.var, self.path, self.ty = var, path, ty

    def field(self, name, ty):
        return Place(self.var, self.path + [('f', name, ty)], ty)

    def index(self, idx, ty, reads=frozenset()):
        return Place(self.var, self.path + [('i', idx, ty, reads)], ty)

    def index_reads(self):
        out = set()
        for el in self.path:
            if el[0] == 'i':
                out |= set(el[3])
        return out

    def _read(self, path):
        v = Val(self.var.lean)
        for el in path:
            if el[0] == 'f':
                v = Val(v.arg() + '.' + el[1])
            elif el[1].lit is not None and el[1].lit >= 0:
                v = Val('%s.getD %d %s' % (v.arg(), el[1].lit, default_of(el[2])), 90)
            else:
                fn = {'Int': 'getI', 'CStr': 'getS'}.get(lean_type(el[2]))
                if fn is None:
                    if lean_type(el[2]) != 'List Int':
                        raise Unsupported('subscript with element type %r' % (el[2],))
                    fn = 'getL'
                v = Val('%s %s %s' % (fn, v.arg(), el[1].arg()), 90)
        return v

    def read(self):
        v = self._read(self.path)
        v.ty = self.ty
        return v

    def write(self, new):
        """Lean text of the root variable's new value when this place receives `new` (a Val)"""
        for j in reversed(range(len(self.path))):
            base, el = self._read(self.path[:j]), self.path[j]
            if el[0] == 'f':
                new = Val('{ %s with %s := %s }' % (base.text, el[1], new.text))
            elif el[1].lit is not None and el[1].lit >= 0:
                new = Val('%s.set %d %s' % (base.arg(), el[1].lit, new.arg()), 90)
            else:
                new = Val('listSet %s %s %s' % (base.arg(), el[1].arg(), new.arg()), 90)
        return new

    def overlaps(self, other):
        if self.var is not other.var:
            return False
        for a, b in zip(self.path, other.path):
            if a[0] != b[0]:
                return True
            if a[0] == 'f' and a[1] != b[1]:
                return False
            if a[0] == 'i' and a[1].lit is not None and b[1].lit is not None and a[1].lit != b[1].lit:
                return False
        return True


class Env:
    def __init__(self, vars_=None, nonnull=frozenset()):
        self.vars = dict(vars_ or {})
        self.nonnull = frozenset(nonnull)       # nullable C strings known to be non-NULL here

    def declare(self, var):
        if var.cname in self.vars:
            raise Unsupported('redeclaration (shadowing) of %s' % var.cname)
        e = Env(self.vars, self.nonnull)
        e.vars[var.cname] = var
        return e

    def knowing(self, names):
        return Env(self.vars, self.nonnull | frozenset(names)) if names else self

    def aliases(self):
        return {v.cname: v.alias.var.cname for v in self.vars.values() if v.alias is not None}


def indent(lines, n=2):
    return [' ' * n + l for l in lines]


def let_lines(lhs, lines):
    if len(lines) == 1:
        return ['let %s := %s' % (lhs, lines[0])]
    return ['let %s :=' % lhs] + indent(lines)


def tidy(lines):
    """`let v : T := e` immediately followed by the final `v`  ==>  `e` (purely syntactic)"""
    while len(lines) >= 2 and re.fullmatch(r'\w+', lines[-1]):
        v, j = lines[-1], len(lines) - 2
        while j >= 0 and lines[j].startswith(' '):
            j -= 1
        if j < 0:
            break
        m = re.match(r'let %s : [^:=]+ :=(?: (.*))?$' % re.escape(v), lines[j])
        if not m or '--' in lines[j]:
            break
        if m.group(1) is not None:
            if j != len(lines) - 2:
                break
            lines = lines[:j] + [m.group(1)]
        else:
            lines = lines[:j] + [l[2:] for l in lines[j + 1:-1]]
    return lines


def if_lines(c, a, b):
    return ['if %s then' % c] + indent(tidy(a)) + ['else'] + indent(tidy(b))


def proj(t, i, n):
    if n == 1:
        return t
    return t + '.2' * i + ('.1' if i < n - 1 else '')


def tuple_text(xs):
    return xs[0] if len(xs) == 1 else '(' + ', '.join(xs) + ')'


# ----------------------------------------------------------------------------------------------
# translation of one function

class FnTr:
    def __init__(self, gen, info, unicode_text):
        self.g, self.info, self.T, self.tu = gen, info, info.types, info.tu
        self.unicode_text = unicode_text
        self.uses_unicode = False
        self.ntmp = 0
        self.names = set()
        self._collect_names(info.node)
        self.side = []
        self.aux = []           # hoisted constant tables: (lean name, lean type, text)
        self.comps = gen.components(info)

    def _collect_names(self, n):
        if isinstance(n, dict):
            if n.get('kind') in ('VarDecl', 'ParmVarDecl') and 'name' in n:
                self.names.add(lname(n['name']))
            for c in inner(n):
                self._collect_names(c)

    def tmp(self):
        while True:
            self.ntmp += 1
            t = 't%d' % self.ntmp
            if t not in self.names:
                return t

    def line_of(self, n):
        r = n.get('range', {}).get('begin', {})
        if 'expansionLoc' in r:
            r = r['expansionLoc']
        return r.get('_line')

    def sidecond(self, n, text):
        s = 'src/%s:%s: %s' % (self.info.file, self.line_of(n), text)
        if s not in self.side:
            self.side.append(s)

    # ---- variables -------------------------------------------------------------------------
    def var_of_param(self, name, t, idx=None):
        if is_scalar(t):
            return Var(name, lname(name), t)
        if idx is not None and idx in self.info.cstr_params:
            return Var(name, lname(name), ('cstring',), nullable=idx in self.info.nullable)
        if t[0] == 'ptr':
            p = t[1]
            if p[0] == 'struct':
                return Var(name, lname(name), p)
            if p[0] == 'str':
                return Var(name, lname(name), ('cstr',))
            if self.T.kind(p) is not None:
                return Var(name, lname(name), ('arr', p, None))
        raise Unsupported('parameter %s of unsupported type' % name)

    def lookup_var(self, env, n):
        rd = n['referencedDecl']
        nm = rd.get('name')
        if nm in env.vars:
            return env.vars[nm]
        if rd.get('kind') == 'VarDecl' and nm in self.tu.globals and nm in self.g.tables:
            return Var(nm, 'c_' + nm, self.g.tables[nm], glob=True)
        raise Unsupported('reference to unknown variable %s' % nm)

    # ---- C strings and the libc models (Prelude: libc_strlen, libc_isxdigit, libc_strtol16) ----
    def const_eval(self, n, env):
        """value of an integer expression built from literals, enumerators, `const` locals with constant
        initialisers, casts and + - *; None if it is not of that form"""
        k = n.get('kind')
        if k in ('IntegerLiteral', 'CharacterLiteral'):
            return int(n['value'])
        if k in ('ParenExpr', 'ConstantExpr'):
            return self.const_eval(inner(n)[0], env)
        if k == 'DeclRefExpr':
            rd = n['referencedDecl']
            if rd.get('kind') == 'EnumConstantDecl':
                return self.tu.enum_consts.get(rd['name'])
            return None
        if k in ('ImplicitCastExpr', 'CStyleCastExpr'):
            ck, c = n.get('castKind'), inner(n)[0]
            if ck == 'LValueToRValue':
                c = strip(c)
                if c.get('kind') == 'DeclRefExpr' and c['referencedDecl'].get('name') in env.vars:
                    return env.vars[c['referencedDecl']['name']].const
                return None
            if ck in ('IntegralCast', 'NoOp'):
                v = self.const_eval(c, env)
                try:
                    kd = self.T.kind(self.T.of(n))
                except Unsupported:
                    return None
                return None if v is None or kd is None else wrap_value(kd, v)
            return None
        if k == 'BinaryOperator' and n.get('opcode') in ('+', '-', '*'):
            a, b = (self.const_eval(c, env) for c in inner(n))
            if a is None or b is None:
                return None
            try:
                kd = self.T.kind(self.T.of(n))
            except Unsupported:
                return None
            if kd is None:
                return None
            v = {'+': a + b, '-': a - b, '*': a * b}[n['opcode']]
            if kd in ('u32', 'u64'):
                return wrap_value(kd, v)
            return v if RANGE[kd][0] <= v <= RANGE[kd][1] else None
        return None

    def cstr_var(self, n, env):
        """the C-string variable a (cast-stripped) DeclRefExpr designates, or None"""
        if n.get('kind') == 'DeclRefExpr' and n['referencedDecl'].get('name') in env.vars:
            v = env.vars[n['referencedDecl']['name']]
            if v.obj == ('cstring',):
                return v
        return None

    def is_cstr(self, n, env):
        """is `n` a `char *` expression into a C string: a C-string variable, possibly offset?"""
        while True:
            k = n.get('kind')
            if k == 'ParenExpr' or (k in ('ImplicitCastExpr', 'CStyleCastExpr') and
                                    n.get('castKind') in ('LValueToRValue', 'NoOp', 'BitCast')):
                n = inner(n)[0]
            elif k == 'BinaryOperator' and n.get('opcode') == '+':
                n = inner(n)[0]
            else:
                return self.cstr_var(n, env) is not None

    def tr_cstr(self, n, env, pre):
        """Lean text (a `List Int`: the bytes up to, not including, the NUL) of a `char *` expression that
        designates a C string:  a C-string variable;  `p + K` with a constant K (side condition K <= strlen p);
        a local `char` array (the string it holds: side condition, it contains a NUL)"""
        k = n.get('kind')
        if k == 'ParenExpr':
            return self.tr_cstr(inner(n)[0], env, pre)
        if k in ('ImplicitCastExpr', 'CStyleCastExpr'):
            ck, c = n.get('castKind'), inner(n)[0]
            if ck in ('NoOp', 'BitCast'):
                if self.T.of(n) not in (CHAR_PTR, ('ptr', ('int', 'i8'), False)):
                    raise Unsupported('cast of a C string to another pointer type')
                return self.tr_cstr(c, env, pre)
            if ck == 'LValueToRValue':
                v = self.cstr_var(strip(c), env) if strip(c).get('kind') == 'DeclRefExpr' else None
                if v is None:
                    raise Unsupported('pointer that is not a C string used as one')
                if v.nullable:
                    if v.cname not in env.nonnull:
                        self.sidecond(n, '%s ≠ NULL' % v.cname)
                    return Val('%s.getD []' % v.lean, 90)
                return Val(v.lean)
            if ck == 'ArrayToPointerDecay':
                c = strip(c)
                if c.get('kind') != 'DeclRefExpr':
                    raise Unsupported('array expression used as a C string')
                v = self.lookup_var(env, c)
                if v.glob or v.obj[0] != 'arr' or v.obj[1] != ('int', 'i8') or v.obj[2] is None:
                    raise Unsupported('only a local char array can be used as a C string')
                self.sidecond(n, '%s contains a NUL' % v.cname)
                return Val('cstrOfChars %s' % v.lean, 90)
            raise Unsupported('pointer cast %s of a C string' % ck)
        if k == 'BinaryOperator' and n.get('opcode') == '+':
            a, b = inner(n)
            if not self.is_cstr(a, env):
                raise Unsupported('pointer arithmetic on something that is not a C string')
            off = self.const_eval(b, env)
            if off is None or off < 0:
                raise Unsupported('C string offset that is not a non-negative constant')
            base = self.tr_cstr(a, env, pre)
            self.sidecond(n, '%d ≤ strlen(%s)' % (off, base.text))
            return Val('List.drop %d %s' % (off, base.arg()), 90)
        raise Unsupported('C string expression %s' % k)

    def cstr_elem(self, n, env, pre):
        """if the lvalue `n` is `p[i]` or `*p` with p a pointer into a C string: the char read (plain char is
        signed: `i8` of the byte; the byte at offset strlen is the NUL; beyond it: undefined), else None"""
        while n.get('kind') == 'ParenExpr':
            n = inner(n)[0]
        k = n.get('kind')
        if k == 'ArraySubscriptExpr' and self.is_cstr(inner(n)[0], env):
            s = self.tr_cstr(inner(n)[0], env, pre)
            idx = self.tr_int(inner(n)[1], env, pre)
        elif k == 'UnaryOperator' and n.get('opcode') == '*' and self.is_cstr(inner(n)[0], env):
            s = self.tr_cstr(inner(n)[0], env, pre)
            idx = lit_val(0)
        else:
            return None
        if self.T.of(n) != ('int', 'i8'):
            raise Unsupported('element of a C string that is not a plain char')
        if idx.lit is None or idx.lit != 0:
            self.sidecond(n, '0 ≤ %s ≤ strlen(%s)' % (idx.text, s.text))
        return Val('i8 (getI %s %s)' % (s.arg(), idx.arg()), 90)

    def null_tested(self, n, env):
        """the nullable C-string parameter whose conversion to a truth value `n` is, else None"""
        for ck in ('PointerToBoolean', 'LValueToRValue'):
            while n.get('kind') == 'ParenExpr':
                n = inner(n)[0]
            if n.get('kind') == 'ImplicitCastExpr' and n.get('castKind') == ck:
                n = inner(n)[0]
            elif ck == 'LValueToRValue':
                return None
        while n.get('kind') == 'ParenExpr':
            n = inner(n)[0]
        v = self.cstr_var(n, env)
        return v if v is not None and v.nullable else None

    def nonnull_facts(self, n, env):
        """names of the nullable C strings that are non-NULL whenever the condition `n` holds"""
        while n.get('kind') == 'ParenExpr':
            n = inner(n)[0]
        v = self.null_tested(n, env)
        if v is not None:
            return {v.cname}
        if n.get('kind') == 'BinaryOperator' and n.get('opcode') == '&&':
            return self.nonnull_facts(inner(n)[0], env) | self.nonnull_facts(inner(n)[1], env)
        return set()

    def isxdigit_macro(self, n):
        """glibc's <ctype.h> expands isxdigit(c) to `((*__ctype_b_loc())[(int)(c)] & (unsigned short)_ISxdigit)`:
        returns the node of c if `n` is exactly that, else None"""
        if n.get('kind') != 'BinaryOperator' or n.get('opcode') != '&':
            return None
        a, b = (strip(x) for x in inner(n))
        if b.get('kind') != 'DeclRefExpr' or b['referencedDecl'].get('kind') != 'EnumConstantDecl' or \
                b['referencedDecl'].get('name') != '_ISxdigit' or a.get('kind') != 'ArraySubscriptExpr':
            return None
        base = strip(inner(a)[0])
        if base.get('kind') != 'UnaryOperator' or base.get('opcode') != '*':
            return None
        call = strip(inner(base)[0])
        if call.get('kind') != 'CallExpr' or callee_of(call) != ('fn', '__ctype_b_loc') or len(inner(call)) != 1:
            return None
        return inner(a)[1]

    def tr_isxdigit(self, n, arg, env, pre):
        x = self.tr_int(arg, env, pre)
        a = arg
        while a.get('kind') in ('ParenExpr', 'ConstantExpr') or \
                (a.get('kind') in ('ImplicitCastExpr', 'CStyleCastExpr') and a.get('castKind') == 'IntegralCast'
                 and self.T.kind(self.T.of(a)) in ('i32', 'i64', 'u32', 'u64')):
            a = inner(a)[0]
        try:
            narrow = self.T.kind(self.T.of(a)) == 'u8'
        except Unsupported:
            narrow = False
        if not narrow and not (x.lit is not None and -1 <= x.lit <= 255):
            self.sidecond(n, '-1 ≤ %s ≤ 255 (argument of isxdigit)' % x.text)
        return Val('libc_isxdigit %s' % x.arg(), 90, truth_only=True)

    def tr_libc(self, name, n, args, env, pre):
        """strlen(s), strtol(s, &end, 16), isxdigit(c) as calls of the Prelude's models"""
        if name == 'strlen':
            if len(args) != 1:
                raise Unsupported('strlen arity')
            s = self.tr_cstr(args[0], env, pre)
            return Val('libc_strlen %s' % s.arg(), 90)
        if name == 'isxdigit':
            if len(args) != 1:
                raise Unsupported('isxdigit arity')
            return self.tr_isxdigit(n, args[0], env, pre)
        if name == 'strtol':
            if len(args) != 3 or self.const_eval(args[2], env) != 16:
                raise Unsupported('strtol with a base other than the constant 16')
            e = args[1]
            while e.get('kind') == 'ParenExpr':
                e = inner(e)[0]
            ev = None
            if e.get('kind') == 'UnaryOperator' and e.get('opcode') == '&':
                t = inner(e)[0]
                while t.get('kind') == 'ParenExpr':
                    t = inner(t)[0]
                ev = self.cstr_var(t, env)
            if ev is None or ev.nullable or self.T.of(inner(e)[0]) != ('ptr', ('int', 'i8'), False) or \
                    not ev.local_ptr:
                raise Unsupported('strtol end pointer must be `&end` for a local `char *end`')
            if self.reads(args[0], env) & {ev.cname}:
                raise Unsupported('strtol reads the pointer it writes')
            s = self.tr_cstr(args[0], env, pre)
            t = self.tmp()
            pre.append('let %s := libc_strtol16 %s' % (t, s.arg()))
            pre.append('let %s : List Int := List.drop %s.2 %s' % (ev.lean, t, s.arg()))
            return Val('%s.1' % t)
        raise Unsupported('libc function %s' % name)

    # ---- places ----------------------------------------------------------------------------
    def tr_ptr(self, n, env, pre):
        """the place a pointer-valued expression points to"""
        k = n.get('kind')
        if k in ('ImplicitCastExpr', 'CStyleCastExpr'):
            ck, c = n.get('castKind'), inner(n)[0]
            if ck == 'LValueToRValue':
                c = strip(c)
                if c.get('kind') != 'DeclRefExpr':
                    raise Unsupported('pointer loaded from memory')
                v = self.lookup_var(env, c)
                if v.alias is not None:
                    return v.alias
                if is_scalar(v.obj):
                    raise Unsupported('scalar %s used as a pointer' % v.cname)
                if self.T.of(c)[0] != 'ptr':
                    raise Unsupported('non-pointer variable %s used as a pointer' % v.cname)
                return Place(v, [], v.obj)
            if ck == 'ArrayToPointerDecay':
                return self.tr_lvalue(c, env, pre)
            if ck in ('NoOp', 'BitCast'):
                return self.tr_ptr(c, env, pre)
            raise Unsupported('pointer cast %s' % ck)
        if k == 'ParenExpr':
            return self.tr_ptr(inner(n)[0], env, pre)
        if k == 'UnaryOperator' and n.get('opcode') == '&':
            return self.tr_lvalue(inner(n)[0], env, pre)
        raise Unsupported('pointer expression %s' % k)

    def tr_lvalue(self, n, env, pre):
        k = n.get('kind')
        if k == 'ParenExpr':
            return self.tr_lvalue(inner(n)[0], env, pre)
        if k == 'DeclRefExpr':
            v = self.lookup_var(env, n)
            if v.alias is not None or self.T.of(n)[0] == 'ptr' and not is_scalar(v.obj):
                raise Unsupported('pointer variable %s used as an lvalue' % v.cname)
            return Place(v, [], v.obj)
        if k == 'MemberExpr':
            base = self.tr_ptr(inner(n)[0], env, pre) if n.get('isArrow') else self.tr_lvalue(inner(n)[0], env, pre)
            if base.ty[0] != 'struct':
                raise Unsupported('member of a non-struct')
            for fn, ft in self.g.records[base.ty[1]]:
                if fn == n['name']:
                    return base.field(fn, ft)
            raise Unsupported('unknown field %s' % n['name'])
        if k == 'ArraySubscriptExpr':
            base = self.tr_ptr(inner(n)[0], env, pre)
            if base.ty[0] != 'arr':
                raise Unsupported('subscript on a non-array')
            idx = self.tr_expr(inner(n)[1], env, pre).as_int()
            if idx.lit is None:
                self.sidecond(n, '0 ≤ %s < %s' % (idx.text, base.ty[2] if base.ty[2] is not None
                                                  else 'length of ' + base._read(base.path).text))
            elif idx.lit < 0 or (base.ty[2] is not None and idx.lit >= base.ty[2]):
                raise Unsupported('constant subscript out of range')
            return base.index(idx, base.ty[1], frozenset(self.reads(inner(n)[1], env)))
        raise Unsupported('lvalue %s' % k)

    def assign(self, place, val, pre):
        if place.var.glob:
            raise Unsupported('assignment to a global')
        pre.append('let %s : %s := %s' % (place.var.lean, lean_type(place.var.obj), place.write(val).text))

    # ---- effects bookkeeping ---------------------------------------------------------------
    def wnames(self, nodes, env):
        """Lean variables (visible in env, in declaration order, then `log`) assigned inside nodes"""
        w = set()
        for n in nodes:
            w |= writes_of(n, env.aliases(), self.g.lookup)
        out = [v for v in env.vars.values() if v.cname in w and v.alias is None]
        res = [(v.lean, lean_type(v.obj)) for v in out]
        if '%log' in w:
            res.append(('log', 'CLog'))
        return res

    def reads(self, n, env):
        out, al = set(), env.aliases()

        def walk(x):
            if isinstance(x, dict):
                if x.get('kind') == 'DeclRefExpr':
                    nm = x['referencedDecl'].get('name')
                    out.add(al.get(nm, nm))
                if x.get('kind') == 'CallExpr':
                    c = callee_of(x)
                    if c[0] == 'cb' or (c[0] == 'fn' and getattr(self.g.lookup(c[1]), 'uses_log', False)):
                        out.add('%log')
                for c in inner(x):
                    walk(c)
        walk(n)
        return out

    def operands(self, nodes, env, pre, fn):
        """translate sibling operands whose evaluation order C leaves unspecified: at most one of
        them may have side effects, and the others must not read what it writes"""
        res, pres = [], []
        for n in nodes:
            p = []
            res.append(fn(n, env, p))
            pres.append(p)
        eff = [i for i, p in enumerate(pres) if p]
        if len(eff) > 1:
            raise Unsupported('two side effects in one expression (unspecified order)')
        if eff:
            w = writes_of(nodes[eff[0]], env.aliases(), self.g.lookup)
            for i, n in enumerate(nodes):
                if i != eff[0] and self.reads(n, env) & w:
                    raise Unsupported('operand reads a variable written by a sibling operand')
        for p in pres:
            pre.extend(p)
        return res

    # ---- expressions -----------------------------------------------------------------------
    def conv(self, v, src, dst):
        kd, ks = self.T.kind(dst), self.T.kind(src)
        if kd is None:
            if is_scalar(dst) and is_scalar(src) and ks is None:
                return v
            raise Unsupported('cast to %r' % (dst,))
        if ks is None:
            raise Unsupported('cast from %r to an integer' % (src,))
        if kd == 'bool':
            return v.as_bool()
        v = v.as_int()
        if RANGE[kd][0] <= RANGE[ks][0] and RANGE[ks][1] <= RANGE[kd][1]:
            return v
        if v.lit is not None:
            return lit_val(wrap_value(kd, v.lit))
        return Val('%s %s' % (kd, v.arg()), 90)

    def nonneg(self, n):
        k = n.get('kind')
        if k == '%val':
            return self.nonneg(n['src'])
        if k in ('IntegerLiteral', 'CharacterLiteral'):
            return int(n['value']) >= 0
        if k in ('ParenExpr', 'ConstantExpr'):
            return self.nonneg(inner(n)[0])
        try:
            t = self.T.of(n)
        except Unsupported:
            return False
        kd = self.T.kind(t)
        if kd is not None and RANGE[kd][0] == 0:
            return True
        if k == 'DeclRefExpr' and n['referencedDecl'].get('kind') == 'EnumConstantDecl':
            return self.tu.enum_consts.get(n['referencedDecl']['name'], -1) >= 0
        if k in ('ImplicitCastExpr', 'CStyleCastExpr') and n.get('castKind') == 'IntegralCast':
            c = inner(n)[0]
            ks = self.T.kind(self.T.of(c))
            return ks is not None and kd is not None and self.nonneg(c) and RANGE[ks][1] <= RANGE[kd][1]
        if k == 'BinaryOperator' and n.get('opcode') in ('&', '|', '^', '<<', '>>', '+', '*', '/', '%'):
            return all(self.nonneg(c) for c in inner(n))
        if k == 'ConditionalOperator':
            return all(self.nonneg(c) for c in inner(n)[1:])
        return False

    def tr_int(self, n, env, pre):
        return self.tr_expr(n, env, pre).as_int()

    def tr_expr(self, n, env, pre):
        k = n.get('kind')
        if k == '%val':
            return n['val']
        if k in ('IntegerLiteral', 'CharacterLiteral'):
            return lit_val(int(n['value']))
        if k in ('ParenExpr', 'ConstantExpr'):
            return self.tr_expr(inner(n)[0], env, pre)
        if k == 'DeclRefExpr':
            rd = n['referencedDecl']
            if rd.get('kind') == 'EnumConstantDecl':
                if rd['name'] not in self.tu.enum_consts:
                    raise Unsupported('unknown enumerator %s' % rd['name'])
                return lit_val(self.tu.enum_consts[rd['name']])
            raise Unsupported('variable %s used without load' % rd.get('name'))
        if k in ('ImplicitCastExpr', 'CStyleCastExpr'):
            return self.tr_cast(n, env, pre)
        if k == 'BinaryOperator':
            xd = self.isxdigit_macro(n)
            if xd is not None:
                return self.tr_isxdigit(n, xd, env, pre)
            return self.tr_binop(n, env, pre)
        if k == 'UnaryOperator':
            return self.tr_unop(n, env, pre)
        if k == 'ConditionalOperator':
            c = self.tr_expr(inner(n)[0], env, pre).as_bool()
            pa, pb = [], []
            a = self.tr_int(inner(n)[1], env, pa)
            b = self.tr_int(inner(n)[2], env, pb)
            if pa or pb:
                raise Unsupported('side effect inside ?:')
            return Val('if %s then %s else %s' % (c.text, a.text, b.text), 0)
        if k == 'CallExpr':
            v = self.tr_call(n, env, pre)
            if v is None:
                raise Unsupported('value of a void call')
            return v
        raise Unsupported('expression %s' % k)

    def tr_cast(self, n, env, pre):
        ck, c = n.get('castKind'), inner(n)[0]
        if ck == 'LValueToRValue':
            v = self.null_tested(n, env)
            if v is not None:       # a nullable C string in scalar context: its truth value
                return Val('%s.isSome' % v.lean, 100, True)
            ch = self.cstr_elem(c, env, pre)
            if ch is not None:
                return ch
            p = self.tr_lvalue(c, env, pre)
            if not is_scalar(p.ty):
                raise Unsupported('aggregate or pointer value in scalar context')
            return p.read()
        if ck == 'IntegralCast':
            return self.conv(self.tr_expr(c, env, pre), self.T.of(c), self.T.of(n))
        if ck == 'PointerToBoolean':
            v = self.null_tested(n, env)
            if v is not None:
                return Val('%s.isSome' % v.lean, 100, True)
        if ck in ('IntegralToBoolean', 'PointerToBoolean'):
            return self.tr_expr(c, env, pre).as_bool()
        if ck in ('NoOp', 'BitCast'):
            if not is_scalar(self.T.of(n)):
                raise Unsupported('pointer value in scalar context')
            return self.tr_expr(c, env, pre)
        if ck == 'NullToPointer':
            return lit_val(0)
        raise Unsupported('cast kind %s' % ck)

    def wrap_result(self, n, v):
        kd = self.T.kind(self.T.of(n))
        if kd in ('u32', 'u64'):
            if v.lit is not None:
                return lit_val(wrap_value(kd, v.lit))
            return Val('%s %s' % (kd, v.arg()), 90)
        return v

    def tr_binop(self, n, env, pre):
        op, (a, b) = n['opcode'], inner(n)
        if op in ('&&', '||'):
            return self.tr_logical(op, a, b, env, pre)
        if op in ('=', ',') or op.endswith('=') and op not in ('==', '!=', '<=', '>='):
            raise Unsupported('operator %s inside an expression' % op)
        x, y = self.operands([a, b], env, pre, self.tr_int)
        if op in ('==', '!='):
            return Val('%s %s %s' % (x.opd(51), op, y.opd(51)), 50, True)
        if op in ('<', '<=', '>', '>='):
            if op in ('>', '>='):
                x, y = y, x
            return Val('decide (%s %s %s)' % (x.opd(51), '<' if op in ('<', '>') else '≤', y.opd(51)), 90, True)
        if op in ('+', '-', '*'):
            if x.lit is not None and y.lit is not None:
                return self.wrap_result(n, lit_val({'+': x.lit + y.lit, '-': x.lit - y.lit, '*': x.lit * y.lit}[op]))
            p = 70 if op == '*' else 65
            return self.wrap_result(n, Val('%s %s %s' % (x.opd(p), op, y.opd(p + 1)), p))
        if op in ('/', '%'):
            if y.lit is None:
                self.sidecond(n, '%s ≠ 0' % y.text)
            elif y.lit == 0:
                raise Unsupported('division by constant zero')
            return Val('%s %s %s' % ('Int.tdiv' if op == '/' else 'Int.tmod', x.arg(), y.arg()), 90)
        fn = {'&': 'band', '|': 'bor', '^': 'bxor', '<<': 'shl', '>>': 'shr'}.get(op)
        if fn is None:
            raise Unsupported('operator %s' % op)
        for node, v in ((a, x), (b, y)):
            if not self.nonneg(node):
                self.sidecond(n, '0 ≤ %s (operand of %s)' % (v.text, op))
        if op in ('<<', '>>') and y.lit is None:
            self.sidecond(n, '%s < width of the promoted left operand' % y.text)
        v = Val('%s %s %s' % (fn, x.arg(), y.arg()), 90)
        return self.wrap_result(n, v) if op == '<<' else v

    def tr_logical(self, op, a, b, env, pre):
        x = self.tr_expr(a, env, pre).as_bool()
        pb = []
        y = self.tr_expr(b, env.knowing(self.nonnull_facts(a, env)) if op == '&&' else env, pb).as_bool()
        p = 35 if op == '&&' else 30
        if not pb:
            return Val('%s %s %s' % (x.opd(p), op, y.opd(p + 1)), p, True)
        w = self.wnames([b], env)
        t = self.tmp()
        evaluated = pb + [tuple_text([y.text] + [v for v, _ in w])]
        skipped = [tuple_text(['false' if op == '&&' else 'true'] + [v for v, _ in w])]
        pre.extend(let_lines(t, if_lines(x.text, evaluated, skipped) if op == '&&'
                             else if_lines(x.text, skipped, evaluated)))
        for i, (v, ty) in enumerate(w):
            pre.append('let %s : %s := %s' % (v, ty, proj(t, i + 1, len(w) + 1)))
        return Val(proj(t, 0, len(w) + 1), 100, True)

    def tr_unop(self, n, env, pre):
        op, c = n['opcode'], inner(n)[0]
        if op == '-':
            x = self.tr_int(c, env, pre)
            if x.lit is not None:
                return self.wrap_result(n, lit_val(-x.lit))
            return self.wrap_result(n, Val('-' + x.arg(), 75))
        if op == '+':
            return self.tr_int(c, env, pre)
        if op == '!':
            x = self.tr_expr(c, env, pre).as_bool()
            return Val('!' + x.arg(), 40, True)
        raise Unsupported('unary %s inside an expression' % op)

    # ---- calls -----------------------------------------------------------------------------
    def tr_call(self, n, env, pre):
        c, args = callee_of(n), inner(n)[1:]
        if c[0] == 'cb':
            return self.tr_callback(n, c, args, env, pre)
        if c[0] != 'fn':
            raise Unsupported('indirect call')
        name = c[1]
        if name == 'rdsparser_string_get_size':
            p = self.tr_ptr(args[0], env, pre)
            if p.ty != ('cstr',):
                raise Unsupported('string primitive on a non-string')
            return p.field('size', ('int', 'u8')).read()
        if name == 'rdsparser_string_init':
            p = self.tr_ptr(args[0], env, pre)
            if p.ty != ('cstr',):
                raise Unsupported('string primitive on a non-string')
            self.assign(p.field('size', ('int', 'u8')), self.tr_int(args[1], env, pre), pre)
            return None
        if name in ('rdsparser_string_get_content', 'rdsparser_string_get_errors'):
            raise Unsupported('%s outside the initialiser of a local pointer' % name)
        if name == 'memset':
            p = self.tr_ptr(args[0], env, pre)
            sz = strip(args[2])
            if p.ty[0] != 'struct' or strip(args[1]).get('value') != '0' or \
                    sz.get('kind') != 'UnaryExprOrTypeTraitExpr' or sz.get('name') != 'sizeof' or \
                    'argType' not in sz or self.T.parse(sz['argType']['qualType']) != p.ty:
                raise Unsupported('memset other than memset(p, 0, sizeof(*p))')
            self.assign(p, Val('C_%s.zero' % p.ty[1]), pre)
            return None
        if name in ('strlen', 'strtol', 'isxdigit') and name not in self.g.infos:
            return self.tr_libc(name, n, args, env, pre)
        callee = self.g.done.get(name)
        if callee is None:
            raise Unsupported('calls %s, which is not translated' % name)
        if len(args) != len(callee.params):
            raise Unsupported('argument count mismatch calling %s' % name)

        def one(a, e, p, i=[0]):
            j, t = i[0], callee.params[i[0]][1]
            i[0] += 1
            if is_scalar(t):
                return self.tr_int(a, e, p)
            if j in callee.cstr_params:
                if j in callee.nullable:
                    v = self.cstr_var(strip(a), e)
                    if v is not None and v.nullable:
                        return Val(v.lean)
                    return Val('some %s' % self.tr_cstr(a, e, p).arg(), 90)
                return self.tr_cstr(a, e, p)
            return self.tr_ptr(a, e, p)
        vals = self.operands(args, env, pre, one)
        written = [(j, vals[j]) for j in sorted(callee.written)]
        wroots = {pj.var.cname for _, pj in written} | ({'%log'} if callee.uses_log else set())
        for _, pj in written:
            if pj.index_reads() & wroots:
                raise Unsupported('subscript of a written argument of %s depends on what the call writes' % name)
        for x, (j, pj) in enumerate(written):
            for (_, pk) in written[x + 1:]:
                if pj.overlaps(pk):
                    raise Unsupported('two written arguments of %s alias' % name)
            for k2, v in enumerate(vals):
                if k2 != j and isinstance(v, Place) and v.overlaps(pj):
                    fr = callee.fields_read.get(callee.params[k2][0])
                    ok = fr is not None and not v.path[len(pj.path):] and len(pj.path) > len(v.path) and \
                        pj.path[len(v.path)][0] == 'f' and pj.path[len(v.path)][1] not in fr
                    if not ok:
                        raise Unsupported('read-only argument of %s overlaps a written one' % name)
        texts = []
        if callee.uses_unicode:
            self.uses_unicode = True
            texts.append(self.unicode_text)
        for (pn, pt, _), v in zip(callee.params, vals):
            if isinstance(v, Place):
                exp = self.g.param_obj(callee, pt)
                if v.ty != exp and not (v.ty[0] == 'arr' and exp[0] == 'arr' and v.ty[1] == exp[1]):
                    raise Unsupported('argument type mismatch for %s of %s' % (pn, name))
                texts.append(v.read().arg())
            else:
                texts.append(v.arg())
        if callee.uses_log:
            texts.append('log')
        call = Val(' '.join(['c_' + name] + texts), 90 if texts else 100)
        comps = self.g.components(callee)
        rty = self.g.ret_obj(callee) if callee.ret[0] != 'void' else None
        if not written and not callee.uses_log:
            if not comps:
                return None
            call.ty = rty
            return call
        if len(comps) == 1 and written and not written[0][1].path:
            self.assign(written[0][1], call, pre)
            return None
        t = self.tmp()
        pre.append('let %s := %s' % (t, call.text))
        i = 1 if comps[0][0] == 'ret' else 0
        for j, pj in written:
            self.assign(pj, Val(proj(t, i, len(comps))), pre)
            i += 1
        if callee.uses_log:
            pre.append('let log : CLog := %s' % proj(t, i, len(comps)))
        if comps[0][0] == 'ret':
            return Val(proj(t, 0, len(comps)), 100, ty=rty)
        return None

    def tr_callback(self, n, c, args, env, pre):
        base = c[2]
        if not base.get('isArrow') or not args:
            raise Unsupported('callback call shape')
        st = self.tr_ptr(inner(base)[0], env, pre)
        first = self.tr_ptr(args[0], env, pre)
        if st.path or first.path or st.var is not first.var or st.ty != ('struct', 'librdsparser'):
            raise Unsupported('callback not of the form rds->cb(rds, ...)')
        ev = []
        for a in args[1:]:
            t = self.T.of(a)
            if is_scalar(t):
                ev.append(self.tr_int(a, env, pre).text)
            elif t[0] == 'ptr' and t[1][0] == 'struct':
                p = self.tr_ptr(a, env, pre)
                for fn, ft in self.g.records[t[1][1]]:
                    if not is_scalar(ft):
                        raise Unsupported('callback argument struct with aggregate field')
                    ev.append(p.field(fn, ft).read().text)
            else:
                raise Unsupported('callback argument type')
        nm = c[1][len('callback_'):] if c[1].startswith('callback_') else c[1]
        pre.append('let log : CLog := log ++ [⟨"%s", [%s], %s⟩]' % (nm, ', '.join(ev), st.var.lean))
        return None

    # ---- statements ------------------------------------------------------------------------
    def final_tuple(self, val):
        xs = []
        for c in self.comps:
            if c[0] == 'ret':
                if val is None:
                    raise Unsupported('control reaches the end of a non-void function')
                xs.append(val)
            elif c[0] == 'p':
                xs.append(lname(c[1]))
            else:
                xs.append('log')
        if not xs:
            return '()'
        if len(xs) > 1 and re.fullmatch(r'-?\d+', xs[0]):
            xs[0] = '(%s : Int)' % xs[0]
        return tuple_text(xs)

    def tr_return(self, s, env, rk):
        pre = []
        if not inner(s):
            return pre + rk(self.final_tuple(None))
        e = inner(s)[0]
        rt = self.info.ret
        if is_scalar(rt):
            v = self.tr_int(e, env, pre).text
        else:
            se = strip(e)
            if se.get('kind') == 'CallExpr':
                r = self.tr_call(se, env, pre)
                if r is None or r.ty != self.g.ret_obj(self.info):
                    raise Unsupported('returned pointer of another type')
                v = r.text
            else:
                p = self.tr_ptr(e, env, pre)
                if p.ty != self.g.ret_obj(self.info):
                    raise Unsupported('returned pointer of another type')
                v = p.read().text
        return pre + rk(self.final_tuple(v))

    def tr_decl(self, d, env, pre):
        name = d['name']
        if d.get('storageClass') or d.get('tls'):
            raise Unsupported('local %s with storage class %s' % (name, d.get('storageClass')))
        qt = d['type']['qualType']
        m = re.fullmatch(r'char\[(\w+)(?: \+ (\d+))?\]', qt)
        if m and not m.group(1).isdigit():
            # `char buf[n + K]` with n a `const` local of constant value: clang prints the size expression only
            # inside the type; this is the one variably-modified type accepted
            base = env.vars.get(m.group(1))
            if base is None or base.const is None or 'init' in d:
                raise Unsupported('array %s whose size is not a constant' % name)
            size = base.const + int(m.group(2) or 0)
            if not 0 < size <= 4096:
                raise Unsupported('array %s of size %d' % (name, size))
            t = ('arr', ('int', 'i8'), size)
            env2 = env.declare(Var(name, lname(name), t))
            pre.append('let %s : List Int := List.replicate %d 0  -- uninitialised in C' % (lname(name), size))
            return env2
        t = self.T.of(d)
        init = inner(d)[-1] if 'init' in d and inner(d) else None
        if t in (CHAR_PTR, ('ptr', ('int', 'i8'), False)) and alias_target(d) is None:
            # a local pointer into a C string: the bytes from the pointer up to the NUL
            if init is not None:
                if t != CHAR_PTR:
                    raise Unsupported('local %s: a non-const pointer into a C string' % name)
                v = self.tr_cstr(init, env, pre)
                var = Var(name, lname(name), ('cstring',))
                pre.append('let %s : List Int := %s' % (lname(name), v.text))
            else:
                var = Var(name, lname(name), ('cstring',))
                var.local_ptr = True
                pre.append('let %s : List Int := []  -- uninitialised in C' % lname(name))
            return env.declare(var)
        a = alias_target(d)
        if a is not None:
            base = self.tr_ptr(a[0], env, pre)
            if base.ty != ('cstr',) or t[0] != 'ptr' or self.T.kind(t[1]) is None:
                raise Unsupported('alias %s' % name)
            if any(el[0] == 'i' and el[1].lit is None for el in base.path):
                raise Unsupported('alias %s into an array element with a variable index' % name)
            return env.declare(Var(name, lname(name), None, alias=base.field(a[1], ('arr', t[1], None))))
        if is_scalar(t):
            v = self.tr_int(init, env, pre) if init is not None else None
            var = Var(name, lname(name), t)
            if init is not None and qt.split()[0] == 'const' and self.T.kind(t) is not None:
                cv = self.const_eval(init, env)
                if cv is not None:
                    var.const = wrap_value(self.T.kind(t), cv)
            env2 = env.declare(var)
            pre.append('let %s : Int := %s' % (lname(name), v.text if v else '0  -- uninitialised in C'))
            return env2
        if t[0] == 'struct':
            if init is not None:
                raise Unsupported('struct initialiser')
            env2 = env.declare(Var(name, lname(name), t))
            pre.append('let %s : C_%s := C_%s.zero  -- uninitialised in C' % (lname(name), t[1], t[1]))
            return env2
        if t[0] == 'arr' and self.T.kind(t[1]) is not None and t[2] is not None:
            env2 = env.declare(Var(name, lname(name), t))
            if init is None:
                pre.append('let %s : List Int := List.replicate %d 0  -- uninitialised in C' % (lname(name), t[2]))
            else:
                vals = init_list(init, t[2], self.tu.enum_consts)
                if vals is None:
                    raise Unsupported('array initialiser of %s is not a list of constants' % name)
                aux = 'c_%s_%s' % (self.info.name, name)
                self.aux.append((aux, 'List Int', fmt_list([str(wrap_value(self.T.kind(t[1]), v)) for v in vals])))
                pre.append('let %s : List Int := %s' % (lname(name), aux))
            return env2
        raise Unsupported('local variable %s of unsupported type' % name)

    def tr_simple(self, s, env, pre):
        """expression statement"""
        k = s.get('kind')
        if k == 'ParenExpr':
            return self.tr_simple(inner(s)[0], env, pre)
        if k == 'BinaryOperator' and s.get('opcode') == '=':
            lhs, rhs = inner(s)
            pl, pr = [], []
            p = self.tr_lvalue(lhs, env, pl)
            if not is_scalar(p.ty):
                raise Unsupported('aggregate assignment')
            v = self.tr_int(rhs, env, pr)
            if pl and pr:
                raise Unsupported('side effects on both sides of =')
            if (pl or pr) and self.reads(lhs, env) & writes_of(rhs, env.aliases(), self.g.lookup):
                raise Unsupported('assignment target depends on a side effect of the value')
            pre.extend(pl + pr)
            self.assign(p, v, pre)
            return
        if k == 'CompoundAssignOperator':
            lhs, rhs = inner(s)
            op = s['opcode'][:-1]
            p = self.tr_lvalue(lhs, env, pre)
            if not is_scalar(p.ty) or self.T.kind(p.ty) is None:
                raise Unsupported('compound assignment to a non-integer')
            lt = self.T.parse(s['computeLHSType']['qualType'])
            rt = self.T.parse(s['computeResultType']['qualType'])
            pr = []
            y = self.tr_int(rhs, env, pr)
            if pr and self.reads(lhs, env) & writes_of(rhs, env.aliases(), self.g.lookup):
                raise Unsupported('compound assignment reads a variable written by its operand')
            pre.extend(pr)
            x = self.conv(p.read(), p.ty, lt)
            fake = {'kind': 'BinaryOperator', 'opcode': op, 'type': s['computeResultType'], 'range': s.get('range', {}),
                    'inner': [{'kind': '%val', 'val': x, 'type': s['computeLHSType'], 'src': lhs},
                              {'kind': '%val', 'val': y, 'type': rhs['type'], 'src': rhs}]}
            r = self.tr_binop(fake, env, pre)
            self.assign(p, self.conv(r, rt, p.ty).as_int(), pre)
            return
        if k == 'UnaryOperator' and s.get('opcode') in ('++', '--'):
            p = self.tr_lvalue(inner(s)[0], env, pre)
            kd = self.T.kind(p.ty) if is_scalar(p.ty) else None
            if kd is None:
                raise Unsupported('++/-- on a non-integer')
            x = p.read()
            r = Val('%s %s 1' % (x.opd(65), '+' if s['opcode'] == '++' else '-'), 65)
            if kd in ('u32', 'u64') or (RANGE[kd][1] < RANGE['i32'][1]):
                r = Val('%s %s' % (kd, r.arg()), 90) if kd != 'bool' else Val('b2i (%s != 0)' % r.text, 90)
            self.assign(p, r, pre)
            return
        if k == 'CallExpr':
            self.tr_call(s, env, pre)
            return
        if k in ('ImplicitCastExpr', 'CStyleCastExpr') and self.T.of(s)[0] == 'void':
            return self.tr_simple(inner(s)[0], env, pre)
        raise Unsupported('statement %s' % k)

    def tr_stmts(self, stmts, env, k, rk):
        """lines of a Lean term for `stmts` followed by the continuation k(env); rk(t) gives the
        lines that leave the current context with the function result t"""
        if not stmts:
            return k(env)
        s, rest = stmts[0], stmts[1:]
        kind = s.get('kind')
        go = lambda e: self.tr_stmts(rest, e, k, rk)
        if kind == 'NullStmt':
            return go(env)
        if kind == 'CompoundStmt':
            return self.tr_stmts(inner(s), env, lambda e: go(env), rk)
        if kind == 'ReturnStmt':
            return self.tr_return(s, env, rk)
        if kind == 'DeclStmt':
            pre = []
            for d in inner(s):
                if d.get('kind') != 'VarDecl':
                    raise Unsupported('declaration %s' % d.get('kind'))
                env = self.tr_decl(d, env, pre)
            return pre + go(env)
        if kind == 'IfStmt':
            return self.tr_if(s, rest, env, k, rk)
        if kind == 'ForStmt':
            return self.tr_for(s, rest, env, k, rk)
        if kind == 'SwitchStmt':
            return self.tr_if(self.switch_to_if(s, env), rest, env, k, rk)
        if kind in ('WhileStmt', 'DoStmt', 'GotoStmt', 'LabelStmt', 'BreakStmt', 'ContinueStmt'):
            raise Unsupported('statement %s' % kind)
        pre = []
        self.tr_simple(s, env, pre)
        return pre + go(env)

    def join(self, w, lines):
        """bind the variables w to the tuple computed by `lines`"""
        if len(w) == 1:
            return let_lines('%s : %s' % w[0], lines)
        t = self.tmp()
        return let_lines(t, lines) + ['let %s : %s := %s' % (v, ty, proj(t, i, len(w))) for i, (v, ty) in enumerate(w)]

    def tr_if(self, s, rest, env, k, rk):
        parts = inner(s)
        if s.get('hasInit') or s.get('hasVar') or len(parts) not in (2, 3):
            raise Unsupported('if with init/declaration')
        pre = []
        c = self.tr_expr(parts[0], env, pre).as_bool()
        then, els = [parts[1]], ([parts[2]] if len(parts) == 3 else [])
        env_t = env.knowing(self.nonnull_facts(parts[0], env))
        if contains_kind(parts[1], ('ReturnStmt',)) or (els and contains_kind(els[0], ('ReturnStmt',))):
            a = self.tr_stmts(then + rest, env, k, rk) if env_t is env else \
                self.tr_stmts(then, env_t, lambda e: self.tr_stmts(rest, env, k, rk), rk)
            b = self.tr_stmts(els + rest, env, k, rk)
            return pre + if_lines(c.text, a, b)
        w = self.wnames(then + els, env)
        if not w:
            # the branches assign nothing that is live: they contribute nothing to the term, but they are still
            # translated (and the result discarded) so that a construct outside the subset is reported, not skipped
            self.tr_stmts(then, env_t, lambda e: ['()'], rk)
            self.tr_stmts(els, env, lambda e: ['()'], rk)
            return pre + self.tr_stmts(rest, env, k, rk)
        end = lambda e: [tuple_text([v for v, _ in w])]
        a = self.tr_stmts(then, env_t, end, rk)
        b = self.tr_stmts(els, env, end, rk)
        return pre + self.join(w, if_lines(c.text, a, b)) + self.tr_stmts(rest, env, k, rk)

    def switch_to_if(self, s, env):
        cond, body = inner(s)[0], inner(s)[1]
        scratch = []
        self.tr_expr(cond, env, scratch)
        if scratch or body.get('kind') != 'CompoundStmt':
            raise Unsupported('switch shape')
        cases, cur = [], None
        for st in inner(body):
            kd = st.get('kind')
            if kd in ('CaseStmt', 'DefaultStmt'):
                if cur is not None:
                    raise Unsupported('switch case falls through')
                sub = inner(st)
                if kd == 'CaseStmt':
                    if len(sub) != 2 or const_value(sub[0]) is None:
                        raise Unsupported('case label')
                    cur = [sub[0], [sub[1]]]
                else:
                    cur = [None, [sub[0]]]
                if cur[1][0].get('kind') in ('CaseStmt', 'DefaultStmt'):
                    raise Unsupported('switch case falls through')
            elif kd == 'BreakStmt':
                if cur is None:
                    raise Unsupported('break outside a case')
                cases.append(cur)
                cur = None
            else:
                if cur is None:
                    raise Unsupported('statement before the first case')
                cur[1].append(st)
        if cur is not None:
            if cur[1][-1].get('kind') == 'BreakStmt':
                cur[1].pop()
            cases.append(cur)
        for lab, sts in cases:
            for st in sts:
                if contains_kind(st, ('BreakStmt', 'CaseStmt', 'DefaultStmt', 'ContinueStmt')):
                    raise Unsupported('break/case nested inside a switch case')
        labels = [const_value(l) for l, _ in cases if l is not None]
        if len(set(labels)) != len(labels) or sum(1 for l, _ in cases if l is None) > 1:
            raise Unsupported('duplicate case labels')
        node = {'kind': 'CompoundStmt', 'inner': [st for l, sts in cases if l is None for st in sts]}
        for lab, sts in reversed([c for c in cases if c[0] is not None]):
            test = {'kind': 'BinaryOperator', 'opcode': '==', 'type': {'qualType': 'int'}, 'inner': [cond, lab]}
            node = {'kind': 'IfStmt', 'inner': [test, {'kind': 'CompoundStmt', 'inner': sts}, node]}
        return node if node.get('kind') == 'IfStmt' else {'kind': 'IfStmt', 'inner': [
            {'kind': 'IntegerLiteral', 'value': '1', 'type': {'qualType': 'int'}}, node]}

    def tr_for(self, s, rest, env, k, rk):
        parts = inner(s)
        if len(parts) != 5 or parts[1].get('kind') is not None and parts[1] != {}:
            raise Unsupported('for statement shape')
        init, cond, inc, body = parts[0], parts[2], parts[3], parts[4]
        if init.get('kind') != 'DeclStmt' or len(inner(init)) != 1 or not inner(inner(init)[0]) or \
                const_value(strip(inner(inner(init)[0])[0])) != 0:
            raise Unsupported('for loop must declare its counter with initial value 0')
        d = inner(init)[0]
        iname, it = d['name'], self.T.of(d)
        kd = self.T.kind(it)
        if kd is None or kd == 'bool':
            raise Unsupported('for counter type')
        if cond.get('kind') != 'BinaryOperator' or cond.get('opcode') != '<':
            raise Unsupported('for condition must be i < N')
        lhs, bound = strip(inner(cond)[0]), inner(cond)[1]
        if lhs.get('kind') != 'DeclRefExpr' or lhs['referencedDecl'].get('name') != iname:
            raise Unsupported('for condition must be i < N')
        ic = strip(inc)
        if ic.get('kind') != 'UnaryOperator' or ic.get('opcode') != '++' or \
                strip(inner(ic)[0]).get('referencedDecl', {}).get('name') != iname:
            raise Unsupported('for increment must be i++')
        pb = []
        nval = self.tr_int(bound, env, pb)
        if pb:
            raise Unsupported('side effect in the loop bound')
        # the counter must be able to reach N without wrapping
        sb = strip(bound)
        kb = self.T.kind(self.T.of(sb)) if sb.get('kind') != 'IntegerLiteral' else None
        cb = self.const_eval(bound, env)
        fits = (nval.lit is not None and 0 <= nval.lit <= RANGE[kd][1]) or \
            (kb is not None and RANGE[kb][1] <= RANGE[kd][1] and RANGE[kb][0] >= 0) or \
            (cb is not None and 0 <= cb <= RANGE[kd][1])
        if not fits:
            raise Unsupported('loop bound may exceed the range of the counter')
        env_i = env.declare(Var(iname, lname(iname), it))
        wb = writes_of(body, env_i.aliases(), self.g.lookup)
        if iname in wb or (self.reads(bound, env) & wb):
            raise Unsupported('loop body modifies the counter or the bound')
        if contains_kind(body, ('BreakStmt', 'ContinueStmt')):
            raise Unsupported('break/continue in a loop')
        w = self.wnames([body], env)
        has_ret = contains_kind(body, ('ReturnStmt',))
        wt = [v for v, _ in w]
        if not has_ret:
            if not w:
                return self.tr_stmts(rest, env, k, rk)
            acc = wt[0] if len(w) == 1 else 'acc'
            head = [] if len(w) == 1 else ['let %s : %s := %s' % (v, ty, proj('acc', i, len(w))) for i, (v, ty) in enumerate(w)]
            bl = self.tr_stmts([body], env_i, lambda e: [tuple_text(wt)], rk)
            lines = ['forRange %s %s (fun %s %s =>' % (nval.arg(), tuple_text(wt), acc, lname(iname))] + \
                indent(tidy(head + bl), 4)
            lines[-1] += ')'
            return self.join(w, lines) + self.tr_stmts(rest, env, k, rk)
        rty = self.g.ret_lean(self.info)
        n = len(w) + 1
        head = ['let %s : %s := %s' % (v, ty, proj('acc', i + 1, n)) for i, (v, ty) in enumerate(w)]
        rk_in = lambda t: [tuple_text(['some %s' % (t if re.fullmatch(r'[\w.]+|\(.*\)', t) else '(' + t + ')')] + wt)]
        bl = self.tr_stmts([body], env_i, lambda e: [tuple_text(['none'] + wt)], rk_in)
        t = self.tmp()
        lines = ['forRange %s %s (fun acc %s =>' % (nval.arg(), tuple_text(['(none : Option %s)' % (rty if re.fullmatch(r'\w+', rty) else '(' + rty + ')')] + wt), lname(iname))] + \
            indent(['if %s.isSome then acc else' % proj('acc', 0, n)] + head + bl, 4)
        lines[-1] += ')'
        out = let_lines(t, lines)
        after = ['let %s : %s := %s' % (v, ty, proj(t, i + 1, n)) for i, (v, ty) in enumerate(w)]
        out += ['match %s with' % proj(t, 0, n), '| some r =>'] + indent(rk('r')) + ['| none =>'] + \
            indent(after + self.tr_stmts(rest, env, k, rk))
        return out

    def translate(self):
        info = self.info
        env = Env()
        params = []
        if info.ret[0] not in ('void',) and not is_scalar(info.ret):
            self.g.ret_obj(info)       # raises if unsupported
        for i, (n, t, _) in enumerate(info.params):
            v = self.var_of_param(n, t, i)
            if v.obj == ('cstring',) and i in info.written:
                raise Unsupported('C string parameter %s is written' % n)
            env = env.declare(v)
            params.append('(%s : %s)' % (v.lean, 'Option (List Int)' if v.nullable else lean_type(v.obj)))
        # a call whose callee is neither a named function nor a function-pointer MEMBER (`rds->callback_x`) has an effect the
        # write analysis cannot see (e.g. `callback(rds, ud)` through a pointer PARAMETER): never translate around it
        def indirect(n):
            if isinstance(n, dict):
                if n.get('kind') == 'CallExpr' and callee_of(n)[0] == '?':
                    return True
                return any(indirect(c) for c in inner(n))
            return False
        if indirect(info.body):
            raise Unsupported('indirect call through a function pointer that is not a member of the parser object')
        top = lambda t: [t]
        body = self.tr_stmts(inner(info.body), env, lambda e: top(self.final_tuple(None)), top)
        return params, body


# ----------------------------------------------------------------------------------------------
# whole-program driver and output

def info_ret(s):
    return s.replace('_Bool', 'bool')


def init_list(n, size, enums=None):
    """constant values of an InitListExpr (padded with zeros to `size`), or None"""
    n = strip(n) if n.get('kind') != 'InitListExpr' else n
    if n.get('kind') != 'InitListExpr':
        return None
    vals = []
    for e in inner(n):
        v = const_value(e, enums)
        if v is None:
            return None
        vals.append(v)
    if len(vals) > size:
        return None
    return vals + [0] * (size - len(vals))


def fmt_list(xs, width=96, ind=2):
    lines, cur = [], ''
    for i, x in enumerate(xs):
        piece = x + (', ' if i + 1 < len(xs) else '')
        if len(cur) + len(piece) > width and cur:
            lines.append(cur.rstrip())
            cur = ''
        cur += piece
    lines.append(cur)
    return ('\n' + ' ' * (ind + 1)).join(['[' + lines[0]] + lines[1:]) + ']'


class Gen:
    def __init__(self, repo):
        self.repo = repo
        self.tus, self.tus_n = {}, {}
        for f in FILES:
            self.tus[f] = TU(repo, f, [])
        for f in DUAL_FILES:
            self.tus_n[f] = TU(repo, f, ['-DRDSPARSER_DISABLE_UNICODE'])
        self.skipped_names = []
        for f in SKIPPED_FILES:
            try:
                self.skipped_names += [(n, f) for n in TU(repo, f, []).all_function_names]
            except Exception as e:      # the skipped files are only listed, never needed
                self.skipped_names.append(('<%s>' % f, f))
        self.records, self.record_order, self.record_src = {}, [], {}
        self.tables, self.table_text = {}, []
        self.infos, self.infos_n, self.order_src = {}, {}, []
        self.untranslated = []
        self.dups = set()
        for f in FILES:
            tu = self.tus[f]
            ty = Types(tu)
            for tag in tu.record_order:
                try:
                    fields = [(n, ty.obj(ty.parse(q)), q) for n, q in tu.records[tag]]
                except Unsupported:
                    continue
                if tag not in self.records:
                    self.record_order.append(tag)
                    self.records[tag] = [(n, t) for n, t, _ in fields]
                    self.record_src[tag] = fields
            for gname in tu.global_order:
                self._table(tu, ty, gname)
            for node in tu.functions:
                self._add_fn(tu, ty, node, self.infos)
        for f in DUAL_FILES:
            tu = self.tus_n[f]
            ty = Types(tu)
            for node in tu.functions:
                self._add_fn(tu, ty, node, self.infos_n, record=False)
        ch = True
        while ch:
            ch = False
            for d, look in ((self.infos, self.lookup), (self.infos_n, self.lookup_n)):
                for i in d.values():
                    ch = i.update(look) or ch
        self.done = {}

    def _add_fn(self, tu, ty, node, d, record=True):
        name = node['name']
        if name in d:
            self.dups.add(name)
        try:
            d[name] = FnInfo(tu, ty, node)
            if record:
                self.order_src.append(name)
        except Exception as e:
            if record:
                self.untranslated.append((name, 'signature: %s' % e))

    def _table(self, tu, ty, gname):
        node = tu.globals[gname]
        if 'const' not in node['type']['qualType'].split('[')[0].split():
            return
        try:
            t = ty.obj(ty.of(node))
            init = inner(node)[-1]
            if t[0] == 'arr' and t[1][0] == 'arr' and ty.kind(t[1][1]) is not None:
                rows = [init_list(r, t[1][2], tu.enum_consts) for r in inner(init)]
                if init.get('kind') != 'InitListExpr' or any(r is None for r in rows) or (t[2] is not None and len(rows) > t[2]):
                    return
                rows += [[0] * t[1][2]] * ((t[2] or len(rows)) - len(rows))
                kd = ty.kind(t[1][1])
                text = '[\n  ' + ',\n  '.join(fmt_list([str(wrap_value(kd, v)) for v in r]) for r in rows) + ']'
                self.tables[gname] = ('arr', ('arr', t[1][1], t[1][2]), len(rows))
                self.table_text.append((gname, 'List (List Int)', text, '%s — src/%s:%s' % (node['type']['qualType'], tu.fname, node_loc(node)[1])))
            elif t[0] == 'arr' and ty.kind(t[1]) is not None and t[2] is not None:
                vals = init_list(init, t[2], tu.enum_consts)
                if vals is None:
                    return
                kd = ty.kind(t[1])
                self.tables[gname] = t
                self.table_text.append((gname, 'List Int', fmt_list([str(wrap_value(kd, v)) for v in vals]),
                                        '%s — src/%s:%s' % (node['type']['qualType'], tu.fname, node_loc(node)[1])))
        except Unsupported:
            return

    def lookup(self, name):
        return BUILTIN_FNS.get(name) or self.infos.get(name)

    def lookup_n(self, name):
        return BUILTIN_FNS.get(name) or self.infos_n.get(name) or self.infos.get(name)

    # ---- shapes of translated functions ----------------------------------------------------
    def param_obj(self, info, t):
        if t[0] == 'ptr':
            p = t[1]
            if p[0] == 'struct':
                return p
            if p[0] == 'str':
                return ('cstr',)
            return ('arr', p, None)
        return t

    def ret_obj(self, info):
        r = info.ret
        if is_scalar(r):
            return r
        if r[0] == 'ptr' and r[2] and r[1][0] == 'struct':
            return r[1]
        if r[0] == 'ptr' and r[2] and r[1][0] == 'str':
            return ('cstr',)
        raise Unsupported('return type %s' % info.ret_s)

    def components(self, info):
        comps = []
        if info.ret[0] != 'void':
            comps.append(('ret', None, lean_type(self.ret_obj(info))))
        for i in sorted(info.written):
            n, t, _ = info.params[i]
            comps.append(('p', n, lean_type(self.param_obj(info, t))))
        if info.uses_log:
            comps.append(('log', None, 'CLog'))
        return comps

    def ret_lean(self, info):
        c = self.components(info)
        return ' × '.join(x[2] for x in c) if c else 'Unit'

    # ---- ordering --------------------------------------------------------------------------
    def topo(self):
        seen, out = set(), []

        def visit(n, stack):
            if n in seen or n not in self.infos:
                return
            if n in stack:
                raise Unsupported('recursion through %s' % n)
            for c in self.infos[n].callees:
                visit(c, stack + [n])
            seen.add(n)
            out.append(n)
        for n in self.order_src:
            try:
                visit(n, [])
            except Unsupported as e:
                seen.add(n)
                out.append(n)
        return out

    # ---- translation -----------------------------------------------------------------------
    def tr_one(self, info, utext):
        tr = FnTr(self, info, utext)
        params, body = tr.translate()
        return tr, params, body

    def run(self):
        self.emitted = []       # (name, [lean text blocks])
        self.side = []
        for name in self.topo():
            info = self.infos[name]
            if name in BY_DESIGN:
                self.untranslated.append((name, BY_DESIGN[name]))
                continue
            if name in self.dups:
                self.untranslated.append((name, 'defined in more than one file'))
                continue
            try:
                blocks = self.tr_fn(info)
            except Unsupported as e:
                self.untranslated.append((name, str(e)))
                continue
            except RecursionError:
                self.untranslated.append((name, 'translator recursion limit'))
                continue
            except Exception as e:      # never crash: an unforeseen AST shape is an untranslated function
                self.untranslated.append((name, 'internal: %s: %s' % (type(e).__name__, e)))
                continue
            self.done[name] = info
            self.emitted.append((name, blocks))
        for n, f in self.skipped_names:
            self.untranslated.append((n, 'by design: %s is not translated' % f))

    def header(self, info, suffix, with_unicode):
        ps = []
        return ps

    def fn_text(self, info, lean_name, tr, params, body, with_unicode):
        ps = (['(unicode : Bool)'] if with_unicode else []) + params + (['(log : CLog)'] if info.uses_log else [])
        doc = ['/-- `%s` — src/%s:%s' % (info.signature(), info.file, info.line)]
        if tr.side:
            doc.append('Side conditions (undefined behaviour in C otherwise):')
            doc += ['* ' + s for s in tr.side]
        doc[-1] += ' -/'
        head = 'def %s%s : %s :=' % (lean_name, ''.join(' ' + p for p in ps), self.ret_lean(info))
        return '\n'.join(doc + [head] + indent(tidy(body)))

    def tr_fn(self, info):
        name = info.name
        if info.file not in DUAL_FILES:
            tr, params, body = self.tr_one(info, 'unicode')
            info.uses_unicode = tr.uses_unicode
            self.side += [(name, s) for s in tr.side]
            return self.aux_text(tr) + [self.fn_text(info, 'c_' + name, tr, params, body, tr.uses_unicode)]
        info_n = self.infos_n.get(name)
        if info_n is None:
            raise Unsupported('not present in the RDSPARSER_DISABLE_UNICODE build')
        if info_n.written != info.written or info_n.uses_log != info.uses_log or \
                [p[0] for p in info_n.params] != [p[0] for p in info.params]:
            raise Unsupported('the two charset builds differ in shape')
        tu_, pu, bu = self.tr_one(info, 'unicode')
        tn_, pn, bn = self.tr_one(info_n, 'unicode')
        if (pu, bu, tu_.aux) == (pn, bn, tn_.aux):
            info.uses_unicode = tu_.uses_unicode
            self.side += [(name, s) for s in tu_.side]
            return self.aux_text(tu_) + [self.fn_text(info, 'c_' + name, tu_, pu, bu, tu_.uses_unicode)]
        tu_, pu, bu = self.tr_one(info, 'true')
        tn_, pn, bn = self.tr_one(info_n, 'false')
        if pu != pn:
            raise Unsupported('the two charset builds differ in parameters')
        info.uses_unicode = True
        self.side += [(name, s) for s in tu_.side] + [(name, s + ' [narrow build]') for s in tn_.side if s not in tu_.side]
        args = ''.join(' ' + re.match(r'\((\S+) :', p).group(1) for p in pu) + (' log' if info.uses_log else '')
        disp = '/-- `%s`: default build (`unicode = true`) or `RDSPARSER_DISABLE_UNICODE` build -/\n' % name + \
            'def c_%s (unicode : Bool)%s%s : %s :=\n  if unicode then c_%s_U%s else c_%s_N%s' % (
                name, ''.join(' ' + p for p in pu), ' (log : CLog)' if info.uses_log else '',
                self.ret_lean(info), name, args, name, args)
        return self.aux_text(tu_) + [self.fn_text(info, 'c_%s_U' % name, tu_, pu, bu, False)] + \
            self.aux_text(tn_) + [self.fn_text(info_n, 'c_%s_N' % name, tn_, pn, bn, False), disp]

    def aux_text(self, tr):
        return ['def %s : %s :=\n  %s' % a for a in tr.aux]

    # ---- structures ------------------------------------------------------------------------
    def string_caps(self):
        """capacity of each packed-string field of struct librdsparser: the literal passed to
        rdsparser_string_init in rdsparser_init (fallback: RDSPARSER_*_LENGTH of the pinned header)"""
        caps, src = {}, {}
        info = self.infos.get('rdsparser_init')

        def walk(n):
            if isinstance(n, dict):
                if n.get('kind') == 'CallExpr' and callee_of(n) == ('fn', 'rdsparser_string_init'):
                    a = inner(n)[1:]
                    m = a[0]
                    while m.get('kind') != 'MemberExpr' and inner(m):
                        m = inner(m)[0]
                    v = const_value(a[1])
                    if m.get('kind') == 'MemberExpr' and v is not None:
                        if caps.get(m['name'], v) != v:
                            src[m['name']] = 'conflict'
                        caps[m['name']] = v
                for c in inner(n):
                    walk(c)
        if info is not None:
            walk(info.body)
        out = {}
        for f, t in self.records.get('librdsparser', []):
            if t == ('cstr',) or (t[0] == 'arr' and t[1] == ('cstr',)):
                if f in caps and src.get(f) != 'conflict':
                    out[f] = (caps[f], 'rdsparser_init')
                else:
                    out[f] = ({'ps': 8, 'rt': 64, 'ptyn': 8}.get(f, 0), 'fallback')
        return out

    def zero_of(self, t, cap=None):
        if is_scalar(t):
            return '0'
        if t[0] == 'struct':
            return 'C_%s.zero' % t[1]
        if t[0] == 'cstr':
            return 'CStr.zero %d' % cap
        if t[0] == 'arr' and t[2] is not None:
            z = self.zero_of(t[1], cap)
            return 'List.replicate %d %s' % (t[2], z if ' ' not in z else '(' + z + ')')
        raise Unsupported('zero of %r' % (t,))

    def struct_text(self):
        out = []
        caps = self.string_caps()
        deps = {}
        for tag in self.record_order:
            deps[tag] = set()

            def dep(t, tag=tag):
                if t[0] == 'struct':
                    deps[tag].add(t[1])
                elif t[0] == 'arr':
                    dep(t[1])
            for _, t in self.records[tag]:
                dep(t)
        used = set()

        def need(tag):
            if tag in used or tag not in self.records:
                return
            used.add(tag)
            for d in deps[tag]:
                need(d)
        need('librdsparser')
        for i in self.infos.values():
            for _, t, _ in i.params:
                if t[0] == 'ptr' and t[1][0] == 'struct':
                    need(t[1][1])
        emitted = []

        def emit(tag):
            if tag in emitted:
                return
            for d in sorted(deps[tag]):
                emit(d)
            emitted.append(tag)
            try:
                lines = ['/-- `struct %s` -/' % tag, 'structure C_%s where' % tag]
                zs = []
                for (f, t), (_, _, q) in zip(self.records[tag], self.record_src[tag]):
                    cap = caps.get(f, (None, None)) if tag == 'librdsparser' else (None, None)
                    note = q + (', capacity %d (%s)' % cap if cap[0] is not None else '')
                    lines.append('  %s : %s  -- %s' % (lname(f), lean_type(t), note))
                    zs.append('%s := %s' % (lname(f), self.zero_of(t, cap[0])))
                lines.append('deriving DecidableEq, Repr')
                lines.append('')
                lines.append('/-- all bytes zero (`memset`) -/')
                lines.append('def C_%s.zero : C_%s :=\n  { %s }' % (tag, tag, ',\n    '.join(zs)))
                lines.append('instance : Inhabited C_%s := ⟨C_%s.zero⟩' % (tag, tag))
                out.append('\n'.join(lines))
            except Unsupported as e:
                out.append('-- struct %s not representable: %s' % (tag, e))
        for tag in self.record_order:
            if tag in used:
                emit(tag)
        return out

    def output(self):
        L = []
        L.append('/- AUTOGENERATED by tools/c2lean.py from the clang-14 AST of src/*.c (see tools/C2LEAN_SPEC.md).\n'
                 '   Do not edit; regenerated on every run.\n\n'
                 '   Assumptions of the translation (the semantics given to the C subset):\n'
                 '   * every scalar is an `Int`; a value of C type T is assumed to lie in the range of T at\n'
                 '     function entry (parameters, struct fields, array elements); conversions that cannot\n'
                 '     change an in-range value are omitted, all others apply the wrap `u8 … i64`;\n'
                 '   * arithmetic in (signed) `int`/`long` does not overflow (undefined behaviour in C);\n'
                 '     arithmetic in `unsigned int`/`unsigned long` wraps (`u32`/`u64`);\n'
                 '   * plain `char` is signed (x86-64); an enum type is `unsigned int` unless it has a\n'
                 '     negative enumerator;\n'
                 '   * `band bor bxor shl shr` are exact on non-negative operands only; out-of-range\n'
                 '     subscripts read 0 / are ignored: the doc comment of each function lists these side\n'
                 '     conditions (collected in `sideConditions`);\n'
                 '   * function pointers and `void *` are opaque integers (0 = NULL); calling `rds->callback_x`\n'
                 '     appends a `CEvent` to the log threaded through the functions that can reach a callback;\n'
                 '   * an uninitialised local reads as 0 / zero-filled (indeterminate in C);\n'
                 '   * a `const char *` parameter that reaches `strlen`/`strtol` is a NUL-terminated C string: the\n'
                 '     `List Int` of its bytes as `unsigned char` (1..255) up to the NUL, which is implicit (offset\n'
                 '     `length` reads 0); `p + K` is `List.drop K`; a plain `char` read is `i8` of the byte; such a\n'
                 '     parameter that the function tests against NULL is an `Option (List Int)`; `strlen`,\n'
                 '     `isxdigit` (function or glibc macro; truth value only) and `strtol(s, &end, 16)` are the\n'
                 '     TRUSTED models `libc_strlen`, `libc_isxdigit`, `libc_strtol16` of RdsC/Prelude.lean, `end`\n'
                 '     becoming the rest of `s` from the returned offset; a local `char` array handed to `strtol`\n'
                 '     is the string it holds (`cstrOfChars`: up to its first NUL).\n-/')
        L.append('import RdsC.Prelude\nset_option linter.unusedVariables false\nset_option maxRecDepth 4096\n\nnamespace RDS.C')
        L += self.struct_text()
        L.append('/-- the callback log -/\nabbrev CLog := List (CEvent C_librdsparser)')
        for name, ty, text, note in self.table_text:
            L.append('/-- `%s` -/\ndef c_%s : %s := %s' % (note, name, ty, text))
        for name, blocks in self.emitted:
            L += blocks

        def strlist(xs):
            return '[' + ',\n   '.join(xs) + ']'
        q = lambda s: json.dumps(s, ensure_ascii=False)
        L.append('/-- the C functions translated above -/\ndef translated : List String :=\n  ' +
                 strlist([q(n) for n, _ in self.emitted]))
        L.append('/-- the C functions not translated, with the reason -/\ndef untranslated : List (String × String) :=\n  ' +
                 strlist(['(%s, %s)' % (q(n), q(r)) for n, r in self.untranslated]))
        L.append('/-- side conditions under which the translation is faithful: (function, condition) -/\n'
                 'def sideConditions : List (String × String) :=\n  ' +
                 strlist(['(%s, %s)' % (q(n), q(s)) for n, s in self.side]))
        L.append('end RDS.C')
        return '\n\n'.join(L) + '\n'


def main():
    ap = argparse.ArgumentParser()
    ap.add_argument('--repo', default=None)
    ap.add_argument('--out', default=None)
    ap.add_argument('pos', nargs='*')
    a = ap.parse_args()
    here = os.path.dirname(os.path.dirname(os.path.abspath(__file__)))
    repo = a.repo or (a.pos[0] if len(a.pos) > 0 else '/repo')
    out = a.out or (a.pos[1] if len(a.pos) > 1 else os.path.join(here, 'lean', 'RdsC', 'Translated.lean'))
    sys.setrecursionlimit(20000)
    g = Gen(os.path.abspath(repo))
    g.run()
    text = g.output()
    with open(out, 'w', encoding='utf-8') as f:
        f.write(text)
    print('c2lean: %d translated, %d untranslated -> %s (%d bytes)' % (
        len(g.emitted), len(g.untranslated), out, len(text.encode('utf-8'))))
    for n, r in g.untranslated:
        if not r.startswith('by design'):
            print('  UNTRANSLATED %s: %s' % (n, r))


if __name__ == '__main__':
    main()
