/* segcheck.h — writable-segment immutability (C19): the library is linked as a shared object
 * (-z relro -z now); its writable PT_LOAD segments must be byte-identical before and after an
 * ops file. Any hidden static/global state that is ever written shows up here even when it
 * is functionally invisible single-threaded. */

#include <link.h>
#include <dlfcn.h>

#define SEG_MAX 8
static struct { const unsigned char *addr; size_t len; unsigned char *copy; } segs[SEG_MAX];
static int nsegs = 0;

static int seg_cb(struct dl_phdr_info *info, size_t size, void *data)
{
    (void)size; (void)data;
    if (!info->dlpi_name || !strstr(info->dlpi_name, "librds_")) return 0;
    for (int i = 0; i < info->dlpi_phnum && nsegs < SEG_MAX; i++) {
        const ElfW(Phdr) *ph = &info->dlpi_phdr[i];
        if (ph->p_type == PT_LOAD && (ph->p_flags & PF_W)) {
            segs[nsegs].addr = (const unsigned char *)(info->dlpi_addr + ph->p_vaddr);
            segs[nsegs].len = ph->p_memsz;
            nsegs++;
        }
    }
    return 0;
}

static void seg_snapshot(void)
{
    /* make sure lazy state (if any) is resolved before the snapshot: call one API function */
    (void)rdsparser_pty_lookup_name(0, false);
    dl_iterate_phdr(seg_cb, NULL);
    for (int i = 0; i < nsegs; i++) {
        segs[i].copy = malloc(segs[i].len);
        memcpy(segs[i].copy, segs[i].addr, segs[i].len);
    }
}

static void seg_compare(FILE *out)
{
    size_t total = 0, changed = 0;
    for (int i = 0; i < nsegs; i++) {
        total += segs[i].len;
        for (size_t j = 0; j < segs[i].len; j++)
            if (segs[i].copy[j] != segs[i].addr[j]) {
                if (changed < 8) fprintf(out, "SEGDIFF segment %d offset %zu: %02x -> %02x\n", i, j, segs[i].copy[j], segs[i].addr[j]);
                changed++;
            }
    }
    fprintf(out, "SEG segments=%d bytes=%zu changed=%zu\n", nsegs, total, changed);
}
