/* extract.c — T1 of DESIGN.md §4.1: reads every constant table and compile-time constant
 * the Lean model uses out of the library compiled from /repo's current working tree, by
 * evaluating the real functions over their entire finite domain through the public API.
 * Output: a line-oriented dump that check.py turns into RdsModel/Generated.lean.
 *
 * usage: extract [--full]     (--full adds the 65 536 PI x 256 ECC nibble-only sweep)
 */
#include <stdio.h>
#include <stdlib.h>
#include <string.h>
#include <stdint.h>
#include <librdsparser.h>
#include <librdsparser_private.h>

static rdsparser_t *fresh(void)
{
    static union { rdsparser_t r; long long align; } u;
    rdsparser_init(&u.r);
    return &u.r;
}

static void parse(rdsparser_t *r, unsigned a, unsigned b, unsigned c, unsigned d, unsigned ea, unsigned eb, unsigned ec, unsigned ed)
{
    rdsparser_data_t dd = { (uint16_t)a, (uint16_t)b, (uint16_t)c, (uint16_t)d };
    rdsparser_error_t ee = { (uint8_t)ea, (uint8_t)eb, (uint8_t)ec, (uint8_t)ed };
    rdsparser_parse(r, dd, ee);
}

/* (stored?, code point) of cell `cell` of text `s` */
static void cell(const rdsparser_string_t *s, int idx, int *stored, unsigned long *cp)
{
    *stored = rdsparser_string_get_errors(s)[idx] != RDSPARSER_STRING_ERROR_UNCORRECTABLE;
    *cp = (unsigned long)rdsparser_string_get_content(s)[idx];
}

static void print_str(const char *tag, int arg, int rbds, const char *s)
{
    printf("%s %d %d ", tag, arg, rbds);
    if (!s) { printf("NULL\n"); return; }
    size_t n = strlen(s);          /* under ASan: a missing terminator is an abort */
    for (size_t i = 0; i < n; i++) printf("%02x", (unsigned char)s[i]);
    printf(".\n");
}

/* every pointer a lookup function returned, with a copy of the string it pointed to at that moment */
static struct kept { const char *tag; int arg, rbds; const char *p; char first[64]; } kept[256 * 8];
static int nkept;
static const char *keep(const char *tag, int arg, int rbds, const char *p)
{
    struct kept *k = &kept[nkept++];
    k->tag = tag; k->arg = arg; k->rbds = rbds; k->p = p;
    if (p) { strncpy(k->first, p, sizeof(k->first) - 1); k->first[sizeof(k->first) - 1] = 0; }
    return p;
}

#ifdef SEGCHECK
#include "segcheck.h"
#endif

int main(int argc, char **argv)
{
    int full = argc > 1 && !strcmp(argv[1], "--full");
#ifdef SEGCHECK
    /* C18 "constant strings" / pure lookups: the library (a shared object here) must not write to its own data segment while
     * every lookup function is called over its whole domain, twice, in two different orders */
    seg_snapshot();
    for (int round = 0; round < 2; round++)
        for (int i = 0; i < 256; i++) {
            int a = round ? 255 - i : i;
            for (int rbds = 0; rbds < 2; rbds++) {
                (void)rdsparser_pty_lookup_name((rdsparser_pty_t)a, rbds);
                (void)rdsparser_pty_lookup_short((rdsparser_pty_t)(a ^ 1), !rbds);
                (void)rdsparser_pty_lookup_long((rdsparser_pty_t)a, rbds);
                (void)rdsparser_pty_lookup_name((rdsparser_pty_t)a, rbds);
            }
            (void)rdsparser_country_lookup_name((rdsparser_country_t)a);
            (void)rdsparser_country_lookup_iso((rdsparser_country_t)a);
            (void)rdsparser_country_lookup_iso((rdsparser_country_t)a);
        }
    seg_compare(stdout);
    (void)full;
    return 0;
#endif
    printf("CONST capPs %d\nCONST capRt %d\nCONST capPtyn %d\nCONST afBytes %d\nCONST countryCount %d\n",
           RDSPARSER_PS_LENGTH, RDSPARSER_RT_LENGTH, RDSPARSER_PTYN_LENGTH, RDSPARSER_AF_BUFFER_SIZE, RDSPARSER_COUNTRY_COUNT);
    printf("CONST errNone %d\nCONST errSmall %d\nCONST errLarge %d\nCONST errUncorrectable %d\nCONST strUncorrectable %d\n",
           RDSPARSER_BLOCK_ERROR_NONE, RDSPARSER_BLOCK_ERROR_SMALL, RDSPARSER_BLOCK_ERROR_LARGE, RDSPARSER_BLOCK_ERROR_UNCORRECTABLE, RDSPARSER_STRING_ERROR_UNCORRECTABLE);
    printf("CONST textPs %d\nCONST textRt %d\nCONST textPtyn %d\nCONST typeInfo %d\nCONST typeData %d\nCONST rtFlagA %d\nCONST rtFlagB %d\n",
           RDSPARSER_TEXT_PS, RDSPARSER_TEXT_RT, RDSPARSER_TEXT_PTYN, RDSPARSER_BLOCK_TYPE_INFO, RDSPARSER_BLOCK_TYPE_DATA, RDSPARSER_RT_FLAG_A, RDSPARSER_RT_FLAG_B);
    printf("CONST countryUnknown %d\nCONST piUnknown %d\nCONST ptyUnknown %d\nCONST eccUnknown %d\nCONST tpUnknown %d\nCONST taUnknown %d\nCONST msUnknown %d\n",
           RDSPARSER_COUNTRY_UNKNOWN, RDSPARSER_PI_UNKNOWN, RDSPARSER_PTY_UNKNOWN, RDSPARSER_ECC_UNKNOWN, RDSPARSER_TP_UNKNOWN, RDSPARSER_TA_UNKNOWN, RDSPARSER_MS_UNKNOWN);
#ifdef RDSPARSER_DISABLE_UNICODE
    printf("CONST unicode 0\n");
#else
    printf("CONST unicode 1\n");
#endif

    /* charset: every byte in every character lane of every text-carrying group */
    int lane_dep = 0;
    for (int b = 0; b < 256; b++) {
        int st[10]; unsigned long cp[10]; int n = 0;
        rdsparser_t *r;
        r = fresh(); parse(r, 0x1234, 0x0000, 0, (b << 8) | 0x41, 0, 0, 0, 0); cell(rdsparser_get_ps(r), 0, &st[n], &cp[n]); n++;
        r = fresh(); parse(r, 0x1234, 0x0803, 0, 0x4100 | b, 0, 0, 0, 0);      cell(rdsparser_get_ps(r), 7, &st[n], &cp[n]); n++;
        r = fresh(); parse(r, 0x1234, 0x2000, (b << 8) | 0x41, 0x4141, 0, 0, 0, 0); cell(rdsparser_get_rt(r, 0), 0, &st[n], &cp[n]); n++;
        r = fresh(); parse(r, 0x1234, 0x2000, 0x4100 | b, 0x4141, 0, 0, 0, 0); cell(rdsparser_get_rt(r, 0), 1, &st[n], &cp[n]); n++;
        r = fresh(); parse(r, 0x1234, 0x201F, 0x4141, (b << 8) | 0x41, 0, 0, 0, 0); cell(rdsparser_get_rt(r, 1), 62, &st[n], &cp[n]); n++;
        r = fresh(); parse(r, 0x1234, 0x201F, 0x4141, 0x4100 | b, 0, 0, 0, 0); cell(rdsparser_get_rt(r, 1), 63, &st[n], &cp[n]); n++;
        r = fresh(); parse(r, 0x1234, 0x2805, 0, (b << 8) | 0x41, 0, 0, 0, 0); cell(rdsparser_get_rt(r, 0), 10, &st[n], &cp[n]); n++;
        r = fresh(); parse(r, 0x1234, 0x2805, 0, 0x4100 | b, 0, 0, 0, 0);      cell(rdsparser_get_rt(r, 0), 11, &st[n], &cp[n]); n++;
        r = fresh(); parse(r, 0x1234, 0xA000, (b << 8) | 0x41, 0x4141, 0, 0, 0, 0); cell(rdsparser_get_ptyn(r), 0, &st[n], &cp[n]); n++;
        r = fresh(); parse(r, 0x1234, 0xA001, 0x4141, 0x4100 | b, 0, 0, 0, 0); cell(rdsparser_get_ptyn(r), 7, &st[n], &cp[n]); n++;
        for (int i = 1; i < n; i++) if (st[i] != st[0] || (st[0] && cp[i] != cp[0])) lane_dep = 1;
        printf("G0 %d %d %lu\n", b, st[0], st[0] ? cp[0] : 32UL);
    }
    printf("CONST laneDependent %d\n", lane_dep);

    /* ECC -> country: row 0 = PI unknown, rows 1..16 = PI nibble 0..15 */
    for (int row = 0; row <= 16; row++) {
        printf("ECC %d", row);
        for (int e = 0; e < 256; e++) {
            rdsparser_t *r = fresh();
            unsigned pi = row == 0 ? 0x1234 : (unsigned)(((row - 1) << 12) | 0x0ABC);
            parse(r, pi, 0x1000, (unsigned)e, 0, row == 0 ? 1 : 0, 0, 0, 0);
            printf(" %d", (int)rdsparser_get_country(r));
        }
        printf("\n");
    }
    if (full) {
        /* the country depends on the PI nibble only: all 65 536 PI values x 256 ECC */
        long bad = 0;
        static unsigned char ref[16][256];
        rdsparser_t *r = fresh();
        for (int nib = 0; nib < 16; nib++)
            for (int e = 0; e < 256; e++) {
                rdsparser_clear(r);
                parse(r, (unsigned)((nib << 12) | 0x0ABC), 0x1000, (unsigned)e, 0, 0, 0, 0, 0);
                ref[nib][e] = rdsparser_get_country(r);
            }
        for (unsigned pi = 0; pi < 65536; pi++)
            for (int e = 0; e < 256; e++) {
                rdsparser_clear(r);
                parse(r, pi, 0x1000, (unsigned)e, 0, 0, 0, 0, 0);
                if (rdsparser_get_country(r) != ref[pi >> 12][e]) { if (!bad) printf("ECCBAD %u %d\n", pi, e); bad++; }
            }
        printf("CONST eccNibbleOnlyViolations %ld\n", bad);
    }

    /* PTY and country lookups over all 256 argument values */
    for (int a = -128; a < 128; a++)
        for (int rbds = 0; rbds < 2; rbds++) {
            print_str("PTYNAME", a, rbds, keep("PTYNAME", a, rbds, rdsparser_pty_lookup_name((rdsparser_pty_t)a, rbds)));
            print_str("PTYSHORT", a, rbds, keep("PTYSHORT", a, rbds, rdsparser_pty_lookup_short((rdsparser_pty_t)a, rbds)));
            print_str("PTYLONG", a, rbds, keep("PTYLONG", a, rbds, rdsparser_pty_lookup_long((rdsparser_pty_t)a, rbds)));
        }
    for (int a = 0; a < 256; a++) {
        print_str("CNAME", a, 0, keep("CNAME", a, 0, rdsparser_country_lookup_name((rdsparser_country_t)a)));
        print_str("CISO", a, 0, keep("CISO", a, 0, rdsparser_country_lookup_iso((rdsparser_country_t)a)));
    }
    /* "constant string": what a kept pointer shows after all the other lookups have been made must be what it showed
     * when it was returned */
    for (int i = 0; i < nkept; i++)
        if (kept[i].p && strcmp(kept[i].p, kept[i].first) != 0) {
            printf("UNSTABLE %s %d %d ", kept[i].tag, kept[i].arg, kept[i].rbds);
            for (const char *c = kept[i].first; *c; c++) printf("%02x", (unsigned char)*c);
            printf(". ");
            for (const char *c = kept[i].p; *c; c++) printf("%02x", (unsigned char)*c);
            printf(".\n");
        }
    /* "a pure function of the argument": the answer for y must not depend on what was asked before — every ordered pair (x, y)
     * of arguments, y asked twice in a row, compared with the answer y got in the single sweep above (which the Lean side checks) */
    {
        static const char *tags[5] = { "PTYNAME", "PTYSHORT", "PTYLONG", "CNAME", "CISO" };
        for (int f = 0; f < 5; f++) {
            int dom = f < 3 ? 512 : 256, reported = 0;
            static int idx[512];
            long npairs = 0;
            for (int x = 0; x < dom && reported < 3; x++)
                for (int y = 0; y < dom && reported < 3; y++) {
                    int ax = f < 3 ? (x >> 1) - 128 : x, rx = f < 3 ? (x & 1) : 0;
                    int ay = f < 3 ? (y >> 1) - 128 : y, ry = f < 3 ? (y & 1) : 0;
                    const char *r1, *r2, *base = NULL;
                    switch (f) {
                    case 0: (void)rdsparser_pty_lookup_name((rdsparser_pty_t)ax, rx); r1 = rdsparser_pty_lookup_name((rdsparser_pty_t)ay, ry); r2 = rdsparser_pty_lookup_name((rdsparser_pty_t)ay, ry); break;
                    case 1: (void)rdsparser_pty_lookup_short((rdsparser_pty_t)ax, rx); r1 = rdsparser_pty_lookup_short((rdsparser_pty_t)ay, ry); r2 = rdsparser_pty_lookup_short((rdsparser_pty_t)ay, ry); break;
                    case 2: (void)rdsparser_pty_lookup_long((rdsparser_pty_t)ax, rx); r1 = rdsparser_pty_lookup_long((rdsparser_pty_t)ay, ry); r2 = rdsparser_pty_lookup_long((rdsparser_pty_t)ay, ry); break;
                    case 3: (void)rdsparser_country_lookup_name((rdsparser_country_t)ax); r1 = rdsparser_country_lookup_name((rdsparser_country_t)ay); r2 = rdsparser_country_lookup_name((rdsparser_country_t)ay); break;
                    default: (void)rdsparser_country_lookup_iso((rdsparser_country_t)ax); r1 = rdsparser_country_lookup_iso((rdsparser_country_t)ay); r2 = rdsparser_country_lookup_iso((rdsparser_country_t)ay); break;
                    }
                    npairs++;
                    if (x == 0) {   /* first row: remember where the single-sweep answer for y is */
                        idx[y] = -1;
                        for (int i = 0; i < nkept; i++)
                            if (kept[i].tag == tags[f] && kept[i].arg == ay && kept[i].rbds == ry) { idx[y] = i; break; }
                    }
                    base = idx[y] >= 0 && kept[idx[y]].p ? kept[idx[y]].first : NULL;
                    for (int k = 0; k < 2; k++) {
                        const char *r = k ? r2 : r1;
                        if ((r == NULL) != (base == NULL) || (r && strcmp(r, base) != 0)) {
                            printf("HISTORY %s %d %d %d %d %d ", tags[f], ax, rx, ay, ry, k + 1);
                            for (const char *c = r ? r : "(null)"; *c; c++) printf("%02x", (unsigned char)*c);
                            printf(". ");
                            for (const char *c = base ? base : "(null)"; *c; c++) printf("%02x", (unsigned char)*c);
                            printf(".\n");
                            reported++;
                            break;
                        }
                    }
                }
            printf("NOTE historyPairs%s %ld\n", tags[f], npairs);
        }
    }
    printf("END\n");
    return 0;
}
