/* wrapmalloc.c — linked with -Wl,--wrap=malloc: makes the next malloc fail on demand
 * (C05: allocation failure at the library's single allocation site). */
#include <stddef.h>
int verif_malloc_fail_next = 0;
long verif_malloc_fail_count = 0;
void *__real_malloc(size_t n);
void *__wrap_malloc(size_t n)
{
    if (verif_malloc_fail_next) {
        verif_malloc_fail_next = 0;
        verif_malloc_fail_count++;
        return NULL;
    }
    return __real_malloc(n);
}
