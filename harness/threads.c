/* threads.c — per-thread parser instances driven concurrently (C19), built with gcc -fsanitize=thread.
 * usage: threads <ops-file-1> <ops-file-2> ...   (thread i writes <ops-file-i>.ttrace)
 * Every harness global is thread-local, so any data race TSan reports is in the library. */
#define THREADLOCAL __thread
#define HARNESS_THREADS 1
#define HARNESS_NO_MAIN 1
#include "harness.c"
#include <pthread.h>

static void *worker(void *arg)
{
    const char *path = arg;
    char outp[4096];
    snprintf(outp, sizeof outp, "%s.ttrace", path);
    FILE *out = fopen(outp, "w");
    if (!out) return (void *)1;
    int rc = run_ops_file(path, out);
    fclose(out);
    return (void *)(long)rc;
}

int main(int argc, char **argv)
{
    pthread_t th[64];
    int n = argc - 1;
    if (n < 1 || n > 64) { fprintf(stderr, "usage: threads <ops>...\n"); return 2; }
    for (int i = 0; i < n; i++) pthread_create(&th[i], NULL, worker, argv[i + 1]);
    int bad = 0;
    for (int i = 0; i < n; i++) { void *r; pthread_join(th[i], &r); if (r) bad = 1; }
    return bad;
}
