/* harness.c — drives the real librdsparser (compiled from /repo's working tree) in-process on
 * an ops file and prints the canonical trace described in DESIGN.md §4.2.
 *
 * usage: harness <ops-file> > trace
 *
 * Only the public API is used (plus sizeof(rdsparser_t) from the private header for
 * caller-allocated storage). No pointer, address or timing value is ever printed.
 */
#include <stdio.h>
#include <stdlib.h>
#include <string.h>
#include <stdint.h>
#include <stdbool.h>
#include <librdsparser.h>
#include <librdsparser_private.h>

#ifndef THREADLOCAL
#define THREADLOCAL
#endif
#define NINST 8
#define CANARY 64
#define MAXEV 32

#if defined(HARNESS_THREADS) || defined(SEGCHECK)
/* no allocator faults in the threaded / shared-object builds */
static THREADLOCAL int verif_malloc_fail_next;
static THREADLOCAL long verif_malloc_fail_count;
#define NO_MALLOC_FAULT 1
#else
extern int verif_malloc_fail_next;   /* wrapmalloc.c */
extern long verif_malloc_fail_count;
#endif
static THREADLOCAL FILE *OUT;

typedef struct { unsigned long cp[64]; unsigned char lvl[64]; unsigned long term; int cap, len, av; } textsnap_t;
typedef struct {
    long sc[7];
    unsigned char af[RDSPARSER_AF_BUFFER_SIZE];
    textsnap_t tx[4];
    int set[10];
    int valid[4]; /* S A (T handled per text) G */
    int tvalid[4];
} snap_t;

typedef struct {
    int kind; long arg; unsigned long ud; int h;
    long own; textsnap_t owntext; long ct[6];
    int seq;          /* position in the order of invocation (tie-break of the canonical order) */
} event_t;

typedef struct {
    rdsparser_t *rds;
    unsigned char *storage; /* caller-allocated block incl. canaries, or NULL for heap */
    snap_t prev;
    /* what the harness itself last told the library (also from inside callbacks): which callbacks are registered, user data */
    int reg[12]; unsigned long ud; int mirror_valid;
} inst_t;

static THREADLOCAL inst_t inst[NINST];
static THREADLOCAL int cur = 0;
static THREADLOCAL event_t evs[MAXEV];
static THREADLOCAL int nev = 0;
static THREADLOCAL long ev_overflow = 0;
static THREADLOCAL rdsparser_t *cur_handle = NULL;
/* `ri m`: what every callback does from INSIDE the callback (C15 "inside or outside callbacks"):
 * bit 0: register/unregister another callback; bit 1: change the user-data pointer */
static THREADLOCAL int reent = 0;
static THREADLOCAL int show_order = 0;   /* `qo 1`: print the order in which the callbacks of a call ran (a `Q` line) */
static THREADLOCAL unsigned long reent_count = 0;
static THREADLOCAL char xmsg[240];
static void do_register(rdsparser_t *r, int k, int on);
static void do_set_ud(rdsparser_t *r, unsigned long u);

static const int caps[4] = { RDSPARSER_PS_LENGTH, RDSPARSER_RT_LENGTH, RDSPARSER_RT_LENGTH, RDSPARSER_PTYN_LENGTH };

static const rdsparser_string_t *get_text(const rdsparser_t *r, int t)
{
    switch (t) {
    case 0: return rdsparser_get_ps(r);
    case 1: return rdsparser_get_rt(r, RDSPARSER_RT_FLAG_A);
    case 2: return rdsparser_get_rt(r, RDSPARSER_RT_FLAG_B);
    default: return rdsparser_get_ptyn(r);
    }
}

static void snap_text(const rdsparser_t *r, int t, textsnap_t *o)
{
    const rdsparser_string_t *s = get_text(r, t);
    const rdsparser_string_char_t *c = rdsparser_string_get_content(s);
    const rdsparser_string_error_t *e = rdsparser_string_get_errors(s);
    o->cap = caps[t];
    for (int i = 0; i < caps[t]; i++) { o->cp[i] = (unsigned long)c[i]; o->lvl[i] = e[i]; }
    o->term = (unsigned long)c[caps[t]];
    o->len = rdsparser_string_get_length(s);
    o->av = rdsparser_string_get_available(s) ? 1 : 0;
}

static void snap_all(const rdsparser_t *r, snap_t *o)
{
    o->sc[0] = rdsparser_get_pi(r);
    o->sc[1] = rdsparser_get_pty(r);
    o->sc[2] = rdsparser_get_tp(r);
    o->sc[3] = rdsparser_get_ta(r);
    o->sc[4] = rdsparser_get_ms(r);
    o->sc[5] = rdsparser_get_ecc(r);
    o->sc[6] = rdsparser_get_country(r);
    memcpy(o->af, rdsparser_get_af(r), RDSPARSER_AF_BUFFER_SIZE);
    for (int t = 0; t < 4; t++) snap_text(r, t, &o->tx[t]);
    o->set[0] = rdsparser_get_extended_check(r);
    for (int t = 0; t < 3; t++) o->set[1 + t] = rdsparser_get_text_progressive(r, t);
    for (int t = 0; t < 3; t++)
        for (int k = 0; k < 2; k++)
            o->set[4 + 2 * t + k] = rdsparser_get_text_correction(r, t, k);
}

static int af_listed(const rdsparser_t *r, long khz)
{
    /* decode the public bitmap layout: code n ↦ byte n/8, bit 0x80 >> n%8 */
    const unsigned char *b = (const unsigned char *)rdsparser_get_af(r);
    long code = (khz - 87500) / 100;
    if (code < 0 || code >= RDSPARSER_AF_BUFFER_SIZE * 8) return 0;
    return (b[code / 8] & (0x80 >> (code % 8))) ? 1 : 0;
}


/* C18 / C15: the look-up functions are pure functions of their arguments — also when they are called from inside a callback while
 * rdsparser_parse is still running. Baseline: every answer as given before the first API call of this process. */
static char lk_base[5][256][2][48];
static int lk_null[5][256][2];
static int lk_ready = 0;
static const char *lk_call(int f, int a, int rbds)
{
    switch (f) {
    case 0: return rdsparser_pty_lookup_name((rdsparser_pty_t)a, rbds);
    case 1: return rdsparser_pty_lookup_short((rdsparser_pty_t)a, rbds);
    case 2: return rdsparser_pty_lookup_long((rdsparser_pty_t)a, rbds);
    case 3: return rdsparser_country_lookup_name((rdsparser_country_t)a);
    default: return rdsparser_country_lookup_iso((rdsparser_country_t)a);
    }
}
static void lk_init(void)
{
    for (int f = 0; f < 5; f++)
        for (int a = 0; a < 256; a++)
            for (int rb = 0; rb < (f < 3 ? 2 : 1); rb++) {
                const char *p = lk_call(f, a, rb);
                lk_null[f][a][rb] = p == NULL;
                if (p) { strncpy(lk_base[f][a][rb], p, 47); lk_base[f][a][rb][47] = 0; }
            }
    lk_ready = 1;
}
static THREADLOCAL unsigned long lk_rot = 0;
static void lk_check_inside(int kind)
{
    static const char *names[5] = { "rdsparser_pty_lookup_name", "rdsparser_pty_lookup_short", "rdsparser_pty_lookup_long", "rdsparser_country_lookup_name", "rdsparser_country_lookup_iso" };
    if (!lk_ready || xmsg[0]) return;
    for (int n = 0; n < 48; n++) {
        unsigned long x = lk_rot++;
        int f = (int)(x % 5), a = (int)((x / 5) % 64), rb = f < 3 ? (int)((x / 320) % 2) : 0;
        if (f >= 3) a = (int)((x / 5) % 256);
        const char *p = lk_call(f, a, rb);
        if ((p == NULL) != lk_null[f][a][rb] || (p && strncmp(p, lk_base[f][a][rb], 47) != 0)) {
            snprintf(xmsg, sizeof xmsg, "X callback %d: %s(%d,%d) called inside the callback returned \"%.30s\", outside callbacks \"%.30s\"", kind, names[f], a, rb, p ? p : "(null)", lk_null[f][a][rb] ? "(null)" : lk_base[f][a][rb]);
            return;
        }
    }
}

static event_t *new_event(rdsparser_t *r, int kind, long arg, void *ud)
{
    if (nev >= MAXEV) { ev_overflow++; return NULL; }
    event_t *e = &evs[nev++];
    memset(e, 0, sizeof *e);
    e->seq = nev - 1; e->kind = kind; e->arg = arg; e->ud = (unsigned long)(uintptr_t)ud; e->h = (r == cur_handle);
    /* exercise every getter inside the callback (C15: getters are pure observers) */
    snap_t tmp; snap_all(r, &tmp);
    (void)rdsparser_get_rt(r, 7);
    lk_check_inside(kind);
    /* C15: a removed callback is skipped and every invoked callback gets the user data most recently set — also when the
     * removal / the change was made a moment ago from inside another callback of the same parse call */
    for (int i = 0; i < NINST; i++)
        if (inst[i].rds == r && inst[i].mirror_valid && !xmsg[0]) {
            if (!inst[i].reg[kind]) snprintf(xmsg, sizeof xmsg, "X callback %d invoked although it is not registered", kind);
            else if (inst[i].ud != (unsigned long)(uintptr_t)ud) snprintf(xmsg, sizeof xmsg, "X callback %d got user data %lu, most recently set: %lu", kind, (unsigned long)(uintptr_t)ud, inst[i].ud);
        }
    if (reent >= 7000) {
        /* acts after the callback has read its own value: nested_parse() */
    } else if (reent >= 5000) {
        /* `ri 5000+j`: callback j resets the parser from inside the call (rdsparser_clear is an ordinary API call; nothing in
         * the API forbids making it from a callback) */
        if (kind == reent - 5000) { reent_count++; rdsparser_clear(r); }
    } else if (reent >= 3000) {
        /* `ri 3000+100*j+4*k`: callback j REGISTERS callback k from inside the call */
        int j = (reent - 3000) / 100, k = ((reent - 3000) % 100) / 4;
        if (kind == j) { reent_count++; do_register(r, k % 12, 1); }
    } else if (reent >= 1000) {
        /* targeted form `ri 1000+100*j+4*k+bits`: only callback j acts — bit 0: it unregisters callback k, bit 1: it changes the user data */
        int j = (reent - 1000) / 100, k = ((reent - 1000) % 100) / 4, bits = reent & 3;
        if (kind == j) {
            reent_count++;
            if (bits & 1) do_register(r, k % 12, 0);
            if (bits & 2) do_set_ud(r, 0x7000 + 16 * j + k);
        }
    } else if (reent) {
        reent_count++;
        if (reent & 1) do_register(r, (int)((kind + 1 + reent_count % 7) % 12), (int)((reent_count / 3) & 1));
        if (reent & 2) do_set_ud(r, 0x5000 + reent_count % 97);
    }
    return e;
}

/* `ri 7000+j`: callback j PARSES A GROUP on the same parser from inside the call (after it has read its own value); the callbacks
 * invoked by that nested call are recorded like any other but do not act themselves. The group is RdsModel/Reentrant.lean's
 * `nestedGroup`. */
static void nested_parse(rdsparser_t *r, int kind)
{
    if (reent >= 7000 && kind == reent - 7000) {
        static const rdsparser_data_t nd = { 0x5A5A, 0x0531, 0x2D37, 0x5A7A };
        static const rdsparser_error_t ne = { 0, 0, 0, 0 };
        int save = reent;
        reent = 0;
        reent_count++;
        rdsparser_parse(r, nd, ne);
        reent = save;
    }
}

static void cb_pi(rdsparser_t *r, void *ud)      { event_t *e = new_event(r, 0, 0, ud); if (e) e->own = rdsparser_get_pi(r); nested_parse(r, 0); }
static void cb_pty(rdsparser_t *r, void *ud)     { event_t *e = new_event(r, 1, 0, ud); if (e) e->own = rdsparser_get_pty(r); nested_parse(r, 1); }
static void cb_tp(rdsparser_t *r, void *ud)      { event_t *e = new_event(r, 2, 0, ud); if (e) e->own = rdsparser_get_tp(r); nested_parse(r, 2); }
static void cb_ta(rdsparser_t *r, void *ud)      { event_t *e = new_event(r, 3, 0, ud); if (e) e->own = rdsparser_get_ta(r); nested_parse(r, 3); }
static void cb_ms(rdsparser_t *r, void *ud)      { event_t *e = new_event(r, 4, 0, ud); if (e) e->own = rdsparser_get_ms(r); nested_parse(r, 4); }
static void cb_ecc(rdsparser_t *r, void *ud)     { event_t *e = new_event(r, 5, 0, ud); if (e) e->own = rdsparser_get_ecc(r); nested_parse(r, 5); }
static void cb_country(rdsparser_t *r, void *ud) { event_t *e = new_event(r, 6, 0, ud); if (e) e->own = rdsparser_get_country(r); nested_parse(r, 6); }
static void cb_af(rdsparser_t *r, uint32_t f, void *ud) { event_t *e = new_event(r, 7, (long)f, ud); if (e) e->own = af_listed(r, (long)f); nested_parse(r, 7); }
static void cb_ps(rdsparser_t *r, void *ud)      { event_t *e = new_event(r, 8, 0, ud); if (e) snap_text(r, 0, &e->owntext); nested_parse(r, 8); }
static void cb_rt(rdsparser_t *r, rdsparser_rt_flag_t fl, void *ud) { event_t *e = new_event(r, 9, (long)fl, ud); if (e) snap_text(r, fl ? 2 : 1, &e->owntext); nested_parse(r, 9); }
static void cb_ptyn(rdsparser_t *r, void *ud)    { event_t *e = new_event(r, 10, 0, ud); if (e) snap_text(r, 3, &e->owntext); nested_parse(r, 10); }
static void cb_ct(rdsparser_t *r, const rdsparser_ct_t *ct, void *ud)
{
    event_t *e = new_event(r, 11, 0, ud);
    if (!e) return;
    e->ct[0] = rdsparser_ct_get_year(ct);
    e->ct[1] = rdsparser_ct_get_month(ct);
    e->ct[2] = rdsparser_ct_get_day(ct);
    e->ct[3] = rdsparser_ct_get_hour(ct);
    e->ct[4] = rdsparser_ct_get_minute(ct);
    e->ct[5] = rdsparser_ct_get_offset(ct);
    nested_parse(r, 11);
}

static void do_set_ud(rdsparser_t *r, unsigned long u)
{
    for (int i = 0; i < NINST; i++) if (inst[i].rds == r) inst[i].ud = u;
    rdsparser_set_user_data(r, (void *)(uintptr_t)u);
}

static void do_register(rdsparser_t *r, int k, int on)
{
    for (int i = 0; i < NINST; i++) if (inst[i].rds == r) inst[i].reg[k] = on;
    switch (k) {
    case 0: rdsparser_register_pi(r, on ? cb_pi : NULL); break;
    case 1: rdsparser_register_pty(r, on ? cb_pty : NULL); break;
    case 2: rdsparser_register_tp(r, on ? cb_tp : NULL); break;
    case 3: rdsparser_register_ta(r, on ? cb_ta : NULL); break;
    case 4: rdsparser_register_ms(r, on ? cb_ms : NULL); break;
    case 5: rdsparser_register_ecc(r, on ? cb_ecc : NULL); break;
    case 6: rdsparser_register_country(r, on ? cb_country : NULL); break;
    case 7: rdsparser_register_af(r, on ? cb_af : NULL); break;
    case 8: rdsparser_register_ps(r, on ? cb_ps : NULL); break;
    case 9: rdsparser_register_rt(r, on ? cb_rt : NULL); break;
    case 10: rdsparser_register_ptyn(r, on ? cb_ptyn : NULL); break;
    case 11: rdsparser_register_ct(r, on ? cb_ct : NULL); break;
    }
}

static void print_cells(const textsnap_t *t)
{
    for (int i = 0; i < t->cap; i++) fprintf(OUT, "%s%lx/%x", i ? "," : "", t->cp[i], (unsigned)t->lvl[i]);
}

static int text_eq(const textsnap_t *a, const textsnap_t *b)
{
    if (a->cap != b->cap || a->term != b->term || a->len != b->len || a->av != b->av) return 0;
    for (int i = 0; i < a->cap; i++) if (a->cp[i] != b->cp[i] || a->lvl[i] != b->lvl[i]) return 0;
    return 1;
}

static int ev_cmp(const void *x, const void *y)
{
    const event_t *a = x, *b = y;
    if (a->kind != b->kind) return a->kind < b->kind ? -1 : 1;
    if (a->arg != b->arg) return a->arg < b->arg ? -1 : 1;
    if (a->seq != b->seq) return a->seq < b->seq ? -1 : 1;
    return 0;
}

static void check_canaries(inst_t *in)
{
    if (!in->storage) return;
    size_t sz = sizeof(rdsparser_t);
    for (size_t i = 0; i < CANARY; i++) {
        if (in->storage[i] != 0xA5 || in->storage[CANARY + sz + i] != 0xA5) {
            fprintf(OUT, "X canary overwritten\n");
            return;
        }
    }
}

static void release(inst_t *in)
{
    if (!in->rds) return;
    if (in->storage) { check_canaries(in); free(in->storage); }
#ifndef RDSPARSER_DISABLE_HEAP
    else rdsparser_free(in->rds);
#endif
    in->rds = NULL; in->storage = NULL;
}

static void caller_alloc(inst_t *in)
{
    size_t sz = sizeof(rdsparser_t);
    in->storage = malloc(CANARY + sz + CANARY);
    if (!in->storage) { fprintf(stderr, "harness: out of memory\n"); exit(3); }
    memset(in->storage, 0xA5, CANARY + sz + CANARY);
    in->rds = (rdsparser_t *)(in->storage + CANARY);
}

static void emit_state(inst_t *in, long k, int ret)
{
    fprintf(OUT, "O %ld %d %d\n", k, cur, ret);
    if (ev_overflow) { fprintf(OUT, "X event overflow %ld\n", ev_overflow); ev_overflow = 0; }
    if (xmsg[0]) { fprintf(OUT, "%s\n", xmsg); xmsg[0] = 0; }
    if (show_order && nev) {
        fprintf(OUT, "Q");
        for (int i = 0; i < nev; i++) fprintf(OUT, " %d", evs[i].kind);
        fprintf(OUT, "\n");
    }
    qsort(evs, nev, sizeof evs[0], ev_cmp);
    for (int i = 0; i < nev; i++) {
        event_t *e = &evs[i];
        fprintf(OUT, "E %d %ld ud=%lu h=%d own=", e->kind, e->arg, e->ud, e->h);
        if (e->kind <= 7) fprintf(OUT, "%ld", e->own);
        else if (e->kind <= 10) print_cells(&e->owntext);
        else fprintf(OUT, "%ld %ld %ld %ld %ld %ld", e->ct[0], e->ct[1], e->ct[2], e->ct[3], e->ct[4], e->ct[5]);
        fprintf(OUT, "\n");
    }
    nev = 0;
    if (!in->rds) return;
    check_canaries(in);
    snap_t now; memset(&now, 0, sizeof now);
    snap_all(in->rds, &now);
    snap_t *p = &in->prev;
    if (!p->valid[0] || memcmp(now.sc, p->sc, sizeof now.sc))
        fprintf(OUT, "S %ld %ld %ld %ld %ld %ld %ld\n", now.sc[0], now.sc[1], now.sc[2], now.sc[3], now.sc[4], now.sc[5], now.sc[6]);
    if (!p->valid[0] || memcmp(now.af, p->af, sizeof now.af)) {
        fprintf(OUT, "A ");
        for (int i = 0; i < RDSPARSER_AF_BUFFER_SIZE; i++) fprintf(OUT, "%02x", now.af[i]);
        fprintf(OUT, "\n");
    }
    for (int t = 0; t < 4; t++) {
        if (!p->valid[0] || !text_eq(&now.tx[t], &p->tx[t])) {
            fprintf(OUT, "T %d %lx %d %d ", t, now.tx[t].term, now.tx[t].len, now.tx[t].av);
            print_cells(&now.tx[t]);
            fprintf(OUT, "\n");
        }
    }
    if (!p->valid[0] || memcmp(now.set, p->set, sizeof now.set)) {
        fprintf(OUT, "G");
        for (int i = 0; i < 10; i++) fprintf(OUT, " %d", now.set[i]);
        fprintf(OUT, "\n");
    }
    now.valid[0] = 1;
    *p = now;
}

static int hexv(int c)
{
    if (c >= '0' && c <= '9') return c - '0';
    if (c >= 'a' && c <= 'f') return c - 'a' + 10;
    if (c >= 'A' && c <= 'F') return c - 'A' + 10;
    return -1;
}

int run_ops_file(const char *path, FILE *out)
{
    FILE *f = fopen(path, "r");
    if (!f) { perror("ops"); return 2; }
    OUT = out;
    cur = 0; nev = 0; ev_overflow = 0; cur_handle = NULL;
    memset(inst, 0, sizeof inst);
    char *line = NULL; size_t cap = 0; ssize_t n;
    long k = -1;
    while ((n = getline(&line, &cap, f)) >= 0) {
        while (n > 0 && (line[n - 1] == '\n' || line[n - 1] == '\r')) line[--n] = 0;
        if (n == 0 || line[0] == '#') continue;
        k++;
        inst_t *in = &inst[cur];
        cur_handle = in->rds;
        int ret = 1;
        if (line[0] == '@') {
            cur = atoi(line + 1) % NINST; if (cur < 0) cur = 0;
            in = &inst[cur]; cur_handle = in->rds;
            fprintf(OUT, "O %ld %d 1\n", k, cur);
            continue;
        } else if (!strcmp(line, "new")) {
            release(in);
            memset(&in->prev, 0, sizeof in->prev);
            memset(in->reg, 0, sizeof in->reg); in->ud = 0; in->mirror_valid = 1;
#ifndef RDSPARSER_DISABLE_HEAP
            in->rds = rdsparser_new();
            if (!in->rds) { fprintf(stderr, "harness: rdsparser_new failed\n"); return 3; }
#else
            caller_alloc(in); rdsparser_init(in->rds);
#endif
        } else if (!strcmp(line, "init")) {
            if (!in->rds) caller_alloc(in);
            memset(&in->prev, 0, sizeof in->prev);
            memset(in->reg, 0, sizeof in->reg); in->ud = 0; in->mirror_valid = 1;
            rdsparser_init(in->rds);
        } else if (!strcmp(line, "free")) {
            release(in);
        } else if (!strcmp(line, "mf")) {
            /* allocation failure at the single allocation site */
#if !defined(RDSPARSER_DISABLE_HEAP) && !defined(NO_MALLOC_FAULT)
            verif_malloc_fail_next = 1;
            rdsparser_t *r = rdsparser_new();
            verif_malloc_fail_next = 0;
            ret = (r == NULL);
            if (r) rdsparser_free(r);
#endif
        } else if (!strcmp(line, "fn")) {
#ifndef RDSPARSER_DISABLE_HEAP
            rdsparser_free(NULL);
#endif
        } else if (!in->rds) {
            fprintf(OUT, "O %ld %d 1\nX op on empty slot\n", k, cur);
            continue;
        } else if (!strcmp(line, "clear")) {
            rdsparser_clear(in->rds);
        } else if (line[0] == 'p' && line[1] == ' ') {
            unsigned long v[8];
            if (sscanf(line + 2, "%lu %lu %lu %lu %lu %lu %lu %lu", &v[0], &v[1], &v[2], &v[3], &v[4], &v[5], &v[6], &v[7]) != 8) { fprintf(stderr, "bad op: %s\n", line); return 2; }
            rdsparser_data_t d = { (uint16_t)v[0], (uint16_t)v[1], (uint16_t)v[2], (uint16_t)v[3] };
            rdsparser_error_t e = { (uint8_t)v[4], (uint8_t)v[5], (uint8_t)v[6], (uint8_t)v[7] };
            rdsparser_parse(in->rds, d, e);
        } else if (line[0] == 's' && line[1] == ' ') {
            if (line[2] == 'N') {
                ret = rdsparser_parse_string(in->rds, NULL) ? 1 : 0;
            } else {
                size_t hl = strlen(line + 3) / 2;
                /* exact-size heap copy so that an over-read hits an ASan red zone */
                char *str = malloc(hl + 1);
                for (size_t i = 0; i < hl; i++) str[i] = (char)(hexv(line[3 + 2 * i]) * 16 + hexv(line[4 + 2 * i]));
                str[hl] = 0;
                ret = rdsparser_parse_string(in->rds, str) ? 1 : 0;
                free(str);
            }
        } else if (line[0] == 'x' && line[1] == ' ') {
            rdsparser_set_extended_check(in->rds, atoi(line + 2) != 0);
        } else if (line[0] == 'c' && line[1] == ' ') {
            int t, kk, v; sscanf(line + 2, "%d %d %d", &t, &kk, &v);
            rdsparser_set_text_correction(in->rds, (rdsparser_text_t)t, (rdsparser_block_type_t)kk, (rdsparser_block_error_t)v);
        } else if (line[0] == 'g' && line[1] == ' ') {
            int t, v; sscanf(line + 2, "%d %d", &t, &v);
            rdsparser_set_text_progressive(in->rds, (rdsparser_text_t)t, v != 0);
        } else if (line[0] == 'r' && line[1] == ' ') {
            int kk, on; sscanf(line + 2, "%d %d", &kk, &on);
            do_register(in->rds, kk, on);
        } else if (line[0] == 'u' && line[1] == ' ') {
            unsigned long u = strtoul(line + 2, NULL, 10);
            do_set_ud(in->rds, u);
        } else if (line[0] == 'r' && line[1] == 'i' && line[2] == ' ') {
            reent = atoi(line + 3);
        } else if (line[0] == 'q' && line[1] == 'o' && line[2] == ' ') {
            show_order = atoi(line + 3);
        } else if (!strcmp(line, "q")) {
            snap_t tmp; snap_all(in->rds, &tmp); snap_all(in->rds, &tmp);
            /* the stateless lookup functions belong to the API too (C19: no hidden mutable state behind them) */
            { rdsparser_pty_t pty = rdsparser_get_pty(in->rds); rdsparser_country_t c = rdsparser_get_country(in->rds);
              volatile const char *sink;
              sink = rdsparser_pty_lookup_name(pty, false); sink = rdsparser_pty_lookup_short(pty, true);
              sink = rdsparser_pty_lookup_long(pty, false); sink = rdsparser_country_lookup_name(c);
              sink = rdsparser_country_lookup_iso(c); sink = rdsparser_country_lookup_iso((rdsparser_country_t)(k % 221));
              (void)sink; }
            /* out-of-range RT flag arguments select buffer B (documented `!!flag`) */
            if (rdsparser_get_rt(in->rds, 2) != rdsparser_get_rt(in->rds, 1) ||
                rdsparser_get_rt(in->rds, 255) != rdsparser_get_rt(in->rds, 1)) fprintf(OUT, "X get_rt flag\n");
        } else {
            fprintf(stderr, "bad op: %s\n", line); return 2;
        }
        emit_state(in, k, ret);
    }
    for (int i = 0; i < NINST; i++) release(&inst[i]);
    free(line);
    fclose(f);
    fprintf(OUT, "END %ld mf=%ld\n", k + 1, verif_malloc_fail_count);
    fflush(OUT);
    return 0;
}

#ifdef SEGCHECK
#include "segcheck.h"
#endif

#ifndef HARNESS_NO_MAIN
int main(int argc, char **argv)
{
    if (argc < 2) { fprintf(stderr, "usage: harness <ops>\n"); return 2; }
    static char out_buf[1 << 20];
    setvbuf(stdout, out_buf, _IOFBF, sizeof out_buf);
#ifdef SEGCHECK
    seg_snapshot();
#endif
    lk_init();
    int rc = run_ops_file(argv[1], stdout);
#ifdef SEGCHECK
    seg_compare(stdout);
#endif
    return rc;
}
#endif
