#!/usr/bin/env python3
"""check.py — decide one property of kkonradpl/librdsparser (see DESIGN.md §5.3)

  python3 check.py --setup                     build everything from files on disk
  python3 check.py Cxx --tier quick|thorough   run the check of property Cxx
  python3 check.py Cxx --replay <ops-file>     re-run one ops file and show the verdict

exit 0 = proofs re-checked + axioms audited + correspondence held on everything explored;
exit 1 + "VIOLATION property=Cxx replay=<path>" otherwise. Evidence in evidence/Cxx.json.
"""
import argparse, json, os, random, re, shutil, subprocess, sys, time, traceback

VERIF = os.path.dirname(os.path.abspath(__file__))
sys.path.insert(0, os.path.join(VERIF, "tools"))
import runner, props as propdefs

def main():
    ap = argparse.ArgumentParser()
    ap.add_argument("prop", nargs="?")
    ap.add_argument("--setup", action="store_true")
    ap.add_argument("--tier", default=os.environ.get("VERIF_TIER", "quick"))
    ap.add_argument("--seed", type=int, default=int(os.environ.get("VERIF_SEED", "1")))
    ap.add_argument("--replay")
    args = ap.parse_args()
    if args.setup:
        return runner.setup()
    if not args.prop or args.prop not in propdefs.PROPS:
        ap.error("property id required: one of " + " ".join(sorted(propdefs.PROPS)))
    if args.replay:
        return propdefs.replay(args.prop, args.replay)
    return propdefs.run_property(args.prop, args.tier, args.seed)

if __name__ == "__main__":
    sys.exit(main())
