import RdsModel.Basic
import RdsModel.Buffer
import RdsModel.Text
import RdsModel.Ct
import RdsModel.Groups
import RdsModel.Hex
import RdsModel.Step
import RdsModel.Multi
