import RdsProofs.WFBase
/-!
# RdsProofs.WFProofs — `WF` is an invariant of `step`; C16 for every call
-/
namespace RDS

variable {tb : Tabs} {s : State}

/-! ## state-component updates -/

theorem wf_setPs (hw : WF tb s) {t : Text} (ht : TxtWF tb.cfg capPs t) : WF tb { s with ps := t } := by
  rw [wf_iff] at hw ⊢
  obtain ⟨⟨_, b, c, d⟩, h2⟩ := hw
  exact ⟨⟨ht, b, c, d⟩, h2⟩

theorem wf_setPtyn (hw : WF tb s) {t : Text} (ht : TxtWF tb.cfg capPtyn t) :
    WF tb { s with ptyn := t } := by
  rw [wf_iff] at hw ⊢
  obtain ⟨⟨a, b, c, _⟩, h2⟩ := hw
  exact ⟨⟨a, b, c, ht⟩, h2⟩

theorem wf_rt (hw : WF tb s) (flag : Nat) : TxtWF tb.cfg capRt (s.rt flag) := by
  unfold State.rt
  split
  · exact ⟨hw.rt0Len, hw.rt0Ok⟩
  · exact ⟨hw.rt1Len, hw.rt1Ok⟩

theorem wf_setRt (hw : WF tb s) (flag : Nat) {t : Text} (ht : TxtWF tb.cfg capRt t) :
    WF tb (s.setRt flag t) := by
  rw [wf_iff] at hw
  obtain ⟨⟨a, b, c, d⟩, h2⟩ := hw
  unfold State.setRt
  split
  · rw [wf_iff]; exact ⟨⟨a, ht, c, d⟩, h2⟩
  · rw [wf_iff]; exact ⟨⟨a, b, ht, d⟩, h2⟩

theorem wf_setLastRt (hw : WF tb s) {l : Int} (hl : LastOk l) : WF tb { s with lastRt := l } := by
  rw [wf_iff] at hw ⊢
  obtain ⟨h1, h2, h3, _, h5⟩ := hw
  exact ⟨h1, h2, h3, hl, h5⟩

theorem wf_setSettings (hw : WF tb s) {set : Settings} (hs : set.Ok) : WF tb { s with set := set } := by
  rw [wf_iff] at hw ⊢
  obtain ⟨h1, h2, _, h4⟩ := hw
  exact ⟨h1, h2, hs, h4⟩

/-! ## setField / addAf -/

theorem wf_setField (hw : WF tb s) (f : Fld) (v : Int) (hv : f = .country → CountryOk tb v) :
    WF tb (setField s f v).1 := by
  rw [wf_iff] at hw ⊢
  obtain ⟨h1, h2, h3, h4, h5, h6, h7, h8⟩ := hw
  refine ⟨by simpa using h1, by simpa using h2, by simpa using h3, by simpa using h4,
    by simpa using h5, by simpa using h6, by simpa using h7, ?_⟩
  rcases setField_used_country s f v with e | ⟨ef, e⟩
  · rw [e]; exact h8
  · rw [e]; exact hv ef

theorem wf_setField' (hw : WF tb s) (f : Fld) (v : Int) (hf : f ≠ .country) :
    WF tb (setField s f v).1 :=
  wf_setField hw f v (fun e => absurd e hf)

theorem wf_addAf (hw : WF tb s) (v : Nat) : WF tb (addAf s v).1 := by
  rw [wf_iff] at hw ⊢
  obtain ⟨h1, h2, h3, h4, h5, h6, h7, h8⟩ := hw
  exact ⟨by simpa using h1, by simpa using h2, by simpa using h3, by simpa using h4,
    addAf_used_af_wf v h5, addAf_temp_af_wf v h6, by simpa using h7, by simpa using h8⟩

/-! ## group handlers -/

theorem wf_groupCommon (hw : WF tb s) (g : Group) : WF tb (groupCommon s g).1 := by
  unfold groupCommon
  have h1 : WF tb (if g.ea = 0 then setField s .pi g.a else (s, [])).1 := by
    split
    · exact wf_setField' hw _ _ (by decide)
    · exact hw
  simp only
  split
  · exact wf_setField' (wf_setField' h1 _ _ (by decide)) _ _ (by decide)
  · exact h1

theorem wf_group0 (hw : WF tb s) (g : Group) : WF tb (group0 tb.cfg s g).1 := by
  unfold group0
  extract_lets a b r1 u src s2
  have h1 : WF tb r1.1 := by
    unfold r1
    split
    · exact wf_setField' (wf_setField' hw _ _ (by decide)) _ _ (by decide)
    · exact hw
  have h2 : WF tb s2 :=
    wf_setPs h1 (parserUpdate_wf ⟨h1.psLen, h1.psOk⟩ h1.setOk _ _ _ _ _)
  split
  · exact wf_addAf (wf_addAf h2 _) _
  · exact h2

theorem wf_group1 (h : EccOk tb) (hw : WF tb s) (g : Group) : WF tb (group1 tb.cfg s g).1 := by
  unfold group1
  split
  · exact wf_setField (wf_setField' hw _ _ (by decide)) _ _ (fun _ => eccLookup_ok h _ _)
  · exact hw

theorem wf_group2 (hw : WF tb s) (g : Group) : WF tb (group2 tb.cfg s g).1 := by
  unfold group2
  extract_lets flag pos sw clr s1 s2 u1 pos2 u2 s3
  have h1 : WF tb s1 := by
    unfold s1
    split
    · exact wf_setRt hw _ (txtWF_cleared (wf_rt hw _))
    · exact hw
  have h2 : WF tb s2 := by
    unfold s2
    split
    · refine wf_setLastRt h1 ?_
      unfold LastOk flag
      omega
    · exact h1
  have h3 : WF tb s3 := by
    refine wf_setRt h2 _ (parserUpdate_wf ?_ h2.setOk _ _ _ _ _)
    unfold u1
    split
    · exact parserUpdate_wf (wf_rt h2 _) h2.setOk _ _ _ _ _
    · exact wf_rt h2 _
  split
  · exact h2
  · exact h3

theorem wf_group4_fst (s : State) (g : Group) : (group4 s g).1 = s := by
  unfold group4
  split
  · simp only
    split <;> rfl
  · rfl

theorem wf_group10 (hw : WF tb s) (g : Group) : WF tb (group10 tb.cfg s g).1 := by
  unfold group10
  split
  · exact wf_setPtyn hw (parserUpdate_wf (parserUpdate_wf ⟨hw.ptynLen, hw.ptynOk⟩ hw.setOk _ _ _ _ _)
      hw.setOk _ _ _ _ _)
  · exact hw

theorem wf_dispatch (h : EccOk tb) (hw : WF tb s) (g : Group) : WF tb (dispatch tb.cfg s g).1 := by
  unfold dispatch
  split; · exact wf_group0 hw g
  split; · exact wf_group1 h hw g
  split; · exact wf_group2 hw g
  split; · rw [wf_group4_fst]; exact hw
  split; · exact wf_group10 hw g
  exact hw

theorem wf_process (h : EccOk tb) (hw : WF tb s) (g : Group) : WF tb (process tb.cfg s g).1 := by
  unfold process
  exact wf_dispatch h (wf_groupCommon hw g) g

/-! ## init / clear / settings -/

theorem countryOk_zero (h : EccOk tb) : CountryOk tb 0 := by
  obtain ⟨h0, _⟩ := h
  unfold CountryOk
  omega

theorem wf_init (tb : Tabs) (h : EccOk tb) : WF tb initState := by
  rw [wf_iff]
  refine ⟨⟨txtWF_replicate _ _, txtWF_replicate _ _, txtWF_replicate _ _, txtWF_replicate _ _⟩,
    ⟨rfl, rfl, rfl, rfl⟩, ?_, Or.inl rfl, afWF_replicate, afWF_replicate, List.length_replicate,
    countryOk_zero h⟩
  simp [initState, Settings.Ok, Settings.init]

theorem wf_clear (h : EccOk tb) (hw : WF tb s) : WF tb (clearState s) := by
  rw [wf_iff] at hw ⊢
  obtain ⟨⟨a, b, c, d⟩, h2, h3, _, _, _, h7, _⟩ := hw
  exact ⟨⟨txtWF_cleared a, txtWF_cleared b, txtWF_cleared c, txtWF_cleared d⟩, h2, h3,
    Or.inl rfl, afWF_replicate, afWF_replicate, h7, countryOk_zero h⟩

theorem Settings.Ok.setCorr {set : Settings} (hs : set.Ok) (t : TextId) (k : BlockType) (v : Nat) :
    (set.setCorr t k v).Ok := by
  obtain ⟨h1, h2, h3, h4, h5, h6⟩ := hs
  have hm : min v 2 ≤ 2 := Nat.min_le_right v 2
  cases t <;> cases k <;> exact ⟨by first | assumption | exact hm, by first | assumption | exact hm,
    by first | assumption | exact hm, by first | assumption | exact hm,
    by first | assumption | exact hm, by first | assumption | exact hm⟩

theorem Settings.Ok.setProg {set : Settings} (hs : set.Ok) (t : TextId) (v : Bool) :
    (set.setProg t v).Ok := by
  cases t <;> exact hs

/-! ## the requested theorems -/

theorem wf_step (tb : Tabs) (h : EccOk tb) (s : State) (op : Op) (hw : WF tb s) :
    WF tb (step tb.cfg s op).1 := by
  cases op with
  | init => exact wf_init tb h
  | clear => exact wf_clear h hw
  | parse g => exact wf_process h hw g
  | parseString o =>
    cases o with
    | none => exact hw
    | some bytes =>
      simp only [step]
      split
      · exact wf_process h hw _
      · exact hw
  | setExt v => exact wf_setSettings hw hw.setOk
  | setCorr t k v => exact wf_setSettings hw (hw.setOk.setCorr t k v)
  | setProg t v => exact wf_setSettings hw (hw.setOk.setProg t v)
  | register c on =>
    rw [wf_iff] at hw ⊢
    obtain ⟨h1, h2, h3, h4, h5, h6, h7, h8⟩ := hw
    exact ⟨h1, h2, h3, h4, h5, h6, by simpa [step, List.length_set] using h7, h8⟩
  | userData n =>
    rw [wf_iff] at hw ⊢
    exact hw
  | getters => exact hw

theorem printable_of_conv (cfg : Cfg) {b : Nat} (h1 : 0x20 ≤ b) (h2 : b < 256) :
    printable cfg (conv cfg b) = true := by
  unfold printable
  rw [List.any_eq_true]
  exact ⟨b, List.mem_range.2 h2, by simp [h1]⟩

theorem wfTextObs_ofText {cfg : Cfg} {cap : Nat} {t : Text} (h : TxtWF cfg cap t) :
    wfTextObs cfg (TextObs.ofText t 0) cap = true := by
  simp only [wfTextObs, TextObs.ofText, Bool.and_eq_true, beq_iff_eq, List.all_eq_true,
    decide_eq_true_eq, Bool.or_eq_true, bne_iff_ne, ne_eq]
  refine ⟨⟨⟨⟨h.1, trivial⟩, ?_⟩, trivial⟩, trivial⟩
  intro c hc
  obtain ⟨c1, c2, c3⟩ := h.2 c hc
  refine ⟨⟨c1, ?_⟩, ?_⟩
  · by_cases e : c.lvl = 10
    · right; exact c2 e
    · left; exact e
  · rcases c3 with e | e | ⟨b, hb1, hb2, e⟩
    · left; left; exact e
    · left; right; exact e
    · right; rw [← e]; exact printable_of_conv cfg hb1 hb2

/-- C16 for one call: the getter-visible texts after any call are well-formed -/
theorem wfp_cleared_never (t : Text) : (Text.cleared t).all (fun c => c.lvl == 10) = true := by
  simp [Text.cleared, blank]

theorem wfp_replicate_never (n : Nat) : (List.replicate n blank).all (fun c => c.lvl == 10) = true := by
  simp [blank]

/-- right after `init` / `clear` no cell of any text counts as received -/
theorem wfp_reset_blank (cfg : Cfg) (s : State) (op : Op) (h : op.isReset = true) :
    (neverReceived (Obs.ofState (step cfg s op).1).ps && neverReceived (Obs.ofState (step cfg s op).1).rt0 &&
      neverReceived (Obs.ofState (step cfg s op).1).rt1 && neverReceived (Obs.ofState (step cfg s op).1).ptyn) = true := by
  cases op <;> simp only [Op.isReset] at h <;> try contradiction
  · simp only [step, initState, Obs.ofState, neverReceived, TextObs.ofText, wfp_replicate_never, Bool.and_self]
  · simp only [step, clearState, Obs.ofState, neverReceived, TextObs.ofText, wfp_cleared_never, Bool.and_self]

theorem chkC16_ok (tb : Tabs) (s : State) (op : Op) (hw' : WF tb (step tb.cfg s op).1) :
    chkC16 tb.cfg (recOf tb.cfg s op) = true := by
  have hreset : (!op.isReset || (neverReceived (Obs.ofState (step tb.cfg s op).1).ps &&
      neverReceived (Obs.ofState (step tb.cfg s op).1).rt0 && neverReceived (Obs.ofState (step tb.cfg s op).1).rt1 &&
      neverReceived (Obs.ofState (step tb.cfg s op).1).ptyn)) = true := by
    cases hr : op.isReset
    · rfl
    · simpa using wfp_reset_blank tb.cfg s op hr
  have hwf : (wfTextObs tb.cfg (Obs.ofState (step tb.cfg s op).1).ps capPs &&
      wfTextObs tb.cfg (Obs.ofState (step tb.cfg s op).1).rt0 capRt &&
      wfTextObs tb.cfg (Obs.ofState (step tb.cfg s op).1).rt1 capRt &&
      wfTextObs tb.cfg (Obs.ofState (step tb.cfg s op).1).ptyn capPtyn) = true := by
    simp only [Obs.ofState, Bool.and_eq_true]
    rw [hw'.termPs, hw'.termRt0, hw'.termRt1, hw'.termPtyn]
    exact ⟨⟨⟨wfTextObs_ofText ⟨hw'.psLen, hw'.psOk⟩, wfTextObs_ofText ⟨hw'.rt0Len, hw'.rt0Ok⟩⟩,
      wfTextObs_ofText ⟨hw'.rt1Len, hw'.rt1Ok⟩⟩, wfTextObs_ofText ⟨hw'.ptynLen, hw'.ptynOk⟩⟩
  show (_ && _) = true
  simp only [chkC16, recOf] at *
  rw [Bool.and_eq_true]
  exact ⟨hwf, hreset⟩

theorem wf_runFrom (tb : Tabs) (h : EccOk tb) (ops : List Op) :
    ∀ s, WF tb s → WF tb (runFrom tb.cfg s ops) := by
  induction ops with
  | nil => intro s hs; exact hs
  | cons op ops ih =>
    intro s hs
    simp only [runFrom, List.foldl_cons]
    exact ih _ (wf_step tb h s op hs)

/-- lifted to every reachable state -/
theorem wf_run (tb : Tabs) (h : EccOk tb) (ops : List Op) : WF tb (run tb.cfg ops) :=
  wf_runFrom tb h ops initState (wf_init tb h)

end RDS

#print axioms RDS.wf_init
#print axioms RDS.wf_step
#print axioms RDS.chkC16_ok
#print axioms RDS.wf_run
