import RdsModel
import RdsSpec.Monitors
import RdsSpec.Statements
import RdsProofs.Frame
import RdsProofs.Inv
/-!
# RdsProofs.C15Proofs — observers are pure

Method: `c15_withObs s cbs ud` replaces the observer table of a state. Every handler `h` commutes
with it on the state component (`(h (c15_withObs s c u)).1 = c15_withObs (h s).1 c u`), which also gives
the frame facts `(h s).1.cbs = s.cbs`, `(h s).1.ud = s.ud`; and its events are `c15_EvGood`: they
are the events of the all-listening run filtered by registration (compared by kind and erased
snapshot) and each carries the current user data.
-/
namespace RDS

/-- replace the observer table -/
def c15_withObs (s : State) (cbs : List Bool) (ud : Nat) : State := { s with cbs := cbs, ud := ud }

section c15_withObs
variable (s : State) (c : List Bool) (u : Nat)
@[simp] theorem c15_withObs_used : (c15_withObs s c u).used = s.used := rfl
@[simp] theorem c15_withObs_temp : (c15_withObs s c u).temp = s.temp := rfl
@[simp] theorem c15_withObs_set : (c15_withObs s c u).set = s.set := rfl
@[simp] theorem c15_withObs_ps : (c15_withObs s c u).ps = s.ps := rfl
@[simp] theorem c15_withObs_rt0 : (c15_withObs s c u).rt0 = s.rt0 := rfl
@[simp] theorem c15_withObs_rt1 : (c15_withObs s c u).rt1 = s.rt1 := rfl
@[simp] theorem c15_withObs_ptyn : (c15_withObs s c u).ptyn = s.ptyn := rfl
@[simp] theorem c15_withObs_termPs : (c15_withObs s c u).termPs = s.termPs := rfl
@[simp] theorem c15_withObs_termRt0 : (c15_withObs s c u).termRt0 = s.termRt0 := rfl
@[simp] theorem c15_withObs_termRt1 : (c15_withObs s c u).termRt1 = s.termRt1 := rfl
@[simp] theorem c15_withObs_termPtyn : (c15_withObs s c u).termPtyn = s.termPtyn := rfl
@[simp] theorem c15_withObs_lastRt : (c15_withObs s c u).lastRt = s.lastRt := rfl
@[simp] theorem c15_withObs_cbs : (c15_withObs s c u).cbs = c := rfl
@[simp] theorem c15_withObs_ud : (c15_withObs s c u).ud = u := rfl
@[simp] theorem c15_withObs_rt (fl : Nat) : (c15_withObs s c u).rt fl = s.rt fl := rfl
@[simp] theorem c15_withObs_withObs (c' : List Bool) (u' : Nat) :
    c15_withObs (c15_withObs s c u) c' u' = c15_withObs s c' u' := rfl
theorem c15_withObs_self : c15_withObs s s.cbs s.ud = s := rfl
theorem c15_erase_eq : erase s = c15_withObs s (List.replicate 12 false) 0 := rfl
theorem c15_listenAll_eq : listenAll s = c15_withObs s (List.replicate 12 true) s.ud := rfl
@[simp] theorem c15_erase_withObs : erase (c15_withObs s c u) = erase s := rfl
@[simp] theorem c15_erase_erase : erase (erase s) = erase s := rfl
theorem c15_withObs_setRt (fl : Nat) (t : Text) :
    (c15_withObs s c u).setRt fl t = c15_withObs (s.setRt fl t) c u := by
  unfold State.setRt; split <;> rfl
end c15_withObs

/-- a handler that commutes with `c15_withObs` does not touch the observer table -/
theorem c15_frame_of_comm (h : State → State × List Event)
    (hc : ∀ s c u, (h (c15_withObs s c u)).1 = c15_withObs (h s).1 c u) (s : State) :
    (h s).1.cbs = s.cbs ∧ (h s).1.ud = s.ud := by
  have := hc s s.cbs s.ud
  rw [c15_withObs_self] at this
  exact ⟨by rw [this]; rfl, by rw [this]; rfl⟩

/-! ## events -/

/-- what C15 compares of an event: which callback, with which arguments, showing which getter-visible state -/
def c15_evView (e : Event) : EvKind × State := (e.kind, erase e.snap)

def c15_regOf (cbs : List Bool) (c : Cb) : Bool := cbs.getD c.idx false

theorem c15_registered_eq (s : State) (c : Cb) : s.registered c = c15_regOf s.cbs c := rfl

/-- every callback is registered -/
def c15_AllReg (T : List Bool) : Prop := ∀ c : Cb, c15_regOf T c = true

theorem c15_allReg_true : c15_AllReg (List.replicate 12 true) := by
  intro c; cases c <;> rfl

/-- `evs` (run with table `cbs`, user data `ud`) against `evsAll` (the all-listening run) -/
def c15_EvGood (cbs : List Bool) (ud : Nat) (evs evsAll : List Event) : Prop :=
  evs.map c15_evView = (evsAll.filter (fun e => c15_regOf cbs e.kind.cb)).map c15_evView ∧
  ∀ e ∈ evs, e.ud = ud ∧ c15_regOf cbs e.kind.cb = true

theorem c15_evGood_nil (cbs : List Bool) (ud : Nat) : c15_EvGood cbs ud [] [] :=
  ⟨rfl, fun _ h => by cases h⟩

theorem c15_evGood_append {cbs : List Bool} {ud : Nat} {a a' b b' : List Event}
    (h1 : c15_EvGood cbs ud a a') (h2 : c15_EvGood cbs ud b b') : c15_EvGood cbs ud (a ++ b) (a' ++ b') := by
  refine ⟨?_, ?_⟩
  · rw [List.map_append, List.filter_append, List.map_append, h1.1, h2.1]
  · intro e he
    rcases List.mem_append.mp he with h | h
    · exact h1.2 e h
    · exact h2.2 e h

theorem c15_evGood_emit (s : State) (k : EvKind) (T : List Bool) (u : Nat) (hT : c15_AllReg T) :
    c15_EvGood s.cbs s.ud (emit s k.cb k) (emit (c15_withObs s T u) k.cb k) := by
  have hall : (c15_withObs s T u).registered k.cb = true := hT k.cb
  unfold emit
  rw [hall, if_pos rfl]
  by_cases hr : s.registered k.cb = true
  · have hr' : c15_regOf s.cbs k.cb = true := hr
    rw [if_pos hr]
    refine ⟨?_, ?_⟩
    · simp only [List.filter_cons, List.filter_nil, hr', if_true, List.map_cons, List.map_nil, c15_evView,
        c15_erase_withObs]
    · intro e he
      simp only [List.mem_singleton] at he
      subst he
      exact ⟨rfl, hr'⟩
  · have hr' : ¬ c15_regOf s.cbs k.cb = true := hr
    rw [if_neg hr]
    refine ⟨?_, fun _ h => by cases h⟩
    simp only [List.filter_cons, List.filter_nil, hr', if_false, List.map_nil, Bool.false_eq_true]

theorem c15_evGood_ite (b : Bool) (s : State) (k : EvKind) (T : List Bool) (u : Nat) (hT : c15_AllReg T) :
    c15_EvGood s.cbs s.ud (if b then emit s k.cb k else []) (if b then emit (c15_withObs s T u) k.cb k else []) := by
  cases b
  · exact c15_evGood_nil _ _
  · exact c15_evGood_emit s k T u hT

/-! ## setField -/

theorem c15_setField_comm (s : State) (f : Fld) (v : Int) (c : List Bool) (u : Nat) :
    (setField (c15_withObs s c u) f v).1 = c15_withObs (setField s f v).1 c u := rfl

theorem c15_Fld_ev_cb (f : Fld) : f.ev.cb = f.cb := by cases f <;> rfl

theorem c15_setField_snd (s : State) (f : Fld) (v : Int) :
    (setField s f v).2 =
      if (bufUpdate s.set.ext (s.used.get f) (s.temp.get f) v).2.2 then emit (setField s f v).1 f.ev.cb f.ev
      else [] := by
  rw [c15_Fld_ev_cb]; rfl

theorem c15_setField_good (s : State) (f : Fld) (v : Int) (T : List Bool) (u : Nat) (hT : c15_AllReg T) :
    c15_EvGood s.cbs s.ud (setField s f v).2 (setField (c15_withObs s T u) f v).2 := by
  rw [c15_setField_snd s, c15_setField_snd (c15_withObs s T u), c15_setField_comm]
  exact c15_evGood_ite (bufUpdate s.set.ext (s.used.get f) (s.temp.get f) v).2.2 (setField s f v).1 f.ev T u hT

/-! ## addAf -/

theorem c15_addAf_eq1 (s : State) (v : Nat) (h1 : afGet s.used.af v = true) : addAf s v = (s, []) := by
  unfold addAf; rw [if_pos h1]

theorem c15_addAf_eq2 (s : State) (v : Nat) (h1 : ¬ afGet s.used.af v = true)
    (h2 : (s.set.ext && !afGet s.temp.af v) = true) :
    addAf s v = ({ s with temp := { s.temp with af := (afSet s.temp.af v).1 } }, []) := by
  unfold addAf; rw [if_neg h1, if_pos h2]

theorem c15_addAf_eq3 (s : State) (v : Nat) (h1 : ¬ afGet s.used.af v = true)
    (h2 : ¬ (s.set.ext && !afGet s.temp.af v) = true) :
    addAf s v = ({ s with used := { s.used with af := (afSet s.used.af v).1 } },
      if (afSet s.used.af v).2 then
        emit { s with used := { s.used with af := (afSet s.used.af v).1 } } .af (.af (87500 + v * 100))
      else []) := by
  unfold addAf; rw [if_neg h1, if_neg h2]

theorem c15_addAf_comm (s : State) (v : Nat) (c : List Bool) (u : Nat) :
    (addAf (c15_withObs s c u) v).1 = c15_withObs (addAf s v).1 c u := by
  by_cases h1 : afGet s.used.af v = true
  · rw [c15_addAf_eq1 s v h1, c15_addAf_eq1 (c15_withObs s c u) v h1]
  · by_cases h2 : (s.set.ext && !afGet s.temp.af v) = true
    · rw [c15_addAf_eq2 s v h1 h2, c15_addAf_eq2 (c15_withObs s c u) v h1 h2]; rfl
    · rw [c15_addAf_eq3 s v h1 h2, c15_addAf_eq3 (c15_withObs s c u) v h1 h2]; rfl

theorem c15_addAf_good (s : State) (v : Nat) (T : List Bool) (u : Nat) (hT : c15_AllReg T) :
    c15_EvGood s.cbs s.ud (addAf s v).2 (addAf (c15_withObs s T u) v).2 := by
  by_cases h1 : afGet s.used.af v = true
  · rw [c15_addAf_eq1 s v h1, c15_addAf_eq1 (c15_withObs s T u) v h1]; exact c15_evGood_nil _ _
  · by_cases h2 : (s.set.ext && !afGet s.temp.af v) = true
    · rw [c15_addAf_eq2 s v h1 h2, c15_addAf_eq2 (c15_withObs s T u) v h1 h2]; exact c15_evGood_nil _ _
    · rw [c15_addAf_eq3 s v h1 h2, c15_addAf_eq3 (c15_withObs s T u) v h1 h2]
      exact c15_evGood_ite (afSet s.used.af v).2
        { s with used := { s.used with af := (afSet s.used.af v).1 } } (.af (87500 + v * 100)) T u hT

/-! ## observer-pure handlers and their combinators -/

/-- a quantity that does not look at the observer table -/
def c15_ObsInv {α : Type} (v : State → α) : Prop := ∀ s c u, v (c15_withObs s c u) = v s

/-- a state transformer that commutes with replacing the observer table -/
def c15_Comm (f : State → State) : Prop := ∀ s c u, f (c15_withObs s c u) = c15_withObs (f s) c u

theorem c15_Comm.frame {f : State → State} (hf : c15_Comm f) (s : State) : (f s).cbs = s.cbs ∧ (f s).ud = s.ud := by
  have := hf s s.cbs s.ud
  rw [c15_withObs_self] at this
  exact ⟨by rw [this]; rfl, by rw [this]; rfl⟩

/-- a handler is observer-pure: its state effect commutes with replacing the observer table and
its events are the all-listening events filtered by registration -/
structure c15_Pure (h : State → State × List Event) : Prop where
  comm : ∀ s c u, (h (c15_withObs s c u)).1 = c15_withObs (h s).1 c u
  good : ∀ s T u, c15_AllReg T → c15_EvGood s.cbs s.ud (h s).2 (h (c15_withObs s T u)).2

theorem c15_Pure.frame {h : State → State × List Event} (hp : c15_Pure h) (s : State) :
    (h s).1.cbs = s.cbs ∧ (h s).1.ud = s.ud := c15_frame_of_comm h hp.comm s

theorem c15_pure_id : c15_Pure (fun s => (s, [])) :=
  ⟨fun _ _ _ => rfl, fun _ _ _ _ => c15_evGood_nil _ _⟩

/-- sequential composition of two handlers -/
def c15_seq (h1 h2 : State → State × List Event) (s : State) : State × List Event :=
  ((h2 (h1 s).1).1, (h1 s).2 ++ (h2 (h1 s).1).2)

theorem c15_pure_seq {h1 h2 : State → State × List Event} (p1 : c15_Pure h1) (p2 : c15_Pure h2) : c15_Pure (c15_seq h1 h2) := by
  refine ⟨?_, ?_⟩
  · intro s c u
    show (h2 (h1 (c15_withObs s c u)).1).1 = c15_withObs (h2 (h1 s).1).1 c u
    rw [p1.comm, p2.comm]
  · intro s T u hT
    show c15_EvGood s.cbs s.ud ((h1 s).2 ++ (h2 (h1 s).1).2)
      ((h1 (c15_withObs s T u)).2 ++ (h2 (h1 (c15_withObs s T u)).1).2)
    rw [p1.comm]
    have g2 := p2.good (h1 s).1 T u hT
    rw [(p1.frame s).1, (p1.frame s).2] at g2
    exact c15_evGood_append (p1.good s T u hT) g2

/-- a handler may depend on observer-independent data of the state -/
theorem c15_pure_param {β : Type} (p : State → β) (hp : c15_ObsInv p) (h : β → State → State × List Event)
    (hh : ∀ b, c15_Pure (h b)) : c15_Pure (fun s => h (p s) s) := by
  refine ⟨?_, ?_⟩
  · intro s c u
    show (h (p (c15_withObs s c u)) (c15_withObs s c u)).1 = c15_withObs (h (p s) s).1 c u
    rw [hp, (hh (p s)).comm]
  · intro s T u hT
    show c15_EvGood s.cbs s.ud (h (p s) s).2 (h (p (c15_withObs s T u)) (c15_withObs s T u)).2
    rw [hp]
    exact (hh (p s)).good s T u hT

/-- a silent state preparation before a handler -/
theorem c15_pure_pre {h : State → State × List Event} (pre : State → State) (hpre : c15_Comm pre) (hh : c15_Pure h) :
    c15_Pure (fun s => h (pre s)) := by
  refine ⟨?_, ?_⟩
  · intro s c u
    show (h (pre (c15_withObs s c u))).1 = c15_withObs (h (pre s)).1 c u
    rw [hpre, hh.comm]
  · intro s T u hT
    show c15_EvGood s.cbs s.ud (h (pre s)).2 (h (pre (c15_withObs s T u))).2
    rw [hpre]
    have := hh.good (pre s) T u hT
    rw [(hpre.frame s).1, (hpre.frame s).2] at this
    exact this

theorem c15_pure_ite {h1 h2 : State → State × List Event} (p : Prop) [Decidable p] (p1 : c15_Pure h1) (p2 : c15_Pure h2) :
    c15_Pure (fun s => if p then h1 s else h2 s) := by
  by_cases hp : p
  · have : (fun s => if p then h1 s else h2 s) = h1 := by funext s; rw [if_pos hp]
    rw [this]; exact p1
  · have : (fun s => if p then h1 s else h2 s) = h2 := by funext s; rw [if_neg hp]
    rw [this]; exact p2

/-- a state update followed by at most one notification of that update -/
theorem c15_pure_upd (upd : State → State) (fire : State → Bool) (k : EvKind) (hupd : c15_Comm upd)
    (hfire : c15_ObsInv fire) : c15_Pure (fun s => (upd s, if fire s then emit (upd s) k.cb k else [])) := by
  refine ⟨?_, ?_⟩
  · intro s c u
    exact hupd s c u
  · intro s T u hT
    show c15_EvGood s.cbs s.ud (if fire s then emit (upd s) k.cb k else [])
      (if fire (c15_withObs s T u) then emit (upd (c15_withObs s T u)) k.cb k else [])
    rw [hfire, hupd]
    have := c15_evGood_ite (fire s) (upd s) k T u hT
    rw [(hupd.frame s).1, (hupd.frame s).2] at this
    exact this

theorem c15_pure_setField (f : Fld) (v : State → Int) (hv : c15_ObsInv v) : c15_Pure (fun s => setField s f (v s)) := by
  refine ⟨?_, ?_⟩
  · intro s c u
    show (setField (c15_withObs s c u) f (v (c15_withObs s c u))).1 = c15_withObs (setField s f (v s)).1 c u
    rw [hv]; rfl
  · intro s T u hT
    show c15_EvGood s.cbs s.ud (setField s f (v s)).2 (setField (c15_withObs s T u) f (v (c15_withObs s T u))).2
    rw [hv]
    exact c15_setField_good s f (v s) T u hT

theorem c15_pure_addAf (v : Nat) : c15_Pure (fun s => addAf s v) :=
  ⟨fun s c u => c15_addAf_comm s v c u, fun s T u hT => c15_addAf_good s v T u hT⟩

/-! ## the group handlers -/

theorem c15_pure_groupCommon (g : Group) : c15_Pure (fun s => groupCommon s g) := by
  have e : (fun s => groupCommon s g) =
      c15_seq (fun s => if g.ea = 0 then setField s .pi g.a else (s, []))
        (fun s => if g.eb = 0 then
            c15_seq (fun s => setField s .pty (g.b / 32 % 32 : Nat)) (fun s => setField s .tp (g.b / 1024 % 2 : Nat)) s
          else (s, [])) := by
    funext s
    unfold groupCommon c15_seq
    by_cases hb : g.eb = 0
    · simp only [hb, if_true, List.append_assoc]
    · simp only [hb, if_false, List.append_nil]
  rw [e]
  exact c15_pure_seq (c15_pure_ite _ (c15_pure_setField .pi (fun _ => g.a) (fun _ _ _ => rfl)) c15_pure_id)
    (c15_pure_ite _ (c15_pure_seq (c15_pure_setField .pty (fun _ => (g.b / 32 % 32 : Nat)) (fun _ _ _ => rfl))
      (c15_pure_setField .tp (fun _ => (g.b / 1024 % 2 : Nat)) (fun _ _ _ => rfl))) c15_pure_id)

/-! ### group 0 -/

/-- the PS update of a 0A/0B group -/
def c15_g0u (cfg : Cfg) (g : Group) (s : State) : Text × Bool :=
  parserUpdate cfg s.set s.ps .ps g.d g.eb g.ed (2 * (g.b % 4))

theorem c15_pure_group0 (cfg : Cfg) (g : Group) : c15_Pure (fun s => group0 cfg s g) := by
  have e : (fun s => group0 cfg s g) =
      c15_seq (c15_seq
        (fun s => if g.eb = 0 then
            c15_seq (fun s => setField s .ta (g.b / 16 % 2 : Nat)) (fun s => setField s .ms (g.b / 8 % 2 : Nat)) s
          else (s, []))
        (fun s => ((fun s => { s with ps := (c15_g0u cfg g s).1 }) s,
          if (fun s => (c15_g0u cfg g s).2) s then
            emit ((fun s => { s with ps := (c15_g0u cfg g s).1 }) s) (EvKind.cb .ps) .ps else [])))
        (fun s => if (!g.versionB && g.eb = 0 && g.ec = 0 && g.c / 256 % 256 != 250) then
            c15_seq (fun s => addAf s (g.c / 256 % 256)) (fun s => addAf s (g.c % 256)) s
          else (s, [])) := by
    funext s
    unfold group0 c15_seq
    by_cases hc : (!g.versionB && g.eb = 0 && g.ec = 0 && g.c / 256 % 256 != 250) = true
    · simp only [hc, if_true, c15_g0u, EvKind.cb, List.append_assoc]
    · simp only [hc, if_false, c15_g0u, EvKind.cb, List.append_nil, Bool.false_eq_true]
  rw [e]
  refine c15_pure_seq (c15_pure_seq ?_ ?_) ?_
  · exact c15_pure_ite _ (c15_pure_seq (c15_pure_setField .ta (fun _ => (g.b / 16 % 2 : Nat)) (fun _ _ _ => rfl))
      (c15_pure_setField .ms (fun _ => (g.b / 8 % 2 : Nat)) (fun _ _ _ => rfl))) c15_pure_id
  · exact c15_pure_upd (fun s => { s with ps := (c15_g0u cfg g s).1 }) (fun s => (c15_g0u cfg g s).2) .ps
      (fun _ _ _ => rfl) (fun _ _ _ => rfl)
  · exact c15_pure_ite _ (c15_pure_seq (c15_pure_addAf _) (c15_pure_addAf _)) c15_pure_id

/-! ### group 1 -/

theorem c15_pure_group1 (cfg : Cfg) (g : Group) : c15_Pure (fun s => group1 cfg s g) := by
  have e : (fun s => group1 cfg s g) =
      (fun s => if (!g.versionB && g.eb = 0 && g.ec = 0 && g.c / 4096 % 8 = 0) then
          c15_seq (fun s => setField s .ecc (g.c % 256 : Nat))
            (fun s => setField s .country (eccLookup cfg s.used.pi (g.c % 256 : Nat))) s
        else (s, [])) := rfl
  rw [e]
  exact c15_pure_ite _ (c15_pure_seq (c15_pure_setField .ecc (fun _ => (g.c % 256 : Nat)) (fun _ _ _ => rfl))
    (c15_pure_setField .country (fun s => eccLookup cfg s.used.pi (g.c % 256 : Nat)) (fun _ _ _ => rfl))) c15_pure_id

/-! ### group 10 -/

def c15_g10u (cfg : Cfg) (g : Group) (s : State) : (Text × Bool) × (Text × Bool) :=
  let u1 := parserUpdate cfg s.set s.ptyn .ptyn g.c g.eb g.ec (4 * (g.b % 2))
  (u1, parserUpdate cfg s.set u1.1 .ptyn g.d g.eb g.ed (4 * (g.b % 2) + 2))

theorem c15_pure_group10 (cfg : Cfg) (g : Group) : c15_Pure (fun s => group10 cfg s g) := by
  have e : (fun s => group10 cfg s g) =
      (fun s => if (!g.versionB) then
          (fun s => ((fun s => { s with ptyn := (c15_g10u cfg g s).2.1 }) s,
            if (fun s => (c15_g10u cfg g s).1.2 || (c15_g10u cfg g s).2.2) s then
              emit ((fun s => { s with ptyn := (c15_g10u cfg g s).2.1 }) s) (EvKind.cb .ptyn) .ptyn else [])) s
        else (s, [])) := rfl
  rw [e]
  exact c15_pure_ite _ (c15_pure_upd (fun s => { s with ptyn := (c15_g10u cfg g s).2.1 })
    (fun s => (c15_g10u cfg g s).1.2 || (c15_g10u cfg g s).2.2) .ptyn (fun _ _ _ => rfl) (fun _ _ _ => rfl)) c15_pure_id

/-! ### group 4 -/

/-- the part of the 4A guard that does not mention the observer table -/
def c15_g4ok (g : Group) : Bool := !g.versionB && g.eb = 0 && g.ec = 0 && g.ed = 0

theorem c15_group4_eq (s : State) (g : Group) :
    group4 s g = if (c15_g4ok g && s.registered .ct) then
        (match ctInit (ctFields g).1 (ctFields g).2.1 (ctFields g).2.2.1 (ctFields g).2.2.2 with
         | some v => (s, emit s .ct (.ct v))
         | none => (s, []))
      else (s, []) := rfl

theorem c15_group4_fst (s : State) (g : Group) : (group4 s g).1 = s := by
  rw [c15_group4_eq]
  split
  · split <;> rfl
  · rfl

theorem c15_group4_snd (s : State) (g : Group) :
    (group4 s g).2 = if c15_g4ok g then
        (match ctInit (ctFields g).1 (ctFields g).2.1 (ctFields g).2.2.1 (ctFields g).2.2.2 with
         | some v => emit s (EvKind.cb (.ct v)) (.ct v)
         | none => [])
      else [] := by
  rw [c15_group4_eq]
  cases c15_g4ok g
  · rfl
  · cases hr : s.registered .ct
    · simp only [Bool.and_false, Bool.false_eq_true, if_false, if_true]
      cases ctInit (ctFields g).1 (ctFields g).2.1 (ctFields g).2.2.1 (ctFields g).2.2.2 with
      | none => rfl
      | some v =>
        show [] = emit s Cb.ct (.ct v)
        unfold emit
        rw [hr]; rfl
    · simp only [Bool.and_true, if_true]
      cases ctInit (ctFields g).1 (ctFields g).2.1 (ctFields g).2.2.1 (ctFields g).2.2.2 <;> rfl

theorem c15_pure_group4 (g : Group) : c15_Pure (fun s => group4 s g) := by
  refine ⟨?_, ?_⟩
  · intro s c u
    show (group4 (c15_withObs s c u) g).1 = c15_withObs (group4 s g).1 c u
    rw [c15_group4_fst, c15_group4_fst]
  · intro s T u hT
    show c15_EvGood s.cbs s.ud (group4 s g).2 (group4 (c15_withObs s T u) g).2
    rw [c15_group4_snd, c15_group4_snd]
    cases c15_g4ok g
    · exact c15_evGood_nil _ _
    · simp only [if_true]
      cases ctInit (ctFields g).1 (ctFields g).2.1 (ctFields g).2.2.1 (ctFields g).2.2.2 with
      | none => exact c15_evGood_nil _ _
      | some v => exact c15_evGood_emit s (.ct v) T u hT

/-! ### group 2 -/

def c15_g2sw (g : Group) (s : State) : Bool := g.eb = 0 && (((g.b / 16 % 2 : Nat) : Int) != s.lastRt)

def c15_g2clr (g : Group) (s : State) : Bool :=
  c15_g2sw g s && s.lastRt != -1 && getAvailable (s.rt (g.b / 16 % 2))

/-- toggle detection: the state after the optional discard and flag update -/
def c15_g2pre (g : Group) (s : State) : State :=
  let s1 := if c15_g2clr g s then s.setRt (g.b / 16 % 2) (s.rt (g.b / 16 % 2)).cleared else s
  if c15_g2sw g s then { s1 with lastRt := (g.b / 16 % 2 : Nat) } else s1

def c15_g2u (cfg : Cfg) (g : Group) (s2 : State) : (Text × Bool) × (Text × Bool) :=
  let u1 := if !g.versionB
    then parserUpdate cfg s2.set (s2.rt (g.b / 16 % 2)) .rt g.c g.eb g.ec (4 * (g.b % 16))
    else (s2.rt (g.b / 16 % 2), false)
  (u1, parserUpdate cfg s2.set u1.1 .rt g.d g.eb g.ed
    (if !g.versionB then 4 * (g.b % 16) + 2 else 2 * (g.b % 16)))

def c15_g2guard (g : Group) (s2 : State) : Bool :=
  g.eb != 0 && ((g.b / 16 % 2 : Nat) : Int) != s2.lastRt && s2.lastRt != -1

def c15_g2upd (cfg : Cfg) (g : Group) (s2 : State) : State := s2.setRt (g.b / 16 % 2) (c15_g2u cfg g s2).2.1

def c15_g2rest (cfg : Cfg) (g : Group) (clr : Bool) (s2 : State) : State × List Event :=
  if c15_g2guard g s2 then (s2, [])
  else (c15_g2upd cfg g s2,
    if clr || (c15_g2u cfg g s2).1.2 || (c15_g2u cfg g s2).2.2 then
      emit (c15_g2upd cfg g s2) (EvKind.cb (.rt (g.b / 16 % 2))) (.rt (g.b / 16 % 2)) else [])

theorem c15_group2_eq (cfg : Cfg) (s : State) (g : Group) :
    group2 cfg s g = c15_g2rest cfg g (c15_g2clr g s) (c15_g2pre g s) := rfl

theorem c15_g2pre_comm (g : Group) : c15_Comm (c15_g2pre g) := by
  intro s c u
  have e1 : c15_g2clr g (c15_withObs s c u) = c15_g2clr g s := rfl
  have e2 : c15_g2sw g (c15_withObs s c u) = c15_g2sw g s := rfl
  unfold c15_g2pre
  rw [e1, e2, c15_withObs_rt, c15_withObs_setRt]
  cases c15_g2clr g s <;> cases c15_g2sw g s <;> rfl

theorem c15_g2upd_comm (cfg : Cfg) (g : Group) : c15_Comm (c15_g2upd cfg g) := by
  intro s c u
  show (c15_withObs s c u).setRt (g.b / 16 % 2) (c15_g2u cfg g s).2.1 = _
  exact c15_withObs_setRt s c u _ _

/-- `c15_g2rest` with the bit-flip guard's value as a parameter -/
def c15_g2body (cfg : Cfg) (g : Group) (clr : Bool) (b : Bool) (s2 : State) : State × List Event :=
  if b = true then (s2, [])
  else (c15_g2upd cfg g s2,
    if (fun s2 => clr || (c15_g2u cfg g s2).1.2 || (c15_g2u cfg g s2).2.2) s2 then
      emit (c15_g2upd cfg g s2) (EvKind.cb (.rt (g.b / 16 % 2))) (.rt (g.b / 16 % 2)) else [])

theorem c15_pure_g2body (cfg : Cfg) (g : Group) (clr b : Bool) : c15_Pure (c15_g2body cfg g clr b) :=
  c15_pure_ite _ c15_pure_id (c15_pure_upd (c15_g2upd cfg g) (fun s2 => clr || (c15_g2u cfg g s2).1.2 || (c15_g2u cfg g s2).2.2)
    (.rt (g.b / 16 % 2)) (c15_g2upd_comm cfg g) (fun _ _ _ => rfl))

theorem c15_pure_g2rest (cfg : Cfg) (g : Group) (clr : Bool) : c15_Pure (c15_g2rest cfg g clr) := by
  have e : c15_g2rest cfg g clr = (fun s2 => c15_g2body cfg g clr (c15_g2guard g s2) s2) := rfl
  rw [e]
  exact c15_pure_param (c15_g2guard g) (fun _ _ _ => rfl) (c15_g2body cfg g clr) (c15_pure_g2body cfg g clr)

theorem c15_pure_group2 (cfg : Cfg) (g : Group) : c15_Pure (fun s => group2 cfg s g) := by
  have e : (fun s => group2 cfg s g) =
      (fun s => (fun (clr : Bool) (s : State) => c15_g2rest cfg g clr (c15_g2pre g s)) (c15_g2clr g s) s) := rfl
  rw [e]
  exact c15_pure_param (c15_g2clr g) (fun _ _ _ => rfl) (fun (clr : Bool) (s : State) => c15_g2rest cfg g clr (c15_g2pre g s))
    (fun clr => c15_pure_pre (c15_g2pre g) (c15_g2pre_comm g) (c15_pure_g2rest cfg g clr))

/-! ### dispatch, process -/

theorem c15_pure_dispatch (cfg : Cfg) (g : Group) : c15_Pure (fun s => dispatch cfg s g) := by
  have e : (fun s => dispatch cfg s g) =
      (fun s => if g.type = 0 then group0 cfg s g
        else if g.type = 1 then group1 cfg s g
        else if g.type = 2 then group2 cfg s g
        else if g.type = 4 then group4 s g
        else if g.type = 10 then group10 cfg s g
        else (s, [])) := rfl
  rw [e]
  exact c15_pure_ite _ (c15_pure_group0 cfg g) (c15_pure_ite _ (c15_pure_group1 cfg g) (c15_pure_ite _ (c15_pure_group2 cfg g)
    (c15_pure_ite _ (c15_pure_group4 g) (c15_pure_ite _ (c15_pure_group10 cfg g) c15_pure_id))))

theorem c15_pure_process (cfg : Cfg) (g : Group) : c15_Pure (fun s => process cfg s g) := by
  have e : (fun s => process cfg s g) = c15_seq (fun s => groupCommon s g) (fun s => dispatch cfg s g) := rfl
  rw [e]
  exact c15_pure_seq (c15_pure_groupCommon g) (c15_pure_dispatch cfg g)

theorem c15_process_comm (cfg : Cfg) (s : State) (g : Group) (c : List Bool) (u : Nat) :
    (process cfg (c15_withObs s c u) g).1 = c15_withObs (process cfg s g).1 c u :=
  (c15_pure_process cfg g).comm s c u

theorem c15_process_good (cfg : Cfg) (s : State) (g : Group) (T : List Bool) (u : Nat) (hT : c15_AllReg T) :
    c15_EvGood s.cbs s.ud (process cfg s g).2 (process cfg (c15_withObs s T u) g).2 :=
  (c15_pure_process cfg g).good s T u hT

/-- a delivered group never touches the observer table -/
theorem c15_process_cbs (cfg : Cfg) (s : State) (g : Group) : (process cfg s g).1.cbs = s.cbs :=
  ((c15_pure_process cfg g).frame s).1
theorem c15_process_ud (cfg : Cfg) (s : State) (g : Group) : (process cfg s g).1.ud = s.ud :=
  ((c15_pure_process cfg g).frame s).2

theorem c15_process_erase (cfg : Cfg) (s : State) (g : Group) :
    erase (process cfg s g).1 = erase (process cfg (erase s) g).1 := by
  rw [c15_erase_eq s, c15_process_comm]; rfl

/-! ## the requested theorems -/

/-- decoding does not depend on who listens: the successor state, up to the observer table, is the same -/
theorem C15_state (cfg : Cfg) (s : State) (op : Op) (h : op.isObserver = false) :
    erase (step cfg s op).1 = erase (step cfg (erase s) op).1 := by
  cases op with
  | init => rfl
  | clear => rfl
  | parse g => exact c15_process_erase cfg s g
  | parseString x =>
    cases x with
    | none => rfl
    | some b =>
      simp only [step]
      cases utilsConvert b with
      | none => rfl
      | some g => exact c15_process_erase cfg s g
  | setExt v => rfl
  | setCorr t k v => rfl
  | setProg t v => rfl
  | register c on => cases h
  | userData n => cases h
  | getters => cases h

/-- observer operations change nothing but the observer table -/
theorem C15_observer (cfg : Cfg) (s : State) (op : Op) (h : op.isObserver = true) :
    erase (step cfg s op).1 = erase s ∧ (step cfg s op).2.1 = [] := by
  cases op with
  | register c on => exact ⟨rfl, rfl⟩
  | userData n => exact ⟨rfl, rfl⟩
  | getters => exact ⟨rfl, rfl⟩
  | init => cases h
  | clear => cases h
  | parse g => cases h
  | parseString x => cases h
  | setExt v => cases h
  | setCorr t k v => cases h
  | setProg t v => cases h

/-- the result flag never depends on observers -/
theorem C15_ret (cfg : Cfg) (s : State) (op : Op) : (step cfg s op).2.2 = (step cfg (erase s) op).2.2 := by
  cases op with
  | parseString x =>
    cases x with
    | none => rfl
    | some b =>
      simp only [step]
      cases utilsConvert b <;> rfl
  | init => rfl
  | clear => rfl
  | parse g => rfl
  | setExt v => rfl
  | setCorr t k v => rfl
  | setProg t v => rfl
  | register c on => rfl
  | userData n => rfl
  | getters => rfl

/-- the events of one call against the all-listening run, and their user data -/
theorem c15_step_good (cfg : Cfg) (s : State) (op : Op) :
    c15_EvGood s.cbs s.ud (step cfg s op).2.1 (step cfg (listenAll s) op).2.1 := by
  cases op with
  | parse g => exact c15_process_good cfg s g _ s.ud c15_allReg_true
  | parseString x =>
    cases x with
    | none => exact c15_evGood_nil _ _
    | some b =>
      simp only [step]
      cases utilsConvert b with
      | none => exact c15_evGood_nil _ _
      | some g => exact c15_process_good cfg s g _ s.ud c15_allReg_true
  | init => exact c15_evGood_nil _ _
  | clear => exact c15_evGood_nil _ _
  | setExt v => exact c15_evGood_nil _ _
  | setCorr t k v => exact c15_evGood_nil _ _
  | setProg t v => exact c15_evGood_nil _ _
  | register c on => exact c15_evGood_nil _ _
  | userData n => exact c15_evGood_nil _ _
  | getters => exact c15_evGood_nil _ _

/-- the callbacks invoked are those of the all-listening run filtered by registration, each seeing the same getter-visible state -/
theorem C15_events (cfg : Cfg) (s : State) (op : Op) :
    (step cfg s op).2.1.map (fun e => (e.kind, erase e.snap)) =
    (((step cfg (listenAll s) op).2.1.filter (fun e => s.registered e.kind.cb)).map (fun e => (e.kind, erase e.snap))) :=
  (c15_step_good cfg s op).1

/-- every invoked callback receives the user data most recently set -/
theorem C15_ud (cfg : Cfg) (s : State) (op : Op) : ∀ e ∈ (step cfg s op).2.1, e.ud = s.ud ∧ s.registered e.kind.cb = true :=
  (c15_step_good cfg s op).2

/-- one step on two states that differ only in the observer table -/
theorem c15_step_erase_congr (cfg : Cfg) (s s' : State) (op : Op) (h : op.isObserver = false)
    (he : erase s = erase s') : erase (step cfg s op).1 = erase (step cfg s' op).1 := by
  rw [C15_state cfg s op h, C15_state cfg s' op h, he]

theorem c15_run_erase_congr (cfg : Cfg) (ops : List Op) : ∀ s s' : State, erase s = erase s' →
    erase (runFrom cfg s ops) = erase (runFrom cfg s' (ops.filter (fun o => !o.isObserver))) := by
  induction ops with
  | nil => intro s s' he; exact he
  | cons op ops ih =>
    intro s s' he
    cases ho : op.isObserver with
    | true =>
      have hf : (op :: ops).filter (fun o => !o.isObserver) = ops.filter (fun o => !o.isObserver) := by
        rw [List.filter_cons, ho]; rfl
      rw [hf]
      show erase (runFrom cfg (step cfg s op).1 ops) = _
      exact ih _ _ ((C15_observer cfg s op ho).1.trans he)
    | false =>
      have hf : (op :: ops).filter (fun o => !o.isObserver) = op :: ops.filter (fun o => !o.isObserver) := by
        rw [List.filter_cons, ho]; rfl
      rw [hf]
      show erase (runFrom cfg (step cfg s op).1 ops) =
        erase (runFrom cfg (step cfg s' op).1 (ops.filter (fun o => !o.isObserver)))
      exact ih _ _ (c15_step_erase_congr cfg s s' op ho he)

/-- lifted to op lists: the getter-visible state after any op list is the same with all observer ops removed -/
theorem C15_run (cfg : Cfg) (s : State) (ops : List Op) :
    erase (runFrom cfg s ops) = erase (runFrom cfg (erase s) (ops.filter (fun o => !o.isObserver))) :=
  c15_run_erase_congr cfg ops s (erase s) rfl

#print axioms C15_state
#print axioms C15_observer
#print axioms C15_ret
#print axioms C15_events
#print axioms C15_ud
#print axioms C15_run

end RDS
