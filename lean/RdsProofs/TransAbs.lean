import RdsC
import RdsModel
import RdsSpec.Statements
import RdsProofs.TransBits
/-!
# RdsProofs.TransAbs — abstraction from the translated C state to the model state

`RdsC/Translated.lean` is generated from `/repo/src/*.c` on every run by `tools/c2lean.py`. This file says how a
translated C state (`C_librdsparser`) is read as a model `State` — exactly what the public getters return — which
invariant reachable C states satisfy (`CInv`), which model configuration the C *source text* defines (`cfgC`: the
charset array and the ECC look-up tables of the source), and how a logged callback is read as a model `Event`.
The refinement theorems (`RdsProofs/Trans*.lean`) state that every translated API function, seen through `abs`,
IS the corresponding function of the hand-written model.
-/
namespace RDS.C
open RDS
open RDS.C.TransBits (bitsOf)

/-- the model configuration the C source text defines -/
def cfgC (unicode : Bool) : Cfg :=
  { unicode := unicode,
    g0 := fun b => (c_rdsparser_string_convert_charset.getD (b - 32) 32).toNat,
    ecc := fun nib e => (c_rdsparser_ecc_lookup ((nib : Int) * 4096) (e : Int)).toNat }

/-- a packed C string as the model's list of cells -/
def absText (s : CStr) : Text :=
  List.zipWith (fun (c e : Int) => (⟨c.toNat, e.toNat⟩ : Cell)) s.content s.errors

def absData (d : C_rdsparser_buffer_data) : Scalars :=
  ⟨d.pi, d.pty, d.tp, d.ta, d.ms, d.ecc, d.country, bitsOf d.af.buffer⟩

def absSet (r : C_librdsparser) : Settings :=
  { ext := r.buffer.extended_check != 0,
    progPs := getI r.progressive 0 != 0, progRt := getI r.progressive 1 != 0, progPtyn := getI r.progressive 2 != 0,
    psInfo := (getI (getL r.correction 0) 0).toNat, psData := (getI (getL r.correction 0) 1).toNat,
    rtInfo := (getI (getL r.correction 1) 0).toNat, rtData := (getI (getL r.correction 1) 1).toNat,
    ptynInfo := (getI (getL r.correction 2) 0).toNat, ptynData := (getI (getL r.correction 2) 1).toNat }

def absCbs (r : C_librdsparser) : List Bool :=
  [r.callback_pi != 0, r.callback_pty != 0, r.callback_tp != 0, r.callback_ta != 0, r.callback_ms != 0,
   r.callback_ecc != 0, r.callback_country != 0, r.callback_af != 0, r.callback_ps != 0, r.callback_rt != 0,
   r.callback_ptyn != 0, r.callback_ct != 0]

/-- the model state a C state denotes -/
def abs (r : C_librdsparser) : State :=
  { used := absData r.buffer.data_used, temp := absData r.buffer.data_temp, set := absSet r,
    ps := absText r.ps, rt0 := absText (getS r.rt 0), rt1 := absText (getS r.rt 1), ptyn := absText r.ptyn,
    termPs := r.ps.term.toNat, termRt0 := (getS r.rt 0).term.toNat, termRt1 := (getS r.rt 1).term.toNat,
    termPtyn := r.ptyn.term.toNat,
    lastRt := r.last_rt_flag, cbs := absCbs r, ud := r.user_data.toNat }

/-- a logged callback as a model event (`none` for a name/arity the model does not know) -/
def absEvent (e : CEvent C_librdsparser) : Option Event :=
  let mk (k : EvKind) (ud : Int) : Option Event := some ⟨k, ud.toNat, abs e.snap⟩
  match e.name, e.args with
  | "pi", [ud] => mk .pi ud | "pty", [ud] => mk .pty ud | "tp", [ud] => mk .tp ud | "ta", [ud] => mk .ta ud
  | "ms", [ud] => mk .ms ud | "ecc", [ud] => mk .ecc ud | "country", [ud] => mk .country ud
  | "af", [f, ud] => mk (.af f.toNat) ud
  | "ps", [ud] => mk .ps ud | "rt", [fl, ud] => mk (.rt fl.toNat) ud | "ptyn", [ud] => mk .ptyn ud
  | "ct", [y, mo, d, h, mi, off, ud] => mk (.ct ⟨y, mo, d, h, mi, off * 30⟩) ud
  | _, _ => none

def absLog (log : CLog) : List Event := log.filterMap absEvent

/-! ## the invariant of reachable C states -/

def StrOk (s : CStr) (cap : Nat) : Prop :=
  s.size = cap ∧ s.content.length = cap ∧ s.errors.length = cap ∧ s.term = 0 ∧
  (∀ c ∈ s.content, 0 ≤ c) ∧ (∀ e ∈ s.errors, 0 ≤ e ∧ e < 256)

def DataOk (d : C_rdsparser_buffer_data) : Prop :=
  -1 ≤ d.pi ∧ d.pi < 65536 ∧ -1 ≤ d.pty ∧ d.pty < 32 ∧ -1 ≤ d.tp ∧ d.tp < 2 ∧ -1 ≤ d.ta ∧ d.ta < 2 ∧
  -1 ≤ d.ms ∧ d.ms < 2 ∧ -1 ≤ d.ecc ∧ d.ecc < 256 ∧ 0 ≤ d.country ∧ d.country < 256 ∧
  d.af.buffer.length = 26 ∧ ∀ x ∈ d.af.buffer, 0 ≤ x ∧ x < 256

structure CInv (r : C_librdsparser) : Prop where
  used : DataOk r.buffer.data_used
  temp : DataOk r.buffer.data_temp
  ext : r.buffer.extended_check = 0 ∨ r.buffer.extended_check = 1
  ps : StrOk r.ps 8
  rtLen : r.rt.length = 2
  rt0 : StrOk (getS r.rt 0) 64
  rt1 : StrOk (getS r.rt 1) 64
  ptyn : StrOk r.ptyn 8
  progLen : r.progressive.length = 3
  prog : ∀ x ∈ r.progressive, x = 0 ∨ x = 1
  corrLen : r.correction.length = 3
  corr : ∀ row ∈ r.correction, row.length = 2 ∧ ∀ x ∈ row, 0 ≤ x ∧ x ≤ 2
  lastRt : r.last_rt_flag = -1 ∨ r.last_rt_flag = 0 ∨ r.last_rt_flag = 1
  ud : 0 ≤ r.user_data

/-- two C states agree on every field the abstraction and the invariant look at (a field the library may gain later —
a counter, a cache — is not one of them) -/
def SameModelled (x y : C_librdsparser) : Prop :=
  x.buffer = y.buffer ∧ x.ps = y.ps ∧ x.rt = y.rt ∧ x.ptyn = y.ptyn ∧ x.progressive = y.progressive ∧
  x.correction = y.correction ∧ x.user_data = y.user_data ∧ x.last_rt_flag = y.last_rt_flag ∧
  x.callback_pi = y.callback_pi ∧ x.callback_pty = y.callback_pty ∧ x.callback_tp = y.callback_tp ∧
  x.callback_ta = y.callback_ta ∧ x.callback_ms = y.callback_ms ∧ x.callback_ecc = y.callback_ecc ∧
  x.callback_country = y.callback_country ∧ x.callback_af = y.callback_af ∧ x.callback_ps = y.callback_ps ∧
  x.callback_rt = y.callback_rt ∧ x.callback_ptyn = y.callback_ptyn ∧ x.callback_ct = y.callback_ct

theorem SameModelled.abs_eq {x y : C_librdsparser} (h : SameModelled x y) : abs x = abs y := by
  obtain ⟨h1, h2, h3, h4, h5, h6, h7, h8, c1, c2, c3, c4, c5, c6, c7, c8, c9, c10, c11, c12⟩ := h
  simp only [abs, absSet, absCbs, h1, h2, h3, h4, h5, h6, h7, h8, c1, c2, c3, c4, c5, c6, c7, c8, c9, c10, c11, c12]

theorem SameModelled.inv {x y : C_librdsparser} (h : SameModelled x y) (hy : CInv y) : CInv x := by
  obtain ⟨h1, h2, h3, h4, h5, h6, h7, h8, _⟩ := h
  exact ⟨h1 ▸ hy.used, h1 ▸ hy.temp, h1 ▸ hy.ext, h2 ▸ hy.ps, h3 ▸ hy.rtLen, h3 ▸ hy.rt0, h3 ▸ hy.rt1, h4 ▸ hy.ptyn,
    h5 ▸ hy.progLen, h5 ▸ hy.prog, h6 ▸ hy.corrLen, h6 ▸ hy.corr, h8 ▸ hy.lastRt, h7 ▸ hy.ud⟩

/-- the group as the C API receives it -/
def dataOf (g : Group) : List Int := [(g.a : Int), g.b, g.c, g.d]
def errorsOf (g : Group) : List Int := [(g.ea : Int), g.eb, g.ec, g.ed]

end RDS.C
