import RdsModel
import RdsSpec.Monitors
import RdsSpec.Statements
import RdsProofs.Frame
import RdsProofs.Inv
import RdsProofs.C12Calendar
/-!
# RdsProofs.C12Proofs — property C12 (clock time) on the model

* `civilFromDays_correct` (in `RdsProofs.C12Calendar`): the date algorithm is exact for all `z ≥ 0`;
* `ctInit_correct` / `ctInit_reject`: `rdsparser_ct_init` — time-of-day carries + date;
* `chkC12_ok`: the executable statement `chkC12` holds for every call on the model.

Helper lemmas live in namespace `RDS.C12`.
-/
namespace RDS
namespace C12
theorem tdm2 (off : Int) : off = 2 * Int.tdiv off 2 + Int.tmod off 2 ∧
    (Int.tmod off 2 = 0 ∨ (Int.tmod off 2 = 1 ∧ 0 < off) ∨ (Int.tmod off 2 = -1 ∧ off < 0)) := by
  by_cases h : 0 ≤ off
  · rw [Int.tdiv_eq_ediv_of_nonneg h, Int.tmod_eq_emod_of_nonneg h]; omega
  · have hk : 0 ≤ -off := by omega
    have e : off = -(-off) := by omega
    have h1 : Int.tdiv off 2 = -((-off) / 2) := by
      rw [← Int.tdiv_eq_ediv_of_nonneg hk, ← Int.neg_tdiv]; simp
    have h2 : Int.tmod off 2 = -((-off) % 2) := by
      rw [← Int.tmod_eq_emod_of_nonneg hk, ← Int.neg_tmod]; simp
    rw [h1, h2]; omega
theorem ct_arith (mjd hour minute q r off : Int) (h0 : 0 ≤ mjd) (hh0 : 0 ≤ hour) (hh : hour < 24)
    (hm0 : 0 ≤ minute) (hm : minute < 60) (ho : -31 ≤ off ∧ off ≤ 31) (hoff : off = 2 * q + r)
    (hr : r = 0 ∨ (r = 1 ∧ 0 < off) ∨ (r = -1 ∧ off < 0)) :
    let m0 : Int := minute + r * 30
    let h0 : Int := if 60 ≤ m0 then hour + 1 else if m0 < 0 then hour - 1 else hour
    let m1 : Int := if 60 ≤ m0 then m0 - 60 else if m0 < 0 then 60 + m0 else m0
    let h1 : Int := h0 + q
    let day : Int := if 24 ≤ h1 then mjd + 1 else if h1 < 0 then mjd - 1 else mjd
    let h2 : Int := if 24 ≤ h1 then h1 - 24 else if h1 < 0 then 24 + h1 else h1
    0 ≤ day + 678881 ∧ 0 ≤ h2 ∧ h2 < 24 ∧ 0 ≤ m1 ∧ m1 < 60 ∧
      day * 1440 + h2 * 60 + m1 = mjd * 1440 + hour * 60 + minute + 30 * off := by
  intro m0 h0 m1 h1 day h2
  omega
end C12

theorem ctInit_reject (mjd hour minute : Nat) (off : Int) (h : ¬ (hour < 24 ∧ minute < 60)) :
    ctInit mjd hour minute off = none := by
  have : (decide (24 ≤ hour) || decide (60 ≤ minute)) = true := by
    simp only [Bool.or_eq_true, decide_eq_true_eq]; omega
  simp [ctInit, this]

theorem ctInit_correct (mjd hour minute : Nat) (off : Int) (hh : hour < 24) (hm : minute < 60)
    (ho : -31 ≤ off ∧ off ≤ 31) :
    ∃ v, ctInit mjd hour minute off = some v ∧
      validDate v.year v.month v.day = true ∧ 0 ≤ v.hour ∧ v.hour < 24 ∧ 0 ≤ v.minute ∧ v.minute < 60 ∧
      v.offsetMin = 30 * off ∧
      (mjdOf v.year v.month v.day) * 1440 + v.hour * 60 + v.minute
        = (mjd : Int) * 1440 + (hour : Int) * 60 + minute + 30 * off := by
  have hg : (decide (24 ≤ hour) || decide (60 ≤ minute)) = false := by
    simp only [Bool.or_eq_false_iff, decide_eq_false_iff_not]; omega
  obtain ⟨hoff, hr⟩ := C12.tdm2 off
  unfold ctInit
  rw [if_neg (by simp [hg])]
  generalize Int.tdiv off 2 = q at *
  generalize Int.tmod off 2 = r at *
  extract_lets m0 h0 m1 h1 day h2 ymd
  have A : 0 ≤ day + 678881 ∧ 0 ≤ h2 ∧ h2 < 24 ∧ 0 ≤ m1 ∧ m1 < 60 ∧
      day * 1440 + h2 * 60 + m1 = (mjd : Int) * 1440 + (hour : Int) * 60 + minute + 30 * off :=
    C12.ct_arith mjd hour minute q r off (by omega) (by omega) (by omega) (by omega) (by omega) ho hoff hr
  have C := civilFromDays_correct (day + 678881) A.1
  refine ⟨_, rfl, C.1, A.2.1, A.2.2.1, A.2.2.2.1, A.2.2.2.2.1, Int.mul_comm _ _, ?_⟩
  have e : mjdOf ymd.1 ymd.2.1 ymd.2.2 = day :=
    C.2.trans (Int.add_sub_cancel day 678881)
  show mjdOf ymd.1 ymd.2.1 ymd.2.2 * 1440 + h2 * 60 + m1 = _
  rw [e]; exact A.2.2.2.2.2

namespace C12

/-- clock-time reports among the events of a call -/
def ctOf (evs : List Event) : List CtVal := ctEvents (evs.map EvObs.ofEvent)

@[simp] theorem ctOf_nil : ctOf [] = [] := rfl

@[simp] theorem ctOf_append (a b : List Event) : ctOf (a ++ b) = ctOf a ++ ctOf b := by
  simp [ctOf, ctEvents, List.filterMap_append]

theorem ctOf_emit (s : State) (c : Cb) (k : EvKind) :
    ctOf (emit s c k) = if s.registered c then (match k with | .ct v => [v] | _ => []) else [] := by
  unfold emit; split
  · cases k <;> simp [ctOf, ctEvents, EvObs.ofEvent]
  · rfl

@[simp] theorem ctOf_setField (s : State) (f : Fld) (v : Int) : ctOf (setField s f v).2 = [] := by
  simp only [setField]; split
  · rw [ctOf_emit]; cases f <;> simp [Fld.ev]
  · rfl

@[simp] theorem ctOf_addAf (s : State) (v : Nat) : ctOf (addAf s v).2 = [] := by
  unfold addAf
  split
  · rfl
  · split
    · rfl
    · simp only []; split
      · rw [ctOf_emit]; simp
      · rfl

@[simp] theorem ctOf_groupCommon (s : State) (g : Group) : ctOf (groupCommon s g).2 = [] := by
  unfold groupCommon
  by_cases ha : g.ea = 0 <;> by_cases hb : g.eb = 0 <;> simp [ha, hb]

@[simp] theorem groupCommon_registered (s : State) (g : Group) (c : Cb) :
    (groupCommon s g).1.registered c = s.registered c := by
  unfold groupCommon
  by_cases ha : g.ea = 0 <;> by_cases hb : g.eb = 0 <;> simp [ha, hb]

@[simp] theorem ctOf_group0 (cfg : Cfg) (s : State) (g : Group) : ctOf (group0 cfg s g).2 = [] := by
  unfold group0
  simp only []
  split <;> split <;> split <;> simp [ctOf_emit]

@[simp] theorem ctOf_group1 (cfg : Cfg) (s : State) (g : Group) : ctOf (group1 cfg s g).2 = [] := by
  unfold group1; split <;> simp

@[simp] theorem ctOf_group2 (cfg : Cfg) (s : State) (g : Group) : ctOf (group2 cfg s g).2 = [] := by
  unfold group2
  simp only [apply_ite Prod.snd, apply_ite ctOf, ctOf_emit, ctOf_nil, ite_self]

@[simp] theorem ctOf_group10 (cfg : Cfg) (s : State) (g : Group) : ctOf (group10 cfg s g).2 = [] := by
  unfold group10
  simp only [apply_ite Prod.snd, apply_ite ctOf, ctOf_emit, ctOf_nil, ite_self]

/-- the gate of `group4.c` -/
def gate4 (s : State) (g : Group) : Prop :=
  g.versionB = false ∧ g.eb = 0 ∧ g.ec = 0 ∧ g.ed = 0 ∧ s.registered .ct = true

instance (s : State) (g : Group) : Decidable (gate4 s g) := by unfold gate4; infer_instance

theorem ctOf_group4 (s : State) (g : Group) :
    ctOf (group4 s g).2 =
      if gate4 s g then
        (ctInit (ctFields g).1 (ctFields g).2.1 (ctFields g).2.2.1 (ctFields g).2.2.2).toList
      else [] := by
  unfold group4
  by_cases hg : gate4 s g
  · rw [if_pos hg]
    obtain ⟨h1, h2, h3, h4, h5⟩ := hg
    rw [if_pos (by simp [h1, h2, h3, h4, h5])]
    simp only []
    split
    · rename_i v hv; rw [hv, ctOf_emit]; simp [h5]
    · rename_i hv; rw [hv]; rfl
  · rw [if_neg hg]
    have : ¬ ((!g.versionB && decide (g.eb = 0) && decide (g.ec = 0) && decide (g.ed = 0) &&
        s.registered .ct) = true) := by
      intro h
      simp only [Bool.and_eq_true, Bool.not_eq_true', decide_eq_true_eq] at h
      exact hg ⟨h.1.1.1.1, h.1.1.1.2, h.1.1.2, h.1.2, h.2⟩
    rw [if_neg this]; rfl

theorem ctOf_process (cfg : Cfg) (s : State) (g : Group) :
    ctOf (process cfg s g).2 =
      if g.type = 4 ∧ gate4 s g then
        (ctInit (ctFields g).1 (ctFields g).2.1 (ctFields g).2.2.1 (ctFields g).2.2.2).toList
      else [] := by
  unfold process dispatch
  simp only [ctOf_append, ctOf_groupCommon, List.nil_append]
  by_cases h0 : g.type = 0
  · rw [if_pos h0, if_neg (by omega)]; simp
  by_cases h1 : g.type = 1
  · rw [if_neg h0, if_pos h1, if_neg (by omega)]; simp
  by_cases h2 : g.type = 2
  · rw [if_neg h0, if_neg h1, if_pos h2, if_neg (by omega)]; simp
  by_cases h4 : g.type = 4
  · rw [if_neg h0, if_neg h1, if_neg h2, if_pos h4, ctOf_group4]
    simp [gate4, h4]
  by_cases h10 : g.type = 10
  · rw [if_neg h0, if_neg h1, if_neg h2, if_neg h4, if_pos h10, if_neg (by omega)]; simp
  · rw [if_neg h0, if_neg h1, if_neg h2, if_neg h4, if_neg h10, if_neg (by omega)]; rfl


/-- the body of `chkC12` as a function of (callback registered, delivered group, clock-time reports) -/
def body (reg : Bool) (og : Option Group) (cts : List CtVal) : Bool :=
  if !reg then cts.isEmpty else
  match og with
  | none => cts.isEmpty
  | some g =>
    let f := ctFields g
    let mjd := f.1; let h := f.2.1; let mi := f.2.2.1; let off := f.2.2.2
    let expected := g.type = 4 && !g.versionB && g.eb = 0 && g.ec = 0 && g.ed = 0 && h < 24 && mi < 60
    if !expected then cts.isEmpty else
    match cts with
    | [v] =>
      validDate v.year v.month v.day && 0 ≤ v.hour && v.hour < 24 && 0 ≤ v.minute && v.minute < 60 &&
      v.offsetMin == 30 * off &&
      (mjdOf v.year v.month v.day) * 1440 + v.hour * 60 + v.minute
        == (mjd : Int) * 1440 + (h : Int) * 60 + mi + 30 * off
    | _ => false

theorem chkC12_eq_body (m : Mon) (r : StepRec) :
    chkC12 m r = body (m.cbs.getD Cb.ct.idx false) r.op.group? (ctEvents r.evs) := rfl

theorem body_nil (reg : Bool) : body reg none [] = true := by cases reg <;> rfl

theorem ctFields_off (g : Group) : -31 ≤ (ctFields g).2.2.2 ∧ (ctFields g).2.2.2 ≤ 31 := by
  simp only [ctFields]; split <;> omega

theorem body_process (cfg : Cfg) (s : State) (g : Group) :
    body (s.registered .ct) (some g) (ctOf (process cfg s g).2) = true := by
  rw [ctOf_process]
  unfold body
  cases hreg : s.registered .ct
  · have : ¬ (g.type = 4 ∧ gate4 s g) := by simp [gate4, hreg]
    rw [if_neg this]; rfl
  · simp only [Bool.not_true, Bool.false_eq_true, if_false]
    by_cases hg : g.type = 4 ∧ g.versionB = false ∧ g.eb = 0 ∧ g.ec = 0 ∧ g.ed = 0
    · obtain ⟨h4, hv, hb, hc, hd⟩ := hg
      have hgate : g.type = 4 ∧ gate4 s g := ⟨h4, hv, hb, hc, hd, hreg⟩
      rw [if_pos hgate]
      by_cases hhm : (ctFields g).2.1 < 24 ∧ (ctFields g).2.2.1 < 60
      · obtain ⟨v, hv', hvalid, hh0, hh1, hm0, hm1, hoff, hsum⟩ :=
          ctInit_correct (ctFields g).1 (ctFields g).2.1 (ctFields g).2.2.1 (ctFields g).2.2.2
            hhm.1 hhm.2 (ctFields_off g)
        rw [hv']
        simp only [Option.toList]
        simp [h4, hv, hb, hc, hd, hhm.1, hhm.2, hvalid, hh0, hh1, hm0, hm1, hoff, hsum]
      · rw [ctInit_reject _ _ _ _ hhm]
        have : ¬ ((ctFields g).2.1 < 24 ∧ (ctFields g).2.2.1 < 60) := hhm
        simp only [Option.toList]
        have hexp : (decide (g.type = 4) && !g.versionB && decide (g.eb = 0) && decide (g.ec = 0) &&
            decide (g.ed = 0) && decide ((ctFields g).2.1 < 24) && decide ((ctFields g).2.2.1 < 60)) = false := by
          simp only [h4, hv, hb, hc, hd, decide_true, Bool.not_false, Bool.true_and]
          rw [← Bool.decide_and]; exact decide_eq_false this
        simp [hexp]
    · have : ¬ (g.type = 4 ∧ gate4 s g) := fun h => hg ⟨h.1, h.2.1, h.2.2.1, h.2.2.2.1, h.2.2.2.2.1⟩
      rw [if_neg this]
      have hexp : (decide (g.type = 4) && !g.versionB && decide (g.eb = 0) && decide (g.ec = 0) &&
          decide (g.ed = 0)) = false := by
        apply Bool.eq_false_iff.2; intro h
        simp only [Bool.and_eq_true, Bool.not_eq_true', decide_eq_true_eq] at h
        exact hg ⟨h.1.1.1.1, h.1.1.1.2, h.1.1.2, h.1.2, h.2⟩
      simp [hexp]

end C12

theorem chkC12_ok (tb : Tabs) (m : Mon) (s : State) (op : Op) (hl : Link m s) :
    chkC12 m (recOf tb.cfg s op) = true := by
  rw [C12.chkC12_eq_body]
  have hreg : m.cbs.getD Cb.ct.idx false = s.registered .ct := by rw [hl.cbs]; rfl
  rw [hreg]
  cases op with
  | parse g => exact C12.body_process tb.cfg s g
  | parseString o =>
    cases o with
    | none => exact C12.body_nil _
    | some b =>
      cases hu : utilsConvert b with
      | none =>
        simp only [recOf, step, Op.group?, hu]
        exact C12.body_nil _
      | some g =>
        simp only [recOf, step, Op.group?, hu]
        exact C12.body_process tb.cfg s g
  | _ => exact C12.body_nil _
end RDS

#print axioms RDS.civilFromDays_correct
#print axioms RDS.ctInit_correct
#print axioms RDS.ctInit_reject
#print axioms RDS.chkC12_ok
