import RdsProofs.WordedProofs
import RdsProofs.ExtraProofs
import RdsProofs.C04Base
/-!
# RdsProofs.AuditC09 — audit gaps of C09 / C10

(a) `C09_worded_country`: the COUNTRY clause of C09 in its own words;
(b) `ExtendedMode'`: the extended check may be switched on at any moment the parser is in its reset state
    (not only as the very first call); `C09_worded'`, `C10_worded_extended'`, `C09_worded_country'`;
(c) `C09_text_indep_trace`: text / clock-time callbacks (with the text view they see), results and text views
    along two runs that differ only in the values written by `set_extended_check` are equal call by call.
-/
namespace RDS

/-! ## definitions -/

/-- one step of `ac09_pristine` -/
def ac09_pristineStep (q : Bool) (op : Op) : Bool :=
  match op with
  | .init | .clear => true
  | _ => q && op.group?.isNone

/-- "the parser is in its reset state": no call since the last `init`/`clear` (or since creation) has delivered a
group. Setters, registrations, getters and *failing* `parse_string` calls are allowed after the last reset; anything
at all is allowed before it. -/
def ac09_pristine (ops : List Op) : Bool := ops.foldl ac09_pristineStep true

/-- the extended check is switched on while the parser is in its reset state and never touched again:
`ops = pre ++ setExt true :: rest`, `pre` leaves the parser in its reset state, `rest` contains no `setExt` and no
`init` (`clear` is allowed, exactly as in `ExtendedMode`). -/
def ExtendedMode' (ops : List Op) : Prop :=
  ∃ pre rest, ops = pre ++ .setExt true :: rest ∧ ac09_pristine pre = true ∧
    ∀ op ∈ rest, (∀ v, op ≠ .setExt v) ∧ op ≠ .init

/-- one step of the country scan: (PI receptions since the last reset, countries looked up since the last reset).
A delivered group first contributes its PI (block A error-free); if it is a 1A variant-0 group with error-free
blocks B and C it then contributes the table entry for (PI shown at that moment, its ECC), where the PI shown under
the extended check is the two-in-a-row reading of the PI receptions so far (this group's included). -/
def ac09_ctyStep (cfg : Cfg) (st : List Int × List Int) (op : Op) : List Int × List Int :=
  match op with
  | .init | .clear => ([], [])
  | _ =>
    match op.group? with
    | none => st
    | some g =>
      let pis := match selPi g with
        | some v => st.1 ++ [v]
        | none => st.1
      (pis, match selEcc g with
            | some e => st.2 ++ [eccLookup cfg (extFold (-1) pis) e]
            | none => st.2)

def ac09_ctySt (cfg : Cfg) (ops : List Op) : List Int × List Int := ops.foldl (ac09_ctyStep cfg) ([], [])

/-- the countries looked up since the last reset, oldest first (extended-check reading of the PI) -/
def ac09_countrySeq (cfg : Cfg) (ops : List Op) : List Int := (ac09_ctySt cfg ops).2

/-! ## `ac09_pristine` -/

theorem ac09_pristine_snoc (ops : List Op) (op : Op) :
    ac09_pristine (ops ++ [op]) = ac09_pristineStep (ac09_pristine ops) op := by
  simp only [ac09_pristine, List.foldl_append, List.foldl_cons, List.foldl_nil]

theorem ac09_pristineStep_other (q : Bool) (op : Op) (h1 : op ≠ .init) (h2 : op ≠ .clear) :
    ac09_pristineStep q op = (q && op.group?.isNone) := by
  cases op <;> first | rfl | exact absurd rfl h1 | exact absurd rfl h2

theorem ac09_pristine_nil : ac09_pristine [] = true := rfl

/-- sufficient: nothing delivered at all -/
theorem ac09_pristine_of_quiet (ops : List Op) (h : ∀ op ∈ ops, op.group? = none) : ac09_pristine ops = true := by
  induction ops using wd_snoc_ind with
  | hnil => rfl
  | hsnoc l a ih =>
    rw [ac09_pristine_snoc]
    have ha := h a (by simp)
    have hl := ih (fun op ho => h op (List.mem_append_left _ ho))
    by_cases h1 : a = .init
    · subst h1; rfl
    · by_cases h2 : a = .clear
      · subst h2; rfl
      · rw [ac09_pristineStep_other _ _ h1 h2, hl, ha]; rfl

theorem ac09_pristine_append_quiet (p q : List Op) (hp : ac09_pristine p = true)
    (h : ∀ op ∈ q, op.group? = none) : ac09_pristine (p ++ q) = true := by
  induction q using wd_snoc_ind with
  | hnil => rw [List.append_nil]; exact hp
  | hsnoc l a ih =>
    rw [← List.append_assoc, ac09_pristine_snoc]
    have ha := h a (by simp)
    have hl := ih (fun op ho => h op (List.mem_append_left _ ho))
    by_cases h1 : a = .init
    · subst h1; rfl
    · by_cases h2 : a = .clear
      · subst h2; rfl
      · rw [ac09_pristineStep_other _ _ h1 h2, hl, ha]; rfl

/-- sufficient (the English wording): anything, then a reset, then only calls that deliver nothing -/
theorem ac09_pristine_of_reset (p q : List Op) (r : Op) (hr : r = .init ∨ r = .clear)
    (h : ∀ op ∈ q, op.group? = none) : ac09_pristine (p ++ r :: q) = true := by
  have e : p ++ r :: q = (p ++ [r]) ++ q := by simp
  rw [e]
  refine ac09_pristine_append_quiet _ _ ?_ h
  rw [ac09_pristine_snoc]
  rcases hr with hr | hr <;> subst hr <;> rfl

/-- necessary: a pristine list is empty of deliveries after its last reset -/
theorem ac09_pristine_split (ops : List Op) (h : ac09_pristine ops = true) :
    ∃ p q, ops = p ++ q ∧ (p = [] ∨ ∃ p0 r, p = p0 ++ [r] ∧ (r = .init ∨ r = .clear)) ∧
      ∀ op ∈ q, op.group? = none ∧ op ≠ .init ∧ op ≠ .clear := by
  induction ops using wd_snoc_ind with
  | hnil => exact ⟨[], [], rfl, Or.inl rfl, fun _ h => by cases h⟩
  | hsnoc l a ih =>
    rw [ac09_pristine_snoc] at h
    by_cases h1 : a = .init
    · exact ⟨l ++ [a], [], by simp, Or.inr ⟨l, a, rfl, Or.inl h1⟩, fun _ h => by cases h⟩
    · by_cases h2 : a = .clear
      · exact ⟨l ++ [a], [], by simp, Or.inr ⟨l, a, rfl, Or.inr h2⟩, fun _ h => by cases h⟩
      · rw [ac09_pristineStep_other _ _ h1 h2, Bool.and_eq_true] at h
        obtain ⟨p, q, e, hp, hq⟩ := ih h.1
        refine ⟨p, q ++ [a], by rw [e, List.append_assoc], hp, ?_⟩
        intro op ho
        rcases List.mem_append.mp ho with ho | ho
        · exact hq op ho
        · simp only [List.mem_singleton] at ho
          subst ho
          exact ⟨by simpa using h.2, h1, h2⟩

theorem ac09_extendedMode_toPrime {ops : List Op} (h : ExtendedMode ops) : ExtendedMode' ops := by
  obtain ⟨rest, e, hr⟩ := h
  exact ⟨[], rest, e, rfl, hr⟩

/-! ## the country scan one op further -/

theorem ac09_ctySt_snoc (cfg : Cfg) (ops : List Op) (op : Op) :
    ac09_ctySt cfg (ops ++ [op]) = ac09_ctyStep cfg (ac09_ctySt cfg ops) op := by
  simp only [ac09_ctySt, List.foldl_append, List.foldl_cons, List.foldl_nil]

theorem ac09_ctyStep_init (cfg : Cfg) (st : List Int × List Int) : ac09_ctyStep cfg st .init = ([], []) := rfl
theorem ac09_ctyStep_clear (cfg : Cfg) (st : List Int × List Int) : ac09_ctyStep cfg st .clear = ([], []) := rfl

theorem ac09_ctyStep_other (cfg : Cfg) (st : List Int × List Int) (op : Op) (h1 : op ≠ .init) (h2 : op ≠ .clear) :
    ac09_ctyStep cfg st op = match op.group? with
      | none => st
      | some g =>
        ((match selPi g with
          | some v => st.1 ++ [v]
          | none => st.1),
         match selEcc g with
          | some e => st.2 ++ [eccLookup cfg (extFold (-1) (match selPi g with
              | some v => st.1 ++ [v]
              | none => st.1)) e]
          | none => st.2) := by
  cases op <;> first | rfl | exact absurd rfl h1 | exact absurd rfl h2

theorem ac09_ctyStep_group (cfg : Cfg) (st : List Int × List Int) (op : Op) (g : Group) (hg : op.group? = some g) :
    ac09_ctyStep cfg st op =
        ((match selPi g with
          | some v => st.1 ++ [v]
          | none => st.1),
         match selEcc g with
          | some e => st.2 ++ [eccLookup cfg (extFold (-1) (match selPi g with
              | some v => st.1 ++ [v]
              | none => st.1)) e]
          | none => st.2) := by
  obtain ⟨h1, h2⟩ := wd_group_ne_init hg
  rw [ac09_ctyStep_other cfg st op h1 h2, hg]

theorem ac09_ctyStep_nogroup (cfg : Cfg) (st : List Int × List Int) (op : Op)
    (hg : op.group? = none) (h1 : op ≠ .init) (h2 : op ≠ .clear) : ac09_ctyStep cfg st op = st := by
  rw [ac09_ctyStep_other cfg st op h1 h2, hg]

/-- the first component of the scan is the PI reception sequence -/
theorem ac09_ctySt_fst (cfg : Cfg) (ops : List Op) : (ac09_ctySt cfg ops).1 = recvSeq selPi ops := by
  induction ops using wd_snoc_ind with
  | hnil => rfl
  | hsnoc l a ih =>
    rw [ac09_ctySt_snoc, wd_recvSeq_snoc]
    rcases wd_op_cases a with h1 | h1 | ⟨g, hg⟩ | ⟨hg, h1, h2⟩
    · subst h1; rfl
    · subst h1; rfl
    · rw [ac09_ctyStep_group cfg _ a g hg, wd_recvStep_group _ _ _ _ hg, ih]
      rfl
    · rw [ac09_ctyStep_nogroup cfg _ a hg h1 h2, wd_recvStep_nogroup _ _ _ hg h1 h2, ih]

/-- `ac09_countrySeq` one delivered group further, in terms of `recvSeq selPi` -/
theorem ac09_countrySeq_group (cfg : Cfg) (ops : List Op) (op : Op) (g : Group) (hg : op.group? = some g) :
    ac09_countrySeq cfg (ops ++ [op]) = match selEcc g with
      | some e => ac09_countrySeq cfg ops ++ [eccLookup cfg (extFold (-1) (recvSeq selPi (ops ++ [op]))) e]
      | none => ac09_countrySeq cfg ops := by
  have hfst := ac09_ctySt_fst cfg (ops ++ [op])
  rw [ac09_ctySt_snoc, ac09_ctyStep_group cfg _ op g hg] at hfst
  simp only [] at hfst
  unfold ac09_countrySeq
  rw [ac09_ctySt_snoc, ac09_ctyStep_group cfg _ op g hg]
  simp only []
  rw [hfst]

theorem ac09_countrySeq_reset (cfg : Cfg) (ops : List Op) (op : Op) (h : op = .init ∨ op = .clear) :
    ac09_countrySeq cfg (ops ++ [op]) = [] := by
  unfold ac09_countrySeq
  rw [ac09_ctySt_snoc]
  rcases h with h | h <;> subst h <;> rfl

theorem ac09_countrySeq_nogroup (cfg : Cfg) (ops : List Op) (op : Op)
    (hg : op.group? = none) (h1 : op ≠ .init) (h2 : op ≠ .clear) :
    ac09_countrySeq cfg (ops ++ [op]) = ac09_countrySeq cfg ops := by
  unfold ac09_countrySeq
  rw [ac09_ctySt_snoc, ac09_ctyStep_nogroup cfg _ op hg h1 h2]

/-! ## what a delivered group does to the abstract country -/

theorem ac09_afRecv_pi (m : Mon) (w : Nat) : (m.afRecv w).pi = m.pi := by
  unfold Mon.afRecv; split <;> rfl
theorem ac09_afRecv_country (m : Mon) (w : Nat) : (m.afRecv w).country = m.country := by
  unfold Mon.afRecv; split <;> rfl
theorem ac09_afRecv_ext (m : Mon) (w : Nat) : (m.afRecv w).ext = m.ext := by
  unfold Mon.afRecv; split <;> rfl

theorem ac09_recvF_pi (m : Mon) (f : Fld) (v : Int) (h : f ≠ .pi) : (m.recvF f v).pi = m.pi :=
  Mon.recvF_fld_ne m f v .pi (Ne.symm h)
theorem ac09_recvF_country (m : Mon) (f : Fld) (v : Int) (h : f ≠ .country) : (m.recvF f v).country = m.country :=
  Mon.recvF_fld_ne m f v .country (Ne.symm h)

theorem ac09_g0_pi (m : Mon) (g : Group) : (m.g0 g).pi = m.pi := by
  unfold Mon.g0
  simp only []
  repeat' split
  all_goals simp only [ac09_afRecv_pi, ac09_recvF_pi _ .ta _ (by decide), ac09_recvF_pi _ .ms _ (by decide)]

theorem ac09_g0_country (m : Mon) (g : Group) : (m.g0 g).country = m.country := by
  unfold Mon.g0
  simp only []
  repeat' split
  all_goals simp only [ac09_afRecv_country, ac09_recvF_country _ .ta _ (by decide),
    ac09_recvF_country _ .ms _ (by decide)]

theorem ac09_g1_pi (cfg : Cfg) (m : Mon) (g : Group) : (m.g1 cfg g).pi = m.pi := by
  unfold Mon.g1
  simp only []
  split
  · rw [ac09_recvF_pi _ .country _ (by decide), ac09_recvF_pi _ .ecc _ (by decide)]
  · rfl

theorem ac09_g2_pi (m : Mon) (g : Group) : (m.g2 g).pi = m.pi := by
  unfold Mon.g2; split <;> rfl
theorem ac09_g2_country (m : Mon) (g : Group) : (m.g2 g).country = m.country := by
  unfold Mon.g2; split <;> rfl

theorem ac09_disp_pi (cfg : Cfg) (m : Mon) (g : Group) : (m.disp cfg g).pi = m.pi := by
  unfold Mon.disp
  split
  · exact ac09_g0_pi m g
  · split
    · exact ac09_g1_pi cfg m g
    · split
      · exact ac09_g2_pi m g
      · rfl

theorem ac09_common_country (m : Mon) (g : Group) : (m.common g).country = m.country := by
  unfold Mon.common
  simp only []
  repeat' split
  all_goals simp only [ac09_recvF_country _ .pi _ (by decide), ac09_recvF_country _ .pty _ (by decide),
    ac09_recvF_country _ .tp _ (by decide)]

theorem ac09_common_ext (m : Mon) (g : Group) : (m.common g).ext = m.ext := by
  unfold Mon.common
  simp only []
  repeat' split
  all_goals simp only [Mon.recvF_ext]

/-- the country clause of `Mon.group`: exactly the 1A variant-0 groups with error-free blocks B and C present a
country, looked up with the PI shown after the group's own PI handling -/
theorem ac09_group_country (cfg : Cfg) (m : Mon) (g : Group) :
    (m.group cfg g).country = match selEcc g with
      | some e => m.country.recv m.ext (eccLookup cfg (m.group cfg g).pi.vis e)
      | none => m.country := by
  rw [Mon.group_eq]
  have hpi := ac09_disp_pi cfg (m.common g) g
  have hc := ac09_common_country m g
  have he := ac09_common_ext m g
  rw [hpi, ← hc, ← he]
  generalize m.common g = mc
  unfold Mon.disp selEcc
  by_cases h1 : g.type = 1
  · have h0 : ¬ g.type = 0 := by omega
    rw [if_neg h0, if_pos h1]
    unfold Mon.g1
    by_cases hgate : g.versionB = false ∧ g.eb = 0 ∧ g.ec = 0 ∧ g.c / 4096 % 8 = 0
    · have hb : (!g.versionB && decide (g.eb = 0) && decide (g.ec = 0) && decide (g.c / 4096 % 8 = 0)) = true := by
        simp [hgate.1, hgate.2.1, hgate.2.2.1, hgate.2.2.2]
      rw [if_pos hb, if_pos ⟨h1, hgate⟩]
      simp only []
      rw [Mon.recvF]
      show ((mc.recvF .ecc _).fld .country).recv (mc.recvF .ecc _).ext _ = _
      rw [Mon.recvF_fld_ne _ _ _ _ (by decide), Mon.recvF_ext, ac09_recvF_pi _ .ecc _ (by decide)]
      rfl
    · have hb : ¬ (!g.versionB && decide (g.eb = 0) && decide (g.ec = 0) && decide (g.c / 4096 % 8 = 0)) = true := by
        intro hb
        simp only [Bool.and_eq_true, Bool.not_eq_true', decide_eq_true_eq] at hb
        exact hgate ⟨hb.1.1.1, hb.1.1.2, hb.1.2, hb.2⟩
      rw [if_neg hb, if_neg (fun h => hgate h.2)]
  · simp only [h1, false_and, if_false]
    split
    · exact ac09_g0_country mc g
    · split
      · exact ac09_g2_country mc g
      · rfl

/-! ## the extended-check invariant with the country clause -/

/-- `wd_EInv` plus: the abstract country is the two-in-a-row scan of the looked-up countries -/
def ac09_EInv (cfg : Cfg) (m : Mon) (ops : List Op) : Prop :=
  wd_EInv m ops ∧
  m.country = ⟨(wd_extSt 0 (ac09_countrySeq cfg ops)).1, (wd_extSt 0 (ac09_countrySeq cfg ops)).2⟩

theorem ac09_EInv_step (cfg : Cfg) (m : Mon) (ops : List Op) (op : Op)
    (hop : (∀ v, op ≠ .setExt v) ∧ op ≠ .init)
    (h : ac09_EInv cfg m ops) : ac09_EInv cfg (m.step cfg op) (ops ++ [op]) := by
  obtain ⟨hw, hcty⟩ := h
  have hw' := wd_EInv_step cfg m ops op hop hw
  refine ⟨hw', ?_⟩
  rcases wd_op_cases op with h1 | h1 | ⟨g, hg⟩ | ⟨hg, h1, h2⟩
  · exact absurd h1 hop.2
  · subst h1
    rw [ac09_countrySeq_reset cfg ops .clear (Or.inr rfl)]
    rfl
  · have hpi : (m.group cfg g).pi = ⟨(wd_extSt (-1) (recvSeq selPi (ops ++ [op]))).1,
        (wd_extSt (-1) (recvSeq selPi (ops ++ [op]))).2⟩ := by
      have := hw'.2.2 .pi (by decide)
      rw [wd_step_group cfg m op g hg] at this
      exact this
    rw [wd_step_group cfg m op g hg]
    show (m.group cfg g).country = _
    rw [ac09_group_country, hpi, ac09_countrySeq_group cfg ops op g hg]
    cases hs : selEcc g with
    | none => exact hcty
    | some e =>
      simp only []
      rw [wd_extSt_snoc, hw.1, hcty, wd_extFold_eq]
      rfl
  · obtain ⟨q1, _, _⟩ := wd_step_quiet cfg m op hg h1 h2
    rw [ac09_countrySeq_nogroup cfg ops op hg h1 h2]
    exact (q1 .country).trans hcty

/-! ## the reset state -/

theorem ac09_init_anyRecv : Mon.init.anyRecv = false := by decide

theorem ac09_reset_anyRecv (m : Mon) : m.reset.anyRecv = false := ac09_init_anyRecv

theorem ac09_anyRecv_congr (m m' : Mon) (hf : ∀ f, m'.fld f = m.fld f) (hc : m'.afCount = m.afCount) :
    m'.anyRecv = m.anyRecv := by
  have h1 : m'.pi = m.pi := hf .pi
  have h2 : m'.pty = m.pty := hf .pty
  have h3 : m'.tp = m.tp := hf .tp
  have h4 : m'.ta = m.ta := hf .ta
  have h5 : m'.ms = m.ms := hf .ms
  have h6 : m'.ecc = m.ecc := hf .ecc
  have h7 : m'.country = m.country := hf .country
  unfold Mon.anyRecv
  rw [h1, h2, h3, h4, h5, h6, h7, hc]

/-- what a pristine history leaves behind -/
def ac09_PInv (cfg : Cfg) (m : Mon) (ops : List Op) : Prop :=
  m.clean = true ∧ m.anyRecv = false ∧ (∀ sel, recvSeq sel ops = []) ∧ ac09_ctySt cfg ops = ([], []) ∧
  ∀ v, afCount v ops = 0

theorem ac09_PInv_all (cfg : Cfg) (ops : List Op) :
    ac09_pristine ops = true → ac09_PInv cfg (monAfter cfg ops) ops := by
  induction ops using wd_snoc_ind with
  | hnil => intro _; exact ⟨rfl, ac09_init_anyRecv, fun _ => rfl, rfl, fun _ => rfl⟩
  | hsnoc l a ih =>
    intro hp
    rw [ac09_pristine_snoc] at hp
    rw [monAfter_snoc]
    rcases wd_op_cases a with h1 | h1 | ⟨g, hg⟩ | ⟨hg, h1, h2⟩
    · subst h1
      refine ⟨rfl, ac09_init_anyRecv, fun sel => ?_, ?_, fun v => ?_⟩
      · rw [wd_recvSeq_snoc]; rfl
      · rw [ac09_ctySt_snoc]; rfl
      · rw [wd_afCount_snoc]; rfl
    · subst h1
      refine ⟨rfl, ac09_reset_anyRecv _, fun sel => ?_, ?_, fun v => ?_⟩
      · rw [wd_recvSeq_snoc]; rfl
      · rw [ac09_ctySt_snoc]; rfl
      · rw [wd_afCount_snoc]; rfl
    · obtain ⟨n1, n2⟩ := wd_group_ne_init hg
      rw [ac09_pristineStep_other _ _ n1 n2, hg] at hp
      simp at hp
    · rw [ac09_pristineStep_other _ _ h1 h2, Bool.and_eq_true] at hp
      obtain ⟨ic, ia, ir, ict, iaf⟩ := ih hp.1
      obtain ⟨q1, q2, q3⟩ := wd_step_quiet cfg (monAfter cfg l) a hg h1 h2
      have hany : ((monAfter cfg l).step cfg a).anyRecv = false :=
        (ac09_anyRecv_congr _ _ q1 q2).trans ia
      refine ⟨?_, hany, fun sel => ?_, ?_, fun v => ?_⟩
      · by_cases hs : ∃ v, a = .setExt v
        · obtain ⟨v, rfl⟩ := hs
          rw [(wd_step_setExt cfg _ v).2, ic, ia]
          simp
        · exact (q3 (fun v hv => hs ⟨v, hv⟩)).2.trans ic
      · rw [wd_recvSeq_snoc, wd_recvStep_nogroup _ _ _ hg h1 h2]; exact ir sel
      · rw [ac09_ctySt_snoc, ac09_ctyStep_nogroup cfg _ a hg h1 h2]; exact ict
      · rw [wd_afCount_snoc, wd_afStep_nogroup _ _ _ hg h1 h2]; exact iaf v

/-- the invariant holds right after the check has been switched on in the reset state -/
theorem ac09_EInv_base (cfg : Cfg) (pre : List Op) (hp : ac09_pristine pre = true) :
    ac09_EInv cfg (monAfter cfg (pre ++ [.setExt true])) (pre ++ [.setExt true]) := by
  obtain ⟨ic, ia, ir, ict, _⟩ := ac09_PInv_all cfg pre hp
  have hq := (wd_reachL cfg pre).1.quiet ia
  rw [monAfter_snoc]
  have hstep := wd_step_setExt cfg (monAfter cfg pre) true
  obtain ⟨q1, _, _⟩ := wd_step_quiet cfg (monAfter cfg pre) (.setExt true) rfl (by simp) (by simp)
  refine ⟨⟨hstep.1, ?_, fun f hf' => ?_⟩, ?_⟩
  · rw [hstep.2, ic, ia]; simp
  · rw [q1 f, wd_recvSeq_snoc, wd_recvStep_nogroup _ _ _ rfl (by simp) (by simp), ir]
    have h3 := (hq.1 f).2.2
    have hu : f.unknown = -1 := by cases f <;> first | rfl | exact absurd rfl hf'
    rw [hu] at h3
    show (monAfter cfg pre).fld f = ⟨none, -1⟩
    cases hfl : (monAfter cfg pre).fld f with
    | mk l v =>
      rw [hfl] at h3
      obtain ⟨a, b⟩ := h3
      simp only [] at a b
      rw [a, b]
  · have e : ac09_countrySeq cfg (pre ++ [.setExt true]) = [] := by
      rw [ac09_countrySeq_nogroup cfg pre _ rfl (by simp) (by simp)]
      unfold ac09_countrySeq
      rw [ict]
    rw [e]
    have h3 := (hq.1 .country).2.2
    have e2 : ((monAfter cfg pre).step cfg (.setExt true)).country = (monAfter cfg pre).country := q1 .country
    rw [e2]
    show (monAfter cfg pre).country = ⟨none, 0⟩
    have h3' : (monAfter cfg pre).country.last = none ∧ (monAfter cfg pre).country.vis = 0 := h3
    cases hfl : (monAfter cfg pre).country with
    | mk l v =>
      rw [hfl] at h3'
      obtain ⟨a, b⟩ := h3'
      simp only [] at a b
      rw [a, b]

theorem ac09_EInv_all (cfg : Cfg) (pre rest : List Op) (hp : ac09_pristine pre = true) :
    (∀ op ∈ rest, (∀ v, op ≠ .setExt v) ∧ op ≠ .init) →
      ac09_EInv cfg (monAfter cfg (pre ++ .setExt true :: rest)) (pre ++ .setExt true :: rest) := by
  induction rest using wd_snoc_ind with
  | hnil => intro _; exact ac09_EInv_base cfg pre hp
  | hsnoc l a ih =>
    intro h
    have h1 := ih (fun op ho => h op (List.mem_append_left _ ho))
    have e : pre ++ Op.setExt true :: (l ++ [a]) = (pre ++ Op.setExt true :: l) ++ [a] := by simp
    rw [e, monAfter_snoc]
    exact ac09_EInv_step cfg _ _ a (h a (by simp)) h1

theorem ac09_EInv_of_mode (cfg : Cfg) (ops : List Op) (he : ExtendedMode' ops) :
    ac09_EInv cfg (monAfter cfg ops) ops := by
  obtain ⟨pre, rest, rfl, hp, hr⟩ := he
  exact ac09_EInv_all cfg pre rest hp hr

/-! ## reading the histories over the suffix after the switch -/

theorem ac09_recvSeq_append (sel : Group → Option Int) (a b : List Op) (h : recvSeq sel a = []) :
    recvSeq sel (a ++ b) = recvSeq sel b := by
  unfold recvSeq at *
  rw [List.foldl_append, h]

theorem ac09_afCount_append (v : Nat) (a b : List Op) (h : afCount v a = 0) :
    afCount v (a ++ b) = afCount v b := by
  unfold afCount at *
  rw [List.foldl_append, h]

theorem ac09_countrySeq_append (cfg : Cfg) (a b : List Op) (h : ac09_ctySt cfg a = ([], [])) :
    ac09_countrySeq cfg (a ++ b) = ac09_countrySeq cfg b := by
  unfold ac09_countrySeq ac09_ctySt at *
  rw [List.foldl_append, h]

/-- under `ExtendedMode'` all the worded histories may equally be read over `rest` only: nothing before the switch
contributes -/
theorem ac09_suffix (cfg : Cfg) (pre rest : List Op) (hp : ac09_pristine pre = true) :
    (∀ sel, recvSeq sel (pre ++ .setExt true :: rest) = recvSeq sel rest) ∧
    (∀ v, afCount v (pre ++ .setExt true :: rest) = afCount v rest) ∧
    ac09_countrySeq cfg (pre ++ .setExt true :: rest) = ac09_countrySeq cfg rest := by
  obtain ⟨_, _, ir, ict, iaf⟩ := ac09_PInv_all cfg pre hp
  refine ⟨fun sel => ?_, fun v => ?_, ?_⟩
  · rw [ac09_recvSeq_append sel _ _ (ir sel)]; rfl
  · rw [ac09_afCount_append v _ _ (iaf v)]; rfl
  · rw [ac09_countrySeq_append cfg _ _ ict]; rfl

/-! ## the requested theorems, (a) and (b) -/

/-- C09 in its own words, for the generalised mode hypothesis and arbitrary tables: with the extended check switched
on at any moment the parser is in its reset state, each scalar shows the value of the most recent two consecutive
identical receptions since the last reset, unknown if there is none -/
theorem C09_worded' (cfg : Cfg) (ops : List Op) (he : ExtendedMode' ops) :
    (run cfg ops).used.pi = extFold (-1) (recvSeq selPi ops) ∧
    (run cfg ops).used.pty = extFold (-1) (recvSeq selPty ops) ∧
    (run cfg ops).used.tp = extFold (-1) (recvSeq selTp ops) ∧
    (run cfg ops).used.ta = extFold (-1) (recvSeq selTa ops) ∧
    (run cfg ops).used.ms = extFold (-1) (recvSeq selMs ops) ∧
    (run cfg ops).used.ecc = extFold (-1) (recvSeq selEcc ops) := by
  obtain ⟨⟨_, hc, hf⟩, _⟩ := ac09_EInv_of_mode cfg ops he
  have hl := (wd_reachL cfg ops).1
  have hv := fun f => (hl.fields hc f).1
  have hw : ∀ f, f ≠ .country → (run cfg ops).used.get f = extFold (-1) (recvSeq (wd_sel f) ops) := by
    intro f hf'
    rw [hv f, hf f hf']
    rfl
  exact ⟨hw .pi (by decide), hw .pty (by decide), hw .tp (by decide), hw .ta (by decide),
    hw .ms (by decide), hw .ecc (by decide)⟩

/-- the COUNTRY clause of C09 in its own words (generalised mode hypothesis): the visible country is the
two-in-a-row reading (`extFold`, unknown = 0) of the sequence of looked-up countries since the last reset, where each
1A variant-0 group with error-free blocks B and C contributes the table entry for (PI visible after this group's own
PI handling, its ECC) -/
theorem C09_worded_country' (cfg : Cfg) (ops : List Op) (he : ExtendedMode' ops) :
    (run cfg ops).used.country = extFold 0 (ac09_countrySeq cfg ops) := by
  obtain ⟨⟨_, hc, _⟩, hcty⟩ := ac09_EInv_of_mode cfg ops he
  have hl := (wd_reachL cfg ops).1
  have hv : (run cfg ops).used.country = (monAfter cfg ops).country.vis := (hl.fields hc .country).1
  rw [hv, hcty]
  rfl

/-- the COUNTRY clause of C09 under the original `ExtendedMode` -/
theorem C09_worded_country (cfg : Cfg) (ops : List Op) (he : ExtendedMode ops) :
    (run cfg ops).used.country = extFold 0 (ac09_countrySeq cfg ops) :=
  C09_worded_country' cfg ops (ac09_extendedMode_toPrime he)

/-- C10 under the extended check, generalised mode hypothesis, arbitrary tables: the AF list is exactly the set of
valid codes received at least twice since the last reset -/
theorem C10_worded_extended' (cfg : Cfg) (ops : List Op) (he : ExtendedMode' ops) (v : Nat) (hv : v < afBits) :
    (run cfg ops).used.af.getD v false = (afValid v && decide (2 ≤ afCount v ops)) := by
  obtain ⟨⟨he', hc, _⟩, _⟩ := ac09_EInv_of_mode cfg ops he
  have hl := (wd_reachL cfg ops).1
  have ha := (hl.af hc v hv).1
  rw [← hl.ext, he'] at ha
  simp only [if_true] at ha
  rw [ha]
  cases hval : afValid v
  · rw [hl.cntInvalid v hval]; rfl
  · rw [(wd_afCount_inv cfg v hval _).2]; simp

/-- (b) with every history read over the suffix after the switch -/
theorem C09_worded'_suffix (cfg : Cfg) (pre rest : List Op) (hp : ac09_pristine pre = true)
    (hr : ∀ op ∈ rest, (∀ v, op ≠ .setExt v) ∧ op ≠ .init) :
    let ops := pre ++ .setExt true :: rest
    (run cfg ops).used.pi = extFold (-1) (recvSeq selPi rest) ∧
    (run cfg ops).used.pty = extFold (-1) (recvSeq selPty rest) ∧
    (run cfg ops).used.tp = extFold (-1) (recvSeq selTp rest) ∧
    (run cfg ops).used.ta = extFold (-1) (recvSeq selTa rest) ∧
    (run cfg ops).used.ms = extFold (-1) (recvSeq selMs rest) ∧
    (run cfg ops).used.ecc = extFold (-1) (recvSeq selEcc rest) ∧
    (run cfg ops).used.country = extFold 0 (ac09_countrySeq cfg rest) ∧
    ∀ v, v < afBits → (run cfg ops).used.af.getD v false = (afValid v && decide (2 ≤ afCount v rest)) := by
  intro ops
  have he : ExtendedMode' ops := ⟨pre, rest, rfl, hp, hr⟩
  obtain ⟨s1, s2, s3⟩ := ac09_suffix cfg pre rest hp
  have h := C09_worded' cfg ops he
  have hc := C09_worded_country' cfg ops he
  have ha := fun v hv => C10_worded_extended' cfg ops he v hv
  rw [s1, s1, s1, s1, s1, s1] at h
  rw [s3] at hc
  refine ⟨h.1, h.2.1, h.2.2.1, h.2.2.2.1, h.2.2.2.2.1, h.2.2.2.2.2, hc, fun v hv => ?_⟩
  rw [ha v hv, s2]

/-! ## non-vacuity and necessity of the hypotheses -/

/-- a toy configuration whose ECC table depends on both arguments -/
def ac09_cfg : Cfg := ⟨true, fun b => b, fun n e => 16 * n + e % 16⟩

def ac09_gA : Group := ⟨0x1234, 0x0408 ||| (5 <<< 5), 0x5A01, 0x4142, 0, 0, 0, 0⟩   -- 0A, PI 0x1234, AF 0x5A, 0x01
def ac09_gB : Group := ⟨0x5678, 0x0000 ||| (9 <<< 5), 0x5A01, 0x4142, 0, 0, 0, 0⟩   -- 0A, PI 0x5678
def ac09_gE : Group := ⟨0x1234, 0x1000, 0x00E3, 0, 0, 0, 0, 0⟩                       -- 1A variant 0, ECC 0xE3
def ac09_gE' : Group := ⟨0x5678, 0x1000, 0x00E3, 0, 0, 0, 0, 0⟩                      -- 1A variant 0, other PI

/-- a history with receptions BEFORE the switch (then a `clear`, a registration, a failing `parse_string`) -/
def ac09_ops : List Op :=
  [.parse ac09_gB, .setExt true, .parse ac09_gB, .setExt false, .clear, .register .pi true, .parseString none,
   .setExt true,
   .parse ac09_gA, .parse ac09_gE, .getters, .parse ac09_gE, .parse ac09_gA]

theorem ac09_ops_mode : ExtendedMode' ac09_ops :=
  ⟨[.parse ac09_gB, .setExt true, .parse ac09_gB, .setExt false, .clear, .register .pi true, .parseString none],
   [.parse ac09_gA, .parse ac09_gE, .getters, .parse ac09_gE, .parse ac09_gA], rfl, by decide,
   by decide⟩

/-- `ExtendedMode'` is strictly more general than `ExtendedMode` -/
example : ¬ ExtendedMode ac09_ops := by
  rintro ⟨rest, h, _⟩
  cases h

/-- on this history the conclusions are non-trivial: PI 0x1234 (received 4 times in a row) is shown, the ECC (twice)
is shown, the country is the table entry for (nibble 1, 0xE3) = 16·1 + 3, AF 0x5A (twice) is listed -/
example : extFold (-1) (recvSeq selPi ac09_ops) = 0x1234 ∧ extFold (-1) (recvSeq selEcc ac09_ops) = 0xE3 ∧
    ac09_countrySeq ac09_cfg ac09_ops = [19, 19] ∧ extFold 0 (ac09_countrySeq ac09_cfg ac09_ops) = 19 ∧
    afCount 0x5A ac09_ops = 2 := by decide

/-- and the model indeed shows them (what the theorems say, evaluated) -/
example : (run ac09_cfg ac09_ops).used.pi = 0x1234 ∧ (run ac09_cfg ac09_ops).used.ecc = 0xE3 ∧
    (run ac09_cfg ac09_ops).used.country = 19 ∧ (run ac09_cfg ac09_ops).used.af.getD 0x5A false = true ∧
    (run ac09_cfg ac09_ops).used.af.getD 0x02 false = false := by decide +kernel

/-- the two-in-a-row rule for the country proper: the same (PI, ECC) presented twice after the PI is visible -/
example : ExtendedMode [.setExt true, .parse ac09_gA, .parse ac09_gE, .parse ac09_gE, .parse ac09_gE] ∧
    ac09_countrySeq ac09_cfg [.setExt true, .parse ac09_gA, .parse ac09_gE, .parse ac09_gE, .parse ac09_gE] = [19, 19, 19] ∧
    (run ac09_cfg [.setExt true, .parse ac09_gA, .parse ac09_gE, .parse ac09_gE, .parse ac09_gE]).used.country = 19 ∧
    (run ac09_cfg [.setExt true, .parse ac09_gA, .parse ac09_gE, .parse ac09_gE]).used.country = 19 ∧
    (run ac09_cfg [.setExt true, .parse ac09_gA, .parse ac09_gE]).used.country = 0 := by
  refine ⟨⟨_, rfl, by decide⟩, ?_⟩
  decide +kernel

/-- the country looked up depends on the PI *visible* at that moment, not on the PI carried by the 1A group itself:
gE' carries PI 0x5678 in block A, but under the check the visible PI is still 0x1234 → entry (1, 0xE3), not (5, 0xE3) -/
example : ac09_countrySeq ac09_cfg [.setExt true, .parse ac09_gA, .parse ac09_gA, .parse ac09_gE', .parse ac09_gE'] = [19, 83] ∧
    (run ac09_cfg [.setExt true, .parse ac09_gA, .parse ac09_gA, .parse ac09_gE', .parse ac09_gE']).used.country = 0 := by
  decide +kernel

/-- the hypothesis "switched on in the reset state" is necessary: with a reception before the switch (no reset in
between) the visible PI is NOT the two-in-a-row reading -/
example : (run ac09_cfg [.parse ac09_gA, .setExt true]).used.pi = 0x1234 ∧
    extFold (-1) (recvSeq selPi [.parse ac09_gA, .setExt true]) = -1 := by decide +kernel

/-! ## (c) the text / clock-time callbacks see the final text view -/

/-- the kinds of the three text callbacks and the clock-time callback -/
def ac09_isText (k : EvKind) : Bool :=
  match k with
  | .ps | .rt _ | .ptyn | .ct _ => true
  | _ => false

/-- the type of `textView` -/
abbrev ac09_View :=
  Text × Text × Text × Text × Int × (Bool × Bool × Bool × Nat × Nat × Nat × Nat × Nat × Nat) × List Bool × Nat

/-- the user-data component of a view -/
def ac09_viewUd (v : ac09_View) : Nat := v.2.2.2.2.2.2.2

theorem ac09_viewUd_textView (s : State) : ac09_viewUd (textView s) = s.ud := rfl

theorem ac09_textKinds_eq (evs : List Event) : textKinds evs = (evs.map (·.kind)).filter ac09_isText := rfl

theorem ac09_noText_of_tk (evs : List Event) (h : textKinds evs = []) :
    ∀ e ∈ evs, ac09_isText e.kind = false := by
  intro e he
  cases hk : ac09_isText e.kind with
  | false => rfl
  | true =>
    exfalso
    have : e.kind ∈ textKinds evs := by
      rw [ac09_textKinds_eq]
      exact List.mem_filter.mpr ⟨List.mem_map.mpr ⟨e, he, rfl⟩, hk⟩
    rw [h] at this
    cases this

/-- every text / clock-time event of the handler shows the text view of the handler's FINAL state, and is passed the
user data of that state -/
def ac09_Snap (h : State → State × List Event) : Prop :=
  ∀ s, ∀ e ∈ (h s).2, ac09_isText e.kind = true → textView e.snap = textView (h s).1 ∧ e.ud = e.snap.ud

theorem ac09_snap_of_silent {h : State → State × List Event} (hs : ex_Silent h) : ac09_Snap h := by
  intro s e he hk
  have := ac09_noText_of_tk _ (hs s).2 e he
  rw [hk] at this
  cases this

theorem ac09_snap_seq_left {h1 h2 : State → State × List Event} (p1 : ex_Silent h1) (p2 : ac09_Snap h2) :
    ac09_Snap (c15_seq h1 h2) := by
  intro s e he hk
  have he' : e ∈ (h1 s).2 ++ (h2 (h1 s).1).2 := he
  rcases List.mem_append.mp he' with h | h
  · have := ac09_noText_of_tk _ (p1 s).2 e h
    rw [hk] at this
    cases this
  · exact p2 _ e h hk

theorem ac09_snap_seq_right {h1 h2 : State → State × List Event} (p1 : ac09_Snap h1) (p2 : ex_Silent h2) :
    ac09_Snap (c15_seq h1 h2) := by
  intro s e he hk
  have he' : e ∈ (h1 s).2 ++ (h2 (h1 s).1).2 := he
  show textView e.snap = textView (h2 (h1 s).1).1 ∧ _
  rcases List.mem_append.mp he' with h | h
  · obtain ⟨a, b⟩ := p1 s e h hk
    exact ⟨a.trans (p2 _).1.symm, b⟩
  · have := ac09_noText_of_tk _ (p2 _).2 e h
    rw [hk] at this
    cases this

theorem ac09_snap_ite {h1 h2 : State → State × List Event} (p : Prop) [Decidable p]
    (p1 : ac09_Snap h1) (p2 : ac09_Snap h2) : ac09_Snap (fun s => if p then h1 s else h2 s) := by
  intro s
  by_cases hp : p
  · simp only [hp, if_true]; exact p1 s
  · simp only [hp, if_false]; exact p2 s

theorem ac09_snap_upd (upd : State → State) (fire : State → Bool) (c : Cb) (k : EvKind) :
    ac09_Snap (fun s => (upd s, if fire s then emit (upd s) c k else [])) := by
  intro s e he _
  have he' : e ∈ (if fire s then emit (upd s) c k else []) := he
  cases hf : fire s
  · rw [hf] at he'; cases he'
  · rw [hf] at he'
    obtain ⟨_, h2, h3, _⟩ := mem_emit he'
    show textView e.snap = textView (upd s) ∧ _
    rw [h2]
    exact ⟨rfl, h3⟩

theorem ac09_snap_group0 (cfg : Cfg) (g : Group) : ac09_Snap (fun s => group0 cfg s g) := by
  have e : (fun s => group0 cfg s g) =
      c15_seq (c15_seq
        (fun s => if g.eb = 0 then
            c15_seq (fun s => setField s .ta (g.b / 16 % 2 : Nat)) (fun s => setField s .ms (g.b / 8 % 2 : Nat)) s
          else (s, []))
        (fun s => ({ s with ps := (c15_g0u cfg g s).1 },
          if (c15_g0u cfg g s).2 then emit { s with ps := (c15_g0u cfg g s).1 } .ps .ps else [])))
        (fun s => if (!g.versionB && g.eb = 0 && g.ec = 0 && g.c / 256 % 256 != 250) then
            c15_seq (fun s => addAf s (g.c / 256 % 256)) (fun s => addAf s (g.c % 256)) s
          else (s, [])) := by
    funext s
    unfold group0 c15_seq
    by_cases hc : (!g.versionB && g.eb = 0 && g.ec = 0 && g.c / 256 % 256 != 250) = true
    · simp only [hc, if_true, c15_g0u, List.append_assoc]
    · simp only [hc, if_false, c15_g0u, List.append_nil, Bool.false_eq_true]
  rw [e]
  refine ac09_snap_seq_right (ac09_snap_seq_left ?_ ?_) ?_
  · exact ex_silent_ite _ (ex_silent_seq (ex_silent_setField .ta (fun _ => (g.b / 16 % 2 : Nat)))
      (ex_silent_setField .ms (fun _ => (g.b / 8 % 2 : Nat)))) ex_silent_id
  · exact ac09_snap_upd (fun s => { s with ps := (c15_g0u cfg g s).1 }) (fun s => (c15_g0u cfg g s).2) .ps .ps
  · exact ex_silent_ite _ (ex_silent_seq (ex_silent_addAf _) (ex_silent_addAf _)) ex_silent_id

theorem ac09_snap_group10 (cfg : Cfg) (g : Group) : ac09_Snap (fun s => group10 cfg s g) := by
  have e : (fun s => group10 cfg s g) =
      (fun s => if (!g.versionB) then
          (fun s => ({ s with ptyn := (c15_g10u cfg g s).2.1 },
            if (c15_g10u cfg g s).1.2 || (c15_g10u cfg g s).2.2 then
              emit { s with ptyn := (c15_g10u cfg g s).2.1 } .ptyn .ptyn else [])) s
        else (s, [])) := rfl
  rw [e]
  exact ac09_snap_ite _ (ac09_snap_upd (fun s => { s with ptyn := (c15_g10u cfg g s).2.1 })
    (fun s => (c15_g10u cfg g s).1.2 || (c15_g10u cfg g s).2.2) .ptyn .ptyn)
    (ac09_snap_of_silent ex_silent_id)

theorem ac09_snap_group4 (g : Group) : ac09_Snap (fun s => group4 s g) := by
  intro s e he _
  have he' : e ∈ (group4 s g).2 := he
  show textView e.snap = textView (group4 s g).1 ∧ _
  rw [c15_group4_fst]
  rw [c15_group4_snd] at he'
  cases hok : c15_g4ok g
  · rw [hok] at he'; cases he'
  · rw [hok] at he'
    simp only [if_true] at he'
    cases hct : ctInit (ctFields g).1 (ctFields g).2.1 (ctFields g).2.2.1 (ctFields g).2.2.2 with
    | none => rw [hct] at he'; cases he'
    | some v =>
      rw [hct] at he'
      obtain ⟨_, h2, h3, _⟩ := mem_emit he'
      rw [h2]
      exact ⟨rfl, h3⟩

theorem ac09_snap_group2 (cfg : Cfg) (g : Group) : ac09_Snap (fun s => group2 cfg s g) := by
  intro s e he _
  have he' : e ∈ (group2 cfg s g).2 := he
  show textView e.snap = textView (group2 cfg s g).1 ∧ _
  rw [c15_group2_eq] at he' ⊢
  unfold c15_g2rest at he' ⊢
  cases hg : c15_g2guard g (c15_g2pre g s)
  · rw [hg] at he'
    simp only [Bool.false_eq_true, if_false] at he' ⊢
    split at he'
    · obtain ⟨_, h2, h3, _⟩ := mem_emit he'
      rw [h2]
      exact ⟨rfl, h3⟩
    · cases he'
  · rw [hg] at he'
    simp only [if_true] at he'
    cases he'

theorem ac09_snap_dispatch (cfg : Cfg) (g : Group) : ac09_Snap (fun s => dispatch cfg s g) := by
  have e : (fun s => dispatch cfg s g) =
      (fun s => if g.type = 0 then group0 cfg s g
        else if g.type = 1 then group1 cfg s g
        else if g.type = 2 then group2 cfg s g
        else if g.type = 4 then group4 s g
        else if g.type = 10 then group10 cfg s g
        else (s, [])) := rfl
  rw [e]
  exact ac09_snap_ite _ (ac09_snap_group0 cfg g) (ac09_snap_ite _ (ac09_snap_of_silent (ex_silent_group1 cfg g))
    (ac09_snap_ite _ (ac09_snap_group2 cfg g) (ac09_snap_ite _ (ac09_snap_group4 g) (ac09_snap_ite _ (ac09_snap_group10 cfg g)
      (ac09_snap_of_silent ex_silent_id)))))

theorem ac09_snap_process (cfg : Cfg) (g : Group) : ac09_Snap (fun s => process cfg s g) := by
  have e : (fun s => process cfg s g) = c15_seq (fun s => groupCommon s g) (fun s => dispatch cfg s g) := rfl
  rw [e]
  exact ac09_snap_seq_left (ex_silent_groupCommon g) (ac09_snap_dispatch cfg g)

/-- one call: every text / clock-time callback sees the text view the getters show after the call -/
theorem ac09_step_snap (cfg : Cfg) (s : State) (op : Op) :
    ∀ e ∈ (step cfg s op).2.1, ac09_isText e.kind = true →
      textView e.snap = textView (step cfg s op).1 ∧ e.ud = e.snap.ud := by
  cases op with
  | parse g => exact ac09_snap_process cfg g s
  | parseString x =>
    cases x with
    | none => intro e he; cases he
    | some b =>
      simp only [step]
      cases utilsConvert b with
      | none => intro e he; cases he
      | some g => exact ac09_snap_process cfg g s
  | _ => intro e he; cases he

/-! ### the projection of a trace entry -/

def ac09_evProj (e : Event) : EvKind × Nat × ac09_View := (e.kind, e.ud, textView e.snap)

/-- the text / clock-time callbacks of one call, in order: kind (with RT flag / clock-time value), user data passed,
and the text view the callback sees -/
def ac09_textEvs (evs : List Event) : List (EvKind × Nat × ac09_View) :=
  (evs.filter (fun e => ac09_isText e.kind)).map ac09_evProj

/-- what is kept of one trace entry: the text view after the call, its text / clock-time callbacks, its result -/
def ac09_proj (r : State × List Event × Bool) : ac09_View × List (EvKind × Nat × ac09_View) × Bool :=
  (textView r.1, ac09_textEvs r.2.1, r.2.2)

theorem ac09_textEvs_of_snap (evs : List Event) (V : ac09_View)
    (h : ∀ e ∈ evs, ac09_isText e.kind = true → textView e.snap = V ∧ e.ud = e.snap.ud) :
    ac09_textEvs evs = (textKinds evs).map (fun k => (k, ac09_viewUd V, V)) := by
  induction evs with
  | nil => rfl
  | cons e t ih =>
    have iht := ih (fun e' he' => h e' (List.mem_cons_of_mem _ he'))
    rw [ac09_textKinds_eq] at iht ⊢
    unfold ac09_textEvs at iht ⊢
    rw [List.filter_cons, List.map_cons, List.filter_cons]
    cases hk : ac09_isText e.kind
    · simp only [Bool.false_eq_true, if_false]
      exact iht
    · simp only [if_true, List.map_cons]
      rw [iht]
      obtain ⟨a, b⟩ := h e (List.mem_cons_self) hk
      unfold ac09_evProj
      rw [b, ← ac09_viewUd_textView e.snap, a]

/-- one call on two states with the same text view: same projection -/
theorem ac09_proj_step (cfg : Cfg) (s1 s2 : State) (op : Op) (h : textView s1 = textView s2) :
    ac09_proj (step cfg s1 op) = ac09_proj (step cfg s2 op) := by
  obtain ⟨hv, hr, hk⟩ := C09_text_indep_step cfg s1 s2 op h
  unfold ac09_proj
  rw [ac09_textEvs_of_snap _ _ (ac09_step_snap cfg s1 op), ac09_textEvs_of_snap _ _ (ac09_step_snap cfg s2 op),
    hv, hr, hk]

theorem ac09_proj_setExt (cfg : Cfg) (s1 s2 : State) (v w : Bool) (h : textView s1 = textView s2) :
    ac09_proj (step cfg s1 (.setExt v)) = ac09_proj (step cfg s2 (.setExt w)) := by
  show (textView s1, ac09_textEvs [], true) = (textView s2, ac09_textEvs [], true)
  rw [h]

theorem ac09_trace_cons (cfg : Cfg) (s : State) (op : Op) (ops : List Op) :
    trace cfg s (op :: ops) = step cfg s op :: trace cfg (step cfg s op).1 ops := rfl

theorem ac09_trace_from (cfg : Cfg) (ops ops' : List Op) (h : ExtRel ops ops') :
    ∀ s1 s2, textView s1 = textView s2 →
      (trace cfg s1 ops).map ac09_proj = (trace cfg s2 ops').map ac09_proj := by
  induction h with
  | nil => intro _ _ _; rfl
  | same op _ ih =>
    intro s1 s2 e
    rw [ac09_trace_cons, ac09_trace_cons, List.map_cons, List.map_cons, ac09_proj_step cfg s1 s2 op e,
      ih _ _ (C09_text_indep_step cfg s1 s2 op e).1]
  | ext v w _ ih =>
    intro s1 s2 e
    rw [ac09_trace_cons, ac09_trace_cons, List.map_cons, List.map_cons, ac09_proj_setExt cfg s1 s2 v w e]
    rw [ih _ _ (show textView (step cfg s1 (.setExt v)).1 = textView (step cfg s2 (.setExt w)).1 from e)]

/-- C09, texts and clock time are independent of the extended check, history level: along two runs that differ only
in the values written by `set_extended_check`, every call shows the same text view afterwards, returns the same
result and fires the same PS / RT / PTYN / clock-time callbacks in the same order — same kind (RT flag, clock-time
value), same user data, and the same text view visible inside the callback -/
theorem C09_text_indep_trace (cfg : Cfg) (ops ops' : List Op) (h : ExtRel ops ops') :
    (trace cfg initState ops).map ac09_proj = (trace cfg initState ops').map ac09_proj :=
  ac09_trace_from cfg ops ops' h initState initState rfl

/-! ### non-vacuity of (c) -/

def ac09_gR : Group := ⟨0x1234, 0x2000, 0x4142, 0x4344, 0, 0, 0, 0⟩   -- 2A, flag A, position 0, "ABCD"
def ac09_gT : Group := ⟨0x1234, 0x4001, 0xD6E7, 0x7B42, 0, 0, 0, 0⟩   -- 4A, a valid clock time

def ac09_t1 : List Op :=
  [.register .ps true, .register .rt true, .register .pi true, .register .ct true, .userData 7,
   .setExt true, .parse ac09_gA, .parse ac09_gR, .setExt false, .parse ac09_gA, .parse ac09_gT]
def ac09_t2 : List Op :=
  [.register .ps true, .register .rt true, .register .pi true, .register .ct true, .userData 7,
   .setExt false, .parse ac09_gA, .parse ac09_gR, .setExt true, .parse ac09_gA, .parse ac09_gT]

example : ExtRel ac09_t1 ac09_t2 :=
  .same _ (.same _ (.same _ (.same _ (.same _ (.ext true false (.same _ (.same _ (.ext false true
    (.same _ (.same _ .nil))))))))))

/-- the projected trace is not trivial (a PS, an RT and a clock-time callback are in it, each passed user data 7),
and the two full traces do differ (the PI callback fires at different calls) -/
example :
    ((trace ac09_cfg initState ac09_t1).map ac09_proj).map (fun r => r.2.1.map (fun e => (e.1, e.2.1))) =
      [[], [], [], [], [], [], [(.ps, 7)], [(.rt 0, 7)], [], [], [(.ct ⟨2023, 11, 28, 0, 45, 60⟩, 7)]] ∧
    (trace ac09_cfg initState ac09_t1).map (fun r => r.2.1.length) ≠
      (trace ac09_cfg initState ac09_t2).map (fun r => r.2.1.length) := by
  decide +kernel

end RDS

