import RdsModel
import RdsSpec.Monitors
import RdsSpec.Statements
import RdsProofs.Inv
import RdsProofs.CellsSingle
import RdsProofs.CellsExpected
import RdsProofs.CellsProofs
/-!
# RdsProofs.RefineProofs — `chkC02`, `chkC06`, `chkC08` are consequences of the closed form `chkCells`

`chkCells` (proved for the model: `chkCells_ok`) says that after a delivered group all four texts equal
`expectedText`. The three refined predicates demand exactly what C02 / C06 / C08 state on their own; here each
is shown to follow from `chkCells`, hence holds for the model.
-/
namespace RDS

/-! ## facts about one cell (`cellSpec`) -/

/-- copy of `C02_error_free` (RdsProps/C02.lean) -/
theorem rf_cellSpec_error_free (cfg : Cfg) (info data : Nat) (prog : Bool) (old : Cell) (b : Nat) :
    cellSpec cfg info data prog old b 0 0 =
      if b = 0x0D then ⟨0, 0⟩ else if b < 0x20 then old else ⟨conv cfg b, 0⟩ := by
  obtain ⟨ch, lvl⟩ := old
  unfold cellSpec
  by_cases h1 : b = 0x0D
  · subst h1
    have hc : conv cfg 13 = 0 := by simp [conv]
    by_cases h : ch = 0 ∧ lvl = 0
    · obtain ⟨ha, hb⟩ := h; subst ha; subst hb; simp [hc]
    · simp [hc]
      intro hx hy; exact absurd ⟨hx.symm, hy⟩ h
  · by_cases h2 : b < 0x20
    · have : ¬ (0x20 ≤ b) := by omega
      simp [h1, h2, this]
    · have h3 : 0x20 ≤ b := by omega
      by_cases h : conv cfg b = ch ∧ lvl = 0
      · obtain ⟨ha, hb⟩ := h; subst ha; subst hb; simp [h1, h2]
      · simp [h1, h2, h3]
        intro hx hy; exact absurd ⟨hx, hy⟩ h

/-- an addressed cell keeps its content or holds the table image of the byte -/
theorem rf_cellSpec_old_or_conv (cfg : Cfg) (info data : Nat) (prog : Bool) (old : Cell) (b eb ex : Nat) :
    cellSpec cfg info data prog old b eb ex = old ∨
      (cellSpec cfg info data prog old b eb ex).ch = conv cfg b := by
  unfold cellSpec
  simp only []
  generalize (if (decide (eb = 0) && decide (ex = 0)) = true then 0 else 2 * eb + 3 * ex - 1) = lvl
  split
  · exact Or.inr rfl
  · exact Or.inl rfl

/-- progressive correction either refuses (old cell kept) or does what the non-progressive rule does -/
theorem rf_cellSpec_prog (cfg : Cfg) (info data : Nat) (old : Cell) (b eb ex : Nat) :
    cellSpec cfg info data true old b eb ex = old ∨
      cellSpec cfg info data true old b eb ex = cellSpec cfg info data false old b eb ex := by
  unfold cellSpec
  simp only []
  generalize (if (decide (eb = 0) && decide (ex = 0)) = true then 0 else 2 * eb + 3 * ex - 1) = lvl
  by_cases hl : lvl ≤ old.lvl
  · right; simp [hl]
  · left; simp [hl]

/-! ## facts about `expCells` / `expectedText` -/

theorem rf_expCells_length (cfg : Cfg) (set : Settings) (tid : TextId) (eb : Nat) (old : Text)
    (addr : List (Nat × Nat × Nat × Nat)) :
    (expCells cfg set tid eb old addr).length = old.length := by
  simp [expCells]

theorem rf_expCells_getD (cfg : Cfg) (set : Settings) (tid : TextId) (eb : Nat) (old : Text)
    (addr : List (Nat × Nat × Nat × Nat)) (i : Nat) (h : i < old.length) :
    (expCells cfg set tid eb old addr).getD i blank =
      match addr.find? (fun a => a.2.1 = i) with
      | some (_, _, b, ex) =>
        cellSpec cfg (set.corr tid .info) (set.corr tid .data) (set.prog tid) (old.getD i blank) b eb ex
      | none => old.getD i blank := by
  unfold expCells
  rw [List.getD_eq_getElem?_getD, List.getElem?_map, List.getElem?_range h]
  rfl

/-- a noisy group has errors in block B -/
theorem rf_rtNoisy_eb (m : Mon) (g : Group) (h : rtNoisy m g = true) : g.eb ≠ 0 := by
  intro heb
  simp [rtNoisy, heb] at h

/-- a noisy group never discards -/
theorem rf_rtNoisy_switch (m : Mon) (before : Obs) (g : Group) (h : rtNoisy m g = true) :
    switchDiscard m before g = false := by
  have heb := rf_rtNoisy_eb m g h
  simp [switchDiscard, heb]

/-- unpack `chkCells`' group branch -/
theorem rf_all4 (p : Nat → Bool) : (List.range 4).all p = true ↔ ∀ t, t < 4 → p t = true := by
  simp only [List.all_eq_true, List.mem_range]

/-! ## the generic step: a per-cell relation over all cells after a delivered group -/

theorem rf_cellsBy_of (cfg : Cfg) (m : Mon) (r : StepRec) (g : Group)
    (rel : Nat → Cell → Cell → Option (Nat × Nat) → Bool)
    (h : ∀ t, t < 4 → (r.after.text t).cells = expectedText cfg m r.before g t)
    (hnone : ∀ t old, rel t old old none = true)
    (hsome : rtNoisy m g = false → ∀ t old b ex,
      rel t old (cellSpec cfg (r.before.set.corr (textIdOf t) .info) (r.before.set.corr (textIdOf t) .data)
        (r.before.set.prog (textIdOf t)) old b g.eb ex) (some (b, ex)) = true)
    (hnoisy : rtNoisy m g = true → ∀ t old b ex, rel t old old (some (b, ex)) = true) :
    cellsBy m r g rel = true := by
  unfold cellsBy
  rw [rf_all4]
  intro t ht
  simp only []
  rw [h t ht, expectedText_eq]
  generalize (if (switchDiscard m r.before g && decide (t = 1 + g.b / 16 % 2)) = true
    then (r.before.text t).cells.cleared else (r.before.text t).cells) = old
  rw [Bool.and_eq_true]
  constructor
  · rw [rf_expCells_length]; exact beq_self_eq_true _
  · rw [List.all_eq_true]
    intro i hi
    rw [rf_expCells_getD _ _ _ _ _ _ _ (List.mem_range.mp hi)]
    cases hn : rtNoisy m g
    · -- not noisy: both sides look at the same address list
      simp only [Bool.false_eq_true, if_false]
      cases hf : List.find? (fun a => decide (a.2.1 = i)) (List.filter (fun a => decide (a.1 = t)) (addressed g)) with
      | none => exact hnone _ _
      | some a =>
        obtain ⟨a1, a2, b, ex⟩ := a
        exact hsome hn _ _ _ _
    · -- noisy: every cell is the old one
      simp only [if_true, List.find?_nil]
      cases hf : List.find? (fun a => decide (a.2.1 = i)) (List.filter (fun a => decide (a.1 = t)) (addressed g)) with
      | none => exact hnone _ _
      | some a =>
        obtain ⟨a1, a2, b, ex⟩ := a
        exact hnoisy hn _ _ _ _

/-! ## the group branches -/

theorem rf_C02_some (cfg : Cfg) (m : Mon) (r : StepRec) (g : Group)
    (h : ∀ t, t < 4 → (r.after.text t).cells = expectedText cfg m r.before g t) :
    cellsBy m r g (relC02 cfg g.eb) = true := by
  apply rf_cellsBy_of cfg m r g _ h
  · intro t old; simp [relC02]
  · intro _ t old b ex
    unfold relC02
    simp only []
    by_cases he : g.eb = 0 ∧ ex = 0
    · obtain ⟨h1, h2⟩ := he
      rw [h1, h2, rf_cellSpec_error_free]
      simp
    · have : (decide (g.eb = 0) && decide (ex = 0)) = false := by
        simp only [Bool.and_eq_false_iff, decide_eq_false_iff_not]; omega
      rw [this]
      simp only [Bool.false_eq_true, if_false, Bool.or_eq_true, beq_iff_eq]
      exact rf_cellSpec_old_or_conv _ _ _ _ _ _ _ _
  · intro hn t old b ex
    have heb := rf_rtNoisy_eb m g hn
    simp [relC02, heb]

theorem rf_C06_some (cfg : Cfg) (m : Mon) (r : StepRec) (g : Group)
    (h : ∀ t, t < 4 → (r.after.text t).cells = expectedText cfg m r.before g t) :
    (rtNoisy m g || cellsBy m r g (relC06 cfg r.before.set g.eb)) = true := by
  cases hn : rtNoisy m g
  · rw [Bool.false_or]
    apply rf_cellsBy_of cfg m r g _ h
    · intro t old; rfl
    · intro _ t old b ex
      unfold relC06
      simp only []
      cases hp : r.before.set.prog (textIdOf t)
      · simp
      · simp only [if_true, Bool.or_eq_true, beq_iff_eq]
        exact rf_cellSpec_prog _ _ _ _ _ _ _
    · intro hn'; rw [hn] at hn'; exact absurd hn' (by simp)
  · rfl

theorem rf_C08_some (cfg : Cfg) (m : Mon) (r : StepRec) (g : Group)
    (h : ∀ t, t < 4 → (r.after.text t).cells = expectedText cfg m r.before g t) :
    (if rtNoisy m g then
        r.after.rt0.cells == r.before.rt0.cells && r.after.rt1.cells == r.before.rt1.cells
      else
        (List.range 2).all fun f =>
          let t := 1 + f
          let old0 := (r.before.text t).cells
          let old := if switchDiscard m r.before g && f = g.b / 16 % 2 then old0.cleared else old0
          let addr := (addressed g).filter (fun a => a.1 = t)
          (r.after.text t).cells.length == old.length &&
          (List.range old.length).all fun i =>
            (addr.find? (fun a => a.2.1 = i)).isSome || (r.after.text t).cells.getD i blank == old.getD i blank)
      = true := by
  cases hn : rtNoisy m g
  · simp only [Bool.false_eq_true, if_false]
    rw [List.all_eq_true]
    intro f hf
    have hf2 : f < 2 := List.mem_range.mp hf
    rw [h (1 + f) (by omega), expectedText_eq, hn]
    have hd : decide (1 + f = 1 + g.b / 16 % 2) = decide (f = g.b / 16 % 2) :=
      decide_eq_decide.mpr (by omega)
    rw [hd]
    simp only [Bool.false_eq_true, if_false]
    generalize (if (switchDiscard m r.before g && decide (f = g.b / 16 % 2)) = true
      then (r.before.text (1 + f)).cells.cleared else (r.before.text (1 + f)).cells) = old
    rw [Bool.and_eq_true]
    constructor
    · rw [rf_expCells_length]; exact beq_self_eq_true _
    · rw [List.all_eq_true]
      intro i hi
      rw [rf_expCells_getD _ _ _ _ _ _ _ (List.mem_range.mp hi)]
      cases hfd : List.find? (fun a => decide (a.2.1 = i))
          (List.filter (fun a => decide (a.1 = 1 + f)) (addressed g)) with
      | none => simp
      | some a => simp
  · simp only [↓reduceIte]
    have hs := rf_rtNoisy_switch m r.before g hn
    have h1 := h 1 (by omega)
    have h2 := h 2 (by omega)
    rw [expectedText_eq, hn, hs] at h1 h2
    simp only [Bool.false_and, Bool.false_eq_true, if_false, if_true, expCells_nil] at h1 h2
    have h1' : r.after.rt0.cells = r.before.rt0.cells := h1
    have h2' : r.after.rt1.cells = r.before.rt1.cells := h2
    rw [h1', h2']
    simp

theorem rf_C08_none (r : StepRec)
    (h : ∀ t, t < 4 → (r.after.text t).cells = (r.before.text t).cells) :
    (r.after.rt0.cells == r.before.rt0.cells && r.after.rt1.cells == r.before.rt1.cells) = true := by
  have h1 : r.after.rt0.cells = r.before.rt0.cells := h 1 (by omega)
  have h2 : r.after.rt1.cells = r.before.rt1.cells := h 2 (by omega)
  rw [h1, h2]
  simp

/-! ## all four predicates share the case split on the op -/

theorem rf_unfold (cfg : Cfg) (m : Mon) (r : StepRec) :
    (chkC02 cfg m r = true ∧ chkC06 cfg m r = true ∧ chkC08 m r = true) ∨
    (chkCells cfg m r =
        (match r.op.group? with
          | some g => (List.range 4).all fun t => (r.after.text t).cells == expectedText cfg m r.before g t
          | none => (List.range 4).all fun t => (r.after.text t).cells == (r.before.text t).cells) ∧
     chkC02 cfg m r =
        (match r.op.group? with
          | some g => cellsBy m r g (relC02 cfg g.eb)
          | none => (List.range 4).all fun t => (r.after.text t).cells == (r.before.text t).cells) ∧
     chkC06 cfg m r =
        (match r.op.group? with
          | some g => rtNoisy m g || cellsBy m r g (relC06 cfg r.before.set g.eb)
          | none => true) ∧
     chkC08 m r =
        (match r.op.group? with
          | some g =>
            if rtNoisy m g then
              r.after.rt0.cells == r.before.rt0.cells && r.after.rt1.cells == r.before.rt1.cells
            else
              (List.range 2).all fun f =>
                let t := 1 + f
                let old0 := (r.before.text t).cells
                let old := if switchDiscard m r.before g && f = g.b / 16 % 2 then old0.cleared else old0
                let addr := (addressed g).filter (fun a => a.1 = t)
                (r.after.text t).cells.length == old.length &&
                (List.range old.length).all fun i =>
                  (addr.find? (fun a => a.2.1 = i)).isSome ||
                    (r.after.text t).cells.getD i blank == old.getD i blank
          | none => r.after.rt0.cells == r.before.rt0.cells && r.after.rt1.cells == r.before.rt1.cells)) := by
  obtain ⟨op, before, after, evs, ret⟩ := r
  cases op <;> first
    | exact Or.inl ⟨rfl, rfl, rfl⟩
    | exact Or.inr ⟨rfl, rfl, rfl, rfl⟩

/-! ## the requested theorems -/

/-- the closed form implies C02's own predicate -/
theorem chkC02_of_chkCells (cfg : Cfg) (m : Mon) (r : StepRec) (h : chkCells cfg m r = true) :
    chkC02 cfg m r = true := by
  rcases rf_unfold cfg m r with h0 | ⟨e, e2, _, _⟩
  · exact h0.1
  · rw [e] at h
    rw [e2]
    cases hg : r.op.group? with
    | none => rw [hg] at h; exact h
    | some g =>
      rw [hg] at h
      simp only [rf_all4, beq_iff_eq] at h
      exact rf_C02_some cfg m r g h

/-- the closed form implies C06's own predicate -/
theorem chkC06_of_chkCells (cfg : Cfg) (m : Mon) (r : StepRec) (h : chkCells cfg m r = true) :
    chkC06 cfg m r = true := by
  rcases rf_unfold cfg m r with h0 | ⟨e, _, e6, _⟩
  · exact h0.2.1
  · rw [e] at h
    rw [e6]
    cases hg : r.op.group? with
    | none => rfl
    | some g =>
      rw [hg] at h
      simp only [rf_all4, beq_iff_eq] at h
      exact rf_C06_some cfg m r g h

/-- the closed form implies C08's own predicate -/
theorem chkC08_of_chkCells (cfg : Cfg) (m : Mon) (r : StepRec) (h : chkCells cfg m r = true) :
    chkC08 m r = true := by
  rcases rf_unfold cfg m r with h0 | ⟨e, _, _, e8⟩
  · exact h0.2.2
  · rw [e] at h
    rw [e8]
    cases hg : r.op.group? with
    | none =>
      rw [hg] at h
      simp only [rf_all4, beq_iff_eq] at h
      exact rf_C08_none r h
    | some g =>
      rw [hg] at h
      simp only [rf_all4, beq_iff_eq] at h
      exact rf_C08_some cfg m r g h

theorem chkC02_ok (tb : Tabs) (m : Mon) (s : State) (op : Op) (hl : Link m s) (hw : WF tb s) :
    chkC02 tb.cfg m (recOf tb.cfg s op) = true :=
  chkC02_of_chkCells _ _ _ (chkCells_ok tb m s op hl hw)

theorem chkC06_ok (tb : Tabs) (m : Mon) (s : State) (op : Op) (hl : Link m s) (hw : WF tb s) :
    chkC06 tb.cfg m (recOf tb.cfg s op) = true :=
  chkC06_of_chkCells _ _ _ (chkCells_ok tb m s op hl hw)

theorem chkC08_ok (tb : Tabs) (m : Mon) (s : State) (op : Op) (hl : Link m s) (hw : WF tb s) :
    chkC08 m (recOf tb.cfg s op) = true :=
  chkC08_of_chkCells _ _ _ (chkCells_ok tb m s op hl hw)

#print axioms chkC02_of_chkCells
#print axioms chkC06_of_chkCells
#print axioms chkC08_of_chkCells
#print axioms chkC02_ok
#print axioms chkC06_ok
#print axioms chkC08_ok

end RDS
