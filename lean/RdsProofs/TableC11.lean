import RdsProofs.TableBase
/-!
# RdsProofs.TableC11 — kernel-checked theorems about the extracted ECC/country table (C11)

`Generated.*` is read out of the compiled library on every run; `Reference.*` is the hand-written
oracle. Every theorem rests on closed, finite `Bool` facts evaluated by the kernel (`decide +kernel`)
over the *whole* table (one pass: indexing a 256-entry list per cell is quadratic in the kernel), then
lifted to `∀` by the `tbl_…` lemmas of `RdsProofs.TableBase`.
-/

-- the kernel evaluations are memory-bound; checking them concurrently is slower than in sequence
set_option Elab.async false

namespace RDS
open RDS.TableCheck

/-! ## C11 — ECC and country -/

/-- all 17 × 256 cells: the library's lookup is the IEC 62106-4 table -/
theorem C11_table : Generated.eccCountry = Reference.iecTable := eq_of_beq (by decide +kernel)

theorem C11_cells : ∀ nib e,
    (Generated.eccCountry.getD (nib + 1) []).getD e 0 = Reference.iec nib e := by
  intro nib e; rw [C11_table]; rfl

theorem tbl_eccRangeOk : eccRangeOk Generated.eccCountry = true := by decide +kernel

/-- every cell is a valid enumerator (also for out-of-range row/column arguments, where `getD`
yields 0) -/
theorem C11_range : ∀ row e,
    (Generated.eccCountry.getD row []).getD e 0 < Generated.countryCount := by
  intro row e
  have hpos : 0 < Generated.countryCount := by decide +kernel
  rcases tbl_getD_mem_or_default Generated.eccCountry row [] with hrow | hrow
  · have hr := List.all_eq_true.mp tbl_eccRangeOk _ hrow
    rcases tbl_getD_mem_or_default (Generated.eccCountry.getD row []) e 0 with hx | hx
    · simpa using List.all_eq_true.mp hr _ hx
    · rw [hx]; exact hpos
  · rw [hrow]; exact hpos

theorem tbl_eccUnknownOk : eccUnknownOk Generated.eccCountry = true := by decide +kernel

/-- PI unknown (row 0), nibble 0 (row 1) and every ECC byte other than the 23 allocated ones
(A0–A6, D0–D4, E0–E5, F0–F4) give "unknown" -/
theorem C11_unknown : ∀ row e, (row ≤ 1 ∨ e ∉ Reference.eccCodes) →
    (Generated.eccCountry.getD row []).getD e 0 = 0 := by
  intro row e hc
  have h := tbl_eccUnknownOk
  simp only [eccUnknownOk, Bool.and_eq_true] at h
  obtain ⟨h01, hall⟩ := h
  rcases Nat.lt_or_ge e (Generated.eccCountry.getD row []).length with hlen | hlen
  · rcases hc with hc | hc
    · -- rows 0 and 1 are zero
      have hrow : Generated.eccCountry.getD row [] ∈ Generated.eccCountry.take 2 ∨
          Generated.eccCountry.getD row [] = [] := by
        have : Generated.eccCountry.getD row [] = (Generated.eccCountry.take 2).getD row [] := by
          simp [List.getD_eq_getElem?_getD, show row < 2 by omega]
        rw [this]; exact tbl_getD_mem_or_default _ _ _
      rcases hrow with hrow | hrow
      · rcases tbl_getD_mem_or_default (Generated.eccCountry.getD row []) e 0 with hx | hx
        · have := List.all_eq_true.mp (List.all_eq_true.mp h01 _ hrow) _ hx
          simpa using this
        · exact hx
      · rw [hrow]; rfl
    · -- a non-zero cell sits in an allocated ECC column
      rcases tbl_getD_mem_or_default Generated.eccCountry row [] with hrow | hrow
      · have hr := List.all_eq_true.mp hall _ hrow
        have hz := tbl_zipIdx_all (l := Generated.eccCountry.getD row [])
          (p := fun i x => x == 0 || Reference.eccCodes.contains i) hr e 0 hlen
        simp only [Bool.or_eq_true, beq_iff_eq] at hz
        rcases hz with hz | hz
        · exact hz
        · exact absurd (List.contains_iff_mem.mp hz) hc
      · rw [hrow]; rfl
  · have hnone : (Generated.eccCountry.getD row [])[e]? = none := List.getElem?_eq_none hlen
    rw [List.getD_eq_getElem?_getD (l := Generated.eccCountry.getD row []), hnone]; rfl

/-- the range contract assumed by the logic proofs, for both builds -/
theorem eccOk (u : Bool) : RDS.EccOk ⟨Generated.cfg u, Generated.countryCount⟩ := by
  refine ⟨?_, ?_⟩
  · show 0 < Generated.countryCount
    decide +kernel
  · intro n e
    exact C11_range (n + 1) e

/-- Cells in which the older editions (EN 50067:1998, IEC 62106:2009/2015 Annex D) differ from the
IEC 62106-4:2018 layout of `Reference.iecColumns`, with the library's value: the library follows
the 2018 layout — E3/4 unallocated (older: Macedonia), E4/3 Macedonia (older: Kyrgyzstan),
E5/3 Kyrgyzstan (older: E5 not in use). -/
theorem C11_legacy_cells :
    Reference.legacyCells.map (fun c => (c.1, c.2.1, c.2.2.enumerator, eccCell (c.1 + 1) c.2.1)) =
      [(4, 0xE3, Reference.Country.macedonia.enumerator, 0),
       (3, 0xE4, Reference.Country.kyrgyzstan.enumerator, Reference.Country.macedonia.enumerator),
       (3, 0xE5, 0, Reference.Country.kyrgyzstan.enumerator)] := by
  decide +kernel


#print axioms C11_table
#print axioms C11_cells
#print axioms C11_range
#print axioms C11_unknown
#print axioms eccOk
#print axioms C11_legacy_cells

end RDS
