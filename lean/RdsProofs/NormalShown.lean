import RdsProofs.C04Redeliver
import RdsProofs.Inv
/-!
# RdsProofs.NormalShown — "received is shown" in normal mode, for every history (clauses of C01, C10, C11)
-/
namespace RDS

theorem step_of_group (cfg : Cfg) (s : State) (op : Op) (g : Group) (hg : op.group? = some g) :
    (step cfg s op).1 = (process cfg s g).1 := by
  cases op with
  | parse g' => simp only [Op.group?, Option.some.injEq] at hg; subst hg; rfl
  | parseString o =>
    cases o with
    | none => simp [Op.group?] at hg
    | some b => simp only [Op.group?] at hg; simp only [step, hg]
  | _ => simp [Op.group?] at hg

theorem chkNormalScalars_ok (tb : Tabs) (s : State) (op : Op) (hw : WF tb s) :
    chkNormalScalars (recOf tb.cfg s op) = true := by
  unfold chkNormalScalars
  show (match op.group? with | none => true | some g => _) = true
  cases hg : op.group? with
  | none => rfl
  | some g =>
    show ((Obs.ofState s).set.ext || _) = true
    cases hext : s.set.ext with
    | true => simp [Obs.ofState, hext]
    | false =>
      obtain ⟨hc, hd⟩ := process_estab tb.cfg s g hext hw.usedAfLen
      have hst : (Obs.ofState (step tb.cfg s op).1).sc = (process tb.cfg s g).1.used := by
        rw [step_of_group tb.cfg s op g hg]; rfl
      have h0 := hd.1
      simp only [Obs.ofState, hext, Bool.false_or, Bool.and_eq_true, Bool.or_eq_true, bne_iff_ne, ne_eq, beq_iff_eq,
        Bool.not_eq_true', decide_eq_true_eq, decide_eq_false_iff_not, Bool.decide_and, recOf]
      rw [step_of_group tb.cfg s op g hg]
      refine ⟨⟨?_, ?_⟩, ?_⟩
      · by_cases h : g.ea = 0
        · right; exact hc.1 h
        · left; exact h
      · by_cases h : g.eb = 0
        · right; exact hc.2 h
        · left; exact h
      · by_cases h : g.type = 0 ∧ g.eb = 0
        · right; exact (h0 h.1).1 h.2
        · left; simpa using h

theorem chkNormalAf_ok (tb : Tabs) (s : State) (op : Op) (hw : WF tb s) :
    chkNormalAf (recOf tb.cfg s op) = true := by
  unfold chkNormalAf
  show (match op.group? with | none => true | some g => _) = true
  cases hg : op.group? with
  | none => rfl
  | some g =>
    cases hext : s.set.ext with
    | true => simp [recOf, Obs.ofState, hext]
    | false =>
      obtain ⟨_, hd⟩ := process_estab tb.cfg s g hext hw.usedAfLen
      by_cases h : g.type = 0 ∧ afCondM g = true
      · have ha := (hd.1 h.1).2.2 (by simpa [afCond, afCondM] using h.2)
        simp only [recOf, Obs.ofState, hext, Bool.false_or, step_of_group tb.cfg s op g hg]
        have conv : ∀ af v, AfAbs af v → afShown af v = true := by
          intro af v h
          unfold afShown
          rcases h with h | h <;> simp [h]
        simp [conv _ _ ha.1, conv _ _ ha.2]
      · simp only [recOf, Obs.ofState, hext, Bool.false_or]
        have : (decide (g.type = 0) && afCondM g) = false := by
          by_cases h0 : g.type = 0 <;> simp_all
        simp [this]

theorem chkNormalEcc_ok (tb : Tabs) (s : State) (op : Op) (hw : WF tb s) :
    chkNormalEcc (recOf tb.cfg s op) = true := by
  unfold chkNormalEcc
  show (match op.group? with | none => true | some g => _) = true
  cases hg : op.group? with
  | none => rfl
  | some g =>
    cases hext : s.set.ext with
    | true => simp [recOf, Obs.ofState, hext]
    | false =>
      obtain ⟨_, hd⟩ := process_estab tb.cfg s g hext hw.usedAfLen
      by_cases h : g.type = 1 ∧ eccCondM g = true
      · have ha := (hd.2.1 h.1 (by simpa [eccCond, eccCondM] using h.2)).1
        simp only [recOf, Obs.ofState, hext, Bool.false_or, step_of_group tb.cfg s op g hg]
        have : (process tb.cfg s g).1.used.ecc = ((g.c % 256 : Nat) : Int) := ha
        simp [this]
      · simp only [recOf, Obs.ofState, hext, Bool.false_or]
        have : (decide (g.type = 1) && eccCondM g) = false := by
          by_cases h0 : g.type = 1 <;> simp_all
        simp [this]

end RDS

#print axioms RDS.chkNormalScalars_ok
#print axioms RDS.chkNormalAf_ok
#print axioms RDS.chkNormalEcc_ok
