import RdsProofs.Reach
import RdsSpec.Worded
/-!
# RdsProofs.WordedBase — list facts about the `Worded` definitions and the effect of one `Mon.step`
on the parts of `Mon` the worded properties read
-/
namespace RDS

/-! ## oldest-first induction -/

theorem wd_snoc_ind {α} {P : List α → Prop} (hnil : P [])
    (hsnoc : ∀ l a, P l → P (l ++ [a])) : ∀ l, P l := by
  intro l
  rw [← List.reverse_reverse l]
  induction l.reverse with
  | nil => exact hnil
  | cons a t ih => rw [List.reverse_cons]; exact hsnoc _ _ ih

/-! ## classification of an op -/

theorem wd_group_none_of (op : Op) (h1 : op = .init ∨ op = .clear ∨ (∃ v, op = .setExt v)) :
    op.group? = none := by
  rcases h1 with h | h | ⟨v, h⟩ <;> subst h <;> rfl

/-- every op is `init`, `clear`, delivers a group, or delivers nothing -/
theorem wd_op_cases (op : Op) :
    op = .init ∨ op = .clear ∨ (∃ g, op.group? = some g) ∨
    (op.group? = none ∧ op ≠ .init ∧ op ≠ .clear) := by
  cases hg : op.group? with
  | some g => exact Or.inr (Or.inr (Or.inl ⟨g, rfl⟩))
  | none =>
    by_cases h1 : op = .init
    · exact Or.inl h1
    · by_cases h2 : op = .clear
      · exact Or.inr (Or.inl h2)
      · exact Or.inr (Or.inr (Or.inr ⟨rfl, h1, h2⟩))

theorem wd_group_ne_init {op : Op} {g : Group} (hg : op.group? = some g) : op ≠ .init ∧ op ≠ .clear := by
  constructor <;> intro h <;> subst h <;> cases hg

/-! ## `recvSeq` one op further -/

def wd_recvStep (sel : Group → Option Int) (acc : List Int) (op : Op) : List Int :=
  match op with
  | .init | .clear => []
  | _ => match op.group?.bind sel with
         | some v => acc ++ [v]
         | none => acc

theorem wd_recvSeq_snoc (sel : Group → Option Int) (ops : List Op) (op : Op) :
    recvSeq sel (ops ++ [op]) = wd_recvStep sel (recvSeq sel ops) op := by
  simp only [recvSeq, List.foldl_append, List.foldl_cons, List.foldl_nil]
  rfl

theorem wd_recvSeq_nil (sel : Group → Option Int) : recvSeq sel [] = [] := rfl

theorem wd_recvStep_init (sel : Group → Option Int) (acc : List Int) : wd_recvStep sel acc .init = [] := rfl
theorem wd_recvStep_clear (sel : Group → Option Int) (acc : List Int) : wd_recvStep sel acc .clear = [] := rfl

theorem wd_recvStep_bind (sel : Group → Option Int) (acc : List Int) (op : Op)
    (h1 : op ≠ .init) (h2 : op ≠ .clear) :
    wd_recvStep sel acc op = match op.group?.bind sel with
      | some v => acc ++ [v]
      | none => acc := by
  cases op <;> first | rfl | exact absurd rfl h1 | exact absurd rfl h2

theorem wd_recvStep_group (sel : Group → Option Int) (acc : List Int) (op : Op) (g : Group)
    (hg : op.group? = some g) :
    wd_recvStep sel acc op = match sel g with
      | some v => acc ++ [v]
      | none => acc := by
  obtain ⟨h1, h2⟩ := wd_group_ne_init hg
  rw [wd_recvStep_bind sel acc op h1 h2, hg]
  rfl

theorem wd_recvStep_nogroup (sel : Group → Option Int) (acc : List Int) (op : Op)
    (hg : op.group? = none) (h1 : op ≠ .init) (h2 : op ≠ .clear) :
    wd_recvStep sel acc op = acc := by
  rw [wd_recvStep_bind sel acc op h1 h2, hg]
  rfl

/-! ## `afCount` one op further -/

def wd_afStep (v : Nat) (n : Nat) (op : Op) : Nat :=
  match op with
  | .init | .clear => 0
  | _ => match op.group? with
         | some g => n + ((afCodes g).filter (· == v)).length
         | none => n

theorem wd_afCount_snoc (v : Nat) (ops : List Op) (op : Op) :
    afCount v (ops ++ [op]) = wd_afStep v (afCount v ops) op := by
  simp only [afCount, List.foldl_append, List.foldl_cons, List.foldl_nil]
  rfl

theorem wd_afStep_group (v n : Nat) (op : Op) (g : Group) (hg : op.group? = some g) :
    wd_afStep v n op = n + ((afCodes g).filter (· == v)).length := by
  obtain ⟨h1, h2⟩ := wd_group_ne_init hg
  have : wd_afStep v n op = match op.group? with
      | some g => n + ((afCodes g).filter (· == v)).length
      | none => n := by
    cases op <;> first | rfl | exact absurd rfl h1 | exact absurd rfl h2
  rw [this, hg]

theorem wd_afStep_nogroup (v n : Nat) (op : Op)
    (hg : op.group? = none) (h1 : op ≠ .init) (h2 : op ≠ .clear) : wd_afStep v n op = n := by
  have : wd_afStep v n op = match op.group? with
      | some g => n + ((afCodes g).filter (· == v)).length
      | none => n := by
    cases op <;> first | rfl | exact absurd rfl h1 | exact absurd rfl h2
  rw [this, hg]

/-! ## `extFold` -/

/-- the scan state of `extFold`: (previous reception, visible value) -/
def wd_extSt (unk : Int) (l : List Int) : Option Int × Int :=
  l.foldl (fun (st : Option Int × Int) v => (some v, if st.1 = some v then v else st.2)) (none, unk)

theorem wd_extFold_eq (unk : Int) (l : List Int) : extFold unk l = (wd_extSt unk l).2 := rfl

theorem wd_extSt_nil (unk : Int) : wd_extSt unk [] = (none, unk) := rfl

theorem wd_extSt_snoc (unk : Int) (l : List Int) (v : Int) :
    wd_extSt unk (l ++ [v]) =
      (some v, if (wd_extSt unk l).1 = some v then v else (wd_extSt unk l).2) := by
  unfold wd_extSt
  rw [List.foldl_append]
  rfl

theorem wd_extSt_fst (unk : Int) (l : List Int) : (wd_extSt unk l).1 = l.getLast? := by
  induction l using wd_snoc_ind with
  | hnil => rfl
  | hsnoc l a _ => rw [wd_extSt_snoc]; simp

theorem wd_extSt_snd (unk : Int) (l : List Int) :
    (wd_extSt unk l).2 = unk ∨
      ∃ i, l[i]? = some (wd_extSt unk l).2 ∧ l[i + 1]? = some (wd_extSt unk l).2 := by
  induction l using wd_snoc_ind with
  | hnil => exact Or.inl rfl
  | hsnoc l a ih =>
    rw [wd_extSt_snoc]
    by_cases hl : (wd_extSt unk l).1 = some a
    · right
      simp only [hl, if_true]
      rw [wd_extSt_fst] at hl
      have hne : l ≠ [] := by intro e; subst e; cases hl
      have hpos : 0 < l.length := List.length_pos_iff.mpr hne
      refine ⟨l.length - 1, ?_, ?_⟩
      · rw [List.getElem?_append_left (by omega)]
        rw [List.getLast?_eq_getElem?] at hl
        exact hl
      · have : l.length - 1 + 1 = l.length := by omega
        rw [this]
        simp
    · simp only [hl, if_false]
      rcases ih with ih | ⟨i, h1, h2⟩
      · exact Or.inl ih
      · right
        have hi : i + 1 < l.length := by
          rcases Nat.lt_or_ge (i + 1) l.length with h | h
          · exact h
          · rw [List.getElem?_eq_none h] at h2; cases h2
        refine ⟨i, ?_, ?_⟩
        · rw [List.getElem?_append_left (by omega)]; exact h1
        · rw [List.getElem?_append_left hi]; exact h2

/-! ## `lastOr` -/

theorem wd_lastOr_nil (unk : Int) : lastOr unk [] = unk := rfl

theorem wd_lastOr_snoc (unk : Int) (l : List Int) (v : Int) : lastOr unk (l ++ [v]) = v := by
  simp [lastOr]

end RDS
