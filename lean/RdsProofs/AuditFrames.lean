import RdsProofs.LinkGroups
/-!
# RdsProofs.AuditFrames — frame theorems closing four audit gaps (C01, C11, C17, C12)

All theorems here are about the *model* (`step`, `process`, `run`), for ARBITRARY states unless a history is
mentioned, arbitrary tables `cfg`, unbounded naturals in the group fields.

* (a) `C01_never_unknown_getter` — a getter value different from "unknown" (-1) never falls back to -1 except
  through `init` / `clear` (mode-independent; normal and extended check alike).
* (b) `C11_frame` — nothing but a 1A group with error-free B, C and variant 0 changes ECC or country
  (visible or candidate value).
* (c) `C17_settings_frame` — the settings/registration/user-data calls fire no event, return `true`, and change
  nothing of the decoded data; each setter changes exactly its own key.
* (d) `ctFields_spec` — the 4A clock-time layout of the model equals an independent bit-by-bit specification
  taken from IEC 62106 / EN 50067 §3.1.5.6.
-/
namespace RDS

/-! ## shared -/

theorem afr_run_snoc (cfg : Cfg) (ops : List Op) (op : Op) :
    run cfg (ops ++ [op]) = (step cfg (run cfg ops) op).1 := by
  simp [run, runFrom, List.foldl_append]

theorem afr_run_append (cfg : Cfg) (ops ops' : List Op) :
    run cfg (ops ++ ops') = runFrom cfg (run cfg ops) ops' := by
  simp [run, runFrom, List.foldl_append]

/-- a toy configuration for the non-vacuity examples (identity charset, ECC table constantly 7) -/
def afr_cfg : Cfg := ⟨true, fun b => b, fun _ _ => 7⟩

/-! ## (a) C01: never back to "unknown" -/

theorem afr_bufUpdate_fst (ext : Bool) (u t v : Int) :
    (bufUpdate ext u t v).1 = u ∨ (bufUpdate ext u t v).1 = v := by
  unfold bufUpdate; split <;> simp

/-- `setField` with a value other than -1 never makes any visible field -1 -/
theorem afr_setField_keep (s : State) (f f' : Fld) (v : Int) (hv : v ≠ -1)
    (h : s.used.get f' ≠ -1) : (setField s f v).1.used.get f' ≠ -1 := by
  by_cases e : f' = f
  · subst e
    rw [setField_used_get]
    rcases afr_bufUpdate_fst s.set.ext (s.used.get f') (s.temp.get f') v with h1 | h1 <;> rw [h1] <;> assumption
  · rw [setField_used_get_ne _ _ _ _ e]; exact h

theorem afr_natCast_ne (n : Nat) : ((n : Nat) : Int) ≠ -1 := by omega

theorem afr_groupCommon_keep (s : State) (g : Group) (f : Fld) (h : s.used.get f ≠ -1) :
    (groupCommon s g).1.used.get f ≠ -1 := by
  unfold groupCommon
  simp only []
  have h1 : (if g.ea = 0 then setField s .pi g.a else (s, [])).1.used.get f ≠ -1 := by
    split
    · exact afr_setField_keep _ _ _ _ (afr_natCast_ne _) h
    · exact h
  split
  · exact afr_setField_keep _ _ _ _ (afr_natCast_ne _) (afr_setField_keep _ _ _ _ (afr_natCast_ne _) h1)
  · exact h1

/-- the scalar part of `group0`: only the TA/MS setters touch `used.get` -/
theorem afr_group0_used_get (cfg : Cfg) (s : State) (g : Group) (f : Fld) :
    (group0 cfg s g).1.used.get f =
      (if g.eb = 0 then (setField (setField s .ta (g.b / 16 % 2 : Nat)).1 .ms (g.b / 8 % 2 : Nat)).1
        else s).used.get f := by
  unfold group0; simp only []; split <;> split <;> simp

theorem afr_group0_temp_get (cfg : Cfg) (s : State) (g : Group) (f : Fld) :
    (group0 cfg s g).1.temp.get f =
      (if g.eb = 0 then (setField (setField s .ta (g.b / 16 % 2 : Nat)).1 .ms (g.b / 8 % 2 : Nat)).1
        else s).temp.get f := by
  unfold group0; simp only []; split <;> split <;> simp

theorem afr_group0_keep (cfg : Cfg) (s : State) (g : Group) (f : Fld) (h : s.used.get f ≠ -1) :
    (group0 cfg s g).1.used.get f ≠ -1 := by
  rw [afr_group0_used_get]
  split
  · exact afr_setField_keep _ _ _ _ (afr_natCast_ne _) (afr_setField_keep _ _ _ _ (afr_natCast_ne _) h)
  · exact h

theorem afr_eccLookup_ne (cfg : Cfg) (pi ecc : Int) : eccLookup cfg pi ecc ≠ -1 := by
  unfold eccLookup
  split
  · decide
  · simp only []
    split
    · decide
    · exact afr_natCast_ne _

theorem afr_group1_keep (cfg : Cfg) (s : State) (g : Group) (f : Fld) (h : s.used.get f ≠ -1) :
    (group1 cfg s g).1.used.get f ≠ -1 := by
  unfold group1
  split
  · exact afr_setField_keep _ _ _ _ (afr_eccLookup_ne _ _ _) (afr_setField_keep _ _ _ _ (afr_natCast_ne _) h)
  · exact h

theorem afr_dispatch_keep (cfg : Cfg) (s : State) (g : Group) (f : Fld) (h : s.used.get f ≠ -1) :
    (dispatch cfg s g).1.used.get f ≠ -1 := by
  unfold dispatch
  split
  · exact afr_group0_keep cfg s g f h
  · split
    · exact afr_group1_keep cfg s g f h
    · split
      · rw [(group2_frame cfg s g).1]; exact h
      · split
        · rw [group4_fst]; exact h
        · split
          · rw [(group10_frame cfg s g).1]; exact h
          · exact h

theorem afr_process_keep (cfg : Cfg) (s : State) (g : Group) (f : Fld) (h : s.used.get f ≠ -1) :
    (process cfg s g).1.used.get f ≠ -1 := by
  unfold process
  exact afr_dispatch_keep cfg _ g f (afr_groupCommon_keep s g f h)

/-- One API call other than `init`/`clear`, from ANY state (reachable or not, normal mode or extended check):
no visible scalar that is not -1 becomes -1. For the five tuning fields and ECC, -1 is "unknown". -/
theorem C01_never_unknown_step (cfg : Cfg) (s : State) (op : Op) (hi : op ≠ .init) (hc : op ≠ .clear)
    (f : Fld) (h : s.used.get f ≠ -1) : (step cfg s op).1.used.get f ≠ -1 := by
  cases op with
  | init => exact absurd rfl hi
  | clear => exact absurd rfl hc
  | parse g => exact afr_process_keep cfg s g f h
  | parseString b =>
    cases b with
    | none => exact h
    | some bytes =>
      cases hg : utilsConvert bytes with
      | none => simp only [step, hg]; exact h
      | some g => simp only [step, hg]; exact afr_process_keep cfg s g f h
  | _ => exact h

/-- … and over any number of calls none of which is `init`/`clear` -/
theorem afr_never_unknown_runFrom (cfg : Cfg) (f : Fld) (ops' : List Op)
    (hops : ∀ op ∈ ops', op ≠ .init ∧ op ≠ .clear) :
    ∀ s : State, s.used.get f ≠ -1 → (runFrom cfg s ops').used.get f ≠ -1 := by
  induction ops' with
  | nil => intro s h; exact h
  | cons op ops ih =>
    intro s h
    have ho := hops op (List.mem_cons_self ..)
    exact ih (fun o ho' => hops o (List.mem_cons_of_mem _ ho')) _
      (C01_never_unknown_step cfg s op ho.1 ho.2 f h)

/-- C01, last clause ("never falls back to unknown except through a reset"), on the getters themselves:
for every history, every next call other than `init`/`clear`, each of PI/PTY/TP/TA/MS that is known stays known.
No mode hypothesis: holds in normal mode, under the extended check, and across mode switches. -/
theorem C01_never_unknown_getter (cfg : Cfg) (ops : List Op) (op : Op) (hi : op ≠ .init) (hc : op ≠ .clear) :
    ((run cfg ops).used.pi ≠ -1 → (run cfg (ops ++ [op])).used.pi ≠ -1) ∧
    ((run cfg ops).used.pty ≠ -1 → (run cfg (ops ++ [op])).used.pty ≠ -1) ∧
    ((run cfg ops).used.tp ≠ -1 → (run cfg (ops ++ [op])).used.tp ≠ -1) ∧
    ((run cfg ops).used.ta ≠ -1 → (run cfg (ops ++ [op])).used.ta ≠ -1) ∧
    ((run cfg ops).used.ms ≠ -1 → (run cfg (ops ++ [op])).used.ms ≠ -1) := by
  rw [afr_run_snoc]
  exact ⟨C01_never_unknown_step cfg _ op hi hc .pi, C01_never_unknown_step cfg _ op hi hc .pty,
    C01_never_unknown_step cfg _ op hi hc .tp, C01_never_unknown_step cfg _ op hi hc .ta,
    C01_never_unknown_step cfg _ op hi hc .ms⟩

/-- the same over any continuation `ops'` free of `init`/`clear` (all seven buffered scalars) -/
theorem C01_never_unknown_getter_suffix (cfg : Cfg) (ops ops' : List Op)
    (hops : ∀ op ∈ ops', op ≠ .init ∧ op ≠ .clear) (f : Fld) :
    (run cfg ops).used.get f ≠ -1 → (run cfg (ops ++ ops')).used.get f ≠ -1 := by
  rw [afr_run_append]
  exact afr_never_unknown_runFrom cfg f ops' hops _

/-- non-vacuity: after a 0A group all five fields are known (so every hypothesis of the theorem is met), also
under the extended check after two identical groups; and `clear` really does fall back -/
example :
    let g : Group := ⟨0x1234, 0x0408 ||| (5 <<< 5), 0x5A01, 0x4142, 0, 0, 0, 0⟩
    (run afr_cfg [.parse g]).used.pi ≠ -1 ∧ (run afr_cfg [.parse g]).used.pty ≠ -1 ∧
    (run afr_cfg [.parse g]).used.tp ≠ -1 ∧ (run afr_cfg [.parse g]).used.ta ≠ -1 ∧
    (run afr_cfg [.parse g]).used.ms ≠ -1 ∧
    (run afr_cfg [.setExt true, .parse g, .parse g]).used.pi ≠ -1 ∧
    (run afr_cfg [.parse g, .clear]).used.pi = -1 := by
  decide +kernel

/-! ## (b) C11: frame -/

/-- "a 1A group with error-free blocks B and C and variant code 0" -/
def afr_Ecc1A (g : Group) : Prop :=
  g.type = 1 ∧ g.versionB = false ∧ g.eb = 0 ∧ g.ec = 0 ∧ g.c / 4096 % 8 = 0

instance (g : Group) : Decidable (afr_Ecc1A g) := by unfold afr_Ecc1A; exact inferInstance

/-- the four ECC/country cells of the state (visible and candidate) -/
def afr_eccPart (s : State) : Int × Int × Int × Int :=
  (s.used.ecc, s.used.country, s.temp.ecc, s.temp.country)

theorem afr_eccPart_eq (s s' : State)
    (h : ∀ f : Fld, f = .ecc ∨ f = .country → s'.used.get f = s.used.get f ∧ s'.temp.get f = s.temp.get f) :
    afr_eccPart s' = afr_eccPart s := by
  have h1 := h .ecc (Or.inl rfl)
  have h2 := h .country (Or.inr rfl)
  simp only [Scalars.get] at h1 h2
  simp only [afr_eccPart, h1.1, h1.2, h2.1, h2.2]

theorem afr_setField_eccPart (s : State) (f : Fld) (v : Int) (h1 : f ≠ .ecc) (h2 : f ≠ .country) :
    afr_eccPart (setField s f v).1 = afr_eccPart s := by
  apply afr_eccPart_eq
  intro f' hf'
  have hne : f' ≠ f := by rcases hf' with e | e <;> subst e <;> exact fun e => by subst e; contradiction
  exact ⟨setField_used_get_ne _ _ _ _ hne, setField_temp_get_ne _ _ _ _ hne⟩

theorem afr_groupCommon_eccPart (s : State) (g : Group) :
    afr_eccPart (groupCommon s g).1 = afr_eccPart s := by
  unfold groupCommon
  simp only []
  have h1 : afr_eccPart (if g.ea = 0 then setField s .pi g.a else (s, [])).1 = afr_eccPart s := by
    split
    · exact afr_setField_eccPart _ _ _ (by decide) (by decide)
    · rfl
  split
  · rw [afr_setField_eccPart _ _ _ (by decide) (by decide), afr_setField_eccPart _ _ _ (by decide) (by decide), h1]
  · exact h1

theorem afr_group0_eccPart (cfg : Cfg) (s : State) (g : Group) :
    afr_eccPart (group0 cfg s g).1 = afr_eccPart s := by
  apply afr_eccPart_eq
  intro f hf
  rw [afr_group0_used_get, afr_group0_temp_get]
  have hta : f ≠ .ta := by rcases hf with e | e <;> subst e <;> decide
  have hms : f ≠ .ms := by rcases hf with e | e <;> subst e <;> decide
  split
  · exact ⟨by rw [setField_used_get_ne _ _ _ _ hms, setField_used_get_ne _ _ _ _ hta],
      by rw [setField_temp_get_ne _ _ _ _ hms, setField_temp_get_ne _ _ _ _ hta]⟩
  · exact ⟨rfl, rfl⟩

theorem afr_group1_noop (cfg : Cfg) (s : State) (g : Group)
    (h : ¬ (g.versionB = false ∧ g.eb = 0 ∧ g.ec = 0 ∧ g.c / 4096 % 8 = 0)) : group1 cfg s g = (s, []) := by
  unfold group1
  split
  · rename_i hc
    simp only [Bool.and_eq_true, Bool.not_eq_true', decide_eq_true_eq] at hc
    exact absurd ⟨hc.1.1.1, hc.1.1.2, hc.1.2, hc.2⟩ h
  · rfl

theorem afr_dispatch_eccPart (cfg : Cfg) (s : State) (g : Group) (h : ¬ afr_Ecc1A g) :
    afr_eccPart (dispatch cfg s g).1 = afr_eccPart s := by
  unfold dispatch
  split
  · exact afr_group0_eccPart cfg s g
  · split
    · rename_i ht
      rw [afr_group1_noop cfg s g (fun hc => h ⟨ht, hc⟩)]
    · split
      · simp only [afr_eccPart, (group2_frame cfg s g).1, (group2_frame cfg s g).2.1]
      · split
        · rw [group4_fst]
        · split
          · simp only [afr_eccPart, (group10_frame cfg s g).1, (group10_frame cfg s g).2.1]
          · rfl

theorem afr_process_eccPart (cfg : Cfg) (s : State) (g : Group) (h : ¬ afr_Ecc1A g) :
    afr_eccPart (process cfg s g).1 = afr_eccPart s := by
  unfold process
  rw [afr_dispatch_eccPart cfg _ g h, afr_groupCommon_eccPart]

/-- C11 frame, unconditional: for ALL states and all groups — any of the 16 types, both versions, any block values
and error codes — a group that is not "1A, B and C error-free, variant 0" leaves ECC and country alone: the visible
values and the extended-check candidates. (In particular the PI update of the same group does not recompute the
country.) -/
theorem C11_frame (cfg : Cfg) (s : State) (g : Group)
    (h : ¬ (g.type = 1 ∧ g.versionB = false ∧ g.eb = 0 ∧ g.ec = 0 ∧ g.c / 4096 % 8 = 0)) :
    (process cfg s g).1.used.ecc = s.used.ecc ∧ (process cfg s g).1.used.country = s.used.country ∧
    (process cfg s g).1.temp.ecc = s.temp.ecc ∧ (process cfg s g).1.temp.country = s.temp.country := by
  have e := afr_process_eccPart cfg s g h
  simp only [afr_eccPart, Prod.mk.injEq] at e
  exact e

/-- … over the public API: every call other than `init`, `clear` and a parse (binary or hex string) of such a
1A variant-0 group: setters, callback registration, user data, getters, rejected strings, all other groups. -/
theorem C11_frame_step (cfg : Cfg) (s : State) (op : Op) (hi : op ≠ .init) (hc : op ≠ .clear)
    (hg : ∀ g, op.group? = some g → ¬ afr_Ecc1A g) :
    (step cfg s op).1.used.ecc = s.used.ecc ∧ (step cfg s op).1.used.country = s.used.country ∧
    (step cfg s op).1.temp.ecc = s.temp.ecc ∧ (step cfg s op).1.temp.country = s.temp.country := by
  cases op with
  | init => exact absurd rfl hi
  | clear => exact absurd rfl hc
  | parse g => exact C11_frame cfg s g (hg g rfl)
  | parseString b =>
    cases b with
    | none => exact ⟨rfl, rfl, rfl, rfl⟩
    | some bytes =>
      cases hb : utilsConvert bytes with
      | none => simp only [step, hb, and_self]
      | some g => simp only [step, hb]; exact C11_frame cfg s g (hg g hb)
  | _ => exact ⟨rfl, rfl, rfl, rfl⟩

/-- … and for every history -/
theorem C11_frame_history (cfg : Cfg) (ops : List Op) (op : Op) (hi : op ≠ .init) (hc : op ≠ .clear)
    (hg : ∀ g, op.group? = some g → ¬ afr_Ecc1A g) :
    (run cfg (ops ++ [op])).used.ecc = (run cfg ops).used.ecc ∧
    (run cfg (ops ++ [op])).used.country = (run cfg ops).used.country ∧
    (run cfg (ops ++ [op])).temp.ecc = (run cfg ops).temp.ecc ∧
    (run cfg (ops ++ [op])).temp.country = (run cfg ops).temp.country := by
  rw [afr_run_snoc]
  exact C11_frame_step cfg _ op hi hc hg

/-- non-vacuity: a history in which ECC and country are known (0xE2, 7), followed by groups that fail the condition
in each of the five possible ways (other type; 1B; block B in error; block C in error; variant 1) although each
carries a different "ECC" byte and a different PI; and the 1A variant-0 group itself does change them -/
example :
    let g1 : Group := ⟨0x1234, 0x1000, 0x00E2, 0, 0, 0, 0, 0⟩
    (run afr_cfg [.parse g1]).used.ecc = 0xE2 ∧ (run afr_cfg [.parse g1]).used.country = 7 ∧
    ¬ afr_Ecc1A ⟨0xF234, 0x3000, 0x00A0, 0, 0, 0, 0, 0⟩ ∧ ¬ afr_Ecc1A ⟨0xF234, 0x1800, 0x00A0, 0, 0, 0, 0, 0⟩ ∧
    ¬ afr_Ecc1A ⟨0xF234, 0x1000, 0x00A0, 0, 0, 1, 0, 0⟩ ∧ ¬ afr_Ecc1A ⟨0xF234, 0x1000, 0x00A0, 0, 0, 0, 1, 0⟩ ∧
    ¬ afr_Ecc1A ⟨0xF234, 0x1000, 0x10A0, 0, 0, 0, 0, 0⟩ ∧
    afr_Ecc1A ⟨0xF234, 0x1000, 0x00A0, 0, 0, 0, 0, 0⟩ ∧
    (run afr_cfg [.parse g1, .parse ⟨0xF234, 0x1000, 0x00A0, 0, 0, 0, 0, 0⟩]).used.ecc = 0xA0 := by
  decide +kernel

/-! ## (c) C17: the settings calls touch nothing but their own key -/

/-- the calls of C17: the three setters, callback registration, user data, getters -/
def afr_SettingsOp : Op → Prop
  | .setExt _ | .setCorr _ _ _ | .setProg _ _ | .register _ _ | .userData _ | .getters => True
  | _ => False

/-- the ten keys, read through `ext` / `prog` / `corr`, determine the settings (the key view is complete) -/
theorem afr_settings_ext (a b : Settings) (he : a.ext = b.ext) (hp : ∀ t, a.prog t = b.prog t)
    (hk : ∀ t k, a.corr t k = b.corr t k) : a = b := by
  obtain ⟨a0, a1, a2, a3, a4, a5, a6, a7, a8, a9⟩ := a
  obtain ⟨b0, b1, b2, b3, b4, b5, b6, b7, b8, b9⟩ := b
  have p1 := hp .ps; have p2 := hp .rt; have p3 := hp .ptyn
  have k1 := hk .ps .info; have k2 := hk .ps .data; have k3 := hk .rt .info; have k4 := hk .rt .data
  have k5 := hk .ptyn .info; have k6 := hk .ptyn .data
  simp only [Settings.prog, Settings.corr] at he p1 p2 p3 k1 k2 k3 k4 k5 k6
  subst he p1 p2 p3 k1 k2 k3 k4 k5 k6
  rfl

/-- C17 frame, for ALL states: a settings / registration / user-data / getter call fires no callback, returns
`true`, and changes nothing of the decoded data — every component of the state other than `set`, `cbs`, `ud`
(visible and candidate scalars, AF bitmaps, PS, both RT buffers, PTYN, terminators, last RT flag) is unchanged. -/
theorem C17_settings_frame (cfg : Cfg) (s : State) (op : Op) (h : afr_SettingsOp op) :
    (step cfg s op).2.1 = [] ∧ (step cfg s op).2.2 = true ∧
    { (step cfg s op).1 with set := s.set, cbs := s.cbs, ud := s.ud } = s := by
  cases op <;> first | exact absurd h id | exact ⟨rfl, rfl, rfl⟩

/-- `set_extended_check v` changes only the key `ext` (to `v`): the six thresholds, the three progressive flags,
the registrations and the user data are unchanged -/
theorem C17_setExt_only (cfg : Cfg) (s : State) (v : Bool) :
    (step cfg s (.setExt v)).1.set.ext = v ∧
    (∀ t, (step cfg s (.setExt v)).1.set.prog t = s.set.prog t) ∧
    (∀ t k, (step cfg s (.setExt v)).1.set.corr t k = s.set.corr t k) ∧
    (step cfg s (.setExt v)).1.cbs = s.cbs ∧ (step cfg s (.setExt v)).1.ud = s.ud :=
  ⟨rfl, fun t => by cases t <;> rfl, fun t k => by cases t <;> cases k <;> rfl, rfl, rfl⟩

/-- `set_text_correction t k v` changes only the key `(t, k)` (to `min v 2`): the five other thresholds, the
progressive flags, the extended-check flag, the registrations and the user data are unchanged -/
theorem C17_setCorr_only (cfg : Cfg) (s : State) (t : TextId) (k : BlockType) (v : Nat) :
    (step cfg s (.setCorr t k v)).1.set.corr t k = min v 2 ∧
    (∀ t' k', (t', k') ≠ (t, k) → (step cfg s (.setCorr t k v)).1.set.corr t' k' = s.set.corr t' k') ∧
    (∀ t', (step cfg s (.setCorr t k v)).1.set.prog t' = s.set.prog t') ∧
    (step cfg s (.setCorr t k v)).1.set.ext = s.set.ext ∧
    (step cfg s (.setCorr t k v)).1.cbs = s.cbs ∧ (step cfg s (.setCorr t k v)).1.ud = s.ud := by
  refine ⟨?_, ?_, ?_, ?_, rfl, rfl⟩
  · cases t <;> cases k <;> rfl
  · intro t' k' hne
    cases t <;> cases k <;> cases t' <;> cases k' <;> first | rfl | exact absurd rfl hne
  · intro t'; cases t <;> cases k <;> cases t' <;> rfl
  · cases t <;> cases k <;> rfl

/-- `set_text_progressive t v` changes only the key `t` (to `v`) -/
theorem C17_setProg_only (cfg : Cfg) (s : State) (t : TextId) (v : Bool) :
    (step cfg s (.setProg t v)).1.set.prog t = v ∧
    (∀ t', t' ≠ t → (step cfg s (.setProg t v)).1.set.prog t' = s.set.prog t') ∧
    (∀ t' k', (step cfg s (.setProg t v)).1.set.corr t' k' = s.set.corr t' k') ∧
    (step cfg s (.setProg t v)).1.set.ext = s.set.ext ∧
    (step cfg s (.setProg t v)).1.cbs = s.cbs ∧ (step cfg s (.setProg t v)).1.ud = s.ud := by
  refine ⟨?_, ?_, ?_, ?_, rfl, rfl⟩
  · cases t <;> rfl
  · intro t' hne; cases t <;> cases t' <;> first | rfl | exact absurd rfl hne
  · intro t' k'; cases t <;> cases t' <;> cases k' <;> rfl
  · cases t <;> rfl

/-- registration, user data and getters do not touch any setting; registration changes only that callback's slot -/
theorem C17_other_keep_settings (cfg : Cfg) (s : State) :
    (∀ c on, (step cfg s (.register c on)).1.set = s.set ∧ (step cfg s (.register c on)).1.ud = s.ud ∧
      (step cfg s (.register c on)).1.cbs = s.cbs.set c.idx on) ∧
    (∀ n, (step cfg s (.userData n)).1.set = s.set ∧ (step cfg s (.userData n)).1.cbs = s.cbs ∧
      (step cfg s (.userData n)).1.ud = n) ∧
    (step cfg s .getters).1 = s :=
  ⟨fun _ _ => ⟨rfl, rfl, rfl⟩, fun _ => ⟨rfl, rfl, rfl⟩, rfl⟩

/-- … for every history: the decoded data after `ops ++ [op]` is that after `ops` -/
theorem C17_settings_frame_history (cfg : Cfg) (ops : List Op) (op : Op) (h : afr_SettingsOp op) :
    { run cfg (ops ++ [op]) with set := (run cfg ops).set, cbs := (run cfg ops).cbs, ud := (run cfg ops).ud }
      = run cfg ops := by
  rw [afr_run_snoc]
  exact (C17_settings_frame cfg _ op h).2.2

/-- non-vacuity: on a state full of decoded data each setter really changes its key (so the frame is not `s = s`),
and the clamp is visible -/
example :
    let g : Group := ⟨0x1234, 0x0408 ||| (5 <<< 5), 0x5A01, 0x4142, 0, 0, 0, 0⟩
    (run afr_cfg [.parse g, .setCorr .rt .data 200]).set.rtData = 2 ∧
    (run afr_cfg [.parse g, .setCorr .rt .data 200]) ≠ (run afr_cfg [.parse g]) ∧
    (run afr_cfg [.parse g, .setCorr .rt .data 200]).used.pi = 0x1234 ∧
    (run afr_cfg [.parse g, .setExt true]).set.ext = true ∧
    (run afr_cfg [.parse g, .setProg .ps true]).set.progPs = true := by
  decide +kernel

example : afr_SettingsOp (.setCorr .rt .data 200) ∧ afr_SettingsOp (.setExt true) ∧
    afr_SettingsOp (.setProg .ps true) ∧ afr_SettingsOp (.register .pi true) ∧ afr_SettingsOp (.userData 5) ∧
    afr_SettingsOp .getters := ⟨trivial, trivial, trivial, trivial, trivial, trivial⟩

/-! ## (d) C12: the 4A clock-time layout, specified bit by bit -/

/-- the number whose binary digits, MOST significant first, are `bs` -/
def afr_ofBits (bs : List Bool) : Nat := bs.foldl (fun acc b => 2 * acc + (if b then 1 else 0)) 0

/-- Group type 4A per IEC 62106 / EN 50067 §3.1.5.6, written with explicit bit tests (`X i` = bit `i` of the
16-bit block `X`, bit 0 least significant), independent of the `/`, `%` expressions of the model:
* Modified Julian Day, 17 bits: bits 1..0 of block B, then bits 15..1 of block C;
* hour, 5 bits: bit 0 of block C, then bits 15..12 of block D;
* minute, 6 bits: bits 11..6 of block D;
* local time offset: sense = bit 5 of block D (1 = negative), magnitude = bits 4..0 of block D, in half hours. -/
def ctFieldsSpec (g : Group) : Nat × Nat × Nat × Int :=
  let B := g.b.testBit
  let C := g.c.testBit
  let D := g.d.testBit
  let mjd := afr_ofBits [B 1, B 0, C 15, C 14, C 13, C 12, C 11, C 10, C 9, C 8, C 7, C 6, C 5, C 4, C 3, C 2, C 1]
  let hour := afr_ofBits [C 0, D 15, D 14, D 13, D 12]
  let minute := afr_ofBits [D 11, D 10, D 9, D 8, D 7, D 6]
  let mag : Int := (afr_ofBits [D 4, D 3, D 2, D 1, D 0] : Nat)
  (mjd, hour, minute, if D 5 then -mag else mag)

/-- the same layout with C-style shifts and masks -/
def afr_ctFieldsShift (g : Group) : Nat × Nat × Nat × Int :=
  let mag : Int := (g.d &&& 0x1F : Nat)
  (((g.b &&& 3) <<< 15) ||| ((g.c &&& 0xFFFF) >>> 1), ((g.c &&& 1) <<< 4) ||| ((g.d >>> 12) &&& 0xF),
   (g.d >>> 6) &&& 0x3F, if (g.d >>> 5) &&& 1 = 1 then -mag else mag)

theorem afr_bit (w i : Nat) : (if w.testBit i then 1 else 0) = w / 2 ^ i % 2 := by
  rw [Nat.testBit_eq_decide_div_mod_eq]
  by_cases h : w / 2 ^ i % 2 = 1
  · simp [h]
  · have : w / 2 ^ i % 2 = 0 := by omega
    simp [this]

theorem afr_foldl_init (ys : List Bool) : ∀ a : Nat,
    ys.foldl (fun acc b => 2 * acc + (if b then 1 else 0)) a
      = a * 2 ^ ys.length + ys.foldl (fun acc b => 2 * acc + (if b then 1 else 0)) 0 := by
  induction ys with
  | nil => intro a; simp
  | cons b ys ih =>
    intro a
    simp only [List.foldl_cons, List.length_cons]
    rw [ih (2 * a + _), ih (2 * 0 + _), Nat.pow_succ]
    generalize 2 ^ ys.length = p
    generalize (if b = true then 1 else 0) = x
    simp only [Nat.add_mul, Nat.mul_zero, Nat.zero_add, Nat.add_assoc]
    congr 1
    rw [Nat.mul_comm 2 a, Nat.mul_assoc, Nat.mul_comm 2 p]

/-- concatenating bit strings -/
theorem afr_ofBits_append (xs ys : List Bool) :
    afr_ofBits (xs ++ ys) = afr_ofBits xs * 2 ^ ys.length + afr_ofBits ys := by
  unfold afr_ofBits
  rw [List.foldl_append, afr_foldl_init]

theorem afr_ofBits_cons (b : Bool) (bs : List Bool) :
    afr_ofBits (b :: bs) = (if b then 1 else 0) * 2 ^ bs.length + afr_ofBits bs := by
  have e := afr_ofBits_append [b] bs
  simpa [afr_ofBits] using e

/-- bits `lo+n-1 .. lo` of `w`, most significant first -/
def afr_bitsOf (w lo n : Nat) : List Bool := (List.range n).reverse.map (fun i => w.testBit (lo + i))

theorem afr_bitsOf_length (w lo n : Nat) : (afr_bitsOf w lo n).length = n := by
  simp [afr_bitsOf]

/-- the value of the bit field `lo+n-1 .. lo` of `w` is `w / 2^lo % 2^n` -/
theorem afr_field (w lo : Nat) : ∀ n, afr_ofBits (afr_bitsOf w lo n) = w / 2 ^ lo % 2 ^ n := by
  intro n
  induction n with
  | zero => simp [afr_bitsOf, afr_ofBits, Nat.mod_one]
  | succ n ih =>
    unfold afr_bitsOf at ih ⊢
    simp only [List.range_succ, List.reverse_append, List.reverse_cons, List.reverse_nil, List.nil_append,
      List.singleton_append, List.map_cons]
    rw [afr_ofBits_cons, ih, List.length_map, List.length_reverse, List.length_range, afr_bit,
      Nat.mod_pow_succ, Nat.pow_add, ← Nat.div_div_eq_div_mul, Nat.add_comm, Nat.mul_comm]

theorem afr_arith_mjd (b c : Nat) :
    b / 1 % 4 * 32768 + c / 2 % 32768 = (b % 4) * 32768 + c % 65536 / 2 := by omega

theorem afr_arith_hour (c d : Nat) :
    c / 1 % 2 * 16 + d / 4096 % 16 = (c % 2) * 16 + d / 4096 % 16 := by omega

theorem afr_mjd_spec (b c : Nat) :
    afr_ofBits [b.testBit 1, b.testBit 0, c.testBit 15, c.testBit 14, c.testBit 13, c.testBit 12, c.testBit 11,
      c.testBit 10, c.testBit 9, c.testBit 8, c.testBit 7, c.testBit 6, c.testBit 5, c.testBit 4, c.testBit 3,
      c.testBit 2, c.testBit 1] = (b % 4) * 32768 + c % 65536 / 2 := by
  show afr_ofBits (afr_bitsOf b 0 2 ++ afr_bitsOf c 1 15) = _
  rw [afr_ofBits_append, afr_field, afr_field, afr_bitsOf_length]
  exact afr_arith_mjd b c

theorem afr_hour_spec (c d : Nat) :
    afr_ofBits [c.testBit 0, d.testBit 15, d.testBit 14, d.testBit 13, d.testBit 12]
      = (c % 2) * 16 + d / 4096 % 16 := by
  show afr_ofBits (afr_bitsOf c 0 1 ++ afr_bitsOf d 12 4) = _
  rw [afr_ofBits_append, afr_field, afr_field, afr_bitsOf_length]
  exact afr_arith_hour c d

theorem afr_minute_spec (d : Nat) :
    afr_ofBits [d.testBit 11, d.testBit 10, d.testBit 9, d.testBit 8, d.testBit 7, d.testBit 6] = d / 64 % 64 :=
  afr_field d 6 6

theorem afr_mag_spec (d : Nat) :
    afr_ofBits [d.testBit 4, d.testBit 3, d.testBit 2, d.testBit 1, d.testBit 0] = d % 32 := by
  have e := afr_field d 0 5
  rw [Nat.pow_zero, Nat.div_one] at e
  exact e

theorem afr_sign_spec (d : Nat) : d.testBit 5 = decide (d / 32 % 2 = 1) := by
  rw [Nat.testBit_eq_decide_div_mod_eq]

/-- the specification, computed: identical to the model's expressions except that block C is read modulo 2^16
(the specification looks at bits 15..0 only) -/
theorem afr_ctFieldsSpec_eq (g : Group) :
    ctFieldsSpec g =
      ((g.b % 4) * 32768 + g.c % 65536 / 2, (g.c % 2) * 16 + g.d / 4096 % 16, g.d / 64 % 64,
       if g.d / 32 % 2 = 1 then -((g.d % 32 : Nat) : Int) else ((g.d % 32 : Nat) : Int)) := by
  simp only [ctFieldsSpec, afr_mjd_spec, afr_hour_spec, afr_minute_spec, afr_mag_spec]
  rw [afr_sign_spec g.d]
  simp only [decide_eq_true_eq]

/-- C12 layout: the model's `ctFields` IS the bit layout of the standard, for every block B and D (arbitrary
naturals) and every 16-bit block C. -/
theorem ctFields_spec (g : Group) (hc : g.c < 65536) : ctFields g = ctFieldsSpec g := by
  rw [afr_ctFieldsSpec_eq, Nat.mod_eq_of_lt hc]
  rfl

/-- … and without any bound: on the blocks reduced modulo 2^16 (what a `uint16_t` holds) -/
theorem ctFields_spec_mod (g : Group) :
    ctFields { g with b := g.b % 65536, c := g.c % 65536, d := g.d % 65536 } = ctFieldsSpec g := by
  rw [afr_ctFieldsSpec_eq]
  simp only [ctFields]
  have e1 : g.b % 65536 % 4 = g.b % 4 := by omega
  have e2 : g.c % 65536 % 2 = g.c % 2 := by omega
  have e3 : g.d % 65536 / 4096 % 16 = g.d / 4096 % 16 := by omega
  have e4 : g.d % 65536 / 64 % 64 = g.d / 64 % 64 := by omega
  have e5 : g.d % 65536 / 32 % 2 = g.d / 32 % 2 := by omega
  have e6 : g.d % 65536 % 32 = g.d % 32 := by omega
  rw [e1, e2, e3, e4, e5, e6]

/-- the specification itself only depends on the low 16 bits of each block -/
theorem afr_ctFieldsSpec_mod (g : Group) :
    ctFieldsSpec { g with b := g.b % 65536, c := g.c % 65536, d := g.d % 65536 } = ctFieldsSpec g := by
  rw [← ctFields_spec_mod g, ← ctFields_spec_mod]
  simp only [Nat.mod_mod]

/-- the bound on block C in `ctFields_spec` is needed: the model's `g.c / 2` is not masked (immaterial for the
library, whose blocks are `uint16_t`; `Group` fields are unbounded only for convenience) -/
theorem afr_ctFields_spec_needs_bound :
    ctFields ⟨0, 0, 131072, 0, 0, 0, 0, 0⟩ ≠ ctFieldsSpec ⟨0, 0, 131072, 0, 0, 0, 0, 0⟩ := by decide

/-- the shift/mask form agrees with the bit-test form for all naturals -/
theorem afr_ctFieldsShift_eq (g : Group) : afr_ctFieldsShift g = ctFieldsSpec g := by
  rw [afr_ctFieldsSpec_eq]
  unfold afr_ctFieldsShift
  have m3 : g.b &&& 3 = g.b % 4 := Nat.and_two_pow_sub_one_eq_mod g.b 2
  have mF : g.c &&& 0xFFFF = g.c % 65536 := Nat.and_two_pow_sub_one_eq_mod g.c 16
  have m1 : g.c &&& 1 = g.c % 2 := Nat.and_two_pow_sub_one_eq_mod g.c 1
  have m15 : (g.d >>> 12) &&& 0xF = g.d / 4096 % 16 := by
    rw [Nat.shiftRight_eq_div_pow]; exact Nat.and_two_pow_sub_one_eq_mod _ 4
  have m63 : (g.d >>> 6) &&& 0x3F = g.d / 64 % 64 := by
    rw [Nat.shiftRight_eq_div_pow]; exact Nat.and_two_pow_sub_one_eq_mod _ 6
  have ms : (g.d >>> 5) &&& 1 = g.d / 32 % 2 := by
    rw [Nat.shiftRight_eq_div_pow]; exact Nat.and_two_pow_sub_one_eq_mod _ 1
  have m31 : g.d &&& 0x1F = g.d % 32 := Nat.and_two_pow_sub_one_eq_mod g.d 5
  have o1 : ((g.b % 4) <<< 15) ||| ((g.c % 65536) >>> 1) = (g.b % 4) * 32768 + g.c % 65536 / 2 := by
    rw [Nat.shiftRight_eq_div_pow, ← Nat.shiftLeft_add_eq_or_of_lt (by omega), Nat.shiftLeft_eq]
  have o2 : ((g.c % 2) <<< 4) ||| (g.d / 4096 % 16) = (g.c % 2) * 16 + g.d / 4096 % 16 := by
    rw [← Nat.shiftLeft_add_eq_or_of_lt (by omega), Nat.shiftLeft_eq]
  simp only [m3, mF, m1, m15, m63, ms, m31, o1, o2]

/-- non-vacuity / sanity: the standard's worked layout on a concrete 4A group — MJD 60275 = 0b0_1110_1011_0111_0011,
23:45 UTC, offset -1.5 h: B = 0x4401 (low bits 01), C = 0xD6E7 (MJD bits 15..1 + hour msb 1), D = 0x7B63 -/
example : ctFieldsSpec ⟨0, 0x4401, 0xD6E7, 0x7B63, 0, 0, 0, 0⟩ = (60275, 23, 45, -3) ∧
    ctFields ⟨0, 0x4401, 0xD6E7, 0x7B63, 0, 0, 0, 0⟩ = (60275, 23, 45, -3) ∧
    (0xD6E7 : Nat) < 65536 := by decide

end RDS

#print axioms RDS.C01_never_unknown_step
#print axioms RDS.C01_never_unknown_getter
#print axioms RDS.C01_never_unknown_getter_suffix
#print axioms RDS.C11_frame
#print axioms RDS.C11_frame_step
#print axioms RDS.C11_frame_history
#print axioms RDS.C17_settings_frame
#print axioms RDS.C17_setExt_only
#print axioms RDS.C17_setCorr_only
#print axioms RDS.C17_setProg_only
#print axioms RDS.C17_other_keep_settings
#print axioms RDS.C17_settings_frame_history
#print axioms RDS.ctFields_spec
#print axioms RDS.ctFields_spec_mod
#print axioms RDS.afr_ctFieldsShift_eq
