import RdsProofs.C04Stages
/-!
# RdsProofs.C04Handlers — `HOk` for `groupCommon`, the group handlers, `dispatch` and `process`
-/
namespace RDS

def TC : List Comp := [.sc .pi, .sc .pty, .sc .tp]
def TD : List Comp := [.sc .ta, .sc .ms, .sc .ecc, .sc .country, .af, .ps, .rt0, .rt1, .ptyn]

theorem HOk_groupCommon (s : State) (g : Group) : HOk TC [] s (groupCommon s g) := by
  have h1 : HOk [.sc .pi] [] s (if g.ea = 0 then setField s .pi g.a else (s, [])) := by
    split
    · exact HOk_setField ..
    · exact HOk_mono (HOk_id s) (by rfl)
  unfold groupCommon
  simp only
  split
  · have h2 := HOk_setField (if g.ea = 0 then setField s .pi g.a else (s, [])).1 .pty (g.b / 32 % 32 : Nat)
    have h12 := HOk_seq h1 h2 (by rfl)
    have h3 := HOk_setField (setField (if g.ea = 0 then setField s .pi g.a else (s, [])).1 .pty (g.b / 32 % 32 : Nat)).1
      .tp (g.b / 1024 % 2 : Nat)
    exact HOk_seq h12 h3 (by rfl)
  · exact HOk_mono h1 (by rfl)

theorem HOk_group1 (cfg : Cfg) (s : State) (g : Group) :
    HOk [.sc .ecc, .sc .country] [] s (group1 cfg s g) := by
  unfold group1
  split
  · exact HOk_seq (HOk_setField s .ecc _) (HOk_setField _ .country _) (by rfl)
  · exact HOk_mono (HOk_id s) (by rfl)

theorem HOk_group0 (cfg : Cfg) (s : State) (g : Group) (hlen : s.used.af.length = afBits) :
    HOk [.sc .ta, .sc .ms, .ps, .af] [] s (group0 cfg s g) := by
  have h1 : HOk [.sc .ta, .sc .ms] [] s
      (if g.eb = 0 then
        ((setField (setField s .ta (g.b / 16 % 2 : Nat)).1 .ms (g.b / 8 % 2 : Nat)).1,
          (setField s .ta (g.b / 16 % 2 : Nat)).2 ++
            (setField (setField s .ta (g.b / 16 % 2 : Nat)).1 .ms (g.b / 8 % 2 : Nat)).2)
       else (s, [])) := by
    split
    · exact HOk_seq (HOk_setField s .ta _) (HOk_setField _ .ms _) (by rfl)
    · exact HOk_mono (HOk_id s) (by rfl)
  unfold group0
  simp only
  generalize (if g.eb = 0 then
        ((setField (setField s .ta (g.b / 16 % 2 : Nat)).1 .ms (g.b / 8 % 2 : Nat)).1,
          (setField s .ta (g.b / 16 % 2 : Nat)).2 ++
            (setField (setField s .ta (g.b / 16 % 2 : Nat)).1 .ms (g.b / 8 % 2 : Nat)).2)
       else (s, [])) = r1 at h1 ⊢
  have h2 := HOk_psStage cfg r1.1 g.d g.eb g.ed (2 * (g.b % 4))
  have h12 := HOk_seq h1 h2 (by rfl)
  split
  · have hl : ({ r1.1 with ps := (parserUpdate cfg r1.1.set r1.1.ps .ps g.d g.eb g.ed (2 * (g.b % 4))).1 } : State).used.af.length
        = afBits := by
      have := h1.touch .af (by decide)
      simp only [Comp.view, CV.b.injEq] at this
      show r1.1.used.af.length = afBits
      rw [this]; exact hlen
    have h3 := HOk_afPair _ (g.c / 256 % 256) (g.c % 256) hl
    have h := HOk_seq h12 h3 (by rfl)
    simp only [List.append_assoc] at h ⊢
    exact h
  · exact HOk_mono h12 (by rfl)


/-- the components forced to notify by `dispatch`: the A/B switch of a type-2 group -/
def forcedOf (s : State) (g : Group) : List Comp :=
  if g.type = 2 ∧ clr2 s g = true then [rtComp g] else []

theorem rtComp_mem_TD (g : Group) : ([rtComp g].all fun X => TD.contains X) = true := by
  unfold rtComp; split <;> rfl

theorem HOk_dispatch (cfg : Cfg) (s : State) (g : Group) (hlen : s.used.af.length = afBits) :
    HOk TD (forcedOf s g) s (dispatch cfg s g) := by
  unfold dispatch forcedOf
  by_cases h2 : g.type = 2
  · have e : (if g.type = 2 ∧ clr2 s g = true then [rtComp g] else []) =
        (if clr2 s g = true then [rtComp g] else []) := by simp [h2]
    rw [e]
    simp only [h2, if_true, (by decide : ¬ (2 = 0)), (by decide : ¬ (2 = 1)), if_false]
    exact HOk_mono (HOk_group2 cfg s g) (rtComp_mem_TD g)
  · rw [if_neg (fun h => h2 h.1), if_neg h2]
    split
    · exact HOk_mono (HOk_group0 cfg s g hlen) (by rfl)
    split
    · exact HOk_mono (HOk_group1 cfg s g) (by rfl)
    split
    · exact HOk_mono (HOk_group4 s g) (by rfl)
    split
    · exact HOk_mono (HOk_group10 cfg s g) (by rfl)
    · exact HOk_mono (HOk_id s) (by rfl)

theorem groupCommon_frame (s : State) (g : Group) :
    (groupCommon s g).1.lastRt = s.lastRt ∧ (groupCommon s g).1.rt0 = s.rt0 ∧
    (groupCommon s g).1.rt1 = s.rt1 ∧ (groupCommon s g).1.used.af = s.used.af ∧
    (groupCommon s g).1.set = s.set ∧ (groupCommon s g).1.cbs = s.cbs := by
  unfold groupCommon
  simp only
  split <;> split <;> simp

theorem clr2_groupCommon (s : State) (g : Group) : clr2 (groupCommon s g).1 g = clr2 s g := by
  obtain ⟨a, b, c, _⟩ := groupCommon_frame s g
  simp [clr2, State.rt, a, b, c]

theorem HOk_process (cfg : Cfg) (s : State) (g : Group) (hlen : s.used.af.length = afBits) :
    HOk (TC ++ TD) (forcedOf s g) s (process cfg s g) := by
  have h1 := HOk_groupCommon s g
  have hl : (groupCommon s g).1.used.af.length = afBits := by
    rw [(groupCommon_frame s g).2.2.2.1]; exact hlen
  have h2 := HOk_dispatch cfg (groupCommon s g).1 g hl
  have h := HOk_seq h1 h2 (by rfl)
  have e : forcedOf (groupCommon s g).1 g = forcedOf s g := by
    simp [forcedOf, clr2_groupCommon]
  rw [e] at h
  exact h

end RDS
