import RdsProofs.Reentrant
import RdsProofs.C15Proofs
/-!
# RdsProofs.ReentrantObs — handlers that only touch registrations and user data (partial)

Full statement aimed at: for every handler `h` with `∀ e s, erase (h e s).1 = erase s` (it changes nothing but the registration
table and the user data, whatever callbacks it registers or removes from inside the call),
`erase (processH cfg h s g).1 = erase (process cfg s g).1` — the nested-call form of C15's "who listens does not influence
what is decoded". Proved so far (`…_erase`, each in the congruence form `erase s = erase t → …`): `setFieldH`, `addAfH`,
`groupCommonH` (PI/PTY/TP), `group1H` (ECC and country, including the PI read after the ECC callback), `group4H`, `group10H`.
Missing: `group0H`, `group2H` and hence `processH` (the straightforward script times out in `whnf`; not finished).
-/
namespace RDS

/-- a handler that touches nothing but the registration table and the user data, and makes no API call that invokes callbacks -/
def Handler.ObserverOnly (h : Handler) : Prop := ∀ e s, erase (h e s).1 = erase s

theorem erase_fields {s t : State} (h : erase s = erase t) :
    s.used = t.used ∧ s.temp = t.temp ∧ s.set = t.set ∧ s.ps = t.ps ∧ s.rt0 = t.rt0 ∧ s.rt1 = t.rt1 ∧ s.ptyn = t.ptyn ∧
    s.lastRt = t.lastRt := by
  cases s; cases t; simp only [erase, State.mk.injEq] at h; simp_all

theorem emitH_erase (h : Handler) (ho : h.ObserverOnly) (s : State) (c : Cb) (k : EvKind) :
    erase (emitH h s c k).1 = erase s := by
  unfold emitH; split
  · exact ho _ _
  · rfl

theorem setFieldH_erase (h : Handler) (ho : h.ObserverOnly) {s t : State} (hst : erase s = erase t) (f : Fld) (v : Int) :
    erase (setFieldH h s f v).1 = erase (setField t f v).1 := by
  obtain ⟨hu, ht, hs, _⟩ := erase_fields hst
  unfold setFieldH setField
  simp only []
  split
  · rw [emitH_erase h ho]; cases s; cases t; simp only [erase, State.mk.injEq] at hst ⊢; simp_all
  · cases s; cases t; simp only [erase, State.mk.injEq] at hst ⊢; simp_all


theorem erase_with_congr {s t : State} (hst : erase s = erase t) (f : State → State)
    (hf : ∀ x : State, erase (f x) = erase (f (erase x))) : erase (f s) = erase (f t) := by
  rw [hf s, hf t, hst]

theorem addAfH_erase (h : Handler) (ho : h.ObserverOnly) {s t : State} (hst : erase s = erase t) (v : Nat) :
    erase (addAfH h s v).1 = erase (addAf t v).1 := by
  obtain ⟨hu, ht, hs, _⟩ := erase_fields hst
  unfold addAfH addAf
  simp only [hu, ht, hs]
  split
  · exact hst
  · split
    · cases s; cases t; simp only [erase, State.mk.injEq] at hst ⊢; simp_all
    · simp only []
      split
      · rw [emitH_erase h ho]; cases s; cases t; simp only [erase, State.mk.injEq] at hst ⊢; simp_all
      · cases s; cases t; simp only [erase, State.mk.injEq] at hst ⊢; simp_all

theorem groupCommonH_erase (h : Handler) (ho : h.ObserverOnly) {s t : State} (hst : erase s = erase t) (g : Group) :
    erase (groupCommonH h s g).1 = erase (groupCommon t g).1 := by
  unfold groupCommonH groupCommon
  simp only []
  have h1 : erase (if g.ea = 0 then setFieldH h s .pi g.a else (s, [])).1 =
      erase (if g.ea = 0 then setField t .pi g.a else (t, [])).1 := by
    split
    · exact setFieldH_erase h ho hst _ _
    · exact hst
  split
  · exact setFieldH_erase h ho (setFieldH_erase h ho h1 _ _) _ _
  · exact h1


theorem group1H_erase (cfg : Cfg) (h : Handler) (ho : h.ObserverOnly) {s t : State} (hst : erase s = erase t) (g : Group) :
    erase (group1H cfg h s g).1 = erase (group1 cfg t g).1 := by
  unfold group1H group1
  split
  · simp only []
    have h1 := setFieldH_erase h ho hst .ecc (g.c % 256 : Nat)
    have hpi : (setFieldH h s .ecc (g.c % 256 : Nat)).1.used.pi = (setField t .ecc (g.c % 256 : Nat)).1.used.pi := by
      rw [(erase_fields h1).1]
    rw [hpi]
    exact setFieldH_erase h ho h1 _ _
  · exact hst

theorem group4H_erase (h : Handler) (ho : h.ObserverOnly) (s : State) (g : Group) :
    erase (group4H h s g).1 = erase s := by
  unfold group4H
  split
  · simp only []
    split
    · exact emitH_erase h ho _ _ _
    · rfl
  · rfl

theorem group4_state (s : State) (g : Group) : (group4 s g).1 = s := by
  unfold group4; split
  · simp only []
    split <;> rfl
  · rfl

theorem group10H_erase (cfg : Cfg) (h : Handler) (ho : h.ObserverOnly) {s t : State} (hst : erase s = erase t) (g : Group) :
    erase (group10H cfg h s g).1 = erase (group10 cfg t g).1 := by
  obtain ⟨hu, ht, hs, hps, h0, h1, hpt, hl⟩ := erase_fields hst
  unfold group10H group10
  simp only [hs, hpt]
  split
  · split
    · rw [emitH_erase h ho]; cases s; cases t; simp only [erase, State.mk.injEq] at hst ⊢; simp_all
    · cases s; cases t; simp only [erase, State.mk.injEq] at hst ⊢; simp_all
  · exact hst

end RDS
