import RdsProofs.Reentrant
import RdsProofs.C15Proofs
/-!
# RdsProofs.ReentrantObs — handlers that only touch registrations and user data 

Full statement aimed at: for every handler `h` with `∀ e s, erase (h e s).1 = erase s` (it changes nothing but the registration
table and the user data, whatever callbacks it registers or removes from inside the call),
`erase (processH cfg h s g).1 = erase (process cfg s g).1` — the nested-call form of C15's "who listens does not influence
what is decoded". Proved so far (`…_erase`, each in the congruence form `erase s = erase t → …`): `setFieldH`, `addAfH`,
`groupCommonH` (PI/PTY/TP), `group0H` (TA/MS, PS, AF), `group1H` (ECC and country, including the PI read after the ECC
callback), `group2H`, `group4H`, `group10H`, `dispatchH`, and the statement itself: `processH_erase`, `stepH_erase`.
`handlerOfMode_observerOnly`: the harness modes `ri 1000..4999` are such handlers (non-vacuity).
-/
namespace RDS

/-- a handler that touches nothing but the registration table and the user data, and makes no API call that invokes callbacks -/
def Handler.ObserverOnly (h : Handler) : Prop := ∀ e s, erase (h e s).1 = erase s

theorem erase_fields_eq {s t : State} (h : erase s = erase t) :
    s.used = t.used ∧ s.temp = t.temp ∧ s.set = t.set ∧ s.ps = t.ps ∧ s.rt0 = t.rt0 ∧ s.rt1 = t.rt1 ∧ s.ptyn = t.ptyn ∧
    s.lastRt = t.lastRt := by
  cases s; cases t; simp only [erase, State.mk.injEq] at h; simp_all

theorem emitH_erase (h : Handler) (ho : h.ObserverOnly) (s : State) (c : Cb) (k : EvKind) :
    erase (emitH h s c k).1 = erase s := by
  unfold emitH; split
  · exact ho _ _
  · rfl

theorem setFieldH_erase (h : Handler) (ho : h.ObserverOnly) {s t : State} (hst : erase s = erase t) (f : Fld) (v : Int) :
    erase (setFieldH h s f v).1 = erase (setField t f v).1 := by
  obtain ⟨hu, ht, hs, _⟩ := erase_fields_eq hst
  unfold setFieldH setField
  simp only []
  split
  · rw [emitH_erase h ho]; cases s; cases t; simp only [erase, State.mk.injEq] at hst ⊢; simp_all
  · cases s; cases t; simp only [erase, State.mk.injEq] at hst ⊢; simp_all


theorem erase_with_congr {s t : State} (hst : erase s = erase t) (f : State → State)
    (hf : ∀ x : State, erase (f x) = erase (f (erase x))) : erase (f s) = erase (f t) := by
  rw [hf s, hf t, hst]

theorem addAfH_erase (h : Handler) (ho : h.ObserverOnly) {s t : State} (hst : erase s = erase t) (v : Nat) :
    erase (addAfH h s v).1 = erase (addAf t v).1 := by
  obtain ⟨hu, ht, hs, _⟩ := erase_fields_eq hst
  unfold addAfH addAf
  simp only [hu, ht, hs]
  split
  · exact hst
  · split
    · cases s; cases t; simp only [erase, State.mk.injEq] at hst ⊢; simp_all
    · simp only []
      split
      · rw [emitH_erase h ho]; cases s; cases t; simp only [erase, State.mk.injEq] at hst ⊢; simp_all
      · cases s; cases t; simp only [erase, State.mk.injEq] at hst ⊢; simp_all

theorem groupCommonH_erase (h : Handler) (ho : h.ObserverOnly) {s t : State} (hst : erase s = erase t) (g : Group) :
    erase (groupCommonH h s g).1 = erase (groupCommon t g).1 := by
  unfold groupCommonH groupCommon
  simp only []
  have h1 : erase (if g.ea = 0 then setFieldH h s .pi g.a else (s, [])).1 =
      erase (if g.ea = 0 then setField t .pi g.a else (t, [])).1 := by
    split
    · exact setFieldH_erase h ho hst _ _
    · exact hst
  split
  · exact setFieldH_erase h ho (setFieldH_erase h ho h1 _ _) _ _
  · exact h1


theorem group1H_erase (cfg : Cfg) (h : Handler) (ho : h.ObserverOnly) {s t : State} (hst : erase s = erase t) (g : Group) :
    erase (group1H cfg h s g).1 = erase (group1 cfg t g).1 := by
  unfold group1H group1
  split
  · simp only []
    have h1 := setFieldH_erase h ho hst .ecc (g.c % 256 : Nat)
    have hpi : (setFieldH h s .ecc (g.c % 256 : Nat)).1.used.pi = (setField t .ecc (g.c % 256 : Nat)).1.used.pi := by
      rw [(erase_fields_eq h1).1]
    rw [hpi]
    exact setFieldH_erase h ho h1 _ _
  · exact hst

theorem group4H_erase (h : Handler) (ho : h.ObserverOnly) (s : State) (g : Group) :
    erase (group4H h s g).1 = erase s := by
  unfold group4H
  split
  · simp only []
    split
    · exact emitH_erase h ho _ _ _
    · rfl
  · rfl

theorem group4_state_same (s : State) (g : Group) : (group4 s g).1 = s := by
  unfold group4; split
  · simp only []
    split <;> rfl
  · rfl

theorem group10H_erase (cfg : Cfg) (h : Handler) (ho : h.ObserverOnly) {s t : State} (hst : erase s = erase t) (g : Group) :
    erase (group10H cfg h s g).1 = erase (group10 cfg t g).1 := by
  obtain ⟨hu, ht, hs, hps, h0, h1, hpt, hl⟩ := erase_fields_eq hst
  unfold group10H group10
  simp only [hs, hpt]
  split
  · split
    · rw [emitH_erase h ho]; cases s; cases t; simp only [erase, State.mk.injEq] at hst ⊢; simp_all
    · cases s; cases t; simp only [erase, State.mk.injEq] at hst ⊢; simp_all
  · exact hst

theorem erase_setPs_congr {s t : State} (hst : erase s = erase t) (p : Text) :
    erase { s with ps := p } = erase { t with ps := p } := by
  cases s; cases t; simp only [erase, State.mk.injEq] at hst ⊢; simp_all

def nc_g0psH (cfg : Cfg) (h : Handler) (r : State) (g : Group) : State :=
  let u := parserUpdate cfg r.set r.ps .ps g.d g.eb g.ed (2 * (g.b % 4))
  (if u.2 then emitH h { r with ps := u.1 } .ps .ps else ({ r with ps := u.1 }, [])).1

def nc_g0ps (cfg : Cfg) (r : State) (g : Group) : State :=
  { r with ps := (parserUpdate cfg r.set r.ps .ps g.d g.eb g.ed (2 * (g.b % 4))).1 }

def nc_g0afH (h : Handler) (e : State) (g : Group) : State :=
  if !g.versionB && g.eb = 0 && g.ec = 0 && g.c / 256 % 256 != 250 then
    (addAfH h (addAfH h e (g.c / 256 % 256)).1 (g.c % 256)).1
  else e

def nc_g0af (e : State) (g : Group) : State :=
  if !g.versionB && g.eb = 0 && g.ec = 0 && g.c / 256 % 256 != 250 then
    (addAf (addAf e (g.c / 256 % 256)).1 (g.c % 256)).1
  else e

theorem nc_g0ps_erase (cfg : Cfg) (h : Handler) (ho : h.ObserverOnly) {r q : State} (hrq : erase r = erase q) (g : Group) :
    erase (nc_g0psH cfg h r g) = erase (nc_g0ps cfg q g) := by
  obtain ⟨_, _, hs, hps, _⟩ := erase_fields_eq hrq
  unfold nc_g0psH nc_g0ps
  simp only [hs, hps]
  split
  · rw [emitH_erase h ho]; cases r; cases q; simp only [erase, State.mk.injEq] at hrq ⊢; simp_all
  · cases r; cases q; simp only [erase, State.mk.injEq] at hrq ⊢; simp_all

theorem nc_g0af_erase (h : Handler) (ho : h.ObserverOnly) {e s2 : State} (h3 : erase e = erase s2) (g : Group) :
    erase (nc_g0afH h e g) = erase (nc_g0af s2 g) := by
  unfold nc_g0afH nc_g0af
  split
  · exact addAfH_erase h ho (addAfH_erase h ho h3 _) _
  · exact h3

theorem group0H_eq_g0tail (cfg : Cfg) (h : Handler) (s : State) (g : Group) :
    (group0H cfg h s g).1 = nc_g0afH h (nc_g0psH cfg h (if g.eb = 0 then (setFieldH h (setFieldH h s .ta (g.b / 16 % 2 : Nat)).1 .ms (g.b / 8 % 2 : Nat)).1 else s) g) g := by
  unfold group0H nc_g0afH nc_g0psH
  simp only []
  split <;> split <;> rfl

theorem group0_eq_g0tail (cfg : Cfg) (s : State) (g : Group) :
    (group0 cfg s g).1 = nc_g0af (nc_g0ps cfg (if g.eb = 0 then (setField (setField s .ta (g.b / 16 % 2 : Nat)).1 .ms (g.b / 8 % 2 : Nat)).1 else s) g) g := by
  unfold group0 nc_g0af nc_g0ps
  simp only []
  split <;> split <;> rfl

theorem group0H_erase (cfg : Cfg) (h : Handler) (ho : h.ObserverOnly) {s t : State} (hst : erase s = erase t) (g : Group) :
    erase (group0H cfg h s g).1 = erase (group0 cfg t g).1 := by
  rw [group0H_eq_g0tail, group0_eq_g0tail]
  apply nc_g0af_erase h ho
  apply nc_g0ps_erase cfg h ho
  split
  · exact setFieldH_erase h ho (setFieldH_erase h ho hst _ _) _ _
  · exact hst

theorem erase_setRt_congr {s t : State} (hst : erase s = erase t) (fl : Nat) (x : Text) :
    erase (s.setRt fl x) = erase (t.setRt fl x) := by
  unfold State.setRt
  split <;> (cases s; cases t; simp only [erase, State.mk.injEq] at hst ⊢; simp_all)

theorem erase_setLast_congr {s t : State} (hst : erase s = erase t) (v : Int) :
    erase { s with lastRt := v } = erase { t with lastRt := v } := by
  cases s; cases t; simp only [erase, State.mk.injEq] at hst ⊢; simp_all

theorem erase_rt_congr {s t : State} (hst : erase s = erase t) (fl : Nat) : s.rt fl = t.rt fl := by
  obtain ⟨_, _, _, _, h0, h1, _, _⟩ := erase_fields_eq hst
  unfold State.rt; rw [h0, h1]

def nc_g2clr (s : State) (g : Group) : Bool :=
  (g.eb = 0 && (((g.b / 16 % 2 : Nat) : Int) != s.lastRt)) && s.lastRt != -1 && getAvailable (s.rt (g.b / 16 % 2))

def nc_g2pre (s : State) (g : Group) : State :=
  let flag := g.b / 16 % 2
  let sw := g.eb = 0 && ((flag : Int) != s.lastRt)
  let clr := sw && s.lastRt != -1 && getAvailable (s.rt flag)
  let s1 := if clr then s.setRt flag (s.rt flag).cleared else s
  if sw then { s1 with lastRt := flag } else s1

def nc_g2restH (cfg : Cfg) (h : Handler) (clr : Bool) (s2 : State) (g : Group) : State × List Event :=
  let flag := g.b / 16 % 2
  let pos := g.b % 16
  if g.eb != 0 && (flag : Int) != s2.lastRt && s2.lastRt != -1 then (s2, [])
  else
    let u1 := if !g.versionB
      then parserUpdate cfg s2.set (s2.rt flag) .rt g.c g.eb g.ec (4 * pos)
      else (s2.rt flag, false)
    let pos2 := if !g.versionB then 4 * pos + 2 else 2 * pos
    let u2 := parserUpdate cfg s2.set u1.1 .rt g.d g.eb g.ed pos2
    let s3 := s2.setRt flag u2.1
    if clr || u1.2 || u2.2 then emitH h s3 .rt (.rt flag) else (s3, [])

theorem group2H_eq_g2rest (cfg : Cfg) (h : Handler) (s : State) (g : Group) :
    group2H cfg h s g = nc_g2restH cfg h (nc_g2clr s g) (nc_g2pre s g) g := rfl

theorem group2_eq_g2rest (cfg : Cfg) (s : State) (g : Group) :
    (group2 cfg s g).1 = (nc_g2restH cfg Handler.noop (nc_g2clr s g) (nc_g2pre s g) g).1 := by
  rw [← group2H_eq_g2rest, group2H_noop]

theorem nc_g2clr_congr {s t : State} (hst : erase s = erase t) (g : Group) : nc_g2clr s g = nc_g2clr t g := by
  obtain ⟨_, _, _, _, _, _, _, hl⟩ := erase_fields_eq hst
  unfold nc_g2clr; rw [hl, erase_rt_congr hst]

theorem nc_g2pre_erase {s t : State} (hst : erase s = erase t) (g : Group) : erase (nc_g2pre s g) = erase (nc_g2pre t g) := by
  obtain ⟨_, _, _, _, _, _, _, hl⟩ := erase_fields_eq hst
  unfold nc_g2pre
  simp only [hl, erase_rt_congr hst]
  have h1 : erase (if (decide (g.eb = 0) && ((g.b / 16 % 2 : Nat) : Int) != t.lastRt && t.lastRt != -1 &&
        getAvailable (t.rt (g.b / 16 % 2))) = true then s.setRt (g.b / 16 % 2) (t.rt (g.b / 16 % 2)).cleared else s) =
      erase (if (decide (g.eb = 0) && ((g.b / 16 % 2 : Nat) : Int) != t.lastRt && t.lastRt != -1 &&
        getAvailable (t.rt (g.b / 16 % 2))) = true then t.setRt (g.b / 16 % 2) (t.rt (g.b / 16 % 2)).cleared else t) := by
    split
    · exact erase_setRt_congr hst _ _
    · exact hst
  split
  · exact erase_setLast_congr h1 _
  · exact h1

theorem nc_tailEmit_erase (h h' : Handler) (ho : h.ObserverOnly) (ho' : h'.ObserverOnly) (c : Bool) {a b : State}
    (hab : erase a = erase b) (cb : Cb) (k : EvKind) :
    erase (if c = true then emitH h a cb k else (a, [])).1 = erase (if c = true then emitH h' b cb k else (b, [])).1 := by
  cases c
  · exact hab
  · simp only [if_true]; rw [emitH_erase h ho, emitH_erase h' ho']; exact hab

theorem nc_g2rest_erase (cfg : Cfg) (h h' : Handler) (ho : h.ObserverOnly) (ho' : h'.ObserverOnly) (clr : Bool) {s2 t2 : State}
    (hst : erase s2 = erase t2) (g : Group) :
    erase (nc_g2restH cfg h clr s2 g).1 = erase (nc_g2restH cfg h' clr t2 g).1 := by
  obtain ⟨_, _, hs, _, _, _, _, hl⟩ := erase_fields_eq hst
  unfold nc_g2restH
  simp only [hl, hs, erase_rt_congr hst]
  split
  · exact hst
  · exact nc_tailEmit_erase h h' ho ho' _ (erase_setRt_congr hst _ _) _ _

theorem nc_noop_observerOnly : Handler.noop.ObserverOnly := fun _ _ => rfl

theorem group2H_erase (cfg : Cfg) (h : Handler) (ho : h.ObserverOnly) {s t : State} (hst : erase s = erase t) (g : Group) :
    erase (group2H cfg h s g).1 = erase (group2 cfg t g).1 := by
  rw [group2H_eq_g2rest, group2_eq_g2rest, nc_g2clr_congr hst]
  exact nc_g2rest_erase cfg h Handler.noop ho nc_noop_observerOnly _ (nc_g2pre_erase hst g) g


theorem dispatchH_erase (cfg : Cfg) (h : Handler) (ho : h.ObserverOnly) {s t : State} (hst : erase s = erase t) (g : Group) :
    erase (dispatchH cfg h s g).1 = erase (dispatch cfg t g).1 := by
  unfold dispatchH dispatch
  split
  · exact group0H_erase cfg h ho hst g
  · split
    · exact group1H_erase cfg h ho hst g
    · split
      · exact group2H_erase cfg h ho hst g
      · split
        · rw [group4H_erase h ho, group4_state_same]; exact hst
        · split
          · exact group10H_erase cfg h ho hst g
          · exact hst

/-- **Nested-call form of C15.** A callback that, from inside the call, changes nothing but the registration table and the
user data (whatever it registers, removes or sets) does not influence what is decoded: the state after the call, up to the
observer table, is the one of the plain model. -/
theorem processH_erase (cfg : Cfg) (h : Handler) (ho : h.ObserverOnly) (s : State) (g : Group) :
    erase (processH cfg h s g).1 = erase (process cfg s g).1 := by
  unfold processH process
  exact dispatchH_erase cfg h ho (groupCommonH_erase h ho rfl g) g

theorem stepH_erase (cfg : Cfg) (h : Handler) (ho : h.ObserverOnly) (s : State) (op : Op) :
    erase (stepH cfg h s op).1 = erase (step cfg s op).1 := by
  cases op <;> try rfl
  · exact processH_erase cfg h ho s _
  · rename_i b; cases b
    · rfl
    · simp only [stepH, step]
      cases utilsConvert _
      · rfl
      · exact processH_erase cfg h ho s _


/-- non-vacuity: the harness's modes "callback j registers callback k" and "callback j unregisters k / changes the user data"
are observer-only handlers -/
theorem handlerOfMode_observerOnly (cfg : Cfg) (m : Nat) (h1 : 1000 ≤ m) (h2 : m < 5000) (h : Handler)
    (hm : handlerOfMode cfg m = some h) : h.ObserverOnly := by
  unfold handlerOfMode at hm
  have e0 : ¬ m = 0 := by omega
  have e7 : ¬ 7000 ≤ m := by omega
  have e5 : ¬ 5000 ≤ m := by omega
  simp only [e0, e7, e5, if_false] at hm
  split at hm
  · injection hm with hm; subst hm
    intro e s
    show erase (if _ then _ else _) = _
    split <;> rfl
  · first | rw [if_pos h1] at hm | skip
    injection hm with hm; subst hm
    intro e s
    show erase (if _ then _ else _) = _
    split
    · split <;> split <;> rfl
    · rfl

end RDS
