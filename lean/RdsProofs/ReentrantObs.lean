import RdsProofs.Reentrant
import RdsProofs.C15Proofs
/-!
# RdsProofs.ReentrantObs — handlers that only touch registrations and user data (partial)

Full statement aimed at: for every handler `h` with `∀ e s, erase (h e s).1 = erase s` (it changes nothing but the registration
table and the user data, whatever callbacks it registers or removes from inside the call),
`erase (processH cfg h s g).1 = erase (process cfg s g).1` — the nested-call form of C15's "who listens does not influence
what is decoded". Proved so far (`…_erase`, each in the congruence form `erase s = erase t → …`): `setFieldH`, `addAfH`,
`groupCommonH` (PI/PTY/TP), `group0H` (TA/MS, PS, AF), `group1H` (ECC and country, including the PI read after the ECC
callback), `group4H`, `group10H`. Missing: `group2H` and hence `processH` (not finished).
-/
namespace RDS

/-- a handler that touches nothing but the registration table and the user data, and makes no API call that invokes callbacks -/
def Handler.ObserverOnly (h : Handler) : Prop := ∀ e s, erase (h e s).1 = erase s

theorem erase_fields {s t : State} (h : erase s = erase t) :
    s.used = t.used ∧ s.temp = t.temp ∧ s.set = t.set ∧ s.ps = t.ps ∧ s.rt0 = t.rt0 ∧ s.rt1 = t.rt1 ∧ s.ptyn = t.ptyn ∧
    s.lastRt = t.lastRt := by
  cases s; cases t; simp only [erase, State.mk.injEq] at h; simp_all

theorem emitH_erase (h : Handler) (ho : h.ObserverOnly) (s : State) (c : Cb) (k : EvKind) :
    erase (emitH h s c k).1 = erase s := by
  unfold emitH; split
  · exact ho _ _
  · rfl

theorem setFieldH_erase (h : Handler) (ho : h.ObserverOnly) {s t : State} (hst : erase s = erase t) (f : Fld) (v : Int) :
    erase (setFieldH h s f v).1 = erase (setField t f v).1 := by
  obtain ⟨hu, ht, hs, _⟩ := erase_fields hst
  unfold setFieldH setField
  simp only []
  split
  · rw [emitH_erase h ho]; cases s; cases t; simp only [erase, State.mk.injEq] at hst ⊢; simp_all
  · cases s; cases t; simp only [erase, State.mk.injEq] at hst ⊢; simp_all


theorem erase_with_congr {s t : State} (hst : erase s = erase t) (f : State → State)
    (hf : ∀ x : State, erase (f x) = erase (f (erase x))) : erase (f s) = erase (f t) := by
  rw [hf s, hf t, hst]

theorem addAfH_erase (h : Handler) (ho : h.ObserverOnly) {s t : State} (hst : erase s = erase t) (v : Nat) :
    erase (addAfH h s v).1 = erase (addAf t v).1 := by
  obtain ⟨hu, ht, hs, _⟩ := erase_fields hst
  unfold addAfH addAf
  simp only [hu, ht, hs]
  split
  · exact hst
  · split
    · cases s; cases t; simp only [erase, State.mk.injEq] at hst ⊢; simp_all
    · simp only []
      split
      · rw [emitH_erase h ho]; cases s; cases t; simp only [erase, State.mk.injEq] at hst ⊢; simp_all
      · cases s; cases t; simp only [erase, State.mk.injEq] at hst ⊢; simp_all

theorem groupCommonH_erase (h : Handler) (ho : h.ObserverOnly) {s t : State} (hst : erase s = erase t) (g : Group) :
    erase (groupCommonH h s g).1 = erase (groupCommon t g).1 := by
  unfold groupCommonH groupCommon
  simp only []
  have h1 : erase (if g.ea = 0 then setFieldH h s .pi g.a else (s, [])).1 =
      erase (if g.ea = 0 then setField t .pi g.a else (t, [])).1 := by
    split
    · exact setFieldH_erase h ho hst _ _
    · exact hst
  split
  · exact setFieldH_erase h ho (setFieldH_erase h ho h1 _ _) _ _
  · exact h1


theorem group1H_erase (cfg : Cfg) (h : Handler) (ho : h.ObserverOnly) {s t : State} (hst : erase s = erase t) (g : Group) :
    erase (group1H cfg h s g).1 = erase (group1 cfg t g).1 := by
  unfold group1H group1
  split
  · simp only []
    have h1 := setFieldH_erase h ho hst .ecc (g.c % 256 : Nat)
    have hpi : (setFieldH h s .ecc (g.c % 256 : Nat)).1.used.pi = (setField t .ecc (g.c % 256 : Nat)).1.used.pi := by
      rw [(erase_fields h1).1]
    rw [hpi]
    exact setFieldH_erase h ho h1 _ _
  · exact hst

theorem group4H_erase (h : Handler) (ho : h.ObserverOnly) (s : State) (g : Group) :
    erase (group4H h s g).1 = erase s := by
  unfold group4H
  split
  · simp only []
    split
    · exact emitH_erase h ho _ _ _
    · rfl
  · rfl

theorem group4_state (s : State) (g : Group) : (group4 s g).1 = s := by
  unfold group4; split
  · simp only []
    split <;> rfl
  · rfl

theorem group10H_erase (cfg : Cfg) (h : Handler) (ho : h.ObserverOnly) {s t : State} (hst : erase s = erase t) (g : Group) :
    erase (group10H cfg h s g).1 = erase (group10 cfg t g).1 := by
  obtain ⟨hu, ht, hs, hps, h0, h1, hpt, hl⟩ := erase_fields hst
  unfold group10H group10
  simp only [hs, hpt]
  split
  · split
    · rw [emitH_erase h ho]; cases s; cases t; simp only [erase, State.mk.injEq] at hst ⊢; simp_all
    · cases s; cases t; simp only [erase, State.mk.injEq] at hst ⊢; simp_all
  · exact hst

theorem erase_setPs {s t : State} (hst : erase s = erase t) (p : Text) :
    erase { s with ps := p } = erase { t with ps := p } := by
  cases s; cases t; simp only [erase, State.mk.injEq] at hst ⊢; simp_all

def g0psH (cfg : Cfg) (h : Handler) (r : State) (g : Group) : State :=
  let u := parserUpdate cfg r.set r.ps .ps g.d g.eb g.ed (2 * (g.b % 4))
  (if u.2 then emitH h { r with ps := u.1 } .ps .ps else ({ r with ps := u.1 }, [])).1

def g0ps (cfg : Cfg) (r : State) (g : Group) : State :=
  { r with ps := (parserUpdate cfg r.set r.ps .ps g.d g.eb g.ed (2 * (g.b % 4))).1 }

def g0afH (h : Handler) (e : State) (g : Group) : State :=
  if !g.versionB && g.eb = 0 && g.ec = 0 && g.c / 256 % 256 != 250 then
    (addAfH h (addAfH h e (g.c / 256 % 256)).1 (g.c % 256)).1
  else e

def g0af (e : State) (g : Group) : State :=
  if !g.versionB && g.eb = 0 && g.ec = 0 && g.c / 256 % 256 != 250 then
    (addAf (addAf e (g.c / 256 % 256)).1 (g.c % 256)).1
  else e

theorem g0ps_erase (cfg : Cfg) (h : Handler) (ho : h.ObserverOnly) {r q : State} (hrq : erase r = erase q) (g : Group) :
    erase (g0psH cfg h r g) = erase (g0ps cfg q g) := by
  obtain ⟨_, _, hs, hps, _⟩ := erase_fields hrq
  unfold g0psH g0ps
  simp only [hs, hps]
  split
  · rw [emitH_erase h ho]; cases r; cases q; simp only [erase, State.mk.injEq] at hrq ⊢; simp_all
  · cases r; cases q; simp only [erase, State.mk.injEq] at hrq ⊢; simp_all

theorem g0af_erase (h : Handler) (ho : h.ObserverOnly) {e s2 : State} (h3 : erase e = erase s2) (g : Group) :
    erase (g0afH h e g) = erase (g0af s2 g) := by
  unfold g0afH g0af
  split
  · exact addAfH_erase h ho (addAfH_erase h ho h3 _) _
  · exact h3

theorem group0H_eq (cfg : Cfg) (h : Handler) (s : State) (g : Group) :
    (group0H cfg h s g).1 = g0afH h (g0psH cfg h (if g.eb = 0 then (setFieldH h (setFieldH h s .ta (g.b / 16 % 2 : Nat)).1 .ms (g.b / 8 % 2 : Nat)).1 else s) g) g := by
  unfold group0H g0afH g0psH
  simp only []
  split <;> split <;> rfl

theorem group0_eq (cfg : Cfg) (s : State) (g : Group) :
    (group0 cfg s g).1 = g0af (g0ps cfg (if g.eb = 0 then (setField (setField s .ta (g.b / 16 % 2 : Nat)).1 .ms (g.b / 8 % 2 : Nat)).1 else s) g) g := by
  unfold group0 g0af g0ps
  simp only []
  split <;> split <;> rfl

theorem group0H_erase (cfg : Cfg) (h : Handler) (ho : h.ObserverOnly) {s t : State} (hst : erase s = erase t) (g : Group) :
    erase (group0H cfg h s g).1 = erase (group0 cfg t g).1 := by
  rw [group0H_eq, group0_eq]
  apply g0af_erase h ho
  apply g0ps_erase cfg h ho
  split
  · exact setFieldH_erase h ho (setFieldH_erase h ho hst _ _) _ _
  · exact hst

end RDS
