import RdsProofs.C04Base
/-!
# RdsProofs.C04Frame — the C04 facts of one handler stage (`HOk`) and their sequential composition
-/
namespace RDS

/-- the getter-visible components that have a callback -/
inductive Comp | sc (f : Fld) | af | ps | rt0 | rt1 | ptyn
deriving DecidableEq

inductive CV | i (v : Int) | b (l : List Bool) | t (t : Text)
deriving DecidableEq

def Comp.view : Comp → State → CV
  | .sc f, s => .i (s.used.get f) | .af, s => .b s.used.af | .ps, s => .t s.ps
  | .rt0, s => .t s.rt0 | .rt1, s => .t s.rt1 | .ptyn, s => .t s.ptyn

def Comp.cb : Comp → Cb
  | .sc f => f.cb | .af => .af | .ps => .ps | .rt0 => .rt | .rt1 => .rt | .ptyn => .ptyn

def Comp.kindP : Comp → EvKind → Bool
  | .sc f => (· == f.ev)
  | .af => fun k => match k with | .af _ => true | _ => false
  | .ps => (· == .ps) | .rt0 => (· == .rt 0) | .rt1 => (· == .rt 1) | .ptyn => (· == .ptyn)

def rtBadP : EvKind → Bool := fun k => match k with | .rt f => decide (f ≥ 2) | _ => false

def compOf : EvKind → Option Comp
  | .pi => some (.sc .pi) | .pty => some (.sc .pty) | .tp => some (.sc .tp) | .ta => some (.sc .ta)
  | .ms => some (.sc .ms) | .ecc => some (.sc .ecc) | .country => some (.sc .country)
  | .af _ => none | .ps => some .ps
  | .rt f => if f = 0 then some .rt0 else if f = 1 then some .rt1 else none
  | .ptyn => some .ptyn | .ct _ => none

/-- the event shows its own field as the state `fin` has it -/
def ownGood (fin : State) (e : Event) : Prop :=
  match e.kind with
  | .pi => e.snap.used.pi = fin.used.pi | .pty => e.snap.used.pty = fin.used.pty
  | .tp => e.snap.used.tp = fin.used.tp | .ta => e.snap.used.ta = fin.used.ta
  | .ms => e.snap.used.ms = fin.used.ms | .ecc => e.snap.used.ecc = fin.used.ecc
  | .country => e.snap.used.country = fin.used.country
  | .af k => e.snap.used.af.getD ((k - 87500) / 100) false = true
  | .ps => e.snap.ps = fin.ps | .rt f => e.snap.rt f = fin.rt f | .ptyn => e.snap.ptyn = fin.ptyn
  | .ct _ => True

theorem compOf_spec {k : EvKind} {X : Comp} (h : compOf k = some X) :
    X.kindP k = true ∧ X.cb = k.cb ∧ X ≠ .af := by
  cases k <;> simp only [compOf, Option.some.injEq, reduceCtorEq] at h
  case rt f =>
    split at h
    · rename_i h0; subst h0; cases h; simp [Comp.kindP, Comp.cb, EvKind.cb]
    · split at h
      · rename_i h0; subst h0; cases h; simp [Comp.kindP, Comp.cb, EvKind.cb]
      · cases h
  all_goals (subst h; simp [Comp.kindP, Comp.cb, EvKind.cb, Fld.ev, Fld.cb])

theorem ownGood_transfer {e : Event} {s1 s2 : State} (h : ownGood s1 e) (hb : rtBadP e.kind = false)
    (hv : ∀ X, compOf e.kind = some X → X.view s1 = X.view s2) : ownGood s2 e := by
  obtain ⟨k, u, sn⟩ := e
  cases k
  case af => exact h
  case ct => trivial
  case rt f =>
    simp only [rtBadP, decide_eq_false_iff_not] at hb
    simp only [ownGood] at h ⊢
    have hf : f = 0 ∨ f = 1 := by omega
    rcases hf with rfl | rfl
    · have := hv .rt0 (by simp [compOf])
      simp only [Comp.view, CV.t.injEq] at this
      simpa [State.rt, this] using h
    · have := hv .rt1 (by simp [compOf])
      simp only [Comp.view, CV.t.injEq] at this
      simpa [State.rt, this] using h
  all_goals
    have := hv _ rfl
    simp only [Comp.view, CV.t.injEq, CV.i.injEq, Scalars.get] at this
    simp only [ownGood] at h ⊢
    rw [← this]; exact h

/-- AF frequencies notified by an event list -/
def afKhz (l : List Event) : List Nat := afEventKhz (l.map EvObs.ofEvent)

@[simp] theorem afKhz_nil : afKhz [] = [] := rfl
@[simp] theorem afKhz_append (l1 l2) : afKhz (l1 ++ l2) = afKhz l1 ++ afKhz l2 := by
  simp [afKhz, afEventKhz]

theorem afKhz_eq_nil_of {l : List Event} (h : ∀ e ∈ l, Comp.af.kindP e.kind = false) : afKhz l = [] := by
  induction l with
  | nil => rfl
  | cons e l ih =>
    have h1 := h e (by simp)
    have h2 := ih (fun e he => h e (by simp [he]))
    have : afKhz (e :: l) = afKhz [e] ++ afKhz l := afKhz_append [e] l
    rw [this, h2]
    obtain ⟨k, u, sn⟩ := e
    cases k <;> simp_all [afKhz, afEventKhz, Comp.kindP, EvObs.ofEvent]

/-- the AF clause of C04 -/
def AfOk (b a : List Bool) (khz : List Nat) : Prop :=
  sortNat khz = sortNat ((nac b a 0).map (fun v => 87500 + 100 * v)) ∧ khz.length ≤ 2

theorem insertNat_ne_nil (x l) : insertNat x l ≠ [] := by
  cases l <;> simp [insertNat]; split <;> simp

theorem sortNat_eq_nil {l : List Nat} (h : sortNat l = []) : l = [] := by
  cases l with
  | nil => rfl
  | cons x l => exact absurd h (insertNat_ne_nil _ _)

theorem AfOk_same {l : List Bool} {k : List Nat} (h : AfOk l l k) : k = [] := by
  apply sortNat_eq_nil
  rw [h.1, nac_self]; rfl

theorem AfOk_refl (l : List Bool) : AfOk l l [] := by
  constructor
  · rw [nac_self]; rfl
  · simp

theorem cntK_pos_of_mem {l : List Event} {p : EvKind → Bool} {e : Event} (he : e ∈ l) (hp : p e.kind = true) :
    0 < cntK l p := by
  unfold cntK
  exact List.length_pos_of_mem (List.mem_filter.2 ⟨he, hp⟩)

theorem cntK_zero_of {l : List Event} {p : EvKind → Bool} (h : ∀ e ∈ l, p e.kind = false) : cntK l p = 0 := by
  unfold cntK
  rw [List.length_eq_zero_iff, List.filter_eq_nil_iff]
  intro e he; simp [h e he]

/-- The C04 facts of a handler stage that starts in `s` and returns `r`: it touches at most
the components `T`, and the components `F ⊆ T` get a notification even if they end up equal. -/
structure HOk (T F : List Comp) (s : State) (r : State × List Event) : Prop where
  reg : ∀ c, r.1.registered c = s.registered c
  touch : ∀ X, X ∉ T → X.view r.1 = X.view s
  forced : ∀ X, X ∈ F → X ∈ T
  cnt : ∀ X, X ≠ .af → s.registered X.cb = true →
    cntK r.2 X.kindP = if X.view r.1 ≠ X.view s ∨ X ∈ F then 1 else 0
  rtBad : cntK r.2 rtBadP = 0
  af : s.registered .af = true → AfOk s.used.af r.1.used.af (afKhz r.2)
  evreg : ∀ e ∈ r.2, s.registered e.kind.cb = true
  own : ∀ e ∈ r.2, ownGood r.1 e

theorem HOk_id (s : State) : HOk [] [] s (s, []) where
  reg _ := rfl
  touch _ _ := rfl
  forced _ h := h
  cnt X _ _ := by simp
  rtBad := rfl
  af _ := AfOk_refl _
  evreg _ h := by simp at h
  own _ h := by simp at h

theorem HOk_mono {T T' F : List Comp} {s : State} {r : State × List Event} (h : HOk T F s r)
    (hs : T.all (fun X => T'.contains X) = true) : HOk T' F s r := by
  have hs' : ∀ X, X ∈ T → X ∈ T' := by
    intro X hX
    have := List.all_eq_true.1 hs X hX
    simpa using this
  exact { h with
    touch := fun X hX => h.touch X (fun hh => hX (hs' X hh))
    forced := fun X hX => hs' X (h.forced X hX) }

theorem HOk_seq {T1 T2 F1 F2 : List Comp} {s : State} {r1 r2 : State × List Event}
    (h1 : HOk T1 F1 s r1) (h2 : HOk T2 F2 r1.1 r2)
    (hd : T1.all (fun X => !T2.contains X) = true) :
    HOk (T1 ++ T2) (F1 ++ F2) s (r2.1, r1.2 ++ r2.2) := by
  have hd' : ∀ X, X ∈ T1 → X ∉ T2 := by
    intro X hX
    have := List.all_eq_true.1 hd X hX
    simpa using this
  have hreg : ∀ c, r2.1.registered c = s.registered c := fun c => by rw [h2.reg, h1.reg]
  refine ⟨hreg, ?_, ?_, ?_, ?_, ?_, ?_, ?_⟩
  · intro X hX
    simp only [List.mem_append, not_or] at hX
    show X.view r2.1 = X.view s
    rw [h2.touch X hX.2, h1.touch X hX.1]
  · intro X hX
    simp only [List.mem_append] at hX ⊢
    exact hX.imp (h1.forced X) (h2.forced X)
  · intro X hXa hXr
    show cntK (r1.2 ++ r2.2) X.kindP = if X.view r2.1 ≠ X.view s ∨ X ∈ F1 ++ F2 then 1 else 0
    rw [cntK_append, h1.cnt X hXa hXr, h2.cnt X hXa (by rw [h1.reg]; exact hXr)]
    by_cases hT : X ∈ T1
    · have h2T := hd' X hT
      have hv : X.view r2.1 = X.view r1.1 := h2.touch X h2T
      have hF : X ∉ F2 := fun hh => h2T (h2.forced X hh)
      simp [hv, hF]
    · have hv : X.view r1.1 = X.view s := h1.touch X hT
      have hF : X ∉ F1 := fun hh => hT (h1.forced X hh)
      simp [hv, hF]
  · show cntK (r1.2 ++ r2.2) rtBadP = 0
    rw [cntK_append, h1.rtBad, h2.rtBad]
  · intro hr
    show AfOk s.used.af r2.1.used.af (afKhz (r1.2 ++ r2.2))
    have a1 := h1.af hr
    have a2 := h2.af (by rw [h1.reg]; exact hr)
    rw [afKhz_append]
    by_cases hT : Comp.af ∈ T1
    · have hv := h2.touch _ (hd' _ hT)
      simp only [Comp.view, CV.b.injEq] at hv
      rw [hv] at a2 ⊢
      rw [AfOk_same a2, List.append_nil]; exact a1
    · have hv := h1.touch _ hT
      simp only [Comp.view, CV.b.injEq] at hv
      rw [hv] at a1 a2
      rw [AfOk_same a1, List.nil_append]; exact a2
  · intro e he
    simp only [List.mem_append] at he
    rcases he with he | he
    · exact h1.evreg e he
    · rw [← h1.reg]; exact h2.evreg e he
  · intro e he
    show ownGood r2.1 e
    simp only [List.mem_append] at he
    rcases he with he | he
    · have hb : rtBadP e.kind = false := by
        cases hb : rtBadP e.kind
        · rfl
        · have := cntK_pos_of_mem he hb
          rw [h1.rtBad] at this; omega
      refine ownGood_transfer (h1.own e he) hb ?_
      intro X hX
      obtain ⟨hk, hcb, hna⟩ := compOf_spec hX
      have hr : s.registered X.cb = true := by rw [hcb]; exact h1.evreg e he
      have hc := h1.cnt X hna hr
      have hpos := cntK_pos_of_mem he hk
      have hT : X ∈ T1 := by
        apply Classical.byContradiction
        intro hT
        have hv := h1.touch X hT
        have hF : X ∉ F1 := fun hh => hT (h1.forced X hh)
        rw [if_neg (by simp [hv, hF])] at hc
        omega
      exact (h2.touch X (hd' X hT)).symm
    · exact h2.own e he

end RDS
