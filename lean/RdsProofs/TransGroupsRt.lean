import RdsProofs.TransGroupsText
/-!
# RdsProofs.TransGroupsRt — `rdsparser_group2_parse`

Helper file of `RdsProofs/TransGroups.lean`. All helpers are prefixed `tg_`.
-/
set_option linter.unusedSimpArgs false
set_option linter.unusedVariables false

namespace RDS.C
open RDS
open RDS.C.TransBits (bitsOf)

/-! ## the two RadioText buffers -/

/-- `rds->rt[f] = s` -/
def tg_setRt (r : C_librdsparser) (fl : Int) (s : CStr) : C_librdsparser := { r with rt := listSet r.rt fl s }

theorem tg_rt_get (r : C_librdsparser) (f : Nat) (hf : f < 2) : absText (getS r.rt (f : Int)) = (abs r).rt f := by
  have : f = 0 ∨ f = 1 := by omega
  rcases this with rfl | rfl <;> rfl

theorem tg_rt_ok (r : C_librdsparser) (hI : CInv r) (f : Nat) (hf : f < 2) : StrOk (getS r.rt (f : Int)) 64 := by
  have : f = 0 ∨ f = 1 := by omega
  rcases this with rfl | rfl
  · exact hI.rt0
  · exact hI.rt1

theorem tg_setRt_get (r : C_librdsparser) (hl : r.rt.length = 2) (f : Nat) (hf : f < 2) (s : CStr) :
    getS (tg_setRt r (f : Int) s).rt (f : Int) = s := by
  obtain ⟨a, b, h⟩ := tb_len2 r.rt hl
  have : f = 0 ∨ f = 1 := by omega
  rcases this with rfl | rfl <;> simp [tg_setRt, h, listSet, getS]

theorem tg_setRt_abs (r : C_librdsparser) (hI : CInv r) (f : Nat) (hf : f < 2) (s : CStr) (hs : StrOk s 64) :
    abs (tg_setRt r (f : Int) s) = (abs r).setRt f (absText s) := by
  obtain ⟨a, b, h⟩ := tb_len2 r.rt hI.rtLen
  have h0 := hI.rt0
  have h1 := hI.rt1
  rw [h] at h0 h1
  have e0 : a.term = 0 := h0.2.2.2.1
  have e1 : b.term = 0 := h1.2.2.2.1
  have es : s.term = 0 := hs.2.2.2.1
  have : f = 0 ∨ f = 1 := by omega
  rcases this with rfl | rfl
  · simp [tg_setRt, abs, absSet, absCbs, State.setRt, h, listSet, getS, e0, es]
  · simp [tg_setRt, abs, absSet, absCbs, State.setRt, h, listSet, getS, e1, es]

theorem tg_setRt_inv (r : C_librdsparser) (hI : CInv r) (f : Nat) (hf : f < 2) (s : CStr) (hs : StrOk s 64) :
    CInv (tg_setRt r (f : Int) s) := by
  obtain ⟨a, b, h⟩ := tb_len2 r.rt hI.rtLen
  have h0 := hI.rt0
  have h1 := hI.rt1
  rw [h] at h0 h1
  have : f = 0 ∨ f = 1 := by omega
  refine ⟨hI.used, hI.temp, hI.ext, hI.ps, ?_, ?_, ?_, hI.ptyn, hI.progLen, hI.prog, hI.corrLen, hI.corr,
    hI.lastRt, hI.ud⟩
  · simp [tg_setRt, hI.rtLen]
  · rcases this with rfl | rfl
    · simpa [tg_setRt, h, listSet, getS] using hs
    · simpa [tg_setRt, h, listSet, getS] using h0
  · rcases this with rfl | rfl
    · simpa [tg_setRt, h, listSet, getS] using h1
    · simpa [tg_setRt, h, listSet, getS] using hs

theorem tg_inv_lastRt (r : C_librdsparser) (hI : CInv r) (v : Int) (hv : v = -1 ∨ v = 0 ∨ v = 1) :
    CInv { r with last_rt_flag := v } :=
  ⟨hI.used, hI.temp, hI.ext, hI.ps, hI.rtLen, hI.rt0, hI.rt1, hI.ptyn, hI.progLen, hI.prog, hI.corrLen, hI.corr,
    hv, hI.ud⟩

theorem tg_setRt_setRt (s : State) (f : Nat) (a b : Text) : (s.setRt f a).setRt f b = s.setRt f b := by
  unfold State.setRt; split <;> rfl

@[simp] theorem tg_setRt_set (s : State) (f : Nat) (a : Text) : (s.setRt f a).set = s.set := by
  unfold State.setRt; split <;> rfl

@[simp] theorem tg_setRt_rt (s : State) (f : Nat) (a : Text) : (s.setRt f a).rt f = a := by
  unfold State.setRt State.rt; split <;> simp_all

/-! ## the A/B toggle of `rdsparser_group2_parse` -/

/-- `group2.c:43-54` as translated: new state and the `changed` flag -/
def tg_c2toggle (rds : C_librdsparser) (eb : Int) (rt_flag : Int) : C_librdsparser × Int :=
  let changed : Int := 0
  if eb == 0 && rt_flag != rds.last_rt_flag then
    let t2 :=
      if rds.last_rt_flag != -1 && c_rdsparser_string_get_available (getS rds.rt rt_flag) != 0 then
        let t1 := c_rdsparser_string_clear (getS rds.rt rt_flag)
        let rds : C_librdsparser := tg_setRt rds rt_flag t1
        let changed : Int := 1
        (rds, changed)
      else
        (rds, changed)
    let rds : C_librdsparser := t2.1
    let changed : Int := t2.2
    let rds : C_librdsparser := { rds with last_rt_flag := i8 rt_flag }
    (rds, changed)
  else
    (rds, changed)

/-- the part of `rdsparser_group2_parse` after the toggle and the bit-flip guard -/
def tg_c2upd (unicode : Bool) (rds : C_librdsparser) (changed : Int) (data errors : List Int) (flag rt_flag : Int)
    (log : CLog) : C_librdsparser × CLog :=
    let position : Int := 0  -- uninitialised in C
    let t5 :=
      if flag == 0 then
        let position : Int := u8 (4 * c_rdsparser_group2_get_rt_pos data)
        let t4 := c_rdsparser_parser_update_string unicode rds (getS rds.rt rt_flag) 1 2 data errors position
        let rds : C_librdsparser := tg_setRt rds rt_flag t4.2
        let changed : Int := b2i (bor changed t4.1 != 0)
        let position : Int := u8 (position + 2)
        (rds, changed, position)
      else
        let position : Int := u8 (2 * c_rdsparser_group2_get_rt_pos data)
        (rds, changed, position)
    let rds : C_librdsparser := t5.1
    let changed : Int := t5.2.1
    let position : Int := t5.2.2
    let t6 := c_rdsparser_parser_update_string unicode rds (getS rds.rt rt_flag) 1 3 data errors position
    let rds : C_librdsparser := tg_setRt rds rt_flag t6.2
    let changed : Int := b2i (bor changed t6.1 != 0)
    let log : CLog :=
      if changed != 0 && rds.callback_rt != 0 then
        log ++ [⟨"rt", [rt_flag, rds.user_data], rds⟩]
      else
        log
    (rds, log)

theorem tg_group2_shape (u : Bool) (r : C_librdsparser) (data errors : List Int) (flag : Int) (log : CLog) :
    c_rdsparser_group2_parse u r data errors flag log =
      let rt_flag := c_rdsparser_group2_get_rt_flag data
      let t3 := tg_c2toggle r (errors.getD 1 0) rt_flag
      if errors.getD 1 0 != 0 && rt_flag != t3.1.last_rt_flag && t3.1.last_rt_flag != -1 then (t3.1, log)
      else tg_c2upd u t3.1 t3.2 data errors flag rt_flag log := rfl

/-- the model's toggle: new state and `clr` -/
def tg_m2toggle (s : State) (g : Group) : State × Bool :=
  let flag := g.b / 16 % 2
  let sw := decide (g.eb = 0) && ((flag : Int) != s.lastRt)
  let clr := sw && s.lastRt != -1 && getAvailable (s.rt flag)
  let s1 := if clr then s.setRt flag (s.rt flag).cleared else s
  let s2 := if sw then { s1 with lastRt := flag } else s1
  (s2, clr)

/-- the model's text update of `group2` -/
def tg_m2upd (cfg : Cfg) (s2 : State) (clr : Bool) (g : Group) : State × List Event :=
  let flag := g.b / 16 % 2
  let pos := g.b % 16
  let u1 := if !g.versionB
    then parserUpdate cfg s2.set (s2.rt flag) .rt g.c g.eb g.ec (4 * pos)
    else (s2.rt flag, false)
  let pos2 := if !g.versionB then 4 * pos + 2 else 2 * pos
  let u2 := parserUpdate cfg s2.set u1.1 .rt g.d g.eb g.ed pos2
  let s3 := s2.setRt flag u2.1
  (s3, if clr || u1.2 || u2.2 then emit s3 .rt (.rt flag) else [])

theorem tg_group2_model (cfg : Cfg) (s : State) (g : Group) :
    group2 cfg s g =
      let t := tg_m2toggle s g
      if g.eb != 0 && ((g.b / 16 % 2 : Nat) : Int) != t.1.lastRt && t.1.lastRt != -1 then (t.1, [])
      else tg_m2upd cfg t.1 t.2 g := rfl

theorem tg_toggle (r : C_librdsparser) (hI : CInv r) (g : Group) :
    let t := tg_c2toggle r (g.eb : Int) ((g.b / 16 % 2 : Nat) : Int)
    abs t.1 = (tg_m2toggle (abs r) g).1 ∧ t.2 = b2i (tg_m2toggle (abs r) g).2 ∧ CInv t.1 := by
  have hf : g.b / 16 % 2 < 2 := by omega
  have hi8 : i8 ((g.b / 16 % 2 : Nat) : Int) = ((g.b / 16 % 2 : Nat) : Int) := TransBits.i8_nat _ (by omega)
  have hav := string_get_available_refines _ 64 (tg_rt_ok r hI _ hf)
  rw [tg_rt_get r _ hf] at hav
  have hclr := string_clear_refines _ 64 (tg_rt_ok r hI _ hf)
  rw [tg_rt_get r _ hf] at hclr
  have hl : (abs r).lastRt = r.last_rt_flag := rfl
  have hv : (((g.b / 16 % 2 : Nat) : Int) = -1 ∨ ((g.b / 16 % 2 : Nat) : Int) = 0 ∨ ((g.b / 16 % 2 : Nat) : Int) = 1) := by
    omega
  unfold tg_c2toggle tg_m2toggle
  simp only [tg_beq0, hi8, hav, b2i_ne_zero, hl]
  by_cases hsw : (decide (g.eb = 0) && (((g.b / 16 % 2 : Nat) : Int) != r.last_rt_flag)) = true
  · simp only [hsw, if_true, Bool.true_and]
    by_cases hin : (r.last_rt_flag != -1 && getAvailable ((abs r).rt (g.b / 16 % 2))) = true
    · simp only [hin, if_true]
      have h1 := tg_setRt_abs r hI _ hf _ hclr.2
      have h2 := tg_setRt_inv r hI _ hf _ hclr.2
      rw [hclr.1] at h1
      refine ⟨?_, by simp, tg_inv_lastRt _ h2 _ hv⟩
      show { abs (tg_setRt r ((g.b / 16 % 2 : Nat) : Int) (c_rdsparser_string_clear (getS r.rt ((g.b / 16 % 2 : Nat) : Int)))) with
        lastRt := ((g.b / 16 % 2 : Nat) : Int) } = _
      rw [h1]
    · simp only [hin, if_false, Bool.false_eq_true]
      exact ⟨rfl, by simp, tg_inv_lastRt _ hI _ hv⟩
  · simp only [hsw, if_false, Bool.false_and, Bool.false_eq_true]
    exact ⟨trivial, by simp, hI⟩

theorem tg_chg1 (c a : Bool) : (b2i (bor (b2i c) (b2i a) != 0) != 0) = (c || a) := by
  cases c <;> cases a <;> decide

theorem tg_chg3 (c a b : Bool) : (b2i (bor (b2i (bor (b2i c) (b2i a) != 0)) (b2i b) != 0) != 0) = (c || a || b) := by
  cases c <;> cases a <;> cases b <;> decide

theorem tg_rt_emit (r' : C_librdsparser) (log : CLog) (f : Nat) (b : Bool) (s3 : State) (habs : abs r' = s3) :
    absLog (if (b && r'.callback_rt != 0) = true then log ++ [⟨"rt", [(f : Int), r'.user_data], r'⟩] else log) =
      absLog log ++ (if b = true then emit s3 .rt (.rt f) else []) := by
  subst habs
  have hev : absEvent ⟨"rt", [(f : Int), r'.user_data], r'⟩ = some ⟨.rt f, r'.user_data.toNat, abs r'⟩ := by
    show some (Event.mk (.rt ((f : Int)).toNat) _ _) = _
    rw [Int.toNat_natCast]
  rw [tg_emit_log log b r'.callback_rt _ _ hev]
  rfl

theorem tg_upd (u : Bool) (r : C_librdsparser) (hI : CInv r) (g : Group) (clr : Bool) (log : CLog) :
    tg_Ref log (tg_c2upd u r (b2i clr) (dataOf g) (errorsOf g) (tg_flag g) ((g.b / 16 % 2 : Nat) : Int) log)
      (tg_m2upd (cfgC u) (abs r) clr g) := by
  have hf : g.b / 16 % 2 < 2 := by omega
  have hpos : c_rdsparser_group2_get_rt_pos (dataOf g) = ((g.b % 16 : Nat) : Int) := TransBits.group2_get_rt_pos _ _ _ _
  by_cases hv : g.versionB = true
  · -- version B: block D only, position 2*pos
    have hp : u8 (2 * c_rdsparser_group2_get_rt_pos (dataOf g)) = ((2 * (g.b % 16) : Nat) : Int) := by
      rw [hpos, u8_of_range] <;> omega
    obtain ⟨b1, b2, b3⟩ := tg_pus u r hI _ 64 (tg_rt_ok r hI _ hf) g 1 .rt rfl (by omega) 3 g.d g.ed rfl rfl
      (2 * (g.b % 16)) 1 3 _ rfl rfl hp (by omega) (by omega)
    rw [tg_rt_get r _ hf] at b1 b2
    unfold tg_c2upd tg_m2upd
    simp only [tg_flag_beq, hv, Bool.not_true, Bool.false_eq_true, if_false]
    generalize c_rdsparser_parser_update_string u r (getS r.rt ((g.b / 16 % 2 : Nat) : Int)) 1 3 (dataOf g) (errorsOf g)
      (u8 (2 * c_rdsparser_group2_get_rt_pos (dataOf g))) = t6 at b1 b2 b3
    generalize parserUpdate (cfgC u) (abs r).set ((abs r).rt (g.b / 16 % 2)) TextId.rt g.d g.eb g.ed (2 * (g.b % 16)) = m2
      at b1 b2
    have habs := tg_setRt_abs r hI _ hf _ b3
    rw [b1] at habs
    refine ⟨habs, ?_, tg_setRt_inv r hI _ hf _ b3⟩
    dsimp only
    rw [b2, tg_chg1, Bool.or_false]
    exact tg_rt_emit _ log _ _ _ habs
  · -- version A: blocks C and D, positions 4*pos and 4*pos+2
    have hv' : g.versionB = false := by simpa using hv
    have hp1 : u8 (4 * c_rdsparser_group2_get_rt_pos (dataOf g)) = ((4 * (g.b % 16) : Nat) : Int) := by
      rw [hpos, u8_of_range] <;> omega
    have hp2 : u8 (u8 (4 * c_rdsparser_group2_get_rt_pos (dataOf g)) + 2) = ((4 * (g.b % 16) + 2 : Nat) : Int) := by
      rw [hp1, u8_of_range] <;> omega
    obtain ⟨a1, a2, a3⟩ := tg_pus u r hI _ 64 (tg_rt_ok r hI _ hf) g 1 .rt rfl (by omega) 2 g.c g.ec rfl rfl
      (4 * (g.b % 16)) 1 2 _ rfl rfl hp1 (by omega) (by omega)
    rw [tg_rt_get r _ hf] at a1 a2
    unfold tg_c2upd tg_m2upd
    simp only [tg_flag_beq, hv', Bool.not_false, if_true]
    generalize c_rdsparser_parser_update_string u r (getS r.rt ((g.b / 16 % 2 : Nat) : Int)) 1 2 (dataOf g) (errorsOf g)
      (u8 (4 * c_rdsparser_group2_get_rt_pos (dataOf g))) = t4 at a1 a2 a3
    have hI1 := tg_setRt_inv r hI _ hf _ a3
    have habs1 := tg_setRt_abs r hI _ hf _ a3
    have hget : getS (tg_setRt r ((g.b / 16 % 2 : Nat) : Int) t4.2).rt ((g.b / 16 % 2 : Nat) : Int) = t4.2 :=
      tg_setRt_get r hI.rtLen _ hf _
    obtain ⟨b1, b2, b3⟩ := tg_pus u (tg_setRt r ((g.b / 16 % 2 : Nat) : Int) t4.2) hI1 _ 64 (tg_rt_ok _ hI1 _ hf) g 1 .rt
      rfl (by omega) 3 g.d g.ed rfl rfl (4 * (g.b % 16) + 2) 1 3 _ rfl rfl hp2 (by omega) (by omega)
    have hset : (abs (tg_setRt r ((g.b / 16 % 2 : Nat) : Int) t4.2)).set = (abs r).set := rfl
    rw [hset, hget, a1] at b1 b2
    rw [hget] at b3
    rw [hget]
    generalize c_rdsparser_parser_update_string u (tg_setRt r ((g.b / 16 % 2 : Nat) : Int) t4.2) t4.2 1 3 (dataOf g)
      (errorsOf g) (u8 (u8 (4 * c_rdsparser_group2_get_rt_pos (dataOf g)) + 2)) = t6 at b1 b2 b3
    generalize parserUpdate (cfgC u) (abs r).set ((abs r).rt (g.b / 16 % 2)) TextId.rt g.c g.eb g.ec (4 * (g.b % 16)) = m1
      at a1 a2 b1 b2
    generalize parserUpdate (cfgC u) (abs r).set m1.1 TextId.rt g.d g.eb g.ed (4 * (g.b % 16) + 2) = m2 at b1 b2
    have habs := tg_setRt_abs _ hI1 _ hf _ b3
    rw [habs1, tg_setRt_setRt, b1] at habs
    refine ⟨habs, ?_, tg_setRt_inv _ hI1 _ hf _ b3⟩
    dsimp only
    rw [a2, b2, tg_chg3]
    exact tg_rt_emit _ log _ _ _ habs

theorem tg_group2 (u : Bool) (r : C_librdsparser) (hI : CInv r) (g : Group) (hg : g.Bounded) (log : CLog) :
    tg_Ref log (c_rdsparser_group2_parse u r (dataOf g) (errorsOf g) (tg_flag g) log) (group2 (cfgC u) (abs r) g) := by
  have hfl : c_rdsparser_group2_get_rt_flag (dataOf g) = ((g.b / 16 % 2 : Nat) : Int) :=
    TransBits.group2_get_rt_flag _ _ _ _
  obtain ⟨t1, t2, t3⟩ := tg_toggle r hI g
  rw [tg_group2_shape, tg_group2_model]
  simp only [hfl, tg_err1]
  generalize tg_c2toggle r (g.eb : Int) ((g.b / 16 % 2 : Nat) : Int) = t at t1 t2 t3
  have hl : t.1.last_rt_flag = (tg_m2toggle (abs r) g).1.lastRt := by rw [← t1]; rfl
  rw [hl, TransBits.natCast_bne_zero]
  by_cases hguard : (g.eb != 0 && ((g.b / 16 % 2 : Nat) : Int) != (tg_m2toggle (abs r) g).1.lastRt &&
      (tg_m2toggle (abs r) g).1.lastRt != -1) = true
  · simp only [hguard, if_true]
    exact ⟨t1, by simp, t3⟩
  · simp only [hguard, if_false, Bool.false_eq_true]
    rw [t2, ← t1]
    exact tg_upd u t.1 t3 g _ log

end RDS.C

#print axioms RDS.C.tg_group2
