import RdsProofs.Frame
import RdsProofs.Inv
/-!
# RdsProofs.LinkBase — per-setter lemmas for the refinement relation `Link`

`LinkL` is `Link` strengthened by the two AF bitmap lengths (needed so that `List.set`
takes effect); the per-setter lemmas are `linkL_setField` and `linkL_addAf`.
-/
namespace RDS

/-! ## one buffered scalar -/

theorem bufUpdate_recv (ext : Bool) (unk used temp v : Int) (f : AFld)
    (h : FInv ext unk used temp f) :
    FInv ext unk (bufUpdate ext used temp v).1 (bufUpdate ext used temp v).2.1 (f.recv ext v) := by
  obtain ⟨h1, h2, h3⟩ := h
  cases ext
  · simp [FInv, AFld.recv]
  · have h2 := h2 rfl
    by_cases hu : used = v
    · subst hu
      simp [FInv, bufUpdate, AFld.recv, ← h1]
    · by_cases ht : temp = v
      · have hl : f.last = some v := by
          cases hlast : f.last with
          | none =>
            exfalso
            rw [hlast] at h2
            simp only [Option.getD_none] at h2
            exact hu (by rw [h1, h3 hlast, ← h2, ht])
          | some w =>
            rw [hlast] at h2
            simp only [Option.getD_some] at h2
            rw [← h2, ht]
        simp [FInv, bufUpdate, AFld.recv, hu, ht, hl]
      · have hl : f.last ≠ some v := by
          intro hlast
          rw [hlast] at h2
          exact ht h2
        simp [FInv, bufUpdate, AFld.recv, ht, hl, h1]

/-! ## monitor field update -/

def Mon.setFld (m : Mon) (f : Fld) (a : AFld) : Mon :=
  match f with
  | .pi => { m with pi := a } | .pty => { m with pty := a } | .tp => { m with tp := a }
  | .ta => { m with ta := a } | .ms => { m with ms := a } | .ecc => { m with ecc := a }
  | .country => { m with country := a }

/-- reception of `v` on field `f` -/
def Mon.recvF (m : Mon) (f : Fld) (v : Int) : Mon := m.setFld f ((m.fld f).recv m.ext v)

section setFld
variable (m : Mon) (f : Fld) (a : AFld)
@[simp] theorem Mon.setFld_ext : (m.setFld f a).ext = m.ext := by cases f <;> rfl
@[simp] theorem Mon.setFld_clean : (m.setFld f a).clean = m.clean := by cases f <;> rfl
@[simp] theorem Mon.setFld_set : (m.setFld f a).set = m.set := by cases f <;> rfl
@[simp] theorem Mon.setFld_cbs : (m.setFld f a).cbs = m.cbs := by cases f <;> rfl
@[simp] theorem Mon.setFld_ud : (m.setFld f a).ud = m.ud := by cases f <;> rfl
@[simp] theorem Mon.setFld_lastFlag : (m.setFld f a).lastFlag = m.lastFlag := by cases f <;> rfl
@[simp] theorem Mon.setFld_afCount : (m.setFld f a).afCount = m.afCount := by cases f <;> rfl
@[simp] theorem Mon.setFld_fld_same : (m.setFld f a).fld f = a := by cases f <;> rfl
theorem Mon.setFld_fld_ne (f' : Fld) (h : f' ≠ f) : (m.setFld f a).fld f' = m.fld f' := by
  cases f <;> cases f' <;> first | rfl | exact absurd rfl h
theorem Mon.setFld_anyRecv (h : a.last.isSome = true) : (m.setFld f a).anyRecv = true := by
  cases f <;> simp [Mon.setFld, Mon.anyRecv, h]
end setFld

section recvF
variable (m : Mon) (f : Fld) (v : Int)
@[simp] theorem Mon.recvF_ext : (m.recvF f v).ext = m.ext := by simp [Mon.recvF]
@[simp] theorem Mon.recvF_clean : (m.recvF f v).clean = m.clean := by simp [Mon.recvF]
@[simp] theorem Mon.recvF_set : (m.recvF f v).set = m.set := by simp [Mon.recvF]
@[simp] theorem Mon.recvF_cbs : (m.recvF f v).cbs = m.cbs := by simp [Mon.recvF]
@[simp] theorem Mon.recvF_ud : (m.recvF f v).ud = m.ud := by simp [Mon.recvF]
@[simp] theorem Mon.recvF_lastFlag : (m.recvF f v).lastFlag = m.lastFlag := by simp [Mon.recvF]
@[simp] theorem Mon.recvF_afCount : (m.recvF f v).afCount = m.afCount := by simp [Mon.recvF]
@[simp] theorem Mon.recvF_fld_same : (m.recvF f v).fld f = (m.fld f).recv m.ext v := by
  simp [Mon.recvF]
theorem Mon.recvF_fld_ne (f' : Fld) (h : f' ≠ f) : (m.recvF f v).fld f' = m.fld f' := by
  simp [Mon.recvF, Mon.setFld_fld_ne _ _ _ _ h]
@[simp] theorem Mon.recvF_anyRecv : (m.recvF f v).anyRecv = true := by
  apply Mon.setFld_anyRecv
  simp only [AFld.recv]; split <;> rfl
end recvF

/-! ## the strengthened relation -/

/-- `Link` plus the lengths of the two AF bitmaps -/
def LinkL (m : Mon) (s : State) : Prop :=
  Link m s ∧ s.used.af.length = afBits ∧ s.temp.af.length = afBits

theorem linkL_of_WF {tb : Tabs} {m : Mon} {s : State} (hl : Link m s) (hw : WF tb s) : LinkL m s :=
  ⟨hl, hw.usedAfLen, hw.tempAfLen⟩

/-- `setField` on the model against `recvF` on the monitor; the two values need only agree
when the monitor is `clean` (this is what `group1`'s country lookup needs). -/
theorem linkL_setField (m : Mon) (s : State) (f : Fld) (v v' : Int) (h : LinkL m s)
    (hv : m.clean = true → v = v') : LinkL (m.recvF f v) (setField s f v').1 := by
  obtain ⟨hl, hu, ht⟩ := h
  refine ⟨⟨?_, ?_, ?_, ?_, ?_, ?_, ?_, ?_, ?_, ?_⟩, ?_, ?_⟩
  · simpa using hl.set
  · simpa using hl.ext
  · simpa using hl.cbs
  · simpa using hl.ud
  · simpa using hl.lastFlag
  · simpa using hl.cntLen
  · simpa using hl.cntInvalid
  · intro hc f'
    simp only [Mon.recvF_clean] at hc
    have hvv := hv hc
    subst hvv
    simp only [setField_set]
    by_cases hf : f' = f
    · subst hf
      rw [setField_used_get, setField_temp_get, Mon.recvF_fld_same, hl.ext]
      exact bufUpdate_recv _ _ _ _ _ _ (hl.fields hc f')
    · rw [setField_used_get_ne _ _ _ _ hf, setField_temp_get_ne _ _ _ _ hf,
        Mon.recvF_fld_ne _ _ _ _ hf]
      exact hl.fields hc f'
  · intro hc
    simp only [Mon.recvF_clean] at hc
    simpa using hl.af hc
  · intro hq
    simp at hq
  · simpa using hu
  · simpa using ht

/-! ## AF -/

theorem addAf_invalid (s : State) (v : Nat) (h : afValid v = false) : (addAf s v).1 = s := by
  simp only [addAf, afGet, afSet, h, Bool.false_and, Bool.not_false, Bool.and_true]
  cases s.set.ext <;> simp

theorem Mon.afRecv_invalid (m : Mon) (v : Nat) (h : afValid v = false) : m.afRecv v = m := by
  simp [Mon.afRecv, h]

theorem afValid_lt {v : Nat} (h : afValid v = true) : v < afBits := by
  simp [afValid, afBits] at *; omega

section afRecv
variable (m : Mon) (v : Nat)
@[simp] theorem Mon.afRecv_ext : (m.afRecv v).ext = m.ext := by unfold Mon.afRecv; split <;> rfl
@[simp] theorem Mon.afRecv_clean : (m.afRecv v).clean = m.clean := by unfold Mon.afRecv; split <;> rfl
@[simp] theorem Mon.afRecv_set : (m.afRecv v).set = m.set := by unfold Mon.afRecv; split <;> rfl
@[simp] theorem Mon.afRecv_cbs : (m.afRecv v).cbs = m.cbs := by unfold Mon.afRecv; split <;> rfl
@[simp] theorem Mon.afRecv_ud : (m.afRecv v).ud = m.ud := by unfold Mon.afRecv; split <;> rfl
@[simp] theorem Mon.afRecv_lastFlag : (m.afRecv v).lastFlag = m.lastFlag := by
  unfold Mon.afRecv; split <;> rfl
@[simp] theorem Mon.afRecv_fld (f : Fld) : (m.afRecv v).fld f = m.fld f := by
  unfold Mon.afRecv; split <;> cases f <;> rfl
theorem Mon.afRecv_afCount (h : afValid v = true) :
    (m.afRecv v).afCount = m.afCount.set v (m.afCount.getD v 0 + 1) := by
  simp [Mon.afRecv, h]
end afRecv

theorem addAf_used_af_len (s : State) (v : Nat) : (addAf s v).1.used.af.length = s.used.af.length := by
  unfold addAf afSet; (repeat' split) <;> simp
theorem addAf_temp_af_len (s : State) (v : Nat) : (addAf s v).1.temp.af.length = s.temp.af.length := by
  unfold addAf afSet; (repeat' split) <;> simp

theorem getD_set_self {α} (l : List α) (i : Nat) (a d : α) (h : i < l.length) :
    (l.set i a).getD i d = a := by
  simp [List.getD_eq_getElem?_getD, h]

theorem getD_set_ne {α} (l : List α) (i j : Nat) (a d : α) (h : i ≠ j) :
    (l.set i a).getD j d = l.getD j d := by
  simp [List.getD_eq_getElem?_getD, h]

/-- model bitmaps after `addAf s v` for a valid code, in closed form -/
theorem addAf_valid_af (s : State) (v : Nat) (h : afValid v = true) :
    (addAf s v).1.used.af =
      (if s.used.af.getD v false || (s.set.ext && !s.temp.af.getD v false) then s.used.af
       else s.used.af.set v true) ∧
    (addAf s v).1.temp.af =
      (if !s.used.af.getD v false && (s.set.ext && !s.temp.af.getD v false) then s.temp.af.set v true
       else s.temp.af) := by
  simp only [addAf, afGet, afSet, h, Bool.true_and, if_true]
  cases hu : s.used.af.getD v false <;> cases he : s.set.ext <;>
    cases ht : s.temp.af.getD v false <;> simp

theorem linkL_addAf (m : Mon) (s : State) (v : Nat) (h : LinkL m s) :
    LinkL (m.afRecv v) (addAf s v).1 := by
  cases hv : afValid v
  · rw [addAf_invalid _ _ hv, Mon.afRecv_invalid _ _ hv]; exact h
  obtain ⟨hl, hu, ht⟩ := h
  have hvlt := afValid_lt hv
  have hcnt := Mon.afRecv_afCount m v hv
  refine ⟨⟨?_, ?_, ?_, ?_, ?_, ?_, ?_, ?_, ?_, ?_⟩, ?_, ?_⟩
  · simpa using hl.set
  · simpa using hl.ext
  · simpa using hl.cbs
  · simpa using hl.ud
  · simpa using hl.lastFlag
  · rw [hcnt, List.length_set]; exact hl.cntLen
  · intro w hw
    have hne : v ≠ w := by intro e; subst e; rw [hv] at hw; cases hw
    rw [hcnt, getD_set_ne _ _ _ _ _ hne]
    exact hl.cntInvalid w hw
  · intro hc f
    simp only [Mon.afRecv_clean] at hc
    simpa using hl.fields hc f
  · intro hc
    simp only [Mon.afRecv_clean] at hc
    have ha := hl.af hc
    obtain ⟨e1, e2⟩ := addAf_valid_af s v hv
    intro w hw
    rw [e1, e2, hcnt, addAf_set]
    obtain ⟨a1, a2⟩ := ha w hw
    by_cases hwv : v = w
    · subst hwv
      have hvc : v < m.afCount.length := by rw [hl.cntLen]; exact hvlt
      rw [getD_set_self _ _ _ _ hvc]
      cases he : s.set.ext
      · rw [he] at a1
        simp only [Bool.false_eq_true, if_false] at a1
        simp only [Bool.false_and, Bool.or_false, Bool.and_false, Bool.false_eq_true, if_false,
          false_implies, and_true]
        cases hu' : s.used.af.getD v false
        · simp only [Bool.false_eq_true, if_false]
          rw [getD_set_self _ _ _ _ (by rw [hu]; exact hvlt)]
          simp
        · simp only [if_true]
          rw [hu']; simp
      · rw [he] at a1 a2
        have a2 := a2 rfl
        simp only [if_true] at a1
        simp only [Bool.true_and, if_true, true_implies]
        cases hu' : s.used.af.getD v false <;> cases ht' : s.temp.af.getD v false <;>
          rw [hu'] at a1 <;> rw [ht'] at a2 <;>
          simp only [Bool.false_or, Bool.true_or, Bool.not_false, Bool.not_true, Bool.and_true,
            Bool.and_false, Bool.false_eq_true, if_false, if_true] <;>
          (try rw [getD_set_self _ _ _ _ (by rw [hu]; exact hvlt)]) <;>
          (try rw [getD_set_self _ _ _ _ (by rw [ht]; exact hvlt)]) <;>
          (try rw [hu']) <;> (try rw [ht']) <;>
          simp only [ge_iff_le, false_eq_decide_iff, true_eq_decide_iff,
            Nat.not_le] at a1 a2 ⊢ <;> omega
    · rw [getD_set_ne _ _ _ _ _ hwv]
      refine ⟨?_, ?_⟩
      · rw [← a1]; split
        · rfl
        · exact getD_set_ne _ _ _ _ _ hwv
      · intro he; rw [← a2 he]; split
        · exact getD_set_ne _ _ _ _ _ hwv
        · rfl
  · intro hq
    exfalso
    have hvc : v < m.afCount.length := by rw [hl.cntLen]; exact hvlt
    have : (m.afRecv v).anyRecv = true := by
      simp only [Mon.anyRecv, Bool.or_eq_true]
      right
      rw [hcnt, List.any_eq_true]
      refine ⟨m.afCount.getD v 0 + 1, ?_, by simp⟩
      rw [List.mem_iff_getElem]
      exact ⟨v, by rw [List.length_set]; exact hvc, by simp⟩
    rw [this] at hq; cases hq
  · rw [addAf_used_af_len]; exact hu
  · rw [addAf_temp_af_len]; exact ht

end RDS
