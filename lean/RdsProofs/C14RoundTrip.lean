import RdsProofs.C14Proofs
/-!
# RdsProofs.C14RoundTrip — the string entry point reaches every group (encode / decode law)

For every group within the C API's ranges whose four error levels are below 4 there is an 18-character string — and, when
all four levels are 0, also a 16-character string — in either digit case, digit by digit, that `utilsConvert` decodes to
exactly that group. This is what `tools/gen.py: vary` relies on when it sends a group through `rdsparser_parse_string`
instead of `rdsparser_parse`: by `C14_equiv` the two calls then have the same effect.
-/
namespace RDS

/-- the ASCII code of hexadecimal digit `v` (< 16), upper or lower case -/
def hexDigit (upper : Bool) (v : Nat) : Nat := if v < 10 then 48 + v else (if upper then 55 else 87) + v

theorem hexVal_hexDigit (up : Bool) (v : Nat) (h : v < 16) : hexVal? (hexDigit up v) = some v := by
  unfold hexDigit hexVal?
  by_cases h10 : v < 10
  · simp only [h10, if_true]
    have : (decide (48 ≤ 48 + v) && decide (48 + v ≤ 57)) = true := by simp; omega
    rw [if_pos this]; congr 1; omega
  · simp only [h10, if_false]
    cases up
    · have n1 : (decide (48 ≤ 87 + v) && decide (87 + v ≤ 57)) = false := by simp; omega
      have n2 : (decide (65 ≤ 87 + v) && decide (87 + v ≤ 70)) = false := by simp; omega
      have y3 : (decide (97 ≤ 87 + v) && decide (87 + v ≤ 102)) = true := by simp; omega
      simp only [Bool.false_eq_true, if_false, n1, n2, y3, if_true]; congr 1; omega
    · have n1 : (decide (48 ≤ 55 + v) && decide (55 + v ≤ 57)) = false := by simp; omega
      have y2 : (decide (65 ≤ 55 + v) && decide (55 + v ≤ 70)) = true := by simp; omega
      simp only [if_true, Bool.false_eq_true, if_false, n1, y2]; congr 1; omega

/-- the four digits of a 16-bit block, most significant first; `u i` is the case of digit `i` -/
def hex4 (u : Nat → Bool) (off w : Nat) : List Nat :=
  [hexDigit (u off) (w / 4096 % 16), hexDigit (u (off + 1)) (w / 256 % 16), hexDigit (u (off + 2)) (w / 16 % 16),
   hexDigit (u (off + 3)) (w % 16)]

theorem hexNum_hex4 (u : Nat → Bool) (off w : Nat) (h : w < 65536) : hexNum? (hex4 u off w) = some w := by
  unfold hex4
  rw [hexNum4 _ _ _ _ (w / 4096 % 16) (w / 256 % 16) (w / 16 % 16) (w % 16)
    (hexVal_hexDigit _ _ (by omega)) (hexVal_hexDigit _ _ (by omega)) (hexVal_hexDigit _ _ (by omega))
    (hexVal_hexDigit _ _ (by omega))]
  congr 1; omega

theorem hexNum2 (c0 c1 v0 v1 : Nat) (h0 : hexVal? c0 = some v0) (h1 : hexVal? c1 = some v1) :
    hexNum? [c0, c1] = some (16 * v0 + v1) := by
  rw [c14_hexNum_eq_foldl]
  simp only [List.foldl_cons, List.foldl_nil]
  rw [c14_hexStep_some 0 c0 v0 h0, c14_hexStep_some _ c1 v1 h1]
  congr 1; omega

/-- the error byte of a group -/
def errByte (g : Group) : Nat := g.ea * 64 + g.eb * 16 + g.ec * 4 + g.ed

/-- the 18-character form -/
def encode18 (u : Nat → Bool) (g : Group) : List Nat :=
  hex4 u 0 g.a ++ hex4 u 4 g.b ++ hex4 u 8 g.c ++ hex4 u 12 g.d ++
    [hexDigit (u 16) (errByte g / 16 % 16), hexDigit (u 17) (errByte g % 16)]

/-- the 16-character form -/
def encode16 (u : Nat → Bool) (g : Group) : List Nat :=
  hex4 u 0 g.a ++ hex4 u 4 g.b ++ hex4 u 8 g.c ++ hex4 u 12 g.d

theorem C14_roundtrip18 (u : Nat → Bool) (g : Group) (ha : g.a < 65536) (hb : g.b < 65536) (hc : g.c < 65536)
    (hd : g.d < 65536) (h1 : g.ea < 4) (h2 : g.eb < 4) (h3 : g.ec < 4) (h4 : g.ed < 4) :
    utilsConvert (encode18 u g) = some g := by
  have he : errByte g < 256 := by unfold errByte; omega
  have e2 : hexNum? [hexDigit (u 16) (errByte g / 16 % 16), hexDigit (u 17) (errByte g % 16)] = some (errByte g) := by
    rw [hexNum2 _ _ _ _ (hexVal_hexDigit _ _ (by omega)) (hexVal_hexDigit _ _ (by omega))]
    congr 1; omega
  have t0 : (encode18 u g).take 4 = hex4 u 0 g.a := rfl
  have t1 : ((encode18 u g).drop 4).take 4 = hex4 u 4 g.b := rfl
  have t2 : ((encode18 u g).drop 8).take 4 = hex4 u 8 g.c := rfl
  have t3 : ((encode18 u g).drop 12).take 4 = hex4 u 12 g.d := rfl
  have t4 : (encode18 u g).drop 16 = [hexDigit (u 16) (errByte g / 16 % 16), hexDigit (u 17) (errByte g % 16)] := rfl
  have hl : (encode18 u g).length = 18 := rfl
  unfold utilsConvert
  rw [t0, t1, t2, t3, t4, hl, hexNum_hex4 u 0 _ ha, hexNum_hex4 u 4 _ hb, hexNum_hex4 u 8 _ hc, hexNum_hex4 u 12 _ hd, e2]
  simp only [Nat.reduceEqDiff, Bool.false_or, decide_true, if_true, Bool.or_true]
  have q1 : errByte g / 64 % 4 = g.ea := by unfold errByte; omega
  have q2 : errByte g / 16 % 4 = g.eb := by unfold errByte; omega
  have q3 : errByte g / 4 % 4 = g.ec := by unfold errByte; omega
  have q4 : errByte g % 4 = g.ed := by unfold errByte; omega
  rw [q1, q2, q3, q4]

theorem C14_roundtrip16 (u : Nat → Bool) (g : Group) (ha : g.a < 65536) (hb : g.b < 65536) (hc : g.c < 65536)
    (hd : g.d < 65536) (h1 : g.ea = 0) (h2 : g.eb = 0) (h3 : g.ec = 0) (h4 : g.ed = 0) :
    utilsConvert (encode16 u g) = some g := by
  have t0 : (encode16 u g).take 4 = hex4 u 0 g.a := rfl
  have t1 : ((encode16 u g).drop 4).take 4 = hex4 u 4 g.b := rfl
  have t2 : ((encode16 u g).drop 8).take 4 = hex4 u 8 g.c := rfl
  have t3 : ((encode16 u g).drop 12).take 4 = hex4 u 12 g.d := rfl
  have t4 : (encode16 u g).drop 16 = [] := rfl
  have hl : (encode16 u g).length = 16 := rfl
  unfold utilsConvert
  rw [t0, t1, t2, t3, t4, hl, hexNum_hex4 u 0 _ ha, hexNum_hex4 u 4 _ hb, hexNum_hex4 u 8 _ hc, hexNum_hex4 u 12 _ hd]
  simp only [decide_true, Bool.true_or, if_true, hexNum?, List.foldl_nil]
  cases g
  simp only [] at h1 h2 h3 h4
  subst h1 h2 h3 h4
  rfl

/-- the two entry points agree on every group the string form can carry: delivering `encode18 u g` through
`rdsparser_parse_string` is delivering `g` through `rdsparser_parse` -/
theorem C14_string_reaches (cfg : Cfg) (s : State) (u : Nat → Bool) (g : Group) (ha : g.a < 65536) (hb : g.b < 65536)
    (hc : g.c < 65536) (hd : g.d < 65536) (h1 : g.ea < 4) (h2 : g.eb < 4) (h3 : g.ec < 4) (h4 : g.ed < 4) :
    step cfg s (.parseString (some (encode18 u g))) = step cfg s (.parse g) := by
  simp only [step, C14_roundtrip18 u g ha hb hc hd h1 h2 h3 h4]

/-- a concrete instance (mixed case): "1234040AE0cD444903"-style -/
example : utilsConvert (encode18 (fun i => i % 3 == 0) ⟨0x1234, 0x0408, 0xE0CD, 0x4449, 0, 0, 0, 3⟩) =
    some ⟨0x1234, 0x0408, 0xE0CD, 0x4449, 0, 0, 0, 3⟩ := by decide

end RDS

#print axioms RDS.C14_roundtrip18
#print axioms RDS.C14_roundtrip16
#print axioms RDS.C14_string_reaches
