import RdsProofs.C04Handlers
/-!
# RdsProofs.C04Redeliver — re-delivering the same group in normal mode is a no-op (C04, last sentence)
-/
namespace RDS

/-! ## elementary no-op / establish lemmas (normal mode) -/

theorem Scalars.put_get_self (x : Scalars) (f : Fld) : x.put f (x.get f) = x := by
  cases f <;> rfl

/-- the same parser with other candidate values (normal mode never reads them) -/
def State.withTemp (s : State) (t : Scalars) : State := { s with temp := t }

theorem State.withTemp_self (s : State) : s.withTemp s.temp = s := rfl

theorem setField_noop (s : State) (f : Fld) (v : Int) (t0 : Scalars) (hext : s.set.ext = false)
    (h : s.used.get f = v) :
    ∃ t, setField (s.withTemp t0) f v = (s.withTemp t, []) := by
  refine ⟨t0.put f v, ?_⟩
  unfold State.withTemp
  simp only [setField, hext, bufUpdate, h, decide_true, Bool.true_or, if_true]
  rw [← h, Scalars.put_get_self]
  simp

theorem setField_estab (s : State) (f : Fld) (v : Int) (hext : s.set.ext = false) :
    (setField s f v).1.used.get f = v := by
  rw [setField_used_get, hext, bufUpdate_fst_normal]

/-- code `v` is absorbed: already listed or not representable -/
def AfAbs (af : List Bool) (v : Nat) : Prop := afGet af v = true ∨ afValid v = false

theorem addAf_noop (s : State) (v : Nat) (h : AfAbs s.used.af v) : addAf s v = (s, []) := by
  unfold addAf
  rcases h with h | h
  · rw [if_pos h]
  · have : afGet s.used.af v = false := by simp [afGet, h]
    simp [this, afSet, h]

theorem addAf_estab (s : State) (v : Nat) (hext : s.set.ext = false) (hlen : s.used.af.length = afBits) :
    AfAbs (addAf s v).1.used.af v := by
  unfold AfAbs
  cases hv : afValid v
  · right; rfl
  · left
    rw [addAf_used_af]
    have hlt : v < s.used.af.length := by
      simp only [afValid, Bool.and_eq_true, decide_eq_true_eq] at hv
      rw [hlen]; unfold afBits; omega
    cases hn : afNew s v
    · simp only [afNew, hext, Bool.false_and, Bool.not_false, Bool.and_true, hv, Bool.not_eq_eq_eq_not] at hn
      simpa using hn
    · simp only [if_true, afGet, hv, Bool.true_and]
      rw [List.getD_eq_getElem?_getD, List.getElem?_set_self hlt]; rfl

theorem addAf_mono (s : State) (v w : Nat) (h : AfAbs s.used.af w) : AfAbs (addAf s v).1.used.af w := by
  rcases h with h | h
  · left
    rw [addAf_used_af]
    split
    · simp only [afGet, Bool.and_eq_true] at h ⊢
      refine ⟨h.1, ?_⟩
      rw [List.getD_eq_getElem?_getD, List.getElem?_set]
      split
      · split <;> simp_all
      · rw [← List.getD_eq_getElem?_getD]; exact h.2
    · exact h
  · right; exact h

/-! ## text updates are idempotent -/

theorem updateSingle_idem (cfg : Cfg) (t t' : Text) (b ei ed pos : Nat) (prog : Bool)
    (h : t'[pos]? = (updateSingle cfg t b ei ed pos prog).1[pos]?) :
    (updateSingle cfg t' b ei ed pos prog).1 = t' ∧ (updateSingle cfg t' b ei ed pos prog).2 ≠ .stored := by
  unfold updateSingle at h ⊢
  cases hc : t[pos]? with
  | none =>
    simp only [hc] at h
    simp [h]
  | some cell =>
    simp only [hc] at h
    split at h
    · rename_i c1; rw [hc] at h; simp [h, c1]
    split at h
    · rename_i c1 c2; rw [hc] at h; simp [h, c1, c2]
    split at h
    · rename_i c1 c2 c3; rw [hc] at h; simp [h, c1, c2, c3]
    split at h
    · rename_i c1 c2 c3 c4; rw [hc] at h; simp [h, c1, c2, c3, c4]
    split at h
    · rename_i c1 c2 c3 c4 c5; rw [hc] at h; simp [h, c1, c2, c3, c4, c5]
    · rename_i c1 c2 c3 c4 c5
      have hp : pos < t.length := by
        rcases Nat.lt_or_ge pos t.length with hh | hh
        · exact hh
        · rw [List.getElem?_eq_none hh] at hc; cases hc
      rw [List.getElem?_set_self hp] at h
      simp [h, c2, c3, c4]


theorem updateString_idem (cfg : Cfg) (t t' : Text) (w ei ed pos : Nat) (prog : Bool)
    (h0 : t'[pos]? = (updateString cfg t w ei ed pos prog).1[pos]?)
    (h1 : t'[pos + 1]? = (updateString cfg t w ei ed pos prog).1[pos + 1]?) :
    updateString cfg t' w ei ed pos prog = (t', false) := by
  simp only [updateString] at h0 h1 ⊢
  have hs := (updateSingle_spec cfg (updateSingle cfg t (w / 256 % 256) ei ed pos prog).1 (w % 256) ei ed
    (pos + 1) prog).2.2 pos (by omega)
  rw [hs] at h0
  obtain ⟨a1, a2⟩ := updateSingle_idem cfg t t' _ ei ed pos prog h0
  rw [a1]
  obtain ⟨b1, b2⟩ := updateSingle_idem cfg _ t' _ ei ed (pos + 1) prog h1
  apply Prod.ext
  · exact b1
  · simp only [Bool.or_eq_false_iff, beq_eq_false_iff_ne]
    exact ⟨a2, b2⟩

theorem parserUpdate_idem (cfg : Cfg) (set : Settings) (t t' : Text) (id : TextId) (w eb ex pos : Nat)
    (h0 : t'[pos]? = (parserUpdate cfg set t id w eb ex pos).1[pos]?)
    (h1 : t'[pos + 1]? = (parserUpdate cfg set t id w eb ex pos).1[pos + 1]?) :
    parserUpdate cfg set t' id w eb ex pos = (t', false) := by
  unfold parserUpdate at h0 h1 ⊢
  split
  · rename_i hc
    rw [if_pos hc] at h0 h1
    exact updateString_idem cfg t t' w eb ex pos _ h0 h1
  · rfl

/-- redoing the first of two updates on disjoint index pairs, after the second -/
theorem parserUpdate_idem_fst (cfg : Cfg) (set : Settings) (t : Text) (id : TextId)
    (w1 w2 eb ex1 ex2 p q : Nat) (hd : p + 1 < q ∨ q + 1 < p) :
    parserUpdate cfg set (parserUpdate cfg set (parserUpdate cfg set t id w1 eb ex1 p).1 id w2 eb ex2 q).1
      id w1 eb ex1 p =
    ((parserUpdate cfg set (parserUpdate cfg set t id w1 eb ex1 p).1 id w2 eb ex2 q).1, false) := by
  have hs := (parserUpdate_spec cfg set (parserUpdate cfg set t id w1 eb ex1 p).1 id w2 eb ex2 q).2.2
  exact parserUpdate_idem cfg set t _ id w1 eb ex1 p (hs p (by omega) (by omega))
    (hs (p + 1) (by omega) (by omega))

theorem parserUpdate_idem_self (cfg : Cfg) (set : Settings) (t : Text) (id : TextId) (w eb ex pos : Nat) :
    parserUpdate cfg set (parserUpdate cfg set t id w eb ex pos).1 id w eb ex pos =
      ((parserUpdate cfg set t id w eb ex pos).1, false) :=
  parserUpdate_idem cfg set t _ id w eb ex pos rfl rfl

/-! ## groupCommon -/

/-- the group's PI/PTY/TP are what the getters already show -/
def AbsC (s : State) (g : Group) : Prop :=
  (g.ea = 0 → s.used.get .pi = (g.a : Int)) ∧
  (g.eb = 0 → s.used.get .pty = ((g.b / 32 % 32 : Nat) : Int) ∧ s.used.get .tp = ((g.b / 1024 % 2 : Nat) : Int))

theorem groupCommon_noop (s : State) (g : Group) (t0 : Scalars) (hext : s.set.ext = false)
    (h : AbsC s g) : ∃ t, groupCommon (s.withTemp t0) g = (s.withTemp t, []) := by
  obtain ⟨h1, h2⟩ := h
  have e1 : ∃ t1, (if g.ea = 0 then setField (s.withTemp t0) .pi g.a else (s.withTemp t0, []))
      = (s.withTemp t1, []) := by
    split
    · rename_i hea; exact setField_noop s .pi g.a t0 hext (h1 hea)
    · exact ⟨t0, rfl⟩
  obtain ⟨t1, e1⟩ := e1
  unfold groupCommon
  simp only
  rw [e1]
  split
  · rename_i heb
    obtain ⟨t2, e2⟩ := setField_noop s .pty _ t1 hext (h2 heb).1
    obtain ⟨t3, e3⟩ := setField_noop s .tp _ t2 hext (h2 heb).2
    simp only [e2, e3]
    exact ⟨t3, rfl⟩
  · exact ⟨t1, rfl⟩

theorem groupCommon_estab (s : State) (g : Group) (hext : s.set.ext = false) :
    AbsC (groupCommon s g).1 g := by
  unfold groupCommon AbsC
  simp only
  split
  · rename_i heb
    refine ⟨fun hea => ?_, fun _ => ⟨?_, ?_⟩⟩
    · rw [if_pos hea]
      rw [setField_used_get_ne _ _ _ _ (by decide), setField_used_get_ne _ _ _ _ (by decide)]
      exact setField_estab _ _ _ hext
    · rw [setField_used_get_ne _ _ _ _ (by decide)]
      apply setField_estab
      split <;> simp [hext]
    · apply setField_estab
      split <;> simp [hext]
  · rename_i heb
    refine ⟨fun hea => ?_, fun h => absurd h heb⟩
    rw [if_pos hea]
    exact setField_estab _ _ _ hext

/-! ## group0 -/

def afCond (g : Group) : Bool := !g.versionB && g.eb = 0 && g.ec = 0 && g.c / 256 % 256 != 250

def Abs0 (cfg : Cfg) (s : State) (g : Group) : Prop :=
  (g.eb = 0 → s.used.get .ta = ((g.b / 16 % 2 : Nat) : Int) ∧ s.used.get .ms = ((g.b / 8 % 2 : Nat) : Int)) ∧
  parserUpdate cfg s.set s.ps .ps g.d g.eb g.ed (2 * (g.b % 4)) = (s.ps, false) ∧
  (afCond g = true → AfAbs s.used.af (g.c / 256 % 256) ∧ AfAbs s.used.af (g.c % 256))

theorem group0_noop (cfg : Cfg) (s : State) (g : Group) (t0 : Scalars) (hext : s.set.ext = false)
    (h : Abs0 cfg s g) : ∃ t, group0 cfg (s.withTemp t0) g = (s.withTemp t, []) := by
  obtain ⟨h1, h2, h3⟩ := h
  have e1 : ∃ t1, (if g.eb = 0 then
      ((setField (setField (s.withTemp t0) .ta (g.b / 16 % 2 : Nat)).1 .ms (g.b / 8 % 2 : Nat)).1,
        (setField (s.withTemp t0) .ta (g.b / 16 % 2 : Nat)).2 ++
          (setField (setField (s.withTemp t0) .ta (g.b / 16 % 2 : Nat)).1 .ms (g.b / 8 % 2 : Nat)).2)
      else (s.withTemp t0, [])) = (s.withTemp t1, []) := by
    split
    · rename_i heb
      obtain ⟨t1, e1⟩ := setField_noop s .ta _ t0 hext (h1 heb).1
      obtain ⟨t2, e2⟩ := setField_noop s .ms _ t1 hext (h1 heb).2
      simp only [e1, e2]
      exact ⟨t2, rfl⟩
    · exact ⟨t0, rfl⟩
  obtain ⟨t1, e1⟩ := e1
  refine ⟨t1, ?_⟩
  unfold group0
  simp only
  rw [e1]
  have h2' : parserUpdate cfg (s.withTemp t1).set (s.withTemp t1).ps .ps
      g.d g.eb g.ed (2 * (g.b % 4)) = ((s.withTemp t1).ps, false) := h2
  simp only [h2']
  have e : ({ s.withTemp t1 with ps := (s.withTemp t1).ps } : State) = s.withTemp t1 := rfl
  rw [e]
  split
  · rename_i hc
    obtain ⟨a1, a2⟩ := h3 hc
    have n1 : addAf (s.withTemp t1) (g.c / 256 % 256) = (s.withTemp t1, []) := addAf_noop _ _ a1
    have n2 : addAf (s.withTemp t1) (g.c % 256) = (s.withTemp t1, []) := addAf_noop _ _ a2
    simp [n1, n2]
  · simp


theorem group0_set (cfg : Cfg) (s : State) (g : Group) : (group0 cfg s g).1.set = s.set := by
  unfold group0; simp only; split <;> split <;> simp

theorem c04_group0_ps (cfg : Cfg) (s : State) (g : Group) :
    (group0 cfg s g).1.ps = (parserUpdate cfg s.set s.ps .ps g.d g.eb g.ed (2 * (g.b % 4))).1 := by
  unfold group0; simp only; split <;> split <;> simp

theorem group0_tams (cfg : Cfg) (s : State) (g : Group) (hext : s.set.ext = false) (heb : g.eb = 0) :
    (group0 cfg s g).1.used.get .ta = ((g.b / 16 % 2 : Nat) : Int) ∧
    (group0 cfg s g).1.used.get .ms = ((g.b / 8 % 2 : Nat) : Int) := by
  have h1 : (setField (setField s .ta (g.b / 16 % 2 : Nat)).1 .ms (g.b / 8 % 2 : Nat)).1.used.get .ta
      = ((g.b / 16 % 2 : Nat) : Int) := by
    rw [setField_used_get_ne _ _ _ _ (by decide)]; exact setField_estab _ _ _ hext
  have h2 : (setField (setField s .ta (g.b / 16 % 2 : Nat)).1 .ms (g.b / 8 % 2 : Nat)).1.used.get .ms
      = ((g.b / 8 % 2 : Nat) : Int) := setField_estab _ _ _ (by simpa using hext)
  unfold group0; simp only [heb, if_true]
  split
  · simp only [addAf_used_get]
    exact ⟨h1, h2⟩
  · exact ⟨h1, h2⟩

theorem group0_af (cfg : Cfg) (s : State) (g : Group) (hext : s.set.ext = false)
    (hlen : s.used.af.length = afBits) (hc : afCond g = true) :
    AfAbs (group0 cfg s g).1.used.af (g.c / 256 % 256) ∧ AfAbs (group0 cfg s g).1.used.af (g.c % 256) := by
  unfold afCond at hc
  unfold group0; simp only [hc, if_true]
  generalize hs2 : ({ (if g.eb = 0 then
      ((setField (setField s .ta (g.b / 16 % 2 : Nat)).1 .ms (g.b / 8 % 2 : Nat)).1,
        (setField s .ta (g.b / 16 % 2 : Nat)).2 ++
          (setField (setField s .ta (g.b / 16 % 2 : Nat)).1 .ms (g.b / 8 % 2 : Nat)).2)
      else (s, [])).1 with ps := (parserUpdate cfg (if g.eb = 0 then
      ((setField (setField s .ta (g.b / 16 % 2 : Nat)).1 .ms (g.b / 8 % 2 : Nat)).1,
        (setField s .ta (g.b / 16 % 2 : Nat)).2 ++
          (setField (setField s .ta (g.b / 16 % 2 : Nat)).1 .ms (g.b / 8 % 2 : Nat)).2)
      else (s, [])).1.set (if g.eb = 0 then
      ((setField (setField s .ta (g.b / 16 % 2 : Nat)).1 .ms (g.b / 8 % 2 : Nat)).1,
        (setField s .ta (g.b / 16 % 2 : Nat)).2 ++
          (setField (setField s .ta (g.b / 16 % 2 : Nat)).1 .ms (g.b / 8 % 2 : Nat)).2)
      else (s, [])).1.ps .ps g.d g.eb g.ed (2 * (g.b % 4))).1 } : State) = s2
  have hx : s2.set.ext = false ∧ s2.used.af.length = afBits := by
    rw [← hs2]; split <;> simp [hext, hlen]
  have a1 := addAf_estab s2 (g.c / 256 % 256) hx.1 hx.2
  have a2 := addAf_estab (addAf s2 (g.c / 256 % 256)).1 (g.c % 256) (by simpa using hx.1)
    (by rw [addAf_af_length]; exact hx.2)
  exact ⟨addAf_mono _ _ _ a1, a2⟩

theorem group0_estab (cfg : Cfg) (s : State) (g : Group) (hext : s.set.ext = false)
    (hlen : s.used.af.length = afBits) : Abs0 cfg (group0 cfg s g).1 g := by
  refine ⟨group0_tams cfg s g hext, ?_, group0_af cfg s g hext hlen⟩
  rw [group0_set, c04_group0_ps]
  exact parserUpdate_idem_self ..

/-! ## group1 -/

def eccCond (g : Group) : Bool := !g.versionB && g.eb = 0 && g.ec = 0 && g.c / 4096 % 8 = 0

def Abs1 (cfg : Cfg) (s : State) (g : Group) : Prop :=
  eccCond g = true → s.used.get .ecc = ((g.c % 256 : Nat) : Int) ∧
    s.used.get .country = eccLookup cfg s.used.pi ((g.c % 256 : Nat) : Int)

theorem group1_noop (cfg : Cfg) (s : State) (g : Group) (t0 : Scalars) (hext : s.set.ext = false)
    (h : Abs1 cfg s g) : ∃ t, group1 cfg (s.withTemp t0) g = (s.withTemp t, []) := by
  unfold group1
  split
  · rename_i hc
    obtain ⟨h1, h2⟩ := h hc
    obtain ⟨t1, e1⟩ := setField_noop s .ecc _ t0 hext h1
    simp only [e1]
    have : (s.withTemp t1).used.pi = s.used.pi := rfl
    rw [this]
    obtain ⟨t2, e2⟩ := setField_noop s .country _ t1 hext h2
    simp only [e2]
    exact ⟨t2, rfl⟩
  · exact ⟨t0, rfl⟩

theorem group1_estab (cfg : Cfg) (s : State) (g : Group) (hext : s.set.ext = false) :
    Abs1 cfg (group1 cfg s g).1 g := by
  intro hc
  unfold group1
  unfold eccCond at hc
  simp only [hc, if_true]
  have hpi : ∀ (x : State) (f : Fld) (v : Int), f ≠ .pi → (setField x f v).1.used.pi = x.used.pi :=
    fun x f v hf => setField_used_get_ne x f v .pi (fun h => hf h.symm)
  refine ⟨?_, ?_⟩
  · rw [setField_used_get_ne _ _ _ _ (by decide)]; exact setField_estab _ _ _ hext
  · rw [hpi _ _ _ (by decide)]
    exact setField_estab _ _ _ (by simpa using hext)

/-! ## group10 -/

def Abs10 (cfg : Cfg) (s : State) (g : Group) : Prop :=
  g.versionB = false →
    parserUpdate cfg s.set s.ptyn .ptyn g.c g.eb g.ec (4 * (g.b % 2)) = (s.ptyn, false) ∧
    parserUpdate cfg s.set s.ptyn .ptyn g.d g.eb g.ed (4 * (g.b % 2) + 2) = (s.ptyn, false)

theorem group10_noop (cfg : Cfg) (s : State) (g : Group) (h : Abs10 cfg s g) : group10 cfg s g = (s, []) := by
  unfold group10
  cases hv : g.versionB
  · obtain ⟨h1, h2⟩ := h hv
    simp only [Bool.not_false, if_true, h1, h2]
    simp
  · simp

theorem group10_estab (cfg : Cfg) (s : State) (g : Group) : Abs10 cfg (group10 cfg s g).1 g := by
  intro hv
  unfold group10
  simp only [hv, Bool.not_false, if_true]
  exact ⟨parserUpdate_idem_fst cfg s.set s.ptyn .ptyn g.c g.d g.eb g.ec g.ed _ _ (by omega),
    parserUpdate_idem_self ..⟩

/-! ## group4 -/

theorem group4_noop (s : State) (g : Group) :
    (group4 s g).1 = s ∧ ∀ e ∈ (group4 s g).2, ∃ v, e.kind = .ct v := by
  unfold group4
  split
  · dsimp only
    split
    · refine ⟨rfl, fun e he => ⟨_, (mem_emit he).1⟩⟩
    · exact ⟨rfl, fun e he => by simp at he⟩
  · exact ⟨rfl, fun e he => by simp at he⟩

/-! ## group2 -/

def Abs2 (cfg : Cfg) (s : State) (g : Group) : Prop :=
  (g.eb = 0 → ((g.b / 16 % 2 : Nat) : Int) = s.lastRt) ∧
  ((g.eb != 0 && ((g.b / 16 % 2 : Nat) : Int) != s.lastRt && s.lastRt != -1) = true ∨
    ((g.versionB = false →
        parserUpdate cfg s.set (s.rt (g.b / 16 % 2)) .rt g.c g.eb g.ec (4 * (g.b % 16)) =
          (s.rt (g.b / 16 % 2), false)) ∧
      parserUpdate cfg s.set (s.rt (g.b / 16 % 2)) .rt g.d g.eb g.ed
          (if !g.versionB then 4 * (g.b % 16) + 2 else 2 * (g.b % 16)) = (s.rt (g.b / 16 % 2), false)))

theorem c04_setRt_rt_same (s : State) (fl : Nat) : s.setRt fl (s.rt fl) = s := by
  unfold State.setRt State.rt; split <;> rfl

theorem g2s2_of_same {s : State} {g : Group} (h : g.eb = 0 → ((g.b / 16 % 2 : Nat) : Int) = s.lastRt) :
    c04_g2s2 s g = s ∧ clr2 s g = false := by
  have : (decide (g.eb = 0) && (((g.b / 16 % 2 : Nat) : Int) != s.lastRt)) = false := by
    by_cases heb : g.eb = 0
    · simp [h heb]
    · simp [heb]
  unfold c04_g2s2 clr2
  simp only [this, Bool.false_and, Bool.false_eq_true, if_false]
  exact ⟨trivial, trivial⟩

theorem group2_noop (cfg : Cfg) (s : State) (g : Group) (h : Abs2 cfg s g) : group2 cfg s g = (s, []) := by
  obtain ⟨h1, h2⟩ := h
  obtain ⟨e1, e2⟩ := g2s2_of_same h1
  rw [c04_group2_eq, e1, e2]
  rcases h2 with h2 | ⟨h2, h3⟩
  · rw [if_pos h2]
  · split
    · rfl
    · cases hv : g.versionB
      · have h2' := h2 hv
        simp only [hv, Bool.not_false, if_true] at h3 ⊢
        simp only [h2', h3]
        simp [c04_setRt_rt_same]
      · simp only [hv, Bool.not_true, Bool.false_eq_true, if_false] at h3 ⊢
        simp only [h3]
        simp [c04_setRt_rt_same]

theorem c04_g2s2_lastRt (s : State) (g : Group) (heb : g.eb = 0) :
    ((g.b / 16 % 2 : Nat) : Int) = (c04_g2s2 s g).lastRt := by
  unfold c04_g2s2
  simp only [heb, decide_true, Bool.true_and]
  cases hsw : (((g.b / 16 % 2 : Nat) : Int) != s.lastRt)
  · simp only [Bool.false_and, Bool.false_eq_true, if_false]
    simpa using hsw
  · simp

theorem group2_estab (cfg : Cfg) (s : State) (g : Group) : Abs2 cfg (group2 cfg s g).1 g := by
  rw [c04_group2_eq]
  by_cases hg : (g.eb != 0 && ((g.b / 16 % 2 : Nat) : Int) != (c04_g2s2 s g).lastRt && (c04_g2s2 s g).lastRt != -1) = true
  · rw [if_pos hg]
    have heb : g.eb ≠ 0 := by
      intro h; simp [h] at hg
    exact ⟨fun h => absurd h heb, Or.inl hg⟩
  · rw [if_neg hg]
    refine ⟨fun heb => ?_, Or.inr ⟨fun hv => ?_, ?_⟩⟩
    · simp only [setRt_lastRt]
      exact c04_g2s2_lastRt s g heb
    · simp only [setRt_set, setRt_rt_self, hv, Bool.not_false, if_true]
      exact parserUpdate_idem_fst cfg _ _ .rt g.c g.d g.eb g.ec g.ed _ _ (by omega)
    · simp only [setRt_set, setRt_rt_self]
      exact parserUpdate_idem_self ..

/-! ## dispatch and process -/

def AbsD (cfg : Cfg) (s : State) (g : Group) : Prop :=
  (g.type = 0 → Abs0 cfg s g) ∧ (g.type = 1 → Abs1 cfg s g) ∧ (g.type = 2 → Abs2 cfg s g) ∧
  (g.type = 10 → Abs10 cfg s g)

theorem dispatch_noop (cfg : Cfg) (s : State) (g : Group) (t0 : Scalars) (hext : s.set.ext = false)
    (h : AbsD cfg s g) :
    ∃ t, (dispatch cfg (s.withTemp t0) g).1 = s.withTemp t ∧
      ∀ e ∈ (dispatch cfg (s.withTemp t0) g).2, ∃ v, e.kind = .ct v := by
  obtain ⟨h0, h1, h2, h10⟩ := h
  unfold dispatch
  split
  · rename_i ht
    obtain ⟨t, e⟩ := group0_noop cfg s g t0 hext (h0 ht)
    exact ⟨t, by rw [e], by rw [e]; intro e he; simp at he⟩
  split
  · rename_i ht
    obtain ⟨t, e⟩ := group1_noop cfg s g t0 hext (h1 ht)
    exact ⟨t, by rw [e], by rw [e]; intro e he; simp at he⟩
  split
  · rename_i ht
    have e := group2_noop cfg (s.withTemp t0) g (h2 ht)
    exact ⟨t0, by rw [e], by rw [e]; intro e he; simp at he⟩
  split
  · obtain ⟨a, b⟩ := group4_noop (s.withTemp t0) g
    exact ⟨t0, a, b⟩
  split
  · rename_i ht
    have e := group10_noop cfg (s.withTemp t0) g (h10 ht)
    exact ⟨t0, by rw [e], by rw [e]; intro e he; simp at he⟩
  · exact ⟨t0, rfl, by intro e he; simp at he⟩

theorem dispatch_estab (cfg : Cfg) (s : State) (g : Group) (hext : s.set.ext = false)
    (hlen : s.used.af.length = afBits) : AbsD cfg (dispatch cfg s g).1 g := by
  unfold dispatch
  refine ⟨fun h => ?_, fun h => ?_, fun h => ?_, fun h => ?_⟩
  · rw [if_pos h]; exact group0_estab cfg s g hext hlen
  · rw [if_neg (by omega), if_pos h]; exact group1_estab cfg s g hext
  · rw [if_neg (by omega), if_neg (by omega), if_pos h]; exact group2_estab cfg s g
  · rw [if_neg (by omega), if_neg (by omega), if_neg (by omega), if_neg (by omega), if_pos h]
    exact group10_estab cfg s g

theorem AbsC_dispatch (cfg : Cfg) (s : State) (g : Group) (hlen : s.used.af.length = afBits)
    (h : AbsC s g) : AbsC (dispatch cfg s g).1 g := by
  have H := HOk_dispatch cfg s g hlen
  have a := H.touch (.sc .pi) (by decide)
  have b := H.touch (.sc .pty) (by decide)
  have c := H.touch (.sc .tp) (by decide)
  simp only [Comp.view, CV.i.injEq] at a b c
  unfold AbsC
  rw [a, b, c]; exact h

theorem process_noop (cfg : Cfg) (s : State) (g : Group) (hext : s.set.ext = false)
    (hc : AbsC s g) (hd : AbsD cfg s g) :
    ∃ t, (process cfg s g).1 = s.withTemp t ∧ ∀ e ∈ (process cfg s g).2, ∃ v, e.kind = .ct v := by
  obtain ⟨t1, e1⟩ := groupCommon_noop s g s.temp hext hc
  rw [State.withTemp_self] at e1
  obtain ⟨t, a, b⟩ := dispatch_noop cfg s g t1 hext hd
  unfold process
  simp only [e1, List.nil_append]
  exact ⟨t, a, b⟩

theorem c04_g2s2_set (s : State) (g : Group) : (c04_g2s2 s g).set = s.set := by
  unfold c04_g2s2
  simp only
  generalize (decide (g.eb = 0) && ((g.b / 16 % 2 : Nat) : Int) != s.lastRt) = sw
  generalize (sw && s.lastRt != -1 && getAvailable (s.rt (g.b / 16 % 2))) = clr
  cases sw <;> cases clr <;> simp

theorem dispatch_set (cfg : Cfg) (s : State) (g : Group) : (dispatch cfg s g).1.set = s.set := by
  unfold dispatch
  split
  · exact group0_set cfg s g
  split
  · unfold group1; split <;> simp
  split
  · rw [c04_group2_eq]; split
    · exact c04_g2s2_set s g
    · simp only [setRt_set]; exact c04_g2s2_set s g
  split
  · exact congrArg State.set (group4_noop s g).1
  split
  · unfold group10; split <;> rfl
  · rfl

theorem process_estab (cfg : Cfg) (s : State) (g : Group) (hext : s.set.ext = false)
    (hlen : s.used.af.length = afBits) :
    AbsC (process cfg s g).1 g ∧ AbsD cfg (process cfg s g).1 g := by
  obtain ⟨_, _, _, haf, hset, _⟩ := groupCommon_frame s g
  have hext' : (groupCommon s g).1.set.ext = false := by rw [hset]; exact hext
  have hlen' : (groupCommon s g).1.used.af.length = afBits := by rw [haf]; exact hlen
  exact ⟨AbsC_dispatch cfg _ g hlen' (groupCommon_estab s g hext), dispatch_estab cfg _ g hext' hlen'⟩

theorem process_set (cfg : Cfg) (s : State) (g : Group) : (process cfg s g).1.set = s.set := by
  show (dispatch cfg (groupCommon s g).1 g).1.set = s.set
  rw [dispatch_set, (groupCommon_frame s g).2.2.2.2.1]

/-- Normal mode: delivering `g` a second time changes nothing the getters show and notifies
nothing but clock time. -/
theorem redeliver_core (cfg : Cfg) (s : State) (g : Group) (hext : s.set.ext = false)
    (hlen : s.used.af.length = afBits) :
    ∃ t, (process cfg (process cfg s g).1 g).1 = (process cfg s g).1.withTemp t ∧
      ∀ e ∈ (process cfg (process cfg s g).1 g).2, ∃ v, e.kind = .ct v := by
  obtain ⟨hc, hd⟩ := process_estab cfg s g hext hlen
  exact process_noop cfg _ g (by rw [process_set]; exact hext) hc hd

theorem Obs.ofState_withTemp (s : State) (t : Scalars) : Obs.ofState (s.withTemp t) = Obs.ofState s := rfl

theorem Mon.afRecv_ext (m : Mon) (v : Nat) : (m.afRecv v).ext = m.ext := by
  unfold Mon.afRecv; split <;> rfl

theorem Mon.group_ext (cfg : Cfg) (m : Mon) (g : Group) : (m.group cfg g).ext = m.ext := by
  unfold Mon.group
  simp only
  repeat' split
  all_goals first | rfl | (rw [Mon.afRecv_ext, Mon.afRecv_ext])
end RDS
