import RdsProofs.TransAbs
/-!
# RdsProofs.TransString — refinement of `src/string.c` and `rdsparser_parser_update_string`

The translated C functions (`RdsC/Translated.lean`, generated from `/repo/src/*.c`), read through `absText`
(`RdsProofs/TransAbs.lean`), ARE the model functions of `RdsModel/Text.lean`:

* `update_single_refines` — `rdsparser_string_update_single` (both builds) = `updateSingle`;
* `parser_update_string_refines` — `rdsparser_parser_update_string` (gate + the two bytes of
  `rdsparser_string_update`) = `parserUpdate`, **under the extra hypothesis `cap ≤ 256`**: the C code indexes
  with `(uint8_t)(position + i)`; `ts_parser_update_string_cap_needed` is the counterexample without it;
* `string_clear_refines`, `string_get_available_refines`, `string_get_length_refines` — the three
  `for (i = 0; i < size; i++)` loops.

All helpers are prefixed `ts_`.
-/
set_option linter.unusedSimpArgs false
set_option linter.unusedVariables false

namespace RDS.C
open RDS
open RDS.C.TransBits (calculate_error_eq)

/-! ## the charset, list and `absText` helpers -/

set_option maxRecDepth 8192 in
theorem ts_charset_nonneg : ∀ x ∈ c_rdsparser_string_convert_charset, 0 ≤ x := by decide
set_option maxRecDepth 8192 in
theorem ts_charset_length : c_rdsparser_string_convert_charset.length = 224 := by decide

theorem ts_zipWith_set {α β γ : Type} (f : α → β → γ) (l1 : List α) (l2 : List β) (i : Nat) (a : α) (b : β) :
    List.zipWith f (l1.set i a) (l2.set i b) = (List.zipWith f l1 l2).set i (f a b) := by
  induction l1 generalizing l2 i with
  | nil => simp
  | cons x xs ih =>
    cases l2 with
    | nil => simp
    | cons y ys =>
      cases i with
      | zero => simp
      | succ i => simp [ih]

theorem ts_forRange_two {σ : Type} (init : σ) (body : σ → Int → σ) :
    forRange 2 init body = body (body init 0) 1 := rfl

theorem ts_conv_U (b : Nat) (hb : b < 256) :
    c_rdsparser_string_convert_U (b : Int) = (conv (cfgC true) b : Int) := by
  unfold c_rdsparser_string_convert_U conv cfgC
  by_cases h13 : b = 13
  · subst h13; simp
  · have h13' : ¬ ((b : Int) = 13) := by omega
    by_cases h32 : b < 32
    · have : (b : Int) < 32 := by omega
      simp [h13, h13', h32, this]
    · have h32' : ¬ ((b : Int) < 32) := by omega
      have hi : ((b : Int) - 32).toNat = b - 32 := by omega
      have hlt : b - 32 < c_rdsparser_string_convert_charset.length := by rw [ts_charset_length]; omega
      have hnn := ts_charset_nonneg _ (List.getElem_mem hlt)
      simp only [beq_iff_eq, h13', if_false, h32', decide_false, Bool.false_eq_true, h13, h32, if_true, getI, hi,
        List.getD_eq_getElem?_getD, List.getElem?_eq_getElem hlt, Option.getD_some]
      omega

theorem ts_conv_N (b : Nat) (hb : b < 127) :
    c_rdsparser_string_convert_N (b : Int) = (conv (cfgC false) b : Int) := by
  unfold c_rdsparser_string_convert_N conv cfgC
  by_cases h13 : b = 13
  · subst h13; simp
  · have h13' : ¬ ((b : Int) = 13) := by omega
    have : ¬ (127 ≤ b) := by omega
    simp [h13, h13', this]
theorem ts_absText_get (s : CStr) (cap : Nat) (hs : StrOk s cap) (pos : Nat) (hpos : pos < cap) :
    (absText s)[pos]? = some ⟨(s.content.getD pos 0).toNat, (s.errors.getD pos 0).toNat⟩ := by
  obtain ⟨_, hc, he, _⟩ := hs
  have h1 : pos < s.content.length := by omega
  have h2 : pos < s.errors.length := by omega
  simp [absText, List.getElem?_zipWith, List.getD_eq_getElem?_getD, List.getElem?_eq_getElem h1, List.getElem?_eq_getElem h2]

theorem ts_cell_nat (s : CStr) (cap : Nat) (hs : StrOk s cap) (pos : Nat) (hpos : pos < cap) :
    ∃ cn en : Nat, s.content.getD pos 0 = (cn : Int) ∧ s.errors.getD pos 0 = (en : Int) := by
  obtain ⟨_, hc, he, _, hcn, hen⟩ := hs
  have h1 : pos < s.content.length := by omega
  have h2 : pos < s.errors.length := by omega
  have a := hcn _ (List.getElem_mem h1)
  have b := (hen _ (List.getElem_mem h2)).1
  refine ⟨(s.content[pos]).toNat, (s.errors[pos]).toNat, ?_, ?_⟩
  · simp [List.getD_eq_getElem?_getD, List.getElem?_eq_getElem h1]; omega
  · simp [List.getD_eq_getElem?_getD, List.getElem?_eq_getElem h2]; omega

theorem ts_calcError_le (ei ed : Nat) : calcError ei ed ≤ 2 * ei + 3 * ed := by
  unfold calcError; split <;> omega

/-- storing a cell on the C side is `List.set` on the abstract text -/
theorem ts_store (s : CStr) (cap : Nat) (hs : StrOk s cap) (pos cv err : Nat) (herr : err < 256) :
    absText { s with content := s.content.set pos (cv : Int), errors := s.errors.set pos (err : Int) }
        = (absText s).set pos ⟨cv, err⟩ ∧
    StrOk { s with content := s.content.set pos (cv : Int), errors := s.errors.set pos (err : Int) } cap := by
  obtain ⟨h0, hc, he, ht, hcn, hen⟩ := hs
  refine ⟨?_, h0, ?_, ?_, ht, ?_, ?_⟩
  · simp [absText, ts_zipWith_set]
  · simpa using hc
  · simpa using he
  · intro c hcm
    rcases List.mem_or_eq_of_mem_set hcm with h | h
    · exact hcn c h
    · subst h; omega
  · intro e hem
    rcases List.mem_or_eq_of_mem_set hem with h | h
    · exact hen e h
    · subst h; omega

/-! ## one byte: `rdsparser_string_update_single` -/

theorem ts_rej : (Store.rejected == Store.stored) = false := rfl
theorem ts_sto : (Store.stored == Store.stored) = true := rfl

theorem ts_update_single_U (s : CStr) (cap : Nat) (hs : StrOk s cap) (b ei ed pos : Nat) (prog : Bool)
    (hb : b < 256) (hsum : 2 * ei + 3 * ed < 256) (hpos : pos < cap) :
    absText (c_rdsparser_string_update_single_U s (b : Int) (ei : Int) (ed : Int) (pos : Int) (b2i prog) 1).2
      = (updateSingle (cfgC true) (absText s) b ei ed pos prog).1 ∧
    (c_rdsparser_string_update_single_U s (b : Int) (ei : Int) (ed : Int) (pos : Int) (b2i prog) 1).1
      = b2i ((updateSingle (cfgC true) (absText s) b ei ed pos prog).2 == Store.stored) ∧
    StrOk (c_rdsparser_string_update_single_U s (b : Int) (ei : Int) (ed : Int) (pos : Int) (b2i prog) 1).2 cap := by
  obtain ⟨cn, en, hcn, hen⟩ := ts_cell_nat s cap hs pos hpos
  have herr := ts_calcError_le ei ed
  unfold c_rdsparser_string_update_single_U updateSingle
  simp only [calculate_error_eq ei ed hsum, getI_natCast, listSet_natCast, hcn, hen, ts_absText_get s cap hs pos hpos,
    c_rdsparser_string_convert, if_true, ts_conv_U b hb, Int.toNat_natCast]
  generalize calcError ei ed = err at herr ⊢
  generalize conv (cfgC true) b = cv
  have hst := ts_store s cap hs pos cv err (by omega)
  obtain ⟨hst1, hst2⟩ := hst
  generalize ({ size := s.size, content := s.content.set pos (cv : Int), term := s.term, errors := s.errors.set pos (err : Int) } : CStr) = s' at hst1 hst2 ⊢
  have hE1 : ((b : Int) == 13) = decide (b = 13) := by
    by_cases h : b = 13 <;> simp [h] ; omega
  have hE2 : ((ei : Int) != 0) = (ei != 0) := TransBits.natCast_bne_zero ei
  have hE2' : ((ed : Int) != 0) = (ed != 0) := TransBits.natCast_bne_zero ed
  have hE3 : decide (127 ≤ (b : Int)) = decide (127 ≤ b) := by apply decide_eq_decide.2; omega
  have hE4 : decide ((b : Int) < 32) = decide (b < 32) := by apply decide_eq_decide.2; omega
  have hE5 : ((cn : Int) == (cv : Int)) = decide (cn = cv) := by
    by_cases h : cn = cv <;> simp [h]
    omega
  have hE6 : decide ((en : Int) ≤ (err : Int)) = decide (en ≤ err) := by apply decide_eq_decide.2; omega
  have hE7 : decide ((en : Int) < (err : Int)) = decide (en < err) := by apply decide_eq_decide.2; omega
  have hE8 : (!((1 : Int) != 0)) = false := by decide
  have hE9 : (b != 13) = !decide (b = 13) := by
    by_cases h : b = 13 <;> simp [h]
  simp only [hE1, hE2, hE2', hE3, hE4, hE5, hE6, hE7, hE8, hE9, b2i_ne_zero, Bool.false_or]
  generalize (prog && decide (en < err)) = pr
  generalize decide (b = 13) = p13
  generalize (ei != 0 || ed != 0) = e
  generalize decide (127 ≤ b) = p127
  generalize decide (b < 32) = p32
  generalize (decide (cn = cv) && decide (en ≤ err)) = q
  cases pr <;> cases p13 <;> cases e <;> cases p127 <;> cases p32 <;> cases q <;>
    simp [hs, hst1, hst2, ts_rej]

theorem ts_update_single_N (s : CStr) (cap : Nat) (hs : StrOk s cap) (b ei ed pos : Nat) (prog : Bool)
    (hb : b < 256) (hsum : 2 * ei + 3 * ed < 256) (hpos : pos < cap) :
    absText (c_rdsparser_string_update_single_N s (b : Int) (ei : Int) (ed : Int) (pos : Int) (b2i prog) 1).2
      = (updateSingle (cfgC false) (absText s) b ei ed pos prog).1 ∧
    (c_rdsparser_string_update_single_N s (b : Int) (ei : Int) (ed : Int) (pos : Int) (b2i prog) 1).1
      = b2i ((updateSingle (cfgC false) (absText s) b ei ed pos prog).2 == Store.stored) ∧
    StrOk (c_rdsparser_string_update_single_N s (b : Int) (ei : Int) (ed : Int) (pos : Int) (b2i prog) 1).2 cap := by
  obtain ⟨cn, en, hcn, hen⟩ := ts_cell_nat s cap hs pos hpos
  have herr := ts_calcError_le ei ed
  have hcv : ∃ cv : Nat, cv = conv (cfgC false) b ∧
      (127 ≤ b → c_rdsparser_string_convert_N 32 = (cv : Int)) ∧
      (¬ 127 ≤ b → c_rdsparser_string_convert_N (b : Int) = (cv : Int)) := by
    refine ⟨_, rfl, ?_, ?_⟩
    · intro h
      have : ¬ b = 13 := by omega
      simp [c_rdsparser_string_convert_N, conv, cfgC, this, h]
    · intro h; exact ts_conv_N b (by omega)
  obtain ⟨cv, hcv0, hcv1, hcv2⟩ := hcv
  unfold c_rdsparser_string_update_single_N updateSingle
  simp only [calculate_error_eq ei ed hsum, getI_natCast, listSet_natCast, hcn, hen, ts_absText_get s cap hs pos hpos,
    c_rdsparser_string_convert, Bool.false_eq_true, if_false, Int.toNat_natCast, ← hcv0]
  generalize calcError ei ed = err at herr ⊢
  have hst := ts_store s cap hs pos cv err (by omega)
  obtain ⟨hst1, hst2⟩ := hst
  have hE1 : ((b : Int) == 13) = decide (b = 13) := by
    by_cases h : b = 13 <;> simp [h] ; omega
  have hE2 : ((ei : Int) != 0) = (ei != 0) := TransBits.natCast_bne_zero ei
  have hE2' : ((ed : Int) != 0) = (ed != 0) := TransBits.natCast_bne_zero ed
  have hE4 : decide ((b : Int) < 32) = decide (b < 32) := by apply decide_eq_decide.2; omega
  have hE5 : ((cn : Int) == (cv : Int)) = decide (cn = cv) := by
    by_cases h : cn = cv <;> simp [h]
    omega
  have hE6 : decide ((en : Int) ≤ (err : Int)) = decide (en ≤ err) := by apply decide_eq_decide.2; omega
  have hE7 : decide ((en : Int) < (err : Int)) = decide (en < err) := by apply decide_eq_decide.2; omega
  have hE8 : (!((1 : Int) != 0)) = false := by decide
  have hE9 : (b != 13) = !decide (b = 13) := by
    by_cases h : b = 13 <;> simp [h]
  by_cases h127 : 127 ≤ b
  · have hE3 : decide (127 ≤ (b : Int)) = true := by apply decide_eq_true; omega
    have hE3' : decide (127 ≤ b) = true := decide_eq_true h127
    simp only [hE3, hE3', if_true, hcv1 h127]
    generalize ({ size := s.size, content := s.content.set pos (cv : Int), term := s.term, errors := s.errors.set pos (err : Int) } : CStr) = s' at hst1 hst2 ⊢
    simp only [hE1, hE2, hE2', hE4, hE5, hE6, hE7, hE8, hE9, b2i_ne_zero, Bool.false_or]
    generalize (prog && decide (en < err)) = pr
    generalize decide (b = 13) = p13
    generalize (ei != 0 || ed != 0) = e
    generalize decide (b < 32) = p32
    generalize (decide (cn = cv) && decide (en ≤ err)) = q
    cases pr <;> cases p13 <;> cases e <;> cases p32 <;> cases q <;>
      simp [hs, hst1, hst2, ts_rej]
  · have hE3 : decide (127 ≤ (b : Int)) = false := by apply decide_eq_false; omega
    have hE3' : decide (127 ≤ b) = false := decide_eq_false h127
    simp only [hE3, hE3', Bool.false_eq_true, if_false, hcv2 h127]
    generalize ({ size := s.size, content := s.content.set pos (cv : Int), term := s.term, errors := s.errors.set pos (err : Int) } : CStr) = s' at hst1 hst2 ⊢
    simp only [hE1, hE2, hE2', hE4, hE5, hE6, hE7, hE8, hE9, b2i_ne_zero, Bool.false_or]
    generalize (prog && decide (en < err)) = pr
    generalize decide (b = 13) = p13
    generalize (ei != 0 || ed != 0) = e
    generalize decide (b < 32) = p32
    generalize (decide (cn = cv) && decide (en ≤ err)) = q
    cases pr <;> cases p13 <;> cases e <;> cases p32 <;> cases q <;>
      simp [hs, hst1, hst2, ts_rej]

/-- one byte: the translated `rdsparser_string_update_single` IS the model's `updateSingle` -/
theorem update_single_refines (u : Bool) (s : CStr) (cap : Nat) (hs : StrOk s cap) (b ei ed pos : Nat) (prog : Bool)
    (hb : b < 256) (hsum : 2 * ei + 3 * ed < 256) (hpos : pos < cap) :
    let r := c_rdsparser_string_update_single u s (b : Int) (ei : Int) (ed : Int) (pos : Int) (b2i prog) 1
    let m := updateSingle (cfgC u) (absText s) b ei ed pos prog
    absText r.2 = m.1 ∧ r.1 = b2i (m.2 == Store.stored) ∧ StrOk r.2 cap := by
  cases u
  · simpa only [c_rdsparser_string_update_single, Bool.false_eq_true, if_false] using
      ts_update_single_N s cap hs b ei ed pos prog hb hsum hpos
  · simpa only [c_rdsparser_string_update_single, if_true] using
      ts_update_single_U s cap hs b ei ed pos prog hb hsum hpos

/-! ## two bytes: `rdsparser_string_update` -/

theorem ts_bor_acc (a b : Bool) :
    b2i (bor (b2i (bor 0 (b2i a) != 0)) (b2i b) != 0) = b2i (a || b) := by
  cases a <;> cases b <;> decide

/-- two bytes: `rdsparser_string_update` on a 2-byte chunk -/
theorem ts_update_refines (u : Bool) (s : CStr) (cap : Nat) (hs : StrOk s cap) (input : List Int)
    (b1 b2 ei ed pos : Nat) (prog : Bool)
    (h0 : u8 (getI input 0) = (b1 : Int)) (h1 : u8 (getI input 1) = (b2 : Int))
    (hsum : 2 * ei + 3 * ed < 256) (hpos : pos + 1 < cap) (hcap : cap ≤ 256) :
    let r := c_rdsparser_string_update u s input (ei : Int) (ed : Int) (pos : Int) (b2i prog) 1
    let m1 := updateSingle (cfgC u) (absText s) b1 ei ed pos prog
    let m2 := updateSingle (cfgC u) m1.1 b2 ei ed (pos + 1) prog
    absText r.2 = m2.1 ∧ r.1 = b2i (m1.2 == Store.stored || m2.2 == Store.stored) ∧ StrOk r.2 cap := by
  have hb1 : b1 < 256 := by have := u8_range (getI input 0); omega
  have hb2 : b2 < 256 := by have := u8_range (getI input 1); omega
  have hp0 : u8 ((pos : Int) + 0) = (pos : Int) := by apply u8_of_range <;> omega
  have hp1 : u8 ((pos : Int) + 1) = ((pos + 1 : Nat) : Int) := by rw [u8_of_range] <;> omega
  obtain ⟨a1, a2, a3⟩ := update_single_refines u s cap hs b1 ei ed pos prog hb1 hsum (by omega)
  obtain ⟨c1, c2, c3⟩ := update_single_refines u _ cap a3 b2 ei ed (pos + 1) prog hb2 hsum hpos
  simp only [c_rdsparser_string_update, ts_forRange_two, h0, h1, hp0, hp1]
  rw [a1] at c1 c2
  refine ⟨c1, ?_, c3⟩
  rw [a2, c2, ts_bor_acc]

/-! ## the threshold gate: `rdsparser_parser_update_string` -/

/-- the three text indices of the C API and the model's `TextId` -/
def ts_idOf (text : Nat) : TextId := if text = 0 then .ps else if text = 1 then .rt else .ptyn

theorem ts_corr_info (ctx : C_librdsparser) (text : Nat) (ht : text < 3) :
    (absSet ctx).corr (ts_idOf text) .info = ((getL ctx.correction (text : Int)).getD 0 0).toNat := by
  have : text = 0 ∨ text = 1 ∨ text = 2 := by omega
  rcases this with rfl | rfl | rfl <;> rfl

theorem ts_corr_data (ctx : C_librdsparser) (text : Nat) (ht : text < 3) :
    (absSet ctx).corr (ts_idOf text) .data = ((getL ctx.correction (text : Int)).getD 1 0).toNat := by
  have : text = 0 ∨ text = 1 ∨ text = 2 := by omega
  rcases this with rfl | rfl | rfl <;> rfl

theorem ts_prog (ctx : C_librdsparser) (text : Nat) (ht : text < 3) :
    (absSet ctx).prog (ts_idOf text) = (getI ctx.progressive (text : Int) != 0) := by
  have : text = 0 ∨ text = 1 ∨ text = 2 := by omega
  rcases this with rfl | rfl | rfl <;> rfl

theorem ts_corr_range (ctx : C_librdsparser) (hI : CInv ctx) (text j : Nat) (ht : text < 3) (hj : j < 2) :
    0 ≤ (getL ctx.correction (text : Int)).getD j 0 ∧ (getL ctx.correction (text : Int)).getD j 0 ≤ 2 := by
  have hl := hI.corrLen
  have h1 : text < ctx.correction.length := by omega
  have hrow := hI.corr _ (List.getElem_mem h1)
  have e : getL ctx.correction (text : Int) = ctx.correction[text] := by
    simp [getL, List.getD_eq_getElem?_getD, List.getElem?_eq_getElem h1]
  rw [e]
  have h2 : j < (ctx.correction[text]).length := by omega
  have := hrow.2 _ (List.getElem_mem h2)
  simpa [List.getD_eq_getElem?_getD, List.getElem?_eq_getElem h2] using this

theorem ts_prog_val (ctx : C_librdsparser) (hI : CInv ctx) (text : Nat) (ht : text < 3) :
    getI ctx.progressive (text : Int) = b2i ((absSet ctx).prog (ts_idOf text)) := by
  rw [ts_prog ctx text ht]
  have hl := hI.progLen
  have h1 : text < ctx.progressive.length := by omega
  have := hI.prog _ (List.getElem_mem h1)
  have e : getI ctx.progressive (text : Int) = ctx.progressive[text] := by
    simp [List.getD_eq_getElem?_getD, List.getElem?_eq_getElem h1]
  rw [e]
  rcases this with h | h <;> simp [h]

theorem ts_hi_byte (w : Nat) :
    u8 (i8 (shr (w : Int) 8)) = ((w / 256 % 256 : Nat) : Int) := by
  rw [u8_i8, TransBits.shr_lit, TransBits.u8_nat]

theorem ts_lo_byte (w : Nat) : u8 (i8 (u8 (w : Int))) = ((w % 256 : Nat) : Int) := by
  rw [u8_i8, u8_u8, TransBits.u8_nat]

/-- the shape of `rdsparser_parser_update_string`, whichever way the C writes the two threshold tests (one `if (a && b)`
with `<=`, or guard clauses `if (thr < e) return false;`): gate, then the two bytes of the block to `string_update` -/
theorem ts_pus_shape (u : Bool) (ctx : C_librdsparser) (s : CStr) (text blk : Int) (data errors : List Int) (pos : Int) :
    c_rdsparser_parser_update_string u ctx s text blk data errors pos =
      if decide (errors.getD 1 0 ≤ (getL ctx.correction text).getD 0 0) &&
          decide (getI errors blk ≤ (getL ctx.correction text).getD 1 0) then
        ((c_rdsparser_string_update u s
            (((List.replicate 2 (0 : Int)).set 0 (i8 (shr (getI data blk) 8))).set 1 (i8 (u8 (getI data blk))))
            (errors.getD 1 0) (getI errors blk) pos (getI ctx.progressive text) 1).1,
         (c_rdsparser_string_update u s
            (((List.replicate 2 (0 : Int)).set 0 (i8 (shr (getI data blk) 8))).set 1 (i8 (u8 (getI data blk))))
            (errors.getD 1 0) (getI errors blk) pos (getI ctx.progressive text) 1).2)
      else ((0 : Int), s) := by
  unfold c_rdsparser_parser_update_string
  simp only []
  repeat' split
  all_goals first
    | rfl
    | (simp only [Bool.and_eq_true, decide_eq_true_eq, Bool.and_eq_false_iff, decide_eq_false_iff_not, not_and, Int.not_le, Int.not_lt] at *; omega)

theorem ts_parser_update (u : Bool) (ctx : C_librdsparser) (hI : CInv ctx) (s : CStr) (cap : Nat)
    (hs : StrOk s cap) (g : Group) (text : Nat) (ht : text < 3) (blk w ex pos : Nat)
    (hdat : getI (dataOf g) (blk : Int) = (w : Int)) (herrx : getI (errorsOf g) (blk : Int) = (ex : Int))
    (hpos : pos + 1 < cap) (hcap : cap ≤ 256) :
    let r := c_rdsparser_parser_update_string u ctx s (text : Int) (blk : Int) (dataOf g) (errorsOf g) (pos : Int)
    let m := parserUpdate (cfgC u) (absSet ctx) (absText s) (ts_idOf text) w g.eb ex pos
    absText r.2 = m.1 ∧ (r.1 != 0) = m.2 ∧ (r.1 = 0 ∨ r.1 = 1) ∧ StrOk r.2 cap := by
  obtain ⟨i0, i1⟩ := ts_corr_range ctx hI text 0 ht (by omega)
  obtain ⟨d0, d1⟩ := ts_corr_range ctx hI text 1 ht (by omega)
  have hebC : (errorsOf g).getD 1 0 = (g.eb : Int) := rfl
  rw [ts_pus_shape]
  unfold parserUpdate
  simp only [hebC, herrx, hdat, ts_corr_info ctx text ht, ts_corr_data ctx text ht]
  generalize (getL ctx.correction (text : Int)).getD 0 0 = ci at i0 i1 ⊢
  generalize (getL ctx.correction (text : Int)).getD 1 0 = cd at d0 d1 ⊢
  by_cases hgate : g.eb ≤ ci.toNat ∧ ex ≤ cd.toNat
  · have hC : (decide ((g.eb : Int) ≤ ci) && decide ((ex : Int) ≤ cd)) = true := by
      simp; omega
    have hM : (decide (g.eb ≤ ci.toNat) && decide (ex ≤ cd.toNat)) = true := by
      simp; omega
    simp only [hC, hM, if_true, updateString, ts_prog_val ctx hI text ht]
    have hsum : 2 * g.eb + 3 * ex < 256 := by omega
    have h := ts_update_refines u s cap hs
      (((List.replicate 2 (0 : Int)).set 0 (i8 (shr (w : Int) 8))).set 1 (i8 (u8 (w : Int))))
      (w / 256 % 256) (w % 256) g.eb ex pos ((absSet ctx).prog (ts_idOf text))
      (ts_hi_byte w) (ts_lo_byte w) hsum hpos hcap
    obtain ⟨h1, h2, h3⟩ := h
    refine ⟨h1, ?_, ?_, h3⟩
    · rw [h2, b2i_ne_zero]
    · rw [h2]; generalize (_ || _ : Bool) = bb; cases bb <;> simp
  · have hC : (decide ((g.eb : Int) ≤ ci) && decide ((ex : Int) ≤ cd)) = false := by
      simp; omega
    have hM : (decide (g.eb ≤ ci.toNat) && decide (ex ≤ cd.toNat)) = false := by
      simp; omega
    simp [hC, hM, hs]

/-- a 16-bit block through the threshold gate: the translated `rdsparser_parser_update_string` IS `parserUpdate`.
`context` is only read for `correction[text][·]` and `progressive[text]`.
The hypothesis `hcap` is necessary: the C code computes the cell index as `(uint8_t)(position + i)`
(see `ts_parser_update_string_cap_needed`). -/
theorem parser_update_string_refines (u : Bool) (ctx : C_librdsparser) (hI : CInv ctx) (s : CStr) (cap : Nat)
    (hs : StrOk s cap) (g : Group) (hg : g.Bounded) (text blk pos : Nat) (ht : text < 3) (hblk : blk = 2 ∨ blk = 3)
    (hpos : pos + 1 < cap) (hcap : cap ≤ 256) :
    let id : TextId := if text = 0 then .ps else if text = 1 then .rt else .ptyn
    let w : Nat := if blk = 2 then g.c else g.d
    let ex : Nat := if blk = 2 then g.ec else g.ed
    let r := c_rdsparser_parser_update_string u ctx s (text : Int) (blk : Int) (dataOf g) (errorsOf g) (pos : Int)
    let m := parserUpdate (cfgC u) (absSet ctx) (absText s) id w g.eb ex pos
    absText r.2 = m.1 ∧ (r.1 != 0) = m.2 ∧ (r.1 = 0 ∨ r.1 = 1) ∧ StrOk r.2 cap := by
  rcases hblk with rfl | rfl
  · exact ts_parser_update u ctx hI s cap hs g text ht 2 g.c g.ec pos rfl rfl hpos hcap
  · exact ts_parser_update u ctx hI s cap hs g text ht 3 g.d g.ed pos rfl rfl hpos hcap

/-! ## the three `forRange string.size` loops -/

theorem ts_absText_length (s : CStr) (cap : Nat) (hs : StrOk s cap) : (absText s).length = cap := by
  obtain ⟨_, hc, he, _⟩ := hs
  simp [absText, hc, he]

theorem ts_absText_getElem? (s : CStr) (i : Nat) :
    (absText s)[i]? = match s.content[i]?, s.errors[i]? with
      | some c, some e => some ⟨c.toNat, e.toNat⟩
      | _, _ => none := by
  simp only [absText, List.getElem?_zipWith]
  cases s.content[i]? <;> cases s.errors[i]? <;> rfl

/-- `string_clear` after `k` iterations -/
def ts_clearK (s : CStr) (k : Nat) : CStr :=
  (List.range k).foldl (fun (string : CStr) (i : Nat) =>
    { string with content := (listSet string.content (i : Int) 32), errors := listSet string.errors (i : Int) 10 }) s

theorem ts_clear_eq (s : CStr) (cap : Nat) (hs : s.size = (cap : Int)) :
    c_rdsparser_string_clear s = ts_clearK s cap := by
  unfold c_rdsparser_string_clear ts_clearK
  simp only [hs, forRange_eq]

theorem ts_clearK_spec (s : CStr) (k : Nat) :
    (ts_clearK s k).size = s.size ∧ (ts_clearK s k).term = s.term ∧
    (ts_clearK s k).content.length = s.content.length ∧ (ts_clearK s k).errors.length = s.errors.length ∧
    (∀ i, (ts_clearK s k).content[i]? = if i < k then (s.content[i]?).map (fun _ => 32) else s.content[i]?) ∧
    (∀ i, (ts_clearK s k).errors[i]? = if i < k then (s.errors[i]?).map (fun _ => 10) else s.errors[i]?) := by
  induction k with
  | zero => simp [ts_clearK]
  | succ k ih =>
    obtain ⟨h1, h2, h3, h4, h5, h6⟩ := ih
    have e : ts_clearK s (k + 1) =
        { ts_clearK s k with content := (ts_clearK s k).content.set k 32, errors := (ts_clearK s k).errors.set k 10 } := by
      simp [ts_clearK, List.range_succ, List.foldl_append]
    rw [e]
    refine ⟨h1, h2, by simpa using h3, by simpa using h4, ?_, ?_⟩
    · intro i
      simp only [List.getElem?_set, h5, h3]
      by_cases hik : k = i
      · subst hik
        by_cases hl : k < s.content.length
        · simp [hl]
        · simp [hl, List.getElem?_eq_none (Nat.le_of_not_lt hl)]
      · by_cases hlt : i < k
        · have : i < k + 1 := by omega
          simp [hik, hlt, this]
        · have : ¬ i < k + 1 := by omega
          simp [hik, hlt, this]
    · intro i
      simp only [List.getElem?_set, h6, h4]
      by_cases hik : k = i
      · subst hik
        by_cases hl : k < s.errors.length
        · simp [hl]
        · simp [hl, List.getElem?_eq_none (Nat.le_of_not_lt hl)]
      · by_cases hlt : i < k
        · have : i < k + 1 := by omega
          simp [hik, hlt, this]
        · have : ¬ i < k + 1 := by omega
          simp [hik, hlt, this]

theorem string_clear_refines (s : CStr) (cap : Nat) (hs : StrOk s cap) :
    absText (c_rdsparser_string_clear s) = (absText s).cleared ∧ StrOk (c_rdsparser_string_clear s) cap := by
  obtain ⟨h0, hc, he, ht, hcn, hen⟩ := hs
  rw [ts_clear_eq s cap h0]
  obtain ⟨h1, h2, h3, h4, h5, h6⟩ := ts_clearK_spec s cap
  refine ⟨?_, ?_⟩
  · apply List.ext_getElem?
    intro i
    rw [ts_absText_getElem?, h5, h6]
    simp only [Text.cleared, List.getElem?_map, ts_absText_getElem?]
    by_cases hi : i < cap
    · have a : i < s.content.length := by omega
      have b : i < s.errors.length := by omega
      simp [hi, List.getElem?_eq_getElem a, List.getElem?_eq_getElem b, blank]
    · have a : s.content.length ≤ i := by omega
      have b : s.errors.length ≤ i := by omega
      simp [hi, List.getElem?_eq_none a, List.getElem?_eq_none b]
  · refine ⟨h1.trans h0, h3.trans hc, h4.trans he, h2.trans ht, ?_, ?_⟩
    · intro c hcm
      obtain ⟨i, hi, rfl⟩ := List.getElem_of_mem hcm
      have := h5 i
      rw [List.getElem?_eq_getElem hi] at this
      have a : i < s.content.length := by omega
      by_cases hik : i < cap
      · simp [hik, List.getElem?_eq_getElem a] at this; omega
      · omega
    · intro c hcm
      obtain ⟨i, hi, rfl⟩ := List.getElem_of_mem hcm
      have := h6 i
      rw [List.getElem?_eq_getElem hi] at this
      have a : i < s.errors.length := by omega
      by_cases hik : i < cap
      · simp [hik, List.getElem?_eq_getElem a] at this; omega
      · omega


/-- the early-exit scan loop the translator emits for `for (...) if (p i) return f i;` -/
def ts_scan (p : Nat → Bool) (f : Nat → Int) (k : Nat) : Option Int :=
  (List.range k).foldl (fun (acc : Option Int) (i : Nat) =>
    if acc.isSome then acc else if p i then some (f i) else none) none

theorem ts_scan_succ (p : Nat → Bool) (f : Nat → Int) (k : Nat) :
    ts_scan p f (k + 1) = if (ts_scan p f k).isSome then ts_scan p f k else if p k then some (f k) else none := by
  simp only [ts_scan, List.range_succ, List.foldl_append, List.foldl_cons, List.foldl_nil]
  rfl

/-- the scan over indices is `findIdx?` on the first `k` cells of any list whose cells decide `p` -/
theorem ts_scan_spec {α : Type} (t : List α) (q : α → Bool) (p : Nat → Bool) (f : Nat → Int)
    (hp : ∀ i (h : i < t.length), p i = q t[i]) (k : Nat) (hk : k ≤ t.length) :
    ts_scan p f k = ((t.take k).findIdx? q).map f := by
  induction k with
  | zero => simp [ts_scan]
  | succ k ih =>
    have hk' : k < t.length := by omega
    rw [ts_scan_succ, ih (by omega), List.take_succ_eq_append_getElem hk', List.findIdx?_append]
    cases h : (t.take k).findIdx? q with
    | some j => simp
    | none =>
      simp only [Option.map_none, Option.isSome_none, Bool.false_eq_true, if_false, Option.none_or,
        List.findIdx?_singleton, hp k hk']
      by_cases hq : q t[k] = true
      · simp [hq, List.length_take, Nat.min_eq_left (Nat.le_of_lt hk')]
      · simp [hq]

theorem ts_absText_getElem (s : CStr) (cap : Nat) (hs : StrOk s cap) (i : Nat) (h : i < (absText s).length) :
    (absText s)[i] = ⟨(s.content.getD i 0).toNat, (s.errors.getD i 0).toNat⟩ := by
  have hl := ts_absText_length s cap hs
  obtain ⟨_, hc, he, _⟩ := hs
  have h1 : i < s.content.length := by omega
  have h2 : i < s.errors.length := by omega
  simp [absText, List.getD_eq_getElem?_getD, List.getElem?_eq_getElem h1, List.getElem?_eq_getElem h2]

theorem ts_cell_nonneg (s : CStr) (cap : Nat) (hs : StrOk s cap) (i : Nat) (h : i < cap) :
    0 ≤ s.content.getD i 0 ∧ 0 ≤ s.errors.getD i 0 := by
  obtain ⟨_, hc, he, _, hcn, hen⟩ := hs
  have h1 : i < s.content.length := by omega
  have h2 : i < s.errors.length := by omega
  have a := hcn _ (List.getElem_mem h1)
  have b := (hen _ (List.getElem_mem h2)).1
  simp [List.getD_eq_getElem?_getD, List.getElem?_eq_getElem h1, List.getElem?_eq_getElem h2, a, b]

theorem string_get_available_refines (s : CStr) (cap : Nat) (hs : StrOk s cap) :
    c_rdsparser_string_get_available s = b2i (getAvailable (absText s)) := by
  have hl := ts_absText_length s cap hs
  have hsz : s.size = (cap : Int) := hs.1
  have e : c_rdsparser_string_get_available s =
      match ts_scan (fun i => getI s.errors (i : Int) != 10) (fun _ => 1) cap with
      | some r => r | none => 0 := by
    unfold c_rdsparser_string_get_available ts_scan
    simp only [hsz, forRange_eq]
    rfl
  rw [e, ts_scan_spec (absText s) (fun c => c.lvl != 10) _ _ ?_ cap (by omega)]
  · rw [← hl, List.take_length]
    unfold getAvailable
    cases h : (absText s).findIdx? (fun c => c.lvl != 10) with
    | some j =>
      have : (absText s).any (fun c => c.lvl != 10) = true := by
        rw [List.findIdx?_eq_some_iff_getElem] at h
        obtain ⟨hj, hq, _⟩ := h
        exact List.any_eq_true.2 ⟨_, List.getElem_mem hj, hq⟩
      simp [this]
    | none =>
      have : (absText s).any (fun c => c.lvl != 10) = false := by
        rw [List.findIdx?_eq_none_iff] at h
        rw [List.any_eq_false]
        intro x hx; simpa using h x hx
      simp [this]
  · intro i hi
    have hn := (ts_cell_nonneg s cap hs i (by omega)).2
    rw [ts_absText_getElem s cap hs i hi]
    simp only [getI_natCast]
    generalize s.errors.getD i 0 = x at hn ⊢
    by_cases hx : x = 10
    · subst hx; rfl
    · have : ¬ x.toNat = 10 := by omega
      rw [Bool.eq_iff_iff]; simp [hx, this]

theorem string_get_length_refines (s : CStr) (cap : Nat) (hs : StrOk s cap) :
    c_rdsparser_string_get_length s = (getLength (absText s) : Nat) := by
  have hl := ts_absText_length s cap hs
  have hsz : s.size = (cap : Int) := hs.1
  have e : c_rdsparser_string_get_length s =
      match ts_scan (fun i => getI s.content (i : Int) == 0) (fun i => (i : Int)) cap with
      | some r => r | none => (cap : Int) := by
    unfold c_rdsparser_string_get_length ts_scan
    simp only [hsz, forRange_eq]
    rfl
  rw [e, ts_scan_spec (absText s) (fun c => c.ch == 0) _ _ ?_ cap (by omega)]
  · rw [← hl, List.take_length]
    unfold getLength
    cases h : (absText s).findIdx? (fun c => c.ch == 0) with
    | some j => simp
    | none => simp
  · intro i hi
    have hn := (ts_cell_nonneg s cap hs i (by omega)).1
    rw [ts_absText_getElem s cap hs i hi]
    simp only [getI_natCast]
    generalize s.content.getD i 0 = x at hn ⊢
    by_cases hx : x = 0
    · subst hx; rfl
    · have : ¬ x.toNat = 0 := by omega
      rw [Bool.eq_iff_iff]; simp [hx, this]

/-! ## the counterexample to `parser_update_string_refines` without `cap ≤ 256` -/

def ts_blankStr (n : Nat) : CStr := ⟨n, List.replicate n 32, 0, List.replicate n 10⟩
def ts_cexCtx : C_librdsparser :=
  let z := C_librdsparser.zero
  let z := { z with ps := ts_blankStr 8 }
  let z := { z with rt := [ts_blankStr 64, ts_blankStr 64] }
  let z := { z with ptyn := ts_blankStr 8 }
  { z with last_rt_flag := -1 }
def ts_cexG : Group := ⟨0, 0, 0x4142, 0, 0, 0, 0, 0⟩

theorem ts_blankStr_ok (n : Nat) : StrOk (ts_blankStr n) n := by
  refine ⟨rfl, by simp [ts_blankStr], by simp [ts_blankStr], rfl, ?_, ?_⟩
  · intro c hc; simp [ts_blankStr] at hc; omega
  · intro c hc; simp [ts_blankStr] at hc; omega

theorem ts_dataOk_zero : DataOk C_rdsparser_buffer_data.zero := by
  refine ⟨by decide, by decide, by decide, by decide, by decide, by decide, by decide, by decide, by decide,
    by decide, by decide, by decide, by decide, by decide, by decide, by decide⟩

theorem ts_cexCtx_inv : CInv ts_cexCtx where
  used := ts_dataOk_zero
  temp := ts_dataOk_zero
  ext := Or.inl rfl
  ps := ts_blankStr_ok 8
  rtLen := rfl
  rt0 := ts_blankStr_ok 64
  rt1 := ts_blankStr_ok 64
  ptyn := ts_blankStr_ok 8
  progLen := rfl
  prog := by decide
  corrLen := rfl
  corr := by decide
  lastRt := Or.inl rfl
  ud := by decide

/-- `parser_update_string_refines` is false without `cap ≤ 256`: the C code indexes with
`(uint8_t)(position + i)`. Capacity 258, position 256: C writes cells 0 and 1, the model 256 and 257. -/
theorem ts_parser_update_string_cap_needed :
    CInv ts_cexCtx ∧ StrOk (ts_blankStr 258) 258 ∧ ts_cexG.Bounded ∧ 256 + 1 < 258 ∧
    absText (c_rdsparser_parser_update_string true ts_cexCtx (ts_blankStr 258) ((0 : Nat) : Int) ((2 : Nat) : Int)
        (dataOf ts_cexG) (errorsOf ts_cexG) ((256 : Nat) : Int)).2 ≠
      (parserUpdate (cfgC true) (absSet ts_cexCtx) (absText (ts_blankStr 258)) .ps ts_cexG.c ts_cexG.eb ts_cexG.ec 256).1 := by
  refine ⟨ts_cexCtx_inv, ts_blankStr_ok 258, by unfold Group.Bounded; decide, by decide, ?_⟩
  decide +kernel

end RDS.C

#print axioms RDS.C.update_single_refines
#print axioms RDS.C.parser_update_string_refines
#print axioms RDS.C.string_clear_refines
#print axioms RDS.C.string_get_available_refines
#print axioms RDS.C.string_get_length_refines
#print axioms RDS.C.ts_parser_update_string_cap_needed
