import RdsModel
import RdsSpec.Monitors
import RdsSpec.Statements
import RdsProofs.Frame
import RdsProofs.C15Proofs
import RdsProofs.ExtraC07
/-!
# RdsProofs.ExtraProofs — C09 (texts and clock time are independent of the extended check) and
C07 over histories (levels are antitone under progressive correction)
-/
namespace RDS

/-- the part of a state that text decoding and clock time depend on and produce: the four texts, the last RT flag,
all settings except the extended-check flag, and the observer table -/
def textView (s : State) : Text × Text × Text × Text × Int × (Bool × Bool × Bool × Nat × Nat × Nat × Nat × Nat × Nat) × List Bool × Nat :=
  (s.ps, s.rt0, s.rt1, s.ptyn, s.lastRt,
   (s.set.progPs, s.set.progRt, s.set.progPtyn, s.set.psInfo, s.set.psData, s.set.rtInfo, s.set.rtData, s.set.ptynInfo, s.set.ptynData),
   s.cbs, s.ud)

/-- kinds (with their arguments) of the text and clock-time callbacks, in order -/
def textKinds (evs : List Event) : List EvKind :=
  (evs.map (·.kind)).filter (fun k => match k with | .ps | .rt _ | .ptyn | .ct _ => true | _ => false)

/-- op lists that differ only in the values written by `set_extended_check` -/
inductive ExtRel : List Op → List Op → Prop
  | nil : ExtRel [] []
  | same (op : Op) {a b : List Op} : ExtRel a b → ExtRel (op :: a) (op :: b)
  | ext (v w : Bool) {a b : List Op} : ExtRel a b → ExtRel (.setExt v :: a) (.setExt w :: b)

/-- ops after which text `t`'s progressive flag is certainly still on and the text was not reset -/
def keepsProg (t : TextId) : Op → Bool
  | .init | .clear => false
  | .setProg t' v => !(t' == t && v == false)
  | _ => true

/-! ## Part 1 — C09: the text view -/

/-- `textView` equality, field by field -/
structure ex_TV (s1 s2 : State) : Prop where
  ps : s1.ps = s2.ps
  rt0 : s1.rt0 = s2.rt0
  rt1 : s1.rt1 = s2.rt1
  ptyn : s1.ptyn = s2.ptyn
  lastRt : s1.lastRt = s2.lastRt
  progPs : s1.set.progPs = s2.set.progPs
  progRt : s1.set.progRt = s2.set.progRt
  progPtyn : s1.set.progPtyn = s2.set.progPtyn
  psInfo : s1.set.psInfo = s2.set.psInfo
  psData : s1.set.psData = s2.set.psData
  rtInfo : s1.set.rtInfo = s2.set.rtInfo
  rtData : s1.set.rtData = s2.set.rtData
  ptynInfo : s1.set.ptynInfo = s2.set.ptynInfo
  ptynData : s1.set.ptynData = s2.set.ptynData
  cbs : s1.cbs = s2.cbs
  ud : s1.ud = s2.ud

theorem ex_tv_of {s1 s2 : State} (h : textView s1 = textView s2) : ex_TV s1 s2 := by
  simp only [textView, Prod.mk.injEq] at h
  obtain ⟨a, b, c, d, e, ⟨f1, f2, f3, f4, f5, f6, f7, f8, f9⟩, g, i⟩ := h
  exact ⟨a, b, c, d, e, f1, f2, f3, f4, f5, f6, f7, f8, f9, g, i⟩

theorem ex_TV.view {s1 s2 : State} (h : ex_TV s1 s2) : textView s1 = textView s2 := by
  unfold textView
  rw [h.ps, h.rt0, h.rt1, h.ptyn, h.lastRt, h.progPs, h.progRt, h.progPtyn, h.psInfo, h.psData, h.rtInfo,
    h.rtData, h.ptynInfo, h.ptynData, h.cbs, h.ud]

theorem ex_TV.corr {s1 s2 : State} (h : ex_TV s1 s2) (id : TextId) (k : BlockType) :
    s1.set.corr id k = s2.set.corr id k := by
  cases id <;> cases k
  · exact h.psInfo
  · exact h.psData
  · exact h.rtInfo
  · exact h.rtData
  · exact h.ptynInfo
  · exact h.ptynData

theorem ex_TV.prog {s1 s2 : State} (h : ex_TV s1 s2) (id : TextId) : s1.set.prog id = s2.set.prog id := by
  cases id
  · exact h.progPs
  · exact h.progRt
  · exact h.progPtyn

theorem ex_TV.rt {s1 s2 : State} (h : ex_TV s1 s2) (fl : Nat) : s1.rt fl = s2.rt fl := by
  unfold State.rt; split
  · exact h.rt0
  · exact h.rt1

theorem ex_TV.setRt {s1 s2 : State} (h : ex_TV s1 s2) (fl : Nat) {t1 t2 : Text} (ht : t1 = t2) :
    ex_TV (s1.setRt fl t1) (s2.setRt fl t2) := by
  unfold State.setRt; split
  · exact ⟨h.ps, ht, h.rt1, h.ptyn, h.lastRt, h.progPs, h.progRt, h.progPtyn, h.psInfo, h.psData, h.rtInfo,
      h.rtData, h.ptynInfo, h.ptynData, h.cbs, h.ud⟩
  · exact ⟨h.ps, h.rt0, ht, h.ptyn, h.lastRt, h.progPs, h.progRt, h.progPtyn, h.psInfo, h.psData, h.rtInfo,
      h.rtData, h.ptynInfo, h.ptynData, h.cbs, h.ud⟩

theorem ex_TV.setLastRt {s1 s2 : State} (h : ex_TV s1 s2) (v : Int) :
    ex_TV { s1 with lastRt := v } { s2 with lastRt := v } :=
  ⟨h.ps, h.rt0, h.rt1, h.ptyn, rfl, h.progPs, h.progRt, h.progPtyn, h.psInfo, h.psData, h.rtInfo,
    h.rtData, h.ptynInfo, h.ptynData, h.cbs, h.ud⟩

theorem ex_TV.setPs {s1 s2 : State} (h : ex_TV s1 s2) {t1 t2 : Text} (ht : t1 = t2) :
    ex_TV { s1 with ps := t1 } { s2 with ps := t2 } :=
  ⟨ht, h.rt0, h.rt1, h.ptyn, h.lastRt, h.progPs, h.progRt, h.progPtyn, h.psInfo, h.psData, h.rtInfo,
    h.rtData, h.ptynInfo, h.ptynData, h.cbs, h.ud⟩

theorem ex_TV.setPtyn {s1 s2 : State} (h : ex_TV s1 s2) {t1 t2 : Text} (ht : t1 = t2) :
    ex_TV { s1 with ptyn := t1 } { s2 with ptyn := t2 } :=
  ⟨h.ps, h.rt0, h.rt1, ht, h.lastRt, h.progPs, h.progRt, h.progPtyn, h.psInfo, h.psData, h.rtInfo,
    h.rtData, h.ptynInfo, h.ptynData, h.cbs, h.ud⟩

/-- the threshold gate and the progressive flag are all `parserUpdate` reads of the settings -/
theorem ex_parserUpdate_congr (cfg : Cfg) {s1 s2 : State} (h : ex_TV s1 s2) {t1 t2 : Text} (ht : t1 = t2)
    (id : TextId) (w eb ex pos : Nat) :
    parserUpdate cfg s1.set t1 id w eb ex pos = parserUpdate cfg s2.set t2 id w eb ex pos := by
  unfold parserUpdate
  rw [h.corr id .info, h.corr id .data, h.prog id, ht]

/-! ### `textKinds` -/

theorem ex_tk_append (a b : List Event) : textKinds (a ++ b) = textKinds a ++ textKinds b := by
  simp only [textKinds, List.map_append, List.filter_append]

theorem ex_tk_emit_congr (s1 s2 : State) (c : Cb) (k : EvKind) (hc : s1.cbs = s2.cbs) :
    textKinds (emit s1 c k) = textKinds (emit s2 c k) := by
  unfold emit State.registered
  rw [hc]
  split <;> rfl

theorem ex_tk_setField (s : State) (f : Fld) (v : Int) : textKinds (setField s f v).2 = [] := by
  rw [c15_setField_snd]
  split
  · unfold emit
    split
    · cases f <;> rfl
    · rfl
  · rfl

theorem ex_tk_addAf (s : State) (v : Nat) : textKinds (addAf s v).2 = [] := by
  by_cases h1 : afGet s.used.af v = true
  · rw [c15_addAf_eq1 s v h1]; rfl
  · by_cases h2 : (s.set.ext && !afGet s.temp.af v) = true
    · rw [c15_addAf_eq2 s v h1 h2]; rfl
    · rw [c15_addAf_eq3 s v h1 h2]
      show textKinds (if _ then _ else _) = []
      split
      · unfold emit
        split <;> rfl
      · rfl

theorem ex_tv_setField (s : State) (f : Fld) (v : Int) : textView (setField s f v).1 = textView s := rfl

theorem ex_tv_addAf (s : State) (v : Nat) : textView (addAf s v).1 = textView s := by
  unfold textView
  simp only [addAf_set, addAf_ps, addAf_rt0, addAf_rt1, addAf_ptyn, addAf_lastRt, addAf_cbs, addAf_ud]

/-! ### handlers that depend only on the text view; silent handlers -/

/-- the handler maps equal views to equal views and fires the same text / clock-time callbacks -/
def ex_Dep (h : State → State × List Event) : Prop :=
  ∀ s1 s2, textView s1 = textView s2 →
    textView (h s1).1 = textView (h s2).1 ∧ textKinds (h s1).2 = textKinds (h s2).2

/-- the handler keeps the view and fires no text / clock-time callback -/
def ex_Silent (h : State → State × List Event) : Prop :=
  ∀ s, textView (h s).1 = textView s ∧ textKinds (h s).2 = []

theorem ex_silent_id : ex_Silent (fun s => (s, [])) := fun _ => ⟨rfl, rfl⟩

theorem ex_silent_seq {h1 h2 : State → State × List Event} (p1 : ex_Silent h1) (p2 : ex_Silent h2) :
    ex_Silent (c15_seq h1 h2) := by
  intro s
  show textView (h2 (h1 s).1).1 = textView s ∧ textKinds ((h1 s).2 ++ (h2 (h1 s).1).2) = []
  rw [ex_tk_append, (p1 s).2, (p2 _).2, (p2 _).1, (p1 s).1]
  exact ⟨rfl, rfl⟩

theorem ex_silent_ite {h1 h2 : State → State × List Event} (p : Prop) [Decidable p]
    (p1 : ex_Silent h1) (p2 : ex_Silent h2) : ex_Silent (fun s => if p then h1 s else h2 s) := by
  intro s
  by_cases hp : p
  · simp only [hp, if_true]; exact p1 s
  · simp only [hp, if_false]; exact p2 s

theorem ex_silent_setField (f : Fld) (v : State → Int) : ex_Silent (fun s => setField s f (v s)) :=
  fun s => ⟨ex_tv_setField s f (v s), ex_tk_setField s f (v s)⟩

theorem ex_silent_addAf (v : Nat) : ex_Silent (fun s => addAf s v) :=
  fun s => ⟨ex_tv_addAf s v, ex_tk_addAf s v⟩

theorem ex_silent_groupCommon (g : Group) : ex_Silent (fun s => groupCommon s g) := by
  have e : (fun s => groupCommon s g) =
      c15_seq (fun s => if g.ea = 0 then setField s .pi g.a else (s, []))
        (fun s => if g.eb = 0 then
            c15_seq (fun s => setField s .pty (g.b / 32 % 32 : Nat)) (fun s => setField s .tp (g.b / 1024 % 2 : Nat)) s
          else (s, [])) := by
    funext s
    unfold groupCommon c15_seq
    by_cases hb : g.eb = 0
    · simp only [hb, if_true, List.append_assoc]
    · simp only [hb, if_false, List.append_nil]
  rw [e]
  exact ex_silent_seq (ex_silent_ite _ (ex_silent_setField .pi (fun _ => g.a)) ex_silent_id)
    (ex_silent_ite _ (ex_silent_seq (ex_silent_setField .pty (fun _ => (g.b / 32 % 32 : Nat)))
      (ex_silent_setField .tp (fun _ => (g.b / 1024 % 2 : Nat)))) ex_silent_id)

theorem ex_silent_group1 (cfg : Cfg) (g : Group) : ex_Silent (fun s => group1 cfg s g) := by
  have e : (fun s => group1 cfg s g) =
      (fun s => if (!g.versionB && g.eb = 0 && g.ec = 0 && g.c / 4096 % 8 = 0) then
          c15_seq (fun s => setField s .ecc (g.c % 256 : Nat))
            (fun s => setField s .country (eccLookup cfg s.used.pi (g.c % 256 : Nat))) s
        else (s, [])) := rfl
  rw [e]
  exact ex_silent_ite _ (ex_silent_seq (ex_silent_setField .ecc (fun _ => (g.c % 256 : Nat)))
    (ex_silent_setField .country (fun s => eccLookup cfg s.used.pi (g.c % 256 : Nat)))) ex_silent_id

theorem ex_dep_of_silent {h : State → State × List Event} (hs : ex_Silent h) : ex_Dep h := by
  intro s1 s2 e
  refine ⟨?_, ?_⟩
  · rw [(hs s1).1, (hs s2).1, e]
  · rw [(hs s1).2, (hs s2).2]

theorem ex_dep_seq {h1 h2 : State → State × List Event} (p1 : ex_Dep h1) (p2 : ex_Dep h2) :
    ex_Dep (c15_seq h1 h2) := by
  intro s1 s2 e
  have a := p1 s1 s2 e
  have b := p2 _ _ a.1
  refine ⟨b.1, ?_⟩
  show textKinds ((h1 s1).2 ++ (h2 (h1 s1).1).2) = textKinds ((h1 s2).2 ++ (h2 (h1 s2).1).2)
  rw [ex_tk_append, ex_tk_append, a.2, b.2]

theorem ex_dep_ite {h1 h2 : State → State × List Event} (p : Prop) [Decidable p]
    (p1 : ex_Dep h1) (p2 : ex_Dep h2) : ex_Dep (fun s => if p then h1 s else h2 s) := by
  intro s1 s2 e
  by_cases hp : p
  · simp only [hp, if_true]; exact p1 s1 s2 e
  · simp only [hp, if_false]; exact p2 s1 s2 e

/-- a state update followed by at most one notification -/
theorem ex_dep_upd (upd : State → State) (fire : State → Bool) (c : Cb) (k : EvKind)
    (hupd : ∀ s1 s2, ex_TV s1 s2 → ex_TV (upd s1) (upd s2))
    (hfire : ∀ s1 s2, ex_TV s1 s2 → fire s1 = fire s2) :
    ex_Dep (fun s => (upd s, if fire s then emit (upd s) c k else [])) := by
  intro s1 s2 e
  have h := ex_tv_of e
  have hu := hupd s1 s2 h
  refine ⟨hu.view, ?_⟩
  show textKinds (if fire s1 then emit (upd s1) c k else []) = textKinds (if fire s2 then emit (upd s2) c k else [])
  rw [hfire s1 s2 h]
  cases fire s2
  · rfl
  · exact ex_tk_emit_congr _ _ c k hu.cbs

/-! ### the group handlers -/

theorem ex_dep_group0 (cfg : Cfg) (g : Group) : ex_Dep (fun s => group0 cfg s g) := by
  have e : (fun s => group0 cfg s g) =
      c15_seq (c15_seq
        (fun s => if g.eb = 0 then
            c15_seq (fun s => setField s .ta (g.b / 16 % 2 : Nat)) (fun s => setField s .ms (g.b / 8 % 2 : Nat)) s
          else (s, []))
        (fun s => ({ s with ps := (c15_g0u cfg g s).1 },
          if (c15_g0u cfg g s).2 then emit { s with ps := (c15_g0u cfg g s).1 } .ps .ps else [])))
        (fun s => if (!g.versionB && g.eb = 0 && g.ec = 0 && g.c / 256 % 256 != 250) then
            c15_seq (fun s => addAf s (g.c / 256 % 256)) (fun s => addAf s (g.c % 256)) s
          else (s, [])) := by
    funext s
    unfold group0 c15_seq
    by_cases hc : (!g.versionB && g.eb = 0 && g.ec = 0 && g.c / 256 % 256 != 250) = true
    · simp only [hc, if_true, c15_g0u, List.append_assoc]
    · simp only [hc, if_false, c15_g0u, List.append_nil, Bool.false_eq_true]
  rw [e]
  have hu : ∀ s1 s2, ex_TV s1 s2 → c15_g0u cfg g s1 = c15_g0u cfg g s2 := by
    intro s1 s2 h
    exact ex_parserUpdate_congr cfg h h.ps .ps g.d g.eb g.ed (2 * (g.b % 4))
  refine ex_dep_seq (ex_dep_seq ?_ ?_) ?_
  · exact ex_dep_of_silent (ex_silent_ite _ (ex_silent_seq (ex_silent_setField .ta (fun _ => (g.b / 16 % 2 : Nat)))
      (ex_silent_setField .ms (fun _ => (g.b / 8 % 2 : Nat)))) ex_silent_id)
  · exact ex_dep_upd (fun s => { s with ps := (c15_g0u cfg g s).1 }) (fun s => (c15_g0u cfg g s).2) .ps .ps
      (fun s1 s2 h => h.setPs (by rw [hu s1 s2 h])) (fun s1 s2 h => by rw [hu s1 s2 h])
  · exact ex_dep_of_silent (ex_silent_ite _ (ex_silent_seq (ex_silent_addAf _) (ex_silent_addAf _)) ex_silent_id)

theorem ex_dep_group10 (cfg : Cfg) (g : Group) : ex_Dep (fun s => group10 cfg s g) := by
  have e : (fun s => group10 cfg s g) =
      (fun s => if (!g.versionB) then
          (fun s => ({ s with ptyn := (c15_g10u cfg g s).2.1 },
            if (c15_g10u cfg g s).1.2 || (c15_g10u cfg g s).2.2 then
              emit { s with ptyn := (c15_g10u cfg g s).2.1 } .ptyn .ptyn else [])) s
        else (s, [])) := rfl
  rw [e]
  have hu : ∀ s1 s2, ex_TV s1 s2 → c15_g10u cfg g s1 = c15_g10u cfg g s2 := by
    intro s1 s2 h
    unfold c15_g10u
    simp only []
    rw [ex_parserUpdate_congr cfg h h.ptyn .ptyn g.c g.eb g.ec (4 * (g.b % 2)),
      ex_parserUpdate_congr cfg h rfl .ptyn g.d g.eb g.ed (4 * (g.b % 2) + 2)]
  exact ex_dep_ite _ (ex_dep_upd (fun s => { s with ptyn := (c15_g10u cfg g s).2.1 })
    (fun s => (c15_g10u cfg g s).1.2 || (c15_g10u cfg g s).2.2) .ptyn .ptyn
    (fun s1 s2 h => h.setPtyn (by rw [hu s1 s2 h])) (fun s1 s2 h => by rw [hu s1 s2 h]))
    (ex_dep_of_silent ex_silent_id)

theorem ex_dep_group4 (g : Group) : ex_Dep (fun s => group4 s g) := by
  intro s1 s2 e
  have h := ex_tv_of e
  show textView (group4 s1 g).1 = textView (group4 s2 g).1 ∧ textKinds (group4 s1 g).2 = textKinds (group4 s2 g).2
  rw [c15_group4_fst, c15_group4_fst, c15_group4_snd, c15_group4_snd]
  refine ⟨e, ?_⟩
  cases c15_g4ok g
  · rfl
  · simp only [if_true]
    cases ctInit (ctFields g).1 (ctFields g).2.1 (ctFields g).2.2.1 (ctFields g).2.2.2 with
    | none => rfl
    | some v => exact ex_tk_emit_congr _ _ _ _ h.cbs

theorem ex_dep_group2 (cfg : Cfg) (g : Group) : ex_Dep (fun s => group2 cfg s g) := by
  intro s1 s2 e
  have h := ex_tv_of e
  show textView (group2 cfg s1 g).1 = textView (group2 cfg s2 g).1 ∧
    textKinds (group2 cfg s1 g).2 = textKinds (group2 cfg s2 g).2
  rw [c15_group2_eq, c15_group2_eq]
  have hsw : c15_g2sw g s1 = c15_g2sw g s2 := by unfold c15_g2sw; rw [h.lastRt]
  have hclr : c15_g2clr g s1 = c15_g2clr g s2 := by
    unfold c15_g2clr; rw [hsw, h.lastRt, h.rt]
  have hpre : ex_TV (c15_g2pre g s1) (c15_g2pre g s2) := by
    unfold c15_g2pre
    rw [← hclr, ← hsw]
    have h1 : ex_TV (if c15_g2clr g s1 then s1.setRt (g.b / 16 % 2) (s1.rt (g.b / 16 % 2)).cleared else s1)
        (if c15_g2clr g s1 then s2.setRt (g.b / 16 % 2) (s2.rt (g.b / 16 % 2)).cleared else s2) := by
      cases c15_g2clr g s1
      · exact h
      · exact h.setRt _ (by rw [h.rt])
    cases c15_g2sw g s1
    · exact h1
    · exact h1.setLastRt _
  rw [← hclr]
  generalize c15_g2clr g s1 = clr
  generalize c15_g2pre g s1 = p1 at hpre
  generalize c15_g2pre g s2 = p2 at hpre
  have hg : c15_g2guard g p1 = c15_g2guard g p2 := by unfold c15_g2guard; rw [hpre.lastRt]
  have hu : c15_g2u cfg g p1 = c15_g2u cfg g p2 := by
    unfold c15_g2u
    simp only []
    rw [ex_parserUpdate_congr cfg hpre (hpre.rt (g.b / 16 % 2)) .rt g.c g.eb g.ec (4 * (g.b % 16)), hpre.rt]
    cases g.versionB
    · simp only [Bool.not_false, if_true]
      rw [ex_parserUpdate_congr cfg hpre rfl .rt g.d g.eb g.ed]
    · simp only [Bool.not_true, Bool.false_eq_true, if_false]
      rw [ex_parserUpdate_congr cfg hpre rfl .rt g.d g.eb g.ed]
  have hupd : ex_TV (c15_g2upd cfg g p1) (c15_g2upd cfg g p2) := by
    unfold c15_g2upd
    exact hpre.setRt _ (by rw [hu])
  unfold c15_g2rest
  rw [← hg, hu]
  cases c15_g2guard g p1
  · simp only [Bool.false_eq_true, if_false]
    refine ⟨hupd.view, ?_⟩
    cases (clr || (c15_g2u cfg g p2).1.2 || (c15_g2u cfg g p2).2.2)
    · rfl
    · exact ex_tk_emit_congr _ _ _ _ hupd.cbs
  · simp only [if_true]
    exact ⟨hpre.view, trivial⟩

theorem ex_dep_dispatch (cfg : Cfg) (g : Group) : ex_Dep (fun s => dispatch cfg s g) := by
  have e : (fun s => dispatch cfg s g) =
      (fun s => if g.type = 0 then group0 cfg s g
        else if g.type = 1 then group1 cfg s g
        else if g.type = 2 then group2 cfg s g
        else if g.type = 4 then group4 s g
        else if g.type = 10 then group10 cfg s g
        else (s, [])) := rfl
  rw [e]
  exact ex_dep_ite _ (ex_dep_group0 cfg g) (ex_dep_ite _ (ex_dep_of_silent (ex_silent_group1 cfg g))
    (ex_dep_ite _ (ex_dep_group2 cfg g) (ex_dep_ite _ (ex_dep_group4 g) (ex_dep_ite _ (ex_dep_group10 cfg g)
      (ex_dep_of_silent ex_silent_id)))))

theorem ex_dep_process (cfg : Cfg) (g : Group) : ex_Dep (fun s => process cfg s g) := by
  have e : (fun s => process cfg s g) = c15_seq (fun s => groupCommon s g) (fun s => dispatch cfg s g) := rfl
  rw [e]
  exact ex_dep_seq (ex_dep_of_silent (ex_silent_groupCommon g)) (ex_dep_dispatch cfg g)

theorem ex_tv_cleared {s1 s2 : State} (h : ex_TV s1 s2) : ex_TV (clearState s1) (clearState s2) := by
  refine ⟨?_, ?_, ?_, ?_, rfl, h.progPs, h.progRt, h.progPtyn, h.psInfo, h.psData, h.rtInfo,
    h.rtData, h.ptynInfo, h.ptynData, h.cbs, h.ud⟩
  · show s1.ps.cleared = s2.ps.cleared
    rw [h.ps]
  · show s1.rt0.cleared = s2.rt0.cleared
    rw [h.rt0]
  · show s1.rt1.cleared = s2.rt1.cleared
    rw [h.rt1]
  · show s1.ptyn.cleared = s2.ptyn.cleared
    rw [h.ptyn]

/-- one call: two states that agree on `textView` (whatever their buffered scalars, AF lists and extended-check
flags are) still agree on it afterwards, return the same result and fire the same text / clock-time callbacks -/
theorem C09_text_indep_step (cfg : Cfg) (s1 s2 : State) (op : Op) (h : textView s1 = textView s2) :
    textView (step cfg s1 op).1 = textView (step cfg s2 op).1 ∧
    (step cfg s1 op).2.2 = (step cfg s2 op).2.2 ∧
    textKinds (step cfg s1 op).2.1 = textKinds (step cfg s2 op).2.1 := by
  have ht := ex_tv_of h
  cases op with
  | init => exact ⟨rfl, rfl, rfl⟩
  | clear => exact ⟨(ex_tv_cleared ht).view, rfl, rfl⟩
  | parse g =>
    have := ex_dep_process cfg g s1 s2 h
    exact ⟨this.1, rfl, this.2⟩
  | parseString x =>
    cases x with
    | none => exact ⟨h, rfl, rfl⟩
    | some b =>
      simp only [step]
      cases utilsConvert b with
      | none => exact ⟨h, rfl, rfl⟩
      | some g =>
        have := ex_dep_process cfg g s1 s2 h
        exact ⟨this.1, rfl, this.2⟩
  | setExt v => exact ⟨h, rfl, rfl⟩
  | setCorr t k v =>
    refine ⟨?_, rfl, rfl⟩
    show textView { s1 with set := s1.set.setCorr t k v } = textView { s2 with set := s2.set.setCorr t k v }
    have : ex_TV { s1 with set := s1.set.setCorr t k v } { s2 with set := s2.set.setCorr t k v } := by
      cases t <;> cases k <;>
        exact ⟨ht.ps, ht.rt0, ht.rt1, ht.ptyn, ht.lastRt, ht.progPs, ht.progRt, ht.progPtyn,
          (by first | rfl | exact ht.psInfo), (by first | rfl | exact ht.psData),
          (by first | rfl | exact ht.rtInfo), (by first | rfl | exact ht.rtData),
          (by first | rfl | exact ht.ptynInfo), (by first | rfl | exact ht.ptynData), ht.cbs, ht.ud⟩
    exact this.view
  | setProg t v =>
    refine ⟨?_, rfl, rfl⟩
    show textView { s1 with set := s1.set.setProg t v } = textView { s2 with set := s2.set.setProg t v }
    have : ex_TV { s1 with set := s1.set.setProg t v } { s2 with set := s2.set.setProg t v } := by
      cases t <;>
        exact ⟨ht.ps, ht.rt0, ht.rt1, ht.ptyn, ht.lastRt, (by first | rfl | exact ht.progPs),
          (by first | rfl | exact ht.progRt), (by first | rfl | exact ht.progPtyn),
          ht.psInfo, ht.psData, ht.rtInfo, ht.rtData, ht.ptynInfo, ht.ptynData, ht.cbs, ht.ud⟩
    exact this.view
  | register c on =>
    refine ⟨?_, rfl, rfl⟩
    have : ex_TV { s1 with cbs := s1.cbs.set c.idx on } { s2 with cbs := s2.cbs.set c.idx on } :=
      ⟨ht.ps, ht.rt0, ht.rt1, ht.ptyn, ht.lastRt, ht.progPs, ht.progRt, ht.progPtyn,
        ht.psInfo, ht.psData, ht.rtInfo, ht.rtData, ht.ptynInfo, ht.ptynData,
        (by show s1.cbs.set c.idx on = s2.cbs.set c.idx on; rw [ht.cbs]), ht.ud⟩
    exact this.view
  | userData n =>
    refine ⟨?_, rfl, rfl⟩
    have : ex_TV { s1 with ud := n } { s2 with ud := n } :=
      ⟨ht.ps, ht.rt0, ht.rt1, ht.ptyn, ht.lastRt, ht.progPs, ht.progRt, ht.progPtyn,
        ht.psInfo, ht.psData, ht.rtInfo, ht.rtData, ht.ptynInfo, ht.ptynData, ht.cbs, rfl⟩
    exact this.view
  | getters => exact ⟨h, rfl, rfl⟩

theorem ex_runFrom_cons (cfg : Cfg) (s : State) (op : Op) (ops : List Op) :
    runFrom cfg s (op :: ops) = runFrom cfg (step cfg s op).1 ops := rfl

theorem ex_text_indep_from (cfg : Cfg) (ops ops' : List Op) (h : ExtRel ops ops') :
    ∀ s1 s2, textView s1 = textView s2 → textView (runFrom cfg s1 ops) = textView (runFrom cfg s2 ops') := by
  induction h with
  | nil => intro s1 s2 e; exact e
  | same op _ ih =>
    intro s1 s2 e
    rw [ex_runFrom_cons, ex_runFrom_cons]
    exact ih _ _ (C09_text_indep_step cfg s1 s2 op e).1
  | ext v w _ ih =>
    intro s1 s2 e
    rw [ex_runFrom_cons, ex_runFrom_cons]
    exact ih _ _ e

theorem C09_text_indep (cfg : Cfg) (ops ops' : List Op) (h : ExtRel ops ops') :
    textView (run cfg ops) = textView (run cfg ops') :=
  ex_text_indep_from cfg ops ops' h initState initState rfl

/-! ## Part 2 — C07 over histories -/

/-- one call that keeps the PS progressive flag: the flag stays on and no PS level increases -/
theorem ex_step_ps (cfg : Cfg) (s : State) (op : Op) (hp : s.set.progPs = true) (hk : keepsProg .ps op = true) :
    (step cfg s op).1.set.progPs = true ∧
    ∀ i, ((step cfg s op).1.ps.getD i blank).lvl ≤ (s.ps.getD i blank).lvl := by
  cases op with
  | init => cases hk
  | clear => cases hk
  | parse g =>
    refine ⟨?_, fun i => ex_process_ps_lvl cfg s g hp i⟩
    show (process cfg s g).1.set.progPs = true
    rw [ex_process_set]; exact hp
  | parseString x =>
    cases x with
    | none => exact ⟨hp, fun _ => Nat.le_refl _⟩
    | some b =>
      simp only [step]
      cases utilsConvert b with
      | none => exact ⟨hp, fun _ => Nat.le_refl _⟩
      | some g =>
        refine ⟨?_, fun i => ex_process_ps_lvl cfg s g hp i⟩
        show (process cfg s g).1.set.progPs = true
        rw [ex_process_set]; exact hp
  | setExt v => exact ⟨hp, fun _ => Nat.le_refl _⟩
  | setCorr t k v =>
    refine ⟨?_, fun _ => Nat.le_refl _⟩
    show (s.set.setCorr t k v).progPs = true
    cases t <;> cases k <;> exact hp
  | setProg t v =>
    refine ⟨?_, fun _ => Nat.le_refl _⟩
    show (s.set.setProg t v).progPs = true
    cases t
    · cases v
      · cases hk
      · rfl
    · exact hp
    · exact hp
  | register c on => exact ⟨hp, fun _ => Nat.le_refl _⟩
  | userData n => exact ⟨hp, fun _ => Nat.le_refl _⟩
  | getters => exact ⟨hp, fun _ => Nat.le_refl _⟩

theorem ex_step_ptyn (cfg : Cfg) (s : State) (op : Op) (hp : s.set.progPtyn = true) (hk : keepsProg .ptyn op = true) :
    (step cfg s op).1.set.progPtyn = true ∧
    ∀ i, ((step cfg s op).1.ptyn.getD i blank).lvl ≤ (s.ptyn.getD i blank).lvl := by
  cases op with
  | init => cases hk
  | clear => cases hk
  | parse g =>
    refine ⟨?_, fun i => ex_process_ptyn_lvl cfg s g hp i⟩
    show (process cfg s g).1.set.progPtyn = true
    rw [ex_process_set]; exact hp
  | parseString x =>
    cases x with
    | none => exact ⟨hp, fun _ => Nat.le_refl _⟩
    | some b =>
      simp only [step]
      cases utilsConvert b with
      | none => exact ⟨hp, fun _ => Nat.le_refl _⟩
      | some g =>
        refine ⟨?_, fun i => ex_process_ptyn_lvl cfg s g hp i⟩
        show (process cfg s g).1.set.progPtyn = true
        rw [ex_process_set]; exact hp
  | setExt v => exact ⟨hp, fun _ => Nat.le_refl _⟩
  | setCorr t k v =>
    refine ⟨?_, fun _ => Nat.le_refl _⟩
    show (s.set.setCorr t k v).progPtyn = true
    cases t <;> cases k <;> exact hp
  | setProg t v =>
    refine ⟨?_, fun _ => Nat.le_refl _⟩
    show (s.set.setProg t v).progPtyn = true
    cases t
    · exact hp
    · exact hp
    · cases v
      · cases hk
      · rfl
  | register c on => exact ⟨hp, fun _ => Nat.le_refl _⟩
  | userData n => exact ⟨hp, fun _ => Nat.le_refl _⟩
  | getters => exact ⟨hp, fun _ => Nat.le_refl _⟩

theorem ex_runFrom_ps (cfg : Cfg) (ops2 : List Op) :
    ∀ s : State, s.set.progPs = true → (∀ op ∈ ops2, keepsProg .ps op = true) →
      ∀ i, ((runFrom cfg s ops2).ps.getD i blank).lvl ≤ (s.ps.getD i blank).lvl := by
  induction ops2 with
  | nil => intro s _ _ i; exact Nat.le_refl _
  | cons op ops ih =>
    intro s hp hk i
    have h1 := ex_step_ps cfg s op hp (hk op (List.mem_cons_self ..))
    rw [ex_runFrom_cons]
    exact Nat.le_trans (ih _ h1.1 (fun o ho => hk o (List.mem_cons_of_mem _ ho)) i) (h1.2 i)

theorem ex_runFrom_ptyn (cfg : Cfg) (ops2 : List Op) :
    ∀ s : State, s.set.progPtyn = true → (∀ op ∈ ops2, keepsProg .ptyn op = true) →
      ∀ i, ((runFrom cfg s ops2).ptyn.getD i blank).lvl ≤ (s.ptyn.getD i blank).lvl := by
  induction ops2 with
  | nil => intro s _ _ i; exact Nat.le_refl _
  | cons op ops ih =>
    intro s hp hk i
    have h1 := ex_step_ptyn cfg s op hp (hk op (List.mem_cons_self ..))
    rw [ex_runFrom_cons]
    exact Nat.le_trans (ih _ h1.1 (fun o ho => hk o (List.mem_cons_of_mem _ ho)) i) (h1.2 i)

theorem ex_run_append (cfg : Cfg) (ops ops2 : List Op) :
    run cfg (ops ++ ops2) = runFrom cfg (run cfg ops) ops2 := by
  simp only [run, runFrom, List.foldl_append]

theorem C07_history_ps (tb : Tabs) (h : EccOk tb) (ops ops2 : List Op)
    (hp : (run tb.cfg ops).set.progPs = true) (hk : ∀ op ∈ ops2, keepsProg .ps op = true) (i : Nat) :
    ((run tb.cfg (ops ++ ops2)).ps.getD i blank).lvl ≤ ((run tb.cfg ops).ps.getD i blank).lvl := by
  have _ := h
  rw [ex_run_append]
  exact ex_runFrom_ps tb.cfg ops2 _ hp hk i

theorem C07_history_ptyn (tb : Tabs) (h : EccOk tb) (ops ops2 : List Op)
    (hp : (run tb.cfg ops).set.progPtyn = true) (hk : ∀ op ∈ ops2, keepsProg .ptyn op = true) (i : Nat) :
    ((run tb.cfg (ops ++ ops2)).ptyn.getD i blank).lvl ≤ ((run tb.cfg ops).ptyn.getD i blank).lvl := by
  have _ := h
  rw [ex_run_append]
  exact ex_runFrom_ptyn tb.cfg ops2 _ hp hk i

/-- once a PS cell holds an error-free character (level 0) under progressive correction, it stays at level 0
until a reset -/
theorem C07_level0_sticky_ps (tb : Tabs) (h : EccOk tb) (ops ops2 : List Op)
    (hp : (run tb.cfg ops).set.progPs = true) (hk : ∀ op ∈ ops2, keepsProg .ps op = true) (i : Nat)
    (h0 : ((run tb.cfg ops).ps.getD i blank).lvl = 0) :
    ((run tb.cfg (ops ++ ops2)).ps.getD i blank).lvl = 0 := by
  have := C07_history_ps tb h ops ops2 hp hk i
  omega

#print axioms C09_text_indep_step
#print axioms C09_text_indep
#print axioms C07_history_ps
#print axioms C07_history_ptyn
#print axioms C07_level0_sticky_ps

end RDS
