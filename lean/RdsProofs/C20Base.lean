import RdsModel
import RdsSpec.Monitors
import RdsSpec.Statements
import RdsProofs.Frame
import RdsProofs.C15Proofs
/-!
# RdsProofs.C20Base — a generic two-run simulation through every handler

Two parsers run the same calls, one with configuration `cfgn`, one with `cfgw` (same `ecc` table).
`c20_R T P sn sw` relates their states: everything but the texts is equal, the texts are related by
`T`, the settings satisfy `P`. The events of a call are related by `EL`. `c20_Ax` lists what the
parameters have to satisfy (in particular how one `parserUpdate` acts on `T`-related texts when the
16-bit word satisfies `W`); from it, `c20_sim_step` and `c20_run` follow for every handler.

Instances: `C20Ascii` (T = "is the embedding of", W = both bytes < 0x7F) and `C20Mask`
(T = "same received-mask", W = True).
-/
namespace RDS

/-- handlers in sequence -/
def c20_seq (h1 h2 : State → State × List Event) (s : State) : State × List Event :=
  ((h2 (h1 s).1).1, (h1 s).2 ++ (h2 (h1 s).1).2)

def c20_isText : EvKind → Bool
  | .ps | .rt _ | .ptyn => true
  | _ => false

/-- the relation between the two runs' states -/
structure c20_R (T : Text → Text → Prop) (P : Settings → Prop) (sn sw : State) : Prop where
  used : sn.used = sw.used
  temp : sn.temp = sw.temp
  set : sn.set = sw.set
  lastRt : sn.lastRt = sw.lastRt
  cbs : sn.cbs = sw.cbs
  ud : sn.ud = sw.ud
  termPs : sn.termPs = sw.termPs
  termRt0 : sn.termRt0 = sw.termRt0
  termRt1 : sn.termRt1 = sw.termRt1
  termPtyn : sn.termPtyn = sw.termPtyn
  ps : T sn.ps sw.ps
  rt0 : T sn.rt0 sw.rt0
  rt1 : T sn.rt1 sw.rt1
  ptyn : T sn.ptyn sw.ptyn
  pset : P sn.set

/-- the words of a group that reach `parserUpdate` satisfy `W` -/
def c20_GW (W : Nat → Prop) (g : Group) : Prop :=
  (g.type = 0 → W g.d) ∧ (g.type = 2 → (g.versionB = false → W g.c) ∧ W g.d) ∧
  (g.type = 10 → g.versionB = false → W g.c ∧ W g.d)

/-- what the parameters of the simulation have to satisfy -/
structure c20_Ax (cfgn cfgw : Cfg) (T : Text → Text → Prop) (P : Settings → Prop) (W : Nat → Prop)
    (FR : Bool → Bool → Prop) (EL : List Event → List Event → Prop) : Prop where
  ecc : cfgn.ecc = cfgw.ecc
  el_nil : EL [] []
  el_app : ∀ {a a' b b'}, EL a a' → EL b b' → EL (a ++ b) (a' ++ b')
  el_emit : ∀ {sn sw} (c : Cb) (k : EvKind), c20_R T P sn sw → c20_isText k = false → EL (emit sn c k) (emit sw c k)
  el_text : ∀ {sn sw} (c : Cb) (k : EvKind) (f f' : Bool), c20_R T P sn sw → c20_isText k = true → FR f f' →
    EL (if f then emit sn c k else []) (if f' then emit sw c k else [])
  fr_refl : ∀ b, FR b b
  fr_or : ∀ {a a' b b'}, FR a a' → FR b b' → FR (a || b) (a' || b')
  pu : ∀ {tn tw} (set : Settings) (id : TextId) (w eb ex pos : Nat), T tn tw → P set → W w →
    T (parserUpdate cfgn set tn id w eb ex pos).1 (parserUpdate cfgw set tw id w eb ex pos).1 ∧
    FR (parserUpdate cfgn set tn id w eb ex pos).2 (parserUpdate cfgw set tw id w eb ex pos).2
  avail : ∀ {t t'}, T t t' → getAvailable t = getAvailable t'
  cleared : ∀ {t t'}, T t t' → T t.cleared t'.cleared
  init : ∀ n, T (List.replicate n blank) (List.replicate n blank)
  p_init : P Settings.init
  p_ext : ∀ s v, P s → P { s with ext := v }
  p_corr : ∀ s t k v, P s → P (s.setCorr t k v)
  p_prog : ∀ s t v, P s → P (s.setProg t v)

/-- a pair of handlers preserves the relation and produces related events -/
def c20_Sim (T : Text → Text → Prop) (P : Settings → Prop) (EL : List Event → List Event → Prop)
    (hn hw : State → State × List Event) : Prop :=
  ∀ sn sw, c20_R T P sn sw → c20_R T P (hn sn).1 (hw sw).1 ∧ EL (hn sn).2 (hw sw).2

section generic
variable {cfgn cfgw : Cfg} {T : Text → Text → Prop} {P : Settings → Prop} {W : Nat → Prop}
  {FR : Bool → Bool → Prop} {EL : List Event → List Event → Prop}

/-! ## small facts about the relation -/

theorem c20_R.rt {sn sw : State} (h : c20_R T P sn sw) (fl : Nat) : T (sn.rt fl) (sw.rt fl) := by
  unfold State.rt; split
  · exact h.rt0
  · exact h.rt1

theorem c20_R.setRt {sn sw : State} (h : c20_R T P sn sw) (fl : Nat) {t t' : Text} (ht : T t t') :
    c20_R T P (sn.setRt fl t) (sw.setRt fl t') := by
  unfold State.setRt; split
  · exact ⟨h.used, h.temp, h.set, h.lastRt, h.cbs, h.ud, h.termPs, h.termRt0, h.termRt1, h.termPtyn,
      h.ps, ht, h.rt1, h.ptyn, h.pset⟩
  · exact ⟨h.used, h.temp, h.set, h.lastRt, h.cbs, h.ud, h.termPs, h.termRt0, h.termRt1, h.termPtyn,
      h.ps, h.rt0, ht, h.ptyn, h.pset⟩

theorem c20_R.setLastRt {sn sw : State} (h : c20_R T P sn sw) (v : Int) :
    c20_R T P { sn with lastRt := v } { sw with lastRt := v } :=
  ⟨h.used, h.temp, h.set, rfl, h.cbs, h.ud, h.termPs, h.termRt0, h.termRt1, h.termPtyn,
    h.ps, h.rt0, h.rt1, h.ptyn, h.pset⟩

theorem c20_R.setPs {sn sw : State} (h : c20_R T P sn sw) {t t' : Text} (ht : T t t') :
    c20_R T P { sn with ps := t } { sw with ps := t' } :=
  ⟨h.used, h.temp, h.set, h.lastRt, h.cbs, h.ud, h.termPs, h.termRt0, h.termRt1, h.termPtyn,
    ht, h.rt0, h.rt1, h.ptyn, h.pset⟩

theorem c20_R.setPtyn {sn sw : State} (h : c20_R T P sn sw) {t t' : Text} (ht : T t t') :
    c20_R T P { sn with ptyn := t } { sw with ptyn := t' } :=
  ⟨h.used, h.temp, h.set, h.lastRt, h.cbs, h.ud, h.termPs, h.termRt0, h.termRt1, h.termPtyn,
    h.ps, h.rt0, h.rt1, ht, h.pset⟩

/-- `ax.pu` with the two (equal) settings spelled differently -/
theorem c20_pu (ax : c20_Ax cfgn cfgw T P W FR EL) {tn tw : Text} {setn setw : Settings} (hs : setn = setw)
    (id : TextId) (w eb ex pos : Nat) (ht : T tn tw) (hp : P setn) (hw : W w) :
    T (parserUpdate cfgn setn tn id w eb ex pos).1 (parserUpdate cfgw setw tw id w eb ex pos).1 ∧
    FR (parserUpdate cfgn setn tn id w eb ex pos).2 (parserUpdate cfgw setw tw id w eb ex pos).2 := by
  subst hs
  exact ax.pu setn id w eb ex pos ht hp hw

/-! ## combinators -/

theorem c20_sim_id (ax : c20_Ax cfgn cfgw T P W FR EL) : c20_Sim T P EL (fun s => (s, [])) (fun s => (s, [])) :=
  fun _ _ h => ⟨h, ax.el_nil⟩

theorem c20_sim_seq (ax : c20_Ax cfgn cfgw T P W FR EL) {h1n h1w h2n h2w : State → State × List Event}
    (p1 : c20_Sim T P EL h1n h1w) (p2 : c20_Sim T P EL h2n h2w) :
    c20_Sim T P EL (c20_seq h1n h2n) (c20_seq h1w h2w) := by
  intro sn sw h
  have a := p1 sn sw h
  have b := p2 _ _ a.1
  exact ⟨b.1, ax.el_app a.2 b.2⟩

theorem c20_sim_ite {h1n h1w h2n h2w : State → State × List Event} (p : Prop) [Decidable p]
    (p1 : c20_Sim T P EL h1n h1w) (p2 : c20_Sim T P EL h2n h2w) :
    c20_Sim T P EL (fun s => if p then h1n s else h2n s) (fun s => if p then h1w s else h2w s) := by
  intro sn sw h
  by_cases hp : p
  · simp only [hp, if_true]; exact p1 sn sw h
  · simp only [hp, if_false]; exact p2 sn sw h

/-- a handler may depend on data on which related states agree -/
theorem c20_sim_param {β : Type} (pn pw : State → β) (hp : ∀ sn sw, c20_R T P sn sw → pn sn = pw sw)
    (hn hw : β → State → State × List Event) (hh : ∀ b, c20_Sim T P EL (hn b) (hw b)) :
    c20_Sim T P EL (fun s => hn (pn s) s) (fun s => hw (pw s) s) := by
  intro sn sw h
  show c20_R T P (hn (pn sn) sn).1 (hw (pw sw) sw).1 ∧ EL (hn (pn sn) sn).2 (hw (pw sw) sw).2
  rw [hp sn sw h]
  exact hh (pw sw) sn sw h

/-! ## setField, addAf -/

theorem c20_sim_setField (ax : c20_Ax cfgn cfgw T P W FR EL) (f : Fld) (v : Int) :
    c20_Sim T P EL (fun s => setField s f v) (fun s => setField s f v) := by
  intro sn sw h
  have hb : bufUpdate sn.set.ext (sn.used.get f) (sn.temp.get f) v =
      bufUpdate sw.set.ext (sw.used.get f) (sw.temp.get f) v := by rw [h.used, h.temp, h.set]
  have hR : c20_R T P (setField sn f v).1 (setField sw f v).1 := by
    refine ⟨?_, ?_, h.set, h.lastRt, h.cbs, h.ud, h.termPs, h.termRt0, h.termRt1, h.termPtyn,
      h.ps, h.rt0, h.rt1, h.ptyn, h.pset⟩
    · show sn.used.put f (bufUpdate sn.set.ext (sn.used.get f) (sn.temp.get f) v).1 =
        sw.used.put f (bufUpdate sw.set.ext (sw.used.get f) (sw.temp.get f) v).1
      rw [hb, h.used]
    · show sn.temp.put f (bufUpdate sn.set.ext (sn.used.get f) (sn.temp.get f) v).2.1 =
        sw.temp.put f (bufUpdate sw.set.ext (sw.used.get f) (sw.temp.get f) v).2.1
      rw [hb, h.temp]
  refine ⟨hR, ?_⟩
  show EL (setField sn f v).2 (setField sw f v).2
  rw [c15_setField_snd sn, c15_setField_snd sw, hb]
  cases (bufUpdate sw.set.ext (sw.used.get f) (sw.temp.get f) v).2.2
  · exact ax.el_nil
  · exact ax.el_emit _ _ hR (by cases f <;> rfl)

theorem c20_sim_addAf (ax : c20_Ax cfgn cfgw T P W FR EL) (v : Nat) :
    c20_Sim T P EL (fun s => addAf s v) (fun s => addAf s v) := by
  intro sn sw h
  show c20_R T P (addAf sn v).1 (addAf sw v).1 ∧ EL (addAf sn v).2 (addAf sw v).2
  by_cases h1 : afGet sn.used.af v = true
  · have h1' : afGet sw.used.af v = true := by rw [← h.used]; exact h1
    rw [c15_addAf_eq1 sn v h1, c15_addAf_eq1 sw v h1']
    exact ⟨h, ax.el_nil⟩
  · have h1' : ¬ afGet sw.used.af v = true := by rw [← h.used]; exact h1
    by_cases h2 : (sn.set.ext && !afGet sn.temp.af v) = true
    · have h2' : (sw.set.ext && !afGet sw.temp.af v) = true := by rw [← h.set, ← h.temp]; exact h2
      rw [c15_addAf_eq2 sn v h1 h2, c15_addAf_eq2 sw v h1' h2']
      refine ⟨⟨h.used, ?_, h.set, h.lastRt, h.cbs, h.ud, h.termPs, h.termRt0, h.termRt1, h.termPtyn,
        h.ps, h.rt0, h.rt1, h.ptyn, h.pset⟩, ax.el_nil⟩
      show ({ sn.temp with af := (afSet sn.temp.af v).1 } : Scalars) = { sw.temp with af := (afSet sw.temp.af v).1 }
      rw [h.temp]
    · have h2' : ¬ (sw.set.ext && !afGet sw.temp.af v) = true := by rw [← h.set, ← h.temp]; exact h2
      rw [c15_addAf_eq3 sn v h1 h2, c15_addAf_eq3 sw v h1' h2']
      have hR : c20_R T P { sn with used := { sn.used with af := (afSet sn.used.af v).1 } }
          { sw with used := { sw.used with af := (afSet sw.used.af v).1 } } := by
        refine ⟨?_, h.temp, h.set, h.lastRt, h.cbs, h.ud, h.termPs, h.termRt0, h.termRt1, h.termPtyn,
          h.ps, h.rt0, h.rt1, h.ptyn, h.pset⟩
        show ({ sn.used with af := (afSet sn.used.af v).1 } : Scalars) = { sw.used with af := (afSet sw.used.af v).1 }
        rw [h.used]
      refine ⟨hR, ?_⟩
      show EL (if (afSet sn.used.af v).2 then emit _ .af (.af (87500 + v * 100)) else [])
        (if (afSet sw.used.af v).2 then emit _ .af (.af (87500 + v * 100)) else [])
      have e2 : (afSet sn.used.af v).2 = (afSet sw.used.af v).2 := by rw [h.used]
      rw [e2]
      cases (afSet sw.used.af v).2
      · exact ax.el_nil
      · exact ax.el_emit _ _ hR rfl

/-! ## the group handlers without text -/

theorem c20_sim_groupCommon (ax : c20_Ax cfgn cfgw T P W FR EL) (g : Group) :
    c20_Sim T P EL (fun s => groupCommon s g) (fun s => groupCommon s g) := by
  have e : (fun s => groupCommon s g) =
      c20_seq (fun s => if g.ea = 0 then setField s .pi g.a else (s, []))
        (fun s => if g.eb = 0 then
            c20_seq (fun s => setField s .pty (g.b / 32 % 32 : Nat)) (fun s => setField s .tp (g.b / 1024 % 2 : Nat)) s
          else (s, [])) := by
    funext s
    unfold groupCommon c20_seq
    by_cases hb : g.eb = 0
    · simp only [hb, if_true, List.append_assoc]
    · simp only [hb, if_false, List.append_nil]
  rw [e]
  exact c20_sim_seq ax (c20_sim_ite _ (c20_sim_setField ax .pi g.a) (c20_sim_id ax))
    (c20_sim_ite _ (c20_sim_seq ax (c20_sim_setField ax .pty _) (c20_sim_setField ax .tp _)) (c20_sim_id ax))

theorem c20_sim_group1 (ax : c20_Ax cfgn cfgw T P W FR EL) (g : Group) :
    c20_Sim T P EL (fun s => group1 cfgn s g) (fun s => group1 cfgw s g) := by
  have e : ∀ cfg : Cfg, (fun s => group1 cfg s g) =
      (fun s => if (!g.versionB && g.eb = 0 && g.ec = 0 && g.c / 4096 % 8 = 0) then
          c20_seq (fun s => setField s .ecc (g.c % 256 : Nat))
            (fun s => (fun (v : Int) s => setField s .country v) (eccLookup cfg s.used.pi (g.c % 256 : Nat)) s) s
        else (s, [])) := fun _ => rfl
  rw [e cfgn, e cfgw]
  refine c20_sim_ite _ (c20_sim_seq ax (c20_sim_setField ax .ecc _) ?_) (c20_sim_id ax)
  refine c20_sim_param (fun s => eccLookup cfgn s.used.pi (g.c % 256 : Nat))
    (fun s => eccLookup cfgw s.used.pi (g.c % 256 : Nat)) ?_ (fun (v : Int) s => setField s .country v)
    (fun (v : Int) s => setField s .country v) (fun v => c20_sim_setField ax .country v)
  intro sn sw h
  show eccLookup cfgn sn.used.pi _ = eccLookup cfgw sw.used.pi _
  unfold eccLookup
  rw [h.used, ax.ecc]

theorem c20_sim_group4 (ax : c20_Ax cfgn cfgw T P W FR EL) (g : Group) :
    c20_Sim T P EL (fun s => group4 s g) (fun s => group4 s g) := by
  intro sn sw h
  show c20_R T P (group4 sn g).1 (group4 sw g).1 ∧ EL (group4 sn g).2 (group4 sw g).2
  rw [c15_group4_fst, c15_group4_fst, c15_group4_snd, c15_group4_snd]
  refine ⟨h, ?_⟩
  cases c15_g4ok g
  · exact ax.el_nil
  · simp only [if_true]
    cases ctInit (ctFields g).1 (ctFields g).2.1 (ctFields g).2.2.1 (ctFields g).2.2.2 with
    | none => exact ax.el_nil
    | some v => exact ax.el_emit _ _ h rfl

/-! ## the text handlers -/

/-- a text update followed by at most one notification -/
theorem c20_sim_group0 (ax : c20_Ax cfgn cfgw T P W FR EL) (g : Group) (hw : W g.d) :
    c20_Sim T P EL (fun s => group0 cfgn s g) (fun s => group0 cfgw s g) := by
  have e : ∀ cfg : Cfg, (fun s => group0 cfg s g) =
      c20_seq (c20_seq
        (fun s => if g.eb = 0 then
            c20_seq (fun s => setField s .ta (g.b / 16 % 2 : Nat)) (fun s => setField s .ms (g.b / 8 % 2 : Nat)) s
          else (s, []))
        (fun s => ({ s with ps := (c15_g0u cfg g s).1 },
          if (c15_g0u cfg g s).2 then emit { s with ps := (c15_g0u cfg g s).1 } .ps .ps else [])))
        (fun s => if (!g.versionB && g.eb = 0 && g.ec = 0 && g.c / 256 % 256 != 250) then
            c20_seq (fun s => addAf s (g.c / 256 % 256)) (fun s => addAf s (g.c % 256)) s
          else (s, [])) := by
    intro cfg
    funext s
    unfold group0 c20_seq
    by_cases hc : (!g.versionB && g.eb = 0 && g.ec = 0 && g.c / 256 % 256 != 250) = true
    · simp only [hc, if_true, c15_g0u, List.append_assoc]
    · simp only [hc, if_false, c15_g0u, List.append_nil, Bool.false_eq_true]
  rw [e cfgn, e cfgw]
  refine c20_sim_seq ax (c20_sim_seq ax ?_ ?_) ?_
  · exact c20_sim_ite _ (c20_sim_seq ax (c20_sim_setField ax .ta _) (c20_sim_setField ax .ms _)) (c20_sim_id ax)
  · intro sn sw h
    have hu' : T (c15_g0u cfgn g sn).1 (c15_g0u cfgw g sw).1 ∧ FR (c15_g0u cfgn g sn).2 (c15_g0u cfgw g sw).2 :=
      c20_pu ax h.set .ps g.d g.eb g.ed (2 * (g.b % 4)) h.ps h.pset hw
    have hR := h.setPs hu'.1
    exact ⟨hR, ax.el_text _ _ _ _ hR rfl hu'.2⟩
  · exact c20_sim_ite _ (c20_sim_seq ax (c20_sim_addAf ax _) (c20_sim_addAf ax _)) (c20_sim_id ax)

theorem c20_sim_group10 (ax : c20_Ax cfgn cfgw T P W FR EL) (g : Group) (hw : g.versionB = false → W g.c ∧ W g.d) :
    c20_Sim T P EL (fun s => group10 cfgn s g) (fun s => group10 cfgw s g) := by
  intro sn sw h
  show c20_R T P (group10 cfgn sn g).1 (group10 cfgw sw g).1 ∧ EL (group10 cfgn sn g).2 (group10 cfgw sw g).2
  unfold group10
  cases hv : g.versionB
  · have hw' := hw hv
    simp only [Bool.not_false, if_true]
    have hu1 := c20_pu ax h.set .ptyn g.c g.eb g.ec (4 * (g.b % 2)) h.ptyn h.pset hw'.1
    have hu2 := c20_pu ax h.set .ptyn g.d g.eb g.ed (4 * (g.b % 2) + 2) hu1.1 h.pset hw'.2
    have hR := h.setPtyn hu2.1
    exact ⟨hR, ax.el_text _ _ _ _ hR rfl (ax.fr_or hu1.2 hu2.2)⟩
  · simp only [Bool.not_true, Bool.false_eq_true, if_false]
    exact ⟨h, ax.el_nil⟩

theorem c20_sim_group2 (ax : c20_Ax cfgn cfgw T P W FR EL) (g : Group)
    (hw : (g.versionB = false → W g.c) ∧ W g.d) :
    c20_Sim T P EL (fun s => group2 cfgn s g) (fun s => group2 cfgw s g) := by
  intro sn sw h
  show c20_R T P (group2 cfgn sn g).1 (group2 cfgw sw g).1 ∧ EL (group2 cfgn sn g).2 (group2 cfgw sw g).2
  rw [c15_group2_eq, c15_group2_eq]
  have hsw : c15_g2sw g sn = c15_g2sw g sw := by unfold c15_g2sw; rw [h.lastRt]
  have hclr : c15_g2clr g sn = c15_g2clr g sw := by
    unfold c15_g2clr; rw [hsw, h.lastRt, ax.avail (h.rt _)]
  have hpre : c20_R T P (c15_g2pre g sn) (c15_g2pre g sw) := by
    unfold c15_g2pre
    rw [← hclr, ← hsw]
    have h1 : c20_R T P (if c15_g2clr g sn then sn.setRt (g.b / 16 % 2) (sn.rt (g.b / 16 % 2)).cleared else sn)
        (if c15_g2clr g sn then sw.setRt (g.b / 16 % 2) (sw.rt (g.b / 16 % 2)).cleared else sw) := by
      cases c15_g2clr g sn
      · exact h
      · exact h.setRt _ (ax.cleared (h.rt _))
    cases c15_g2sw g sn
    · exact h1
    · exact h1.setLastRt _
  rw [← hclr]
  generalize c15_g2clr g sn = clr
  generalize c15_g2pre g sn = s2n at hpre
  generalize c15_g2pre g sw = s2w at hpre
  have hg : c15_g2guard g s2n = c15_g2guard g s2w := by unfold c15_g2guard; rw [hpre.lastRt]
  unfold c15_g2rest
  rw [← hg]
  cases c15_g2guard g s2n
  · simp only [Bool.false_eq_true, if_false]
    have hu : T (c15_g2u cfgn g s2n).2.1 (c15_g2u cfgw g s2w).2.1 ∧
        FR ((c15_g2u cfgn g s2n).1.2 || (c15_g2u cfgn g s2n).2.2) ((c15_g2u cfgw g s2w).1.2 || (c15_g2u cfgw g s2w).2.2) := by
      unfold c15_g2u
      cases hv : g.versionB
      · simp only [Bool.not_false, if_true]
        have hu1 := c20_pu ax hpre.set .rt g.c g.eb g.ec (4 * (g.b % 16)) (hpre.rt (g.b / 16 % 2)) hpre.pset (hw.1 hv)
        have hu2 := c20_pu ax hpre.set .rt g.d g.eb g.ed (4 * (g.b % 16) + 2) hu1.1 hpre.pset hw.2
        exact ⟨hu2.1, ax.fr_or hu1.2 hu2.2⟩
      · simp only [Bool.not_true, Bool.false_eq_true, if_false]
        have hu2 := c20_pu ax hpre.set .rt g.d g.eb g.ed (2 * (g.b % 16)) (hpre.rt (g.b / 16 % 2)) hpre.pset hw.2
        exact ⟨hu2.1, ax.fr_or (ax.fr_refl false) hu2.2⟩
    have hR : c20_R T P (c15_g2upd cfgn g s2n) (c15_g2upd cfgw g s2w) := hpre.setRt _ hu.1
    refine ⟨hR, ?_⟩
    have hf := ax.fr_or (ax.fr_refl clr) hu.2
    simp only [← Bool.or_assoc] at hf
    exact ax.el_text _ _ _ _ hR rfl hf
  · simp only [if_true]
    exact ⟨hpre, ax.el_nil⟩

/-! ## dispatch, process, step -/

theorem c20_sim_dispatch (ax : c20_Ax cfgn cfgw T P W FR EL) (g : Group) (hw : c20_GW W g) :
    c20_Sim T P EL (fun s => dispatch cfgn s g) (fun s => dispatch cfgw s g) := by
  intro sn sw h
  show c20_R T P (dispatch cfgn sn g).1 (dispatch cfgw sw g).1 ∧ EL (dispatch cfgn sn g).2 (dispatch cfgw sw g).2
  unfold dispatch
  by_cases h0 : g.type = 0
  · simp only [h0, if_true]; exact c20_sim_group0 ax g (hw.1 h0) sn sw h
  · by_cases h1 : g.type = 1
    · simp only [h1, if_true]; exact c20_sim_group1 ax g sn sw h
    · by_cases h2 : g.type = 2
      · simp only [h2, if_true]; exact c20_sim_group2 ax g (hw.2.1 h2) sn sw h
      · by_cases h4 : g.type = 4
        · simp only [h4, if_true]; exact c20_sim_group4 ax g sn sw h
        · by_cases h10 : g.type = 10
          · simp only [h10, if_true]; exact c20_sim_group10 ax g (hw.2.2 h10) sn sw h
          · simp only [h0, h1, h2, h4, h10, if_false]; exact ⟨h, ax.el_nil⟩

theorem c20_sim_process (ax : c20_Ax cfgn cfgw T P W FR EL) (g : Group) (hw : c20_GW W g) :
    c20_Sim T P EL (fun s => process cfgn s g) (fun s => process cfgw s g) := by
  have e : ∀ cfg : Cfg, (fun s => process cfg s g) = c20_seq (fun s => groupCommon s g) (fun s => dispatch cfg s g) :=
    fun _ => rfl
  rw [e cfgn, e cfgw]
  exact c20_sim_seq ax (c20_sim_groupCommon ax g) (c20_sim_dispatch ax g hw)

theorem c20_R_init (ax : c20_Ax cfgn cfgw T P W FR EL) : c20_R T P initState initState :=
  ⟨rfl, rfl, rfl, rfl, rfl, rfl, rfl, rfl, rfl, rfl, ax.init capPs, ax.init capRt, ax.init capRt, ax.init capPtyn,
    ax.p_init⟩

/-- one call on related states -/
theorem c20_sim_step (ax : c20_Ax cfgn cfgw T P W FR EL) (sn sw : State) (h : c20_R T P sn sw) (op : Op)
    (hop : ∀ g, op.group? = some g → c20_GW W g) :
    c20_R T P (step cfgn sn op).1 (step cfgw sw op).1 ∧
    (step cfgn sn op).2.2 = (step cfgw sw op).2.2 ∧ EL (step cfgn sn op).2.1 (step cfgw sw op).2.1 := by
  cases op with
  | init => exact ⟨c20_R_init ax, rfl, ax.el_nil⟩
  | clear =>
    refine ⟨?_, rfl, ax.el_nil⟩
    exact ⟨rfl, rfl, h.set, rfl, h.cbs, h.ud, h.termPs, h.termRt0, h.termRt1, h.termPtyn,
      ax.cleared h.ps, ax.cleared h.rt0, ax.cleared h.rt1, ax.cleared h.ptyn, h.pset⟩
  | parse g =>
    have := c20_sim_process ax g (hop g rfl) sn sw h
    exact ⟨this.1, rfl, this.2⟩
  | parseString x =>
    cases x with
    | none => exact ⟨h, rfl, ax.el_nil⟩
    | some b =>
      have hop' : ∀ g, utilsConvert b = some g → c20_GW W g := hop
      simp only [step]
      cases hu : utilsConvert b with
      | none => exact ⟨h, rfl, ax.el_nil⟩
      | some g =>
        have := c20_sim_process ax g (hop' g hu) sn sw h
        exact ⟨this.1, rfl, this.2⟩
  | setExt v =>
    refine ⟨?_, rfl, ax.el_nil⟩
    refine ⟨h.used, h.temp, ?_, h.lastRt, h.cbs, h.ud, h.termPs, h.termRt0, h.termRt1, h.termPtyn,
      h.ps, h.rt0, h.rt1, h.ptyn, ax.p_ext _ v h.pset⟩
    show ({ sn.set with ext := v } : Settings) = { sw.set with ext := v }
    rw [h.set]
  | setCorr t k v =>
    refine ⟨?_, rfl, ax.el_nil⟩
    refine ⟨h.used, h.temp, ?_, h.lastRt, h.cbs, h.ud, h.termPs, h.termRt0, h.termRt1, h.termPtyn,
      h.ps, h.rt0, h.rt1, h.ptyn, ax.p_corr _ t k v h.pset⟩
    show sn.set.setCorr t k v = sw.set.setCorr t k v
    rw [h.set]
  | setProg t v =>
    refine ⟨?_, rfl, ax.el_nil⟩
    refine ⟨h.used, h.temp, ?_, h.lastRt, h.cbs, h.ud, h.termPs, h.termRt0, h.termRt1, h.termPtyn,
      h.ps, h.rt0, h.rt1, h.ptyn, ax.p_prog _ t v h.pset⟩
    show sn.set.setProg t v = sw.set.setProg t v
    rw [h.set]
  | register c on =>
    refine ⟨?_, rfl, ax.el_nil⟩
    refine ⟨h.used, h.temp, h.set, h.lastRt, ?_, h.ud, h.termPs, h.termRt0, h.termRt1, h.termPtyn,
      h.ps, h.rt0, h.rt1, h.ptyn, h.pset⟩
    show sn.cbs.set c.idx on = sw.cbs.set c.idx on
    rw [h.cbs]
  | userData n =>
    exact ⟨⟨h.used, h.temp, h.set, h.lastRt, h.cbs, rfl, h.termPs, h.termRt0, h.termRt1, h.termPtyn,
      h.ps, h.rt0, h.rt1, h.ptyn, h.pset⟩, rfl, ax.el_nil⟩
  | getters => exact ⟨h, rfl, ax.el_nil⟩

/-- lifted to op lists -/
theorem c20_runFrom (ax : c20_Ax cfgn cfgw T P W FR EL) (ops : List Op)
    (hops : ∀ op ∈ ops, ∀ g, op.group? = some g → c20_GW W g) :
    ∀ sn sw, c20_R T P sn sw → c20_R T P (runFrom cfgn sn ops) (runFrom cfgw sw ops) := by
  induction ops with
  | nil => intro sn sw h; exact h
  | cons op ops ih =>
    intro sn sw h
    have h1 := (c20_sim_step ax sn sw h op (hops op (List.mem_cons_self ..))).1
    exact ih (fun o ho => hops o (List.mem_cons_of_mem _ ho)) _ _ h1

theorem c20_run (ax : c20_Ax cfgn cfgw T P W FR EL) (ops : List Op)
    (hops : ∀ op ∈ ops, ∀ g, op.group? = some g → c20_GW W g) :
    c20_R T P (run cfgn ops) (run cfgw ops) :=
  c20_runFrom ax ops hops initState initState (c20_R_init ax)

end generic

/-! ## `updateSingle` with the configuration-independent rejection tests folded into one -/

/-- the rejection tests that precede the same-data test (none of them looks at `conv`) -/
def c20_pre (lvl b ei ed : Nat) (prog : Bool) : Bool :=
  (prog && decide (lvl < calcError ei ed)) || (b == 0x0D && (ei != 0 || ed != 0)) ||
  (b != 0x0D && decide (b < 0x20)) || (decide (0x7F ≤ b) && (ei != 0 || ed != 0))

theorem c20_updateSingle_none (cfg : Cfg) (t : Text) (b ei ed pos : Nat) (prog : Bool) (hc : t[pos]? = none) :
    updateSingle cfg t b ei ed pos prog = (t, .oob) := by
  unfold updateSingle; rw [hc]

theorem c20_updateSingle_some (cfg : Cfg) (t : Text) (b ei ed pos : Nat) (prog : Bool) (cell : Cell)
    (hc : t[pos]? = some cell) :
    updateSingle cfg t b ei ed pos prog =
      if c20_pre cell.lvl b ei ed prog = true then (t, .rejected)
      else if cell.ch = conv cfg b ∧ cell.lvl ≤ calcError ei ed then (t, .rejected)
      else (t.set pos ⟨conv cfg b, calcError ei ed⟩, .stored) := by
  unfold updateSingle c20_pre; rw [hc]
  simp only []
  cases (prog && decide (cell.lvl < calcError ei ed))
    <;> cases (b == 0x0D && (ei != 0 || ed != 0))
    <;> cases (b != 0x0D && decide (b < 0x20))
    <;> cases (decide (0x7F ≤ b) && (ei != 0 || ed != 0))
    <;> simp

end RDS
