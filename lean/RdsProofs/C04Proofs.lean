import RdsProofs.C04Handlers
import RdsProofs.C04Redeliver
/-!
# RdsProofs.C04Proofs — property C04: callbacks against getter changes
-/
namespace RDS

theorem c04_step_of_group {cfg : Cfg} {s : State} {op : Op} {g : Group} (h : op.group? = some g) :
    step cfg s op = ((process cfg s g).1, (process cfg s g).2, true) := by
  cases op <;> simp only [Op.group?, reduceCtorEq] at h
  case parse g' => cases h; rfl
  case parseString b =>
    cases b with
    | none => simp at h
    | some b => simp only at h; simp [step, h]

theorem mem_forcedOf {s : State} {g : Group} {X : Comp} :
    X ∈ forcedOf s g ↔ (g.type = 2 ∧ clr2 s g = true) ∧ X = rtComp g := by
  unfold forcedOf; split <;> simp_all

theorem switchDiscard_eq {m : Mon} {s : State} (g : Group) (hl : m.lastFlag = s.lastRt) :
    switchDiscard m (Obs.ofState s) g = (decide (g.type = 2) && clr2 s g) := by
  have hf : g.b / 16 % 2 = 0 ∨ g.b / 16 % 2 = 1 := by omega
  unfold switchDiscard clr2
  rw [hl]
  rcases hf with h | h <;> simp [h, Obs.text, Obs.ofState, TextObs.ofText, State.rt] <;>
    cases decide (g.type = 2) <;> cases decide (g.eb = 0) <;> simp <;>
    rw [Bool.and_comm (s.lastRt != -1)]

theorem cnt_ok {T F : List Comp} {s : State} {r : State × List Event} (h : HOk T F s r)
    (X : Comp) (hX : X ≠ .af) (chg : Bool) (hchg : chg = true ↔ (X.view r.1 ≠ X.view s ∨ X ∈ F)) :
    (!(s.cbs.getD X.cb.idx false) || countKind (r.2.map EvObs.ofEvent) X.kindP == b2n chg) = true := by
  cases hr : s.cbs.getD X.cb.idx false
  · rfl
  · have := h.cnt X hX hr
    rw [countKind_map, this]
    by_cases hc : chg = true
    · rw [if_pos (hchg.1 hc), hc]; rfl
    · rw [if_neg (fun hh => hc (hchg.2 hh))]
      simp only [Bool.not_eq_true] at hc
      rw [hc]; rfl


theorem rt0_mem_forcedOf {s : State} {g : Group} :
    Comp.rt0 ∈ forcedOf s g ↔ (g.type = 2 ∧ clr2 s g = true) ∧ g.b / 16 % 2 = 0 := by
  rw [mem_forcedOf]; unfold rtComp
  have hf : g.b / 16 % 2 = 0 ∨ g.b / 16 % 2 = 1 := by omega
  rcases hf with h | h <;> simp [h]

theorem rt1_mem_forcedOf {s : State} {g : Group} :
    Comp.rt1 ∈ forcedOf s g ↔ (g.type = 2 ∧ clr2 s g = true) ∧ g.b / 16 % 2 = 1 := by
  rw [mem_forcedOf]; unfold rtComp
  have hf : g.b / 16 % 2 = 0 ∨ g.b / 16 % 2 = 1 := by omega
  rcases hf with h | h <;> simp [h]

theorem not_mem_forcedOf {s : State} {g : Group} {X : Comp} (h0 : X ≠ .rt0) (h1 : X ≠ .rt1) :
    X ∉ forcedOf s g := by
  rw [mem_forcedOf]; unfold rtComp
  rintro ⟨_, h⟩
  split at h
  · exact h0 h
  · exact h1 h

def ownChk (a : Obs) (e : EvObs) : Bool :=
  match e.kind, e.own with
  | .pi, .val v => v == a.sc.pi | .pty, .val v => v == a.sc.pty | .tp, .val v => v == a.sc.tp
  | .ta, .val v => v == a.sc.ta | .ms, .val v => v == a.sc.ms | .ecc, .val v => v == a.sc.ecc
  | .country, .val v => v == a.sc.country
  | .af _, .val v => v == 1
  | .ps, .text c => c == a.ps.cells
  | .rt f, .text c => c == (if f = 0 then a.rt0.cells else a.rt1.cells)
  | .ptyn, .text c => c == a.ptyn.cells
  | .ct _, _ => true
  | _, _ => false

theorem ownChk_of_ownGood {fin : State} {e : Event} (h : ownGood fin e) :
    ownChk (Obs.ofState fin) (EvObs.ofEvent e) = true := by
  obtain ⟨k, u, sn⟩ := e
  cases k <;> simp only [ownGood] at h <;>
    simp [ownChk, EvObs.ofEvent, Obs.ofState, TextObs.ofText, h]
  case rt f => simp [State.rt]
  case af k => rw [← List.getD_eq_getElem?_getD]; exact h

theorem chkC04_ok (tb : Tabs) (m : Mon) (s : State) (op : Op) (hl : Link m s) (hw : WF tb s) :
    chkC04 m (recOf tb.cfg s op) = true := by
  unfold chkC04
  cases hg : op.group? with
  | none => simp [recOf, hg]
  | some g =>
    have hstep := c04_step_of_group (cfg := tb.cfg) (s := s) hg
    have H := HOk_process tb.cfg s g hw.usedAfLen
    simp only [recOf, hg, hstep, hl.cbs]
    generalize process tb.cfg s g = P at H
    simp only [Bool.and_eq_true]
    have hsd := switchDiscard_eq g hl.lastFlag
    have sc : ∀ f : Fld, ∀ chg : Bool,
        (chg = true ↔ P.1.used.get f ≠ s.used.get f) →
        (!(s.cbs.getD f.cb.idx false) || countKind (P.2.map EvObs.ofEvent) (· == f.ev) == b2n chg) = true := by
      intro f chg hc
      refine cnt_ok H (.sc f) (by intro h; cases h) chg ?_
      rw [hc]
      have : Comp.sc f ∉ forcedOf s g := not_mem_forcedOf (by intro h; cases h) (by intro h; cases h)
      simp [Comp.view, this]
    refine ⟨⟨⟨⟨⟨⟨⟨⟨⟨⟨⟨⟨⟨?_, ?_⟩, ?_⟩, ?_⟩, ?_⟩, ?_⟩, ?_⟩, ?_⟩, ?_⟩, ?_⟩, ?_⟩, ?_⟩, ?_⟩, ?_⟩
    · exact sc .pi _ (by simp [Obs.ofState, Scalars.get])
    · exact sc .pty _ (by simp [Obs.ofState, Scalars.get])
    · exact sc .tp _ (by simp [Obs.ofState, Scalars.get])
    · exact sc .ta _ (by simp [Obs.ofState, Scalars.get])
    · exact sc .ms _ (by simp [Obs.ofState, Scalars.get])
    · exact sc .ecc _ (by simp [Obs.ofState, Scalars.get])
    · exact sc .country _ (by simp [Obs.ofState, Scalars.get])
    · refine cnt_ok H .ps (by intro h; cases h) _ ?_
      have : Comp.ps ∉ forcedOf s g := not_mem_forcedOf (by intro h; cases h) (by intro h; cases h)
      simp [Comp.view, this, Obs.ofState, TextObs.ofText]
    · refine cnt_ok H .ptyn (by intro h; cases h) _ ?_
      have : Comp.ptyn ∉ forcedOf s g := not_mem_forcedOf (by intro h; cases h) (by intro h; cases h)
      simp [Comp.view, this, Obs.ofState, TextObs.ofText]
    · refine cnt_ok H .rt0 (by intro h; cases h) _ ?_
      rw [rt0_mem_forcedOf, hsd]
      simp [Comp.view, Obs.ofState, TextObs.ofText, and_assoc]
    · refine cnt_ok H .rt1 (by intro h; cases h) _ ?_
      rw [rt1_mem_forcedOf, hsd]
      simp [Comp.view, Obs.ofState, TextObs.ofText, and_assoc]
    · cases s.cbs.getD Cb.rt.idx false
      · rfl
      · have := H.rtBad
        rw [← countKind_map] at this
        simp only [Bool.not_true, Bool.false_or, beq_iff_eq]
        exact this
    · cases hr : s.cbs.getD Cb.af.idx false
      · rfl
      · have := H.af hr
        simp only [Bool.not_true, Bool.false_or, Bool.and_eq_true, beq_iff_eq, decide_eq_true_eq]
        exact this
    · rw [List.all_eq_true]
      intro e he
      obtain ⟨e', he', rfl⟩ := List.mem_map.1 he
      exact ownChk_of_ownGood (H.own e' he')

theorem Mon.step_prevGroup {cfg : Cfg} {m : Mon} {op : Op} {g0 : Group}
    (h : (m.step cfg op).prevGroup = some g0) : op.group? = some g0 ∧ (m.step cfg op).ext = m.ext := by
  cases op <;> simp only [Mon.step, reduceCtorEq] at h
  case parse g =>
    refine ⟨h, ?_⟩
    simp only [Mon.step, Op.group?]
    exact Mon.group_ext cfg m g
  case parseString b =>
    refine ⟨h, ?_⟩
    simp only [Mon.step, h]
    exact Mon.group_ext cfg m g0

/-- the second of two consecutive calls: `m`,`s` are monitor and state after `op0` -/
theorem chkC04redeliver_ok (tb : Tabs) (m0 : Mon) (s0 : State) (op0 op : Op)
    (hl : Link m0 s0) (hw : WF tb s0) :
    chkC04redeliver (m0.step tb.cfg op0) (recOf tb.cfg (step tb.cfg s0 op0).1 op) = true := by
  unfold chkC04redeliver
  cases hg : op.group? with
  | none => simp [recOf, hg]
  | some g =>
    cases hp : (m0.step tb.cfg op0).prevGroup with
    | none => simp [recOf, hg]
    | some g0 =>
      obtain ⟨hg0, hext⟩ := Mon.step_prevGroup hp
      simp only [recOf, hg]
      by_cases hc : g = g0 ∧ (m0.step tb.cfg op0).ext = false
      · obtain ⟨rfl, he⟩ := hc
        have hext0 : s0.set.ext = false := by rw [← hl.ext, ← hext]; exact he
        rw [c04_step_of_group hg0, c04_step_of_group hg]
        obtain ⟨t, h1, h2⟩ := redeliver_core tb.cfg s0 g hext0 hw.usedAfLen
        simp only [h1, Obs.ofState_withTemp]
        have hs : ∀ o : Obs, o.sameData o = true := by intro o; simp [Obs.sameData]
        rw [hs, Bool.and_true]
        rw [Bool.or_eq_true]
        right
        rw [List.all_eq_true]
        intro e he
        obtain ⟨e', he', rfl⟩ := List.mem_map.1 he
        obtain ⟨v, hv⟩ := h2 e' he'
        simp [hv]
      · have : (g == g0 && !(m0.step tb.cfg op0).ext) = false := by
          cases hx : (m0.step tb.cfg op0).ext
          · have : g ≠ g0 := fun h => hc ⟨h, hx⟩
            simp [this]
          · simp
        rw [this]; rfl
end RDS

#print axioms RDS.chkC04_ok
#print axioms RDS.chkC04redeliver_ok
