import RdsModel
import RdsSpec.Monitors
import RdsSpec.Statements
import RdsProofs.Frame
import RdsProofs.Inv
/-!
# RdsProofs.C13Proofs — reset forgets history, keeps settings
-/
namespace RDS

theorem c13_Text_cleared_eq_replicate (t : Text) : t.cleared = List.replicate t.length blank := by
  unfold Text.cleared
  induction t with
  | nil => rfl
  | cons a l ih => rw [List.map_cons, ih, List.length_cons, List.replicate_succ]

/-! facts about `initState`, kept away from `simp` -/
theorem c13_initState_ps : initState.ps = List.replicate capPs blank := rfl
theorem c13_initState_rt0 : initState.rt0 = List.replicate capRt blank := rfl
theorem c13_initState_rt1 : initState.rt1 = List.replicate capRt blank := rfl
theorem c13_initState_ptyn : initState.ptyn = List.replicate capPtyn blank := rfl

/-- what the getters show on a freshly initialised parser with other settings/observers -/
theorem c13_ofState_initWith (set : Settings) (cbs : List Bool) (ud : Nat) :
    Obs.ofState { initState with set := set, cbs := cbs, ud := ud } = Obs.fresh set := by
  have e8 : TextObs.ofText (List.replicate capPs blank) 0 = blankText capPs := by decide
  have e64 : TextObs.ofText (List.replicate capRt blank) 0 = blankText capRt := by decide
  have e8' : TextObs.ofText (List.replicate capPtyn blank) 0 = blankText capPtyn := by decide
  show Obs.mk Scalars.cleared (TextObs.ofText (List.replicate capPs blank) 0)
      (TextObs.ofText (List.replicate capRt blank) 0) (TextObs.ofText (List.replicate capRt blank) 0)
      (TextObs.ofText (List.replicate capPtyn blank) 0) set = _
  rw [e8, e64, e8']
  rfl

/-- `rdsparser_clear` leaves exactly the freshly-initialised state with the old settings and observers -/
theorem C13_clear_state (tb : Tabs) (s : State) (hw : WF tb s) :
    clearState s = { initState with set := s.set, cbs := s.cbs, ud := s.ud } := by
  have h1 : s.ps.cleared = initState.ps := by
    rw [c13_Text_cleared_eq_replicate, hw.psLen]; rfl
  have h2 : s.rt0.cleared = initState.rt0 := by
    rw [c13_Text_cleared_eq_replicate, hw.rt0Len]; rfl
  have h3 : s.rt1.cleared = initState.rt1 := by
    rw [c13_Text_cleared_eq_replicate, hw.rt1Len]; rfl
  have h4 : s.ptyn.cleared = initState.ptyn := by
    rw [c13_Text_cleared_eq_replicate, hw.ptynLen]; rfl
  show State.mk Scalars.cleared Scalars.cleared s.set s.ps.cleared s.rt0.cleared s.rt1.cleared
      s.ptyn.cleared s.termPs s.termRt0 s.termRt1 s.termPtyn (-1) s.cbs s.ud = _
  rw [h1, h2, h3, h4, hw.termPs, hw.termRt0, hw.termRt1, hw.termPtyn]
  rfl

theorem chkC13_ok (tb : Tabs) (s : State) (op : Op) (hw : WF tb s) : chkC13 (recOf tb.cfg s op) = true := by
  cases op with
  | clear =>
    show (Obs.ofState (clearState s) == Obs.fresh s.set) = true
    rw [C13_clear_state tb s hw, c13_ofState_initWith]
    simp
  | init =>
    show (Obs.ofState initState == Obs.fresh Settings.init) = true
    have : Obs.ofState initState = Obs.fresh Settings.init := c13_ofState_initWith Settings.init _ 0
    rw [this]
    simp
  | parse g => rfl
  | parseString x => rfl
  | setExt v => rfl
  | setCorr t k v => rfl
  | setProg t v => rfl
  | register c on => rfl
  | userData n => rfl
  | getters => rfl

/-- whatever happened before the reset, every continuation behaves as on a fresh parser with the same settings/observers -/
theorem C13_continuation (tb : Tabs) (s : State) (hw : WF tb s) (post : List Op) :
    trace tb.cfg (step tb.cfg s .clear).1 post =
    trace tb.cfg { initState with set := s.set, cbs := s.cbs, ud := s.ud } post := by
  show trace tb.cfg (clearState s) post = _
  rw [C13_clear_state tb s hw]

#print axioms C13_clear_state
#print axioms chkC13_ok
#print axioms C13_continuation

end RDS
