import RdsModel
import RdsSpec.Statements
import RdsProofs.Frame
import RdsProofs.Inv
/-!
# RdsProofs.C03Proofs — C03: a block whose error level exceeds what is accepted is irrelevant
-/
namespace RDS

/-! ## groupCommon -/

@[simp] theorem groupCommon_set (s : State) (g : Group) : (groupCommon s g).1.set = s.set := by
  unfold groupCommon
  split <;> split <;> simp

/-- `groupCommon` reads `a` only if `ea = 0`, `b` only if `eb = 0`, and never `c`, `d` -/
theorem groupCommon_congr (s : State) (g g' : Group) (hea : g.ea = g'.ea) (heb : g.eb = g'.eb)
    (ha : g.ea = 0 → g.a = g'.a) (hb : g.eb = 0 → g.b = g'.b) :
    groupCommon s g = groupCommon s g' := by
  unfold groupCommon
  by_cases h1 : g.ea = 0 <;> by_cases h2 : g.eb = 0
  · simp [← hea, ← heb, h1, h2, ← ha h1, ← hb h2]
  · simp [← hea, ← heb, h1, h2, ← ha h1]
  · simp [← hea, ← heb, h1, h2, ← hb h2]
  · simp [← hea, ← heb, h1, h2]

/-! ## block B unused: every handler is the identity -/

theorem setRt_rt (s : State) (flag : Nat) : s.setRt flag (s.rt flag) = s := by
  unfold State.setRt State.rt
  split <;> rfl

theorem group0_unusedB (cfg : Cfg) (s : State) (g : Group) (h0 : g.eb ≠ 0)
    (h1 : s.set.psInfo < g.eb) : group0 cfg s g = (s, []) := by
  have hr := parserUpdate_reject_info cfg s.set s.ps .ps g.d g.eb g.ed (2 * (g.b % 4)) h1
  simp [group0, h0, hr]

theorem group1_unusedB (cfg : Cfg) (s : State) (g : Group) (h0 : g.eb ≠ 0) :
    group1 cfg s g = (s, []) := by
  simp [group1, h0]

theorem group4_unusedB (s : State) (g : Group) (h0 : g.eb ≠ 0) :
    group4 s g = (s, []) := by
  simp [group4, h0]

theorem group10_unusedB (cfg : Cfg) (s : State) (g : Group)
    (h1 : s.set.ptynInfo < g.eb) : group10 cfg s g = (s, []) := by
  have hr := fun t w ex pos => parserUpdate_reject_info cfg s.set t .ptyn w g.eb ex pos h1
  simp [group10, hr]

theorem group2_unusedB (cfg : Cfg) (s : State) (g : Group) (h0 : g.eb ≠ 0)
    (h1 : s.set.rtInfo < g.eb) : group2 cfg s g = (s, []) := by
  have hr := fun t w ex pos => parserUpdate_reject_info cfg s.set t .rt w g.eb ex pos h1
  simp [group2, h0, hr, setRt_rt]

theorem dispatch_unusedB (cfg : Cfg) (s : State) (g : Group) (h0 : g.eb ≠ 0)
    (h1 : s.set.psInfo < g.eb) (h2 : s.set.rtInfo < g.eb) (h3 : s.set.ptynInfo < g.eb) :
    dispatch cfg s g = (s, []) := by
  unfold dispatch
  rw [group0_unusedB cfg s g h0 h1, group1_unusedB cfg s g h0, group2_unusedB cfg s g h0 h2,
    group4_unusedB s g h0, group10_unusedB cfg s g h3]
  simp

/-! ## block B used: handlers read `c` / `d` only through their gates -/

theorem parserUpdate_congr (cfg : Cfg) (set : Settings) (t : Text) (id : TextId)
    (w w' eb ex pos : Nat) (h : eb ≤ set.corr id .info → ex ≤ set.corr id .data → w = w') :
    parserUpdate cfg set t id w eb ex pos = parserUpdate cfg set t id w' eb ex pos := by
  unfold parserUpdate
  split
  · rename_i hg
    simp only [Bool.and_eq_true, decide_eq_true_eq] at hg
    rw [h hg.1 hg.2]
  · rfl

theorem group0_congr (cfg : Cfg) (s : State) (g g' : Group) (hb : g.b = g'.b)
    (heb : g.eb = g'.eb) (hec : g.ec = g'.ec) (hed : g.ed = g'.ed)
    (hc : g.versionB = false → g.eb = 0 → g.ec = 0 → g.c = g'.c)
    (hd : g.eb ≤ s.set.psInfo → g.ed ≤ s.set.psData → g.d = g'.d) :
    group0 cfg s g = group0 cfg s g' := by
  obtain ⟨a, b, c, d, ea, eb, ec, ed⟩ := g
  obtain ⟨a', b', c', d', ea', eb', ec', ed'⟩ := g'
  simp only [Group.versionB] at hb heb hec hed hc hd
  subst hb heb hec hed
  have hset : (if eb = 0 then
      ((setField (setField s .ta (b / 16 % 2 : Nat)).1 .ms (b / 8 % 2 : Nat)).1,
        (setField s .ta (b / 16 % 2 : Nat)).2 ++
          (setField (setField s .ta (b / 16 % 2 : Nat)).1 .ms (b / 8 % 2 : Nat)).2)
      else (s, [])).1.set = s.set := by split <;> simp
  have hu := fun t pos => parserUpdate_congr cfg s.set t .ps d d' eb ed pos hd
  by_cases hC : (b / 2048 % 2 = 1) = False ∧ eb = 0 ∧ ec = 0
  · have := hc (by simpa using hC.1) hC.2.1 hC.2.2
    subst this
    simp only [group0, Group.versionB, hset, hu]
  · have hF : ∀ x : Nat, (!decide (b / 2048 % 2 = 1) && decide (eb = 0) && decide (ec = 0)
        && x / 256 % 256 != 250) = false := by
      intro x
      simp only [eq_iff_iff, iff_false, not_and] at hC
      simp only [Bool.and_eq_false_iff, Bool.not_eq_false', decide_eq_true_eq, decide_eq_false_iff_not]
      by_cases h1 : b / 2048 % 2 = 1
      · exact Or.inl (Or.inl (Or.inl h1))
      · by_cases h2 : eb = 0
        · exact Or.inl (Or.inr (hC h1 h2))
        · exact Or.inl (Or.inl (Or.inr h2))
    simp only [group0, Group.versionB, hset, hu, hF, Bool.false_eq_true, if_false]

theorem group1_congr (cfg : Cfg) (s : State) (g g' : Group) (hb : g.b = g'.b)
    (heb : g.eb = g'.eb) (hec : g.ec = g'.ec)
    (hc : g.versionB = false → g.eb = 0 → g.ec = 0 → g.c = g'.c) :
    group1 cfg s g = group1 cfg s g' := by
  obtain ⟨a, b, c, d, ea, eb, ec, ed⟩ := g
  obtain ⟨a', b', c', d', ea', eb', ec', ed'⟩ := g'
  simp only [Group.versionB] at hb heb hec hc
  subst hb heb hec
  by_cases hC : (b / 2048 % 2 = 1) = False ∧ eb = 0 ∧ ec = 0
  · have := hc (by simpa using hC.1) hC.2.1 hC.2.2
    subst this
    rfl
  · have hF : ∀ x : Nat, (!decide (b / 2048 % 2 = 1) && decide (eb = 0) && decide (ec = 0)
        && decide (x / 4096 % 8 = 0)) = false := by
      intro x
      simp only [eq_iff_iff, iff_false, not_and] at hC
      simp only [Bool.and_eq_false_iff, Bool.not_eq_false', decide_eq_true_eq, decide_eq_false_iff_not]
      by_cases h1 : b / 2048 % 2 = 1
      · exact Or.inl (Or.inl (Or.inl h1))
      · by_cases h2 : eb = 0
        · exact Or.inl (Or.inr (hC h1 h2))
        · exact Or.inl (Or.inl (Or.inr h2))
    simp only [group1, Group.versionB, hF, Bool.false_eq_true, if_false]

theorem group4_congr (s : State) (g g' : Group) (hb : g.b = g'.b)
    (heb : g.eb = g'.eb) (hec : g.ec = g'.ec) (hed : g.ed = g'.ed)
    (hc : g.versionB = false → g.eb = 0 → g.ec = 0 → g.ed = 0 → g.c = g'.c)
    (hd : g.versionB = false → g.eb = 0 → g.ec = 0 → g.ed = 0 → g.d = g'.d) :
    group4 s g = group4 s g' := by
  obtain ⟨a, b, c, d, ea, eb, ec, ed⟩ := g
  obtain ⟨a', b', c', d', ea', eb', ec', ed'⟩ := g'
  simp only [Group.versionB] at hb heb hec hed hc hd
  subst hb heb hec hed
  by_cases hC : (b / 2048 % 2 = 1) = False ∧ eb = 0 ∧ ec = 0 ∧ ed = 0
  · have h1 := hc (by simpa using hC.1) hC.2.1 hC.2.2.1 hC.2.2.2
    have h2 := hd (by simpa using hC.1) hC.2.1 hC.2.2.1 hC.2.2.2
    subst h1 h2
    rfl
  · have hF : (!decide (b / 2048 % 2 = 1) && decide (eb = 0) && decide (ec = 0)
        && decide (ed = 0) && s.registered .ct) = false := by
      simp only [eq_iff_iff, iff_false, not_and] at hC
      simp only [Bool.and_eq_false_iff, Bool.not_eq_false', decide_eq_true_eq, decide_eq_false_iff_not]
      by_cases h1 : b / 2048 % 2 = 1
      · exact Or.inl (Or.inl (Or.inl (Or.inl h1)))
      · by_cases h2 : eb = 0
        · by_cases h3 : ec = 0
          · exact Or.inl (Or.inr (hC h1 h2 h3))
          · exact Or.inl (Or.inl (Or.inr h3))
        · exact Or.inl (Or.inl (Or.inl (Or.inr h2)))
    simp only [group4, Group.versionB, hF, Bool.false_eq_true, if_false]

theorem group10_congr (cfg : Cfg) (s : State) (g g' : Group) (hb : g.b = g'.b)
    (heb : g.eb = g'.eb) (hec : g.ec = g'.ec) (hed : g.ed = g'.ed)
    (hc : g.versionB = false → g.eb ≤ s.set.ptynInfo → g.ec ≤ s.set.ptynData → g.c = g'.c)
    (hd : g.versionB = false → g.eb ≤ s.set.ptynInfo → g.ed ≤ s.set.ptynData → g.d = g'.d) :
    group10 cfg s g = group10 cfg s g' := by
  obtain ⟨a, b, c, d, ea, eb, ec, ed⟩ := g
  obtain ⟨a', b', c', d', ea', eb', ec', ed'⟩ := g'
  simp only [Group.versionB] at hb heb hec hed hc hd
  subst hb heb hec hed
  by_cases hv : b / 2048 % 2 = 1
  · simp only [group10, Group.versionB, hv, decide_true, Bool.not_true, Bool.false_eq_true, if_false]
  · have hv' : decide (b / 2048 % 2 = 1) = false := by simpa using hv
    have hu1 := fun t pos => parserUpdate_congr cfg s.set t .ptyn c c' eb ec pos (hc hv')
    have hu2 := fun t pos => parserUpdate_congr cfg s.set t .ptyn d d' eb ed pos (hd hv')
    simp only [group10, Group.versionB, hu1, hu2]

@[simp] theorem setRt_set (s : State) (fl : Nat) (t : Text) : (s.setRt fl t).set = s.set := by
  unfold State.setRt; split <;> rfl

theorem group2_s2_set (s : State) (p q : Bool) (fl : Nat) (t : Text) (v : Int) :
    (if q then { (if p then s.setRt fl t else s) with lastRt := v }
      else (if p then s.setRt fl t else s)).set = s.set := by
  cases p <;> cases q <;> simp

theorem group2_congr (cfg : Cfg) (s : State) (g g' : Group) (hb : g.b = g'.b)
    (heb : g.eb = g'.eb) (hec : g.ec = g'.ec) (hed : g.ed = g'.ed)
    (hc : g.versionB = false → g.eb ≤ s.set.rtInfo → g.ec ≤ s.set.rtData → g.c = g'.c)
    (hd : g.eb ≤ s.set.rtInfo → g.ed ≤ s.set.rtData → g.d = g'.d) :
    group2 cfg s g = group2 cfg s g' := by
  obtain ⟨a, b, c, d, ea, eb, ec, ed⟩ := g
  obtain ⟨a', b', c', d', ea', eb', ec', ed'⟩ := g'
  simp only [Group.versionB] at hb heb hec hed hc hd
  subst hb heb hec hed
  have hu2 := fun t pos => parserUpdate_congr cfg s.set t .rt d d' eb ed pos hd
  by_cases hv : b / 2048 % 2 = 1
  · simp only [group2, Group.versionB, hv, decide_true, Bool.not_true, Bool.false_eq_true, if_false,
      group2_s2_set, hu2]
  · have hv' : decide (b / 2048 % 2 = 1) = false := by simpa using hv
    have hu1 := fun t pos => parserUpdate_congr cfg s.set t .rt c c' eb ec pos (hc hv')
    simp only [group2, Group.versionB, group2_s2_set, hu1, hu2, hv', Bool.not_false, if_true]

theorem dispatch_congr (cfg : Cfg) (s : State) (g g' : Group) (hb : g.b = g'.b)
    (heb : g.eb = g'.eb) (hec : g.ec = g'.ec) (hed : g.ed = g'.ed)
    (hc : usedC s.set g = true → g.c = g'.c) (hd : usedD s.set g = true → g.d = g'.d) :
    dispatch cfg s g = dispatch cfg s g' := by
  have ht : g'.type = g.type := by simp only [Group.type, hb]
  unfold dispatch
  rw [ht]
  by_cases h0 : g.type = 0
  · rw [if_pos h0, if_pos h0]
    refine group0_congr cfg s g g' hb heb hec hed (fun hv h1 h2 => hc ?_) (fun h1 h2 => hd ?_)
    · simp [usedC, hv, h0, h1, h2]
    · simp [usedD, h0, h1, h2]
  rw [if_neg h0, if_neg h0]
  by_cases h1 : g.type = 1
  · rw [if_pos h1, if_pos h1]
    refine group1_congr cfg s g g' hb heb hec (fun hv e1 e2 => hc ?_)
    simp [usedC, hv, h1, e1, e2]
  rw [if_neg h1, if_neg h1]
  by_cases h2 : g.type = 2
  · rw [if_pos h2, if_pos h2]
    refine group2_congr cfg s g g' hb heb hec hed (fun hv e1 e2 => hc ?_) (fun e1 e2 => hd ?_)
    · simp [usedC, hv, h2, e1, e2]
    · simp [usedD, h2, e1, e2]
  rw [if_neg h2, if_neg h2]
  by_cases h4 : g.type = 4
  · rw [if_pos h4, if_pos h4]
    refine group4_congr s g g' hb heb hec hed (fun hv e1 e2 e3 => hc ?_) (fun hv e1 e2 e3 => hd ?_)
    · simp [usedC, hv, h4, e1, e2, e3]
    · simp [usedD, hv, h4, e1, e2, e3]
  rw [if_neg h4, if_neg h4]
  by_cases h10 : g.type = 10
  · rw [if_pos h10, if_pos h10]
    refine group10_congr cfg s g g' hb heb hec hed (fun hv e1 e2 => hc ?_) (fun hv e1 e2 => hd ?_)
    · simp [usedC, hv, h10, e1, e2]
    · simp [usedD, hv, h10, e1, e2]
  rw [if_neg h10, if_neg h10]

/-! ## the requested theorems -/

/-- non-interference for one delivered group: same successor state AND same event list -/
theorem C03_process (cfg : Cfg) (s : State) (g g' : Group) (h : sameUsed s.set g g' = true) :
    process cfg s g = process cfg s g' := by
  simp only [sameUsed, usedA, usedB, anyInfo, Bool.and_eq_true, Bool.or_eq_true, Bool.not_eq_true',
    decide_eq_true_eq, decide_eq_false_iff_not] at h
  obtain ⟨⟨⟨⟨⟨hea, heb⟩, hec⟩, hed⟩, ha⟩, hB⟩ := h
  have ha' : g.ea = 0 → g.a = g'.a := fun e => ha.resolve_left (fun n => n e)
  simp only [process]
  by_cases hu : g.eb = 0 ∨ (g.eb ≤ s.set.psInfo ∨ g.eb ≤ s.set.rtInfo) ∨ g.eb ≤ s.set.ptynInfo
  · -- block B used
    have hB' : (g.b = g'.b ∧ (usedC s.set g = false ∨ g.c = g'.c)) ∧
        (usedD s.set g = false ∨ g.d = g'.d) := by
      rcases hB with hB | hB
      · exfalso
        simp only [Bool.or_eq_false_iff, decide_eq_false_iff_not] at hB
        omega
      · exact hB
    obtain ⟨⟨hb, hc⟩, hd⟩ := hB'
    have hgc := groupCommon_congr s g g' hea heb ha' (fun _ => hb)
    rw [← hgc]
    have hdc := dispatch_congr cfg (groupCommon s g).1 g g' hb heb hec hed
      (fun u => hc.resolve_left (by simpa using u)) (fun u => hd.resolve_left (by simpa using u))
    rw [← hdc]
  · -- block B unused
    have h0 : g.eb ≠ 0 := fun e => hu (Or.inl e)
    have h1 : s.set.psInfo < g.eb := by omega
    have h2 : s.set.rtInfo < g.eb := by omega
    have h3 : s.set.ptynInfo < g.eb := by omega
    have hgc := groupCommon_congr s g g' hea heb ha' (fun e => absurd e h0)
    rw [← hgc]
    rw [dispatch_unusedB cfg _ g (by simpa using h0) (by simpa using h1) (by simpa using h2)
      (by simpa using h3)]
    rw [dispatch_unusedB cfg _ g' (by simpa [← heb] using h0) (by simpa [← heb] using h1)
      (by simpa [← heb] using h2) (by simpa [← heb] using h3)]

/-- with thresholds clamped to 'large' (2), a block flagged uncorrectable or with any code ≥ 3 is
never used -/
theorem C03_uncorrectable (set : Settings) (hs : set.Ok) (g : Group) :
    (3 ≤ g.ea → usedA g = false) ∧ (3 ≤ g.eb → usedB set g = false) ∧
    (3 ≤ g.ec → usedC set g = false) ∧ (3 ≤ g.ed → usedD set g = false) := by
  obtain ⟨h1, h2, h3, h4, h5, h6⟩ := hs
  refine ⟨?_, ?_, ?_, ?_⟩
  · intro h; simp [usedA]; omega
  · intro h
    simp only [usedB, anyInfo, Bool.or_eq_false_iff, decide_eq_false_iff_not]
    omega
  · intro h
    unfold usedC
    (repeat' split) <;> simp <;> omega
  · intro h
    unfold usedD
    (repeat' split) <;> simp <;> omega

/-- lifted to op lists: two ops are related if equal, or parse ops that may differ in unused
blocks (judged with the given settings) -/
inductive OpRel (set : Settings) : Op → Op → Prop
  | refl (op : Op) : OpRel set op op
  | parse (g g' : Group) (h : sameUsed set g g' = true) : OpRel set (.parse g) (.parse g')

/-- relation between two op lists, threading the model state so that "unused" is judged with the
current settings -/
def TraceRel (cfg : Cfg) : State → List Op → List Op → Prop
  | _, [], [] => True
  | s, op :: ops, op' :: ops' => OpRel s.set op op' ∧ TraceRel cfg (step cfg s op).1 ops ops'
  | _, _, _ => False

theorem C03_step (cfg : Cfg) (s : State) (op op' : Op) (h : OpRel s.set op op') :
    step cfg s op = step cfg s op' := by
  cases h with
  | refl => rfl
  | parse g g' h => simp only [step, C03_process cfg s g g' h]

theorem C03_trace (cfg : Cfg) (s : State) (ops ops' : List Op) (h : TraceRel cfg s ops ops') :
    trace cfg s ops = trace cfg s ops' := by
  induction ops generalizing s ops' with
  | nil =>
    cases ops' with
    | nil => rfl
    | cons _ _ => simp [TraceRel] at h
  | cons op ops ih =>
    cases ops' with
    | nil => simp [TraceRel] at h
    | cons op' ops' =>
      simp only [TraceRel] at h
      obtain ⟨h1, h2⟩ := h
      have hst := C03_step cfg s op op' h1
      simp only [trace]
      rw [← hst, ih _ _ h2]

end RDS

#print axioms RDS.C03_process
#print axioms RDS.C03_uncorrectable
#print axioms RDS.C03_trace
