import RdsModel
import RdsSpec.Monitors
import RdsSpec.Statements
import RdsProofs.Frame
import RdsProofs.Inv
import RdsProofs.CellsSingle
import RdsProofs.CellsExpected
import RdsProofs.CellsDispatch
/-!
# RdsProofs.CellsProofs — C02 / C06 / C07 / C08 for one call

`updateSingle_cellSpec` is proved in `RdsProofs.CellsSingle`; the Prop-level statement
"texts after `process` = `expectedText`" is `process_text` in `RdsProofs.CellsDispatch`.
-/
namespace RDS

/-- a call that delivers a group runs `process` on it -/
theorem step_of_group (cfg : Cfg) (s : State) (op : Op) (g : Group) (hg : op.group? = some g) :
    (step cfg s op).1 = (process cfg s g).1 := by
  cases op with
  | parse g' =>
    have : g' = g := by simpa [Op.group?] using hg
    subst this; rfl
  | parseString b =>
    cases b with
    | none => simp [Op.group?] at hg
    | some bytes =>
      have hg' : utilsConvert bytes = some g := hg
      simp [step, hg']
  | _ => simp [Op.group?] at hg

/-- a call that delivers no group and is not `init`/`clear` leaves the texts alone -/
theorem step_text_none (cfg : Cfg) (s : State) (op : Op) (hi : op ≠ .init) (hc : op ≠ .clear)
    (hg : op.group? = none) (t : Nat) : (step cfg s op).1.text t = s.text t := by
  cases op with
  | init => exact absurd rfl hi
  | clear => exact absurd rfl hc
  | parse g' => simp [Op.group?] at hg
  | parseString b =>
    cases b with
    | none => rfl
    | some bytes =>
      have hg' : utilsConvert bytes = none := hg
      simp [step, hg']
  | _ => rfl

theorem all_range4 (p : Nat → Bool) : (List.range 4).all p = true ↔ ∀ t, t < 4 → p t = true := by
  simp [List.all_eq_true, List.mem_range]

/-- Prop form of `chkCells`/`chkC07`'s data: the texts after any call other than init/clear -/
theorem after_text (tb : Tabs) (m : Mon) (s : State) (op : Op) (hl : Link m s) (hw : WF tb s)
    (hi : op ≠ .init) (hc : op ≠ .clear) (t : Nat) (ht : t < 4) :
    ((recOf tb.cfg s op).after.text t).cells =
      match op.group? with
      | some g => expectedText tb.cfg m (Obs.ofState s) g t
      | none => ((recOf tb.cfg s op).before.text t).cells := by
  show ((Obs.ofState (step tb.cfg s op).1).text t).cells = _
  rw [obs_text_cells]
  cases hg : op.group? with
  | some g =>
    rw [step_of_group _ _ _ _ hg]
    exact process_text tb.cfg m s g hl.lastFlag hw.psLen hw.rt0Len hw.rt1Len hw.ptynLen t ht
  | none =>
    show _ = ((Obs.ofState s).text t).cells
    rw [obs_text_cells]
    exact step_text_none _ _ _ hi hc hg t

/-- C02 + C06 + C08 for one call: all four texts after the call are the expected ones -/
theorem chkCells_ok (tb : Tabs) (m : Mon) (s : State) (op : Op) (hl : Link m s) (hw : WF tb s) :
    chkCells tb.cfg m (recOf tb.cfg s op) = true := by
  by_cases hi : op = .init
  · subst hi; rfl
  by_cases hc : op = .clear
  · subst hc; rfl
  have key := after_text tb m s op hl hw hi hc
  have hop : (recOf tb.cfg s op).op = op := rfl
  have hbefore : (recOf tb.cfg s op).before = Obs.ofState s := rfl
  unfold chkCells
  rw [hop]
  cases hg : op.group? with
  | some g =>
    rw [hg] at key
    have : (List.range 4).all (fun t => ((recOf tb.cfg s op).after.text t).cells ==
        expectedText tb.cfg m (recOf tb.cfg s op).before g t) = true := by
      rw [all_range4]; intro t ht; rw [key t ht, hbefore]; exact beq_self_eq_true _
    cases op <;> first | exact absurd rfl hi | exact absurd rfl hc | exact this
  | none =>
    rw [hg] at key
    have : (List.range 4).all (fun t => ((recOf tb.cfg s op).after.text t).cells ==
        ((recOf tb.cfg s op).before.text t).cells) = true := by
      rw [all_range4]; intro t ht; rw [key t ht]; exact beq_self_eq_true _
    cases op <;> first | exact absurd rfl hi | exact absurd rfl hc | exact this

theorem expCells_getD (cfg : Cfg) (set : Settings) (tid : TextId) (eb : Nat) (old : Text)
    (addr : List (Nat × Nat × Nat × Nat)) (i : Nat) (hi : i < old.length) :
    (expCells cfg set tid eb old addr).getD i blank =
      match addr.find? (fun a => a.2.1 = i) with
      | some (_, _, b, ex) =>
        cellSpec cfg (set.corr tid .info) (set.corr tid .data) (set.prog tid) (old.getD i blank) b eb ex
      | none => old.getD i blank := by
  have hlen : (expCells cfg set tid eb old addr).length = old.length := by simp [expCells]
  rw [getD_eq_getElem' _ i (by omega)]
  simp only [expCells, List.getElem_map, List.getElem_range]
  rfl

/-- C07 core on a whole text: with progressive correction no level increases -/
theorem expCells_lvl_le (cfg : Cfg) (set : Settings) (tid : TextId) (eb : Nat) (old : Text)
    (addr : List (Nat × Nat × Nat × Nat)) (hprog : set.prog tid = true) (i : Nat) (hi : i < old.length) :
    ((expCells cfg set tid eb old addr).getD i blank).lvl ≤ (old.getD i blank).lvl := by
  rw [expCells_getD _ _ _ _ _ _ _ hi]
  split
  · rw [hprog]; exact cellSpec_lvl_le _ _ _ _ _ _ _
  · exact Nat.le_refl _

theorem cells_all_range (n : Nat) (p : Nat → Bool) : (List.range n).all p = true ↔ ∀ i, i < n → p i = true := by
  simp [List.all_eq_true, List.mem_range]

/-- C07 for one call: with progressive correction on, no cell's level increases (except when
that buffer is reset) -/
theorem chkC07_ok (tb : Tabs) (m : Mon) (s : State) (op : Op) (hl : Link m s) (hw : WF tb s) :
    chkC07 m (recOf tb.cfg s op) = true := by
  by_cases hi : op = .init
  · subst hi; rfl
  by_cases hc : op = .clear
  · subst hc; rfl
  have key := after_text tb m s op hl hw hi hc
  have hop : (recOf tb.cfg s op).op = op := rfl
  have hbefore : (recOf tb.cfg s op).before = Obs.ofState s := rfl
  have main : ((List.range 4).all fun t =>
      !((recOf tb.cfg s op).before.set.prog (textIdOf t)) ||
      (match (recOf tb.cfg s op).op.group? with
       | some g => switchDiscard m (recOf tb.cfg s op).before g && t = 1 + g.b / 16 % 2
       | none => false) ||
      (List.range ((recOf tb.cfg s op).before.text t).cells.length).all fun i =>
        let c := ((recOf tb.cfg s op).before.text t).cells.getD i blank
        let c' := ((recOf tb.cfg s op).after.text t).cells.getD i blank
        c'.lvl ≤ c.lvl) = true := by
    rw [all_range4]
    intro t ht
    rw [hop, hbefore]
    cases hprog : (Obs.ofState s).set.prog (textIdOf t) with
    | false => rfl
    | true =>
      simp only [Bool.not_true, Bool.false_or, Bool.or_eq_true]
      cases hg : op.group? with
      | none =>
        right
        rw [cells_all_range]; intro i _
        rw [hg] at key
        simp only [key t ht, hbefore]
        exact decide_eq_true (Nat.le_refl _)
      | some g =>
        simp only []
        cases hsd : (switchDiscard m (Obs.ofState s) g && decide (t = 1 + g.b / 16 % 2)) with
        | true => left; rfl
        | false =>
          right
          rw [cells_all_range]; intro i hilt
          rw [hg] at key
          simp only [key t ht]
          rw [expectedText_eq, hsd]
          simp only [Bool.false_eq_true, if_false]
          exact decide_eq_true (expCells_lvl_le _ _ _ _ _ _ hprog i hilt)
  unfold chkC07
  cases op <;> first | exact absurd rfl hi | exact absurd rfl hc | exact main

#print axioms updateSingle_cellSpec
#print axioms chkCells_ok
#print axioms chkC07_ok

end RDS
