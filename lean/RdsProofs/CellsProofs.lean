import RdsModel
import RdsSpec.Monitors
import RdsSpec.Statements
import RdsProofs.Frame
import RdsProofs.Inv
import RdsProofs.CellsSingle
import RdsProofs.CellsExpected
import RdsProofs.CellsDispatch
/-!
# RdsProofs.CellsProofs — C02 / C06 / C07 / C08 for one call

`updateSingle_cellSpec` is proved in `RdsProofs.CellsSingle`; the Prop-level statement
"texts after `process` = `expectedText`" is `process_text` in `RdsProofs.CellsDispatch`.
-/
namespace RDS

/-- a call that delivers a group runs `process` on it -/
theorem step_of_group (cfg : Cfg) (s : State) (op : Op) (g : Group) (hg : op.group? = some g) :
    (step cfg s op).1 = (process cfg s g).1 := by
  cases op with
  | parse g' =>
    have : g' = g := by simpa [Op.group?] using hg
    subst this; rfl
  | parseString b =>
    cases b with
    | none => simp [Op.group?] at hg
    | some bytes =>
      have hg' : utilsConvert bytes = some g := hg
      simp [step, hg']
  | _ => simp [Op.group?] at hg

/-- a call that delivers no group and is not `init`/`clear` leaves the texts alone -/
theorem step_text_none (cfg : Cfg) (s : State) (op : Op) (hi : op ≠ .init) (hc : op ≠ .clear)
    (hg : op.group? = none) (t : Nat) : (step cfg s op).1.text t = s.text t := by
  cases op with
  | init => exact absurd rfl hi
  | clear => exact absurd rfl hc
  | parse g' => simp [Op.group?] at hg
  | parseString b =>
    cases b with
    | none => rfl
    | some bytes =>
      have hg' : utilsConvert bytes = none := hg
      simp [step, hg']
  | _ => rfl

theorem all_range4 (p : Nat → Bool) : (List.range 4).all p = true ↔ ∀ t, t < 4 → p t = true := by
  simp [List.all_eq_true, List.mem_range]

/-- Prop form of `chkCells`/`chkC07`'s data: the texts after any call other than init/clear -/
theorem after_text (tb : Tabs) (m : Mon) (s : State) (op : Op) (hl : Link m s) (hw : WF tb s)
    (hi : op ≠ .init) (hc : op ≠ .clear) (t : Nat) (ht : t < 4) :
    ((recOf tb.cfg s op).after.text t).cells =
      match op.group? with
      | some g => expectedText tb.cfg m (Obs.ofState s) g t
      | none => ((recOf tb.cfg s op).before.text t).cells := by
  show ((Obs.ofState (step tb.cfg s op).1).text t).cells = _
  rw [obs_text_cells]
  cases hg : op.group? with
  | some g =>
    rw [step_of_group _ _ _ _ hg]
    exact process_text tb.cfg m s g hl.lastFlag hw.psLen hw.rt0Len hw.rt1Len hw.ptynLen t ht
  | none =>
    show _ = ((Obs.ofState s).text t).cells
    rw [obs_text_cells]
    exact step_text_none _ _ _ hi hc hg t

/-- C02 + C06 + C08 for one call: all four texts after the call are the expected ones -/
theorem chkCells_ok (tb : Tabs) (m : Mon) (s : State) (op : Op) (hl : Link m s) (hw : WF tb s) :
    chkCells tb.cfg m (recOf tb.cfg s op) = true := by
  by_cases hi : op = .init
  · subst hi; rfl
  by_cases hc : op = .clear
  · subst hc; rfl
  have key := after_text tb m s op hl hw hi hc
  have hop : (recOf tb.cfg s op).op = op := rfl
  have hbefore : (recOf tb.cfg s op).before = Obs.ofState s := rfl
  unfold chkCells
  rw [hop]
  cases hg : op.group? with
  | some g =>
    rw [hg] at key
    have : (List.range 4).all (fun t => ((recOf tb.cfg s op).after.text t).cells ==
        expectedText tb.cfg m (recOf tb.cfg s op).before g t) = true := by
      rw [all_range4]; intro t ht; rw [key t ht, hbefore]; exact beq_self_eq_true _
    cases op <;> first | exact absurd rfl hi | exact absurd rfl hc | exact this
  | none =>
    rw [hg] at key
    have : (List.range 4).all (fun t => ((recOf tb.cfg s op).after.text t).cells ==
        ((recOf tb.cfg s op).before.text t).cells) = true := by
      rw [all_range4]; intro t ht; rw [key t ht]; exact beq_self_eq_true _
    cases op <;> first | exact absurd rfl hi | exact absurd rfl hc | exact this

theorem expCells_getD (cfg : Cfg) (set : Settings) (tid : TextId) (eb : Nat) (old : Text)
    (addr : List (Nat × Nat × Nat × Nat)) (i : Nat) (hi : i < old.length) :
    (expCells cfg set tid eb old addr).getD i blank =
      match addr.find? (fun a => a.2.1 = i) with
      | some (_, _, b, ex) =>
        cellSpec cfg (set.corr tid .info) (set.corr tid .data) (set.prog tid) (old.getD i blank) b eb ex
      | none => old.getD i blank := by
  have hlen : (expCells cfg set tid eb old addr).length = old.length := by simp [expCells]
  rw [getD_eq_getElem' _ i (by omega)]
  simp only [expCells, List.getElem_map, List.getElem_range]
  rfl

/-- C07 core on a whole text: with progressive correction no level increases -/
theorem expCells_lvl_le (cfg : Cfg) (set : Settings) (tid : TextId) (eb : Nat) (old : Text)
    (addr : List (Nat × Nat × Nat × Nat)) (hprog : set.prog tid = true) (i : Nat) (hi : i < old.length) :
    ((expCells cfg set tid eb old addr).getD i blank).lvl ≤ (old.getD i blank).lvl := by
  rw [expCells_getD _ _ _ _ _ _ _ hi]
  split
  · rw [hprog]; exact cellSpec_lvl_le _ _ _ _ _ _ _
  · exact Nat.le_refl _

theorem cells_all_range (n : Nat) (p : Nat → Bool) : (List.range n).all p = true ↔ ∀ i, i < n → p i = true := by
  simp [List.all_eq_true, List.mem_range]

/-- C07, character clause, one addressed cell: with progressive correction, if `cellSpec` changes the character then
the reception's weighted level is not worse than the cell's level -/
theorem cellSpec_ch_or (cfg : Cfg) (info data : Nat) (old : Cell) (b eb ed : Nat) :
    (cellSpec cfg info data true old b eb ed).ch = old.ch ∨ recvLevel eb ed ≤ old.lvl := by
  unfold cellSpec recvLevel
  simp only []
  generalize (if (decide (eb = 0) && decide (ed = 0)) = true then 0 else 2 * eb + 3 * ed - 1) = lvl
  split
  · rename_i h
    simp only [Bool.and_eq_true, Bool.not_true, Bool.false_or, decide_eq_true_eq] at h
    exact Or.inr h.1.1.1.1.2
  · exact Or.inl rfl

/-- C07, character clause on a whole text: a changed character comes from an addressed reception that is not worse -/
theorem expCells_ch_or (cfg : Cfg) (set : Settings) (tid : TextId) (eb : Nat) (old : Text)
    (addr : List (Nat × Nat × Nat × Nat)) (hprog : set.prog tid = true) (i : Nat) (hi : i < old.length) :
    ((expCells cfg set tid eb old addr).getD i blank).ch = (old.getD i blank).ch ∨
      ∃ a, a ∈ addr ∧ a.2.1 = i ∧ recvLevel eb a.2.2.2 ≤ (old.getD i blank).lvl := by
  rw [expCells_getD _ _ _ _ _ _ _ hi]
  cases hf : addr.find? (fun a => a.2.1 = i) with
  | none => exact Or.inl rfl
  | some a =>
    obtain ⟨t', i', b, ex⟩ := a
    simp only []
    rw [hprog]
    rcases cellSpec_ch_or cfg (set.corr tid .info) (set.corr tid .data) (old.getD i blank) b eb ex with h | h
    · exact Or.inl h
    · have h1 := List.find?_some hf
      simp only [decide_eq_true_eq] at h1
      exact Or.inr ⟨_, List.mem_of_find?_eq_some hf, h1, h⟩

/-- C07 for one call: with progressive correction on, no cell's level increases and a character is replaced only
by an addressed reception whose level is not worse (except when that buffer is reset) -/
theorem chkC07_ok (tb : Tabs) (m : Mon) (s : State) (op : Op) (hl : Link m s) (hw : WF tb s) :
    chkC07 m (recOf tb.cfg s op) = true := by
  by_cases hi : op = .init
  · subst hi; rfl
  by_cases hc : op = .clear
  · subst hc; rfl
  have key := after_text tb m s op hl hw hi hc
  have hop : (recOf tb.cfg s op).op = op := rfl
  have hbefore : (recOf tb.cfg s op).before = Obs.ofState s := rfl
  have main : ((List.range 4).all fun t =>
      !((recOf tb.cfg s op).before.set.prog (textIdOf t)) ||
      (match (recOf tb.cfg s op).op.group? with
       | some g => switchDiscard m (recOf tb.cfg s op).before g && t = 1 + g.b / 16 % 2
       | none => false) ||
      (List.range ((recOf tb.cfg s op).before.text t).cells.length).all fun i =>
        let c := ((recOf tb.cfg s op).before.text t).cells.getD i blank
        let c' := ((recOf tb.cfg s op).after.text t).cells.getD i blank
        c'.lvl ≤ c.lvl &&
        (c'.ch == c.ch ||
          (match (recOf tb.cfg s op).op.group? with
           | some g => (addressed g).any (fun a => a.1 == t && a.2.1 == i && decide (recvLevel g.eb a.2.2.2 ≤ c.lvl))
           | none => false))) = true := by
    rw [all_range4]
    intro t ht
    rw [hop, hbefore]
    cases hprog : (Obs.ofState s).set.prog (textIdOf t) with
    | false => rfl
    | true =>
      simp only [Bool.not_true, Bool.false_or, Bool.or_eq_true]
      cases hg : op.group? with
      | none =>
        right
        rw [cells_all_range]; intro i _
        rw [hg] at key
        simp only [key t ht, hbefore]
        rw [Bool.and_eq_true]
        exact ⟨decide_eq_true (Nat.le_refl _), by simp⟩
      | some g =>
        simp only []
        cases hsd : (switchDiscard m (Obs.ofState s) g && decide (t = 1 + g.b / 16 % 2)) with
        | true => left; rfl
        | false =>
          right
          rw [cells_all_range]; intro i hilt
          rw [hg] at key
          simp only [key t ht]
          rw [expectedText_eq, hsd]
          simp only [Bool.false_eq_true, if_false]
          rw [Bool.and_eq_true]
          refine ⟨decide_eq_true (expCells_lvl_le _ _ _ _ _ _ hprog i hilt), ?_⟩
          rw [Bool.or_eq_true]
          rcases expCells_ch_or tb.cfg (Obs.ofState s).set (textIdOf t) g.eb ((Obs.ofState s).text t).cells
            (if rtNoisy m g then [] else (addressed g).filter (fun a => a.1 = t)) hprog i hilt with h | ⟨a, ha, hai, hlv⟩
          · left; rw [h]; exact beq_self_eq_true _
          · right
            have ha' : a ∈ (addressed g).filter (fun a => a.1 = t) := by
              split at ha
              · cases ha
              · exact ha
            rw [List.mem_filter] at ha'
            have hat : a.1 = t := by simpa using ha'.2
            rw [List.any_eq_true]
            refine ⟨a, ha'.1, ?_⟩
            simp only [Bool.and_eq_true, beq_iff_eq, decide_eq_true_eq]
            exact ⟨⟨hat, hai⟩, hlv⟩
  unfold chkC07
  cases op <;> first | exact absurd rfl hi | exact absurd rfl hc | exact main

#print axioms updateSingle_cellSpec
#print axioms chkCells_ok
#print axioms chkC07_ok

end RDS
