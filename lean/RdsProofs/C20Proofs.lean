import RdsProofs.C20Ascii
import RdsProofs.C20Mask
/-!
# RdsProofs.C20Proofs — the two charset configurations decode identically modulo the character type

Both parts are instances of the generic two-run simulation of `RdsProofs.C20Base`:
(A) `RdsProofs.C20Ascii` — texts related by the charset embedding, for histories that never present a
byte ≥ 0x7F to a text cell; (B) `RdsProofs.C20Mask` — texts related by their received-mask, for all histories.
-/
namespace RDS

theorem c20_gw_of_ops {ops : List Op} (ha : ∀ op ∈ ops, op.asciiOnly = true) :
    ∀ op ∈ ops, ∀ g, op.group? = some g → c20_GW c20_WA g :=
  fun op hm => c20_gw_of_op_asciiOnly op (ha op hm)

/-- the relation of instance (A) holds after every ASCII-only history -/
theorem c20_run_A (cfg : Cfg) (h : G0Ascii cfg) (ops : List Op) (ha : ∀ op ∈ ops, op.asciiOnly = true) :
    c20_R (c20_TA cfg) (fun _ => True) (run cfg.narrow ops) (run cfg.wide ops) :=
  c20_run (c20_ax_A cfg h) ops (c20_gw_of_ops ha)

/-- the relation of instance (B) holds after every history -/
theorem c20_run_B (cfgn cfgw : Cfg) (hecc : cfgn.ecc = cfgw.ecc) (ops : List Op) :
    c20_R c20_TB Settings.Ok (run cfgn ops) (run cfgw ops) :=
  c20_run (c20_ax_B cfgn cfgw hecc) ops (fun _ _ g _ => c20_gw_true g)

/-- (A) On histories that never present a byte ≥ 0x7F to a text cell, the two builds are in lock step modulo the
character embedding: same scalars, settings, flags, levels, and the wide build's characters are the table images of the
narrow build's raw bytes; every call returns the same result and fires the same callbacks, each seeing embedded state. -/
theorem C20_ascii (cfg : Cfg) (h : G0Ascii cfg) (ops : List Op) (ha : ∀ op ∈ ops, op.asciiOnly = true) :
    embedState cfg (run cfg.narrow ops) = run cfg.wide ops :=
  (c20_RA_eq (c20_run_A cfg h ops ha)).symm

theorem C20_ascii_step (cfg : Cfg) (h : G0Ascii cfg) (ops : List Op) (ha : ∀ op ∈ ops, op.asciiOnly = true)
    (op : Op) (hop : op.asciiOnly = true) :
    (step cfg.narrow (run cfg.narrow ops) op).2.2 = (step cfg.wide (run cfg.wide ops) op).2.2 ∧
    (step cfg.narrow (run cfg.narrow ops) op).2.1.map (fun e => (e.kind, e.ud, embedState cfg e.snap)) =
    (step cfg.wide (run cfg.wide ops) op).2.1.map (fun e => (e.kind, e.ud, e.snap)) :=
  (c20_sim_step (c20_ax_A cfg h) _ _ (c20_run_A cfg h ops ha) op (c20_gw_of_op_asciiOnly op hop)).2

-- `EccOk` is part of the requested statement but not needed: the proof does not go through `WF`
set_option linter.unusedVariables false in
/-- (B) For ALL histories: everything except the characters/levels of the texts is identical in the two builds —
buffered scalars (both stages), AF lists, settings, last RT flag, observers, and which cells have been received
(hence availability and the RT A/B switch behaviour); every call returns the same result and fires the same
non-text callbacks in the same order. -/
theorem C20_nontext (tb : Tabs) (hE : EccOk tb) (ops : List Op) :
    nonText (run tb.cfg.narrow ops) = nonText (run tb.cfg.wide ops) :=
  c20_nonText_of_R (c20_run_B tb.cfg.narrow tb.cfg.wide rfl ops)

set_option linter.unusedVariables false in
theorem C20_nontext_step (tb : Tabs) (hE : EccOk tb) (ops : List Op) (op : Op) :
    (step tb.cfg.narrow (run tb.cfg.narrow ops) op).2.2 = (step tb.cfg.wide (run tb.cfg.wide ops) op).2.2 ∧
    nonTextKinds (step tb.cfg.narrow (run tb.cfg.narrow ops) op).2.1 = nonTextKinds (step tb.cfg.wide (run tb.cfg.wide ops) op).2.1 :=
  (c20_sim_step (c20_ax_B tb.cfg.narrow tb.cfg.wide rfl) _ _ (c20_run_B tb.cfg.narrow tb.cfg.wide rfl ops) op
    (fun g _ => c20_gw_true g)).2

#print axioms C20_ascii
#print axioms C20_ascii_step
#print axioms C20_nontext
#print axioms C20_nontext_step

end RDS
