import RdsModel
import RdsSpec.Monitors
import RdsSpec.Statements
/-!
# RdsProofs.Inv — the two invariants every history proof uses

* `WF` — well-formedness of a parser state (C16/C17 core);
* `Link` — the refinement relation between the abstract reference machine `Mon` and a
  parser state (C01, C09, C10, C11, C15, C17, C08's flag).
-/
namespace RDS

/-- a character cell is well-formed -/
def CellOk (cfg : Cfg) (c : Cell) : Prop :=
  c.lvl ≤ 10 ∧ (c.lvl = 10 → c.ch = 0x20) ∧
  (c.ch = 0 ∨ c.lvl = 10 ∨ ∃ b, 0x20 ≤ b ∧ b < 256 ∧ conv cfg b = c.ch)

def TextOk (cfg : Cfg) (t : Text) : Prop := ∀ c ∈ t, CellOk cfg c

def Settings.Ok (s : Settings) : Prop :=
  s.psInfo ≤ 2 ∧ s.psData ≤ 2 ∧ s.rtInfo ≤ 2 ∧ s.rtData ≤ 2 ∧ s.ptynInfo ≤ 2 ∧ s.ptynData ≤ 2

structure WF (tb : Tabs) (s : State) : Prop where
  psLen : s.ps.length = capPs
  rt0Len : s.rt0.length = capRt
  rt1Len : s.rt1.length = capRt
  ptynLen : s.ptyn.length = capPtyn
  psOk : TextOk tb.cfg s.ps
  rt0Ok : TextOk tb.cfg s.rt0
  rt1Ok : TextOk tb.cfg s.rt1
  ptynOk : TextOk tb.cfg s.ptyn
  termPs : s.termPs = 0
  termRt0 : s.termRt0 = 0
  termRt1 : s.termRt1 = 0
  termPtyn : s.termPtyn = 0
  setOk : s.set.Ok
  lastRt : s.lastRt = -1 ∨ s.lastRt = 0 ∨ s.lastRt = 1
  usedAfLen : s.used.af.length = afBits
  tempAfLen : s.temp.af.length = afBits
  usedAfValid : ∀ v, s.used.af.getD v false = true → afValid v = true
  tempAfValid : ∀ v, s.temp.af.getD v false = true → afValid v = true
  cbsLen : s.cbs.length = 12
  country : 0 ≤ s.used.country ∧ s.used.country < tb.countryCount

def Mon.fld (m : Mon) : Fld → AFld
  | .pi => m.pi | .pty => m.pty | .tp => m.tp | .ta => m.ta | .ms => m.ms | .ecc => m.ecc
  | .country => m.country

/-- link between one buffered scalar (used, temp) and its abstract field -/
def FInv (ext : Bool) (unk : Int) (used temp : Int) (f : AFld) : Prop :=
  used = f.vis ∧ (ext = true → temp = f.last.getD unk) ∧ (f.last = none → f.vis = unk)

/-- link between the two AF bitmaps and the reception counts -/
def AfLink (ext : Bool) (used temp : List Bool) (cnt : List Nat) : Prop :=
  ∀ v, v < afBits →
    (used.getD v false = if ext then decide (cnt.getD v 0 ≥ 2) else decide (cnt.getD v 0 ≥ 1)) ∧
    (ext = true → temp.getD v false = decide (cnt.getD v 0 ≥ 1))

structure Link (m : Mon) (s : State) : Prop where
  set : m.set = s.set
  ext : m.ext = s.set.ext
  cbs : m.cbs = s.cbs
  ud : m.ud = s.ud
  lastFlag : m.lastFlag = s.lastRt
  cntLen : m.afCount.length = afBits
  cntInvalid : ∀ v, afValid v = false → m.afCount.getD v 0 = 0
  fields : m.clean = true → ∀ f, FInv s.set.ext f.unknown (s.used.get f) (s.temp.get f) (m.fld f)
  af : m.clean = true → AfLink s.set.ext s.used.af s.temp.af m.afCount
  /-- nothing received since the last reset: both buffer stages are in their reset state -/
  quiet : m.anyRecv = false →
    (∀ f, s.used.get f = f.unknown ∧ s.temp.get f = f.unknown ∧ (m.fld f).last = none ∧ (m.fld f).vis = f.unknown) ∧
    s.used.af = List.replicate afBits false ∧ s.temp.af = List.replicate afBits false

end RDS
