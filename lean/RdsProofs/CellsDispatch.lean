import RdsModel
import RdsSpec.Monitors
import RdsSpec.Statements
import RdsProofs.Frame
import RdsProofs.CellsSingle
import RdsProofs.CellsExpected
/-!
# RdsProofs.CellsDispatch — the four texts after `process` are `expectedText`
-/
namespace RDS

/-- the four text buffers by number (0 = PS, 1 = RT-A, 2 = RT-B, 3 = PTYN) -/
def State.text (s : State) : Nat → Text
  | 0 => s.ps | 1 => s.rt0 | 2 => s.rt1 | _ => s.ptyn

theorem obs_text_cells (s : State) (t : Nat) : ((Obs.ofState s).text t).cells = s.text t := by
  match t with
  | 0 => rfl
  | 1 => rfl
  | 2 => rfl
  | _ + 3 => rfl

theorem text_rt (s : State) (f : Nat) (hf : f < 2) : s.text (1 + f) = s.rt f := by
  have : f = 0 ∨ f = 1 := by omega
  rcases this with h | h <;> subst h <;> rfl

theorem textIdOf_rt (f : Nat) (hf : f < 2) : textIdOf (1 + f) = .rt := by
  have : f = 0 ∨ f = 1 := by omega
  rcases this with h | h <;> subst h <;> rfl

/-! ## State.rt / State.setRt -/
@[simp] theorem setRt_rt_same (s : State) (f : Nat) (t : Text) : (s.setRt f t).rt f = t := by
  unfold State.setRt State.rt; split <;> simp [*]
@[simp] theorem setRt_ps (s : State) (f : Nat) (t : Text) : (s.setRt f t).ps = s.ps := by
  unfold State.setRt; split <;> rfl
@[simp] theorem setRt_ptyn (s : State) (f : Nat) (t : Text) : (s.setRt f t).ptyn = s.ptyn := by
  unfold State.setRt; split <;> rfl
@[simp] theorem setRt_set (s : State) (f : Nat) (t : Text) : (s.setRt f t).set = s.set := by
  unfold State.setRt; split <;> rfl
@[simp] theorem setRt_lastRt (s : State) (f : Nat) (t : Text) : (s.setRt f t).lastRt = s.lastRt := by
  unfold State.setRt; split <;> rfl
theorem setRt_rt_ne (s : State) (f f' : Nat) (t : Text) (hf : f < 2) (hf' : f' < 2) (h : f ≠ f') :
    (s.setRt f t).rt f' = s.rt f' := by
  unfold State.setRt State.rt
  split <;> split <;> first | rfl | omega
@[simp] theorem lastRt_upd_rt (s : State) (x : Int) (f : Nat) : ({ s with lastRt := x } : State).rt f = s.rt f := rfl

/-! ## groupCommon touches no text -/
section groupCommon
variable (s : State) (g : Group)
@[simp] theorem groupCommon_set : (groupCommon s g).1.set = s.set := by
  unfold groupCommon; split <;> split <;> simp
@[simp] theorem groupCommon_ps : (groupCommon s g).1.ps = s.ps := by
  unfold groupCommon; split <;> split <;> simp
@[simp] theorem groupCommon_rt0 : (groupCommon s g).1.rt0 = s.rt0 := by
  unfold groupCommon; split <;> split <;> simp
@[simp] theorem groupCommon_rt1 : (groupCommon s g).1.rt1 = s.rt1 := by
  unfold groupCommon; split <;> split <;> simp
@[simp] theorem groupCommon_ptyn : (groupCommon s g).1.ptyn = s.ptyn := by
  unfold groupCommon; split <;> split <;> simp
@[simp] theorem groupCommon_lastRt : (groupCommon s g).1.lastRt = s.lastRt := by
  unfold groupCommon; split <;> split <;> simp
theorem groupCommon_text (t : Nat) : (groupCommon s g).1.text t = s.text t := by
  unfold State.text; split <;> simp
end groupCommon

/-! ## group0 -/
section group0
variable (cfg : Cfg) (s : State) (g : Group)
theorem group0_ps : (group0 cfg s g).1.ps =
    (parserUpdate cfg s.set s.ps .ps g.d g.eb g.ed (2 * (g.b % 4))).1 := by
  unfold group0; simp only []; split <;> split <;> simp
@[simp] theorem group0_rt0 : (group0 cfg s g).1.rt0 = s.rt0 := by
  unfold group0; simp only []; split <;> split <;> simp
@[simp] theorem group0_rt1 : (group0 cfg s g).1.rt1 = s.rt1 := by
  unfold group0; simp only []; split <;> split <;> simp
@[simp] theorem group0_ptyn : (group0 cfg s g).1.ptyn = s.ptyn := by
  unfold group0; simp only []; split <;> split <;> simp
end group0

/-! ## group1, group4 -/
theorem group1_text (cfg : Cfg) (s : State) (g : Group) (t : Nat) : (group1 cfg s g).1.text t = s.text t := by
  unfold group1 State.text; split <;> split <;> simp
theorem group4_fst (s : State) (g : Group) : (group4 s g).1 = s := by
  unfold group4; split
  · simp only []; split <;> rfl
  · rfl

/-! ## group10 -/
section group10
variable (cfg : Cfg) (s : State) (g : Group)
@[simp] theorem group10_ps : (group10 cfg s g).1.ps = s.ps := by
  unfold group10; split <;> rfl
@[simp] theorem group10_rt0 : (group10 cfg s g).1.rt0 = s.rt0 := by
  unfold group10; split <;> rfl
@[simp] theorem group10_rt1 : (group10 cfg s g).1.rt1 = s.rt1 := by
  unfold group10; split <;> rfl
theorem group10_ptyn_A (h : g.versionB = false) : (group10 cfg s g).1.ptyn =
    (parserUpdate cfg s.set (parserUpdate cfg s.set s.ptyn .ptyn g.c g.eb g.ec (4 * (g.b % 2))).1
      .ptyn g.d g.eb g.ed (4 * (g.b % 2) + 2)).1 := by
  unfold group10; simp [h]
theorem group10_ptyn_B (h : g.versionB = true) : (group10 cfg s g).1.ptyn = s.ptyn := by
  unfold group10; simp [h]
end group10

/-! ## group2 -/
/-- the toggle-detection condition of `group2` -/
def g2sw (s : State) (g : Group) : Bool := g.eb = 0 && (((g.b / 16 % 2 : Nat) : Int) != s.lastRt)
/-- the discard condition of `group2` -/
def g2clr (s : State) (g : Group) : Bool :=
  g2sw s g && s.lastRt != -1 && getAvailable (s.rt (g.b / 16 % 2))
/-- the state of `group2` after toggle detection -/
def g2s2 (s : State) (g : Group) : State :=
  let s1 := if g2clr s g then s.setRt (g.b / 16 % 2) (s.rt (g.b / 16 % 2)).cleared else s
  if g2sw s g then { s1 with lastRt := (g.b / 16 % 2 : Nat) } else s1
/-- the bit-flip guard of `group2` -/
def g2guard (s : State) (g : Group) : Bool :=
  g.eb != 0 && ((g.b / 16 % 2 : Nat) : Int) != (g2s2 s g).lastRt && (g2s2 s g).lastRt != -1
/-- the character updates of `group2` -/
def g2chain (cfg : Cfg) (set : Settings) (g : Group) (old : Text) : Text :=
  let u1 := if !g.versionB
    then parserUpdate cfg set old .rt g.c g.eb g.ec (4 * (g.b % 16))
    else (old, false)
  let pos2 := if !g.versionB then 4 * (g.b % 16) + 2 else 2 * (g.b % 16)
  (parserUpdate cfg set u1.1 .rt g.d g.eb g.ed pos2).1

theorem group2_fst (cfg : Cfg) (s : State) (g : Group) :
    (group2 cfg s g).1 =
      if g2guard s g then g2s2 s g
      else (g2s2 s g).setRt (g.b / 16 % 2)
        (g2chain cfg (g2s2 s g).set g ((g2s2 s g).rt (g.b / 16 % 2))) := by
  unfold group2
  exact apply_ite Prod.fst _ _ _

section g2s2
variable (s : State) (g : Group)
@[simp] theorem g2s2_set : (g2s2 s g).set = s.set := by
  unfold g2s2; simp only []; split <;> split <;> simp
@[simp] theorem g2s2_ps : (g2s2 s g).ps = s.ps := by
  unfold g2s2; simp only []; split <;> split <;> simp
@[simp] theorem g2s2_ptyn : (g2s2 s g).ptyn = s.ptyn := by
  unfold g2s2; simp only []; split <;> split <;> simp
theorem g2s2_rt_same : (g2s2 s g).rt (g.b / 16 % 2) =
    if g2clr s g then (s.rt (g.b / 16 % 2)).cleared else s.rt (g.b / 16 % 2) := by
  unfold g2s2; simp only []
  split <;> split <;> first | rfl | simp only [lastRt_upd_rt, setRt_rt_same]
theorem g2s2_rt_ne (f : Nat) (hf : f < 2) (h : g.b / 16 % 2 ≠ f) : (g2s2 s g).rt f = s.rt f := by
  have hlt : g.b / 16 % 2 < 2 := Nat.mod_lt _ (by decide)
  unfold g2s2; simp only []
  split <;> split <;> first | rfl | simp only [lastRt_upd_rt, setRt_rt_ne _ _ _ _ hlt hf h]
theorem g2s2_lastRt : (g2s2 s g).lastRt = if g2sw s g then ((g.b / 16 % 2 : Nat) : Int) else s.lastRt := by
  unfold g2s2; simp only []; split <;> split <;> simp
end g2s2

end RDS
