import RdsModel
import RdsSpec.Monitors
import RdsSpec.Statements
import RdsProofs.Frame
import RdsProofs.CellsSingle
import RdsProofs.CellsExpected
/-!
# RdsProofs.CellsDispatch — the four texts after `process` are `expectedText`
-/
namespace RDS

/-- the four text buffers by number (0 = PS, 1 = RT-A, 2 = RT-B, 3 = PTYN) -/
def State.text (s : State) : Nat → Text
  | 0 => s.ps | 1 => s.rt0 | 2 => s.rt1 | _ => s.ptyn

theorem obs_text_cells (s : State) (t : Nat) : ((Obs.ofState s).text t).cells = s.text t := by
  match t with
  | 0 => rfl
  | 1 => rfl
  | 2 => rfl
  | _ + 3 => rfl

theorem text_rt (s : State) (f : Nat) (hf : f < 2) : s.text (1 + f) = s.rt f := by
  have : f = 0 ∨ f = 1 := by omega
  rcases this with h | h <;> subst h <;> rfl

theorem textIdOf_rt (f : Nat) (hf : f < 2) : textIdOf (1 + f) = .rt := by
  have : f = 0 ∨ f = 1 := by omega
  rcases this with h | h <;> subst h <;> rfl

/-! ## State.rt / State.setRt -/
@[simp] theorem setRt_rt_same (s : State) (f : Nat) (t : Text) : (s.setRt f t).rt f = t := by
  unfold State.setRt State.rt; split <;> simp [*]
@[simp] theorem setRt_ps (s : State) (f : Nat) (t : Text) : (s.setRt f t).ps = s.ps := by
  unfold State.setRt; split <;> rfl
@[simp] theorem setRt_ptyn (s : State) (f : Nat) (t : Text) : (s.setRt f t).ptyn = s.ptyn := by
  unfold State.setRt; split <;> rfl
@[simp] theorem setRt_set (s : State) (f : Nat) (t : Text) : (s.setRt f t).set = s.set := by
  unfold State.setRt; split <;> rfl
@[simp] theorem setRt_lastRt (s : State) (f : Nat) (t : Text) : (s.setRt f t).lastRt = s.lastRt := by
  unfold State.setRt; split <;> rfl
theorem setRt_rt_ne (s : State) (f f' : Nat) (t : Text) (hf : f < 2) (hf' : f' < 2) (h : f ≠ f') :
    (s.setRt f t).rt f' = s.rt f' := by
  unfold State.setRt State.rt
  split <;> split <;> first | rfl | omega
@[simp] theorem lastRt_upd_rt (s : State) (x : Int) (f : Nat) : ({ s with lastRt := x } : State).rt f = s.rt f := rfl

/-! ## groupCommon touches no text -/
section groupCommon
variable (s : State) (g : Group)
@[simp] theorem groupCommon_set : (groupCommon s g).1.set = s.set := by
  unfold groupCommon; split <;> split <;> simp
@[simp] theorem groupCommon_ps : (groupCommon s g).1.ps = s.ps := by
  unfold groupCommon; split <;> split <;> simp
@[simp] theorem groupCommon_rt0 : (groupCommon s g).1.rt0 = s.rt0 := by
  unfold groupCommon; split <;> split <;> simp
@[simp] theorem groupCommon_rt1 : (groupCommon s g).1.rt1 = s.rt1 := by
  unfold groupCommon; split <;> split <;> simp
@[simp] theorem groupCommon_ptyn : (groupCommon s g).1.ptyn = s.ptyn := by
  unfold groupCommon; split <;> split <;> simp
@[simp] theorem groupCommon_lastRt : (groupCommon s g).1.lastRt = s.lastRt := by
  unfold groupCommon; split <;> split <;> simp
theorem groupCommon_text (t : Nat) : (groupCommon s g).1.text t = s.text t := by
  unfold State.text; split <;> simp
end groupCommon

/-! ## group0 -/
section group0
variable (cfg : Cfg) (s : State) (g : Group)
theorem group0_ps : (group0 cfg s g).1.ps =
    (parserUpdate cfg s.set s.ps .ps g.d g.eb g.ed (2 * (g.b % 4))).1 := by
  unfold group0; simp only []; split <;> split <;> simp
@[simp] theorem group0_rt0 : (group0 cfg s g).1.rt0 = s.rt0 := by
  unfold group0; simp only []; split <;> split <;> simp
@[simp] theorem group0_rt1 : (group0 cfg s g).1.rt1 = s.rt1 := by
  unfold group0; simp only []; split <;> split <;> simp
@[simp] theorem group0_ptyn : (group0 cfg s g).1.ptyn = s.ptyn := by
  unfold group0; simp only []; split <;> split <;> simp
end group0

/-! ## group1, group4 -/
theorem group1_text (cfg : Cfg) (s : State) (g : Group) (t : Nat) : (group1 cfg s g).1.text t = s.text t := by
  unfold group1 State.text; split <;> split <;> simp
theorem cells_group4_fst (s : State) (g : Group) : (group4 s g).1 = s := by
  unfold group4; split
  · simp only []; split <;> rfl
  · rfl

/-! ## group10 -/
section group10
variable (cfg : Cfg) (s : State) (g : Group)
@[simp] theorem group10_ps : (group10 cfg s g).1.ps = s.ps := by
  unfold group10; split <;> rfl
@[simp] theorem group10_rt0 : (group10 cfg s g).1.rt0 = s.rt0 := by
  unfold group10; split <;> rfl
@[simp] theorem group10_rt1 : (group10 cfg s g).1.rt1 = s.rt1 := by
  unfold group10; split <;> rfl
theorem group10_ptyn_A (h : g.versionB = false) : (group10 cfg s g).1.ptyn =
    (parserUpdate cfg s.set (parserUpdate cfg s.set s.ptyn .ptyn g.c g.eb g.ec (4 * (g.b % 2))).1
      .ptyn g.d g.eb g.ed (4 * (g.b % 2) + 2)).1 := by
  unfold group10; simp [h]
theorem group10_ptyn_B (h : g.versionB = true) : (group10 cfg s g).1.ptyn = s.ptyn := by
  unfold group10; simp [h]
end group10

/-! ## group2 -/
/-- the toggle-detection condition of `group2` -/
def cg2sw (s : State) (g : Group) : Bool := g.eb = 0 && (((g.b / 16 % 2 : Nat) : Int) != s.lastRt)
/-- the discard condition of `group2` -/
def cg2clr (s : State) (g : Group) : Bool :=
  cg2sw s g && s.lastRt != -1 && getAvailable (s.rt (g.b / 16 % 2))
/-- the state of `group2` after toggle detection -/
def cg2s2 (s : State) (g : Group) : State :=
  let s1 := if cg2clr s g then s.setRt (g.b / 16 % 2) (s.rt (g.b / 16 % 2)).cleared else s
  if cg2sw s g then { s1 with lastRt := (g.b / 16 % 2 : Nat) } else s1
/-- the bit-flip guard of `group2` -/
def cg2guard (s : State) (g : Group) : Bool :=
  g.eb != 0 && ((g.b / 16 % 2 : Nat) : Int) != (cg2s2 s g).lastRt && (cg2s2 s g).lastRt != -1
/-- the character updates of `group2` -/
def cg2chain (cfg : Cfg) (set : Settings) (g : Group) (old : Text) : Text :=
  let u1 := if !g.versionB
    then parserUpdate cfg set old .rt g.c g.eb g.ec (4 * (g.b % 16))
    else (old, false)
  let pos2 := if !g.versionB then 4 * (g.b % 16) + 2 else 2 * (g.b % 16)
  (parserUpdate cfg set u1.1 .rt g.d g.eb g.ed pos2).1

theorem cells_group2_fst (cfg : Cfg) (s : State) (g : Group) :
    (group2 cfg s g).1 =
      if cg2guard s g then cg2s2 s g
      else (cg2s2 s g).setRt (g.b / 16 % 2)
        (cg2chain cfg (cg2s2 s g).set g ((cg2s2 s g).rt (g.b / 16 % 2))) := by
  unfold group2
  exact apply_ite Prod.fst _ _ _

section cg2s2
variable (s : State) (g : Group)
@[simp] theorem g2s2_set : (cg2s2 s g).set = s.set := by
  unfold cg2s2; simp only []; split <;> split <;> simp
@[simp] theorem g2s2_ps : (cg2s2 s g).ps = s.ps := by
  unfold cg2s2; simp only []; split <;> split <;> simp
@[simp] theorem g2s2_ptyn : (cg2s2 s g).ptyn = s.ptyn := by
  unfold cg2s2; simp only []; split <;> split <;> simp
theorem g2s2_rt_same : (cg2s2 s g).rt (g.b / 16 % 2) =
    if cg2clr s g then (s.rt (g.b / 16 % 2)).cleared else s.rt (g.b / 16 % 2) := by
  unfold cg2s2; simp only []
  split <;> split <;> first | rfl | simp only [lastRt_upd_rt, setRt_rt_same]
theorem g2s2_rt_ne (f : Nat) (hf : f < 2) (h : g.b / 16 % 2 ≠ f) : (cg2s2 s g).rt f = s.rt f := by
  have hlt : g.b / 16 % 2 < 2 := Nat.mod_lt _ (by decide)
  unfold cg2s2; simp only []
  split <;> split <;> first | rfl | simp only [lastRt_upd_rt, setRt_rt_ne _ _ _ _ hlt hf h]
theorem cells_g2s2_lastRt : (cg2s2 s g).lastRt = if cg2sw s g then ((g.b / 16 % 2 : Nat) : Int) else s.lastRt := by
  unfold cg2s2; simp only []; split <;> split <;> simp
end cg2s2

/-! ## the specification side -/
theorem switchDiscard_ne2 (m : Mon) (before : Obs) (g : Group) (h : g.type ≠ 2) :
    switchDiscard m before g = false := by simp [switchDiscard, h]

theorem rtNoisy_ne2 (m : Mon) (g : Group) (h : g.type ≠ 2) : rtNoisy m g = false := by
  simp [rtNoisy, h]

/-- a text that is neither discarded nor addressed keeps its cells -/
theorem expectedText_keep (cfg : Cfg) (m : Mon) (before : Obs) (g : Group) (t : Nat)
    (hsd : (switchDiscard m before g && decide (t = 1 + g.b / 16 % 2)) = false)
    (haddr : rtNoisy m g = true ∨ (addressed g).filter (fun a => a.1 = t) = []) :
    expectedText cfg m before g t = (before.text t).cells := by
  rw [expectedText_eq, hsd]
  rcases haddr with h | h
  · simp [h, expCells_nil]
  · simp [h, expCells_nil]

theorem switchDiscard_eq_clr (m : Mon) (s : State) (g : Group) (hlf : m.lastFlag = s.lastRt)
    (h2 : g.type = 2) : switchDiscard m (Obs.ofState s) g = cg2clr s g := by
  have hlt : g.b / 16 % 2 < 2 := Nat.mod_lt _ (by decide)
  unfold switchDiscard cg2clr cg2sw
  rw [obs_text_cells, text_rt _ _ hlt, hlf]
  simp only [h2, decide_true, Bool.true_and]
  generalize decide (g.eb = 0) = a
  generalize (((g.b / 16 % 2 : Nat) : Int) != s.lastRt) = b
  generalize (s.lastRt != -1) = c
  generalize getAvailable (s.rt (g.b / 16 % 2)) = d
  cases a <;> cases b <;> cases c <;> cases d <;> rfl

theorem rtNoisy_eq_guard (m : Mon) (s : State) (g : Group) (hlf : m.lastFlag = s.lastRt)
    (h2 : g.type = 2) : rtNoisy m g = cg2guard s g := by
  unfold rtNoisy cg2guard
  rw [cells_g2s2_lastRt, hlf]
  by_cases he : g.eb = 0
  · simp [he]
  · have : cg2sw s g = false := by simp [cg2sw, he]
    simp only [this, h2, decide_true, Bool.true_and, Bool.false_eq_true, if_false]
    generalize (g.eb != 0) = a
    generalize (((g.b / 16 % 2 : Nat) : Int) != s.lastRt) = b
    generalize (s.lastRt != -1) = c
    cases a <;> cases b <;> cases c <;> rfl

@[simp] theorem cleared_length (t : Text) : t.cleared.length = t.length := by simp [Text.cleared]

theorem dispatch_text_other (cfg : Cfg) (s : State) (g : Group) (t : Nat)
    (h0 : g.type ≠ 0) (h2 : g.type ≠ 2) (h10 : g.type ≠ 10) :
    (dispatch cfg s g).1.text t = s.text t := by
  unfold dispatch
  simp only [h0, h2, h10, if_false]
  split
  · exact group1_text _ _ _ _
  · split
    · rw [cells_group4_fst]
    · rfl

/-- the four texts after the type dispatch are the expected ones -/
theorem dispatch_text (cfg : Cfg) (m : Mon) (s : State) (g : Group) (hlf : m.lastFlag = s.lastRt)
    (hps : s.ps.length = 8) (hr0 : s.rt0.length = 64) (hr1 : s.rt1.length = 64)
    (hpt : s.ptyn.length = 8) (t : Nat) (ht : t < 4) :
    (dispatch cfg s g).1.text t = expectedText cfg m (Obs.ofState s) g t := by
  have hlt : g.b / 16 % 2 < 2 := Nat.mod_lt _ (by decide)
  by_cases h0 : g.type = 0
  · -- type 0: PS
    have hn2 : g.type ≠ 2 := by omega
    have hd : dispatch cfg s g = group0 cfg s g := by simp [dispatch, h0]
    rw [hd]
    by_cases ht0 : t = 0
    · subst ht0
      show (group0 cfg s g).1.ps = _
      have ha : (addressed g).filter (fun a => a.1 = 0) =
          [(0, 2 * (g.b % 4), g.d / 256 % 256, g.ed), (0, 2 * (g.b % 4) + 1, g.d % 256, g.ed)] := by
        simp [addressed, h0]
      rw [group0_ps, expectedText_eq, switchDiscard_ne2 _ _ _ hn2, rtNoisy_ne2 _ _ hn2, ha,
        obs_text_cells]
      simp only [Bool.false_and, Bool.false_eq_true, if_false]
      exact (expCells_two cfg s.set .ps g.eb s.ps 0 0 _ g.d g.ed (by rw [hps]; omega)).symm
    · have ht0' : ¬ 0 = t := fun h => ht0 h.symm
      rw [expectedText_keep _ _ _ _ _ (by simp [switchDiscard_ne2 _ _ _ hn2])
        (Or.inr (by simp [addressed, h0, ht0'])), obs_text_cells]
      have : t = 1 ∨ t = 2 ∨ t = 3 := by omega
      rcases this with h | h | h <;> subst h <;> simp [State.text]
  by_cases h2 : g.type = 2
  · -- type 2: RT
    have hd : dispatch cfg s g = group2 cfg s g := by simp [dispatch, h2]
    rw [hd, cells_group2_fst]
    by_cases htf : t = 1 + g.b / 16 % 2
    · subst htf
      have hlen : ∀ c : Bool,
          (if c = true then (s.rt (g.b / 16 % 2)).cleared else s.rt (g.b / 16 % 2)).length = 64 := by
        intro c
        have : (s.rt (g.b / 16 % 2)).length = 64 := by unfold State.rt; split <;> assumption
        cases c <;> simp [this]
      rw [text_rt _ _ hlt, expectedText_eq, switchDiscard_eq_clr _ _ _ hlf h2,
        rtNoisy_eq_guard _ _ _ hlf h2, obs_text_cells, text_rt _ _ hlt, textIdOf_rt _ hlt]
      simp only [decide_true, Bool.and_true]
      have hset : (Obs.ofState s).set = s.set := rfl
      rw [hset]
      cases hg : cg2guard s g
      · simp only [Bool.false_eq_true, if_false, setRt_rt_same, g2s2_set, g2s2_rt_same]
        generalize hold : (if cg2clr s g = true then (s.rt (g.b / 16 % 2)).cleared
          else s.rt (g.b / 16 % 2)) = old
        have holdlen : old.length = 64 := by rw [← hold]; exact hlen _
        by_cases hv : g.versionB = true
        · have ha : (addressed g).filter (fun a => a.1 = 1 + g.b / 16 % 2) =
              [(1 + g.b / 16 % 2, 2 * (g.b % 16), g.d / 256 % 256, g.ed),
               (1 + g.b / 16 % 2, 2 * (g.b % 16) + 1, g.d % 256, g.ed)] := by
            simp [addressed, h2, hv]
          rw [ha, expCells_two cfg s.set .rt g.eb old _ _ _ g.d g.ed (by rw [holdlen]; omega)]
          simp [cg2chain, hv]
        · have hv' : g.versionB = false := by simpa using hv
          have ha : (addressed g).filter (fun a => a.1 = 1 + g.b / 16 % 2) =
              [(1 + g.b / 16 % 2, 4 * (g.b % 16), g.c / 256 % 256, g.ec),
               (1 + g.b / 16 % 2, 4 * (g.b % 16) + 1, g.c % 256, g.ec),
               (1 + g.b / 16 % 2, 4 * (g.b % 16) + 2, g.d / 256 % 256, g.ed),
               (1 + g.b / 16 % 2, 4 * (g.b % 16) + 3, g.d % 256, g.ed)] := by
            simp [addressed, h2, hv']
          rw [ha, expCells_four cfg s.set .rt g.eb old _ _ _ _ _ g.c g.ec g.d g.ed
            (by rw [holdlen]; omega)]
          simp [cg2chain, hv']
      · simp only [if_true, g2s2_rt_same, expCells_nil]
    · have htf' : ¬ 1 + g.b / 16 % 2 = t := fun h => htf h.symm
      rw [expectedText_keep _ _ _ _ _ (by simp [htf])
        (Or.inr (by by_cases hv : g.versionB = true <;> simp [addressed, h2, hv, htf'])), obs_text_cells]
      have hkeep : ∀ x : Text, ((cg2s2 s g).setRt (g.b / 16 % 2) x).text t = s.text t := by
        intro x
        have : t = 0 ∨ t = 3 ∨ (t = 1 + (t - 1) ∧ t - 1 < 2) := by omega
        rcases this with h | h | ⟨h, hl⟩
        · subst h; simp [State.text]
        · subst h; simp [State.text]
        · rw [h, text_rt _ _ hl, text_rt _ _ hl, setRt_rt_ne _ _ _ _ hlt hl (by omega),
            g2s2_rt_ne _ _ _ hl (by omega)]
      have hkeep2 : (cg2s2 s g).text t = s.text t := by
        have : t = 0 ∨ t = 3 ∨ (t = 1 + (t - 1) ∧ t - 1 < 2) := by omega
        rcases this with h | h | ⟨h, hl⟩
        · subst h; simp [State.text]
        · subst h; simp [State.text]
        · rw [h, text_rt _ _ hl, text_rt _ _ hl, g2s2_rt_ne _ _ _ hl (by omega)]
      split
      · exact hkeep2
      · exact hkeep _
  by_cases h10 : g.type = 10
  · -- type 10: PTYN
    have hd : dispatch cfg s g = group10 cfg s g := by simp [dispatch, h10]
    rw [hd]
    by_cases hv : g.versionB = true
    · rw [expectedText_keep _ _ _ _ _ (by simp [switchDiscard_ne2 _ _ _ h2])
        (Or.inr (by simp [addressed, h10, hv])), obs_text_cells]
      have : t = 0 ∨ t = 1 ∨ t = 2 ∨ t = 3 := by omega
      rcases this with h | h | h | h <;> subst h <;> simp [State.text, group10_ptyn_B _ _ _ hv]
    · have hv' : g.versionB = false := by simpa using hv
      by_cases ht3 : t = 3
      · subst ht3
        show (group10 cfg s g).1.ptyn = _
        have ha : (addressed g).filter (fun a => a.1 = 3) =
            [(3, 4 * (g.b % 2), g.c / 256 % 256, g.ec), (3, 4 * (g.b % 2) + 1, g.c % 256, g.ec),
             (3, 4 * (g.b % 2) + 2, g.d / 256 % 256, g.ed), (3, 4 * (g.b % 2) + 3, g.d % 256, g.ed)] := by
          simp [addressed, h10, hv']
        rw [group10_ptyn_A _ _ _ hv', expectedText_eq, switchDiscard_ne2 _ _ _ h2,
          rtNoisy_ne2 _ _ h2, ha, obs_text_cells]
        simp only [Bool.false_and, Bool.false_eq_true, if_false]
        exact (expCells_four cfg s.set .ptyn g.eb s.ptyn 3 3 3 3 _ g.c g.ec g.d g.ed
          (by rw [hpt]; omega)).symm
      · have ht3' : ¬ 3 = t := fun h => ht3 h.symm
        rw [expectedText_keep _ _ _ _ _ (by simp [switchDiscard_ne2 _ _ _ h2])
          (Or.inr (by simp [addressed, h10, hv', ht3'])), obs_text_cells]
        have : t = 0 ∨ t = 1 ∨ t = 2 := by omega
        rcases this with h | h | h <;> subst h <;> simp [State.text]
  · -- other types: no text touched
    rw [dispatch_text_other _ _ _ _ h0 h2 h10,
      expectedText_keep _ _ _ _ _ (by simp [switchDiscard_ne2 _ _ _ h2])
        (Or.inr (by simp [addressed, h0, h2, h10])), obs_text_cells]

theorem expectedText_congr (cfg : Cfg) (m : Mon) (o o' : Obs) (g : Group) (t : Nat)
    (hs : o.set = o'.set) (h : ∀ t, (o.text t).cells = (o'.text t).cells) :
    expectedText cfg m o g t = expectedText cfg m o' g t := by
  have hsd : switchDiscard m o g = switchDiscard m o' g := by
    unfold switchDiscard; rw [h]
  rw [expectedText_eq, expectedText_eq, hsd, h, hs]

/-- the four texts after `process` are the expected ones -/
theorem process_text (cfg : Cfg) (m : Mon) (s : State) (g : Group) (hlf : m.lastFlag = s.lastRt)
    (hps : s.ps.length = 8) (hr0 : s.rt0.length = 64) (hr1 : s.rt1.length = 64)
    (hpt : s.ptyn.length = 8) (t : Nat) (ht : t < 4) :
    (process cfg s g).1.text t = expectedText cfg m (Obs.ofState s) g t := by
  show (dispatch cfg (groupCommon s g).1 g).1.text t = _
  rw [dispatch_text cfg m _ g (by simpa using hlf) (by simpa using hps) (by simpa using hr0)
    (by simpa using hr1) (by simpa using hpt) t ht]
  apply expectedText_congr
  · simp [Obs.ofState]
  · intro t'
    rw [obs_text_cells, obs_text_cells, groupCommon_text]

end RDS
