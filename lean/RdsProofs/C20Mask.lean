import RdsProofs.C20Base
/-!
# RdsProofs.C20Mask — instance (B) of the generic simulation: whatever the charset configuration, the
set of received cells evolves the same way (thresholds ≤ 2, levels ≤ 10)
-/
namespace RDS

def c20_LvlOk (t : Text) : Prop := ∀ c ∈ t, c.lvl ≤ 10

def c20_TB (tn tw : Text) : Prop := recvMask tn = recvMask tw ∧ c20_LvlOk tn ∧ c20_LvlOk tw

def c20_ELB (evn evw : List Event) : Prop := nonTextKinds evn = nonTextKinds evw

/-! ## the received-mask of one store attempt does not depend on the configuration -/

/-- the byte/error combination is storable at all -/
def c20_acc (b ei ed : Nat) : Bool :=
  !((b == 0x0D && (ei != 0 || ed != 0)) || (b != 0x0D && decide (b < 0x20)) ||
    (decide (0x7F ≤ b) && (ei != 0 || ed != 0)))

def c20_maskSingle (m : List Bool) (b ei ed pos : Nat) : List Bool :=
  if c20_acc b ei ed = true then m.set pos true else m

theorem c20_pre_eq (lvl b ei ed : Nat) (prog : Bool) :
    c20_pre lvl b ei ed prog = ((prog && decide (lvl < calcError ei ed)) || !c20_acc b ei ed) := by
  unfold c20_pre c20_acc
  cases (prog && decide (lvl < calcError ei ed))
    <;> cases (b == 0x0D && (ei != 0 || ed != 0))
    <;> cases (b != 0x0D && decide (b < 0x20))
    <;> cases (decide (0x7F ≤ b) && (ei != 0 || ed != 0))
    <;> rfl

theorem c20_calcError_le (ei ed : Nat) (h1 : ei ≤ 2) (h2 : ed ≤ 2) : calcError ei ed ≤ 9 := by
  unfold calcError; split <;> omega

theorem c20_recvMask_set (t : Text) (pos : Nat) (c : Cell) :
    recvMask (t.set pos c) = (recvMask t).set pos (c.lvl != 10) := by
  unfold recvMask; rw [List.map_set]

/-- re-marking a received cell changes nothing -/
theorem c20_mask_set_self (t : Text) (pos : Nat) (cell : Cell) (hc : t[pos]? = some cell) (hl : cell.lvl ≠ 10) :
    (recvMask t).set pos true = recvMask t := by
  have hm : (recvMask t)[pos]? = some true := by
    unfold recvMask
    rw [List.getElem?_map, hc]
    simp [hl]
  apply List.ext_getElem?
  intro i
  rw [List.getElem?_set]
  by_cases hi : pos = i
  · subst hi
    rcases List.getElem?_eq_some_iff.mp hm with ⟨hlt, hv⟩
    simp [hlt, hv]
  · simp [hi]

theorem c20_mask_single (cfg : Cfg) (t : Text) (b ei ed pos : Nat) (prog : Bool)
    (herr : calcError ei ed ≤ 9) (ht : c20_LvlOk t) :
    recvMask (updateSingle cfg t b ei ed pos prog).1 = c20_maskSingle (recvMask t) b ei ed pos ∧
    c20_LvlOk (updateSingle cfg t b ei ed pos prog).1 := by
  unfold c20_maskSingle
  cases hc : t[pos]? with
  | none =>
    rw [c20_updateSingle_none _ _ _ _ _ _ _ hc]
    refine ⟨?_, ht⟩
    have hlen : (recvMask t).length ≤ pos := by
      unfold recvMask; rw [List.length_map]; exact List.getElem?_eq_none_iff.mp hc
    rw [List.set_eq_of_length_le hlen]
    split <;> rfl
  | some cell =>
    rw [c20_updateSingle_some _ _ _ _ _ _ _ _ hc, c20_pre_eq]
    have hstored : recvMask (t.set pos ⟨conv cfg b, calcError ei ed⟩) = (recvMask t).set pos true := by
      rw [c20_recvMask_set]
      have : ((⟨conv cfg b, calcError ei ed⟩ : Cell).lvl != 10) = true := by
        show (calcError ei ed != 10) = true
        simp only [bne_iff_ne, ne_eq]; omega
      rw [this]
    have hok : c20_LvlOk (t.set pos ⟨conv cfg b, calcError ei ed⟩) := by
      intro c hm
      rcases List.mem_or_eq_of_mem_set hm with hm | hm
      · exact ht c hm
      · rw [hm]; show calcError ei ed ≤ 10; omega
    cases hacc : c20_acc b ei ed
    · simp only [Bool.not_false, Bool.or_true, if_true, Bool.false_eq_true, if_false]
      exact ⟨trivial, ht⟩
    · simp only [Bool.not_true, Bool.or_false, if_true]
      by_cases c1 : (prog && decide (cell.lvl < calcError ei ed)) = true
      · rw [if_pos c1]
        refine ⟨?_, ht⟩
        have hl : cell.lvl ≠ 10 := by
          simp only [Bool.and_eq_true, decide_eq_true_eq] at c1
          omega
        exact (c20_mask_set_self t pos cell hc hl).symm
      · rw [if_neg c1]
        by_cases c5 : cell.ch = conv cfg b ∧ cell.lvl ≤ calcError ei ed
        · rw [if_pos c5]
          refine ⟨?_, ht⟩
          have hl : cell.lvl ≠ 10 := by omega
          exact (c20_mask_set_self t pos cell hc hl).symm
        · rw [if_neg c5]
          exact ⟨hstored, hok⟩

def c20_maskString (m : List Bool) (w ei ed pos : Nat) : List Bool :=
  c20_maskSingle (c20_maskSingle m (w / 256 % 256) ei ed pos) (w % 256) ei ed (pos + 1)

theorem c20_mask_string (cfg : Cfg) (t : Text) (w ei ed pos : Nat) (prog : Bool)
    (herr : calcError ei ed ≤ 9) (ht : c20_LvlOk t) :
    recvMask (updateString cfg t w ei ed pos prog).1 = c20_maskString (recvMask t) w ei ed pos ∧
    c20_LvlOk (updateString cfg t w ei ed pos prog).1 := by
  unfold updateString c20_maskString
  have a1 := c20_mask_single cfg t (w / 256 % 256) ei ed pos prog herr ht
  have a2 := c20_mask_single cfg _ (w % 256) ei ed (pos + 1) prog herr a1.2
  rw [a1.1] at a2
  exact a2

theorem c20_corr_le (set : Settings) (h : set.Ok) (id : TextId) (k : BlockType) : set.corr id k ≤ 2 := by
  obtain ⟨h1, h2, h3, h4, h5, h6⟩ := h
  cases id <;> cases k <;> assumption

def c20_maskPU (set : Settings) (m : List Bool) (id : TextId) (w eb ex pos : Nat) : List Bool :=
  if (decide (eb ≤ set.corr id .info) && decide (ex ≤ set.corr id .data)) = true then c20_maskString m w eb ex pos else m

theorem c20_mask_pu (cfg : Cfg) (set : Settings) (hs : set.Ok) (t : Text) (id : TextId) (w eb ex pos : Nat)
    (ht : c20_LvlOk t) :
    recvMask (parserUpdate cfg set t id w eb ex pos).1 = c20_maskPU set (recvMask t) id w eb ex pos ∧
    c20_LvlOk (parserUpdate cfg set t id w eb ex pos).1 := by
  unfold parserUpdate c20_maskPU
  by_cases hg : (decide (eb ≤ set.corr id .info) && decide (ex ≤ set.corr id .data)) = true
  · rw [if_pos hg, if_pos hg]
    have hg' := hg
    simp only [Bool.and_eq_true, decide_eq_true_eq] at hg'
    have h1 := c20_corr_le set hs id .info
    have h2 := c20_corr_le set hs id .data
    exact c20_mask_string cfg t w eb ex pos _ (c20_calcError_le eb ex (by omega) (by omega)) ht
  · rw [if_neg hg, if_neg hg]
    exact ⟨rfl, ht⟩

/-! ## events -/

theorem c20_ntk_append (a b : List Event) : nonTextKinds (a ++ b) = nonTextKinds a ++ nonTextKinds b := by
  unfold nonTextKinds; rw [List.map_append, List.filter_append]

theorem c20_ntk_emit_text (s : State) (c : Cb) (k : EvKind) (hk : c20_isText k = true) :
    nonTextKinds (emit s c k) = [] := by
  unfold emit nonTextKinds
  split
  · cases k <;> first | rfl | cases hk
  · rfl

theorem c20_ntk_emit_congr (s s' : State) (c : Cb) (k : EvKind) (h : s.cbs = s'.cbs) :
    nonTextKinds (emit s c k) = nonTextKinds (emit s' c k) := by
  have hreg : s.registered c = s'.registered c := by unfold State.registered; rw [h]
  unfold emit
  rw [hreg]
  cases s'.registered c <;> rfl

/-! ## the instance -/

theorem c20_ax_B (cfgn cfgw : Cfg) (hecc : cfgn.ecc = cfgw.ecc) :
    c20_Ax cfgn cfgw c20_TB Settings.Ok (fun _ => True) (fun _ _ => True) c20_ELB where
  ecc := hecc
  el_nil := rfl
  el_app := by
    intro a a' b b' h1 h2
    unfold c20_ELB at *
    rw [c20_ntk_append, c20_ntk_append, h1, h2]
  el_emit := fun c k hR _ => c20_ntk_emit_congr _ _ c k hR.cbs
  el_text := by
    intro sn sw c k f f' _ hk _
    unfold c20_ELB
    have e : ∀ (s : State) (f : Bool), nonTextKinds (if f = true then emit s c k else []) = [] := by
      intro s f
      cases f
      · rfl
      · exact c20_ntk_emit_text s c k hk
    rw [e, e]
  fr_refl := fun _ => trivial
  fr_or := fun _ _ => trivial
  pu := by
    intro tn tw set id w eb ex pos ht hs _
    have a := c20_mask_pu cfgn set hs tn id w eb ex pos ht.2.1
    have b := c20_mask_pu cfgw set hs tw id w eb ex pos ht.2.2
    refine ⟨⟨?_, a.2, b.2⟩, trivial⟩
    rw [a.1, b.1, ht.1]
  avail := by
    intro t t' ht
    have e : ∀ t : Text, getAvailable t = (recvMask t).any id := by
      intro t
      unfold getAvailable recvMask
      rw [List.any_map]
      rfl
    rw [e, e, ht.1]
  cleared := by
    intro t t' ht
    have hlen : t.length = t'.length := by
      have := congrArg List.length ht.1
      unfold recvMask at this
      rwa [List.length_map, List.length_map] at this
    have e : ∀ t : Text, recvMask t.cleared = List.replicate t.length false := by
      intro t
      unfold recvMask Text.cleared
      rw [List.map_map]
      exact List.map_const' ..
    have ok : ∀ t : Text, c20_LvlOk t.cleared := by
      intro t c hc
      unfold Text.cleared at hc
      rcases List.mem_map.mp hc with ⟨_, _, rfl⟩
      exact Nat.le_refl _
    exact ⟨by rw [e, e, hlen], ok t, ok t'⟩
  init := by
    intro n
    have ok : c20_LvlOk (List.replicate n blank) := by
      intro c hc
      rw [List.eq_of_mem_replicate hc]
      exact Nat.le_refl _
    exact ⟨rfl, ok, ok⟩
  p_init := by
    unfold Settings.Ok Settings.init
    exact ⟨by decide, by decide, by decide, by decide, by decide, by decide⟩
  p_ext := fun _ _ h => h
  p_corr := by
    intro s t k v h
    obtain ⟨h1, h2, h3, h4, h5, h6⟩ := h
    have hm : min v 2 ≤ 2 := Nat.min_le_right _ _
    cases t <;> cases k <;> exact ⟨by first | assumption | exact hm, by first | assumption | exact hm,
      by first | assumption | exact hm, by first | assumption | exact hm, by first | assumption | exact hm,
      by first | assumption | exact hm⟩
  p_prog := by
    intro s t v h
    cases t <;> exact h

/-- nothing is required of the words in instance (B) -/
theorem c20_gw_true (g : Group) : c20_GW (fun _ => True) g :=
  ⟨fun _ => trivial, fun _ => ⟨fun _ => trivial, trivial⟩, fun _ _ => ⟨trivial, trivial⟩⟩

theorem c20_nonText_of_R {sn sw : State} (h : c20_R c20_TB Settings.Ok sn sw) : nonText sn = nonText sw := by
  unfold nonText
  rw [h.used, h.temp, h.set, h.lastRt, h.cbs, h.ud, h.ps.1, h.rt0.1, h.rt1.1, h.ptyn.1]

end RDS
