import RdsModel
import RdsSpec.Statements
import RdsProofs.Frame
import RdsProofs.Inv
import RdsProofs.Reach
import RdsProofs.C03Proofs
import RdsProofs.C20Proofs
/-!
# RdsProofs.AuditC03C20 — audit gaps of C03 (type-aware use of block B) and C20 (bytes ≥ 0x7F in
errored lanes)

## C03
`usedB` (RdsSpec/Statements.lean) calls block B "used" as soon as its error level is within ANY text's
block-B maximum, whatever group type B carries. `ac3_usedB'` is the type-aware notion: an errored block B is
used only by the text handler of the type it carries (PS for 0A/0B, RT for 2A/2B, PTYN for 10A).

* `ac3_process_unusedB'` — the exact effect of a group whose block B is unused in the typed sense: PI from
  block A if `ea = 0`, nothing else.
* `C03_process_typed` — two groups whose block B is unused (typed) have the same effect as soon as block A
  agrees where it is used; B, C, D **and the error codes of B, C, D** may differ arbitrarily.
* `ac3_sameUsed'`, `C03_process'`, `C03_trace'`, `C03_typed` — the combined relation (B compared iff used
  in the typed sense by either group), single step / op lists / reachable states.
* `ac3_sameUsed_onesided_false` — judging "B unused" on ONE group only is unsound for the typed notion.

## C20
`Group.asciiOnly` forbids every addressed byte ≥ 0x7F. `ac3_asciiOnly'` allows them when they arrive with an
error in block B or in their data block (both builds reject them before any conversion).

* `C20_ascii'`, `C20_ascii_step'` — lock step modulo the charset embedding under the tighter hypothesis.
* `ac3_C20_sharp` — an error-free byte ≥ 0x7F does break the lock step (the hypothesis cannot be dropped).
-/
namespace RDS

/-! # Part (a): C03, type-aware -/

/-- block B is used iff it is error-free (PTY/TP, TA/MS, the group type for AF/ECC/CT), or it is within the
block-B maximum of the text *whose group type it carries* (PS: 0A/0B, RT: 2A/2B, PTYN: 10A) -/
def ac3_usedB' (set : Settings) (g : Group) : Bool :=
  g.eb = 0 || (g.type = 0 && g.eb ≤ set.psInfo) || (g.type = 2 && g.eb ≤ set.rtInfo) ||
  (g.type = 10 && !g.versionB && g.eb ≤ set.ptynInfo)

theorem ac3_usedB'_false_iff (set : Settings) (g : Group) :
    ac3_usedB' set g = false ↔
      g.eb ≠ 0 ∧ (g.type = 0 → set.psInfo < g.eb) ∧ (g.type = 2 → set.rtInfo < g.eb) ∧
      (g.type = 10 → g.versionB = false → set.ptynInfo < g.eb) := by
  unfold ac3_usedB'
  simp only [Bool.or_eq_false_iff, Bool.and_eq_false_iff, decide_eq_false_iff_not, Bool.not_eq_false']
  constructor
  · rintro ⟨⟨⟨h0, h1⟩, h2⟩, h3⟩
    refine ⟨h0, fun e => ?_, fun e => ?_, fun e v => ?_⟩
    · rcases h1 with h | h
      · exact absurd e h
      · omega
    · rcases h2 with h | h
      · exact absurd e h
      · omega
    · rcases h3 with (h | h) | h
      · exact absurd e h
      · rw [v] at h; cases h
      · omega
  · rintro ⟨h0, h1, h2, h3⟩
    refine ⟨⟨⟨h0, ?_⟩, ?_⟩, ?_⟩
    · by_cases e : g.type = 0
      · exact Or.inr (by have := h1 e; omega)
      · exact Or.inl e
    · by_cases e : g.type = 2
      · exact Or.inr (by have := h2 e; omega)
      · exact Or.inl e
    · by_cases e : g.type = 10
      · cases v : g.versionB
        · exact Or.inr (by have := h3 e v; omega)
        · exact Or.inl (Or.inr rfl)
      · exact Or.inl (Or.inl e)

/-- the typed notion refines the untyped one -/
theorem ac3_usedB'_le (set : Settings) (g : Group) (h : ac3_usedB' set g = true) : usedB set g = true := by
  unfold ac3_usedB' at h
  unfold usedB anyInfo
  simp only [Bool.or_eq_true, Bool.and_eq_true, decide_eq_true_eq, Bool.not_eq_true'] at h ⊢
  rcases h with ((h | h) | h) | h
  · exact Or.inl h
  · exact Or.inr (Or.inl (Or.inl h.2))
  · exact Or.inr (Or.inl (Or.inr h.2))
  · exact Or.inr (Or.inr h.2)

/-- … strictly: the audit's example (type-0 group, eb = 1, psInfo = 0, rtInfo = 1) -/
example : usedB ⟨false, false, false, false, 0, 0, 1, 0, 0, 0⟩ ⟨0x1234, 0x0000, 0, 0x4142, 0, 1, 0, 0⟩ = true ∧
    ac3_usedB' ⟨false, false, false, false, 0, 0, 1, 0, 0, 0⟩ ⟨0x1234, 0x0000, 0, 0x4142, 0, 1, 0, 0⟩ = false := by
  decide

/-- block B unused in the typed sense: the type dispatch does nothing at all -/
theorem ac3_dispatch_unusedB' (cfg : Cfg) (s : State) (g : Group) (h : ac3_usedB' s.set g = false) :
    dispatch cfg s g = (s, []) := by
  obtain ⟨h0, h1, h2, h3⟩ := (ac3_usedB'_false_iff s.set g).mp h
  unfold dispatch
  by_cases t0 : g.type = 0
  · rw [if_pos t0]; exact group0_unusedB cfg s g h0 (h1 t0)
  rw [if_neg t0]
  by_cases t1 : g.type = 1
  · rw [if_pos t1]; exact group1_unusedB cfg s g h0
  rw [if_neg t1]
  by_cases t2 : g.type = 2
  · rw [if_pos t2]; exact group2_unusedB cfg s g h0 (h2 t2)
  rw [if_neg t2]
  by_cases t4 : g.type = 4
  · rw [if_pos t4]; exact group4_unusedB s g h0
  rw [if_neg t4]
  by_cases t10 : g.type = 10
  · rw [if_pos t10]
    cases v : g.versionB
    · exact group10_unusedB cfg s g (h3 t10 v)
    · simp [group10, v]
  rw [if_neg t10]

/-- the part of `groupCommon` that reads block A only -/
def ac3_piOnly (s : State) (g : Group) : State × List Event :=
  if g.ea = 0 then setField s .pi g.a else (s, [])

theorem ac3_piOnly_set (s : State) (g : Group) : (ac3_piOnly s g).1.set = s.set := by
  unfold ac3_piOnly
  split <;> simp

theorem ac3_groupCommon_eb (s : State) (g : Group) (h0 : g.eb ≠ 0) : groupCommon s g = ac3_piOnly s g := by
  unfold groupCommon ac3_piOnly
  simp only [h0, if_false]

/-- **Exact effect of a group whose block B is unused (typed):** the PI of block A if that block is
error-free, and nothing else — whatever B, C, D and their error codes are. -/
theorem ac3_process_unusedB' (cfg : Cfg) (s : State) (g : Group) (h : ac3_usedB' s.set g = false) :
    process cfg s g = if g.ea = 0 then setField s .pi g.a else (s, []) := by
  have h0 : g.eb ≠ 0 := ((ac3_usedB'_false_iff s.set g).mp h).1
  have hd : dispatch cfg (ac3_piOnly s g).1 g = ((ac3_piOnly s g).1, []) :=
    ac3_dispatch_unusedB' cfg _ g (by rw [ac3_piOnly_set]; exact h)
  show ((dispatch cfg (groupCommon s g).1 g).1, (groupCommon s g).2 ++ (dispatch cfg (groupCommon s g).1 g).2) = _
  rw [ac3_groupCommon_eb s g h0, hd, List.append_nil]
  rfl

/-- **C03, type-aware, two-sided.** If block B is unused in the typed sense in both groups, then B, C, D are
irrelevant altogether — and so are the error codes of B, C and D: only block A matters, and only if it is
error-free. (`hea` is implied by `g.ea = g'.ea`.) -/
theorem C03_process_typed (cfg : Cfg) (s : State) (g g' : Group)
    (hB : ac3_usedB' s.set g = false) (hB' : ac3_usedB' s.set g' = false)
    (hea : g.ea = 0 ↔ g'.ea = 0) (ha : g.ea = 0 → g.a = g'.a) :
    process cfg s g = process cfg s g' := by
  rw [ac3_process_unusedB' cfg s g hB, ac3_process_unusedB' cfg s g' hB']
  by_cases e : g.ea = 0
  · rw [if_pos e, if_pos (hea.mp e), ha e]
  · rw [if_neg e, if_neg (fun e' => e (hea.mpr e'))]

/-- non-vacuity of `C03_process_typed` (the audit's example): a type-0 group and a type-2 group with different
B, C, D and different error codes in B, C, D, both with block B unused in the typed sense although
`usedB` holds of the first one -/
example :
    let set : Settings := ⟨false, false, false, false, 0, 0, 1, 2, 0, 0⟩
    let g : Group := ⟨0x1234, 0x0000, 0x1111, 0x4142, 0, 1, 0, 0⟩
    let g' : Group := ⟨0x1234, 0x2015, 0x4344, 0x4546, 0, 2, 1, 2⟩
    ac3_usedB' set g = false ∧ ac3_usedB' set g' = false ∧ (g.ea = 0 ↔ g'.ea = 0) ∧ (g.ea = 0 → g.a = g'.a) ∧
    usedB set g = true ∧ g.type ≠ g'.type ∧ g.b ≠ g'.b ∧ g.c ≠ g'.c ∧ g.d ≠ g'.d ∧ g.eb ≠ g'.eb := by
  decide

/-- typed version of `sameUsed`: same error codes, block A compared if error-free, and blocks B (and then C, D
through their own gates) compared iff B is used in the typed sense by EITHER group -/
def ac3_sameUsed' (set : Settings) (g g' : Group) : Bool :=
  g.ea = g'.ea && g.eb = g'.eb && g.ec = g'.ec && g.ed = g'.ed &&
  (!usedA g || g.a = g'.a) &&
  (!(ac3_usedB' set g || ac3_usedB' set g') || (g.b = g'.b &&
     (!usedC set g || g.c = g'.c) && (!usedD set g || g.d = g'.d)))

/-- `sameUsed` implies `ac3_sameUsed'`: the new relation identifies more pairs -/
theorem ac3_sameUsed_imp (set : Settings) (g g' : Group) (h : sameUsed set g g' = true) :
    ac3_sameUsed' set g g' = true := by
  unfold sameUsed at h
  unfold ac3_sameUsed'
  simp only [Bool.and_eq_true, Bool.or_eq_true, Bool.not_eq_true', decide_eq_true_eq] at h ⊢
  obtain ⟨h1, hB⟩ := h
  refine ⟨h1, ?_⟩
  by_cases hu : (ac3_usedB' set g || ac3_usedB' set g') = true
  · right
    rcases hB with hB | hB
    · -- usedB false in g; then usedB' false in g, and in g' too (same eb)
      exfalso
      have heb : g.eb = g'.eb := h1.1.1.1.2
      have hn : ∀ x : Group, x.eb = g.eb → ac3_usedB' set x = false := by
        intro x hx
        cases hc : ac3_usedB' set x
        · rfl
        · have := ac3_usedB'_le set x hc
          unfold usedB anyInfo at this hB
          rw [hx] at this
          rw [this] at hB; cases hB
      rw [hn g rfl, hn g' heb.symm] at hu
      cases hu
    · exact hB
  · left
    simpa using hu

/-- **C03 with the typed relation:** same successor state and same event list, for ALL states -/
theorem C03_process' (cfg : Cfg) (s : State) (g g' : Group) (h : ac3_sameUsed' s.set g g' = true) :
    process cfg s g = process cfg s g' := by
  unfold ac3_sameUsed' at h
  simp only [Bool.and_eq_true, Bool.or_eq_true, Bool.not_eq_true', decide_eq_true_eq,
    Bool.or_eq_false_iff] at h
  obtain ⟨⟨⟨⟨⟨hea, heb⟩, hec⟩, hed⟩, ha⟩, hB⟩ := h
  have ha' : g.ea = 0 → g.a = g'.a := by
    intro e
    rcases ha with ha | ha
    · simp [usedA, e] at ha
    · exact ha
  rcases hB with hB | hB
  · exact C03_process_typed cfg s g g' hB.1 hB.2 (by rw [hea]) ha'
  · -- B equal: the types agree, so B is used (typed, hence untyped) in `g`
    obtain ⟨⟨hb, hc⟩, hd⟩ := hB
    by_cases hu : ac3_usedB' s.set g = true
    · apply C03_process
      unfold sameUsed
      simp only [Bool.and_eq_true, Bool.or_eq_true, Bool.not_eq_true', decide_eq_true_eq]
      exact ⟨⟨⟨⟨⟨hea, heb⟩, hec⟩, hed⟩, ha⟩, Or.inr ⟨⟨hb, hc⟩, hd⟩⟩
    · have hu1 : ac3_usedB' s.set g = false := by simpa using hu
      have hu2 : ac3_usedB' s.set g' = false := by
        rw [← hu1]
        unfold ac3_usedB' Group.type Group.versionB
        rw [hb, heb]
      exact C03_process_typed cfg s g g' hu1 hu2 (by rw [hea]) ha'

/-- non-vacuity of `C03_process'`: a pair related by `ac3_sameUsed'` but not by `sameUsed` (B differs, unused in
the typed sense) and a pair with B used and equal, C unused and different -/
example :
    let set : Settings := ⟨false, false, false, false, 0, 0, 1, 2, 0, 0⟩
    ac3_sameUsed' set ⟨0x1234, 0x0000, 0x1111, 0x4142, 0, 1, 0, 0⟩ ⟨0x1234, 0xA001, 0x2222, 0x4143, 0, 1, 0, 0⟩ = true ∧
    sameUsed set ⟨0x1234, 0x0000, 0x1111, 0x4142, 0, 1, 0, 0⟩ ⟨0x1234, 0xA001, 0x2222, 0x4143, 0, 1, 0, 0⟩ = false ∧
    ac3_sameUsed' set ⟨0x1234, 0x2000, 0x1111, 0x4142, 0, 1, 3, 0⟩ ⟨0x1234, 0x2000, 0x2222, 0x4142, 0, 1, 3, 0⟩ = true := by
  decide

/-! ## the one-sided typed relation is unsound -/

/-- the naive typed relation: "B unused" judged on the first group only, as `sameUsed` does -/
def ac3_sameUsedNaive (set : Settings) (g g' : Group) : Bool :=
  g.ea = g'.ea && g.eb = g'.eb && g.ec = g'.ec && g.ed = g'.ed &&
  (!usedA g || g.a = g'.a) &&
  (!ac3_usedB' set g || (g.b = g'.b &&
     (!usedC set g || g.c = g'.c) && (!usedD set g || g.d = g'.d)))

def ac3_cfg0 : Cfg := ⟨true, fun b => b, fun _ _ => 0⟩

/-- Counterexample to the one-sided typed relation: PS block-B maximum 1; `g` is a 1A group with eb = 1 (B unused
in the typed sense), `g'` differs only in B and is a 0A group (B used): `g'` stores two PS characters, `g` none. -/
theorem ac3_sameUsed_onesided_false :
    let s := run ac3_cfg0 [.setCorr .ps .info 1]
    let g : Group := ⟨0x1234, 0x1000, 0, 0x4142, 0, 1, 0, 0⟩
    let g' : Group := ⟨0x1234, 0x0000, 0, 0x4142, 0, 1, 0, 0⟩
    ac3_sameUsedNaive s.set g g' = true ∧
    (process ac3_cfg0 s g).1.ps ≠ (process ac3_cfg0 s g').1.ps := by
  decide

/-- tightness of `ac3_usedB'`: for each of its text disjuncts there are a reachable state and two groups that
differ ONLY in block B (same type even: only the address bits differ) with different effect -/
theorem ac3_usedB'_tight :
    (let s := run ac3_cfg0 [.setCorr .ps .info 1]
     ac3_usedB' s.set ⟨0, 0x0000, 0, 0x4142, 1, 1, 0, 0⟩ = true ∧
     (process ac3_cfg0 s ⟨0, 0x0000, 0, 0x4142, 1, 1, 0, 0⟩).1.ps ≠
       (process ac3_cfg0 s ⟨0, 0x0001, 0, 0x4142, 1, 1, 0, 0⟩).1.ps) ∧
    (let s := run ac3_cfg0 [.setCorr .rt .info 1]
     ac3_usedB' s.set ⟨0, 0x2000, 0x4142, 0x4344, 1, 1, 0, 0⟩ = true ∧
     (process ac3_cfg0 s ⟨0, 0x2000, 0x4142, 0x4344, 1, 1, 0, 0⟩).1.rt0 ≠
       (process ac3_cfg0 s ⟨0, 0x2001, 0x4142, 0x4344, 1, 1, 0, 0⟩).1.rt0) ∧
    (let s := run ac3_cfg0 [.setCorr .ptyn .info 1]
     ac3_usedB' s.set ⟨0, 0xA000, 0x4142, 0x4344, 1, 1, 0, 0⟩ = true ∧
     (process ac3_cfg0 s ⟨0, 0xA000, 0x4142, 0x4344, 1, 1, 0, 0⟩).1.ptyn ≠
       (process ac3_cfg0 s ⟨0, 0xA001, 0x4142, 0x4344, 1, 1, 0, 0⟩).1.ptyn) := by
  decide

/-! ## uncorrectable blocks, op lists, reachable states -/

/-- with thresholds clamped to 'large' (2), a block B with any code ≥ 3 is never used (typed) -/
theorem ac3_uncorrectable' (set : Settings) (hs : set.Ok) (g : Group) (h : 3 ≤ g.eb) :
    ac3_usedB' set g = false := by
  cases hc : ac3_usedB' set g
  · rfl
  · have h1 := ac3_usedB'_le set g hc
    have h2 := (C03_uncorrectable set hs g).2.1 h
    rw [h1] at h2; cases h2

/-- two calls are related if equal, or if both deliver a group (`parse`, or `parse_string` of a well-formed
string) and the groups may differ in unused blocks only (typed, judged with the given settings) -/
inductive ac3_OpRel' (set : Settings) : Op → Op → Prop
  | refl (op : Op) : ac3_OpRel' set op op
  | group (op op' : Op) (g g' : Group) (hg : op.group? = some g) (hg' : op'.group? = some g')
      (h : ac3_sameUsed' set g g' = true) : ac3_OpRel' set op op'

def ac3_TraceRel' (cfg : Cfg) : State → List Op → List Op → Prop
  | _, [], [] => True
  | s, op :: ops, op' :: ops' => ac3_OpRel' s.set op op' ∧ ac3_TraceRel' cfg (step cfg s op).1 ops ops'
  | _, _, _ => False

/-- a call that delivers a group is `process` of that group -/
theorem ac3_step_group (cfg : Cfg) (s : State) (op : Op) (g : Group) (hg : op.group? = some g) :
    step cfg s op = ((process cfg s g).1, (process cfg s g).2, true) := by
  cases op with
  | parse g0 =>
    have : g0 = g := by simpa [Op.group?] using hg
    subst this; rfl
  | parseString x =>
    cases x with
    | none => simp [Op.group?] at hg
    | some b =>
      have hu : utilsConvert b = some g := hg
      simp only [step, hu]
  | init => simp [Op.group?] at hg
  | clear => simp [Op.group?] at hg
  | setExt v => simp [Op.group?] at hg
  | setCorr t k v => simp [Op.group?] at hg
  | setProg t v => simp [Op.group?] at hg
  | register c on => simp [Op.group?] at hg
  | userData n => simp [Op.group?] at hg
  | getters => simp [Op.group?] at hg

theorem C03_step' (cfg : Cfg) (s : State) (op op' : Op) (h : ac3_OpRel' s.set op op') :
    step cfg s op = step cfg s op' := by
  cases h with
  | refl => rfl
  | group _ g g' hg hg' h =>
    rw [ac3_step_group cfg s op g hg, ac3_step_group cfg s op' g' hg', C03_process' cfg s g g' h]

/-- **C03 over op lists (typed):** state after each call, callbacks and results are identical, now and for every
later input -/
theorem C03_trace' (cfg : Cfg) (s : State) (ops ops' : List Op) (h : ac3_TraceRel' cfg s ops ops') :
    trace cfg s ops = trace cfg s ops' := by
  induction ops generalizing s ops' with
  | nil =>
    cases ops' with
    | nil => rfl
    | cons _ _ => simp [ac3_TraceRel'] at h
  | cons op ops ih =>
    cases ops' with
    | nil => simp [ac3_TraceRel'] at h
    | cons op' ops' =>
      simp only [ac3_TraceRel'] at h
      obtain ⟨h1, h2⟩ := h
      have hst := C03_step' cfg s op op' h1
      simp only [trace]
      rw [← hst, ih _ _ h2]

/-- **C03 on reachable states (typed):** for every history, every pair of groups related by `ac3_sameUsed'`
has the same effect, and a block B with any code ≥ 3 is never used -/
theorem C03_typed (tb : Tabs) (h : EccOk tb) (ops : List Op) (g g' : Group)
    (hs : ac3_sameUsed' (run tb.cfg ops).set g g' = true) :
    process tb.cfg (run tb.cfg ops) g = process tb.cfg (run tb.cfg ops) g' ∧
    (3 ≤ g.eb → ac3_usedB' (run tb.cfg ops).set g = false) :=
  ⟨C03_process' tb.cfg _ g g' hs, ac3_uncorrectable' _ (reach tb h ops).2.setOk g⟩

/-- non-vacuity of `C03_typed` / `C03_trace'`: after a history that raises the RT block-B maximum, a type-0 group
with eb = 1 may have B, C, D replaced (here: turned into a 10A group) -/
example :
    let ops : List Op := [.register .ps true, .setCorr .rt .info 1, .parse ⟨0x1234, 0x0000, 0, 0x4142, 0, 0, 0, 0⟩]
    ac3_sameUsed' (run ac3_cfg0 ops).set ⟨0x1234, 0x0001, 0x1111, 0x4344, 0, 1, 0, 0⟩
        ⟨0x1234, 0xA001, 0x2222, 0x4546, 0, 1, 0, 0⟩ = true ∧
    ac3_TraceRel' ac3_cfg0 (run ac3_cfg0 ops) [.parse ⟨0x1234, 0x0001, 0x1111, 0x4344, 0, 1, 0, 0⟩, .getters]
        [.parse ⟨0x1234, 0xA001, 0x2222, 0x4546, 0, 1, 0, 0⟩, .getters] := by
  refine ⟨by decide, ?_, ?_, trivial⟩
  · exact .group _ _ _ _ rfl rfl (by decide)
  · exact .refl _

/-! # Part (b): C20, bytes ≥ 0x7F in errored lanes -/

/-- every addressed byte is < 0x7F, or arrives with an error in block B or in its own data block -/
def ac3_asciiOnly' (g : Group) : Bool :=
  (addressed g).all (fun a => a.2.2.1 < 0x7F || g.eb != 0 || a.2.2.2 != 0)

def ac3_opAsciiOnly' (op : Op) : Bool :=
  match op.group? with
  | some g => ac3_asciiOnly' g
  | none => true

/-- the new hypothesis is weaker than `asciiOnly` -/
theorem ac3_asciiOnly_imp (g : Group) (h : g.asciiOnly = true) : ac3_asciiOnly' g = true := by
  unfold Group.asciiOnly at h
  unfold ac3_asciiOnly'
  rw [List.all_eq_true] at h ⊢
  intro a ha
  have := h a ha
  simp only [Bool.or_eq_true, decide_eq_true_eq] at this ⊢
  exact Or.inl (Or.inl this)

theorem ac3_opAsciiOnly_imp (op : Op) (h : op.asciiOnly = true) : ac3_opAsciiOnly' op = true := by
  unfold Op.asciiOnly at h
  unfold ac3_opAsciiOnly'
  cases hg : op.group? with
  | none => rfl
  | some g => rw [hg] at h; exact ac3_asciiOnly_imp g h

/-! ## replacing rejected bytes: a byte ≥ 0x7F in an errored lane behaves like an errored 0x0D -/

def ac3_fixByte (b : Nat) : Nat := if 0x7F ≤ b then 0x0D else b

def ac3_fixWord (w eb ex : Nat) : Nat :=
  if eb = 0 ∧ ex = 0 then w else ac3_fixByte (w / 256 % 256) * 256 + ac3_fixByte (w % 256)

def ac3_fixGroup (g : Group) : Group :=
  { g with c := ac3_fixWord g.c g.eb g.ec, d := ac3_fixWord g.d g.eb g.ed }

theorem ac3_fixByte_lt (b : Nat) : ac3_fixByte b < 0x7F := by
  unfold ac3_fixByte; split <;> omega

theorem ac3_fixWord_clean (w : Nat) : ac3_fixWord w 0 0 = w := by
  unfold ac3_fixWord; simp

theorem ac3_fixWord_hi (w eb ex : Nat) (h : ¬ (eb = 0 ∧ ex = 0)) :
    ac3_fixWord w eb ex / 256 % 256 = ac3_fixByte (w / 256 % 256) := by
  unfold ac3_fixWord
  rw [if_neg h]
  have h1 := ac3_fixByte_lt (w / 256 % 256)
  have h2 := ac3_fixByte_lt (w % 256)
  omega

theorem ac3_fixWord_lo (w eb ex : Nat) (h : ¬ (eb = 0 ∧ ex = 0)) :
    ac3_fixWord w eb ex % 256 = ac3_fixByte (w % 256) := by
  unfold ac3_fixWord
  rw [if_neg h]
  have h1 := ac3_fixByte_lt (w / 256 % 256)
  have h2 := ac3_fixByte_lt (w % 256)
  omega

/-- in an errored lane, a byte ≥ 0x7F and a 0x0D are both rejected before any conversion, in every configuration -/
theorem ac3_updateSingle_fix (cfg : Cfg) (t : Text) (b ei ed pos : Nat) (prog : Bool) (he : ¬ (ei = 0 ∧ ed = 0)) :
    updateSingle cfg t b ei ed pos prog = updateSingle cfg t (ac3_fixByte b) ei ed pos prog := by
  unfold ac3_fixByte
  by_cases hb : 0x7F ≤ b
  · rw [if_pos hb]
    have hE : (ei != 0 || ed != 0) = true := by
      simp only [Bool.or_eq_true, bne_iff_ne, ne_eq]
      omega
    cases hc : t[pos]? with
    | none => rw [c20_updateSingle_none _ _ _ _ _ _ _ hc, c20_updateSingle_none _ _ _ _ _ _ _ hc]
    | some cell =>
      rw [c20_updateSingle_some _ _ _ _ _ _ _ _ hc, c20_updateSingle_some _ _ _ _ _ _ _ _ hc]
      have p1 : c20_pre cell.lvl b ei ed prog = true := by
        unfold c20_pre
        rw [hE, decide_eq_true hb]
        simp
      have p2 : c20_pre cell.lvl 0x0D ei ed prog = true := by
        unfold c20_pre
        rw [hE]
        simp
      rw [if_pos p1, if_pos p2]
  · rw [if_neg hb]

theorem ac3_updateString_fix (cfg : Cfg) (t : Text) (w ei ed pos : Nat) (prog : Bool) :
    updateString cfg t w ei ed pos prog = updateString cfg t (ac3_fixWord w ei ed) ei ed pos prog := by
  by_cases he : ei = 0 ∧ ed = 0
  · rw [he.1, he.2, ac3_fixWord_clean]
  · simp only [updateString, ac3_fixWord_hi w ei ed he, ac3_fixWord_lo w ei ed he,
      ← ac3_updateSingle_fix cfg _ _ ei ed _ prog he]

theorem ac3_parserUpdate_fix (cfg : Cfg) (set : Settings) (t : Text) (id : TextId) (w eb ex pos : Nat) :
    parserUpdate cfg set t id w eb ex pos = parserUpdate cfg set t id (ac3_fixWord w eb ex) eb ex pos := by
  unfold parserUpdate
  rw [← ac3_updateString_fix]

/-! ## handlers depend on C and D only through `parserUpdate` and the error-free reads -/

theorem ac3_afGate_false (vb : Bool) (eb ec : Nat) (h : ¬ (eb = 0 ∧ ec = 0)) (q : Bool) :
    (!vb && decide (eb = 0) && decide (ec = 0) && q) = false := by
  by_cases h1 : eb = 0
  · have h2 : ¬ ec = 0 := fun e => h ⟨h1, e⟩
    simp [h2]
  · simp [h1]

theorem ac3_group0_congr (cfg : Cfg) (s : State) (g g' : Group) (hb : g.b = g'.b)
    (heb : g.eb = g'.eb) (hec : g.ec = g'.ec) (hed : g.ed = g'.ed)
    (hc : g.eb = 0 → g.ec = 0 → g.c = g'.c)
    (hu : ∀ set t pos, parserUpdate cfg set t .ps g.d g.eb g.ed pos =
      parserUpdate cfg set t .ps g'.d g.eb g.ed pos) :
    group0 cfg s g = group0 cfg s g' := by
  obtain ⟨a, b, c, d, ea, eb, ec, ed⟩ := g
  obtain ⟨a', b', c', d', ea', eb', ec', ed'⟩ := g'
  simp only at hb heb hec hed hc hu
  subst hb heb hec hed
  by_cases hC : eb = 0 ∧ ec = 0
  · have := hc hC.1 hC.2
    subst this
    simp only [group0, Group.versionB, hu]
  · have hF := fun q => ac3_afGate_false (decide (b / 2048 % 2 = 1)) eb ec hC q
    simp only [group0, Group.versionB, hu, hF, Bool.false_eq_true, if_false]

theorem ac3_group10_congr (cfg : Cfg) (s : State) (g g' : Group) (hb : g.b = g'.b)
    (heb : g.eb = g'.eb) (hec : g.ec = g'.ec) (hed : g.ed = g'.ed)
    (hu1 : ∀ set t pos, parserUpdate cfg set t .ptyn g.c g.eb g.ec pos =
      parserUpdate cfg set t .ptyn g'.c g.eb g.ec pos)
    (hu2 : ∀ set t pos, parserUpdate cfg set t .ptyn g.d g.eb g.ed pos =
      parserUpdate cfg set t .ptyn g'.d g.eb g.ed pos) :
    group10 cfg s g = group10 cfg s g' := by
  obtain ⟨a, b, c, d, ea, eb, ec, ed⟩ := g
  obtain ⟨a', b', c', d', ea', eb', ec', ed'⟩ := g'
  simp only at hb heb hec hed hu1 hu2
  subst hb heb hec hed
  simp only [group10, Group.versionB, hu1, hu2]

/-- `group2` with its two `parserUpdate` calls abstracted -/
def ac3_g2 (pc pd : Settings → Text → Nat → Text × Bool) (s : State) (b eb : Nat) : State × List Event :=
  let flag := b / 16 % 2
  let pos := b % 16
  let sw := eb = 0 && ((flag : Int) != s.lastRt)
  let clr := sw && s.lastRt != -1 && getAvailable (s.rt flag)
  let s1 := if clr then s.setRt flag (s.rt flag).cleared else s
  let s2 := if sw then { s1 with lastRt := flag } else s1
  if eb != 0 && (flag : Int) != s2.lastRt && s2.lastRt != -1 then (s2, [])
  else
    let u1 := if !decide (b / 2048 % 2 = 1)
      then pc s2.set (s2.rt flag) (4 * pos)
      else (s2.rt flag, false)
    let pos2 := if !decide (b / 2048 % 2 = 1) then 4 * pos + 2 else 2 * pos
    let u2 := pd s2.set u1.1 pos2
    let s3 := s2.setRt flag u2.1
    (s3, if clr || u1.2 || u2.2 then emit s3 .rt (.rt flag) else [])

theorem ac3_group2_eq (cfg : Cfg) (s : State) (g : Group) :
    group2 cfg s g = ac3_g2 (fun set t pos => parserUpdate cfg set t .rt g.c g.eb g.ec pos)
      (fun set t pos => parserUpdate cfg set t .rt g.d g.eb g.ed pos) s g.b g.eb := rfl

theorem ac3_group2_congr (cfg : Cfg) (s : State) (g g' : Group) (hb : g.b = g'.b)
    (heb : g.eb = g'.eb) (hec : g.ec = g'.ec) (hed : g.ed = g'.ed)
    (hu1 : ∀ set t pos, parserUpdate cfg set t .rt g.c g.eb g.ec pos =
      parserUpdate cfg set t .rt g'.c g.eb g.ec pos)
    (hu2 : ∀ set t pos, parserUpdate cfg set t .rt g.d g.eb g.ed pos =
      parserUpdate cfg set t .rt g'.d g.eb g.ed pos) :
    group2 cfg s g = group2 cfg s g' := by
  rw [ac3_group2_eq, ac3_group2_eq, ← hb, ← heb, ← hec, ← hed]
  have e1 : (fun set t pos => parserUpdate cfg set t .rt g.c g.eb g.ec pos) =
      (fun set t pos => parserUpdate cfg set t .rt g'.c g.eb g.ec pos) := by
    funext set t pos; exact hu1 set t pos
  have e2 : (fun set t pos => parserUpdate cfg set t .rt g.d g.eb g.ed pos) =
      (fun set t pos => parserUpdate cfg set t .rt g'.d g.eb g.ed pos) := by
    funext set t pos; exact hu2 set t pos
  rw [e1, e2]

/-- a group and its fixed version have the same effect, in every configuration and every state -/
theorem ac3_process_fix (cfg : Cfg) (s : State) (g : Group) :
    process cfg s g = process cfg s (ac3_fixGroup g) := by
  have hgc : groupCommon s g = groupCommon s (ac3_fixGroup g) :=
    groupCommon_congr s g (ac3_fixGroup g) rfl rfl (fun _ => rfl) (fun _ => rfl)
  have hc : g.eb = 0 → g.ec = 0 → g.c = (ac3_fixGroup g).c := by
    intro h1 h2
    show g.c = ac3_fixWord g.c g.eb g.ec
    rw [h1, h2, ac3_fixWord_clean]
  have hd : g.eb = 0 → g.ed = 0 → g.d = (ac3_fixGroup g).d := by
    intro h1 h2
    show g.d = ac3_fixWord g.d g.eb g.ed
    rw [h1, h2, ac3_fixWord_clean]
  have huc : ∀ id set t pos, parserUpdate cfg set t id g.c g.eb g.ec pos =
      parserUpdate cfg set t id (ac3_fixGroup g).c g.eb g.ec pos :=
    fun id set t pos => ac3_parserUpdate_fix cfg set t id g.c g.eb g.ec pos
  have hud : ∀ id set t pos, parserUpdate cfg set t id g.d g.eb g.ed pos =
      parserUpdate cfg set t id (ac3_fixGroup g).d g.eb g.ed pos :=
    fun id set t pos => ac3_parserUpdate_fix cfg set t id g.d g.eb g.ed pos
  have hdp : ∀ s, dispatch cfg s g = dispatch cfg s (ac3_fixGroup g) := by
    intro s
    have ht : (ac3_fixGroup g).type = g.type := rfl
    unfold dispatch
    rw [ht]
    by_cases h0 : g.type = 0
    · rw [if_pos h0, if_pos h0]
      exact ac3_group0_congr cfg s g _ rfl rfl rfl rfl hc (hud .ps)
    rw [if_neg h0, if_neg h0]
    by_cases h1 : g.type = 1
    · rw [if_pos h1, if_pos h1]
      exact group1_congr cfg s g _ rfl rfl rfl (fun _ e1 e2 => hc e1 e2)
    rw [if_neg h1, if_neg h1]
    by_cases h2 : g.type = 2
    · rw [if_pos h2, if_pos h2]
      exact ac3_group2_congr cfg s g _ rfl rfl rfl rfl (huc .rt) (hud .rt)
    rw [if_neg h2, if_neg h2]
    by_cases h4 : g.type = 4
    · rw [if_pos h4, if_pos h4]
      exact group4_congr s g _ rfl rfl rfl rfl (fun _ e1 e2 _ => hc e1 e2) (fun _ e1 _ e3 => hd e1 e3)
    rw [if_neg h4, if_neg h4]
    by_cases h10 : g.type = 10
    · rw [if_pos h10, if_pos h10]
      exact ac3_group10_congr cfg s g _ rfl rfl rfl rfl (huc .ptyn) (hud .ptyn)
    rw [if_neg h10, if_neg h10]
  show ((dispatch cfg (groupCommon s g).1 g).1, (groupCommon s g).2 ++ (dispatch cfg (groupCommon s g).1 g).2) =
    ((dispatch cfg (groupCommon s (ac3_fixGroup g)).1 (ac3_fixGroup g)).1,
      (groupCommon s (ac3_fixGroup g)).2 ++ (dispatch cfg (groupCommon s (ac3_fixGroup g)).1 (ac3_fixGroup g)).2)
  rw [← hgc, ← hdp]

/-! ## op lists -/

def ac3_fixOp (op : Op) : Op :=
  match op.group? with
  | some g => .parse (ac3_fixGroup g)
  | none => op

theorem ac3_step_fixOp (cfg : Cfg) (s : State) (op : Op) : step cfg s op = step cfg s (ac3_fixOp op) := by
  unfold ac3_fixOp
  cases hg : op.group? with
  | none => rfl
  | some g =>
    rw [ac3_step_group cfg s op g hg, ac3_step_group cfg s (.parse (ac3_fixGroup g)) (ac3_fixGroup g) rfl,
      ac3_process_fix cfg s g]

theorem ac3_runFrom_fix (cfg : Cfg) (ops : List Op) :
    ∀ s, runFrom cfg s ops = runFrom cfg s (ops.map ac3_fixOp) := by
  induction ops with
  | nil => intro s; rfl
  | cons op ops ih =>
    intro s
    show runFrom cfg (step cfg s op).1 ops = runFrom cfg (step cfg s (ac3_fixOp op)).1 (ops.map ac3_fixOp)
    rw [← ac3_step_fixOp, ih]

theorem ac3_run_fix (cfg : Cfg) (ops : List Op) : run cfg ops = run cfg (ops.map ac3_fixOp) :=
  ac3_runFrom_fix cfg ops initState

/-! ## the fixed group satisfies the word conditions of the generic simulation -/

theorem ac3_WA_fix (w eb ex : Nat)
    (h1 : w / 256 % 256 < 0x7F ∨ eb ≠ 0 ∨ ex ≠ 0) (h2 : w % 256 < 0x7F ∨ eb ≠ 0 ∨ ex ≠ 0) :
    c20_WA (ac3_fixWord w eb ex) := by
  by_cases he : eb = 0 ∧ ex = 0
  · rw [he.1, he.2, ac3_fixWord_clean]
    refine ⟨?_, ?_⟩
    · rcases h1 with h | h | h
      · exact h
      · exact absurd he.1 h
      · exact absurd he.2 h
    · rcases h2 with h | h | h
      · exact h
      · exact absurd he.1 h
      · exact absurd he.2 h
  · unfold c20_WA
    rw [ac3_fixWord_hi w eb ex he, ac3_fixWord_lo w eb ex he]
    exact ⟨ac3_fixByte_lt _, ac3_fixByte_lt _⟩

theorem ac3_gw_of_asciiOnly' (g : Group) (h : ac3_asciiOnly' g = true) : c20_GW c20_WA (ac3_fixGroup g) := by
  unfold ac3_asciiOnly' addressed at h
  have ht : (ac3_fixGroup g).type = g.type := rfl
  have hv : (ac3_fixGroup g).versionB = g.versionB := rfl
  have hcc : (ac3_fixGroup g).c = ac3_fixWord g.c g.eb g.ec := rfl
  have hdd : (ac3_fixGroup g).d = ac3_fixWord g.d g.eb g.ed := rfl
  unfold c20_GW
  rw [ht, hv, hcc, hdd]
  refine ⟨?_, ?_, ?_⟩
  · intro h0
    simp only [h0, if_true, List.all_cons, List.all_nil, Bool.and_true, Bool.and_eq_true, Bool.or_eq_true,
      decide_eq_true_eq, bne_iff_ne, ne_eq] at h
    exact ac3_WA_fix _ _ _ (by omega) (by omega)
  · intro h2
    simp only [h2, show ¬ (2 = 0) by decide, if_false, if_true] at h
    cases hvb : g.versionB
    · simp only [hvb, Bool.false_eq_true, if_false, List.all_cons, List.all_nil, Bool.and_true, Bool.and_eq_true,
        Bool.or_eq_true, decide_eq_true_eq, bne_iff_ne, ne_eq] at h
      exact ⟨fun _ => ac3_WA_fix _ _ _ (by omega) (by omega), ac3_WA_fix _ _ _ (by omega) (by omega)⟩
    · simp only [hvb, if_true, List.all_cons, List.all_nil, Bool.and_true, Bool.and_eq_true,
        Bool.or_eq_true, decide_eq_true_eq, bne_iff_ne, ne_eq] at h
      exact ⟨fun e => (by cases e), ac3_WA_fix _ _ _ (by omega) (by omega)⟩
  · intro h10 hvb
    simp only [h10, hvb, show ¬ (10 = 0) by decide, show ¬ (10 = 2) by decide, if_false, Bool.not_false,
      Bool.and_true, decide_true, if_true, List.all_cons, List.all_nil, Bool.and_eq_true,
      Bool.or_eq_true, decide_eq_true_eq, bne_iff_ne, ne_eq] at h
    exact ⟨ac3_WA_fix _ _ _ (by omega) (by omega), ac3_WA_fix _ _ _ (by omega) (by omega)⟩

theorem ac3_gw_of_fixOp (op : Op) (h : ac3_opAsciiOnly' op = true) :
    ∀ g, (ac3_fixOp op).group? = some g → c20_GW c20_WA g := by
  intro g hg
  unfold ac3_opAsciiOnly' at h
  unfold ac3_fixOp at hg
  cases hop : op.group? with
  | none => rw [hop] at hg; simp only at hg; rw [hop] at hg; cases hg
  | some g0 =>
    rw [hop] at h hg
    have : ac3_fixGroup g0 = g := by simpa [Op.group?] using hg
    rw [← this]
    exact ac3_gw_of_asciiOnly' g0 h

theorem ac3_gw_of_ops {ops : List Op} (ha : ∀ op ∈ ops, ac3_opAsciiOnly' op = true) :
    ∀ op ∈ ops.map ac3_fixOp, ∀ g, op.group? = some g → c20_GW c20_WA g := by
  intro op hm
  rcases List.mem_map.mp hm with ⟨op0, h0, rfl⟩
  exact ac3_gw_of_fixOp op0 (ha op0 h0)

/-- the relation of instance (A) of the generic simulation holds after every history satisfying the tighter hypothesis -/
theorem ac3_run_A' (cfg : Cfg) (h : G0Ascii cfg) (ops : List Op) (ha : ∀ op ∈ ops, ac3_opAsciiOnly' op = true) :
    c20_R (c20_TA cfg) (fun _ => True) (run cfg.narrow ops) (run cfg.wide ops) := by
  rw [ac3_run_fix cfg.narrow ops, ac3_run_fix cfg.wide ops]
  exact c20_run (c20_ax_A cfg h) (ops.map ac3_fixOp) (ac3_gw_of_ops ha)

/-- **C20 (A), tighter.** On histories in which every addressed byte ≥ 0x7F arrives with an error in block B or
in its own data block, the two builds are in lock step modulo the character embedding. -/
theorem C20_ascii' (cfg : Cfg) (h : G0Ascii cfg) (ops : List Op)
    (ha : ∀ op ∈ ops, ac3_opAsciiOnly' op = true) :
    embedState cfg (run cfg.narrow ops) = run cfg.wide ops :=
  (c20_RA_eq (ac3_run_A' cfg h ops ha)).symm

/-- … and every further such call returns the same result and fires the same callbacks, each seeing embedded state -/
theorem C20_ascii_step' (cfg : Cfg) (h : G0Ascii cfg) (ops : List Op)
    (ha : ∀ op ∈ ops, ac3_opAsciiOnly' op = true) (op : Op) (hop : ac3_opAsciiOnly' op = true) :
    (step cfg.narrow (run cfg.narrow ops) op).2.2 = (step cfg.wide (run cfg.wide ops) op).2.2 ∧
    (step cfg.narrow (run cfg.narrow ops) op).2.1.map (fun e => (e.kind, e.ud, embedState cfg e.snap)) =
    (step cfg.wide (run cfg.wide ops) op).2.1.map (fun e => (e.kind, e.ud, e.snap)) := by
  rw [ac3_step_fixOp cfg.narrow _ op, ac3_step_fixOp cfg.wide _ op]
  exact (c20_sim_step (c20_ax_A cfg h) _ _ (ac3_run_A' cfg h ops ha) (ac3_fixOp op) (ac3_gw_of_fixOp op hop)).2

/-- `C20_ascii` is the special case -/
theorem ac3_C20_ascii_of' (cfg : Cfg) (h : G0Ascii cfg) (ops : List Op) (ha : ∀ op ∈ ops, op.asciiOnly = true) :
    embedState cfg (run cfg.narrow ops) = run cfg.wide ops :=
  C20_ascii' cfg h ops (fun op hm => ac3_opAsciiOnly_imp op (ha op hm))

/-- non-vacuity of `C20_ascii'` / `C20_ascii_step'`: a history that presents bytes ≥ 0x7F (in PS with an errored
block D, in RT with an errored block B, through `parse_string` too) — rejected by `asciiOnly`, accepted by the tighter
hypothesis — together with ordinary accepted text -/
def ac3_c20Ops : List Op :=
  [.register .ps true, .setCorr .ps .data 2, .setCorr .rt .info 2,
   .parse ⟨0x1234, 0x0000, 0, 0x4142, 0, 0, 0, 0⟩,
   .parse ⟨0x1234, 0x0001, 0, 0x80E9, 0, 0, 0, 1⟩,
   .parse ⟨0x1234, 0x2000, 0xFF41, 0x4281, 0, 1, 0, 0⟩,
   .parseString (some [49,50,51,52, 48,48,48,50, 48,48,48,48, 56,48,52,49, 48,49])]

example : (∀ op ∈ ac3_c20Ops, ac3_opAsciiOnly' op = true) ∧ ¬ (∀ op ∈ ac3_c20Ops, op.asciiOnly = true) := by
  decide

theorem ac3_g0Ascii_cfg0 : G0Ascii ac3_cfg0 :=
  ⟨rfl, fun b h1 _ => by show b ≠ 0; omega, fun _ _ _ _ _ _ e => e⟩

example : embedState ac3_cfg0 (run ac3_cfg0.narrow ac3_c20Ops) = run ac3_cfg0.wide ac3_c20Ops :=
  C20_ascii' ac3_cfg0 ac3_g0Ascii_cfg0 ac3_c20Ops (by decide)

/-- sharpness: the error condition cannot be dropped. One error-free 0A group carrying byte 0x80 (the only addressed
byte violating `ac3_asciiOnly'`) already breaks the lock step: the narrow build stores a space, the wide build the
table image of 0x80. -/
theorem ac3_C20_sharp :
    let ops : List Op := [.parse ⟨0x1234, 0x0000, 0, 0x8041, 0, 0, 0, 0⟩]
    G0Ascii ac3_cfg0 ∧ ¬ (∀ op ∈ ops, ac3_opAsciiOnly' op = true) ∧
    (embedState ac3_cfg0 (run ac3_cfg0.narrow ops)).ps ≠ (run ac3_cfg0.wide ops).ps :=
  ⟨ac3_g0Ascii_cfg0, by decide, by decide⟩

end RDS
