import RdsSpec.Monitors
/-!
# RdsProofs.C08Cb — the callback clause of C08 is a conjunct of `chkC04`
-/
namespace RDS

theorem chkC08cb_of_chkC04 (m : Mon) (r : StepRec) (h : chkC04 m r = true) : chkC08cb m r = true := by
  unfold chkC08cb
  unfold chkC04 at h
  cases hg : r.op.group? with
  | none => rfl
  | some g =>
    rw [hg] at h
    simp only [] at h ⊢
    cases hreg : m.cbs.getD Cb.rt.idx false with
    | false => rfl
    | true =>
      cases hsd : switchDiscard m r.before g with
      | false => rfl
      | true =>
        simp only [Bool.and_eq_true] at h
        obtain ⟨⟨⟨⟨⟨_, h0⟩, h1⟩, _⟩, _⟩, _⟩ := h
        simp only [hreg, hsd, Bool.not_true, Bool.false_or, Bool.true_and] at h0 h1 ⊢
        have hf : g.b / 16 % 2 = 0 ∨ g.b / 16 % 2 = 1 := by omega
        rcases hf with hf | hf
        · rw [hf]; simpa [hf, b2n] using h0
        · rw [hf]; simpa [hf, b2n] using h1

/-- the first-flag clause is one instance of the closed form `chkCells` -/
theorem chkC08first_of_chkCells (cfg : Cfg) (m : Mon) (r : StepRec) (h : chkCells cfg m r = true) :
    chkC08first cfg m r = true := by
  unfold chkC08first
  cases hg : r.op.group? with
  | none => rfl
  | some g =>
    simp only []
    cases hc : (decide (g.type = 2) && m.lastFlag == -1) with
    | false => rfl
    | true =>
      have hop : chkCells cfg m r = ((List.range 4).all fun t => (r.after.text t).cells == expectedText cfg m r.before g t) := by
        unfold chkCells
        cases hr : r.op with
        | init => rw [hr] at hg; cases hg
        | clear => rw [hr] at hg; cases hg
        | parse g' => rw [hr] at hg; simp only [Op.group?] at hg; cases hg; simp [Op.group?]
        | parseString o => simp only [← hr, hg]
        | _ => rw [hr] at hg; cases hg
      rw [hop] at h
      have h1 := List.all_eq_true.mp h 1 (by decide)
      have h2 := List.all_eq_true.mp h 2 (by decide)
      simp only [Bool.not_true, Bool.false_or, Bool.and_eq_true]
      exact ⟨h1, h2⟩

end RDS

#print axioms RDS.chkC08cb_of_chkC04
#print axioms RDS.chkC08first_of_chkCells
