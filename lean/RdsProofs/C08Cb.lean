import RdsSpec.Monitors
/-!
# RdsProofs.C08Cb — the callback clause of C08 is a conjunct of `chkC04`
-/
namespace RDS

theorem chkC08cb_of_chkC04 (m : Mon) (r : StepRec) (h : chkC04 m r = true) : chkC08cb m r = true := by
  unfold chkC08cb
  unfold chkC04 at h
  cases hg : r.op.group? with
  | none => rfl
  | some g =>
    rw [hg] at h
    simp only [] at h ⊢
    cases hreg : m.cbs.getD Cb.rt.idx false with
    | false => rfl
    | true =>
      cases hsd : switchDiscard m r.before g with
      | false => rfl
      | true =>
        simp only [Bool.and_eq_true] at h
        obtain ⟨⟨⟨⟨⟨_, h0⟩, h1⟩, _⟩, _⟩, _⟩ := h
        simp only [hreg, hsd, Bool.not_true, Bool.false_or, Bool.true_and] at h0 h1 ⊢
        have hf : g.b / 16 % 2 = 0 ∨ g.b / 16 % 2 = 1 := by omega
        rcases hf with hf | hf
        · rw [hf]; simpa [hf, b2n] using h0
        · rw [hf]; simpa [hf, b2n] using h1

/-- the first-flag clause is one instance of the closed form `chkCells` -/
theorem chkC08first_of_chkCells (cfg : Cfg) (m : Mon) (r : StepRec) (h : chkCells cfg m r = true) :
    chkC08first cfg m r = true := by
  unfold chkC08first
  cases hg : r.op.group? with
  | none => rfl
  | some g =>
    simp only []
    cases hc : (decide (g.type = 2) && m.lastFlag == -1) with
    | false => rfl
    | true =>
      have hop : chkCells cfg m r = ((List.range 4).all fun t => (r.after.text t).cells == expectedText cfg m r.before g t) := by
        unfold chkCells
        cases hr : r.op with
        | init => rw [hr] at hg; cases hg
        | clear => rw [hr] at hg; cases hg
        | parse g' => rw [hr] at hg; simp only [Op.group?] at hg; cases hg; simp [Op.group?]
        | parseString o => simp only [← hr, hg]
        | _ => rw [hr] at hg; cases hg
      rw [hop] at h
      have h1 := List.all_eq_true.mp h 1 (by decide)
      have h2 := List.all_eq_true.mp h 2 (by decide)
      simp only [Bool.not_true, Bool.false_or, Bool.and_eq_true]
      exact ⟨h1, h2⟩

theorem cellsBy_mono (m : Mon) (r : StepRec) (g : Group) (rel1 rel2 : Nat → Cell → Cell → Option (Nat × Nat) → Bool)
    (h : ∀ t o n a, rel1 t o n a = true → rel2 t o n a = true) (h1 : cellsBy m r g rel1 = true) :
    cellsBy m r g rel2 = true := by
  unfold cellsBy at *
  simp only [List.all_eq_true, Bool.and_eq_true] at *
  intro t ht
  obtain ⟨hl, hc⟩ := h1 t ht
  exact ⟨hl, fun i hi => h _ _ _ _ (hc i hi)⟩

/-- C07's convergence clause is the error-free branch of C02's relation, restricted to progressive texts -/
theorem chkC07conv_of_chkC02 (cfg : Cfg) (m : Mon) (r : StepRec) (h : chkC02 cfg m r = true) :
    chkC07conv cfg m r = true := by
  unfold chkC07conv
  unfold chkC02 at h
  split
  · rfl
  · rfl
  · rename_i hi hc
    split at h
    · rename_i h0; exact absurd h0 hi
    · rename_i h0; exact absurd h0 hc
    · cases hg : r.op.group? with
      | none => rfl
      | some g =>
        rw [hg] at h
        simp only [] at h ⊢
        apply cellsBy_mono m r g _ _ _ h
        intro t o n a hr
        unfold relC07conv
        unfold relC02 at hr
        cases a with
        | none => rfl
        | some p =>
          obtain ⟨b, ex⟩ := p
          simp only [] at hr ⊢
          by_cases hp : (r.before.set.prog (textIdOf t) && decide (g.eb = 0) && decide (ex = 0)) = true
          · rw [if_pos hp]
            have hz : (decide (g.eb = 0) && decide (ex = 0)) = true := by
              simp only [Bool.and_eq_true] at hp ⊢
              exact ⟨hp.1.2, hp.2⟩
            rw [if_pos hz] at hr
            exact hr
          · rw [if_neg hp]

/-- the AF callback clause of C10 is one conjunct of `chkC04` -/
theorem chkC10cb_of_chkC04 (m : Mon) (r : StepRec) (h : chkC04 m r = true) : chkC10cb m r = true := by
  unfold chkC10cb
  unfold chkC04 at h
  cases hg : r.op.group? with
  | none => rfl
  | some g =>
    rw [hg] at h
    simp only [] at h ⊢
    simp only [Bool.and_eq_true] at h
    exact h.1.2

end RDS

#print axioms RDS.chkC08cb_of_chkC04
#print axioms RDS.chkC08first_of_chkCells
#print axioms RDS.chkC10cb_of_chkC04
#print axioms RDS.chkC07conv_of_chkC02
