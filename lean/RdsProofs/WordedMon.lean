import RdsProofs.WordedBase
/-!
# RdsProofs.WordedMon — what one `Mon.step` does to the parts of `Mon` the worded properties read
-/
namespace RDS

/-- the selector of each scalar field (country is derived, it has none) -/
def wd_sel : Fld → Group → Option Int
  | .pi => selPi | .pty => selPty | .tp => selTp | .ta => selTa | .ms => selMs | .ecc => selEcc
  | .country => fun _ => none

/-! ## `Mon.group` -/

section group
variable (cfg : Cfg) (m : Mon) (g : Group)

theorem wd_group_ext : (m.group cfg g).ext = m.ext := by
  rw [Mon.group_eq]
  unfold Mon.disp Mon.common Mon.g0 Mon.g1 Mon.g2
  simp only []
  repeat' split
  all_goals simp

theorem wd_group_clean : (m.group cfg g).clean = m.clean := by
  rw [Mon.group_eq]
  unfold Mon.disp Mon.common Mon.g0 Mon.g1 Mon.g2
  simp only []
  repeat' split
  all_goals simp

theorem wd_group_set : (m.group cfg g).set = m.set := by
  rw [Mon.group_eq]
  unfold Mon.disp Mon.common Mon.g0 Mon.g1 Mon.g2
  simp only []
  repeat' split
  all_goals simp

theorem wd_fld_lastFlag (m : Mon) (x : Int) (f : Fld) : ({ m with lastFlag := x } : Mon).fld f = m.fld f := by
  cases f <;> rfl

/-- a group touches field `f` exactly when the field's selector fires -/
theorem wd_group_fld (f : Fld) (hf : f ≠ .country) :
    (m.group cfg g).fld f = match wd_sel f g with
      | some v => (m.fld f).recv m.ext v
      | none => m.fld f := by
  rw [Mon.group_eq]
  unfold Mon.disp Mon.common Mon.g0 Mon.g1 Mon.g2
  cases f with
  | country => exact absurd rfl hf
  | pi =>
    simp only [wd_sel, selPi]
    by_cases ha : g.ea = 0 <;> simp only [ha, if_true, if_false] <;> (repeat' split) <;>
      (try simp only [wd_fld_lastFlag]) <;> simp [Mon.recvF_fld_ne]
  | pty =>
    simp only [wd_sel, selPty]
    by_cases hb : g.eb = 0 <;> simp only [hb, if_true, if_false] <;> (repeat' split) <;>
      (try simp only [wd_fld_lastFlag]) <;> simp [Mon.recvF_fld_ne]
  | tp =>
    simp only [wd_sel, selTp]
    by_cases hb : g.eb = 0 <;> simp only [hb, if_true, if_false] <;> (repeat' split) <;>
      (try simp only [wd_fld_lastFlag]) <;> simp [Mon.recvF_fld_ne]
  | ta =>
    simp only [wd_sel, selTa]
    by_cases h0 : g.type = 0 <;> by_cases hb : g.eb = 0 <;>
      simp only [h0, hb, if_true, if_false, and_self, and_true, and_false] <;>
      (repeat' split) <;> (try simp only [wd_fld_lastFlag]) <;> simp [Mon.recvF_fld_ne]
  | ms =>
    simp only [wd_sel, selMs]
    by_cases h0 : g.type = 0 <;> by_cases hb : g.eb = 0 <;>
      simp only [h0, hb, if_true, if_false, and_self, and_true, and_false] <;>
      (repeat' split) <;> (try simp only [wd_fld_lastFlag]) <;> simp [Mon.recvF_fld_ne]
  | ecc =>
    simp only [wd_sel, selEcc]
    by_cases h1 : g.type = 1
    · have h0 : ¬ g.type = 0 := by omega
      by_cases hv : g.versionB = false <;> by_cases hb : g.eb = 0 <;> by_cases hc : g.ec = 0 <;>
        by_cases hd : g.c / 4096 % 8 = 0 <;> by_cases ha : g.ea = 0 <;>
        simp [h1, hv, hb, hc, hd, ha, Mon.recvF_fld_ne]
    · simp only [h1, false_and, if_false]
      (repeat' split) <;> (try simp only [wd_fld_lastFlag]) <;> simp [Mon.recvF_fld_ne]

end group

/-! ## reception counts -/

theorem wd_afRecv_len (m : Mon) (w : Nat) : (m.afRecv w).afCount.length = m.afCount.length := by
  unfold Mon.afRecv; split <;> simp

theorem wd_afRecv_getD (m : Mon) (w v : Nat) (hv : afValid v = true) (hl : m.afCount.length = afBits) :
    (m.afRecv w).afCount.getD v 0 = m.afCount.getD v 0 + (if w = v then 1 else 0) := by
  have hvl : v < m.afCount.length := by rw [hl]; exact afValid_lt hv
  by_cases hwv : w = v
  · subst hwv
    rw [Mon.afRecv_afCount _ _ hv, getD_set_self _ _ _ _ hvl]
    simp
  · cases hw : afValid w
    · rw [Mon.afRecv_invalid _ _ hw]; simp [hwv]
    · rw [Mon.afRecv_afCount _ _ hw, getD_set_ne _ _ _ _ _ hwv]; simp [hwv]

theorem wd_common_afCount (m : Mon) (g : Group) : (m.common g).afCount = m.afCount := by
  unfold Mon.common
  simp only []
  repeat' split
  all_goals simp

theorem wd_filter_two (a b v : Nat) :
    (([a, b] : List Nat).filter (· == v)).length = (if a = v then 1 else 0) + (if b = v then 1 else 0) := by
  by_cases ha : a = v <;> by_cases hb : b = v <;> simp [ha, hb]

theorem wd_group_afCount (cfg : Cfg) (m : Mon) (g : Group) (v : Nat) (hv : afValid v = true)
    (hl : m.afCount.length = afBits) :
    (m.group cfg g).afCount.getD v 0 = m.afCount.getD v 0 + ((afCodes g).filter (· == v)).length ∧
    (m.group cfg g).afCount.length = afBits := by
  rw [Mon.group_eq]
  have hc := wd_common_afCount m g
  have hl' : (m.common g).afCount.length = afBits := by rw [hc]; exact hl
  generalize m.common g = m' at hc hl'
  rw [← hc]
  unfold Mon.disp
  by_cases h0 : g.type = 0
  · simp only [h0, if_true]
    unfold Mon.g0 afCodes
    simp only [h0, true_and]
    have e1 : (if g.eb = 0 then (m'.recvF .ta (g.b / 16 % 2 : Nat)).recvF .ms (g.b / 8 % 2 : Nat) else m').afCount
        = m'.afCount := by split <;> simp
    generalize (if g.eb = 0 then (m'.recvF .ta (g.b / 16 % 2 : Nat)).recvF .ms (g.b / 8 % 2 : Nat) else m') = m1
      at e1
    have hl1 : m1.afCount.length = afBits := by rw [e1]; exact hl'
    have hgb : (!g.versionB && decide (g.eb = 0) && decide (g.ec = 0) && g.c / 256 % 256 != 250) = true ↔
        (g.versionB = false ∧ g.eb = 0 ∧ g.ec = 0 ∧ g.c / 256 % 256 ≠ 250) := by simp [and_assoc]
    simp only [hgb]
    by_cases hgate : g.versionB = false ∧ g.eb = 0 ∧ g.ec = 0 ∧ g.c / 256 % 256 ≠ 250
    · simp only [if_pos hgate]
      have hl2 : (m1.afRecv (g.c / 256 % 256)).afCount.length = afBits := by rw [wd_afRecv_len]; exact hl1
      rw [wd_afRecv_getD _ _ _ hv hl2, wd_afRecv_getD _ _ _ hv hl1, wd_filter_two, wd_afRecv_len, e1]
      exact ⟨by omega, hl2⟩
    · simp only [if_neg hgate, e1]
      exact ⟨by simp, hl'⟩
  · have ec : afCodes g = [] := by simp [afCodes, h0]
    rw [ec]
    simp only [h0, if_false]
    have e2 : (if g.type = 1 then Mon.g1 cfg m' g else if g.type = 2 then m'.g2 g else m').afCount = m'.afCount := by
      unfold Mon.g1 Mon.g2
      simp only []
      repeat' split
      all_goals simp
    rw [e2]
    exact ⟨by simp, hl'⟩

/-! ## `Mon.step` -/

theorem wd_step_init (cfg : Cfg) (m : Mon) : m.step cfg .init = Mon.init := rfl
theorem wd_step_clear (cfg : Cfg) (m : Mon) : m.step cfg .clear = m.reset := rfl

theorem wd_step_group (cfg : Cfg) (m : Mon) (op : Op) (g : Group) (hg : op.group? = some g) :
    m.step cfg op = { m.group cfg g with prevGroup := some g } := by
  cases op with
  | parse g' =>
    have : g' = g := Option.some.inj hg
    subst this; rfl
  | parseString b =>
    cases b with
    | none => cases hg
    | some bytes =>
      have hg' : utilsConvert bytes = some g := hg
      simp only [Mon.step, Op.group?, hg']
  | _ => cases hg

theorem wd_prev_fld (m : Mon) (x : Option Group) (f : Fld) : ({ m with prevGroup := x } : Mon).fld f = m.fld f := by
  cases f <;> rfl

/-- an op that delivers nothing and is no reset leaves the reception history alone -/
theorem wd_step_quiet (cfg : Cfg) (m : Mon) (op : Op) (hg : op.group? = none) (h1 : op ≠ .init) (h2 : op ≠ .clear) :
    (∀ f, (m.step cfg op).fld f = m.fld f) ∧ (m.step cfg op).afCount = m.afCount ∧
    ((∀ v, op ≠ .setExt v) → (m.step cfg op).ext = m.ext ∧ (m.step cfg op).clean = m.clean) := by
  cases op with
  | init => exact absurd rfl h1
  | clear => exact absurd rfl h2
  | parse g => cases hg
  | parseString b =>
    cases b with
    | none => exact ⟨fun f => by cases f <;> rfl, rfl, fun _ => ⟨rfl, rfl⟩⟩
    | some bytes =>
      have hg' : utilsConvert bytes = none := hg
      have e : m.step cfg (.parseString (some bytes)) = { m with prevGroup := none } := by
        simp only [Mon.step, Op.group?, hg']
      rw [e]
      exact ⟨fun f => by cases f <;> rfl, rfl, fun _ => ⟨rfl, rfl⟩⟩
  | setExt v => exact ⟨fun f => by cases f <;> rfl, rfl, fun h => absurd rfl (h v)⟩
  | _ => exact ⟨fun f => by cases f <;> rfl, rfl, fun _ => ⟨rfl, rfl⟩⟩

theorem wd_step_setExt (cfg : Cfg) (m : Mon) (v : Bool) :
    (m.step cfg (.setExt v)).ext = v ∧
    (m.step cfg (.setExt v)).clean = (m.clean && (decide (v = m.ext) || !m.anyRecv)) := ⟨rfl, rfl⟩

theorem wd_reset_fld (m : Mon) (f : Fld) (hf : f ≠ .country) : m.reset.fld f = ⟨none, -1⟩ := by
  cases f <;> first | rfl | exact absurd rfl hf

theorem wd_init_fld (f : Fld) (hf : f ≠ .country) : Mon.init.fld f = ⟨none, -1⟩ := by
  cases f <;> first | rfl | exact absurd rfl hf

end RDS
