import RdsProofs.C20Base
/-!
# RdsProofs.C20Ascii — instance (A) of the generic simulation: the wide build's texts are the
embedding of the narrow build's texts as long as no byte ≥ 0x7F is presented
-/
namespace RDS

/-- a narrow cell that has never stored a byte ≥ 0x7F -/
def c20_CellA (c : Cell) : Prop := c.ch = 0 ∨ (0x20 ≤ c.ch ∧ c.ch ≤ 0x7E)

def c20_TA (cfg : Cfg) (tn tw : Text) : Prop := tw = embedText cfg tn ∧ ∀ c ∈ tn, c20_CellA c

def c20_WA (w : Nat) : Prop := w / 256 % 256 < 0x7F ∧ w % 256 < 0x7F

def c20_ELA (cfg : Cfg) (evn evw : List Event) : Prop :=
  evn.map (fun e => (e.kind, e.ud, embedState cfg e.snap)) = evw.map (fun e => (e.kind, e.ud, e.snap))

theorem c20_embedCell_lvl (cfg : Cfg) (c : Cell) : (embedCell cfg c).lvl = c.lvl := by
  unfold embedCell; split <;> rfl

theorem c20_embedCell_blank (cfg : Cfg) (h : G0Ascii cfg) : embedCell cfg blank = blank := by
  unfold embedCell blank
  simp only [show ¬ (32 = 0) by decide, if_false]
  rw [h.1]

theorem c20_cellA_blank : c20_CellA blank := Or.inr ⟨Nat.le_refl _, by decide⟩

/-- the stored character of a byte < 0x7F that passes the control-code test -/
theorem c20_conv_narrow (cfg : Cfg) (b : Nat) (_h1 : ¬ (b ≠ 0x0D ∧ b < 0x20)) (h2 : b < 0x7F) :
    conv cfg.narrow b = if b = 0x0D then 0 else b := by
  unfold conv Cfg.narrow
  by_cases hb : b = 0x0D
  · simp [hb]
  · have : ¬ 0x7F ≤ b := by omega
    simp [hb, this]

theorem c20_conv_wide (cfg : Cfg) (b : Nat) (h1 : ¬ (b ≠ 0x0D ∧ b < 0x20)) :
    conv cfg.wide b = if b = 0x0D then 0 else cfg.g0 b := by
  unfold conv Cfg.wide
  by_cases hb : b = 0x0D
  · simp [hb]
  · have : ¬ b < 0x20 := fun h => h1 ⟨hb, h⟩
    simp [hb, this]

theorem c20_embed_conv (cfg : Cfg) (b e : Nat) (h1 : ¬ (b ≠ 0x0D ∧ b < 0x20)) (h2 : b < 0x7F) :
    embedCell cfg ⟨conv cfg.narrow b, e⟩ = ⟨conv cfg.wide b, e⟩ := by
  rw [c20_conv_narrow cfg b h1 h2, c20_conv_wide cfg b h1]
  unfold embedCell
  by_cases hb : b = 0x0D
  · simp [hb]
  · have : b ≠ 0 := by omega
    simp [hb, this]

theorem c20_conv_cellA (cfg : Cfg) (b e : Nat) (h1 : ¬ (b ≠ 0x0D ∧ b < 0x20)) (h2 : b < 0x7F) :
    c20_CellA ⟨conv cfg.narrow b, e⟩ := by
  rw [c20_conv_narrow cfg b h1 h2]
  unfold c20_CellA
  by_cases hb : b = 0x0D
  · simp [hb]
  · simp only [hb, if_false]; omega

/-- the same-data test agrees -/
theorem c20_same_iff (cfg : Cfg) (h : G0Ascii cfg) (c : Cell) (hc : c20_CellA c) (b : Nat)
    (h1 : ¬ (b ≠ 0x0D ∧ b < 0x20)) (h2 : b < 0x7F) :
    (embedCell cfg c).ch = conv cfg.wide b ↔ c.ch = conv cfg.narrow b := by
  rw [c20_conv_narrow cfg b h1 h2, c20_conv_wide cfg b h1]
  unfold embedCell
  by_cases hb : b = 0x0D
  · simp only [hb, if_true]
    by_cases h0 : c.ch = 0
    · simp [h0]
    · simp only [h0, if_false]
      rcases hc with hc | hc
      · exact absurd hc h0
      · exact ⟨fun e => absurd e (h.2.1 c.ch hc.1 hc.2), fun e => e.elim⟩
  · simp only [hb, if_false]
    have hb20 : 0x20 ≤ b := by omega
    have hb7e : b ≤ 0x7E := by omega
    by_cases h0 : c.ch = 0
    · simp only [h0, if_true]
      exact ⟨fun e => absurd e.symm (h.2.1 b hb20 hb7e), fun e => by omega⟩
    · simp only [h0, if_false]
      rcases hc with hc | hc
      · exact absurd hc h0
      · exact ⟨fun e => h.2.2 c.ch b hc.1 hc.2 hb20 hb7e e, fun e => by rw [e]⟩

theorem c20_updateSingle_A (cfg : Cfg) (h : G0Ascii cfg) (t : Text) (ht : ∀ c ∈ t, c20_CellA c)
    (b ei ed pos : Nat) (prog : Bool) (hb : b < 0x7F) :
    updateSingle cfg.wide (embedText cfg t) b ei ed pos prog =
      (embedText cfg (updateSingle cfg.narrow t b ei ed pos prog).1, (updateSingle cfg.narrow t b ei ed pos prog).2) ∧
    ∀ c ∈ (updateSingle cfg.narrow t b ei ed pos prog).1, c20_CellA c := by
  have hg : (embedText cfg t)[pos]? = t[pos]?.map (embedCell cfg) := by
    unfold embedText; exact List.getElem?_map
  cases hc : t[pos]? with
  | none =>
    rw [hc] at hg
    rw [c20_updateSingle_none _ _ _ _ _ _ _ hc, c20_updateSingle_none _ _ _ _ _ _ _ hg]
    exact ⟨rfl, ht⟩
  | some cell =>
    rw [hc] at hg
    have hcell : c20_CellA cell := ht cell (List.mem_of_getElem? hc)
    rw [c20_updateSingle_some _ _ _ _ _ _ _ _ hc, c20_updateSingle_some _ _ _ _ _ _ _ _ hg, c20_embedCell_lvl]
    by_cases c1 : c20_pre cell.lvl b ei ed prog = true
    · rw [if_pos c1, if_pos c1]; exact ⟨rfl, ht⟩
    · rw [if_neg c1, if_neg c1]
      have h1 : ¬ (b ≠ 0x0D ∧ b < 0x20) := by
        intro hh
        apply c1
        unfold c20_pre
        simp [hh.1, hh.2]
      have hsame := c20_same_iff cfg h cell hcell b h1 hb
      by_cases c5 : cell.ch = conv cfg.narrow b ∧ cell.lvl ≤ calcError ei ed
      · have c5' : (embedCell cfg cell).ch = conv cfg.wide b ∧ cell.lvl ≤ calcError ei ed := ⟨hsame.mpr c5.1, c5.2⟩
        rw [if_pos c5, if_pos c5']; exact ⟨rfl, ht⟩
      · have c5' : ¬ ((embedCell cfg cell).ch = conv cfg.wide b ∧ cell.lvl ≤ calcError ei ed) :=
          fun e => c5 ⟨hsame.mp e.1, e.2⟩
        rw [if_neg c5, if_neg c5']
        refine ⟨?_, ?_⟩
        · show _ = (embedText cfg (t.set pos _), _)
          unfold embedText
          rw [List.map_set, c20_embed_conv cfg b _ h1 hb]
        · intro c hm
          rcases List.mem_or_eq_of_mem_set hm with hm | hm
          · exact ht c hm
          · rw [hm]; exact c20_conv_cellA cfg b _ h1 hb

theorem c20_updateString_A (cfg : Cfg) (h : G0Ascii cfg) (t : Text) (ht : ∀ c ∈ t, c20_CellA c)
    (w ei ed pos : Nat) (prog : Bool) (hw : c20_WA w) :
    updateString cfg.wide (embedText cfg t) w ei ed pos prog =
      (embedText cfg (updateString cfg.narrow t w ei ed pos prog).1, (updateString cfg.narrow t w ei ed pos prog).2) ∧
    ∀ c ∈ (updateString cfg.narrow t w ei ed pos prog).1, c20_CellA c := by
  unfold updateString
  have a1 := c20_updateSingle_A cfg h t ht (w / 256 % 256) ei ed pos prog hw.1
  have a2 := c20_updateSingle_A cfg h _ a1.2 (w % 256) ei ed (pos + 1) prog hw.2
  simp only [a1.1, a2.1]
  exact ⟨trivial, a2.2⟩

theorem c20_parserUpdate_A (cfg : Cfg) (h : G0Ascii cfg) (set : Settings) (t : Text) (ht : ∀ c ∈ t, c20_CellA c)
    (id : TextId) (w eb ex pos : Nat) (hw : c20_WA w) :
    parserUpdate cfg.wide set (embedText cfg t) id w eb ex pos =
      (embedText cfg (parserUpdate cfg.narrow set t id w eb ex pos).1, (parserUpdate cfg.narrow set t id w eb ex pos).2) ∧
    ∀ c ∈ (parserUpdate cfg.narrow set t id w eb ex pos).1, c20_CellA c := by
  unfold parserUpdate
  split
  · exact c20_updateString_A cfg h t ht w eb ex pos _ hw
  · exact ⟨rfl, ht⟩

/-- related states: the wide one is the embedding of the narrow one -/
theorem c20_RA_eq {cfg : Cfg} {P : Settings → Prop} {sn sw : State} (h : c20_R (c20_TA cfg) P sn sw) :
    sw = embedState cfg sn := by
  cases sn; cases sw
  have h1 := h.used; have h2 := h.temp; have h3 := h.set; have h4 := h.lastRt; have h5 := h.cbs
  have h6 := h.ud; have h7 := h.termPs; have h8 := h.termRt0; have h9 := h.termRt1; have h10 := h.termPtyn
  have h11 := h.ps.1; have h12 := h.rt0.1; have h13 := h.rt1.1; have h14 := h.ptyn.1
  simp only at h1 h2 h3 h4 h5 h6 h7 h8 h9 h10 h11 h12 h13 h14
  subst h1 h2 h3 h4 h5 h6 h7 h8 h9 h10 h11 h12 h13 h14
  rfl

theorem c20_ela_emit {cfg : Cfg} {P : Settings → Prop} {sn sw : State} (c : Cb) (k : EvKind)
    (h : c20_R (c20_TA cfg) P sn sw) : c20_ELA cfg (emit sn c k) (emit sw c k) := by
  have hreg : sw.registered c = sn.registered c := by unfold State.registered; rw [h.cbs]
  unfold emit c20_ELA
  rw [hreg]
  cases sn.registered c
  · rfl
  · simp only [if_true, List.map_cons, List.map_nil]
    rw [← c20_RA_eq h, h.ud]

theorem c20_ax_A (cfg : Cfg) (h : G0Ascii cfg) :
    c20_Ax cfg.narrow cfg.wide (c20_TA cfg) (fun _ => True) c20_WA Eq (c20_ELA cfg) where
  ecc := rfl
  el_nil := rfl
  el_app := by
    intro a a' b b' h1 h2
    unfold c20_ELA at *
    rw [List.map_append, List.map_append, h1, h2]
  el_emit := fun c k hR _ => c20_ela_emit c k hR
  el_text := by
    intro sn sw c k f f' hR _ hf
    subst hf
    cases f
    · exact rfl
    · exact c20_ela_emit c k hR
  fr_refl := fun _ => rfl
  fr_or := by intro a a' b b' h1 h2; rw [h1, h2]
  pu := by
    intro tn tw set id w eb ex pos ht _ hw
    have := c20_parserUpdate_A cfg h set tn ht.2 id w eb ex pos hw
    rw [ht.1, this.1]
    exact ⟨⟨rfl, this.2⟩, rfl⟩
  avail := by
    intro t t' ht
    rw [ht.1]
    unfold getAvailable embedText
    rw [List.any_map]
    congr 1
    funext c
    simp only [Function.comp, c20_embedCell_lvl]
  cleared := by
    intro t t' ht
    refine ⟨?_, ?_⟩
    · rw [ht.1]
      unfold Text.cleared embedText
      rw [List.map_map, List.map_map]
      congr 1
      funext c
      simp only [Function.comp, c20_embedCell_blank cfg h]
    · intro c hc
      unfold Text.cleared at hc
      rcases List.mem_map.mp hc with ⟨_, _, rfl⟩
      exact c20_cellA_blank
  init := by
    intro n
    refine ⟨?_, ?_⟩
    · unfold embedText
      rw [List.map_replicate, c20_embedCell_blank cfg h]
    · intro c hc
      rw [List.eq_of_mem_replicate hc]
      exact c20_cellA_blank
  p_init := trivial
  p_ext := fun _ _ _ => trivial
  p_corr := fun _ _ _ _ _ => trivial
  p_prog := fun _ _ _ _ => trivial

/-- `asciiOnly` gives the word conditions of the generic simulation -/
theorem c20_gw_of_asciiOnly (g : Group) (h : g.asciiOnly = true) : c20_GW c20_WA g := by
  unfold Group.asciiOnly addressed at h
  refine ⟨?_, ?_, ?_⟩
  · intro h0
    simp only [h0, if_true, List.all_cons, List.all_nil, Bool.and_true, Bool.and_eq_true, decide_eq_true_eq] at h
    exact h
  · intro h2
    simp only [h2, show ¬ (2 = 0) by decide, if_false, if_true] at h
    cases hv : g.versionB
    · simp only [hv, Bool.false_eq_true, if_false, List.all_cons, List.all_nil, Bool.and_true, Bool.and_eq_true,
        decide_eq_true_eq] at h
      exact ⟨fun _ => ⟨h.1, h.2.1⟩, ⟨h.2.2.1, h.2.2.2⟩⟩
    · simp only [hv, if_true, List.all_cons, List.all_nil, Bool.and_true, Bool.and_eq_true, decide_eq_true_eq] at h
      exact ⟨fun e => (by cases e), h⟩
  · intro h10 hv
    simp only [h10, hv, show ¬ (10 = 0) by decide, show ¬ (10 = 2) by decide, if_false, Bool.not_false,
      Bool.and_true, decide_true, if_true, List.all_cons, List.all_nil, Bool.and_eq_true,
      decide_eq_true_eq] at h
    exact ⟨⟨h.1, h.2.1⟩, ⟨h.2.2.1, h.2.2.2⟩⟩

theorem c20_gw_of_op_asciiOnly (op : Op) (h : op.asciiOnly = true) :
    ∀ g, op.group? = some g → c20_GW c20_WA g := by
  intro g hg
  unfold Op.asciiOnly at h
  rw [hg] at h
  exact c20_gw_of_asciiOnly g h

end RDS
