import RdsModel
import RdsSpec.Monitors
import RdsSpec.Statements
import RdsProofs.Frame
import RdsProofs.CellsSingle
/-!
# RdsProofs.CellsExpected — `expectedText` in terms of `parserUpdate`
-/
namespace RDS

/-- the cell-wise closed form used by `expectedText`, with its inputs made explicit -/
def expCells (cfg : Cfg) (set : Settings) (tid : TextId) (eb : Nat) (old : Text)
    (addr : List (Nat × Nat × Nat × Nat)) : Text :=
  (List.range old.length).map fun i =>
    match addr.find? (fun a => a.2.1 = i) with
    | some (_, _, b, ex) =>
      cellSpec cfg (set.corr tid .info) (set.corr tid .data) (set.prog tid) (old.getD i blank) b eb ex
    | none => old.getD i blank

theorem expectedText_eq (cfg : Cfg) (m : Mon) (before : Obs) (g : Group) (t : Nat) :
    expectedText cfg m before g t =
      expCells cfg before.set (textIdOf t) g.eb
        (if switchDiscard m before g && t = 1 + g.b / 16 % 2 then (before.text t).cells.cleared
          else (before.text t).cells)
        (if rtNoisy m g then [] else (addressed g).filter (fun a => a.1 = t)) := rfl

theorem getD_eq_getElem' (t : Text) (i : Nat) (h : i < t.length) : t.getD i blank = t[i] := by
  rw [List.getD_eq_getElem?_getD, List.getElem?_eq_getElem h]; rfl

theorem eq_expCells (cfg : Cfg) (set : Settings) (tid : TextId) (eb : Nat) (new old : Text)
    (addr : List (Nat × Nat × Nat × Nat)) (hlen : new.length = old.length)
    (h : ∀ i, i < old.length → new.getD i blank =
      match addr.find? (fun a => a.2.1 = i) with
      | some (_, _, b, ex) =>
        cellSpec cfg (set.corr tid .info) (set.corr tid .data) (set.prog tid) (old.getD i blank) b eb ex
      | none => old.getD i blank) :
    new = expCells cfg set tid eb old addr := by
  apply List.ext_getElem
  · simp [expCells, hlen]
  · intro i h1 h2
    have hi : i < old.length := by omega
    rw [← getD_eq_getElem' new i h1, h i hi]
    simp [expCells]

theorem expCells_nil (cfg : Cfg) (set : Settings) (tid : TextId) (eb : Nat) (old : Text) :
    expCells cfg set tid eb old [] = old := by
  symm
  apply eq_expCells _ _ _ _ _ _ _ rfl
  intro i _
  simp

theorem expCells_two (cfg : Cfg) (set : Settings) (tid : TextId) (eb : Nat) (old : Text)
    (t t' p w ex : Nat) (hp : p + 1 < old.length) :
    expCells cfg set tid eb old [(t, p, w / 256 % 256, ex), (t', p + 1, w % 256, ex)] =
      (parserUpdate cfg set old tid w eb ex p).1 := by
  symm
  apply eq_expCells _ _ _ _ _ _ _ (by simp)
  intro i _
  rw [parserUpdate_getD _ _ _ _ _ _ _ _ hp]
  by_cases h0 : i = p
  · subst h0; simp [List.find?]
  · have h0' : ¬ p = i := fun h => h0 h.symm
    by_cases h1 : i = p + 1
    · subst h1; simp [List.find?]
    · have h1' : ¬ p + 1 = i := fun h => h1 h.symm
      simp [List.find?, h0, h1, h0', h1']

theorem expCells_four (cfg : Cfg) (set : Settings) (tid : TextId) (eb : Nat) (old : Text)
    (t0 t1 t2 t3 p w ex w' ex' : Nat) (hp : p + 3 < old.length) :
    expCells cfg set tid eb old
        [(t0, p, w / 256 % 256, ex), (t1, p + 1, w % 256, ex),
         (t2, p + 2, w' / 256 % 256, ex'), (t3, p + 3, w' % 256, ex')] =
      (parserUpdate cfg set (parserUpdate cfg set old tid w eb ex p).1 tid w' eb ex' (p + 2)).1 := by
  symm
  apply eq_expCells _ _ _ _ _ _ _ (by simp)
  intro i _
  rw [parserUpdate_getD _ _ _ _ _ _ _ _ (by simp; omega)]
  rw [parserUpdate_getD _ _ _ _ _ _ _ _ (by omega), parserUpdate_getD _ _ _ _ _ _ _ _ (by omega),
    parserUpdate_getD _ _ _ _ _ _ _ _ (by omega)]
  by_cases h0 : i = p
  · subst h0; simp [List.find?, Nat.add_assoc]
  · have h0' : ¬ p = i := fun h => h0 h.symm
    by_cases h1 : i = p + 1
    · subst h1; simp [List.find?, Nat.add_assoc]
    · have h1' : ¬ p + 1 = i := fun h => h1 h.symm
      by_cases h2 : i = p + 2
      · subst h2; simp [List.find?]
      · have h2' : ¬ p + 2 = i := fun h => h2 h.symm
        by_cases h3 : i = p + 3
        · subst h3; simp [List.find?, Nat.add_assoc]
        · have h3' : ¬ p + 3 = i := fun h => h3 h.symm
          simp [List.find?, Nat.add_assoc, h0, h1, h2, h3, h0', h1', h2', h3']

end RDS
