import RdsProofs.LinkGroups
/-!
# RdsProofs.LinkProofs — `Link` is an invariant of `step` / `Mon.step`, and the per-call
predicates C01, C09, C10, C11, C15, C17 follow from it
-/
namespace RDS

/-! ## small list facts -/

theorem getD_replicate_lt {α} (n v : Nat) (a d : α) (h : v < n) : (List.replicate n a).getD v d = a := by
  simp [List.getD_eq_getElem?_getD, h]

theorem getD_replicate_same {α} (n v : Nat) (a : α) : (List.replicate n a).getD v a = a := by
  simp only [List.getD_eq_getElem?_getD, List.getElem?_replicate]
  split <;> rfl

theorem cleared_get (f : Fld) : Scalars.cleared.get f = f.unknown := by cases f <;> rfl

theorem cleared_af : Scalars.cleared.af = List.replicate afBits false := rfl

theorem quiet_counts (m : Mon) (h : m.anyRecv = false) (v : Nat) : m.afCount.getD v 0 = 0 := by
  simp only [Mon.anyRecv, Bool.or_eq_false_iff] at h
  have h8 := h.2
  rw [List.getD_eq_getElem?_getD]
  cases hx : m.afCount[v]? with
  | none => rfl
  | some x =>
    have hmem : x ∈ m.afCount := List.mem_of_getElem? hx
    have : (decide (x > 0)) = false := by
      cases hd : decide (x > 0)
      · rfl
      · exfalso
        have : m.afCount.any (· > 0) = true := List.any_eq_true.mpr ⟨x, hmem, hd⟩
        rw [this] at h8; cases h8
    simp only [Option.getD_some]
    simp at this
    exact this

/-! ## reset states -/

theorem link_fresh (m : Mon) (s : State) (hset : m.set = s.set) (hext : m.ext = s.set.ext)
    (hcbs : m.cbs = s.cbs) (hud : m.ud = s.ud) (hlf : m.lastFlag = s.lastRt)
    (hf : ∀ f, m.fld f = ⟨none, f.unknown⟩) (hc : m.afCount = List.replicate afBits 0)
    (hu : s.used = .cleared) (ht : s.temp = .cleared) : Link m s := by
  refine ⟨hset, hext, hcbs, hud, hlf, ?_, ?_, ?_, ?_, ?_⟩
  · rw [hc, List.length_replicate]
  · intro v _
    rw [hc, getD_replicate_same]
  · intro _ f
    rw [hu, ht, hf, cleared_get]
    exact ⟨rfl, fun _ => rfl, fun _ => rfl⟩
  · intro _ v hv
    rw [hu, ht, hc, cleared_af, getD_replicate_lt _ _ _ _ hv, getD_replicate_lt _ _ _ _ hv]
    cases s.set.ext <;> simp
  · intro _
    refine ⟨fun f => ⟨?_, ?_, ?_, ?_⟩, ?_, ?_⟩
    · rw [hu, cleared_get]
    · rw [ht, cleared_get]
    · rw [hf]
    · rw [hf]
    · rw [hu]; rfl
    · rw [ht]; rfl

theorem Mon.init_fld (f : Fld) : Mon.init.fld f = ⟨none, f.unknown⟩ := by cases f <;> rfl

theorem link_init : Link Mon.init initState :=
  link_fresh Mon.init initState rfl rfl rfl rfl rfl Mon.init_fld rfl rfl rfl

theorem initState_used_af_len : initState.used.af.length = afBits := by
  show (List.replicate afBits false).length = afBits
  rw [List.length_replicate]

theorem initState_temp_af_len : initState.temp.af.length = afBits := by
  show (List.replicate afBits false).length = afBits
  rw [List.length_replicate]

/-! ## changes that do not touch the buffered data -/

theorem link_congr_gen {m m' : Mon} {s s' : State} (h : Link m s)
    (hset : m'.set = s'.set) (hext : m'.ext = s'.set.ext) (hcbs : m'.cbs = s'.cbs)
    (hud : m'.ud = s'.ud) (hlf : m'.lastFlag = s'.lastRt) (hcnt : m'.afCount = m.afCount)
    (hclean : m'.clean = true → m.clean = true) (hfld : ∀ f, m'.fld f = m.fld f)
    (hused : s'.used = s.used) (htemp : s'.temp = s.temp) (hext2 : s'.set.ext = s.set.ext)
    (hany : m'.anyRecv = m.anyRecv) : Link m' s' := by
  refine ⟨hset, hext, hcbs, hud, hlf, ?_, ?_, ?_, ?_, ?_⟩
  · rw [hcnt]; exact h.cntLen
  · rw [hcnt]; exact h.cntInvalid
  · intro hc f
    rw [hext2, hused, htemp, hfld]
    exact h.fields (hclean hc) f
  · intro hc
    rw [hext2, hused, htemp, hcnt]
    exact h.af (hclean hc)
  · intro hq
    rw [hany] at hq
    rw [hused, htemp]
    obtain ⟨q1, q2, q3⟩ := h.quiet hq
    refine ⟨fun f => ?_, q2, q3⟩
    rw [hfld]
    exact q1 f

theorem link_prevGroup {m : Mon} {s : State} (x : Option Group) (h : Link m s) :
    Link { m with prevGroup := x } s :=
  link_congr_gen h h.set h.ext h.cbs h.ud h.lastFlag rfl id (fun f => by cases f <;> rfl)
    rfl rfl rfl rfl

theorem Settings.setCorr_ext (x : Settings) (t : TextId) (k : BlockType) (v : Nat) :
    (x.setCorr t k v).ext = x.ext := by cases t <;> cases k <;> rfl

theorem Settings.setProg_ext (x : Settings) (t : TextId) (v : Bool) :
    (x.setProg t v).ext = x.ext := by cases t <;> rfl

theorem link_setExt {m : Mon} {s : State} (v : Bool) (h : Link m s) :
    Link { m with ext := v, clean := m.clean && (v = m.ext || !m.anyRecv), set := { m.set with ext := v } }
      { s with set := { s.set with ext := v } } := by
  refine ⟨?_, rfl, h.cbs, h.ud, h.lastFlag, h.cntLen, h.cntInvalid, ?_, ?_, ?_⟩
  · show ({ m.set with ext := v } : Settings) = { s.set with ext := v }
    rw [h.set]
  · intro hc f
    have hc : (m.clean && (decide (v = m.ext) || !m.anyRecv)) = true := hc
    simp only [Bool.and_eq_true, Bool.or_eq_true, decide_eq_true_eq, Bool.not_eq_true'] at hc
    obtain ⟨hcl, hv | hq⟩ := hc
    · have hv' : v = s.set.ext := hv.trans h.ext
      show FInv v f.unknown (s.used.get f) (s.temp.get f) (m.fld f)
      rw [hv']
      exact h.fields hcl f
    · obtain ⟨q1, _, _⟩ := h.quiet hq
      obtain ⟨a, b, c, d⟩ := q1 f
      show FInv v f.unknown (s.used.get f) (s.temp.get f) (m.fld f)
      exact ⟨by rw [a, d], fun _ => by rw [b, c]; rfl, fun _ => d⟩
  · intro hc
    have hc : (m.clean && (decide (v = m.ext) || !m.anyRecv)) = true := hc
    simp only [Bool.and_eq_true, Bool.or_eq_true, decide_eq_true_eq, Bool.not_eq_true'] at hc
    obtain ⟨hcl, hv | hq⟩ := hc
    · have hv' : v = s.set.ext := hv.trans h.ext
      show AfLink v s.used.af s.temp.af m.afCount
      rw [hv']
      exact h.af hcl
    · obtain ⟨_, q2, q3⟩ := h.quiet hq
      show AfLink v s.used.af s.temp.af m.afCount
      intro w hw
      rw [q2, q3, quiet_counts m hq, getD_replicate_lt _ _ _ _ hw]
      cases v <;> simp
  · exact h.quiet

/-! ## the step -/

theorem linkL_step (cfg : Cfg) (m : Mon) (s : State) (op : Op) (h : LinkL m s) :
    LinkL (m.step cfg op) (step cfg s op).1 := by
  obtain ⟨hl, hu, ht⟩ := h
  cases op with
  | init =>
    exact ⟨link_prevGroup none link_init, initState_used_af_len, initState_temp_af_len⟩
  | clear =>
    refine ⟨link_prevGroup none ?_, ?_, ?_⟩
    · exact link_fresh m.reset (clearState s) hl.set hl.ext hl.cbs hl.ud rfl
        (fun f => by cases f <;> rfl) rfl rfl rfl
    · exact initState_used_af_len
    · exact initState_temp_af_len
  | parse g =>
    have h2 := linkL_process cfg m s g ⟨hl, hu, ht⟩
    exact ⟨link_prevGroup (some g) h2.1, h2.2.1, h2.2.2⟩
  | parseString b =>
    cases b with
    | none => exact ⟨link_prevGroup none hl, hu, ht⟩
    | some bytes =>
      cases hg : utilsConvert bytes with
      | none =>
        simp only [step, Mon.step, Op.group?, hg]
        exact ⟨link_prevGroup none hl, hu, ht⟩
      | some g =>
        simp only [step, Mon.step, Op.group?, hg]
        have h2 := linkL_process cfg m s g ⟨hl, hu, ht⟩
        exact ⟨link_prevGroup (some g) h2.1, h2.2.1, h2.2.2⟩
  | setExt v => exact ⟨link_prevGroup none (link_setExt v hl), hu, ht⟩
  | setCorr t k v =>
    refine ⟨link_prevGroup none ?_, hu, ht⟩
    refine link_congr_gen hl ?_ ?_ hl.cbs hl.ud hl.lastFlag rfl id (fun f => by cases f <;> rfl)
      rfl rfl ?_ rfl
    · show m.set.setCorr t k v = s.set.setCorr t k v
      rw [hl.set]
    · show m.ext = (s.set.setCorr t k v).ext
      rw [Settings.setCorr_ext]; exact hl.ext
    · exact Settings.setCorr_ext _ _ _ _
  | setProg t v =>
    refine ⟨link_prevGroup none ?_, hu, ht⟩
    refine link_congr_gen hl ?_ ?_ hl.cbs hl.ud hl.lastFlag rfl id (fun f => by cases f <;> rfl)
      rfl rfl ?_ rfl
    · show m.set.setProg t v = s.set.setProg t v
      rw [hl.set]
    · show m.ext = (s.set.setProg t v).ext
      rw [Settings.setProg_ext]; exact hl.ext
    · exact Settings.setProg_ext _ _ _
  | register c on =>
    refine ⟨link_prevGroup none ?_, hu, ht⟩
    refine link_congr_gen hl hl.set hl.ext ?_ hl.ud hl.lastFlag rfl id (fun f => by cases f <;> rfl)
      rfl rfl rfl rfl
    show m.cbs.set c.idx on = s.cbs.set c.idx on
    rw [hl.cbs]
  | userData n =>
    refine ⟨link_prevGroup none ?_, hu, ht⟩
    exact link_congr_gen hl hl.set hl.ext hl.cbs rfl hl.lastFlag rfl id (fun f => by cases f <;> rfl)
      rfl rfl rfl rfl
  | getters => exact ⟨link_prevGroup none hl, hu, ht⟩

theorem link_step (tb : Tabs) (m : Mon) (s : State) (op : Op) (hl : Link m s) (hw : WF tb s) :
    Link (m.step tb.cfg op) (step tb.cfg s op).1 :=
  (linkL_step tb.cfg m s op (linkL_of_WF hl hw)).1

/-! ## the predicates, from `Link` of the successor -/

theorem afMatches_of_link {m' : Mon} {s' : State} (h : Link m' s') (hc : m'.clean = true)
    (hlen : s'.used.af.length = afBits) : afMatches m' s'.used.af = true := by
  unfold afMatches
  simp only [Bool.and_eq_true, beq_iff_eq, List.all_eq_true]
  refine ⟨⟨hlen, h.cntLen⟩, ?_⟩
  intro b hb
  rw [List.mem_iff_getElem] at hb
  obtain ⟨i, hi, rfl⟩ := hb
  simp only [List.length_zipWith, hlen, h.cntLen, Nat.min_self] at hi
  have h1 : i < s'.used.af.length := by rw [hlen]; exact hi
  have h2 : i < m'.afCount.length := by rw [h.cntLen]; exact hi
  have := (h.af hc i hi).1
  rw [List.getD_eq_getElem?_getD, List.getD_eq_getElem?_getD, List.getElem?_eq_getElem h1,
    List.getElem?_eq_getElem h2, h.ext.symm] at this
  simp only [Option.getD_some] at this
  simp only [List.getElem_zipWith, id, beq_iff_eq]
  exact this

theorem vis_of_link {m' : Mon} {s' : State} (h : Link m' s') (hc : m'.clean = true) (f : Fld) :
    s'.used.get f = (m'.fld f).vis := (h.fields hc f).1

theorem chkC01_of_link {m' : Mon} {s' : State} (r : StepRec) (hr : r.after = Obs.ofState s')
    (h : Link m' s') : chkC01 m' r = true := by
  unfold chkC01
  cases hc : m'.clean
  · rfl
  · have e1 : s'.used.pi = m'.pi.vis := vis_of_link h hc .pi
    have e2 : s'.used.pty = m'.pty.vis := vis_of_link h hc .pty
    have e3 : s'.used.tp = m'.tp.vis := vis_of_link h hc .tp
    have e4 : s'.used.ta = m'.ta.vis := vis_of_link h hc .ta
    have e5 : s'.used.ms = m'.ms.vis := vis_of_link h hc .ms
    rw [hr]
    simp [Obs.ofState, e1, e2, e3, e4, e5]

theorem chkC09_of_link {m' : Mon} {s' : State} (r : StepRec) (hr : r.after = Obs.ofState s')
    (h : Link m' s') (hlen : s'.used.af.length = afBits) : chkC09 m' r = true := by
  unfold chkC09
  cases hc : m'.clean
  · rfl
  · have e1 : s'.used.pi = m'.pi.vis := vis_of_link h hc .pi
    have e2 : s'.used.pty = m'.pty.vis := vis_of_link h hc .pty
    have e3 : s'.used.tp = m'.tp.vis := vis_of_link h hc .tp
    have e4 : s'.used.ta = m'.ta.vis := vis_of_link h hc .ta
    have e5 : s'.used.ms = m'.ms.vis := vis_of_link h hc .ms
    have e6 : s'.used.ecc = m'.ecc.vis := vis_of_link h hc .ecc
    have e7 : s'.used.country = m'.country.vis := vis_of_link h hc .country
    have e8 := afMatches_of_link h hc hlen
    rw [hr]
    have e9 : (Obs.ofState s').sc = s'.used := rfl
    rw [e9, e8]
    simp [e1, e2, e3, e4, e5, e6, e7]

theorem chkC10_of_link {m' : Mon} {s' : State} (r : StepRec) (hr : r.after = Obs.ofState s')
    (h : Link m' s') (hlen : s'.used.af.length = afBits) : chkC10 m' r = true := by
  unfold chkC10
  cases hc : m'.clean
  · rfl
  · have e8 := afMatches_of_link h hc hlen
    rw [hr]
    have e9 : (Obs.ofState s').sc = s'.used := rfl
    rw [e9, e8]
    rfl

theorem chkC11_of_link {tb : Tabs} {m' : Mon} {s' : State} (r : StepRec) (hr : r.after = Obs.ofState s')
    (h : Link m' s') (hw' : WF tb s') : chkC11 tb m' r = true := by
  unfold chkC11
  rw [hr]
  have e9 : (Obs.ofState s').sc = s'.used := rfl
  rw [e9]
  have hw1 := hw'.country.1
  have hw2 := hw'.country.2
  cases hc : m'.clean
  · simp [hw1, hw2]
  · have e6 : s'.used.ecc = m'.ecc.vis := vis_of_link h hc .ecc
    have e7 : s'.used.country = m'.country.vis := vis_of_link h hc .country
    rw [e7] at hw1 hw2
    simp [e6, e7, hw1, hw2]

/-! ## the requested theorems -/

theorem chkC01_ok (tb : Tabs) (m : Mon) (s : State) (op : Op) (hl : Link m s) (hw : WF tb s) :
    chkC01 (m.step tb.cfg op) (recOf tb.cfg s op) = true :=
  chkC01_of_link _ rfl (link_step tb m s op hl hw)

theorem chkC09_ok (tb : Tabs) (m : Mon) (s : State) (op : Op) (hl : Link m s) (hw : WF tb s) :
    chkC09 (m.step tb.cfg op) (recOf tb.cfg s op) = true :=
  have h := linkL_step tb.cfg m s op (linkL_of_WF hl hw)
  chkC09_of_link _ rfl h.1 h.2.1

theorem chkC10_ok (tb : Tabs) (m : Mon) (s : State) (op : Op) (hl : Link m s) (hw : WF tb s) :
    chkC10 (m.step tb.cfg op) (recOf tb.cfg s op) = true :=
  have h := linkL_step tb.cfg m s op (linkL_of_WF hl hw)
  chkC10_of_link _ rfl h.1 h.2.1

/-- `hw'` is well-formedness of the successor state (proved elsewhere) -/
theorem chkC11_ok (tb : Tabs) (m : Mon) (s : State) (op : Op) (hl : Link m s) (hw : WF tb s)
    (hw' : WF tb (step tb.cfg s op).1) :
    chkC11 tb (m.step tb.cfg op) (recOf tb.cfg s op) = true :=
  chkC11_of_link _ rfl (link_step tb m s op hl hw) hw'

theorem chkC17_ok (tb : Tabs) (m : Mon) (s : State) (op : Op) (hl : Link m s) (hw : WF tb s) :
    chkC17 (m.step tb.cfg op) (recOf tb.cfg s op) = true := by
  have h := (link_step tb m s op hl hw).set
  have hset : ((step tb.cfg s op).1.set == (m.step tb.cfg op).set) = true := by
    rw [h]; exact beq_self_eq_true _
  have hframe : (!op.isSetter || (({ Obs.ofState (step tb.cfg s op).1 with set := (Obs.ofState s).set } : Obs) == Obs.ofState s &&
      ((step tb.cfg s op).2.1.map EvObs.ofEvent).isEmpty)) = true := by
    cases op <;> simp [Op.isSetter, step, Obs.ofState]
  unfold chkC17
  show (((step tb.cfg s op).1.set == (m.step tb.cfg op).set) && _) = true
  rw [hset, Bool.true_and]
  exact hframe

/-! ## C15 -/

/-- the events of one call -/
theorem step_events_ok (cfg : Cfg) (s : State) (op : Op) :
    ∀ e ∈ (step cfg s op).2.1, EvOk s.cbs s.ud e := by
  cases op with
  | parse g => exact (pres_process cfg s g).2.2
  | parseString b =>
    cases b with
    | none => intro e he; cases he
    | some bytes =>
      cases hg : utilsConvert bytes with
      | none => simp only [step, hg]; intro e he; cases he
      | some g => simp only [step, hg]; exact (pres_process cfg s g).2.2
  | _ => intro e he; cases he

set_option linter.unusedVariables false in
theorem chkC15_ok (tb : Tabs) (m : Mon) (s : State) (op : Op) (hl : Link m s) (hw : WF tb s) :
    chkC15 m (recOf tb.cfg s op) = true := by
  unfold chkC15
  rw [Bool.and_eq_true]
  constructor
  · rw [List.all_eq_true]
    intro eo heo
    have heo : eo ∈ ((step tb.cfg s op).2.1.map EvObs.ofEvent) := heo
    rw [List.mem_map] at heo
    obtain ⟨e, he, rfl⟩ := heo
    obtain ⟨h1, h2⟩ := step_events_ok tb.cfg s op e he
    have k1 : (EvObs.ofEvent e).kind = e.kind := rfl
    have k2 : (EvObs.ofEvent e).ud = e.ud := rfl
    have k3 : (EvObs.ofEvent e).handleOk = true := rfl
    rw [k1, k2, k3, hl.cbs, hl.ud, h1, h2]
    simp
  · cases op <;> first | rfl | (simp [recOf, step] <;> rfl)

end RDS

#print axioms RDS.link_init
#print axioms RDS.link_step
#print axioms RDS.chkC01_ok
#print axioms RDS.chkC09_ok
#print axioms RDS.chkC10_ok
#print axioms RDS.chkC11_ok
#print axioms RDS.chkC17_ok
#print axioms RDS.chkC15_ok
