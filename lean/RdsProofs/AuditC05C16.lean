import RdsProofs.Reach
import RdsProofs.C05Proofs
import RdsProofs.CellsProofs
import RdsProofs.WordedProofs
import RdsProofs.ExtraC07
/-!
# RdsProofs.AuditC05C16 — audit gaps of C05 (logic part) and C16 (availability ⇔ received)

## C05
`updateSingle` has an explicit out-of-range outcome `Store.oob`, but `updateString` / `parserUpdate` / `process`
throw the `Store` results away. `ac5_processS` is an instrumented mirror of `process`: it performs exactly the same
computation (`ac5_process_mirror`) and in addition returns

* the `Store` outcome of every `updateSingle` call, in call order (`ac5_processStores`);
* the index of every AF-bitmap access (`af->buffer[v / 8]`, bit `v % 8`) made by `rdsparser_af_get` / `rdsparser_af_set`
  behind their range check, in call order (`ac5_processAfIdx`).

`C05_no_oob_process`: in every reachable state, for every group (arbitrary natural fields), no `updateSingle` call of
`process` reports `oob`. `C05_af_index_process`: every AF-bitmap access uses a valid code `v` (1..204), hence byte
index `v / 8 < 26`, and `v` is inside both bitmaps of the model. Neither needs a contract on the tables.

## C16
`ac5_received ops t i` reads "cell `i` of text `t` has been received" off the call history alone
(no parser state, no model function): some call after the last reset of that text was an admissible reception addressed to that cell.
`C16_level_received`: the cell's level differs from 10 ("never received") iff `ac5_received`.
-/
-- THEOREM: RDS.ac5_process_mirror
-- THEOREM: RDS.C05_no_oob_process
-- THEOREM: RDS.C05_no_oob_step
-- THEOREM: RDS.C05_af_index_process
-- THEOREM: RDS.C16_level_received
-- THEOREM: RDS.C16_level_received_getElem
-- THEOREM: RDS.C16_level_received_exists
-- THEOREM: RDS.C16_available_received
namespace RDS

/-! # Part (a) — C05: instrumented mirror of `process` -/

/-! ## the string path -/

/-- `updateString`, also returning the outcome of its two `updateSingle` calls -/
def ac5_updateStringS (cfg : Cfg) (t : Text) (w ei ed pos : Nat) (prog : Bool) : (Text × Bool) × List Store :=
  let r1 := updateSingle cfg t (w / 256 % 256) ei ed pos prog
  let r2 := updateSingle cfg r1.1 (w % 256) ei ed (pos + 1) prog
  ((r2.1, r1.2 == .stored || r2.2 == .stored), [r1.2, r2.2])

/-- `parserUpdate`, also returning the outcomes of the `updateSingle` calls it makes -/
def ac5_parserUpdateS (cfg : Cfg) (set : Settings) (t : Text) (id : TextId) (w eb ex pos : Nat) :
    (Text × Bool) × List Store :=
  if eb ≤ set.corr id .info && ex ≤ set.corr id .data then
    ac5_updateStringS cfg t w eb ex pos (set.prog id)
  else ((t, false), [])

theorem ac5_updateStringS_fst (cfg : Cfg) (t : Text) (w ei ed pos : Nat) (prog : Bool) :
    (ac5_updateStringS cfg t w ei ed pos prog).1 = updateString cfg t w ei ed pos prog := rfl

theorem ac5_parserUpdateS_fst (cfg : Cfg) (set : Settings) (t : Text) (id : TextId) (w eb ex pos : Nat) :
    (ac5_parserUpdateS cfg set t id w eb ex pos).1 = parserUpdate cfg set t id w eb ex pos := by
  unfold ac5_parserUpdateS parserUpdate
  split <;> rfl

/-- the recorded outcomes are the ones the library acts on: the "changed" flag of a block is "some call stored" -/
theorem ac5_parserUpdateS_flag (cfg : Cfg) (set : Settings) (t : Text) (id : TextId) (w eb ex pos : Nat) :
    (parserUpdate cfg set t id w eb ex pos).2 =
      (ac5_parserUpdateS cfg set t id w eb ex pos).2.any (· == .stored) := by
  unfold ac5_parserUpdateS parserUpdate
  split
  · simp [ac5_updateStringS, updateString]
  · rfl

/-- both `updateSingle` calls of a block hit existing cells -/
theorem ac5_parserUpdateS_no_oob (cfg : Cfg) (set : Settings) (t : Text) (id : TextId) (w eb ex pos : Nat)
    (hp : pos + 1 < t.length) : Store.oob ∉ (ac5_parserUpdateS cfg set t id w eb ex pos).2 := by
  unfold ac5_parserUpdateS
  split
  · unfold ac5_updateStringS
    simp only [List.mem_cons, List.not_mem_nil, or_false, not_or]
    constructor
    · intro h
      have := ((C05_oob_iff cfg t (w / 256 % 256) eb ex pos (set.prog id)).1.1 h.symm)
      omega
    · intro h
      have := ((C05_oob_iff cfg _ (w % 256) eb ex (pos + 1) (set.prog id)).1.1 h.symm)
      rw [updateSingle_length] at this
      omega
  · simp

/-! ## the AF path -/

/-- `rdsparser_af_get`: result and the bitmap index it reads (none when the range check fails) -/
def ac5_afGetI (af : List Bool) (v : Nat) : Bool × List Nat :=
  if afValid v then (af.getD v false, [v]) else (false, [])

/-- `rdsparser_af_set`: result and the bitmap index it writes (none when the range check fails) -/
def ac5_afSetI (af : List Bool) (v : Nat) : (List Bool × Bool) × List Nat :=
  if afValid v then ((af.set v true, true), [v]) else ((af, false), [])

theorem ac5_afGetI_fst (af : List Bool) (v : Nat) : (ac5_afGetI af v).1 = afGet af v := by
  unfold ac5_afGetI afGet
  cases afValid v <;> rfl

theorem ac5_afSetI_fst (af : List Bool) (v : Nat) : (ac5_afSetI af v).1 = afSet af v := by
  unfold ac5_afSetI afSet
  split <;> rfl

theorem ac5_afGetI_idx (af : List Bool) (v w : Nat) (h : w ∈ (ac5_afGetI af v).2) : afValid w = true := by
  unfold ac5_afGetI at h
  split at h
  · simp only [List.mem_cons, List.not_mem_nil, or_false] at h; subst h; assumption
  · simp at h

theorem ac5_afSetI_idx (af : List Bool) (v w : Nat) (h : w ∈ (ac5_afSetI af v).2) : afValid w = true := by
  unfold ac5_afSetI at h
  split at h
  · simp only [List.mem_cons, List.not_mem_nil, or_false] at h; subst h; assumption
  · simp at h

/-- `rdsparser_add_af` + `rdsparser_buffer_add_af`, also returning the bitmap indices accessed, in C evaluation
order (`data_temp` is consulted only under the extended check: `&&` short-circuits) -/
def ac5_addAfS (s : State) (v : Nat) : (State × List Event) × List Nat :=
  let g1 := ac5_afGetI s.used.af v
  if g1.1 then ((s, []), g1.2)
  else
    let g2 := if s.set.ext then ac5_afGetI s.temp.af v else (false, [])
    if s.set.ext && !g2.1 then
      let w := ac5_afSetI s.temp.af v
      (({ s with temp := { s.temp with af := w.1.1 } }, []), g1.2 ++ g2.2 ++ w.2)
    else
      let w := ac5_afSetI s.used.af v
      let s' := { s with used := { s.used with af := w.1.1 } }
      ((s', if w.1.2 then emit s' .af (.af (87500 + v * 100)) else []), g1.2 ++ g2.2 ++ w.2)

theorem ac5_addAfS_fst (s : State) (v : Nat) : (ac5_addAfS s v).1 = addAf s v := by
  unfold ac5_addAfS addAf
  simp only [ac5_afGetI_fst, ac5_afSetI_fst]
  cases he : s.set.ext
  · simp only [Bool.false_and, Bool.false_eq_true, if_false]
    split <;> rfl
  · simp only [Bool.true_and, if_true, ac5_afGetI_fst]
    split
    · rfl
    · split <;> rfl

theorem ac5_addAfS_idx (s : State) (v w : Nat) (h : w ∈ (ac5_addAfS s v).2) : afValid w = true := by
  have hg2 : w ∈ (if s.set.ext = true then ac5_afGetI s.temp.af v else (false, [])).2 → afValid w = true := by
    intro h2
    split at h2
    · exact ac5_afGetI_idx _ _ _ h2
    · simp at h2
  unfold ac5_addAfS at h
  simp only at h
  by_cases c1 : (ac5_afGetI s.used.af v).1 = true
  · rw [if_pos c1] at h
    exact ac5_afGetI_idx _ _ _ h
  · rw [if_neg c1] at h
    by_cases c2 : (s.set.ext && !(if s.set.ext = true then ac5_afGetI s.temp.af v else (false, [])).1) = true
    · rw [if_pos c2] at h
      simp only [List.mem_append] at h
      rcases h with (h | h) | h
      · exact ac5_afGetI_idx _ _ _ h
      · exact hg2 h
      · exact ac5_afSetI_idx _ _ _ h
    · rw [if_neg c2] at h
      simp only [List.mem_append] at h
      rcases h with (h | h) | h
      · exact ac5_afGetI_idx _ _ _ h
      · exact hg2 h
      · exact ac5_afSetI_idx _ _ _ h

/-! ## the group handlers -/

/-- `group0`, instrumented -/
def ac5_group0S (cfg : Cfg) (s : State) (g : Group) : (State × List Event) × (List Store × List Nat) :=
  let r1 := if g.eb = 0 then
      let a := setField s .ta (g.b / 16 % 2 : Nat)
      let b := setField a.1 .ms (g.b / 8 % 2 : Nat)
      (b.1, a.2 ++ b.2)
    else (s, [])
  let u := ac5_parserUpdateS cfg r1.1.set r1.1.ps .ps g.d g.eb g.ed (2 * (g.b % 4))
  let s2 := { r1.1 with ps := u.1.1 }
  let e2 := if u.1.2 then emit s2 .ps .ps else []
  if !g.versionB && g.eb = 0 && g.ec = 0 && g.c / 256 % 256 != 250 then
    let a1 := ac5_addAfS s2 (g.c / 256 % 256)
    let a2 := ac5_addAfS a1.1.1 (g.c % 256)
    ((a2.1.1, r1.2 ++ e2 ++ a1.1.2 ++ a2.1.2), (u.2, a1.2 ++ a2.2))
  else ((s2, r1.2 ++ e2), (u.2, []))

/-- `group2`, instrumented -/
def ac5_group2S (cfg : Cfg) (s : State) (g : Group) : (State × List Event) × (List Store × List Nat) :=
  let flag := g.b / 16 % 2
  let pos := g.b % 16
  let sw := g.eb = 0 && ((flag : Int) != s.lastRt)
  let clr := sw && s.lastRt != -1 && getAvailable (s.rt flag)
  let s1 := if clr then s.setRt flag (s.rt flag).cleared else s
  let s2 := if sw then { s1 with lastRt := flag } else s1
  if g.eb != 0 && (flag : Int) != s2.lastRt && s2.lastRt != -1 then ((s2, []), ([], []))
  else
    let u1 := if !g.versionB
      then ac5_parserUpdateS cfg s2.set (s2.rt flag) .rt g.c g.eb g.ec (4 * pos)
      else ((s2.rt flag, false), [])
    let pos2 := if !g.versionB then 4 * pos + 2 else 2 * pos
    let u2 := ac5_parserUpdateS cfg s2.set u1.1.1 .rt g.d g.eb g.ed pos2
    let s3 := s2.setRt flag u2.1.1
    ((s3, if clr || u1.1.2 || u2.1.2 then emit s3 .rt (.rt flag) else []), (u1.2 ++ u2.2, []))

/-- `group10`, instrumented -/
def ac5_group10S (cfg : Cfg) (s : State) (g : Group) : (State × List Event) × (List Store × List Nat) :=
  if !g.versionB then
    let pos := 4 * (g.b % 2)
    let u1 := ac5_parserUpdateS cfg s.set s.ptyn .ptyn g.c g.eb g.ec pos
    let u2 := ac5_parserUpdateS cfg s.set u1.1.1 .ptyn g.d g.eb g.ed (pos + 2)
    let s' := { s with ptyn := u2.1.1 }
    ((s', if u1.1.2 || u2.1.2 then emit s' .ptyn .ptyn else []), (u1.2 ++ u2.2, []))
  else ((s, []), ([], []))

/-- the type dispatch, instrumented (`group1` and `group4` touch neither a text nor an AF bitmap) -/
def ac5_dispatchS (cfg : Cfg) (s : State) (g : Group) : (State × List Event) × (List Store × List Nat) :=
  if g.type = 0 then ac5_group0S cfg s g
  else if g.type = 1 then (group1 cfg s g, ([], []))
  else if g.type = 2 then ac5_group2S cfg s g
  else if g.type = 4 then (group4 s g, ([], []))
  else if g.type = 10 then ac5_group10S cfg s g
  else ((s, []), ([], []))

/-- `process`, instrumented (`groupCommon` touches neither a text nor an AF bitmap) -/
def ac5_processS (cfg : Cfg) (s : State) (g : Group) : (State × List Event) × (List Store × List Nat) :=
  let r1 := groupCommon s g
  let r2 := ac5_dispatchS cfg r1.1 g
  ((r2.1.1, r1.2 ++ r2.1.2), r2.2)

/-- the `Store` outcome of every `updateSingle` call `process cfg s g` makes, in call order -/
def ac5_processStores (cfg : Cfg) (s : State) (g : Group) : List Store := (ac5_processS cfg s g).2.1

/-- the index of every AF-bitmap access `process cfg s g` makes, in call order -/
def ac5_processAfIdx (cfg : Cfg) (s : State) (g : Group) : List Nat := (ac5_processS cfg s g).2.2

theorem ac5_group0S_fst (cfg : Cfg) (s : State) (g : Group) : (ac5_group0S cfg s g).1 = group0 cfg s g := by
  unfold ac5_group0S group0
  simp only [ac5_parserUpdateS_fst, ac5_addAfS_fst]
  split <;> rfl

theorem ac5_group2S_fst (cfg : Cfg) (s : State) (g : Group) : (ac5_group2S cfg s g).1 = group2 cfg s g := by
  unfold ac5_group2S group2
  extract_lets flag pos sw clr s1 s2 u1S pos2 u2S s3S u1 u2 s3
  have e1 : u1S.1 = u1 := by
    unfold u1S u1
    split
    · exact ac5_parserUpdateS_fst ..
    · rfl
  have e2 : u2S.1 = u2 := by
    unfold u2S u2
    rw [ac5_parserUpdateS_fst, e1]
  have e3 : s3S = s3 := by
    unfold s3S s3
    rw [e2]
  split
  · rfl
  · simp only [e1, e2, e3]

theorem ac5_group10S_fst (cfg : Cfg) (s : State) (g : Group) : (ac5_group10S cfg s g).1 = group10 cfg s g := by
  unfold ac5_group10S group10
  simp only [ac5_parserUpdateS_fst]
  split <;> rfl

theorem ac5_dispatchS_fst (cfg : Cfg) (s : State) (g : Group) : (ac5_dispatchS cfg s g).1 = dispatch cfg s g := by
  unfold ac5_dispatchS dispatch
  split; · exact ac5_group0S_fst cfg s g
  split; · rfl
  split; · exact ac5_group2S_fst cfg s g
  split; · rfl
  split; · exact ac5_group10S_fst cfg s g
  rfl

/-- the instrumented `process` computes exactly what `process` computes -/
theorem ac5_process_mirror (cfg : Cfg) (s : State) (g : Group) : (ac5_processS cfg s g).1 = process cfg s g := by
  unfold ac5_processS process
  simp only [ac5_dispatchS_fst]

/-! ## no `updateSingle` call is out of range when the texts have their capacities -/

/-- the four texts have their fixed capacities -/
def ac5_Lens (s : State) : Prop :=
  s.ps.length = capPs ∧ s.rt0.length = capRt ∧ s.rt1.length = capRt ∧ s.ptyn.length = capPtyn

theorem ac5_group0S_no_oob (cfg : Cfg) (s : State) (g : Group) (h : s.ps.length = capPs) :
    Store.oob ∉ (ac5_group0S cfg s g).2.1 := by
  unfold ac5_group0S
  extract_lets a b r1 u src s2 e2
  have hr1 : r1.1.ps.length = capPs := by
    unfold r1
    split
    · show (setField (setField s .ta _).1 .ms _).1.ps.length = capPs
      rw [setField_ps, setField_ps]; exact h
    · exact h
  have hu : Store.oob ∉ u.2 := by
    refine ac5_parserUpdateS_no_oob _ _ _ _ _ _ _ _ ?_
    rw [hr1]; simp only [capPs]; omega
  split <;> exact hu

theorem ac5_group2S_no_oob (cfg : Cfg) (s : State) (g : Group) (h0 : s.rt0.length = capRt)
    (h1 : s.rt1.length = capRt) : Store.oob ∉ (ac5_group2S cfg s g).2.1 := by
  unfold ac5_group2S
  extract_lets flag pos sw clr s1 s2 u1 pos2 u2 s3
  have hrt : (s.rt flag).length = capRt := by unfold State.rt; split <;> assumption
  have hs1 : (s1.rt flag).length = capRt := by
    unfold s1
    split
    · rw [setRt_rt_same, cleared_length]; exact hrt
    · exact hrt
  have hs2 : (s2.rt flag).length = capRt := by
    unfold s2
    split
    · exact hs1
    · exact hs1
  have hpos : pos < 16 := Nat.mod_lt _ (by decide)
  have hu1 : Store.oob ∉ u1.2 ∧ u1.1.1.length = capRt := by
    unfold u1
    split
    · refine ⟨ac5_parserUpdateS_no_oob _ _ _ _ _ _ _ _ ?_, ?_⟩
      · rw [hs2]; simp only [capRt]; omega
      · rw [ac5_parserUpdateS_fst, parserUpdate_length]; exact hs2
    · exact ⟨by simp, hs2⟩
  have hu2 : Store.oob ∉ u2.2 := by
    refine ac5_parserUpdateS_no_oob _ _ _ _ _ _ _ _ ?_
    rw [hu1.2]
    unfold pos2
    simp only [capRt]
    split <;> omega
  split
  · simp
  · simp only [List.mem_append, not_or]
    exact ⟨hu1.1, hu2⟩

theorem ac5_group10S_no_oob (cfg : Cfg) (s : State) (g : Group) (h : s.ptyn.length = capPtyn) :
    Store.oob ∉ (ac5_group10S cfg s g).2.1 := by
  unfold ac5_group10S
  split
  · extract_lets pos u1 u2 s'
    have hu1 : Store.oob ∉ u1.2 := by
      refine ac5_parserUpdateS_no_oob _ _ _ _ _ _ _ _ ?_
      rw [h]; unfold pos; simp only [capPtyn]; omega
    have hu2 : Store.oob ∉ u2.2 := by
      refine ac5_parserUpdateS_no_oob _ _ _ _ _ _ _ _ ?_
      rw [ac5_parserUpdateS_fst, parserUpdate_length, h]; unfold pos; simp only [capPtyn]; omega
    simp only [List.mem_append, not_or]
    exact ⟨hu1, hu2⟩
  · simp

theorem ac5_dispatchS_no_oob (cfg : Cfg) (s : State) (g : Group) (h : ac5_Lens s) :
    Store.oob ∉ (ac5_dispatchS cfg s g).2.1 := by
  unfold ac5_dispatchS
  split; · exact ac5_group0S_no_oob cfg s g h.1
  split; · simp
  split; · exact ac5_group2S_no_oob cfg s g h.2.1 h.2.2.1
  split; · simp
  split; · exact ac5_group10S_no_oob cfg s g h.2.2.2
  simp

/-- state form of `C05_no_oob_process`: whenever the four texts have their capacities, no `updateSingle` call made by
`process` is out of range, for every group -/
theorem ac5_no_oob_of_lens (cfg : Cfg) (s : State) (g : Group) (h : ac5_Lens s) :
    Store.oob ∉ ac5_processStores cfg s g := by
  unfold ac5_processStores ac5_processS
  refine ac5_dispatchS_no_oob cfg _ g ?_
  obtain ⟨a, b, c, d⟩ := h
  exact ⟨by simpa using a, by simpa using b, by simpa using c, by simpa using d⟩

/-! ## the capacities are invariant (for arbitrary tables) -/

theorem ac5_expectedText_length (cfg : Cfg) (m : Mon) (before : Obs) (g : Group) (t : Nat) :
    (expectedText cfg m before g t).length = (before.text t).cells.length := by
  rw [expectedText_eq]
  unfold expCells
  rw [List.length_map, List.length_range]
  split
  · exact cleared_length _
  · rfl

theorem ac5_lens_process (cfg : Cfg) (s : State) (g : Group) (h : ac5_Lens s) :
    ac5_Lens (process cfg s g).1 := by
  obtain ⟨a, b, c, d⟩ := h
  have key := fun t ht => process_text cfg { Mon.init with lastFlag := s.lastRt } s g rfl a b c d t ht
  have len : ∀ t, t < 4 → ((process cfg s g).1.text t).length = (s.text t).length := by
    intro t ht
    rw [key t ht, ac5_expectedText_length, obs_text_cells]
  exact ⟨(len 0 (by omega)).trans a, (len 1 (by omega)).trans b, (len 2 (by omega)).trans c,
    (len 3 (by omega)).trans d⟩

theorem ac5_lens_init : ac5_Lens initState :=
  ⟨List.length_replicate, List.length_replicate, List.length_replicate, List.length_replicate⟩

theorem ac5_lens_step (cfg : Cfg) (s : State) (op : Op) (h : ac5_Lens s) : ac5_Lens (step cfg s op).1 := by
  cases op with
  | init => exact ac5_lens_init
  | clear =>
    obtain ⟨a, b, c, d⟩ := h
    exact ⟨(cleared_length _).trans a, (cleared_length _).trans b, (cleared_length _).trans c,
      (cleared_length _).trans d⟩
  | parse g => exact ac5_lens_process cfg s g h
  | parseString o =>
    cases o with
    | none => exact h
    | some bytes =>
      simp only [step]
      split
      · exact ac5_lens_process cfg s _ h
      · exact h
  | _ => exact h

theorem ac5_lens_runFrom (cfg : Cfg) (ops : List Op) : ∀ s, ac5_Lens s → ac5_Lens (runFrom cfg s ops) := by
  induction ops with
  | nil => intro s hs; exact hs
  | cons op ops ih =>
    intro s hs
    simp only [runFrom, List.foldl_cons]
    exact ih _ (ac5_lens_step cfg s op hs)

/-- in every reachable state the four texts have their capacities — no contract on the tables needed -/
theorem ac5_lens_run (cfg : Cfg) (ops : List Op) : ac5_Lens (run cfg ops) :=
  ac5_lens_runFrom cfg ops initState ac5_lens_init

/-! ## C05, logic part -/

/-- **C05 (out-of-range outcome unreachable).** For every table configuration, every history `ops` from
initialisation and every group `g` (arbitrary natural fields), none of the `updateSingle` calls that `process` makes on
the reached state reports `Store.oob`: the undefined-behaviour branch of `rdsparser_string_update_single` is dead. -/
theorem C05_no_oob_process (cfg : Cfg) (ops : List Op) (g : Group) :
    Store.oob ∉ ac5_processStores cfg (run cfg ops) g :=
  ac5_no_oob_of_lens cfg _ g (ac5_lens_run cfg ops)

/-- a tiny concrete configuration for the non-vacuity examples (narrow build, identity charset, no countries) -/
def ac5_cfg0 : Cfg := ⟨false, fun b => b, fun _ _ => 0⟩

/-- non-vacuity: after a 0A group, a 2A group addressed to the LAST four RT cells (60..63) makes four `updateSingle`
calls, all of which store -/
example :
    ac5_processStores ac5_cfg0 (run ac5_cfg0 [.parse ⟨0x1234, 0x0401, 0xE0CD, 0x4142, 0, 0, 0, 0⟩])
      ⟨0x1234, 0x200F, 0x4142, 0x4344, 0, 0, 0, 0⟩ = [.stored, .stored, .stored, .stored] := by decide

/-- non-vacuity: garbage fields far outside the C ranges still give only in-range outcomes -/
example :
    ac5_processStores ac5_cfg0 (run ac5_cfg0 [])
      ⟨10 ^ 30, 65536 * 10 ^ 30 + 2 * 4096 + 31, 7 ^ 40, 256 * 10 ^ 20 + 13, 0, 0, 0, 0⟩ =
      [.stored, .stored, .rejected, .stored] := by decide

/-- the calls a single API call makes: those of `process` if the call delivers a group, none otherwise -/
def ac5_stepStores (cfg : Cfg) (s : State) (op : Op) : List Store :=
  match op.group? with
  | some g => ac5_processStores cfg s g
  | none => []

/-- C05 for every history and every next API call (binary or hex-string delivery alike) -/
theorem C05_no_oob_step (cfg : Cfg) (ops : List Op) (op : Op) :
    Store.oob ∉ ac5_stepStores cfg (run cfg ops) op := by
  unfold ac5_stepStores
  split
  · exact C05_no_oob_process cfg ops _
  · simp

/-! ## AF bitmap accesses -/

theorem ac5_group0S_afIdx (cfg : Cfg) (s : State) (g : Group) :
    ∀ v ∈ (ac5_group0S cfg s g).2.2, afValid v = true := by
  intro v hv
  unfold ac5_group0S at hv
  extract_lets a b r1 u src s2 e2 at hv
  split at hv
  · simp only [List.mem_append] at hv
    rcases hv with hv | hv
    · exact ac5_addAfS_idx _ _ _ hv
    · exact ac5_addAfS_idx _ _ _ hv
  · simp at hv

theorem ac5_group2S_afIdx (cfg : Cfg) (s : State) (g : Group) : (ac5_group2S cfg s g).2.2 = [] := by
  unfold ac5_group2S
  extract_lets flag pos sw clr s1 s2 u1 pos2 u2 s3
  split <;> rfl

theorem ac5_group10S_afIdx (cfg : Cfg) (s : State) (g : Group) : (ac5_group10S cfg s g).2.2 = [] := by
  unfold ac5_group10S
  split <;> rfl

/-- every AF-bitmap access of `process` — on ANY state — is behind a successful range check -/
theorem ac5_processAfIdx_valid (cfg : Cfg) (s : State) (g : Group) :
    ∀ v ∈ ac5_processAfIdx cfg s g, afValid v = true := by
  intro v hv
  unfold ac5_processAfIdx ac5_processS ac5_dispatchS at hv
  simp only at hv
  split at hv
  · exact ac5_group0S_afIdx cfg _ g v hv
  · split at hv
    · simp at hv
    · split at hv
      · rw [ac5_group2S_afIdx] at hv; simp at hv
      · split at hv
        · simp at hv
        · split at hv
          · rw [ac5_group10S_afIdx] at hv; simp at hv
          · simp at hv

/-- **C05 (AF bitmap).** For every table configuration, every history and every group: each AF-bitmap access
(`af->buffer[v / 8]`) that `process` makes on the reached state uses a code that passed the range check 1..204, so the
byte index `v / 8` is below 26 (`RDSPARSER_AF_BUFFER_SIZE`), and `v` indexes inside both bitmaps of the model
(`List.set` / `List.getD` never fall off the end). Links `addAf` to the arithmetic lemma `C05_af_index`. -/
theorem C05_af_index_process (cfg : Cfg) (ops : List Op) (g : Group) :
    ∀ v ∈ ac5_processAfIdx cfg (run cfg ops) g,
      afValid v = true ∧ v / 8 < 26 ∧ v < (run cfg ops).used.af.length ∧ v < (run cfg ops).temp.af.length := by
  intro v hv
  have hval := ac5_processAfIdx_valid cfg _ g v hv
  obtain ⟨h1, h2⟩ := C05_af_index v hval
  obtain ⟨_, hu, ht⟩ := wd_reachL cfg ops
  exact ⟨hval, h2, by rw [hu]; exact h1, by rw [ht]; exact h1⟩

/-- `afSet` writes the bitmap only for a valid code: the only place the model's bitmap changes -/
theorem ac5_afSet_writes_valid (af : List Bool) (v : Nat) (h : (afSet af v).1 ≠ af) : afValid v = true ∧ v / 8 < 26 := by
  unfold afSet at h
  split at h
  · rename_i hv; exact ⟨hv, (C05_af_index v hv).2⟩
  · exact absurd rfl h

/-- non-vacuity: a 0A group with two AF codes under the extended check reads `used`, reads `temp`, writes `temp`
for each of the two codes (six accesses); code 205 (first example) would be refused without any access -/
example :
    ac5_processAfIdx ac5_cfg0 (run ac5_cfg0 [.setExt true]) ⟨0x1234, 0x0401, 0x0A14, 0x4142, 0, 0, 0, 0⟩ =
      [10, 10, 10, 20, 20, 20] := by decide

example :
    ac5_processAfIdx ac5_cfg0 (run ac5_cfg0 []) ⟨0x1234, 0x0401, 0xCD01, 0x4142, 0, 0, 0, 0⟩ = [1, 1] := by decide

/-! # Part (b) — C16: a cell counts as received iff the history contains a reception of it -/

/-! ## the reading of "has been received" off the call history -/

/-- A/B flag shown by the most recent type-2 group with error-free block B since the last reset (`init` / `clear`);
-1 if there is none -/
def ac5_lastFlag (ops : List Op) : Int :=
  ops.foldl (fun cur op =>
    if op = .init ∨ op = .clear then -1 else
    match op.group? with
    | some g => if g.type = 2 ∧ g.eb = 0 then ((g.b / 16 % 2 : Nat) : Int) else cur
    | none => cur) (-1)

/-- the character rules of C02/C06 that do not look at the cell: control codes below 0x20 other than 0x0D are never
taken; the end-of-text marker 0x0D and bytes ≥ 0x7F are taken only when block B and the carrying block are error-free -/
def ac5_byteOk (b eb ex : Nat) : Bool :=
  (b = 0x0D || 0x20 ≤ b) && ((b != 0x0D && b < 0x7F) || (eb = 0 && ex = 0))

/-- C08: a type-2 group whose block B has errors and whose flag differs from the last flag seen is ignored for RT -/
def ac5_noisy (last : Int) (g : Group) : Bool :=
  g.type = 2 && g.eb != 0 && last != -1 && ((g.b / 16 % 2 : Nat) : Int) != last

/-- C08: an error-free type-2 group shows a flag different from the last flag seen: the buffer of the NEW flag
(text `1 + flag`) is emptied before the group's characters are taken. (C08 empties it "if it holds something";
emptying a buffer that holds nothing changes nothing, so that condition is immaterial for what counts as received.) -/
def ac5_flagSwitch (last : Int) (g : Group) (t : Nat) : Bool :=
  g.type = 2 && g.eb = 0 && last != -1 && ((g.b / 16 % 2 : Nat) : Int) != last && t = 1 + g.b / 16 % 2

/-- "the group `g`, delivered after history `hist`, is an accepted reception addressed to cell `i` of text `t`":
the group is not ignored for RT, the table of addressed cells (C02, `addressed`) lists cell `(t, i)` with byte `b`
carried by a block of error level `ex`, both error levels are within the thresholds last written for that text (C06, C17:
`lastCorr`), and the byte passes the character rules. -/
def ac5_accepted (hist : List Op) (g : Group) (t i : Nat) : Bool :=
  !ac5_noisy (ac5_lastFlag hist) g &&
  match ((addressed g).filter (fun a => a.1 = t)).find? (fun a => a.2.1 = i) with
  | some (_, _, b, ex) =>
    g.eb ≤ lastCorr (textIdOf t) .info hist && ex ≤ lastCorr (textIdOf t) .data hist && ac5_byteOk b g.eb ex
  | none => false

/-- one call further: `init` and `clear` forget every reception; a call that delivers no group changes nothing; a
delivered group first forgets the receptions of the RT buffer it switches to, then counts if it is an accepted
reception addressed to the cell -/
def ac5_next (hist : List Op) (r : Bool) (op : Op) (t i : Nat) : Bool :=
  if op = .init ∨ op = .clear then false else
  match op.group? with
  | none => r
  | some g => (r && !ac5_flagSwitch (ac5_lastFlag hist) g t) || ac5_accepted hist g t i

/-- cell `i` of text `t` (0 = PS, 1 = RT A, 2 = RT B, 3 = PTYN) has been received: scanning the history oldest
first (state: the history so far and the answer so far), some call after the last reset of that text was an accepted
reception addressed to that cell. Reads only the op list — no parser state, no table, no model function. -/
def ac5_received (ops : List Op) (t i : Nat) : Bool :=
  (ops.foldl (fun (st : List Op × Bool) op => (st.1 ++ [op], ac5_next st.1 st.2 op t i)) ([], false)).2

/-! ## one call further -/

theorem ac5_scan_fst (t i : Nat) (ops : List Op) : ∀ (h : List Op) (r : Bool),
    (ops.foldl (fun (st : List Op × Bool) op => (st.1 ++ [op], ac5_next st.1 st.2 op t i)) (h, r)).1 = h ++ ops := by
  induction ops with
  | nil => intro h r; simp
  | cons a l ih => intro h r; rw [List.foldl_cons, ih]; simp

theorem ac5_received_nil (t i : Nat) : ac5_received [] t i = false := rfl

theorem ac5_received_snoc (ops : List Op) (op : Op) (t i : Nat) :
    ac5_received (ops ++ [op]) t i = ac5_next ops (ac5_received ops t i) op t i := by
  unfold ac5_received
  rw [List.foldl_append, List.foldl_cons, List.foldl_nil]
  show ac5_next (List.foldl _ ([], false) ops).1 _ op t i = _
  rw [ac5_scan_fst, List.nil_append]

theorem ac5_lastFlag_snoc (ops : List Op) (op : Op) :
    ac5_lastFlag (ops ++ [op]) =
      if op = .init ∨ op = .clear then -1 else
      match op.group? with
      | some g => if g.type = 2 ∧ g.eb = 0 then ((g.b / 16 % 2 : Nat) : Int) else ac5_lastFlag ops
      | none => ac5_lastFlag ops := by
  unfold ac5_lastFlag
  rw [List.foldl_append]
  rfl

theorem ac5_next_init (hist : List Op) (r : Bool) (t i : Nat) : ac5_next hist r .init t i = false := by
  simp [ac5_next]

theorem ac5_next_clear (hist : List Op) (r : Bool) (t i : Nat) : ac5_next hist r .clear t i = false := by
  simp [ac5_next]

theorem ac5_next_group (hist : List Op) (r : Bool) (op : Op) (g : Group) (t i : Nat) (hg : op.group? = some g) :
    ac5_next hist r op t i = ((r && !ac5_flagSwitch (ac5_lastFlag hist) g t) || ac5_accepted hist g t i) := by
  obtain ⟨h1, h2⟩ := wd_group_ne_init hg
  unfold ac5_next
  rw [if_neg (by simp [h1, h2]), hg]

theorem ac5_next_quiet (hist : List Op) (r : Bool) (op : Op) (t i : Nat) (hg : op.group? = none)
    (h1 : op ≠ .init) (h2 : op ≠ .clear) : ac5_next hist r op t i = r := by
  unfold ac5_next
  rw [if_neg (by simp [h1, h2]), hg]

/-! ## the flag last seen, against the abstract machine and the model -/

theorem ac5_mon_group_lastFlag (cfg : Cfg) (m : Mon) (g : Group) :
    (m.group cfg g).lastFlag = if g.type = 2 ∧ g.eb = 0 then ((g.b / 16 % 2 : Nat) : Int) else m.lastFlag := by
  rw [Mon.group_eq]
  have hc : (m.common g).lastFlag = m.lastFlag := by
    unfold Mon.common
    simp only
    split <;> split <;> simp
  unfold Mon.disp
  by_cases h0 : g.type = 0
  · rw [if_pos h0, if_neg (by omega)]
    unfold Mon.g0
    simp only
    split <;> split <;> simp [hc]
  rw [if_neg h0]
  by_cases h1 : g.type = 1
  · rw [if_pos h1, if_neg (by omega)]
    unfold Mon.g1
    split <;> simp [hc]
  rw [if_neg h1]
  by_cases h2 : g.type = 2
  · rw [if_pos h2]
    unfold Mon.g2
    by_cases hb : g.eb = 0
    · rw [if_pos hb, if_pos ⟨h2, hb⟩]
    · rw [if_neg hb, if_neg (by simp [hb]), hc]
  · rw [if_neg h2, if_neg (by simp [h2]), hc]

/-- the abstract machine's `lastFlag` is the flag last seen in the history -/
theorem ac5_lastFlag_mon (cfg : Cfg) (ops : List Op) : (monAfter cfg ops).lastFlag = ac5_lastFlag ops := by
  induction ops using wd_snoc_ind with
  | hnil => rfl
  | hsnoc l a ih =>
    rw [monAfter_snoc, ac5_lastFlag_snoc]
    rcases wd_op_cases a with h | h | ⟨g, hg⟩ | ⟨hg, h1, h2⟩
    · subst h; rfl
    · subst h; rfl
    · obtain ⟨h1, h2⟩ := wd_group_ne_init hg
      rw [if_neg (by simp [h1, h2]), hg, wd_step_group cfg _ a g hg]
      show ((monAfter cfg l).group cfg g).lastFlag = _
      rw [ac5_mon_group_lastFlag, ih]
    · rw [if_neg (by simp [h1, h2]), hg, ← ih]
      cases a with
      | init => exact absurd rfl h1
      | clear => exact absurd rfl h2
      | parse g => cases hg
      | parseString b =>
        cases b with
        | none => rfl
        | some bytes =>
          have hg' : utilsConvert bytes = none := hg
          simp only [Mon.step, Op.group?, hg']
      | _ => rfl

/-- the model's `lastRt` is the flag last seen in the history -/
theorem ac5_lastFlag_run (cfg : Cfg) (ops : List Op) : (run cfg ops).lastRt = ac5_lastFlag ops := by
  rw [← (wd_reachL cfg ops).1.lastFlag, ac5_lastFlag_mon]

/-! ## one cell through the closed form -/

/-- C06 closed form, level only: with thresholds ≤ 2 the cell after a reception counts as received iff it did before or
the reception is within the thresholds and passes the character rules. (On a never-received cell the other two rules of
C06/C07 — "progressive: only improvements", "identical data with an equal or worse level is ignored" — cannot reject:
every accepted level is ≤ 9 < 10.) -/
theorem ac5_cellSpec_lvl (cfg : Cfg) (info data : Nat) (prog : Bool) (old : Cell) (b eb ex : Nat)
    (hi : info ≤ 2) (hd : data ≤ 2) :
    (cellSpec cfg info data prog old b eb ex).lvl ≠ 10 ↔
      (old.lvl ≠ 10 ∨ (eb ≤ info ∧ ex ≤ data ∧ ac5_byteOk b eb ex = true)) := by
  obtain ⟨och, olvl⟩ := old
  unfold cellSpec
  simp only []
  generalize hL : (if (decide (eb = 0) && decide (ex = 0)) = true then 0 else 2 * eb + 3 * ex - 1) = L
  have hL9 : eb ≤ info → ex ≤ data → L ≤ 9 := by
    intro h1 h2; rw [← hL]; split <;> omega
  have hbo : ac5_byteOk b eb ex = true ↔
      ((b = 13 ∨ 32 ≤ b) ∧ ((b ≠ 13 ∧ b < 127) ∨ (eb = 0 ∧ ex = 0))) := by
    simp only [ac5_byteOk, Bool.and_eq_true, Bool.or_eq_true, decide_eq_true_eq, bne_iff_ne, ne_eq]
  rw [hbo]
  split
  · rename_i hacc
    simp only [Bool.and_eq_true, Bool.or_eq_true, decide_eq_true_eq, bne_iff_ne, ne_eq,
      Bool.not_eq_true', Bool.and_eq_false_iff, decide_eq_false_iff_not] at hacc
    obtain ⟨⟨⟨⟨⟨⟨g1, g2⟩, p⟩, r1⟩, r2⟩, r3⟩, r4⟩ := hacc
    have := hL9 g1 g2
    constructor
    · intro _; right; refine ⟨g1, g2, ?_⟩; omega
    · intro _; show L ≠ 10; omega
  · rename_i hacc
    constructor
    · intro h; exact Or.inl h
    · rintro (h | ⟨g1, g2, hb⟩)
      · exact h
      · intro hlv
        apply hacc
        have := hL9 g1 g2
        have hlv' : olvl = 10 := hlv
        simp only [Bool.and_eq_true, Bool.or_eq_true, decide_eq_true_eq, bne_iff_ne, ne_eq,
          Bool.not_eq_true', Bool.and_eq_false_iff, decide_eq_false_iff_not]
        refine ⟨⟨⟨⟨⟨⟨g1, g2⟩, ?_⟩, ?_⟩, ?_⟩, ?_⟩, ?_⟩
        · right; show L ≤ olvl; omega
        · omega
        · omega
        · omega
        · right; show ¬ olvl ≤ L; omega

/-- on a never-received cell, "within the thresholds and passing the character rules" is exactly "the reception
stores something": the closed form changes the cell, and the stored level is a received one -/
theorem ac5_cellSpec_first (cfg : Cfg) (info data : Nat) (prog : Bool) (old : Cell) (b eb ex : Nat)
    (hi : info ≤ 2) (hd : data ≤ 2) (hold : old.lvl = 10) :
    (eb ≤ info ∧ ex ≤ data ∧ ac5_byteOk b eb ex = true) ↔
      (cellSpec cfg info data prog old b eb ex ≠ old ∧ (cellSpec cfg info data prog old b eb ex).lvl ≠ 10) := by
  have h := ac5_cellSpec_lvl cfg info data prog old b eb ex hi hd
  constructor
  · intro hacc
    have hl : (cellSpec cfg info data prog old b eb ex).lvl ≠ 10 := h.2 (Or.inr hacc)
    exact ⟨fun e => hl (by rw [e]; exact hold), hl⟩
  · rintro ⟨_, hl⟩
    rcases h.1 hl with h' | h'
    · exact absurd hold h'
    · exact h'

/-! ## one delivered group, on the model state -/

/-- `ac5_accepted` with the three facts it reads off the history made explicit -/
def ac5_acc (last : Int) (info data : Nat) (g : Group) (t i : Nat) : Bool :=
  !ac5_noisy last g &&
  match ((addressed g).filter (fun a => a.1 = t)).find? (fun a => a.2.1 = i) with
  | some (_, _, b, ex) => g.eb ≤ info && ex ≤ data && ac5_byteOk b g.eb ex
  | none => false

theorem ac5_accepted_eq (hist : List Op) (g : Group) (t i : Nat) :
    ac5_accepted hist g t i =
      ac5_acc (ac5_lastFlag hist) (lastCorr (textIdOf t) .info hist) (lastCorr (textIdOf t) .data hist) g t i := rfl

theorem ac5_getD_cleared (x : Text) (i : Nat) : x.cleared.getD i blank = blank := by
  unfold Text.cleared
  rw [List.getD_eq_getElem?_getD, List.getElem?_map]
  cases x[i]? <;> rfl

theorem ac5_getD_unavailable (x : Text) (i : Nat) (h : getAvailable x = false) : (x.getD i blank).lvl = 10 := by
  rw [List.getD_eq_getElem?_getD]
  cases hc : x[i]? with
  | none => rfl
  | some c =>
    have hm : c ∈ x := List.mem_of_getElem? hc
    unfold getAvailable at h
    rw [List.any_eq_false] at h
    have := h c hm
    simpa using this

theorem ac5_text_length (s : State) (h : ac5_Lens s) (t : Nat) (ht : t < 4) : (s.text t).length = capOf t := by
  obtain ⟨a, b, c, d⟩ := h
  have : t = 0 ∨ t = 1 ∨ t = 2 ∨ t = 3 := by omega
  rcases this with e | e | e | e <;> subst e <;> assumption

/-- the discard of C08 as the model performs it (only when the buffer holds something) against the flag switch -/
theorem ac5_switchDiscard_eq (m : Mon) (s : State) (g : Group) (t : Nat) :
    (switchDiscard m (Obs.ofState s) g && decide (t = 1 + g.b / 16 % 2)) =
      (ac5_flagSwitch m.lastFlag g t && getAvailable (s.text t)) := by
  by_cases ht : t = 1 + g.b / 16 % 2
  · subst ht
    unfold switchDiscard ac5_flagSwitch
    rw [obs_text_cells]
    simp only [decide_true, Bool.and_true]
  · unfold ac5_flagSwitch
    simp only [ht, decide_false, Bool.and_false, Bool.false_and]

/-- the old cell as `expectedText` sees it (after the discard) counts as received iff it did and no flag switch
happens -/
theorem ac5_old_lvl (m : Mon) (s : State) (g : Group) (t i : Nat) :
    (((if (switchDiscard m (Obs.ofState s) g && decide (t = 1 + g.b / 16 % 2)) = true
        then ((Obs.ofState s).text t).cells.cleared else ((Obs.ofState s).text t).cells).getD i blank).lvl ≠ 10) ↔
      (((s.text t).getD i blank).lvl ≠ 10 ∧ ac5_flagSwitch m.lastFlag g t = false) := by
  rw [ac5_switchDiscard_eq, obs_text_cells]
  cases hfs : ac5_flagSwitch m.lastFlag g t
  · simp
  · cases hav : getAvailable (s.text t)
    · have := ac5_getD_unavailable (s.text t) i hav
      simp only [Bool.and_false, Bool.false_eq_true, if_false]
      constructor
      · intro h; exact absurd this h
      · rintro ⟨_, h⟩; cases h
    · simp only [Bool.and_self, if_true, ac5_getD_cleared]
      simp [blank]

/-- a cell addressed by a group lies inside the capacity of its text -/
theorem ac5_find_in_range (g : Group) (t i : Nat) (a : Nat × Nat × Nat × Nat)
    (h : ((addressed g).filter (fun a => a.1 = t)).find? (fun a => a.2.1 = i) = some a) : i < capOf t := by
  have hm := List.mem_of_find?_eq_some h
  have hp := List.find?_some h
  rw [List.mem_filter] at hm
  obtain ⟨hm1, hm2⟩ := hm
  have hr := (C05_addressed_in_range g a hm1).2
  simp only [decide_eq_true_eq] at hm2 hp
  rw [← hm2, ← hp]
  exact hr

/-- **one delivered group.** After `process`, cell `i` of text `t` counts as received iff it did before and the
group does not switch to that RT buffer, or the group is an accepted reception addressed to the cell (thresholds and
last flag read from the state). -/
theorem ac5_process_cell (cfg : Cfg) (s : State) (g : Group) (hl : ac5_Lens s) (hs : s.set.Ok)
    (t : Nat) (ht : t < 4) (i : Nat) :
    (((process cfg s g).1.text t).getD i blank).lvl ≠ 10 ↔
      ((((s.text t).getD i blank).lvl ≠ 10 ∧ ac5_flagSwitch s.lastRt g t = false) ∨
        ac5_acc s.lastRt (s.set.corr (textIdOf t) .info) (s.set.corr (textIdOf t) .data) g t i = true) := by
  have hlen := ac5_text_length s hl t ht
  obtain ⟨a, b, c, d⟩ := hl
  rw [process_text cfg { Mon.init with lastFlag := s.lastRt } s g rfl a b c d t ht, expectedText_eq]
  have hold := ac5_old_lvl { Mon.init with lastFlag := s.lastRt } s g t i
  generalize hO : (if (switchDiscard { Mon.init with lastFlag := s.lastRt } (Obs.ofState s) g &&
      decide (t = 1 + g.b / 16 % 2)) = true
    then ((Obs.ofState s).text t).cells.cleared else ((Obs.ofState s).text t).cells) = old at hold ⊢
  have holdlen : old.length = capOf t := by
    rw [← hO, obs_text_cells]
    split
    · rw [cleared_length]; exact hlen
    · exact hlen
  have hnoisy : rtNoisy { Mon.init with lastFlag := s.lastRt } g = ac5_noisy s.lastRt g := rfl
  have hset : (Obs.ofState s).set = s.set := rfl
  have hlf : ({ Mon.init with lastFlag := s.lastRt } : Mon).lastFlag = s.lastRt := rfl
  rw [hlf] at hold
  rw [hnoisy, hset]
  unfold ac5_acc
  by_cases hi : i < old.length
  · rw [expCells_getD _ _ _ _ _ _ _ hi]
    cases hn : ac5_noisy s.lastRt g
    · simp only [Bool.false_eq_true, if_false, Bool.not_false, Bool.true_and]
      cases hf : ((addressed g).filter (fun a => a.1 = t)).find? (fun a => a.2.1 = i) with
      | none => simp only [hold, Bool.false_eq_true, or_false]
      | some x =>
        obtain ⟨x1, x2, xb, xe⟩ := x
        simp only []
        rw [ac5_cellSpec_lvl _ _ _ _ _ _ _ _ (hs.corr_le _ _) (hs.corr_le _ _), hold]
        simp only [Bool.and_eq_true, decide_eq_true_eq, and_assoc]
    · simp only [if_true, List.find?_nil, Bool.not_true, Bool.false_and, Bool.false_eq_true, or_false]
      exact hold
  · have hge : old.length ≤ i := by omega
    have hnew : (expCells cfg s.set (textIdOf t) g.eb old
        (if ac5_noisy s.lastRt g = true then [] else (addressed g).filter (fun a => a.1 = t))).getD i blank = blank := by
      rw [List.getD_eq_getElem?_getD, List.getElem?_eq_none
        (by simp only [expCells, List.length_map, List.length_range]; exact hge)]
      rfl
    have hsold : (s.text t).getD i blank = blank := by
      rw [List.getD_eq_getElem?_getD, List.getElem?_eq_none (by rw [hlen, ← holdlen]; exact hge)]
      rfl
    rw [hnew, hsold]
    have hfind : ((addressed g).filter (fun a => a.1 = t)).find? (fun a => a.2.1 = i) = none := by
      cases hf : ((addressed g).filter (fun a => a.1 = t)).find? (fun a => a.2.1 = i) with
      | none => rfl
      | some x =>
        have := ac5_find_in_range g t i x hf
        omega
    rw [hfind]
    simp [blank]

/-! ## the history theorem -/

theorem ac5_lastCorr_le (t : TextId) (k : BlockType) (ops : List Op) : lastCorr t k ops ≤ 2 := by
  induction ops using wd_snoc_ind with
  | hnil => exact Nat.zero_le _
  | hsnoc l a ih =>
    rw [wd_lastCorr_snoc]
    split
    · exact Nat.zero_le _
    · split
      · exact Nat.min_le_right _ _
      · exact ih
    · exact ih

/-- the thresholds are at most 2 in every reachable state (arbitrary tables) -/
theorem ac5_setOk_run (cfg : Cfg) (ops : List Op) : (run cfg ops).set.Ok := by
  have h := fun t k => (C17_worded cfg ops t k).1 ▸ ac5_lastCorr_le t k ops
  exact ⟨h .ps .info, h .ps .data, h .rt .info, h .rt .data, h .ptyn .info, h .ptyn .data⟩

theorem ac5_init_text_getD (t i : Nat) : (initState.text t).getD i blank = blank := by
  match t with
  | 0 => exact getD_replicate_same _ _ _
  | 1 => exact getD_replicate_same _ _ _
  | 2 => exact getD_replicate_same _ _ _
  | _ + 3 => exact getD_replicate_same _ _ _

theorem ac5_clear_text (s : State) (t : Nat) : (clearState s).text t = (s.text t).cleared := by
  match t with
  | 0 => rfl
  | 1 => rfl
  | 2 => rfl
  | _ + 3 => rfl

/-- **C16, "availability is true exactly when some cell has been received": the history link.** For every table
configuration, every history `ops` from initialisation, every text `t` (0 = PS, 1 = RT A, 2 = RT B, 3 = PTYN) and every
cell index `i` (any natural; an index outside the text reads as a never-received cell): the cell's level differs from
10 = "never received" **iff** the history contains, after the last reset of that text (`init`, `clear`, or — for RT — a
group switching to that buffer), an accepted reception addressed to that cell (`ac5_received`, read off the op list
only). -/
theorem C16_level_received (cfg : Cfg) (ops : List Op) (t : Nat) (ht : t < 4) :
    ∀ i, (((run cfg ops).text t).getD i blank).lvl ≠ 10 ↔ ac5_received ops t i = true := by
  induction ops using wd_snoc_ind with
  | hnil =>
    intro i
    show ((initState.text t).getD i blank).lvl ≠ 10 ↔ _
    rw [ac5_init_text_getD, ac5_received_nil]
    simp [blank]
  | hsnoc l a ih =>
    intro i
    rw [run_snoc, ac5_received_snoc]
    rcases wd_op_cases a with h | h | ⟨g, hg⟩ | ⟨hg, h1, h2⟩
    · subst h
      show ((initState.text t).getD i blank).lvl ≠ 10 ↔ _
      rw [ac5_init_text_getD, ac5_next_init]
      simp [blank]
    · subst h
      show (((clearState (run cfg l)).text t).getD i blank).lvl ≠ 10 ↔ _
      rw [ac5_clear_text, ac5_getD_cleared, ac5_next_clear]
      simp [blank]
    · rw [step_of_group _ _ _ _ hg, ac5_next_group _ _ _ g _ _ hg,
        ac5_process_cell cfg _ g (ac5_lens_run cfg l) (ac5_setOk_run cfg l) t ht i, ih i, ac5_accepted_eq,
        ac5_lastFlag_run cfg l, (C17_worded cfg l (textIdOf t) .info).1, (C17_worded cfg l (textIdOf t) .data).1]
      generalize ac5_received l t i = r
      generalize ac5_flagSwitch (ac5_lastFlag l) g t = fs
      generalize ac5_acc _ _ _ g t i = ac
      cases r <;> cases fs <;> cases ac <;> simp
    · rw [step_text_none _ _ _ h1 h2 hg, ac5_next_quiet _ _ _ _ _ hg h1 h2]
      exact ih i

/-- the same with list indexing, for a cell index inside the text -/
theorem C16_level_received_getElem (cfg : Cfg) (ops : List Op) (t : Nat) (ht : t < 4) (i : Nat)
    (hi : i < ((run cfg ops).text t).length) :
    ((run cfg ops).text t)[i].lvl ≠ 10 ↔ ac5_received ops t i = true := by
  rw [← C16_level_received cfg ops t ht i, getD_eq_getElem' _ _ hi]

/-- an index outside the capacity is never received -/
theorem ac5_received_in_range (ops : List Op) (t : Nat) (ht : t < 4) (i : Nat)
    (h : ac5_received ops t i = true) : i < capOf t := by
  have h1 := (C16_level_received ac5_cfg0 ops t ht i).2 h
  have hlen := ac5_text_length _ (ac5_lens_run ac5_cfg0 ops) t ht
  by_cases hi : i < capOf t
  · exact hi
  · exfalso
    apply h1
    rw [List.getD_eq_getElem?_getD, List.getElem?_eq_none (by omega)]
    rfl

/-- **C16, availability.** The availability flag a getter reports for text `t` is true exactly when some cell of that
text has been received according to the history. -/
theorem C16_available_received (cfg : Cfg) (ops : List Op) (t : Nat) (ht : t < 4) :
    ((Obs.ofState (run cfg ops)).text t).av = true ↔ ∃ i, i < capOf t ∧ ac5_received ops t i = true := by
  have hav : ((Obs.ofState (run cfg ops)).text t).av = getAvailable ((run cfg ops).text t) := by
    have : t = 0 ∨ t = 1 ∨ t = 2 ∨ t = 3 := by omega
    rcases this with e | e | e | e <;> subst e <;> rfl
  have hlen := ac5_text_length _ (ac5_lens_run cfg ops) t ht
  rw [hav]
  constructor
  · intro h
    unfold getAvailable at h
    rw [List.any_eq_true] at h
    obtain ⟨c, hc, hl⟩ := h
    obtain ⟨i, hi, e⟩ := List.getElem_of_mem hc
    refine ⟨i, by omega, (C16_level_received_getElem cfg ops t ht i hi).1 ?_⟩
    rw [e]
    simpa using hl
  · rintro ⟨i, hi, h⟩
    have hi' : i < ((run cfg ops).text t).length := by omega
    have := (C16_level_received_getElem cfg ops t ht i hi').2 h
    unfold getAvailable
    rw [List.any_eq_true]
    exact ⟨_, List.getElem_mem hi', by simpa using this⟩

/-! ## the same in the property's own words: "there is a call in the history, after the last reset of that text, ..." -/

/-- the call `op`, made after history `hist`, resets text `t`: `init`, `clear`, or a group switching to that RT
buffer -/
def ac5_resets (hist : List Op) (op : Op) (t : Nat) : Bool :=
  op = .init || op = .clear ||
  match op.group? with
  | some g => ac5_flagSwitch (ac5_lastFlag hist) g t
  | none => false

/-- the call `op`, made after history `hist`, is an accepted reception addressed to cell `i` of text `t` -/
def ac5_receives (hist : List Op) (op : Op) (t i : Nat) : Bool :=
  match op.group? with
  | some g => ac5_accepted hist g t i
  | none => false

theorem ac5_next_eq (hist : List Op) (r : Bool) (op : Op) (t i : Nat) :
    ac5_next hist r op t i = ((r && !ac5_resets hist op t) || ac5_receives hist op t i) := by
  rcases wd_op_cases op with h | h | ⟨g, hg⟩ | ⟨hg, h1, h2⟩
  · subst h; simp [ac5_next, ac5_resets, ac5_receives, Op.group?]
  · subst h; simp [ac5_next, ac5_resets, ac5_receives, Op.group?]
  · obtain ⟨h1, h2⟩ := wd_group_ne_init hg
    rw [ac5_next_group _ _ _ g _ _ hg]
    simp [ac5_resets, ac5_receives, hg, h1, h2]
  · rw [ac5_next_quiet _ _ _ _ _ hg h1 h2]
    simp [ac5_resets, ac5_receives, hg, h1, h2]

/-- `ac5_received` in the words of the property: the `k`-th call of the history (for some `k`) is an accepted
reception addressed to the cell, and no later call resets the text. (A group that switches to an RT buffer and carries
characters for it empties the buffer FIRST, so the same call may be both the reset and the reception: only resets at
later calls `j > k` cancel it.) -/
theorem ac5_received_iff_exists (ops : List Op) (t i : Nat) :
    ac5_received ops t i = true ↔
      ∃ k op, ops[k]? = some op ∧ ac5_receives (ops.take k) op t i = true ∧
        ∀ j op', k < j → ops[j]? = some op' → ac5_resets (ops.take j) op' t = false := by
  induction ops using wd_snoc_ind with
  | hnil =>
    rw [ac5_received_nil]
    constructor
    · intro h; cases h
    · rintro ⟨k, op, h, _⟩; simp at h
  | hsnoc l a ih =>
    rw [ac5_received_snoc, ac5_next_eq]
    constructor
    · intro h
      rw [Bool.or_eq_true, Bool.and_eq_true] at h
      rcases h with ⟨hr, hres⟩ | hrec
      · obtain ⟨k, op, hk, hrc, hno⟩ := ih.1 hr
        have hkl : k < l.length := by
          rcases Nat.lt_or_ge k l.length with h | h
          · exact h
          · rw [List.getElem?_eq_none h] at hk; cases hk
        refine ⟨k, op, ?_, ?_, ?_⟩
        · rw [List.getElem?_append_left hkl]; exact hk
        · rw [List.take_append_of_le_length (by omega)]; exact hrc
        · intro j op' hkj hj
          rcases Nat.lt_or_ge j l.length with hjl | hjl
          · rw [List.getElem?_append_left hjl] at hj
            rw [List.take_append_of_le_length (by omega)]
            exact hno j op' hkj hj
          · have hjl' : j = l.length := by
              rcases Nat.lt_or_ge l.length j with h | h
              · rw [List.getElem?_eq_none (by simp; omega)] at hj; cases hj
              · omega
            subst hjl'
            rw [List.getElem?_append_right (Nat.le_refl _)] at hj
            simp only [Nat.sub_self, List.getElem?_cons_zero, Option.some.injEq] at hj
            subst hj
            rw [List.take_left']
            · simpa using hres
            · rfl
      · refine ⟨l.length, a, ?_, ?_, ?_⟩
        · rw [List.getElem?_append_right (Nat.le_refl _)]; simp
        · rw [List.take_left' rfl]; exact hrec
        · intro j op' hkj hj
          rw [List.getElem?_eq_none (by simp; omega)] at hj; cases hj
    · rintro ⟨k, op, hk, hrc, hno⟩
      rw [Bool.or_eq_true, Bool.and_eq_true]
      rcases Nat.lt_or_ge k l.length with hkl | hkl
      · left
        rw [List.getElem?_append_left hkl] at hk
        rw [List.take_append_of_le_length (by omega)] at hrc
        constructor
        · refine ih.2 ⟨k, op, hk, hrc, ?_⟩
          intro j op' hkj hj
          have hjl : j < l.length := by
            rcases Nat.lt_or_ge j l.length with h | h
            · exact h
            · rw [List.getElem?_eq_none h] at hj; cases hj
          have := hno j op' hkj (by rw [List.getElem?_append_left hjl]; exact hj)
          rw [List.take_append_of_le_length (by omega)] at this
          exact this
        · have := hno l.length a hkl (by rw [List.getElem?_append_right (Nat.le_refl _)]; simp)
          rw [List.take_left' rfl] at this
          simp [this]
      · right
        have hkl' : k = l.length := by
          rcases Nat.lt_or_ge l.length k with h | h
          · rw [List.getElem?_eq_none (by simp; omega)] at hk; cases hk
          · omega
        subst hkl'
        rw [List.getElem?_append_right (Nat.le_refl _)] at hk
        simp only [Nat.sub_self, List.getElem?_cons_zero, Option.some.injEq] at hk
        subst hk
        rw [List.take_left' rfl] at hrc
        exact hrc

/-- **C16 history link, existential form.** The cell's level differs from 10 iff some call `k` of the history was an
accepted reception addressed to it and no later call reset that text. -/
theorem C16_level_received_exists (cfg : Cfg) (ops : List Op) (t : Nat) (ht : t < 4) (i : Nat) :
    (((run cfg ops).text t).getD i blank).lvl ≠ 10 ↔
      ∃ k op, ops[k]? = some op ∧ ac5_receives (ops.take k) op t i = true ∧
        ∀ j op', k < j → ops[j]? = some op' → ac5_resets (ops.take j) op' t = false := by
  rw [C16_level_received cfg ops t ht i, ac5_received_iff_exists]

/-- C08 empties the buffer only "if it holds something". Reading the reset with that extra condition
(some cell of the text has been received so far) gives the same answer: forgetting nothing is no change. -/
theorem ac5_next_switch_if_available (hist : List Op) (op : Op) (g : Group) (t i : Nat) (ht : t < 4)
    (hg : op.group? = some g) :
    ac5_next hist (ac5_received hist t i) op t i =
      ((ac5_received hist t i &&
          !(ac5_flagSwitch (ac5_lastFlag hist) g t && (List.range (capOf t)).any (fun j => ac5_received hist t j))) ||
        ac5_accepted hist g t i) := by
  rw [ac5_next_group _ _ _ g _ _ hg]
  cases hr : ac5_received hist t i
  · rfl
  · have hi := ac5_received_in_range hist t ht i hr
    have : (List.range (capOf t)).any (fun j => ac5_received hist t j) = true := by
      rw [List.any_eq_true]
      exact ⟨i, List.mem_range.2 hi, hr⟩
    rw [this, Bool.and_true]

/-- on a cell that does not count as received (or whose buffer the group switches to), a delivered group is an
accepted reception addressed to the cell exactly when the model stores into it: the cell becomes a received one -/
theorem ac5_accepted_iff_stores (cfg : Cfg) (ops : List Op) (g : Group) (t : Nat) (ht : t < 4) (i : Nat)
    (hnot : ac5_received ops t i = false ∨ ac5_flagSwitch (ac5_lastFlag ops) g t = true) :
    ac5_accepted ops g t i = true ↔
      (((process cfg (run cfg ops) g).1.text t).getD i blank).lvl ≠ 10 := by
  rw [ac5_process_cell cfg _ g (ac5_lens_run cfg ops) (ac5_setOk_run cfg ops) t ht i,
    C16_level_received cfg ops t ht i, ac5_accepted_eq, ac5_lastFlag_run cfg ops,
    (C17_worded cfg ops (textIdOf t) .info).1, (C17_worded cfg ops (textIdOf t) .data).1]
  constructor
  · intro h; exact Or.inr h
  · rintro (⟨h1, h2⟩ | h)
    · rcases hnot with h' | h'
      · rw [h'] at h1; cases h1
      · rw [h'] at h2; cases h2
    · exact h

/-! ## non-vacuity -/

/-- PS: a 0A group at address 1 makes cells 2 and 3 received and no other -/
example :
    (List.range 8).map (ac5_received [.parse ⟨0x1234, 0x0401, 0xE0CD, 0x4142, 0, 0, 0, 0⟩] 0) =
      [false, false, true, true, false, false, false, false] ∧
    (List.range 8).map (fun i => decide
      ((((run ac5_cfg0 [.parse ⟨0x1234, 0x0401, 0xE0CD, 0x4142, 0, 0, 0, 0⟩]).text 0).getD i blank).lvl ≠ 10)) =
      [false, false, true, true, false, false, false, false] := by decide

/-- thresholds and character rules: data level 1 is refused under the default threshold 0, taken after the threshold
is raised (written 5, clamped to 2); the control code 0x09 is never taken -/
example :
    (List.range 8).map (ac5_received
      [.parse ⟨0x1234, 0x0402, 0xE0CD, 0x4142, 0, 0, 0, 1⟩, .setCorr .ps .data 5,
       .parse ⟨0x1234, 0x0403, 0xE0CD, 0x4109, 0, 0, 0, 1⟩] 0) =
      [false, false, false, false, false, false, true, false] := by decide

/-- RT A/B switch: cells 0..3 of RT A are received, a type-2 group with flag B follows, then a group with flag A
addressed to cells 4..7: RT A is emptied first, so cell 0 is no longer received, cell 4 is, and RT B keeps its cell 0;
model and history reading agree -/
example :
    let ops : List Op := [.parse ⟨0x1234, 0x2000, 0x4142, 0x4344, 0, 0, 0, 0⟩,
                          .parse ⟨0x1234, 0x2010, 0x4142, 0x4344, 0, 0, 0, 0⟩,
                          .parse ⟨0x1234, 0x2001, 0x4142, 0x4344, 0, 0, 0, 0⟩]
    (ac5_received ops 1 0 = false ∧ ac5_received ops 1 4 = true ∧ ac5_received ops 2 0 = true) ∧
    ((((run ac5_cfg0 ops).text 1).getD 0 blank).lvl = 10 ∧ (((run ac5_cfg0 ops).text 1).getD 4 blank).lvl = 0 ∧
      (((run ac5_cfg0 ops).text 2).getD 0 blank).lvl = 0) ∧
    ac5_received (ops.take 1) 1 0 = true := by decide

/-- `clear` forgets, a later reception counts again -/
example :
    ac5_received [.parse ⟨0x1234, 0xA001, 0x4142, 0x4344, 0, 0, 0, 0⟩, .clear] 3 4 = false ∧
    ac5_received [.parse ⟨0x1234, 0xA001, 0x4142, 0x4344, 0, 0, 0, 0⟩, .clear,
                  .parseString (some [0x31, 0x32, 0x33, 0x34, 0x41, 0x30, 0x30, 0x31, 0x34, 0x31, 0x34, 0x32, 0x34, 0x33, 0x34, 0x34])]
      3 7 = true := by decide

end RDS
