import RdsModel
import RdsSpec.Monitors
import RdsSpec.Statements
import RdsProofs.Frame
import RdsProofs.Inv
/-!
# RdsProofs.C05Proofs — index safety of the model (the logic part of C05)
-/
namespace RDS

def capOf : Nat → Nat | 0 => capPs | 1 => capRt | 2 => capRt | _ => capPtyn

/-- every cell index a group addresses is inside the capacity of the addressed text, whatever block B contains -/
theorem C05_addressed_in_range (g : Group) : ∀ a ∈ addressed g, a.1 ≤ 3 ∧ a.2.1 < capOf a.1 := by
  intro a ha
  unfold addressed at ha
  simp only at ha
  have hfl : g.b / 16 % 2 = 0 ∨ g.b / 16 % 2 = 1 := by omega
  split at ha
  · simp only [List.mem_cons, List.not_mem_nil, or_false] at ha
    rcases ha with rfl | rfl <;> simp only [capOf, capPs] <;> omega
  · split at ha
    · split at ha
      · simp only [List.mem_cons, List.not_mem_nil, or_false] at ha
        rcases hfl with h | h <;> rw [h] at ha <;>
          rcases ha with rfl | rfl <;> simp only [capOf, capRt] <;> omega
      · simp only [List.mem_cons, List.not_mem_nil, or_false] at ha
        rcases hfl with h | h <;> rw [h] at ha <;>
          rcases ha with rfl | rfl | rfl | rfl <;> simp only [capOf, capRt] <;> omega
    · split at ha
      · simp only [List.mem_cons, List.not_mem_nil, or_false] at ha
        rcases ha with rfl | rfl | rfl | rfl <;> simp only [capOf, capPtyn] <;> omega
      · simp at ha

/-- `updateSingle` never reports out-of-range on an existing cell -/
theorem c05_updateSingle_some_ne_oob (cfg : Cfg) (t : Text) (b ei ed pos : Nat) (prog : Bool) (cell : Cell)
    (h : t[pos]? = some cell) : (updateSingle cfg t b ei ed pos prog).2 ≠ Store.oob := by
  unfold updateSingle
  simp only [h]
  (repeat' split) <;> simp

/-- `updateSingle` reports out-of-range exactly when the index is outside the buffer, and then changes nothing -/
theorem C05_oob_iff (cfg : Cfg) (t : Text) (b ei ed pos : Nat) (prog : Bool) :
    ((updateSingle cfg t b ei ed pos prog).2 = Store.oob ↔ t.length ≤ pos) ∧
    (t.length ≤ pos → (updateSingle cfg t b ei ed pos prog).1 = t) := by
  constructor
  · constructor
    · intro h
      cases hc : t[pos]? with
      | none => exact List.getElem?_eq_none_iff.mp hc
      | some cell => exact absurd h (c05_updateSingle_some_ne_oob cfg t b ei ed pos prog cell hc)
    · intro h
      have hn : t[pos]? = none := List.getElem?_eq_none_iff.mpr h
      simp [updateSingle, hn]
  · intro h
    have hn : t[pos]? = none := List.getElem?_eq_none_iff.mpr h
    simp [updateSingle, hn]

/-- the positions the handlers pass are in range -/
theorem C05_positions (b : Nat) :
    2 * (b % 4) + 1 < capPs ∧ 4 * (b % 16) + 3 < capRt ∧ 2 * (b % 16) + 1 < capRt ∧ 4 * (b % 2) + 3 < capPtyn := by
  simp only [capPs, capRt, capPtyn]
  omega

/-- AF bitmap index is inside the 26-byte bitmap for every accepted code -/
theorem C05_af_index (v : Nat) (h : afValid v = true) : v < afBits ∧ v / 8 < 26 := by
  simp only [afValid, Bool.and_eq_true, decide_eq_true_eq] at h
  simp only [afBits]
  omega

/-- a store never changes a buffer's length -/
theorem C05_length (cfg : Cfg) (t : Text) (b ei ed pos : Nat) (prog : Bool) :
    (updateSingle cfg t b ei ed pos prog).1.length = t.length := by
  unfold updateSingle
  simp only
  (repeat' split) <;> simp

#print axioms C05_addressed_in_range
#print axioms C05_oob_iff
#print axioms C05_positions
#print axioms C05_af_index
#print axioms C05_length

end RDS
