import RdsProofs.Frame
import RdsProofs.Inv
/-!
# RdsProofs.WFBase — component view of `WF` and the per-component preservation lemmas
-/
namespace RDS

/-! ## component predicates -/

/-- a text buffer of capacity `cap` is well-formed -/
def TxtWF (cfg : Cfg) (cap : Nat) (t : Text) : Prop := t.length = cap ∧ TextOk cfg t

/-- an AF bitmap is well-formed -/
def AfWF (af : List Bool) : Prop :=
  af.length = afBits ∧ ∀ v, af.getD v false = true → afValid v = true

def LastOk (l : Int) : Prop := l = -1 ∨ l = 0 ∨ l = 1

def CountryOk (tb : Tabs) (c : Int) : Prop := 0 ≤ c ∧ c < tb.countryCount

theorem wf_iff (tb : Tabs) (s : State) :
    WF tb s ↔
      (TxtWF tb.cfg capPs s.ps ∧ TxtWF tb.cfg capRt s.rt0 ∧ TxtWF tb.cfg capRt s.rt1 ∧
        TxtWF tb.cfg capPtyn s.ptyn) ∧
      (s.termPs = 0 ∧ s.termRt0 = 0 ∧ s.termRt1 = 0 ∧ s.termPtyn = 0) ∧
      s.set.Ok ∧ LastOk s.lastRt ∧ AfWF s.used.af ∧ AfWF s.temp.af ∧ s.cbs.length = 12 ∧
      CountryOk tb s.used.country := by
  constructor
  · intro h
    exact ⟨⟨⟨h.psLen, h.psOk⟩, ⟨h.rt0Len, h.rt0Ok⟩, ⟨h.rt1Len, h.rt1Ok⟩, ⟨h.ptynLen, h.ptynOk⟩⟩,
      ⟨h.termPs, h.termRt0, h.termRt1, h.termPtyn⟩, h.setOk, h.lastRt,
      ⟨h.usedAfLen, h.usedAfValid⟩, ⟨h.tempAfLen, h.tempAfValid⟩, h.cbsLen, h.country⟩
  · rintro ⟨⟨⟨a1, a2⟩, ⟨b1, b2⟩, ⟨c1, c2⟩, ⟨d1, d2⟩⟩, ⟨t1, t2, t3, t4⟩, hs, hl, ⟨u1, u2⟩, ⟨v1, v2⟩,
      hc, hk⟩
    exact ⟨a1, b1, c1, d1, a2, b2, c2, d2, t1, t2, t3, t4, hs, hl, u1, v1, u2, v2, hc, hk⟩

/-! ## cells and texts -/

theorem cellOk_blank (cfg : Cfg) : CellOk cfg blank :=
  ⟨by decide, fun _ => rfl, Or.inr (Or.inl rfl)⟩

theorem txtWF_cleared {cfg : Cfg} {cap : Nat} {t : Text} (h : TxtWF cfg cap t) :
    TxtWF cfg cap t.cleared := by
  refine ⟨by simpa [Text.cleared] using h.1, ?_⟩
  intro c hc
  simp only [Text.cleared, List.mem_map] at hc
  obtain ⟨_, _, rfl⟩ := hc
  exact cellOk_blank cfg

theorem txtWF_replicate (cfg : Cfg) (cap : Nat) : TxtWF cfg cap (List.replicate cap blank) := by
  refine ⟨List.length_replicate, ?_⟩
  intro c hc
  rw [List.eq_of_mem_replicate hc]
  exact cellOk_blank cfg

theorem calcError_le {ei ed : Nat} (hi : ei ≤ 2) (hd : ed ≤ 2) : calcError ei ed ≤ 9 := by
  unfold calcError; split <;> omega

theorem conv_cr (cfg : Cfg) : conv cfg 0x0D = 0 := by simp [conv]

theorem updateSingle_wf {cfg : Cfg} {cap : Nat} {t : Text} (h : TxtWF cfg cap t)
    {b ei ed : Nat} (pos : Nat) (prog : Bool) (hi : ei ≤ 2) (hd : ed ≤ 2) (hb : b < 256) :
    TxtWF cfg cap (updateSingle cfg t b ei ed pos prog).1 := by
  unfold updateSingle
  split
  · exact h
  · simp only
    split; · exact h
    split; · exact h
    split; · exact h
    split; · exact h
    split; · exact h
    rename_i _ _ _ _ hlow _ _
    refine ⟨by simpa [List.length_set] using h.1, ?_⟩
    intro c hc
    rcases List.mem_or_eq_of_mem_set hc with hc | rfl
    · exact h.2 c hc
    · have hle := calcError_le hi hd
      refine ⟨by simp only; omega, fun h10 => by simp only at h10; omega, ?_⟩
      simp only
      by_cases hcr : b = 0x0D
      · left; rw [hcr]; exact conv_cr cfg
      · right; right
        refine ⟨b, ?_, hb, rfl⟩
        simp only [Bool.and_eq_true, bne_iff_ne, ne_eq, decide_eq_true_eq, not_and, Nat.not_lt] at hlow
        exact hlow hcr

theorem updateString_wf {cfg : Cfg} {cap : Nat} {t : Text} (h : TxtWF cfg cap t)
    {ei ed : Nat} (w pos : Nat) (prog : Bool) (hi : ei ≤ 2) (hd : ed ≤ 2) :
    TxtWF cfg cap (updateString cfg t w ei ed pos prog).1 := by
  unfold updateString
  exact updateSingle_wf (updateSingle_wf h pos prog hi hd (by omega)) (pos + 1) prog hi hd (by omega)

theorem Settings.Ok.corr_le {set : Settings} (h : set.Ok) (id : TextId) (k : BlockType) :
    set.corr id k ≤ 2 := by
  obtain ⟨h1, h2, h3, h4, h5, h6⟩ := h
  cases id <;> cases k <;> assumption

theorem parserUpdate_wf {cfg : Cfg} {cap : Nat} {t : Text} (h : TxtWF cfg cap t)
    {set : Settings} (hs : set.Ok) (id : TextId) (w eb ex pos : Nat) :
    TxtWF cfg cap (parserUpdate cfg set t id w eb ex pos).1 := by
  unfold parserUpdate
  split
  · rename_i hg
    simp only [Bool.and_eq_true, decide_eq_true_eq] at hg
    have h1 := hs.corr_le id .info
    have h2 := hs.corr_le id .data
    exact updateString_wf h w pos _ (by omega) (by omega)
  · exact h

/-! ## AF bitmaps -/

theorem afWF_afSet {af : List Bool} (h : AfWF af) (v : Nat) : AfWF (afSet af v).1 := by
  unfold afSet
  split
  · rename_i hv
    refine ⟨by simpa [List.length_set] using h.1, ?_⟩
    intro v' hv'
    by_cases e : v = v'
    · rw [← e]; exact hv
    · apply h.2
      simpa [List.getD_eq_getElem?_getD, List.getElem?_set, e] using hv'
  · exact h

theorem afWF_replicate : AfWF (List.replicate afBits false) := by
  refine ⟨List.length_replicate, ?_⟩
  intro v hv
  simp [List.getD_eq_getElem?_getD, List.getElem?_replicate] at hv
  split at hv <;> simp at hv

theorem addAf_used_af_wf {s : State} (v : Nat) (h : AfWF s.used.af) : AfWF (addAf s v).1.used.af := by
  unfold addAf
  split; · exact h
  split; · exact h
  exact afWF_afSet h v

theorem addAf_temp_af_wf {s : State} (v : Nat) (h : AfWF s.temp.af) : AfWF (addAf s v).1.temp.af := by
  unfold addAf
  split; · exact h
  split; · exact afWF_afSet h v
  exact h

@[simp] theorem addAf_used_country (s : State) (v : Nat) :
    (addAf s v).1.used.country = s.used.country := addAf_used_get s v .country

/-! ## country -/

theorem bufUpdate_fst (ext : Bool) (u t v : Int) :
    (bufUpdate ext u t v).1 = u ∨ (bufUpdate ext u t v).1 = v := by
  unfold bufUpdate
  split
  · left; rfl
  · right; rfl

theorem setField_used_country (s : State) (f : Fld) (v : Int) :
    (setField s f v).1.used.country = s.used.country ∨
      (f = .country ∧ (setField s f v).1.used.country = v) := by
  cases f
  case country =>
    have e := setField_used_get s .country v
    change (setField s .country v).1.used.country = _ at e
    rcases bufUpdate_fst s.set.ext (s.used.get .country) (s.temp.get .country) v with h | h
    · left; rw [e, h]; rfl
    · right; rw [e, h]; exact ⟨rfl, rfl⟩
  all_goals (left; rfl)

theorem eccLookup_ok {tb : Tabs} (h : EccOk tb) (pi ecc : Int) :
    CountryOk tb (eccLookup tb.cfg pi ecc) := by
  obtain ⟨h0, h1⟩ := h
  unfold eccLookup CountryOk
  split
  · omega
  · simp only
    split
    · omega
    · have := h1 (pi.toNat / 4096 % 16) ecc.toNat
      omega

end RDS
