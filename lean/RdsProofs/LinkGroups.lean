import RdsProofs.LinkBase
/-!
# RdsProofs.LinkGroups — `Link` through the group handlers, and the events they emit
-/
namespace RDS

/-! ## the monitor's `group`, decomposed along the model's handlers -/

def Mon.common (m : Mon) (g : Group) : Mon :=
  let m1 := if g.ea = 0 then m.recvF .pi g.a else m
  if g.eb = 0 then (m1.recvF .pty (g.b / 32 % 32 : Nat)).recvF .tp (g.b / 1024 % 2 : Nat) else m1

def Mon.g0 (m : Mon) (g : Group) : Mon :=
  let m1 := if g.eb = 0 then (m.recvF .ta (g.b / 16 % 2 : Nat)).recvF .ms (g.b / 8 % 2 : Nat) else m
  if !g.versionB && g.eb = 0 && g.ec = 0 && g.c / 256 % 256 != 250 then
    (m1.afRecv (g.c / 256 % 256)).afRecv (g.c % 256)
  else m1

def Mon.g1 (cfg : Cfg) (m : Mon) (g : Group) : Mon :=
  if !g.versionB && g.eb = 0 && g.ec = 0 && g.c / 4096 % 8 = 0 then
    let m1 := m.recvF .ecc (g.c % 256 : Nat)
    m1.recvF .country (eccLookupT cfg m1.pi.vis (g.c % 256))
  else m

def Mon.g2 (m : Mon) (g : Group) : Mon :=
  if g.eb = 0 then { m with lastFlag := (g.b / 16 % 2 : Nat) } else m

def Mon.disp (cfg : Cfg) (m : Mon) (g : Group) : Mon :=
  if g.type = 0 then m.g0 g
  else if g.type = 1 then m.g1 cfg g
  else if g.type = 2 then m.g2 g
  else m

theorem Mon.group_eq (cfg : Cfg) (m : Mon) (g : Group) :
    m.group cfg g = (m.common g).disp cfg g := by
  unfold Mon.group Mon.disp Mon.common Mon.g0 Mon.g1 Mon.g2
  by_cases h0 : g.type = 0
  · have h2 : ¬ g.type = 2 := by omega
    by_cases ha : g.ea = 0 <;> by_cases hb : g.eb = 0 <;> simp only [h0, ha, hb] <;> rfl
  · by_cases h1 : g.type = 1
    · by_cases ha : g.ea = 0 <;> by_cases hb : g.eb = 0 <;> simp only [h1, ha, hb] <;> rfl
    · by_cases h2 : g.type = 2
      · by_cases ha : g.ea = 0 <;> by_cases hb : g.eb = 0 <;> simp only [h2, ha, hb] <;> rfl
      · by_cases ha : g.ea = 0 <;> by_cases hb : g.eb = 0 <;> simp only [h0, h1, h2, ha, hb] <;> rfl

/-! ## states that differ only in parts `Link` does not read -/

theorem linkL_congr {m : Mon} {s s' : State} (h : LinkL m s)
    (hused : s'.used = s.used) (htemp : s'.temp = s.temp) (hset : s'.set = s.set)
    (hcbs : s'.cbs = s.cbs) (hud : s'.ud = s.ud) (hlast : s'.lastRt = s.lastRt) : LinkL m s' := by
  obtain ⟨hl, hu, ht⟩ := h
  refine ⟨⟨?_, ?_, ?_, ?_, ?_, hl.cntLen, hl.cntInvalid, ?_, ?_, ?_⟩, ?_, ?_⟩
  · rw [hset]; exact hl.set
  · rw [hset]; exact hl.ext
  · rw [hcbs]; exact hl.cbs
  · rw [hud]; exact hl.ud
  · rw [hlast]; exact hl.lastFlag
  · rw [hset, hused, htemp]; exact hl.fields
  · rw [hset, hused, htemp]; exact hl.af
  · rw [hused, htemp]; exact hl.quiet
  · rw [hused]; exact hu
  · rw [htemp]; exact ht

/-- same, the monitor's `lastFlag` and the model's `lastRt` moving together -/
theorem linkL_lastFlag {m : Mon} {s s' : State} (x : Int) (h : LinkL m s)
    (hused : s'.used = s.used) (htemp : s'.temp = s.temp) (hset : s'.set = s.set)
    (hcbs : s'.cbs = s.cbs) (hud : s'.ud = s.ud) (hlast : s'.lastRt = x) :
    LinkL { m with lastFlag := x } s' := by
  obtain ⟨hl, hu, ht⟩ := h
  refine ⟨⟨?_, ?_, ?_, ?_, ?_, hl.cntLen, hl.cntInvalid, ?_, ?_, ?_⟩, ?_, ?_⟩
  · rw [hset]; exact hl.set
  · rw [hset]; exact hl.ext
  · rw [hcbs]; exact hl.cbs
  · rw [hud]; exact hl.ud
  · rw [hlast]
  · rw [hset, hused, htemp]; exact hl.fields
  · rw [hset, hused, htemp]; exact hl.af
  · rw [hused, htemp]; exact hl.quiet
  · rw [hused]; exact hu
  · rw [htemp]; exact ht

/-! ## frame lemmas for `setRt` and the text-only handlers -/

section setRt
variable (s : State) (fl : Nat) (t : Text)
@[simp] theorem setRt_used : (s.setRt fl t).used = s.used := by unfold State.setRt; split <;> rfl
@[simp] theorem setRt_temp : (s.setRt fl t).temp = s.temp := by unfold State.setRt; split <;> rfl
@[simp] theorem setRt_set : (s.setRt fl t).set = s.set := by unfold State.setRt; split <;> rfl
@[simp] theorem setRt_cbs : (s.setRt fl t).cbs = s.cbs := by unfold State.setRt; split <;> rfl
@[simp] theorem setRt_ud : (s.setRt fl t).ud = s.ud := by unfold State.setRt; split <;> rfl
@[simp] theorem setRt_lastRt : (s.setRt fl t).lastRt = s.lastRt := by unfold State.setRt; split <;> rfl
end setRt

/-- the state of `group2` after the toggle detection -/
def g2s2 (s : State) (g : Group) : State :=
  let flag := g.b / 16 % 2
  let sw := g.eb = 0 && ((flag : Int) != s.lastRt)
  let clr := sw && s.lastRt != -1 && getAvailable (s.rt flag)
  let s1 := if clr then s.setRt flag (s.rt flag).cleared else s
  if sw then { s1 with lastRt := flag } else s1

theorem g2s2_frame (s : State) (g : Group) :
    (g2s2 s g).used = s.used ∧ (g2s2 s g).temp = s.temp ∧
    (g2s2 s g).set = s.set ∧ (g2s2 s g).cbs = s.cbs ∧
    (g2s2 s g).ud = s.ud ∧
    (g2s2 s g).lastRt = if g.eb = 0 then ((g.b / 16 % 2 : Nat) : Int) else s.lastRt := by
  unfold g2s2
  simp only []
  by_cases hb : g.eb = 0
  · by_cases hf : ((g.b / 16 % 2 : Nat) : Int) = s.lastRt
    · simp only [hb, hf, decide_true, Bool.true_and, bne_self_eq_false, Bool.false_and,
        Bool.false_eq_true, if_false, if_true, and_self]
    · have hne : (((g.b / 16 % 2 : Nat) : Int) != s.lastRt) = true := by simpa using hf
      simp only [hb, hne, decide_true, Bool.true_and, if_true]
      split <;> simp
  · simp only [hb, decide_false, Bool.false_and, Bool.false_eq_true, if_false, and_self]

/-- was the addressed RT buffer discarded by the toggle detection? -/
def g2clr (s : State) (g : Group) : Bool :=
  let flag := g.b / 16 % 2
  let sw := g.eb = 0 && ((flag : Int) != s.lastRt)
  sw && s.lastRt != -1 && getAvailable (s.rt flag)

/-- `group2` after the bit-flip guard -/
def g2tail (cfg : Cfg) (s2 : State) (g : Group) (clr : Bool) : State × List Event :=
  let flag := g.b / 16 % 2
  let pos := g.b % 16
  let u1 := if !g.versionB
    then parserUpdate cfg s2.set (s2.rt flag) .rt g.c g.eb g.ec (4 * pos)
    else (s2.rt flag, false)
  let pos2 := if !g.versionB then 4 * pos + 2 else 2 * pos
  let u2 := parserUpdate cfg s2.set u1.1 .rt g.d g.eb g.ed pos2
  let s3 := s2.setRt flag u2.1
  (s3, if clr || u1.2 || u2.2 then emit s3 .rt (.rt flag) else [])

theorem group2_eq (cfg : Cfg) (s : State) (g : Group) :
    group2 cfg s g =
      if g.eb != 0 && ((g.b / 16 % 2 : Nat) : Int) != (g2s2 s g).lastRt && (g2s2 s g).lastRt != -1
      then (g2s2 s g, []) else g2tail cfg (g2s2 s g) g (g2clr s g) := rfl

theorem g2tail_fst (cfg : Cfg) (s2 : State) (g : Group) (clr : Bool) :
    ∃ t, (g2tail cfg s2 g clr).1 = s2.setRt (g.b / 16 % 2) t := ⟨_, rfl⟩

theorem g2tail_snd' (cfg : Cfg) (s2 : State) (g : Group) (clr : Bool) :
    ∃ t c, (g2tail cfg s2 g clr).2 =
      if c = true then emit (s2.setRt (g.b / 16 % 2) t) .rt (.rt (g.b / 16 % 2)) else [] :=
  ⟨_, _, rfl⟩

theorem g2tail_snd (cfg : Cfg) (s2 : State) (g : Group) (clr : Bool) :
    (g2tail cfg s2 g clr).2 = [] ∨
    ∃ t, (g2tail cfg s2 g clr).2 = emit (s2.setRt (g.b / 16 % 2) t) .rt (.rt (g.b / 16 % 2)) := by
  obtain ⟨t, c, h⟩ := g2tail_snd' cfg s2 g clr
  cases c
  · left; rw [h]; rfl
  · right; exact ⟨t, by rw [h]; rfl⟩

theorem group2_fst_cases (cfg : Cfg) (s : State) (g : Group) :
    (group2 cfg s g).1 = g2s2 s g ∨ ∃ t, (group2 cfg s g).1 = (g2s2 s g).setRt (g.b / 16 % 2) t := by
  rw [group2_eq]
  split
  · left; rfl
  · right; exact g2tail_fst _ _ _ _

theorem group2_snd_cases (cfg : Cfg) (s : State) (g : Group) :
    (group2 cfg s g).2 = [] ∨
    ∃ t, (group2 cfg s g).2 = emit ((g2s2 s g).setRt (g.b / 16 % 2) t) .rt (.rt (g.b / 16 % 2)) := by
  rw [group2_eq]
  split
  · left; rfl
  · exact g2tail_snd _ _ _ _

/-- the parts of the state `group2` leaves alone, and what it does to `lastRt` -/
theorem group2_frame (cfg : Cfg) (s : State) (g : Group) :
    (group2 cfg s g).1.used = s.used ∧ (group2 cfg s g).1.temp = s.temp ∧
    (group2 cfg s g).1.set = s.set ∧ (group2 cfg s g).1.cbs = s.cbs ∧
    (group2 cfg s g).1.ud = s.ud ∧
    (group2 cfg s g).1.lastRt = if g.eb = 0 then ((g.b / 16 % 2 : Nat) : Int) else s.lastRt := by
  obtain ⟨e1, e2, e3, e4, e5, e6⟩ := g2s2_frame s g
  rcases group2_fst_cases cfg s g with h | ⟨t, h⟩
  · rw [h]; exact ⟨e1, e2, e3, e4, e5, e6⟩
  · rw [h]; simp only [setRt_used, setRt_temp, setRt_set, setRt_cbs, setRt_ud, setRt_lastRt]
    exact ⟨e1, e2, e3, e4, e5, e6⟩

theorem group4_fst (s : State) (g : Group) : (group4 s g).1 = s := by
  unfold group4
  split
  · simp only []
    split <;> rfl
  · rfl

theorem group10_frame (cfg : Cfg) (s : State) (g : Group) :
    (group10 cfg s g).1.used = s.used ∧ (group10 cfg s g).1.temp = s.temp ∧
    (group10 cfg s g).1.set = s.set ∧ (group10 cfg s g).1.cbs = s.cbs ∧
    (group10 cfg s g).1.ud = s.ud ∧ (group10 cfg s g).1.lastRt = s.lastRt := by
  unfold group10; split <;> simp

/-! ## `LinkL` through the handlers -/

theorem linkL_groupCommon (m : Mon) (s : State) (g : Group) (h : LinkL m s) :
    LinkL (m.common g) (groupCommon s g).1 := by
  unfold groupCommon Mon.common
  simp only []
  have h1 : LinkL (if g.ea = 0 then m.recvF .pi g.a else m)
      (if g.ea = 0 then setField s .pi g.a else (s, [])).1 := by
    split
    · exact linkL_setField _ _ _ _ _ h (fun _ => rfl)
    · exact h
  split
  · exact linkL_setField _ _ _ _ _ (linkL_setField _ _ _ _ _ h1 (fun _ => rfl)) (fun _ => rfl)
  · exact h1

theorem linkL_group0 (cfg : Cfg) (m : Mon) (s : State) (g : Group) (h : LinkL m s) :
    LinkL (m.g0 g) (group0 cfg s g).1 := by
  unfold group0 Mon.g0
  simp only []
  have h1 : LinkL (if g.eb = 0 then (m.recvF .ta (g.b / 16 % 2 : Nat)).recvF .ms (g.b / 8 % 2 : Nat) else m)
      (if g.eb = 0 then
          ((setField (setField s .ta (g.b / 16 % 2 : Nat)).1 .ms (g.b / 8 % 2 : Nat)).1,
            (setField s .ta (g.b / 16 % 2 : Nat)).2 ++
              (setField (setField s .ta (g.b / 16 % 2 : Nat)).1 .ms (g.b / 8 % 2 : Nat)).2)
        else (s, [])).1 := by
    split
    · exact linkL_setField _ _ _ _ _ (linkL_setField _ _ _ _ _ h (fun _ => rfl)) (fun _ => rfl)
    · exact h
  generalize (if g.eb = 0 then (m.recvF .ta (g.b / 16 % 2 : Nat)).recvF .ms (g.b / 8 % 2 : Nat) else m) = m1 at h1 ⊢
  generalize (if g.eb = 0 then
          ((setField (setField s .ta (g.b / 16 % 2 : Nat)).1 .ms (g.b / 8 % 2 : Nat)).1,
            (setField s .ta (g.b / 16 % 2 : Nat)).2 ++
              (setField (setField s .ta (g.b / 16 % 2 : Nat)).1 .ms (g.b / 8 % 2 : Nat)).2)
        else (s, [])) = r1 at h1 ⊢
  have h2 : ∀ t : Text, LinkL m1 { r1.1 with ps := t } :=
    fun t => linkL_congr h1 rfl rfl rfl rfl rfl rfl
  split
  · exact linkL_addAf _ _ _ (linkL_addAf _ _ _ (h2 _))
  · exact h2 _

theorem linkL_group1 (cfg : Cfg) (m : Mon) (s : State) (g : Group) (h : LinkL m s) :
    LinkL (m.g1 cfg g) (group1 cfg s g).1 := by
  unfold group1 Mon.g1
  simp only []
  split
  · have h1 := linkL_setField m s .ecc (g.c % 256 : Nat) (g.c % 256 : Nat) h (fun _ => rfl)
    refine linkL_setField _ _ _ _ _ h1 ?_
    intro hc
    have := (h1.1.fields hc .pi).1
    simp only [eccLookupT]
    rw [show (m.recvF .ecc (g.c % 256 : Nat)).pi.vis = ((m.recvF .ecc (g.c % 256 : Nat)).fld .pi).vis from rfl,
      ← this]
    rfl
  · exact h

theorem linkL_group2 (cfg : Cfg) (m : Mon) (s : State) (g : Group) (h : LinkL m s) :
    LinkL (m.g2 g) (group2 cfg s g).1 := by
  obtain ⟨e1, e2, e3, e4, e5, e6⟩ := group2_frame cfg s g
  unfold Mon.g2
  split
  · rename_i hb
    rw [if_pos hb] at e6
    exact linkL_lastFlag _ h e1 e2 e3 e4 e5 e6
  · rename_i hb
    rw [if_neg hb] at e6
    exact linkL_congr h e1 e2 e3 e4 e5 e6

theorem linkL_group10 (cfg : Cfg) (m : Mon) (s : State) (g : Group) (h : LinkL m s) :
    LinkL m (group10 cfg s g).1 := by
  obtain ⟨e1, e2, e3, e4, e5, e6⟩ := group10_frame cfg s g
  exact linkL_congr h e1 e2 e3 e4 e5 e6

theorem linkL_dispatch (cfg : Cfg) (m : Mon) (s : State) (g : Group) (h : LinkL m s) :
    LinkL (m.disp cfg g) (dispatch cfg s g).1 := by
  unfold dispatch Mon.disp
  by_cases h0 : g.type = 0
  · simp only [if_pos h0]; exact linkL_group0 cfg m s g h
  · by_cases h1 : g.type = 1
    · simp only [if_neg h0, if_pos h1]; exact linkL_group1 cfg m s g h
    · by_cases h2 : g.type = 2
      · simp only [if_neg h0, if_neg h1, if_pos h2]; exact linkL_group2 cfg m s g h
      · by_cases h4 : g.type = 4
        · simp only [if_neg h0, if_neg h1, if_neg h2, if_pos h4]; rw [group4_fst]; exact h
        · by_cases h10 : g.type = 10
          · simp only [if_neg h0, if_neg h1, if_neg h2, if_neg h4, if_pos h10]
            exact linkL_group10 cfg m s g h
          · simp only [if_neg h0, if_neg h1, if_neg h2, if_neg h4, if_neg h10]; exact h

theorem linkL_process (cfg : Cfg) (m : Mon) (s : State) (g : Group) (h : LinkL m s) :
    LinkL (m.group cfg g) (process cfg s g).1 := by
  rw [Mon.group_eq]
  exact linkL_dispatch cfg _ _ g (linkL_groupCommon m s g h)

/-! ## events: every callback invoked is registered and carries the user data -/

/-- the event is one a parser with callback table `cbs` and cookie `ud` may emit -/
def EvOk (cbs : List Bool) (ud : Nat) (e : Event) : Prop :=
  cbs.getD e.kind.cb.idx false = true ∧ e.ud = ud

/-- a handler keeps the observers and emits only `EvOk` events -/
def Pres (s : State) (r : State × List Event) : Prop :=
  r.1.cbs = s.cbs ∧ r.1.ud = s.ud ∧ ∀ e ∈ r.2, EvOk s.cbs s.ud e

theorem Pres.refl (s : State) : Pres s (s, []) := ⟨rfl, rfl, by simp⟩

theorem Pres.trans {s : State} {r1 r2 : State × List Event} (h1 : Pres s r1) (h2 : Pres r1.1 r2) :
    Pres s (r2.1, r1.2 ++ r2.2) := by
  obtain ⟨a1, a2, a3⟩ := h1
  obtain ⟨b1, b2, b3⟩ := h2
  refine ⟨b1.trans a1, b2.trans a2, ?_⟩
  intro e he
  rcases List.mem_append.mp he with he | he
  · exact a3 e he
  · have := b3 e he; rwa [a1, a2] at this

theorem emit_ok (s : State) {s' : State} {c : Cb} {k : EvKind} {e : Event} (he : e ∈ emit s' c k)
    (hk : k.cb = c) (hc : s'.cbs = s.cbs) (hu : s'.ud = s.ud) : EvOk s.cbs s.ud e := by
  unfold emit at he
  split at he
  · rename_i hr
    simp only [List.mem_singleton] at he
    subst he
    exact ⟨by simpa [hk, State.registered, hc] using hr, hu⟩
  · cases he

theorem pres_setField (s : State) (f : Fld) (v : Int) : Pres s (setField s f v) := by
  refine ⟨rfl, rfl, ?_⟩
  intro e he
  unfold setField at he
  simp only [] at he
  split at he
  · exact emit_ok s he (by cases f <;> rfl) rfl rfl
  · cases he

theorem pres_addAf (s : State) (v : Nat) : Pres s (addAf s v) := by
  refine ⟨addAf_cbs s v, addAf_ud s v, ?_⟩
  intro e he
  unfold addAf at he
  split at he
  · cases he
  · split at he
    · cases he
    · simp only [] at he
      split at he
      · exact emit_ok s he rfl rfl rfl
      · cases he

theorem pres_groupCommon (s : State) (g : Group) : Pres s (groupCommon s g) := by
  unfold groupCommon
  simp only []
  have h1 : Pres s (if g.ea = 0 then setField s .pi g.a else (s, [])) := by
    split
    · exact pres_setField _ _ _
    · exact Pres.refl s
  split
  · have := (h1.trans (pres_setField _ .pty (g.b / 32 % 32 : Nat))).trans
      (pres_setField _ .tp (g.b / 1024 % 2 : Nat))
    exact this
  · exact h1

theorem pres_group0 (cfg : Cfg) (s : State) (g : Group) : Pres s (group0 cfg s g) := by
  unfold group0
  simp only []
  have h1 : Pres s (if g.eb = 0 then
          ((setField (setField s .ta (g.b / 16 % 2 : Nat)).1 .ms (g.b / 8 % 2 : Nat)).1,
            (setField s .ta (g.b / 16 % 2 : Nat)).2 ++
              (setField (setField s .ta (g.b / 16 % 2 : Nat)).1 .ms (g.b / 8 % 2 : Nat)).2)
        else (s, [])) := by
    split
    · exact (pres_setField s .ta _).trans (pres_setField _ .ms _)
    · exact Pres.refl s
  generalize (if g.eb = 0 then
          ((setField (setField s .ta (g.b / 16 % 2 : Nat)).1 .ms (g.b / 8 % 2 : Nat)).1,
            (setField s .ta (g.b / 16 % 2 : Nat)).2 ++
              (setField (setField s .ta (g.b / 16 % 2 : Nat)).1 .ms (g.b / 8 % 2 : Nat)).2)
        else (s, [])) = r1 at h1 ⊢
  generalize (parserUpdate cfg r1.1.set r1.1.ps .ps g.d g.eb g.ed (2 * (g.b % 4))) = u
  have h2 : Pres r1.1 ({ r1.1 with ps := u.1 },
      if u.2 = true then emit { r1.1 with ps := u.1 } .ps .ps else []) := by
    refine ⟨rfl, rfl, ?_⟩
    intro e he
    split at he
    · exact emit_ok r1.1 he rfl rfl rfl
    · cases he
  have h3 := h1.trans h2
  split
  · have h4 := (h3.trans (pres_addAf _ (g.c / 256 % 256)))
    have h5 := h4.trans (pres_addAf _ (g.c % 256))
    simpa [List.append_assoc] using h5
  · exact h3

theorem pres_group1 (cfg : Cfg) (s : State) (g : Group) : Pres s (group1 cfg s g) := by
  unfold group1
  simp only []
  split
  · exact (pres_setField s .ecc _).trans (pres_setField _ .country _)
  · exact Pres.refl s

theorem pres_group2 (cfg : Cfg) (s : State) (g : Group) : Pres s (group2 cfg s g) := by
  obtain ⟨_, _, _, e4, e5, _⟩ := group2_frame cfg s g
  refine ⟨e4, e5, ?_⟩
  intro e he
  obtain ⟨_, _, _, f4, f5, _⟩ := g2s2_frame s g
  rcases group2_snd_cases cfg s g with h | ⟨t, h⟩
  · rw [h] at he; cases he
  · rw [h] at he
    exact emit_ok s he rfl (by rw [setRt_cbs, f4]) (by rw [setRt_ud, f5])

theorem pres_group4 (s : State) (g : Group) : Pres s (group4 s g) := by
  refine ⟨by rw [group4_fst], by rw [group4_fst], ?_⟩
  intro e he
  unfold group4 at he
  split at he
  · simp only [] at he
    split at he
    · exact emit_ok s he rfl rfl rfl
    · cases he
  · cases he

theorem pres_group10 (cfg : Cfg) (s : State) (g : Group) : Pres s (group10 cfg s g) := by
  obtain ⟨_, _, _, e4, e5, _⟩ := group10_frame cfg s g
  refine ⟨e4, e5, ?_⟩
  intro e he
  unfold group10 at he
  split at he
  · simp only [] at he
    split at he
    · exact emit_ok s he rfl rfl rfl
    · cases he
  · cases he

theorem pres_dispatch (cfg : Cfg) (s : State) (g : Group) : Pres s (dispatch cfg s g) := by
  unfold dispatch
  split
  · exact pres_group0 cfg s g
  · split
    · exact pres_group1 cfg s g
    · split
      · exact pres_group2 cfg s g
      · split
        · exact pres_group4 s g
        · split
          · exact pres_group10 cfg s g
          · exact Pres.refl s

theorem pres_process (cfg : Cfg) (s : State) (g : Group) : Pres s (process cfg s g) := by
  unfold process
  exact (pres_groupCommon s g).trans (pres_dispatch cfg _ g)

end RDS
